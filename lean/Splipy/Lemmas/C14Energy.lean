import Mathlib.Algebra.Order.BigOperators.Ring.Finset
import Mathlib.Algebra.BigOperators.Intervals
import Mathlib.Tactic.Ring
import Mathlib.Tactic.Linarith
import Mathlib.Tactic.FieldSimp
import Splipy.Lemmas.C16Center
import Splipy.Lemmas.Smooth
import Splipy.Lemmas.C14Natural
set_option linter.unusedSectionVars false
set_option linter.unusedSimpArgs false

/-!
# C14: uniqueness of the natural cubic spline (energy argument, purely algebraic)

On a span `[p, q]` a cubic `Q` satisfies
`(q−p)/3 · (Q''(p)² + Q''(p)Q''(q) + Q''(q)²) = Q'(q)Q''(q) − Q'(p)Q''(p) − Q'''·(Q(q) − Q(p))`
(the left side is `∫ Q''²`).  Summing over the spans of a C² piecewise cubic that vanishes at the
breakpoints and has vanishing second derivative at both ends, the right side telescopes to `0`; the
left side is a sum of positive semidefinite forms, so `Q'' = 0` at every breakpoint, every piece is
affine, and vanishing at both ends of its span it is zero.
-/

namespace Splipy
open Finset

section abstract
variable {K : Type} [Field K] [LinearOrder K] [IsStrictOrderedRing K]

theorem span_energy_c14 (c0 c1 c2 c3 p q : K) :
    (q - p) / 3 * ((2*c2+6*c3*p)^2 + (2*c2+6*c3*p)*(2*c2+6*c3*q) + (2*c2+6*c3*q)^2)
      = (c1+2*c2*q+3*c3*q^2)*(2*c2+6*c3*q) - (c1+2*c2*p+3*c3*p^2)*(2*c2+6*c3*p)
        - 6*c3*((c0+c1*q+c2*q^2+c3*q^3) - (c0+c1*p+c2*p^2+c3*p^3)) := by ring

theorem quad_form_zero_c14 (u v : K) (h : u^2 + u*v + v^2 = 0) : u = 0 ∧ v = 0 := by
  have h1 : (u + v)^2 + u^2 + v^2 = 0 := by nlinarith
  have hu : u^2 = 0 := by nlinarith [sq_nonneg (u+v), sq_nonneg u, sq_nonneg v]
  have hv : v^2 = 0 := by nlinarith [sq_nonneg (u+v), sq_nonneg u, sq_nonneg v]
  exact ⟨pow_eq_zero_iff (by decide) |>.mp hu, pow_eq_zero_iff (by decide) |>.mp hv⟩

/-- **Energy argument** for `N` cubic pieces `c0 k + c1 k·x + c2 k·x² + c3 k·x³` on `[T k, T (k+1)]`. -/
theorem cubic_pieces_zero_c14 (N : ℕ) (hN : 0 < N) (T : ℕ → K) (hT : ∀ k < N, T k < T (k+1))
    (c0 c1 c2 c3 : ℕ → K)
    (hV0 : ∀ k < N, c0 k + c1 k * T k + c2 k * T k ^ 2 + c3 k * T k ^ 3 = 0)
    (hV1 : ∀ k < N, c0 k + c1 k * T (k+1) + c2 k * T (k+1) ^ 2 + c3 k * T (k+1) ^ 3 = 0)
    (hC1 : ∀ k, k + 1 < N → c1 k + 2 * c2 k * T (k+1) + 3 * c3 k * T (k+1) ^ 2
        = c1 (k+1) + 2 * c2 (k+1) * T (k+1) + 3 * c3 (k+1) * T (k+1) ^ 2)
    (hC2 : ∀ k, k + 1 < N → 2 * c2 k + 6 * c3 k * T (k+1) = 2 * c2 (k+1) + 6 * c3 (k+1) * T (k+1))
    (hN0 : (c1 0 + 2 * c2 0 * T 0 + 3 * c3 0 * T 0 ^ 2) * (2 * c2 0 + 6 * c3 0 * T 0) = 0)
    (hN1 : (c1 (N-1) + 2 * c2 (N-1) * T N + 3 * c3 (N-1) * T N ^ 2) * (2 * c2 (N-1) + 6 * c3 (N-1) * T N) = 0) :
    ∀ k < N, c0 k = 0 ∧ c1 k = 0 ∧ c2 k = 0 ∧ c3 k = 0 := by
  -- one-sided products `s'·s''` at the breakpoints
  let g : ℕ → K := fun k =>
    if k < N then (c1 k + 2 * c2 k * T k + 3 * c3 k * T k ^ 2) * (2 * c2 k + 6 * c3 k * T k)
    else (c1 (N-1) + 2 * c2 (N-1) * T N + 3 * c3 (N-1) * T N ^ 2) * (2 * c2 (N-1) + 6 * c3 (N-1) * T N)
  let E : ℕ → K := fun k => (T (k+1) - T k) / 3 *
    ((2*c2 k+6*c3 k*T k)^2 + (2*c2 k+6*c3 k*T k)*(2*c2 k+6*c3 k*T (k+1)) + (2*c2 k+6*c3 k*T (k+1))^2)
  have hE : ∀ k < N, E k = g (k+1) - g k := by
    intro k hk
    simp only [E, g]
    rw [span_energy_c14 (c0 k) (c1 k) (c2 k) (c3 k) (T k) (T (k+1)), hV0 k hk, hV1 k hk, if_pos hk]
    by_cases hk1 : k + 1 < N
    · rw [if_pos hk1, ← hC1 k hk1, ← hC2 k hk1]; ring
    · rw [if_neg hk1]
      have : N - 1 = k := by omega
      have hNk : N = k + 1 := by omega
      rw [this, hNk]; ring
  have hsum : ∑ k ∈ range N, E k = 0 := by
    rw [sum_congr rfl (fun k hk => hE k (mem_range.mp hk)), sum_range_sub]
    simp only [g]
    rw [if_neg (lt_irrefl N), if_pos hN, hN0, hN1]
    ring
  have hnonneg : ∀ k ∈ range N, 0 ≤ E k := by
    intro k hk
    have hpos : 0 < T (k+1) - T k := sub_pos.mpr (hT k (mem_range.mp hk))
    simp only [E]
    apply mul_nonneg (by positivity)
    nlinarith [sq_nonneg ((2*c2 k+6*c3 k*T k) + (2*c2 k+6*c3 k*T (k+1))), sq_nonneg (2*c2 k+6*c3 k*T k),
      sq_nonneg (2*c2 k+6*c3 k*T (k+1))]
  intro k hk
  have hEk : E k = 0 := (sum_eq_zero_iff_of_nonneg hnonneg).mp hsum k (mem_range.mpr hk)
  have hpos : 0 < T (k+1) - T k := sub_pos.mpr (hT k hk)
  simp only [E] at hEk
  have hq : (2*c2 k+6*c3 k*T k)^2 + (2*c2 k+6*c3 k*T k)*(2*c2 k+6*c3 k*T (k+1)) + (2*c2 k+6*c3 k*T (k+1))^2 = 0 := by
    rcases mul_eq_zero.mp hEk with h | h
    · exfalso; have : (T (k+1) - T k) / 3 > 0 := by positivity
      linarith
    · exact h
  obtain ⟨hu, hv⟩ := quad_form_zero_c14 _ _ hq
  have hne : T (k+1) - T k ≠ 0 := ne_of_gt hpos
  have h3 : c3 k = 0 := by
    have : 6 * c3 k * (T (k+1) - T k) = 0 := by linarith
    rcases mul_eq_zero.mp this with h | h
    · linarith
    · exact absurd h hne
  have h2 : c2 k = 0 := by rw [h3] at hu; linarith
  have e0 := hV0 k hk
  have e1 := hV1 k hk
  rw [h2, h3] at e0 e1
  have h1 : c1 k = 0 := by
    have : c1 k * (T (k+1) - T k) = 0 := by linarith
    rcases mul_eq_zero.mp this with h | h
    · exact h
    · exact absurd h hne
  have h0 : c0 k = 0 := by rw [h1] at e0; linarith
  exact ⟨h0, h1, h2, h3⟩

end abstract
end Splipy

namespace Splipy
open Finset Polynomial

section polys
variable {K : Type} [Field K]

theorem cubic_form_c14 (Q : K[X]) (h : Q.natDegree ≤ 3) :
    Q = C (Q.coeff 0) + C (Q.coeff 1) * X + C (Q.coeff 2) * X ^ 2 + C (Q.coeff 3) * X ^ 3 := by
  conv_lhs => rw [Q.as_sum_range' 4 (by omega)]
  simp [Finset.sum_range_succ, ← C_mul_X_pow_eq_monomial]

theorem cubic_evals_c14 (Q : K[X]) (h : Q.natDegree ≤ 3) (x : K) :
    Q.eval x = Q.coeff 0 + Q.coeff 1 * x + Q.coeff 2 * x ^ 2 + Q.coeff 3 * x ^ 3 ∧
    ((derivative^[1]) Q).eval x = Q.coeff 1 + 2 * Q.coeff 2 * x + 3 * Q.coeff 3 * x ^ 2 ∧
    ((derivative^[2]) Q).eval x = 2 * Q.coeff 2 + 6 * Q.coeff 3 * x := by
  have hQ := cubic_form_c14 Q h
  set c0 := Q.coeff 0
  set c1 := Q.coeff 1
  set c2 := Q.coeff 2
  set c3 := Q.coeff 3
  rw [hQ]
  refine ⟨by simp, by simp; ring, by simp [Function.iterate_succ]; ring⟩

/-- The polynomial piece of the spline `Σ y_j B_j` on span `μ`. -/
noncomputable def piece_c14 (τ : ℕ → K) (μ n : ℕ) (y : ℕ → K) : K[X] :=
  ∑ j ∈ range n, C (y j) * Bpoly τ μ 3 j

theorem natDegree_piece_c14 (τ : ℕ → K) (μ n : ℕ) (y : ℕ → K) : (piece_c14 τ μ n y).natDegree ≤ 3 := by
  unfold piece_c14
  apply natDegree_sum_le_of_forall_le
  intro j _
  exact le_trans (natDegree_C_mul_le _ _) (natDegree_Bpoly_le τ μ 3 j)

end polys

section link
variable {K : Type} [Field K] [LinearOrder K] [IsStrictOrderedRing K]

/-- One-sided value/derivatives of the spline on a span are those of its polynomial piece. -/
theorem sum_dB_eq_piece_c14 (s : Side) (τ : ℕ → K) (hτ : Monotone τ) (μ n d : ℕ) (y : ℕ → K) (t : K)
    (h : s.mem (τ μ) (τ (μ+1)) t) :
    ∑ j ∈ range n, dB s τ 3 j d t * y j = ((derivative^[d]) (piece_c14 τ μ n y)).eval t := by
  unfold piece_c14
  rw [iterate_derivative_sum, eval_finset_sum]
  apply sum_congr rfl
  intro j _
  rw [iterate_derivative_C_mul, eval_mul, eval_C, dB_eq_eval_iterate_derivative s τ hτ μ 3 j d t h, mul_comm]

theorem find_span_c14 (N : ℕ) (T : ℕ → K) (ξ : K) (h0 : T 0 ≤ ξ) (h1 : ξ < T N) :
    ∃ k < N, T k ≤ ξ ∧ ξ < T (k+1) := by
  induction N with
  | zero => exact absurd (lt_of_le_of_lt h0 h1) (lt_irrefl _)
  | succ N ih =>
    by_cases h : ξ < T N
    · obtain ⟨k, hk, hk1, hk2⟩ := ih h
      exact ⟨k, by omega, hk1, hk2⟩
    · exact ⟨N, by omega, not_lt.mp h, h1⟩

end link
end Splipy

namespace Splipy
open Finset Polynomial
namespace Interp
variable {K : Type} [Field K] [LinearOrder K] [IsStrictOrderedRing K]

/-- **Uniqueness of the cubic spline with a first- or second-derivative condition at each end**
(`e0, e1 ∈ {1, 2}`: clamped/complete, natural, or mixed) on every strictly increasing parameter
sequence: in the energy identity the boundary term `s'·s''` vanishes at an end as soon as ONE of the
two factors does. -/
theorem clamped_unique (a d : K) (mid : List K) (tol : K) (htol : 0 < tol)
    (hgap : ∀ i j, i < j → j < mid.length + 2 →
      (a :: (mid ++ [d])).getD i 0 + tol ≤ (a :: (mid ++ [d])).getD j 0)
    (e0 e1 : ℕ) (he0 : e0 = 1 ∨ e0 = 2) (he1 : e1 = 1 ∨ e1 = 2) :
    ClampedUnique a d mid e0 e1 := by
  intro y Hint Ha Hd
  set b := natBasis a d mid with hb
  set τ := b.kn with hτdef
  have hv : b.Valid := natBasis_valid a d mid tol hgap htol
  have hτ : Monotone τ := hv.kn_mono
  set T : ℕ → K := fun k => (a :: (mid ++ [d])).getD k 0 with hTdef
  have hTs : ∀ i j, i < j → j < mid.length + 2 → T i < T j := nat_T_strict a d mid tol hgap htol
  have hτT : ∀ i, τ i = T (natIdx (mid.length + 2) i) := fun i => natBasis_kn a d mid i
  have hτk : ∀ k, k ≤ mid.length + 1 → τ (k + 3) = T k := by
    intro k hk
    rw [hτT]; congr 1; unfold natIdx; split_ifs <;> omega
  have hT0 : T 0 = a := by simp [hTdef]
  have hTN : T (mid.length + 1) = d := by
    simp [hTdef, List.getD_eq_getElem?_getD, List.getElem?_append_right]
  have hstop : b.stop = d := nat_stop a d mid tol hgap htol
  have hTinj : ∀ i j, i < mid.length + 2 → j < mid.length + 2 → T i = T j → i = j := by
    intro i j hi hj h
    rcases Nat.lt_trichotomy i j with h1 | h1 | h1
    · exact absurd h (ne_of_lt (hTs i j h1 hj))
    · exact h1
    · exact absurd h.symm (ne_of_lt (hTs j i h1 hi))
  have hside_r : ∀ i, i < mid.length + 1 → effSide b (T i) true = .right := by
    intro i hi
    unfold effSide
    rw [hstop, ← hTN, if_neg (ne_of_lt (hTs i _ hi (by omega)))]; rfl
  have hside_l : effSide b (T (mid.length + 1)) true = .left := by
    unfold effSide; rw [hstop, hTN, if_pos rfl]
  have hsimple : ∀ k, 1 ≤ k → k ≤ mid.length → ∀ i, τ i = T k → τ (i + 1) ≠ T k := by
    intro k h1 h2 i hi
    rw [hτT] at hi ⊢
    have hk := hTinj _ _ (natIdx_lt _ i (by omega)) (by omega) hi
    have hk' : natIdx (mid.length + 2) (i + 1) = k + 1 := by
      unfold natIdx at hk ⊢; split_ifs at hk ⊢ <;> omega
    rw [hk']
    exact ne_of_gt (hTs k (k+1) (by omega) (by omega))
  -- span memberships
  have hmemR : ∀ k, k ≤ mid.length → Side.right.mem (τ (k + 3)) (τ (k + 3 + 1)) (T k) := by
    intro k hk
    rw [hτk k (by omega), show k + 3 + 1 = (k + 1) + 3 by omega, hτk (k+1) (by omega)]
    exact ⟨le_refl _, hTs k (k+1) (by omega) (by omega)⟩
  have hmemL : ∀ k, k ≤ mid.length → Side.left.mem (τ (k + 3)) (τ (k + 3 + 1)) (T (k + 1)) := by
    intro k hk
    rw [hτk k (by omega), show k + 3 + 1 = (k + 1) + 3 by omega, hτk (k+1) (by omega)]
    exact ⟨hTs k (k+1) (by omega) (by omega), le_refl _⟩
  set P : ℕ → K[X] := fun k => piece_c14 τ (k + 3) (mid.length + 4) y with hP
  have hdeg : ∀ k, (P k).natDegree ≤ 3 := fun k => natDegree_piece_c14 _ _ _ _
  -- the interpolation conditions, with the side resolved
  have HintR : ∀ i, i ≤ mid.length → ∑ j ∈ range (mid.length + 4), dB .right τ 3 j 0 (T i) * y j = 0 := by
    intro i hi
    have := Hint i (by omega)
    rw [hside_r i (by omega)] at this
    rw [← this]
    exact sum_congr rfl (fun j _ => by rw [dB_zero])
  have HintL : ∑ j ∈ range (mid.length + 4), dB .left τ 3 j 0 (T (mid.length + 1)) * y j = 0 := by
    have := Hint (mid.length + 1) (by omega)
    rw [hside_l] at this
    rw [← this]
    exact sum_congr rfl (fun j _ => by rw [dB_zero])
  -- left = right at the simple interior knots, for d ≤ 2
  have hLR : ∀ k, 1 ≤ k → k ≤ mid.length → ∀ dd, dd ≤ 2 →
      ∑ j ∈ range (mid.length + 4), dB .left τ 3 j dd (T k) * y j
        = ∑ j ∈ range (mid.length + 4), dB .right τ 3 j dd (T k) * y j := by
    intro k h1 h2 dd hdd
    apply sum_congr rfl
    intro j _
    rw [dB_left_eq_right τ hτ (T k) 1 3 j dd (by omega) (hsimple k h1 h2)]
  have key := cubic_pieces_zero_c14 (mid.length + 1) (by omega) T (fun k hk => hTs k (k+1) (by omega) (by omega))
    (fun k => (P k).coeff 0) (fun k => (P k).coeff 1) (fun k => (P k).coeff 2) (fun k => (P k).coeff 3)
    (by
      intro k hk
      rw [← (cubic_evals_c14 (P k) (hdeg k) (T k)).1]
      have := sum_dB_eq_piece_c14 .right τ hτ (k + 3) (mid.length + 4) 0 y (T k) (hmemR k (by omega))
      simp only [Function.iterate_zero, id_eq] at this
      rw [← this]; exact HintR k (by omega))
    (by
      intro k hk
      rw [← (cubic_evals_c14 (P k) (hdeg k) (T (k+1))).1]
      have := sum_dB_eq_piece_c14 .left τ hτ (k + 3) (mid.length + 4) 0 y (T (k+1)) (hmemL k (by omega))
      simp only [Function.iterate_zero, id_eq] at this
      rw [← this]
      by_cases hk1 : k + 1 = mid.length + 1
      · rw [hk1]; exact HintL
      · rw [hLR (k+1) (by omega) (by omega) 0 (by omega)]; exact HintR (k+1) (by omega))
    (by
      intro k hk
      rw [← (cubic_evals_c14 (P k) (hdeg k) (T (k+1))).2.1, ← (cubic_evals_c14 (P (k+1)) (hdeg (k+1)) (T (k+1))).2.1]
      rw [← sum_dB_eq_piece_c14 .left τ hτ (k + 3) (mid.length + 4) 1 y (T (k+1)) (hmemL k (by omega)),
        ← sum_dB_eq_piece_c14 .right τ hτ (k + 1 + 3) (mid.length + 4) 1 y (T (k+1)) (hmemR (k+1) (by omega))]
      exact hLR (k+1) (by omega) (by omega) 1 (by omega))
    (by
      intro k hk
      rw [← (cubic_evals_c14 (P k) (hdeg k) (T (k+1))).2.2, ← (cubic_evals_c14 (P (k+1)) (hdeg (k+1)) (T (k+1))).2.2]
      rw [← sum_dB_eq_piece_c14 .left τ hτ (k + 3) (mid.length + 4) 2 y (T (k+1)) (hmemL k (by omega)),
        ← sum_dB_eq_piece_c14 .right τ hτ (k + 1 + 3) (mid.length + 4) 2 y (T (k+1)) (hmemR (k+1) (by omega))]
      exact hLR (k+1) (by omega) (by omega) 2 (by omega))
    (by
      rcases he0 with h | h
      · have : (P 0).coeff 1 + 2 * (P 0).coeff 2 * T 0 + 3 * (P 0).coeff 3 * T 0 ^ 2 = 0 := by
          rw [← (cubic_evals_c14 (P 0) (hdeg 0) (T 0)).2.1,
            ← sum_dB_eq_piece_c14 .right τ hτ (0 + 3) (mid.length + 4) 1 y (T 0) (hmemR 0 (by omega)), hT0]
          rw [h] at Ha; exact Ha
        simp only [this, zero_mul]
      · have : 2 * (P 0).coeff 2 + 6 * (P 0).coeff 3 * T 0 = 0 := by
          rw [← (cubic_evals_c14 (P 0) (hdeg 0) (T 0)).2.2,
            ← sum_dB_eq_piece_c14 .right τ hτ (0 + 3) (mid.length + 4) 2 y (T 0) (hmemR 0 (by omega)), hT0]
          rw [h] at Ha; exact Ha
        simp only [this, mul_zero])
    (by
      rw [show mid.length + 1 - 1 = mid.length by omega]
      rcases he1 with h | h
      · have : (P mid.length).coeff 1 + 2 * (P mid.length).coeff 2 * T (mid.length + 1)
            + 3 * (P mid.length).coeff 3 * T (mid.length + 1) ^ 2 = 0 := by
          rw [← (cubic_evals_c14 (P mid.length) (hdeg _) (T (mid.length + 1))).2.1,
            ← sum_dB_eq_piece_c14 .left τ hτ (mid.length + 3) (mid.length + 4) 1 y (T (mid.length + 1))
              (hmemL mid.length (by omega)), hTN]
          rw [h] at Hd; exact Hd
        simp only [this, zero_mul]
      · have : 2 * (P mid.length).coeff 2 + 6 * (P mid.length).coeff 3 * T (mid.length + 1) = 0 := by
          rw [← (cubic_evals_c14 (P mid.length) (hdeg _) (T (mid.length + 1))).2.2,
            ← sum_dB_eq_piece_c14 .left τ hτ (mid.length + 3) (mid.length + 4) 2 y (T (mid.length + 1))
              (hmemL mid.length (by omega)), hTN]
          rw [h] at Hd; exact Hd
        simp only [this, mul_zero])
  have hPzero : ∀ k, k ≤ mid.length → P k = 0 := by
    intro k hk
    obtain ⟨z0, z1, z2, z3⟩ := key k (by omega)
    rw [cubic_form_c14 (P k) (hdeg k)]
    rw [z0, z1, z2, z3]; simp
  -- the spline vanishes at every Greville abscissa, hence has zero coefficients
  have hc0 : τ 0 = τ 3 := by rw [hτT, hτT]; unfold natIdx; simp
  have hc1 : τ (mid.length + 4) = τ (mid.length + 4 + 3) := by
    rw [hτT, hτT]; congr 1; unfold natIdx; split_ifs <;> omega
  have hmult : ∀ i, 1 ≤ i → i < mid.length + 4 → τ i < τ (i + 3) := by
    intro i h1 h2
    rw [hτT, hτT]
    apply hTs _ _ _ (natIdx_lt _ _ (by omega))
    unfold natIdx; split_ifs <;> omega
  have hG := greville_nestedPts τ hτ 3 (mid.length + 4) (by omega) (by omega) hc0 hc1 hmult
  apply greville_colloc_injective τ hτ 3 (mid.length + 4) (by omega) (by omega) hc0 hc1 hmult y
  intro l hl
  have hfirst : grevilleAbscissa τ 3 0 = T 0 := by rw [hG.first, hτk 0 (by omega)]
  have hlast : grevilleAbscissa τ 3 (mid.length + 4 - 1) = T (mid.length + 1) := by
    rw [hG.last, show mid.length + 4 = (mid.length + 1) + 3 by omega, hτk _ (by omega)]
  by_cases hll : l + 1 = mid.length + 4
  · have hl' : l = mid.length + 4 - 1 := by omega
    have hs : grevSide (mid.length + 4) l = .left := by unfold grevSide; rw [if_pos hll]
    rw [hs, hl', hlast]
    have := sum_dB_eq_piece_c14 .left τ hτ (mid.length + 3) (mid.length + 4) 0 y (T (mid.length + 1))
      (hmemL mid.length (by omega))
    simp only [Function.iterate_zero, id_eq] at this
    have hz : P mid.length = 0 := hPzero mid.length (le_refl _)
    simp only [hP] at hz
    rw [hz, eval_zero] at this
    rw [← this]
    exact sum_congr rfl (fun j _ => by rw [dB_zero, mul_comm])
  · have hs : grevSide (mid.length + 4) l = .right := by unfold grevSide; rw [if_neg hll]
    rw [hs]
    have h0 : T 0 ≤ grevilleAbscissa τ 3 l := by
      rw [← hfirst]
      rcases Nat.eq_zero_or_pos l with h | h
      · rw [h]
      · have := hG.strict 0 (l - 1) (by omega)
        rw [show 0 + (l - 1) + 1 = l by omega] at this
        exact this.le
    have h1 : grevilleAbscissa τ 3 l < T (mid.length + 1) := by
      rw [← hlast]
      obtain ⟨e, he⟩ : ∃ e, mid.length + 4 - 1 = l + e + 1 := ⟨mid.length + 4 - 1 - l - 1, by omega⟩
      have := hG.strict l e (by omega)
      rw [← he] at this
      exact this
    obtain ⟨k, hk, hk1, hk2⟩ := find_span_c14 (mid.length + 1) T _ h0 h1
    have hmem : Side.right.mem (τ (k + 3)) (τ (k + 3 + 1)) (grevilleAbscissa τ 3 l) := by
      rw [hτk k (by omega), show k + 3 + 1 = (k + 1) + 3 by omega, hτk (k+1) (by omega)]
      exact ⟨hk1, hk2⟩
    have := sum_dB_eq_piece_c14 .right τ hτ (k + 3) (mid.length + 4) 0 y _ hmem
    simp only [Function.iterate_zero, id_eq] at this
    have hz : P k = 0 := hPzero k (by omega)
    simp only [hP] at hz
    rw [hz, eval_zero] at this
    rw [← this]
    exact sum_congr rfl (fun j _ => by rw [dB_zero, mul_comm])

/-- Uniqueness of the natural cubic spline. -/
theorem natural_unique (a d : K) (mid : List K) (tol : K) (htol : 0 < tol)
    (hgap : ∀ i j, i < j → j < mid.length + 2 →
      (a :: (mid ++ [d])).getD i 0 + tol ≤ (a :: (mid ++ [d])).getD j 0) :
    NaturalUnique a d mid :=
  clamped_unique a d mid tol htol hgap 2 2 (Or.inr rfl) (Or.inr rfl)

end Interp
end Splipy
