import Splipy.Lemmas.C17Compose

/-! Lemmas for C17: finite tables over all orientations and all sections of parametric dimension
≤ 3, checked by kernel evaluation (`decide +kernel`): the quantifiers range over finite explicit
lists (`Orientation.all n`, `allSecs n`) which are proved complete in `C17Group`/`C17Compose`. -/

namespace Splipy.MP

/-- what the table states for one orientation and one section -/
def sectionRow (n : ℕ) (o : Orientation) (sec : Sec) : Bool :=
  decide ((Sec.toReindex (o.mapSection sec)).comp o.toReindex =
      (o.viewSection sec).toReindex.comp (Sec.toReindex sec)) &&
    (Sec.toReindex sec).Consistent n &&
    (Sec.toReindex (o.mapSection sec)).Consistent n &&
    (o.viewSection sec).toReindex.Consistent (Orientation.variableDirs sec).length &&
    decide ((o.viewSection sec).WF (secTgtDim sec)) &&
    decide ((o.mapSection sec).length = n) &&
    decide (secTgtDim (o.mapSection sec) = secTgtDim sec)

theorem sectionTable0 : ∀ o ∈ Orientation.all 0, ∀ sec ∈ allSecs 0, sectionRow 0 o sec = true := by
  decide +kernel
theorem sectionTable1 : ∀ o ∈ Orientation.all 1, ∀ sec ∈ allSecs 1, sectionRow 1 o sec = true := by
  decide +kernel
theorem sectionTable2 : ∀ o ∈ Orientation.all 2, ∀ sec ∈ allSecs 2, sectionRow 2 o sec = true := by
  decide +kernel
set_option maxRecDepth 100000 in
theorem sectionTable3 : ∀ o ∈ Orientation.all 3, ∀ sec ∈ allSecs 3, sectionRow 3 o sec = true := by
  decide +kernel

theorem sectionTable {n : ℕ} (hn : n ≤ 3) {o : Orientation} (ho : o.WF n) {sec : Sec}
    (hs : sec.length = n) : sectionRow n o sec = true := by
  have ho' := (Orientation.mem_all n o).2 ho
  have hs' := (mem_allSecs n sec).2 hs
  have h4 : n = 0 ∨ n = 1 ∨ n = 2 ∨ n = 3 := by omega
  rcases h4 with rfl | rfl | rfl | rfl
  · exact sectionTable0 o ho' sec hs'
  · exact sectionTable1 o ho' sec hs'
  · exact sectionTable2 o ho' sec hs'
  · exact sectionTable3 o ho' sec hs'

end Splipy.MP
