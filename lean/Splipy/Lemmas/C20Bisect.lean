import Mathlib.Algebra.Order.Field.Basic
import Mathlib.Order.Interval.Finset.Nat
import Mathlib.Tactic.Linarith
import Splipy.Model.Basis

/-!
# Specification of the two binary searches on a sorted accessor (own copy for C20)
-/

namespace Splipy.C20

open Splipy

variable {K : Type} [LinearOrder K]

/-- `a` is non-decreasing on `[0, n)`. -/
def MonoOn (a : ℕ → K) (n : ℕ) : Prop := ∀ i j, i ≤ j → j < n → a i ≤ a j

theorem bisectLeftAux_spec (a : ℕ → K) (v : K) (n : ℕ) (hmono : MonoOn a n) :
    ∀ lo hi, lo ≤ hi → hi ≤ n → (∀ j, j < lo → a j < v) → (∀ j, hi ≤ j → j < n → v ≤ a j) →
      lo ≤ bisectLeftAux a v lo hi ∧ bisectLeftAux a v lo hi ≤ hi ∧
      (∀ j, j < bisectLeftAux a v lo hi → a j < v) ∧
      (∀ j, bisectLeftAux a v lo hi ≤ j → j < n → v ≤ a j) := by
  intro lo hi
  induction h : hi - lo using Nat.strong_induction_on generalizing lo hi with
  | _ d ih =>
    intro hle hn hlow hhigh
    unfold bisectLeftAux
    by_cases hlt : lo < hi
    · simp only [hlt, ↓reduceDIte]
      have hmid1 : lo ≤ (lo + hi) / 2 := by omega
      have hmid2 : (lo + hi) / 2 < hi := by omega
      by_cases hc : a ((lo + hi) / 2) < v
      · simp only [hc, ↓reduceIte]
        have := ih (hi - ((lo + hi) / 2 + 1)) (by omega) ((lo + hi) / 2 + 1) hi rfl (by omega) hn
          (by
            intro j hj
            have hj' : j ≤ (lo + hi) / 2 := by omega
            exact lt_of_le_of_lt (hmono j _ hj' (by omega)) hc)
          hhigh
        exact ⟨by omega, this.2.1, this.2.2.1, this.2.2.2⟩
      · simp only [hc, ↓reduceIte]
        have := ih ((lo + hi) / 2 - lo) (by omega) lo ((lo + hi) / 2) rfl hmid1 (by omega) hlow
          (by
            intro j hj hjn
            exact le_trans (not_lt.1 hc) (hmono _ j hj hjn))
        exact ⟨this.1, by omega, this.2.2.1, this.2.2.2⟩
    · simp only [hlt, ↓reduceDIte]
      have : lo = hi := by omega
      subst this
      exact ⟨le_refl _, le_refl _, hlow, hhigh⟩

/-- `bisect_left` on a sorted accessor: the result `r ≤ n` splits `[0,n)` into the entries
    `< v` and the entries `≥ v`. -/
theorem bisectLeft_spec (a : ℕ → K) (v : K) (n : ℕ) (hmono : MonoOn a n) :
    bisectLeft a v n ≤ n ∧ (∀ j, j < bisectLeft a v n → a j < v) ∧
      (∀ j, bisectLeft a v n ≤ j → j < n → v ≤ a j) := by
  have := bisectLeftAux_spec a v n hmono 0 n (Nat.zero_le _) (le_refl _)
    (fun j hj => absurd hj (Nat.not_lt_zero _)) (fun j hj hjn => absurd hjn (by omega))
  exact ⟨this.2.1, this.2.2.1, this.2.2.2⟩

theorem bisectLeft_lt_iff (a : ℕ → K) (v : K) (n : ℕ) (hmono : MonoOn a n) {j : ℕ} (hj : j < n) :
    j < bisectLeft a v n ↔ a j < v := by
  obtain ⟨_, h2, h3⟩ := bisectLeft_spec a v n hmono
  constructor
  · exact h2 j
  · intro h
    by_contra hc
    exact absurd h (not_lt.2 (h3 j (not_lt.1 hc) hj))

theorem bisectRightAux_spec (a : ℕ → K) (v : K) (n : ℕ) (hmono : MonoOn a n) :
    ∀ lo hi, lo ≤ hi → hi ≤ n → (∀ j, j < lo → a j ≤ v) → (∀ j, hi ≤ j → j < n → v < a j) →
      lo ≤ bisectRightAux a v lo hi ∧ bisectRightAux a v lo hi ≤ hi ∧
      (∀ j, j < bisectRightAux a v lo hi → a j ≤ v) ∧
      (∀ j, bisectRightAux a v lo hi ≤ j → j < n → v < a j) := by
  intro lo hi
  induction h : hi - lo using Nat.strong_induction_on generalizing lo hi with
  | _ d ih =>
    intro hle hn hlow hhigh
    unfold bisectRightAux
    by_cases hlt : lo < hi
    · simp only [hlt, ↓reduceDIte]
      have hmid1 : lo ≤ (lo + hi) / 2 := by omega
      have hmid2 : (lo + hi) / 2 < hi := by omega
      by_cases hc : v < a ((lo + hi) / 2)
      · simp only [hc, ↓reduceIte]
        have := ih ((lo + hi) / 2 - lo) (by omega) lo ((lo + hi) / 2) rfl hmid1 (by omega) hlow
          (by
            intro j hj hjn
            exact lt_of_lt_of_le hc (hmono _ j hj hjn))
        exact ⟨this.1, by omega, this.2.2.1, this.2.2.2⟩
      · simp only [hc, ↓reduceIte]
        have := ih (hi - ((lo + hi) / 2 + 1)) (by omega) ((lo + hi) / 2 + 1) hi rfl (by omega) hn
          (by
            intro j hj
            have hj' : j ≤ (lo + hi) / 2 := by omega
            exact le_trans (hmono j _ hj' (by omega)) (not_lt.1 hc))
          hhigh
        exact ⟨by omega, this.2.1, this.2.2.1, this.2.2.2⟩
    · simp only [hlt, ↓reduceDIte]
      have : lo = hi := by omega
      subst this
      exact ⟨le_refl _, le_refl _, hlow, hhigh⟩

/-- `bisect_right` on a sorted accessor. -/
theorem bisectRight_spec (a : ℕ → K) (v : K) (n : ℕ) (hmono : MonoOn a n) :
    bisectRight a v n ≤ n ∧ (∀ j, j < bisectRight a v n → a j ≤ v) ∧
      (∀ j, bisectRight a v n ≤ j → j < n → v < a j) := by
  have := bisectRightAux_spec a v n hmono 0 n (Nat.zero_le _) (le_refl _)
    (fun j hj => absurd hj (Nat.not_lt_zero _)) (fun j hj hjn => absurd hjn (by omega))
  exact ⟨this.2.1, this.2.2.1, this.2.2.2⟩

/-- The number of entries in a half-open value window is the difference of two `bisect_left`s. -/
theorem bisectLeft_window (a : ℕ → K) (v1 v2 : K) (n : ℕ) (hmono : MonoOn a n) (hv : v1 ≤ v2) :
    bisectLeft a v1 n ≤ bisectLeft a v2 n ∧
    ((Finset.range n).filter (fun i => v1 ≤ a i ∧ a i < v2)) =
      Finset.Ico (bisectLeft a v1 n) (bisectLeft a v2 n) := by
  obtain ⟨l1, l2, l3⟩ := bisectLeft_spec a v1 n hmono
  obtain ⟨h1, h2, h3⟩ := bisectLeft_spec a v2 n hmono
  constructor
  · by_contra hc
    have hlt : bisectLeft a v2 n < bisectLeft a v1 n := not_le.1 hc
    have hn : bisectLeft a v2 n < n := lt_of_lt_of_le hlt l1
    have := l2 _ hlt
    have := h3 _ (le_refl _) hn
    exact absurd (lt_of_lt_of_le ‹a _ < v1› hv) (not_lt.2 this)
  · ext i
    simp only [Finset.mem_filter, Finset.mem_range, Finset.mem_Ico]
    constructor
    · rintro ⟨hin, hlo, hhi⟩
      refine ⟨?_, (bisectLeft_lt_iff a v2 n hmono hin).2 hhi⟩
      by_contra hc
      exact absurd (l2 i (not_le.1 hc)) (not_lt.2 hlo)
    · rintro ⟨hlo, hhi⟩
      have hin : i < n := lt_of_lt_of_le hhi h1
      exact ⟨hin, l3 i hlo hin, h2 i hhi⟩

theorem bisectLeft_window_card (a : ℕ → K) (v1 v2 : K) (n : ℕ) (hmono : MonoOn a n) (hv : v1 ≤ v2) :
    ((Finset.range n).filter (fun i => v1 ≤ a i ∧ a i < v2)).card =
      bisectLeft a v2 n - bisectLeft a v1 n := by
  rw [(bisectLeft_window a v1 v2 n hmono hv).2, Nat.card_Ico]

end Splipy.C20
