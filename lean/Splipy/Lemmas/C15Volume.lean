import Splipy.Lemmas.C15SurfaceEdges

/-!
# `edge_surfaces(s1, s2)`: the ruled volume and its two `w`-sections
-/

set_option linter.unusedSectionVars false

namespace Splipy
namespace C15

open C06 C12 Obj Basis Finset Tensor Sections

variable {K : Type} [Field K] [LinearOrder K] [IsStrictOrderedRing K] [FloorRing K]

theorem ravel_eq_flatIdx : ∀ (sh idx : List ℕ), Tensor.ravel sh idx = C06.flatIdx sh idx
  | [], _ => by simp [Tensor.ravel]
  | _ :: _, [] => by simp [Tensor.ravel]
  | _ :: sh, i :: idx => by
    simp only [Tensor.ravel, C06.flatIdx_cons]
    rw [ravel_eq_flatIdx sh idx]

theorem getIdx_eq (t : Tensor K) (idx : List ℕ) : C06.getIdx t idx = Tensor.getIdx t idx := by
  unfold C06.getIdx Tensor.getIdx
  rw [ravel_eq_flatIdx]

/-- Same bases and the same control-net entries within the index range: same evaluated map. -/
theorem toTP_eval_of_entries {m : ℕ} (o x : Obj K) (hbo : ∀ d : Fin m, o.basis d = x.basis d)
    (hpos : ∀ d : Fin m, 0 < (x.basis d).numFunctions) (comp : ℕ)
    (hc : ∀ I : Fin m → ℕ, (∀ d, I d < (x.basis d).numFunctions) →
      C06.getIdx o.cps (midx I comp) = C06.getIdx x.cps (midx I comp))
    (s : Fin m → Side) (u : Fin m → K) :
    (toTP o m comp).eval s u = (toTP x m comp).eval s u := by
  simp only [TP.eval_eq]
  have e1 : ∀ (w : Obj K), (∀ d : Fin m, w.basis d = x.basis d) →
      ∑ I ∈ Fintype.piFinset (fun d => range ((toTP w m comp).nAll d)),
        (toTP w m comp).c (fun d => I d % (toTP w m comp).n d)
          * ∏ d, B (s d) ((toTP w m comp).τ d) ((toTP w m comp).q d) (I d) (u d)
      = ∑ I ∈ Fintype.piFinset (fun d : Fin m => range (x.basis d).nAll),
        C06.getIdx w.cps (midx (fun d => I d % (x.basis d).numFunctions) comp)
          * ∏ d, B (s d) (x.basis d).kn ((x.basis d).order - 1) (I d) (u d) := by
    intro w hw
    simp only [toTP, hw]
  rw [e1 o hbo, e1 x (fun _ => rfl)]
  apply Finset.sum_congr rfl
  intro I _
  rw [hc _ (fun d => Nat.mod_lt _ (hpos d))]

/-- A surface object assembled from two valid bases and a control array of shape `[n0, n1, nc]`. -/
theorem surface_wf_of (b0 b1 : Basis K) (hv0 : b0.Valid) (hv1 : b1.Valid) (cps : Tensor K) (nc : ℕ) (rat : Bool)
    (hs : cps.shape = [b0.numFunctions, b1.numFunctions, nc]) :
    C06.WF ({ bases := #[b0, b1], cps := cps, rational := rat } : Obj K) 2
      ∧ ({ bases := #[b0, b1], cps := cps, rational := rat } : Obj K).ncomp = nc := by
  have hb0 : ({ bases := #[b0, b1], cps := cps, rational := rat } : Obj K).basis 0 = b0 := rfl
  have hb1 : ({ bases := #[b0, b1], cps := cps, rational := rat } : Obj K).basis 1 = b1 := rfl
  have hn : ({ bases := #[b0, b1], cps := cps, rational := rat } : Obj K).ncomp = nc := by
    unfold Obj.ncomp; rw [hs]; rfl
  refine ⟨⟨rfl, ?_, ?_⟩, hn⟩
  · intro d
    rcases d with ⟨d, hd⟩
    interval_cases d
    · exact hv0
    · exact hv1
  · rw [hn]
    show cps.shape = _
    rw [hs]
    simp [midx, List.ofFn_succ]
    exact ⟨by rw [hb0], by rw [hb1]⟩

/-- **Sections `w = 0` / `w = -1` of the ruled volume built from two surfaces with the same
    control-array shape**: the model's `section(None, None, 0 / -1)` returns a `Surface` on the first
    surface's bases which is the same map as the first resp. second surface. -/
theorem ruled_section_surf (r1 r2 : Obj K) (hw1 : C06.WF r1 2)
    (hb2 : ∀ d : Fin 2, r2.basis d = r1.basis d) (hsh : r2.cps.shape = r1.cps.shape)
    (last : Bool) (unwrap : Bool) :
    ∃ A : Obj K,
      ({ bases := r1.bases.push linearBasis, cps := stack2 r1.cps r2.cps, rational := r1.rational } : Obj K).sectionSel
          [none, none, some (if last then -1 else 0)] unwrap = .ok (.obj "Surface" A)
      ∧ A.bases = #[r1.basis 0, r1.basis 1] ∧ A.rational = r1.rational ∧ C06.WF A 2
      ∧ SameMap 2 (if last then r2 else r1) A := by
  set n0 := (r1.basis 0).numFunctions with hn0
  set n1 := (r1.basis 1).numFunctions with hn1
  set nc := r1.ncomp with hnc
  have hs1 : r1.cps.shape = [n0, n1, nc] := surface_shape hw1
  have hs2 : r2.cps.shape = [n0, n1, nc] := hsh.trans hs1
  have hnc2 : r2.ncomp = nc := by unfold Obj.ncomp; rw [hsh]; rfl
  set vol : Obj K := { bases := r1.bases.push linearBasis, cps := stack2 r1.cps r2.cps, rational := r1.rational }
  have hss : vol.cps.shape = [n0, n1] ++ [2, nc] := stack2_shape r1.cps r2.cps [n0, n1] nc hs1
  let D0 : Dir K := ⟨(r1.basis 0).kn, (r1.basis 0).order - 1, n0⟩
  let D1 : Dir K := ⟨(r1.basis 1).kn, (r1.basis 1).order - 1, n1⟩
  let ds : List (Dir K × BSel) := [(D0, .free), (D1, .free), (linDir, if last then .hi else .lo)]
  have hsel : selOf ds = [none, none, some (if last then -1 else 0)] := by cases last <;> rfl
  have hdims : dimsOf ds = [n0, n1, 2] := by cases last <;> rfl
  have hfix : FixedPos ds := by
    cases last
    · exact ⟨by show 1 ≤ (linDir : Dir K).n; simp [linDir], trivial⟩
    · exact ⟨by show 1 ≤ (linDir : Dir K).n; simp [linDir], trivial⟩
  obtain ⟨cps', g1, g2, g3⟩ := sectionSel_boundary vol ds nc (by rw [hss, hdims]; rfl) hfix unwrap
  have hfree : freeDims (idxOf ds) (dimsOf ds) = [n0, n1] := by cases last <;> rfl
  have hbl : vol.bases.toList = [r1.basis 0, r1.basis 1, linearBasis] := by
    show (r1.bases.push linearBasis).toList = _
    rw [Array.toList_push, bases_of_size_two hw1.size]
    rfl
  have hfb : Obj.freeBases vol.bases.toList (selOf ds) = [r1.basis 0, r1.basis 1] := by
    rw [hbl, hsel]; rfl
  have hcs : cps'.shape = [n0, n1, nc] := by rw [g1, hfree]; rfl
  obtain ⟨awf, anc⟩ := surface_wf_of (r1.basis 0) (r1.basis 1) (hw1.valid 0) (hw1.valid 1) cps' nc r1.rational hcs
  refine ⟨{ bases := #[r1.basis 0, r1.basis 1], cps := cps', rational := r1.rational }, ?_, rfl, rfl, awf, ?_⟩
  · rw [← hsel, g3, hfb]
    simp [Obj.className]
    rfl
  · have hsrc_nc : (if last then r2 else r1).ncomp = nc := by
      cases last
      · rfl
      · exact hnc2
    refine ⟨anc.trans hsrc_nc.symm, fun comp hc s u => ?_⟩
    rw [hsrc_nc] at hc
    have hbA : ∀ d : Fin 2, ({ bases := #[r1.basis 0, r1.basis 1], cps := cps', rational := r1.rational } : Obj K).basis d
        = (if last then r2 else r1).basis d := by
      intro d
      have hd1 : ∀ d : Fin 2, ({ bases := #[r1.basis 0, r1.basis 1], cps := cps', rational := r1.rational } : Obj K).basis d
          = r1.basis d := by
        intro d
        rcases d with ⟨d, hd⟩
        interval_cases d <;> rfl
      rw [hd1 d]
      cases last
      · rfl
      · exact (hb2 d).symm
    have hnf : ∀ d : Fin 2, ((if last then r2 else r1).basis d).numFunctions = (r1.basis d).numFunctions := by
      intro d
      cases last
      · rfl
      · show (r2.basis d).numFunctions = _; rw [hb2 d]
    apply toTP_eval_of_entries _ _ hbA
      (fun d => by rw [hnf d]; exact valid_numFunctions_pos (hw1.valid d)) comp
    intro I hI
    have hI0 : I 0 < n0 := by have := hI 0; rw [hnf 0] at this; exact this
    have hI1 : I 1 < n1 := by have := hI 1; rw [hnf 1] at this; exact this
    rw [getIdx_eq, getIdx_eq]
    have hm : midx I comp = [I 0, I 1] ++ [comp] := by simp [midx, List.ofFn_succ]
    rw [hm]
    show cps'.getIdx ([I 0, I 1] ++ [comp]) = _
    have e := g2 [I 0, I 1] comp
      (by rw [hfree]; exact List.Forall₂.cons hI0 (List.Forall₂.cons hI1 List.Forall₂.nil)) hc
    rw [e]
    have hia : Tensor.InRange [I 0, I 1] [n0, n1] := List.Forall₂.cons hI0 (List.Forall₂.cons hI1 List.Forall₂.nil)
    cases last
    · show vol.cps.getIdx ([I 0, I 1] ++ [0, comp]) = _
      rw [stack2_getIdx r1.cps r2.cps [n0, n1] nc hs1 hs2 [I 0, I 1] 0 comp hia (by omega) hc]
      simp
    · show vol.cps.getIdx ([I 0, I 1] ++ [(linDir : Dir K).n - 1, comp]) = _
      have e2 : (linDir : Dir K).n - 1 = 1 := by simp [linDir]
      rw [e2, stack2_getIdx r1.cps r2.cps [n0, n1] nc hs1 hs2 [I 0, I 1] 1 comp hia (by omega) hc]
      simp

end C15
end Splipy
