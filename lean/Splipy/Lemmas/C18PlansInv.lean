import Splipy.Lemmas.C18Origin

/-!
# C18 — `PlansInv` holds after every add-history (parametric dimension 2 and 3)
-/

namespace Splipy.MP.C18L

open Splipy.MP Splipy.MP.Own

/-- **the history invariant gives the plans invariant** (`P ≥ 2`: for `P = 1` the faces are points,
    which the model's `assignViews` skips). -/
theorem plansInv_of_hist {nc : ℕ} {S : Obj → Prop} (sm : SplineModel) (objs : List Obj)
    (H : Hist nc sm.pardim S objs sm.cat) (hP : 2 ≤ sm.pardim) : PlansInv sm objs := by
  have hP1 : 1 ≤ sm.pardim := by omega
  have hface : ∀ k i, k < objs.length → i < (faceSecs (objs.getD k default)).length →
      ∃ a b, occOf objs k i = (a, b) ∧ a < objs.length ∧
        (sm.cat.node (faceNode sm k i)).obj = occObj objs (a, b) ∧
        (sm.cat.node (faceNode sm k i)).owner = some (sm.tops.getD a 0) ∧
        (allViews sm).getD (faceNode sm k i) none =
          some ⟨a, [(faceSecs (objs.getD a default)).getD (lastSame (firstOccTable objs) a b) []]⟩ := by
    intro k i hk hi
    have hi' : i < (sections sm.pardim (sm.pardim - 1)).length := by rw [← H.faceSecs_len hk]; exact hi
    have hfn : faceNode sm k i = (facetsAt sm.cat sm.pardim k).getD i 0 := rfl
    obtain ⟨hG, hGd⟩ := H.facet_dim hP1 hk hi'
    obtain ⟨a, b, ho, hown⟩ := H.origin_of_node hG hGd
    have hfo := (H.firstOcc_of_origin hP1 hG ho hk hi' rfl).1
    refine ⟨a, b, by rw [occOf_eq objs k i hk hi]; exact hfo, ho.1, by rw [hfn]; exact ho.2.2.1,
      by rw [hfn]; exact hown, ?_⟩
    rw [hfn, H.faceSecs_len ho.1]
    exact H.view_of_origin hP hG hGd ho hown
  refine ⟨H.tops_len, H.tops_nodup, H.top_obj, ?_, ?_, ?_, ?_, ?_, ?_⟩
  · intro k hk
    obtain ⟨hlt, hpd⟩ := H.top_lt hk
    show (sm.cat.node ((sm.cat.nodesOf sm.pardim).getD k 0)).pardim = _
    rw [H.inv.pdfield _ hlt, hpd, H.obj_pardim hk]
  · intro k hk
    rw [H.faceSecs_len hk]
    exact (H.facets_eq hP1 hk).2
  · intro k i hk hi
    obtain ⟨a, b, h1, h2, _⟩ := hface k i hk hi
    rw [h1]; exact h2
  · intro k i hk hi
    obtain ⟨a, b, h1, _, h3, _⟩ := hface k i hk hi
    rw [h1]; exact h3
  · intro k i hk hi
    obtain ⟨a, b, h1, _, _, h4, _⟩ := hface k i hk hi
    rw [h1]; exact h4
  · intro k i hk hi
    obtain ⟨a, b, h1, _, _, _, h5⟩ := hface k i hk hi
    rw [h1]; exact h5

/-- **`SplineModel.add` preserves the history invariant** (all patches of the list). -/
theorem Hist.fold {nc P : ℕ} {S : Obj → Prop}
    (hsect : ∀ y sec, S y → sec.length = y.pardim → secTgtDim sec < y.pardim → S (y.sect sec))
    (tw : List ℕ) (htw : tw.contains P = true) (hP : 1 ≤ P) :
    ∀ (news objs : List Obj) (m m' : Model), Hist nc P S objs m →
      (∀ p ∈ news, GU nc p ∧ p.pardim = P ∧ S p) →
      (objs ++ news).Pairwise (fun a b => ¬ Equiv a b) →
      news.foldlM (fun m p => (Model.lookup P m p true tw).map (·.1)) m = .ok m' →
      Hist nc P S (objs ++ news) m' := by
  intro news
  induction news with
  | nil =>
    intro objs m m' H _ _ h
    simp only [List.foldlM_nil, pure, Except.pure, Except.ok.injEq] at h
    subst h
    simpa using H
  | cons p rest ih =>
    intro objs m m' H hnews hpw h
    rw [List.foldlM_cons] at h
    obtain ⟨hgu, hpd, hS⟩ := hnews p (by simp)
    cases h1 : Model.lookup P m p true tw with
    | error e => rw [h1] at h; simp [Except.map, bind, Except.bind] at h
    | ok r =>
      obtain ⟨m1, id, o⟩ := r
      rw [h1] at h
      simp only [Except.map, bind, Except.bind] at h
      have hne : ∀ k, k < objs.length → ¬ Equiv (objs.getD k default) p := by
        intro k hk
        have := (List.pairwise_append.1 hpw).2.2 (objs.getD k default)
          (by rw [List.getD_eq_getElem _ _ hk]; exact List.getElem_mem _) p (by simp)
        exact this
      have H1 := H.step hsect tw htw hP hgu hpd hS hne h1
      have := ih (objs ++ [p]) m1 m' H1 (fun q hq => hnews q (List.mem_cons_of_mem _ hq))
        (by simpa using hpw) h
      simpa using this

end Splipy.MP.C18L
