import Splipy.Lemmas.C17Catalogue

/-! Lemmas for C17: twins policy of `ObjectCatalogue.lookup`, handedness check of `SplineModel`. -/

namespace Splipy.MP

theorem Model.resolve_single_reject (m : Model) (obj : Obj) (lower : List (List ℕ)) (add : Bool)
    (twins : List ℕ) (c : ℕ) (hc : (m.level obj.pardim).get (lower.getLastD []) = [c])
    (hno : ∀ o, Orientation.compute (m.node c).obj obj ≠ .ok o)
    (htw : twins.contains obj.pardim = true) :
    m.resolve obj lower add twins = .error .orientation := by
  unfold Model.resolve
  dsimp only
  rw [hc]
  have htw' : obj.pardim ∈ twins := by simpa using htw
  cases h : Orientation.compute (m.node c).obj obj with
  | ok o => exact absurd h (hno o)
  | error e => simp only []; rw [h]; simp [htw']

theorem Model.resolve_single_accept (m : Model) (obj : Obj) (lower : List (List ℕ))
    (twins : List ℕ) (c : ℕ) (hc : (m.level obj.pardim).get (lower.getLastD []) = [c])
    (hno : ∀ o, Orientation.compute (m.node c).obj obj ≠ .ok o)
    (htw : twins.contains obj.pardim = false) :
    m.resolve obj lower true twins = .ok (m.addNode obj lower) := by
  unfold Model.resolve
  dsimp only
  rw [hc]
  have htw' : obj.pardim ∉ twins := by simpa using htw
  cases h : Orientation.compute (m.node c).obj obj with
  | ok o => exact absurd h (hno o)
  | error e => simp only []; rw [h]; simp [htw']

theorem Model.resolve_many_reject (m : Model) (obj : Obj) (lower : List (List ℕ)) (add : Bool)
    (twins : List ℕ) (c d : ℕ) (cs : List ℕ)
    (hc : (m.level obj.pardim).get (lower.getLastD []) = c :: d :: cs)
    (htw : twins.contains obj.pardim = true) :
    m.resolve obj lower add twins = .error .twin := by
  unfold Model.resolve
  dsimp only
  rw [hc]
  have htw' : obj.pardim ∈ twins := by simpa using htw
  simp [htw']

/-- 2-D Jacobian determinant at the parametric centre, as computed inside `isRightHand`. -/
def jacDet2 (ktol : ℚ) (o : Obj) : ℚ :=
  (centreDerivative ktol o 0).getD 0 0 * (centreDerivative ktol o 1).getD 1 0 -
    (centreDerivative ktol o 0).getD 1 0 * (centreDerivative ktol o 1).getD 0 0

theorem isRightHand_neg2 (ktol tol : ℚ) (o : Obj) (hd : o.dimension = 2) (hp : o.pardim = 2)
    (hneg : jacDet2 ktol o < 0) : isRightHand ktol o tol = some false := by
  unfold isRightHand
  have h3 : ¬ (o.dimension = 3 ∧ o.pardim = 3) := by omega
  rw [if_neg h3, if_pos ⟨hd, hp⟩]
  unfold jacDet2 at hneg
  simp only [Option.some.injEq, decide_eq_false_iff_not]
  rintro ⟨_, h0, _⟩
  exact absurd h0 (not_le.2 hneg)

theorem SplineModel.add_left_handed (ktol : ℚ) (sm : SplineModel) (objs : List Obj) (twins : List ℕ)
    (hf : sm.forceRightHand = true)
    (hex : ∃ p ∈ objs, isRightHand ktol p (1 / 1000) ≠ some true) :
    sm.add ktol objs twins = .error .value := by
  unfold SplineModel.add
  obtain ⟨p, hp, hne⟩ := hex
  have hany : objs.any (fun p => isRightHand ktol p (1 / 1000) != some true) = true := by
    rw [List.any_eq_true]; exact ⟨p, hp, by simpa using hne⟩
  split
  · rfl
  · split
    · rfl
    · rw [hf, hany]; rfl

theorem SplineModel.new_wrong_dims (pardim dimension : ℕ)
    (h : ¬ ((pardim = 2 ∧ dimension = 2) ∨ (pardim = 3 ∧ dimension = 3))) :
    SplineModel.new pardim dimension true = .error .value := by
  unfold SplineModel.new
  simp [h]

end Splipy.MP
