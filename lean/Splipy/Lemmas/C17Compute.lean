import Splipy.Lemmas.C17Group

/-! Lemmas for C17: `Orientation.compute` is exactly the ordered search for a fitting orientation. -/

namespace Splipy.MP

/-- `o` maps `b` onto `a`: the test inside the double loop of `Orientation.compute`
    (transposed shape agrees, the control nets agree after `map_array`, the bases match). -/
def fitsB (a b : Obj) (o : Orientation) : Bool :=
  orientationFits (compareNets a b).1 (compareNets a b).2 a b o

def Fits (o : Orientation) (a b : Obj) : Prop := fitsB a b o = true

instance (o : Orientation) (a b : Obj) : Decidable (Fits o a b) := by unfold Fits; infer_instance

theorem fits_iff (o : Orientation) (a b : Obj) :
    Fits o a b ↔ o.mapShape (compareNets a b).2.shape = (compareNets a b).1.shape ∧
      o.mapArray (compareNets a b).2 = (compareNets a b).1 ∧ basesMatch o a b = true := by
  simp [Fits, fitsB, orientationFits, and_assoc]

theorem compareNets_shape_fst (a b : Obj) : (compareNets a b).1.shape = a.shape := by
  unfold compareNets
  cases a.rational <;> cases b.rational <;> simp [promoteNet, normWeights, NdArr.map, Obj.shape]

theorem compareNets_shape_snd (a b : Obj) : (compareNets a b).2.shape = b.shape := by
  unfold compareNets
  cases a.rational <;> cases b.rational <;> simp [promoteNet, normWeights, NdArr.map, Obj.shape]

/-- the preliminary checks of `compute` -/
def PreOK (a b : Obj) : Prop :=
  a.pardim = b.pardim ∧ a.dimension = b.dimension ∧ a.shape.Perm b.shape

instance (a b : Obj) : Decidable (PreOK a b) := by unfold PreOK; infer_instance

theorem compute_eq (a b : Obj) :
    Orientation.compute a b =
      if PreOK a b then
        match (Orientation.all a.pardim).find? (fitsB a b) with
        | some o => Except.ok o
        | none => Except.error MErr.orientation
      else Except.error MErr.orientation := by
  unfold Orientation.compute PreOK sameShapeCounter fitsB
  by_cases h1 : a.pardim = b.pardim <;> by_cases h2 : a.dimension = b.dimension <;>
    by_cases h3 : a.shape.Perm b.shape <;> (simp [h1, h2, h3]; try rfl)

theorem compute_ok_iff (a b : Obj) (o : Orientation) :
    Orientation.compute a b = .ok o ↔
      PreOK a b ∧ (Orientation.all a.pardim).find? (fitsB a b) = some o := by
  rw [compute_eq]
  by_cases h : PreOK a b
  · simp only [h, if_true, true_and]
    cases hf : (Orientation.all a.pardim).find? (fitsB a b) with
    | none => simp
    | some o' => simp
  · simp [h]

theorem compute_error (a b : Obj) (e : MErr) (h : Orientation.compute a b = .error e) :
    e = .orientation := by
  rw [compute_eq] at h
  by_cases hp : PreOK a b
  · simp only [hp, if_true] at h
    cases hf : (Orientation.all a.pardim).find? (fitsB a b) with
    | none => rw [hf] at h; simp at h; exact h.symm
    | some o' => rw [hf] at h; simp at h
  · simp [hp] at h; exact h.symm

/-- the shapes are permutations of each other when some well-formed orientation fits -/
theorem shape_perm_of_fits {o : Orientation} {a b : Obj} (ho : o.WF a.pardim)
    (hb : b.shape.length = a.pardim) (hf : Fits o a b) : a.shape.Perm b.shape := by
  have h := ((fits_iff o a b).1 hf).1
  rw [compareNets_shape_fst, compareNets_shape_snd] at h
  rw [← h]
  show (o.perm.map (fun e => b.shape.getD e 0)).Perm b.shape
  have := ho.1.map (fun e => b.shape.getD e 0)
  rw [map_getD_range' b.shape 0 hb] at this
  exact this

theorem compute_complete (a b : Obj) (hb : b.shape.length = b.pardim)
    (hp : a.pardim = b.pardim) (hd : a.dimension = b.dimension)
    (hex : ∃ o : Orientation, o.WF a.pardim ∧ Fits o a b) :
    ∃ o', Orientation.compute a b = .ok o' := by
  obtain ⟨o, ho, hf⟩ := hex
  have hpre : PreOK a b := ⟨hp, hd, shape_perm_of_fits ho (by rw [hb, hp]) hf⟩
  have hsome : ((Orientation.all a.pardim).find? (fitsB a b)).isSome := by
    rw [List.find?_isSome]
    exact ⟨o, (Orientation.mem_all _ _).2 ho, hf⟩
  obtain ⟨o', ho'⟩ := Option.isSome_iff_exists.1 hsome
  exact ⟨o', (compute_ok_iff a b o').2 ⟨hpre, ho'⟩⟩

theorem compute_sound (a b : Obj) (o : Orientation) (h : Orientation.compute a b = .ok o) :
    o.WF a.pardim ∧ Fits o a b ∧ a.pardim = b.pardim ∧ a.dimension = b.dimension := by
  obtain ⟨hpre, hfind⟩ := (compute_ok_iff a b o).1 h
  exact ⟨(Orientation.mem_all _ _).1 (List.mem_of_find?_eq_some hfind), List.find?_some hfind,
    hpre.1, hpre.2.1⟩

end Splipy.MP
