import Splipy.Lemmas.C05PerElev
import Splipy.Lemmas.C05Periodic

/-!
# C05c — folding the periodic elevation onto the periodic basis (Cox–de Boor level)

With the shift-invariant elevation matrix of `C05PerElev.lean`, the periodic spline with period
coefficients `f` on the sequence of period `expand w μ` is the periodic spline with coefficients
`f · E` on the sequence with multiplicities `μ + a`, on the whole (second) period `[w₀+T, w₀+2T]`.
-/

namespace Splipy

set_option linter.unusedSectionVars false

variable {K : Type} [Field K] [LinearOrder K] [IsStrictOrderedRing K]

open Finset

variable {tol : K} {p k : ℕ} {w0 : K} {wr : List K} {μ0 : ℕ} {μr : List ℕ} {T : K}

theorem PerData.seqOK (h : PerData tol p k w0 wr μ0 μr T) (h0 : 0 ≤ tol) :
    PerSeqOK (w0 :: wr) (μ0 :: μr) T where
  len := by simp [h.len]
  pos := by
    intro x hx
    rcases List.mem_cons.mp hx with rfl | hx
    · exact h.pos0
    · exact h.pos x hx
  ne := by simp
  sorted := (h.values h0).1.imp (fun hxy => by linarith)
  last := by
    intro x hx
    have := (h.values h0).2.1 x hx
    simp only [List.getD_cons_zero]
    linarith

/-- Values of the periodic sequence at the period boundaries. -/
theorem PerData.seq_values (h : PerData tol p k w0 wr μ0 μr T) (h0 : 0 ≤ tol) :
    (∀ m x, x < μ0 → pSeq (w0 :: wr) (μ0 :: μr) T (m * (μ0 + μr.sum) + x) = w0 + (m : K) * T) ∧
    (∀ m j, m * (μ0 + μr.sum) ≤ j → w0 + (m : K) * T ≤ pSeq (w0 :: wr) (μ0 :: μr) T j) ∧
    (∀ m j, j < m * (μ0 + μr.sum) → pSeq (w0 :: wr) (μ0 :: μr) T j < w0 + (m : K) * T) := by
  have hs := h.seqOK h0
  have hsum : (μ0 :: μr).sum = μ0 + μr.sum := by simp
  have hn : 0 < μ0 + μr.sum := by have := h.pos0; omega
  have hmono := pSeq_mono hs
  obtain ⟨_, hlt, hge, hT⟩ := h.values h0
  have first : ∀ m x, x < μ0 → pSeq (w0 :: wr) (μ0 :: μr) T (m * (μ0 + μr.sum) + x) = w0 + (m : K) * T := by
    intro m x hx
    rw [pSeq_val hs, hsum, c05_mul_add_mod_lt _ _ _ (by omega), c05_mul_add_div_lt _ _ _ (by omega),
      blk_cons_lt _ hx]
    simp
  refine ⟨first, ?_, ?_⟩
  · intro m j hj
    have := hmono hj
    rw [← first m 0 h.pos0]
    simpa using this
  · intro m j hj
    -- j lies in some period m' < m
    have hm' : j / (μ0 + μr.sum) < m := Nat.div_lt_of_lt_mul (by rw [Nat.mul_comm]; exact hj)
    rw [pSeq_val hs, hsum]
    have hx : j % (μ0 + μr.sum) < μ0 + μr.sum := Nat.mod_lt _ hn
    have hb := blk_lt (μ0 :: μr) (j % (μ0 + μr.sum)) (by rw [hsum]; exact hx)
    have hlen : (w0 :: wr).length = (μ0 :: μr).length := by simp [h.len]
    rw [← hlen] at hb
    have hmem : (w0 :: wr).getD (blk (μ0 :: μr) (j % (μ0 + μr.sum))) 0 ∈ w0 :: wr := by
      rw [List.getD_eq_getElem _ _ hb]; exact List.getElem_mem _
    have h1 := hlt _ hmem
    have h2 : ((j / (μ0 + μr.sum) : ℕ) : K) + 1 ≤ (m : K) := by exact_mod_cast hm'
    have hT0 : 0 < T := by linarith
    nlinarith

/-- `U` lies in the second period `[w₀+T, w₀+2T]`, approached from side `s` inside it. -/
def InPer (w0 T : K) (s : Side) (U : K) : Prop :=
  (w0 + T ≤ U ∧ U ≤ w0 + 2 * T) ∧ (s = Side.left → w0 + T < U) ∧ (s = Side.right → U < w0 + 2 * T)

/-- Outside the index window `[n-(k+1), 2n)` the B-splines of degree `p-1` vanish on the second period. -/
theorem PerData.B_zero_outside (h : PerData tol p k w0 wr μ0 μr T) (h0 : 0 ≤ tol) (s : Side) (U : K)
    (hU : InPer w0 T s U) (i : ℕ)
    (hi : i + (k + 1) < μ0 + μr.sum ∨ 2 * (μ0 + μr.sum) ≤ i) :
    B s (pSeq (w0 :: wr) (μ0 :: μr) T) (p - 1) i U = 0 := by
  have hs := h.seqOK h0
  have hmono := pSeq_mono hs
  obtain ⟨first, ge, lt⟩ := h.seq_values h0
  have hk2 := h.hk2
  have hs1 := h.seam1
  have hk := h.hk
  obtain ⟨⟨hU1, hU2⟩, hUl, hUr⟩ := hU
  rcases hi with hi | hi
  · have hidx : i + (p - 1) + 1 ≤ 1 * (μ0 + μr.sum) + (p - k - 2) := by omega
    have hv : pSeq (w0 :: wr) (μ0 :: μr) T (i + (p - 1) + 1) ≤ w0 + T := by
      have := hmono hidx
      rw [first 1 (p - k - 2) (by omega)] at this
      simpa using this
    cases s with
    | right => exact B_support_right _ hmono _ _ _ (Or.inr (le_trans hv hU1))
    | left => exact B_support_left _ hmono _ _ _ (Or.inr (lt_of_le_of_lt hv (hUl rfl)))
  · have hv : w0 + 2 * T ≤ pSeq (w0 :: wr) (μ0 :: μr) T i := by
      have := ge 2 i hi
      push_cast at this
      exact this
    cases s with
    | right => exact B_support_right _ hmono _ _ _ (Or.inl (lt_of_lt_of_le (hUr rfl) hv))
    | left => exact B_support_left _ hmono _ _ _ (Or.inl (le_trans hU2 hv))

theorem sum_range_mid (g : ℕ → K) (a b c : ℕ) (h1 : ∀ i, i < a → g i = 0)
    (h2 : ∀ i, a + b ≤ i → i < a + b + c → g i = 0) :
    ∑ i ∈ range (a + b + c), g i = ∑ i ∈ range b, g (a + i) := by
  rw [Finset.sum_range_add, Finset.sum_range_add]
  rw [Finset.sum_eq_zero (s := range a) (fun i hi => h1 i (mem_range.mp hi)), zero_add]
  rw [Finset.sum_eq_zero (s := range c) (fun i hi => h2 (a + b + i) (by omega) (by have := mem_range.mp hi; omega)),
    add_zero]

/-- **Folding.**  One period of coefficients `f` on the periodic sequence of `(w, μ)` and the
    coefficients `f · E` on the sequence of `(w, μ + a)` give the same periodic spline on the second
    period `[w₀+T, w₀+2T]` (index windows as in the standard periodic knot vectors: `n + k + 1`
    functions starting at position `n - (k+1)`). -/
theorem PerData.fold (h : PerData tol p k w0 wr μ0 μr T) (h0 : 0 ≤ tol) (a : ℕ) :
    ∃ E : ℕ → ℕ → K, (∀ j r, 0 ≤ E j r) ∧ ∀ (f : ℕ → K) (s : Side) (U : K), InPer w0 T s U →
      ∑ l ∈ range ((μ0 + a) + (μr.map (· + a)).sum + k + 1),
          B s (pSeq (w0 :: wr) ((μ0 + a) :: μr.map (· + a)) T) (p - 1 + a)
              (l + ((μ0 + a) + (μr.map (· + a)).sum - (k + 1))) U
            * (∑ j ∈ range (μ0 + μr.sum), f j * E j (l % ((μ0 + a) + (μr.map (· + a)).sum)))
        = ∑ i ∈ range (μ0 + μr.sum + k + 1),
            B s (pSeq (w0 :: wr) (μ0 :: μr) T) (p - 1) (i + (μ0 + μr.sum - (k + 1))) U * f (i % (μ0 + μr.sum)) := by
  have hr := h.raise a
  have hs := h.seqOK h0
  have hs' := hr.seqOK h0
  set n := μ0 + μr.sum with hn
  set n' := (μ0 + a) + (μr.map (· + a)).sum with hn'
  set τ := pSeq (w0 :: wr) (μ0 :: μr) T with hτ
  set σ := pSeq (w0 :: wr) ((μ0 + a) :: μr.map (· + a)) T with hσ
  have hsum : (μ0 :: μr).sum = n := by simp [hn]
  have hsum' : ((μ0 :: μr).map (· + a)).sum = n' := by simp [hn']
  have hmap : (μ0 :: μr).map (· + a) = (μ0 + a) :: μr.map (· + a) := by simp
  obtain ⟨A, hA, hinv⟩ := Elev.perIter_inv hs (p - 1) a
  rw [hmap] at hA
  rw [hsum, hsum'] at hinv
  -- numeric facts
  have hk := h.hk
  have hp := h.hp
  have hk2 := h.hk2
  have hk' := hr.hk
  have hp' := hr.hp
  have hnpos : 0 < n := by have := h.pos0; omega
  have hn'pos : 0 < n' := by have := hr.pos0; omega
  obtain ⟨first, ge, lt⟩ := h.seq_values h0
  obtain ⟨first', ge', lt'⟩ := hr.seq_values h0
  have hmono := pSeq_mono hs
  have hmono' := pSeq_mono hs'
  -- rows are finite: a common bound
  choose N0 hN0 using hA.fin
  set I := 3 * n with hI
  set M := (range I).sup N0 with hM
  set N := 2 * n' + M with hN
  have hrowN : ∀ i, i < I → ∀ j, N ≤ j → A i j = 0 := by
    intro i hi j hj
    exact hN0 i j (le_trans (Finset.le_sup (f := N0) (mem_range.mpr hi)) (by omega))
  -- the matrix of the fold
  refine ⟨fun j r => ∑ i ∈ range I, if (i + k + 1) % n = j then A i (r + (n' - (k + 1))) else 0, ?_, ?_⟩
  · intro j r
    apply Finset.sum_nonneg
    intro i _
    split_ifs
    · exact hA.nonneg _ _
    · exact le_refl _
  intro f s U hU
  set F : ℕ → K := fun i => f ((i + k + 1) % n) with hF
  set D : ℕ → K := fun l => ∑ i ∈ range I, F i * A i l with hD
  -- (i) the right-hand side as a sum over `i < I`
  have hR : ∑ i ∈ range (n + k + 1), B s τ (p - 1) (i + (n - (k + 1))) U * f (i % n)
      = ∑ i ∈ range I, F i * B s τ (p - 1) i U := by
    have hsplit : I = (n - (k + 1)) + (n + k + 1) + n := by omega
    rw [hsplit, sum_range_mid (fun i => F i * B s τ (p - 1) i U) (n - (k + 1)) (n + k + 1) n]
    · apply Finset.sum_congr rfl
      intro i _
      have e : (n - (k + 1) + i + k + 1) % n = i % n := by
        rw [show n - (k + 1) + i + k + 1 = i + n by omega, Nat.add_mod_right]
      simp only [hF, e]
      rw [Nat.add_comm (n - (k + 1)) i, mul_comm]
    · intro i hi
      rw [h.B_zero_outside h0 s U hU i (Or.inl (by omega)), mul_zero]
    · intro i hi1 hi2
      rw [h.B_zero_outside h0 s U hU i (Or.inr (by omega)), mul_zero]
  rw [hR]
  -- (ii)+(iii) elevate every term
  have hE : ∑ i ∈ range I, F i * B s τ (p - 1) i U = ∑ l ∈ range N, D l * B s σ (p - 1 + a) l U := by
    rw [Finset.sum_congr rfl (fun i hi => by
      rw [hA.ident i s U N (hrowN i (mem_range.mp hi)), Finset.mul_sum])]
    rw [Finset.sum_comm]
    apply Finset.sum_congr rfl
    intro l _
    simp only [hD]
    rw [Finset.sum_mul]
    apply Finset.sum_congr rfl
    intro i _
    ring
  rw [hE]
  -- (iv) only the window `[n'-(k+1), 2n')` contributes
  have hW : ∑ l ∈ range N, D l * B s σ (p - 1 + a) l U
      = ∑ l ∈ range (n' + k + 1), D (n' - (k + 1) + l) * B s σ (p - 1 + a) (n' - (k + 1) + l) U := by
    have hsplit : N = (n' - (k + 1)) + (n' + k + 1) + M := by omega
    have hdeg : p - 1 + a = p + a - 1 := by omega
    rw [hsplit, sum_range_mid (fun l => D l * B s σ (p - 1 + a) l U) (n' - (k + 1)) (n' + k + 1) M]
    · intro l hl
      rw [hdeg, hr.B_zero_outside h0 s U hU l (Or.inl (by omega)), mul_zero]
    · intro l hl1 hl2
      rw [hdeg, hr.B_zero_outside h0 s U hU l (Or.inr (by omega)), mul_zero]
  rw [hW]
  -- (vi) periodicity of `D` on the overlap
  have hper : ∀ L, n' - (k + 1) ≤ L → L < n' → D (L + n') = D L := by
    intro L hL1 hL2
    simp only [hD]
    -- rows i < n do not reach column L + n'
    have hz1 : ∀ i, i < n → A i (L + n') = 0 := by
      intro i hi
      by_contra hne
      have hsupp := (hA.supp i (L + n') hne).2
      have h1 : w0 + 2 * T ≤ σ (L + n' + (p - 1 + a) + 1) := by
        have := ge' 2 (L + n' + (p - 1 + a) + 1) (by omega)
        push_cast at this
        exact this
      have h2 : τ (i + (p - 1) + 1) < w0 + 2 * T := by
        have := lt 2 (i + (p - 1) + 1) (by omega)
        push_cast at this
        exact this
      linarith
    -- rows i ≥ 2n do not reach column L
    have hz2 : ∀ i, 2 * n ≤ i → A i L = 0 := by
      intro i hi
      by_contra hne
      have hsupp := (hA.supp i L hne).1
      have h1 : w0 + 2 * T ≤ τ i := by
        have := ge 2 i hi
        push_cast at this
        exact this
      have h2 : σ L < w0 + 1 * T := by
        have := lt' 1 L (by omega)
        push_cast at this
        simpa using this
      have hT : 0 < T := by have := (h.values h0).2.2.2; linarith
      linarith
    have hI3 : I = n + 2 * n := by omega
    have hI3' : I = 2 * n + n := by omega
    have lhs : ∑ i ∈ range I, F i * A i (L + n') = ∑ i ∈ range (2 * n), F i * A i L := by
      rw [hI3, Finset.sum_range_add]
      rw [Finset.sum_eq_zero (s := range n) (fun i hi => by rw [hz1 i (mem_range.mp hi), mul_zero]), zero_add]
      apply Finset.sum_congr rfl
      intro i _
      have e1 : F (n + i) = F i := by
        simp only [hF]
        rw [show n + i + k + 1 = (i + k + 1) + n by omega, Nat.add_mod_right]
      rw [e1, Nat.add_comm n i, hinv]
    have rhs : ∑ i ∈ range I, F i * A i L = ∑ i ∈ range (2 * n), F i * A i L := by
      rw [hI3', Finset.sum_range_add]
      rw [Finset.sum_eq_zero (s := range n) (fun i _ => by rw [hz2 (2 * n + i) (by omega), mul_zero]), add_zero]
    rw [lhs, rhs]
  -- (v) identify the coefficients
  apply Finset.sum_congr rfl
  intro l hl
  have hl' := mem_range.mp hl
  rw [Nat.add_comm (n' - (k + 1)) l, mul_comm]
  congr 1
  have hDE : ∀ r, r < n' → D (r + (n' - (k + 1)))
      = ∑ j ∈ range n, f j * ∑ i ∈ range I, if (i + k + 1) % n = j then A i (r + (n' - (k + 1))) else 0 := by
    intro r _
    simp only [hD, hF]
    rw [Finset.sum_congr rfl (fun j _ => Finset.mul_sum _ _ _), Finset.sum_comm]
    apply Finset.sum_congr rfl
    intro i _
    have hlt : (i + k + 1) % n < n := Nat.mod_lt _ hnpos
    rw [Finset.sum_eq_single ((i + k + 1) % n)]
    · simp
    · intro j _ hne
      rw [if_neg (Ne.symm hne), mul_zero]
    · intro hni
      exact absurd (mem_range.mpr hlt) hni
  by_cases hc : l < n'
  · rw [Nat.mod_eq_of_lt hc]
    exact (hDE l hc).symm
  · have hmod : l % n' = l - n' := by
      rw [Nat.mod_eq_sub_mod (by omega), Nat.mod_eq_of_lt (by omega)]
    rw [hmod]
    refine Eq.trans (hDE (l - n') (by omega)).symm ?_
    have := hper (l - n' + (n' - (k + 1))) (by omega) (by omega)
    rw [← this]
    congr 1
    omega

end Splipy
