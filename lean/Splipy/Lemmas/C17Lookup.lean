import Splipy.Lemmas.C17Resolve

/-! Lemmas for C17: the induction over the parametric dimension — `ObjectCatalogue.lookup` keeps
the invariant, returns the node representing its argument, and finds every represented object. -/

namespace Splipy.MP

theorem Model.firstView_isSome {m : Model} {x : Obj} {cs : List ℕ} {c : ℕ} {o : Orientation}
    (hc : c ∈ cs) (ho : Orientation.compute (m.node c).obj x = .ok o) :
    ∃ r, m.firstView x cs = some r := by
  cases h : m.firstView x cs with
  | some r => exact ⟨r, rfl⟩
  | none => exact absurd ho (Model.firstView_none h c hc o)

/-- **`resolve` (completeness)**: a represented object is found when twins are tolerated. -/
theorem resolve_complete {nc : ℕ} {S : Obj → Prop} {m : Model} (hI : Inv nc S m) {x : Obj}
    (hx : GU nc x) (hpd : 1 ≤ x.pardim) (add : Bool) {lower : List (List ℕ)}
    (hL : LowerOK m x lower) (tw : List ℕ) (htw : tw.contains x.pardim = false)
    {c : ℕ} (hc : Rep m c x) : ∃ r, m.resolve x lower add tw = .ok r := by
  have hmem := rep_in_candidates hI hx hpd hL hc
  obtain ⟨o, ho⟩ := hc.2
  unfold Model.resolve
  dsimp only
  cases hcs : (m.level x.pardim).get (lower.getLastD []) with
  | nil => rw [hcs] at hmem; simp at hmem
  | cons c' cs =>
    cases cs with
    | nil =>
      rw [hcs] at hmem
      simp only [List.mem_singleton] at hmem
      subst hmem
      simp only
      rw [ho]; exact ⟨_, rfl⟩
    | cons d ds =>
      simp only [htw, Bool.false_eq_true, if_false]
      rw [hcs] at hmem
      obtain ⟨r, hr⟩ := Model.firstView_isSome hmem ho
      rw [hr]; exact ⟨_, rfl⟩

/-- what the lookup one level down must satisfy (soundness) -/
def SoundAt (nc : ℕ) (S : Obj → Prop) (look : Model → Obj → Except MErr (Model × ℕ × Orientation))
    (add : Bool) (d : ℕ) : Prop :=
  ∀ (m : Model) (y : Obj) (m' : Model) (id : ℕ) (o : Orientation), Inv nc S m → GU nc y →
    y.pardim ≤ d → y.pardim < m.levels.size → (add = true → S y) → look m y = .ok (m', id, o) →
    Inv nc S m' ∧ Ext m m' ∧ Rep m' id y ∧ Orientation.compute (m'.node id).obj y = .ok o ∧
      (add = false → m' = m)

/-- … and completeness -/
def CompleteAt (nc : ℕ) (S : Obj → Prop) (look : Model → Obj → Except MErr (Model × ℕ × Orientation))
    (add : Bool) (d : ℕ) : Prop :=
  ∀ (m : Model) (y : Obj), Inv nc S m → GU nc y → y.pardim ≤ d → y.pardim < m.levels.size →
    (add = true → S y) → (∃ c, Rep m c y) → ∃ r, look m y = .ok r

/-- sections handed to the lookup one level down -/
def SecsOK (x : Obj) (secs : List Sec) (d L : ℕ) : Prop :=
  ∀ s ∈ secs, s.length = x.pardim ∧ (x.sect s).pardim ≤ d ∧ (x.sect s).pardim < L ∧
    secTgtDim s < x.pardim

theorem lookupList_sound {nc : ℕ} {S : Obj → Prop}
    {look : Model → Obj → Except MErr (Model × ℕ × Orientation)} {add : Bool} {d L : ℕ}
    (hlook : SoundAt nc S look add d) {x : Obj} (hx : GU nc x) (hSx : add = true → S x)
    (hsect : ∀ y sec, S y → sec.length = y.pardim → secTgtDim sec < y.pardim → S (y.sect sec))
    (secs : List Sec) (hsecs : SecsOK x secs d L) :
    ∀ (m m' : Model) (ids : List ℕ), Inv nc S m → m.levels.size = L →
      Model.lookupList look x secs m = .ok (m', ids) →
      Inv nc S m' ∧ Ext m m' ∧ ids.length = secs.length ∧
        (∀ j, j < secs.length → Rep m' (ids.getD j 0) (x.sect (secs.getD j []))) ∧
        (add = false → m' = m) := by
  induction secs with
  | nil =>
    intro m m' ids hI _ h
    simp only [Model.lookupList, Except.ok.injEq, Prod.mk.injEq] at h
    obtain ⟨rfl, rfl⟩ := h
    exact ⟨hI, Ext.refl _, rfl, fun j hj => by simp at hj, fun _ => rfl⟩
  | cons s rest ih =>
    intro m m' ids hI hL h
    simp only [Model.lookupList] at h
    obtain ⟨hsl, hsd, hsL, hst⟩ := hsecs s (by simp)
    cases h1 : look m (x.sect s) with
    | error e => rw [h1] at h; simp at h
    | ok r1 =>
      obtain ⟨m1, id, o1⟩ := r1
      rw [h1] at h
      simp only at h
      obtain ⟨hI1, hE1, hR1, _, hsame1⟩ := hlook m (x.sect s) m1 id o1 hI (hx.sect hsl) hsd
        (by rw [hL]; exact hsL) (fun ha => hsect x s (hSx ha) hsl hst) h1
      cases h2 : Model.lookupList look x rest m1 with
      | error e => rw [h2] at h; simp at h
      | ok r2 =>
        obtain ⟨m2, ids'⟩ := r2
        rw [h2] at h
        simp only [Except.ok.injEq, Prod.mk.injEq] at h
        obtain ⟨rfl, rfl⟩ := h
        obtain ⟨hI2, hE2, hlen, hR2, hsame2⟩ := ih (fun t ht => hsecs t (List.mem_cons_of_mem _ ht))
          m1 m2 ids' hI1 (by rw [hE1.lsize]; exact hL) h2
        refine ⟨hI2, hE1.trans hE2, by simp [hlen], ?_, fun ha => by rw [hsame2 ha, hsame1 ha]⟩
        intro j hj
        cases j with
        | zero => simpa using hR1.ext hE2
        | succ j =>
          have := hR2 j (by simpa using hj)
          simpa using this

theorem lookupList_complete {nc : ℕ} {S : Obj → Prop}
    {look : Model → Obj → Except MErr (Model × ℕ × Orientation)} {add : Bool} {d L : ℕ}
    (hlook : SoundAt nc S look add d) (hcomp : CompleteAt nc S look add d) {x : Obj} (hx : GU nc x)
    (hSx : add = true → S x) (hsect : ∀ y sec, S y → sec.length = y.pardim → secTgtDim sec < y.pardim → S (y.sect sec))
    (secs : List Sec) (hsecs : SecsOK x secs d L) :
    ∀ (m : Model), Inv nc S m → m.levels.size = L →
      (∀ s ∈ secs, ∃ c, Rep m c (x.sect s)) →
      ∃ r, Model.lookupList look x secs m = .ok r := by
  induction secs with
  | nil => intro m _ _ _; exact ⟨_, rfl⟩
  | cons s rest ih =>
    intro m hI hL hreps
    obtain ⟨hsl, hsd, hsL, hst⟩ := hsecs s (by simp)
    obtain ⟨r1, h1⟩ := hcomp m (x.sect s) hI (hx.sect hsl) hsd (by rw [hL]; exact hsL)
      (fun ha => hsect x s (hSx ha) hsl hst) (hreps s (by simp))
    obtain ⟨m1, id, o1⟩ := r1
    obtain ⟨hI1, hE1, _, _, _⟩ := hlook m (x.sect s) m1 id o1 hI (hx.sect hsl) hsd
      (by rw [hL]; exact hsL) (fun ha => hsect x s (hSx ha) hsl hst) h1
    obtain ⟨r2, h2⟩ := ih (fun t ht => hsecs t (List.mem_cons_of_mem _ ht)) m1 hI1
      (by rw [hE1.lsize]; exact hL)
      (fun t ht => by
        obtain ⟨c, hc⟩ := hreps t (List.mem_cons_of_mem _ ht)
        exact ⟨c, hc.ext hE1⟩)
    simp only [Model.lookupList, h1, h2]
    exact ⟨_, rfl⟩

theorem lookupLower_sound {nc : ℕ} {S : Obj → Prop}
    {look : Model → Obj → Except MErr (Model × ℕ × Orientation)} {add : Bool} {d L : ℕ}
    (hlook : SoundAt nc S look add d) {x : Obj} (hx : GU nc x) (hSx : add = true → S x)
    (hsect : ∀ y sec, S y → sec.length = y.pardim → secTgtDim sec < y.pardim → S (y.sect sec)) (pd : ℕ)
    (dims : List ℕ) (hdims : ∀ i ∈ dims, SecsOK x (sections pd i) d L) :
    ∀ (m m' : Model) (lower : List (List ℕ)), Inv nc S m → m.levels.size = L →
      Model.lookupLower look x pd dims m = .ok (m', lower) →
      Inv nc S m' ∧ Ext m m' ∧ lower.length = dims.length ∧
        (∀ k, k < dims.length →
          (lower.getD k []).length = (sections pd (dims.getD k 0)).length ∧
          ∀ j, j < (sections pd (dims.getD k 0)).length →
            Rep m' ((lower.getD k []).getD j 0) (x.sect ((sections pd (dims.getD k 0)).getD j []))) ∧
        (add = false → m' = m) := by
  induction dims with
  | nil =>
    intro m m' lower hI _ h
    simp only [Model.lookupLower, Except.ok.injEq, Prod.mk.injEq] at h
    obtain ⟨rfl, rfl⟩ := h
    exact ⟨hI, Ext.refl _, rfl, fun k hk => by simp at hk, fun _ => rfl⟩
  | cons i rest ih =>
    intro m m' lower hI hL h
    simp only [Model.lookupLower] at h
    cases h1 : Model.lookupList look x (sections pd i) m with
    | error e => rw [h1] at h; simp at h
    | ok r1 =>
      obtain ⟨m1, ids⟩ := r1
      rw [h1] at h
      simp only at h
      obtain ⟨hI1, hE1, hlen1, hR1, hsame1⟩ := lookupList_sound hlook hx hSx hsect _
        (hdims i (by simp)) m m1 ids hI hL h1
      cases h2 : Model.lookupLower look x pd rest m1 with
      | error e => rw [h2] at h; simp at h
      | ok r2 =>
        obtain ⟨m2, lower'⟩ := r2
        rw [h2] at h
        simp only [Except.ok.injEq, Prod.mk.injEq] at h
        obtain ⟨rfl, rfl⟩ := h
        obtain ⟨hI2, hE2, hlen2, hR2, hsame2⟩ := ih (fun t ht => hdims t (List.mem_cons_of_mem _ ht))
          m1 m2 lower' hI1 (by rw [hE1.lsize]; exact hL) h2
        refine ⟨hI2, hE1.trans hE2, by simp [hlen2], ?_, fun ha => by rw [hsame2 ha, hsame1 ha]⟩
        intro k hk
        cases k with
        | zero =>
          simp only [List.getD_cons_zero]
          exact ⟨hlen1, fun j hj => (hR1 j hj).ext hE2⟩
        | succ k =>
          simp only [List.getD_cons_succ]
          exact hR2 k (by simpa using hk)

theorem lookupLower_complete {nc : ℕ} {S : Obj → Prop}
    {look : Model → Obj → Except MErr (Model × ℕ × Orientation)} {add : Bool} {d L : ℕ}
    (hlook : SoundAt nc S look add d) (hcomp : CompleteAt nc S look add d) {x : Obj} (hx : GU nc x)
    (hSx : add = true → S x) (hsect : ∀ y sec, S y → sec.length = y.pardim → secTgtDim sec < y.pardim → S (y.sect sec)) (pd : ℕ)
    (dims : List ℕ) (hdims : ∀ i ∈ dims, SecsOK x (sections pd i) d L) :
    ∀ (m : Model), Inv nc S m → m.levels.size = L →
      (∀ i ∈ dims, ∀ s ∈ sections pd i, ∃ c, Rep m c (x.sect s)) →
      ∃ r, Model.lookupLower look x pd dims m = .ok r := by
  induction dims with
  | nil => intro m _ _ _; exact ⟨_, rfl⟩
  | cons i rest ih =>
    intro m hI hL hreps
    obtain ⟨r1, h1⟩ := lookupList_complete hlook hcomp hx hSx hsect _ (hdims i (by simp)) m hI hL
      (hreps i (by simp))
    obtain ⟨m1, ids⟩ := r1
    obtain ⟨hI1, hE1, _, _, _⟩ := lookupList_sound hlook hx hSx hsect _
      (hdims i (by simp)) m m1 ids hI hL h1
    obtain ⟨r2, h2⟩ := ih (fun t ht => hdims t (List.mem_cons_of_mem _ ht)) m1 hI1
      (by rw [hE1.lsize]; exact hL)
      (fun t ht s hs => by
        obtain ⟨c, hc⟩ := hreps t (List.mem_cons_of_mem _ ht) s hs
        exact ⟨c, hc.ext hE1⟩)
    simp only [Model.lookupLower, h1, h2]
    exact ⟨_, rfl⟩

/-- sections of a represented object are represented -/
theorem rep_sect {nc : ℕ} {S : Obj → Prop} {m : Model} (hI : Inv nc S m) {y : Obj} (hy : GU nc y)
    {c : ℕ} (hc : Rep m c y) {s : Sec} (hs : s.length = y.pardim) (hlt : secTgtDim s < y.pardim) :
    ∃ c', Rep m c' (y.sect s) := by
  have ha := hI.gu hc.1
  obtain ⟨o, ho⟩ := hc.2
  obtain ⟨hwf, _, hp, _⟩ := compute_sound _ _ o ho
  have hn3 : (m.node c).obj.pardim ≤ 3 := ha.small
  have hs' : s.length = (m.node c).obj.pardim := by rw [hs, hp]
  have hst := sectionTable hn3 hwf hs'
  simp only [sectionRow, Bool.and_eq_true, decide_eq_true_eq] at hst
  obtain ⟨⟨_, hml⟩, htgt⟩ := hst
  have hsr := secTable hn3 hml
  simp only [secRow, Bool.and_eq_true, decide_eq_true_eq, List.all_eq_true] at hsr
  have hmem : o.mapSection s ∈ sections (m.node c).obj.pardim (secTgtDim s) := by
    have := hsr.2 (by rw [htgt, hp]; exact hlt)
    rw [htgt] at this
    exact this
  have hidx := List.idxOf_lt_length_iff.2 hmem
  have hlow := hI.low c hc.1 (secTgtDim s) (by rw [hp]; exact hlt) _ hidx
  rw [List.getD_eq_getElem _ _ hidx, List.getElem_idxOf hidx] at hlow
  exact ⟨_, Rep.equiv hI (ha.sect hml) (hy.sect hs) hlow (sect_equiv ha hy ho hs)⟩

theorem sect_pardim_of_mem {pd i : ℕ} (hpd : pd ≤ 3) (hi : i ≤ pd) {s : Sec} (hs : s ∈ sections pd i)
    (x : Obj) : s.length = pd ∧ (x.sect s).pardim = i ∧ secTgtDim s = i := by
  obtain ⟨hl, ht⟩ := mem_sections hpd hi hs
  have hsr := secTable hpd hl
  simp only [secRow, Bool.and_eq_true, decide_eq_true_eq, List.all_eq_true] at hsr
  exact ⟨hl, by rw [Obj.sect_pardim, hsr.1.1, ht], ht⟩

theorem Model.lookup_point (fuel : ℕ) (m : Model) (y : Obj) (add : Bool) (tw : List ℕ)
    (h0 : y.pardim = 0) : Model.lookup fuel m y add tw = m.lookupPoint y add := by
  cases fuel <;> simp [Model.lookup, h0]

theorem Model.lookup_succ (fuel : ℕ) (m : Model) (y : Obj) (add : Bool) (tw : List ℕ)
    (h0 : y.pardim ≠ 0) : Model.lookup (fuel + 1) m y add tw =
      match Model.lookupLower (fun m' z => Model.lookup fuel m' z add tw) y y.pardim
          (List.range y.pardim) m with
      | .error e => .error e
      | .ok (m1, lower) => m1.resolve y lower add tw := by
  rw [Model.lookup, if_neg h0]
  generalize Model.lookupLower _ y y.pardim (List.range y.pardim) m = r
  rcases r with e | ⟨m1, lower⟩ <;> rfl

theorem dims_ok {nc : ℕ} {y : Obj} (hy : GU nc y) {fuel L : ℕ} (hf : y.pardim ≤ fuel + 1)
    (hL : y.pardim < L) : ∀ i ∈ List.range y.pardim, SecsOK y (sections y.pardim i) fuel L := by
  intro i hi s hs
  have hi' := List.mem_range.1 hi
  obtain ⟨hl, hp, ht⟩ := sect_pardim_of_mem hy.small (by omega) hs y
  exact ⟨hl, by rw [hp]; omega, by rw [hp]; omega, by rw [ht]; exact hi'⟩

theorem lowerOK_of_loop {m : Model} {y : Obj} {lower : List (List ℕ)}
    (hlen : lower.length = (List.range y.pardim).length)
    (hR : ∀ k, k < (List.range y.pardim).length →
      (lower.getD k []).length = (sections y.pardim ((List.range y.pardim).getD k 0)).length ∧
      ∀ j, j < (sections y.pardim ((List.range y.pardim).getD k 0)).length →
        Rep m ((lower.getD k []).getD j 0)
          (y.sect ((sections y.pardim ((List.range y.pardim).getD k 0)).getD j []))) :
    LowerOK m y lower := by
  refine ⟨by simpa using hlen, fun i hi => ?_, fun i hi j hj => ?_⟩
  · have := (hR i (by simpa using hi)).1
    rwa [Orientation.range_getD hi] at this
  · have := (hR i (by simpa using hi)).2 j (by rw [Orientation.range_getD hi]; exact hj)
    rwa [Orientation.range_getD hi] at this

/-- **`ObjectCatalogue.lookup` (soundness), by induction on the dimension.** -/
theorem lookup_sound {nc : ℕ} {S : Obj → Prop} (hsect : ∀ y sec, S y → sec.length = y.pardim → secTgtDim sec < y.pardim → S (y.sect sec))
    (add : Bool) (tw : List ℕ) :
    ∀ fuel, SoundAt nc S (fun m y => Model.lookup fuel m y add tw) add fuel := by
  intro fuel
  induction fuel with
  | zero =>
    intro m y m' id o hI hy hd hlv hS h
    beta_reduce at h
    have h0 : y.pardim = 0 := by omega
    rw [Model.lookup_point _ _ _ _ _ h0] at h
    exact lookupPoint_sound hI hy h0 add hS (by omega) h
  | succ fuel ih =>
    intro m y m' id o hI hy hd hlv hS h
    beta_reduce at h
    by_cases h0 : y.pardim = 0
    · rw [Model.lookup_point _ _ _ _ _ h0] at h
      exact lookupPoint_sound hI hy h0 add hS (by omega) h
    · simp only [Model.lookup_succ _ _ _ _ _ h0] at h
      cases h1 : Model.lookupLower (fun m' z => Model.lookup fuel m' z add tw) y y.pardim
          (List.range y.pardim) m with
      | error e => rw [h1] at h; simp at h
      | ok r1 =>
        obtain ⟨m1, lower⟩ := r1
        rw [h1] at h
        simp only at h
        obtain ⟨hI1, hE1, hlen, hR, hsame1⟩ := lookupLower_sound ih hy hS hsect y.pardim _
          (dims_ok hy hd hlv) m m1 lower hI rfl h1
        have hL := lowerOK_of_loop hlen hR
        obtain ⟨hI2, hE2, hrep, hcomp, hsame2⟩ := resolve_sound hI1 hy (by omega)
          (by rw [hE1.lsize]; exact hlv) add hS hL tw h
        exact ⟨hI2, hE1.trans hE2, hrep, hcomp, fun ha => by rw [hsame2 ha, hsame1 ha]⟩

/-- **`ObjectCatalogue.lookup` (completeness)**: with twins tolerated, every represented object
    is found. -/
theorem lookup_complete {nc : ℕ} {S : Obj → Prop} (hsect : ∀ y sec, S y → sec.length = y.pardim → secTgtDim sec < y.pardim → S (y.sect sec))
    (add : Bool) :
    ∀ fuel, CompleteAt nc S (fun m y => Model.lookup fuel m y add []) add fuel := by
  intro fuel
  induction fuel with
  | zero =>
    intro m y hI hy hd hlv _ ⟨c, hc⟩
    have h0 : y.pardim = 0 := by omega
    simp only [Model.lookup_point _ _ _ _ _ h0]
    exact lookupPoint_complete hI hy h0 add hc
  | succ fuel ih =>
    intro m y hI hy hd hlv hS ⟨c, hc⟩
    by_cases h0 : y.pardim = 0
    · simp only [Model.lookup_point _ _ _ _ _ h0]
      exact lookupPoint_complete hI hy h0 add hc
    · simp only [Model.lookup_succ _ _ _ _ _ h0]
      have hsound := lookup_sound (nc := nc) hsect add [] fuel
      have hreps : ∀ i ∈ List.range y.pardim, ∀ s ∈ sections y.pardim i, ∃ c', Rep m c' (y.sect s) := by
        intro i hi s hs
        have hi' := List.mem_range.1 hi
        obtain ⟨hl, _, ht⟩ := sect_pardim_of_mem hy.small (by omega) hs y
        exact rep_sect hI hy hc hl (by rw [ht]; exact hi')
      obtain ⟨r1, h1⟩ := lookupLower_complete hsound ih hy hS hsect y.pardim _
        (dims_ok hy hd hlv) m hI rfl hreps
      obtain ⟨m1, lower⟩ := r1
      obtain ⟨hI1, hE1, hlen, hR, _⟩ := lookupLower_sound hsound hy hS hsect y.pardim _
        (dims_ok hy hd hlv) m m1 lower hI rfl h1
      have hL := lowerOK_of_loop hlen hR
      rw [h1]
      exact resolve_complete hI1 hy (by omega) add hL [] (by simp) (hc.ext hE1)

end Splipy.MP
