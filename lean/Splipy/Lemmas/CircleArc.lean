import Mathlib.Tactic.Ring
import Mathlib.Tactic.FieldSimp
import Mathlib.Tactic.LinearCombination
import Mathlib.Tactic.Linarith
import Mathlib.Tactic.Positivity
import Mathlib.Algebra.Order.Field.Basic

/-!
# One span of `curve_factory.circle_segment` lies on the circle

`circle_segment` builds, per knot span, a rational quadratic Bézier arc with the HOMOGENEOUS
control points (splipy stores `(x·w, y·w, w)`; the factory writes the rows `[x, y, w]` below
directly into that storage)

```
cp[2k]   = [r cos t,        r sin t,        1      ]
cp[2k+1] = [r cos (t+dt),   r sin (t+dt),   cos dt ]
cp[2k+2] = [r cos (t+2dt),  r sin (t+2dt),  1      ]
```

(`w = 1 - (i % 2) * (1 - cos(dt))`).  Note that the middle row is `(r c1, r s1, w)` and NOT
`(r c1 w, r s1 w, w)`: its Cartesian image `(r c1 / w, r s1 / w)` is the intersection of the
end tangents, as it must be.

With the knot vector `[0,0,0,1,1,2,2,…]` each span carries the Bernstein basis
`b0 = (1-u)², b1 = 2u(1-u), b2 = u²` in the local parameter `u`.  Writing
`c0,s0 / c1,s1 / c2,s2` for the cosine/sine of `t`, `t+dt`, `t+2dt` and `w = cos dt`, the
only trigonometric facts used are `c0²+s0² = 1`, `c1²+s1² = 1`, `w = c0 c1 + s0 s1`
(`cos(dt) = cos((t+dt) - t)`) and `c2 = 2 w c1 - c0`, `s2 = 2 w s1 - s0`
(`cos(t+2dt) + cos t = 2 cos dt cos(t+dt)`, same for `sin`).
-/

namespace Splipy.CircleArc

section field
variable {K : Type} [Field K]

/-- Quadratic Bernstein polynomials. -/
def b0 (u : K) : K := (1 - u) ^ 2
def b1 (u : K) : K := 2 * u * (1 - u)
def b2 (u : K) : K := u ^ 2

/-- Homogeneous `x`-coordinate `Σ bᵢ(u) cp[i][0]` of the span. -/
def X (r c0 c1 c2 u : K) : K := b0 u * (r * c0) + b1 u * (r * c1) + b2 u * (r * c2)
/-- Homogeneous `y`-coordinate `Σ bᵢ(u) cp[i][1]`. -/
def Y (r s0 s1 s2 u : K) : K := b0 u * (r * s0) + b1 u * (r * s1) + b2 u * (r * s2)
/-- Weight function `Σ bᵢ(u) cp[i][2]`. -/
def W (w u : K) : K := b0 u * 1 + b1 u * w + b2 u * 1

/-- The third point is again on the unit circle (so this need not be assumed). -/
theorem end_on_circle {c0 s0 c1 s1 c2 s2 w : K}
    (h0 : c0 ^ 2 + s0 ^ 2 = 1) (h1 : c1 ^ 2 + s1 ^ 2 = 1) (hw : w = c0 * c1 + s0 * s1)
    (hc2 : c2 = 2 * w * c1 - c0) (hs2 : s2 = 2 * w * s1 - s0) :
    c2 ^ 2 + s2 ^ 2 = 1 := by
  subst hc2 hs2
  linear_combination h0 + (4 * w ^ 2) * h1 + (4 * w) * hw

/-- **The homogeneous curve lies on the cone `X² + Y² = r² W²`** for every parameter value `u`
(a polynomial identity in `u`). -/
theorem arc_on_cone {r c0 s0 c1 s1 c2 s2 w : K}
    (h0 : c0 ^ 2 + s0 ^ 2 = 1) (h1 : c1 ^ 2 + s1 ^ 2 = 1) (hw : w = c0 * c1 + s0 * s1)
    (hc2 : c2 = 2 * w * c1 - c0) (hs2 : s2 = 2 * w * s1 - s0) (u : K) :
    X r c0 c1 c2 u ^ 2 + Y r s0 s1 s2 u ^ 2 = r ^ 2 * W w u ^ 2 := by
  subst hc2 hs2
  simp only [X, Y, W, b0, b1, b2]
  linear_combination (r ^ 2 * (2 * u - 1) ^ 2) * h0
    + (4 * r ^ 2 * u ^ 2 * (u * w - u + 1) ^ 2) * h1
    + (4 * r ^ 2 * u * (2 * u - 1) * (u * w - u + 1)) * hw

/-- Cartesian form: wherever the weight function does not vanish, the evaluated point
`(X/W, Y/W)` has distance `r` from the origin. -/
theorem arc_on_circle {r c0 s0 c1 s1 c2 s2 w : K}
    (h0 : c0 ^ 2 + s0 ^ 2 = 1) (h1 : c1 ^ 2 + s1 ^ 2 = 1) (hw : w = c0 * c1 + s0 * s1)
    (hc2 : c2 = 2 * w * c1 - c0) (hs2 : s2 = 2 * w * s1 - s0) (u : K) (hW : W w u ≠ 0) :
    (X r c0 c1 c2 u / W w u) ^ 2 + (Y r s0 s1 s2 u / W w u) ^ 2 = r ^ 2 := by
  have h := arc_on_cone (r := r) h0 h1 hw hc2 hs2 u
  field_simp
  linear_combination h

end field

section ordered
variable {K : Type} [Field K] [LinearOrder K] [IsStrictOrderedRing K]

/-- The weight function is positive on the whole span as soon as `w = cos dt > -1`
(`circle_segment` uses `dt ≤ π/3`, i.e. `w ≥ 1/2`). -/
theorem weight_pos {w u : K} (hw : -1 < w) (hu0 : 0 ≤ u) (hu1 : u ≤ 1) : 0 < W w u := by
  have key : W w u = (1 - 2 * u) ^ 2 + 2 * (u * (1 - u)) * (1 + w) := by
    simp only [W, b0, b1, b2]; ring
  rw [key]
  have h1w : 0 < 1 + w := by linarith
  rcases eq_or_lt_of_le hu0 with h | h
  · subst h; norm_num
  rcases eq_or_lt_of_le hu1 with h' | h'
  · subst h'; norm_num
  · have : 0 < u * (1 - u) := mul_pos h (by linarith)
    have : 0 < 2 * (u * (1 - u)) * (1 + w) := by positivity
    have : 0 ≤ (1 - 2 * u) ^ 2 := sq_nonneg _
    linarith

/-- Hence every point of the span is on the circle of radius `r`. -/
theorem arc_on_circle_of_pos {r c0 s0 c1 s1 c2 s2 w : K}
    (h0 : c0 ^ 2 + s0 ^ 2 = 1) (h1 : c1 ^ 2 + s1 ^ 2 = 1) (hw : w = c0 * c1 + s0 * s1)
    (hc2 : c2 = 2 * w * c1 - c0) (hs2 : s2 = 2 * w * s1 - s0)
    (hwpos : -1 < w) {u : K} (hu0 : 0 ≤ u) (hu1 : u ≤ 1) :
    (X r c0 c1 c2 u / W w u) ^ 2 + (Y r s0 s1 s2 u / W w u) ^ 2 = r ^ 2 :=
  arc_on_circle h0 h1 hw hc2 hs2 u (weight_pos hwpos hu0 hu1).ne'

end ordered

end Splipy.CircleArc
