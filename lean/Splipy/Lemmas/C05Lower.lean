import Splipy.Lemmas.C05Clamped
import Splipy.Lemmas.C05Volume

/-!
# C05 — `lower_order` undoes `raise_order` on surfaces (two parametric directions)

`lower_order` re-interpolates with the roles of the bases exchanged.  Per direction the pair
"`N_{b'}` at the Greville points of `b`, then `inv(N_b)`" is a linear map with matrix
`E' = (Ni · N_{b'})ᵀ`; composed with the elevation matrix `E` it is the identity (`elev_lower_id`),
so the control net returned after `raise_order` then `lower_order` is the original one.
-/

namespace Splipy

set_option linter.unusedSectionVars false

variable {K : Type} [Field K] [LinearOrder K] [IsStrictOrderedRing K] [FloorRing K]

open Finset C06

/-- The matrix of "contract with `Nold`, then with `Ni`". -/
def compMat (Ni Nold : Mat K) (m : ℕ) : ℕ → ℕ → K := fun j k => ∑ l ∈ range m, Ni.get k l * Nold.get l j

theorem proj_compMat (Ni Nold : Mat K) (m n n' : ℕ) : Proj Ni Nold m n n' (compMat Ni Nold m) := by
  intro f k _
  unfold compMat
  calc ∑ l ∈ range m, Ni.get k l * ∑ j ∈ range n, Nold.get l j * f j
      = ∑ l ∈ range m, ∑ j ∈ range n, f j * (Ni.get k l * Nold.get l j) := by
        apply sum_congr rfl; intro l _; rw [mul_sum]; apply sum_congr rfl; intro j _; ring
    _ = ∑ j ∈ range n, f j * ∑ l ∈ range m, Ni.get k l * Nold.get l j := by
        rw [sum_comm]; apply sum_congr rfl; intro j _; rw [mul_sum]

/-- Elevation followed by the lowering map is the identity on coefficient vectors. -/
theorem elev_lower_id (tol : K) (b b' : Basis K) (E : ℕ → ℕ → K) (pts : Array K) (Ni : Mat K)
    (hg : b.greville = .ok pts)
    (H : Mat.invChecked (Obj.basisMat b tol pts.toList 0 true) = .ok Ni)
    (hE : RowsVia tol b b' b.numFunctions E) (a0 k : ℕ) (ha0 : a0 < b.numFunctions) (hk : k < b.numFunctions) :
    ∑ j ∈ range b'.numFunctions, E a0 j * compMat Ni (Obj.basisMat b' tol pts.toList 0 true) pts.size j k
      = if a0 = k then 1 else 0 := by
  obtain ⟨_, hinv⟩ := Mat.invChecked_spec _ Ni H
  have hrows : (Obj.basisMat b tol pts.toList 0 true).nrows = pts.size := by simp [Mat.nrows, basisMat_size]
  rw [hrows] at hinv
  have hP := greville_size b pts hg
  unfold compMat
  calc ∑ j ∈ range b'.numFunctions, E a0 j * ∑ l ∈ range pts.size,
          Ni.get k l * (Obj.basisMat b' tol pts.toList 0 true).get l j
      = ∑ l ∈ range pts.size, Ni.get k l * ∑ j ∈ range b'.numFunctions,
          (Obj.basisMat b' tol pts.toList 0 true).get l j * E a0 j := by
        rw [sum_congr rfl (fun j _ => mul_sum _ _ _), sum_comm]
        apply sum_congr rfl; intro l _; rw [mul_sum]; apply sum_congr rfl; intro j _; ring
    _ = ∑ l ∈ range pts.size, Ni.get k l * (Obj.basisMat b tol pts.toList 0 true).get l a0 := by
        apply sum_congr rfl
        intro l hl
        congr 1
        have hl' : l < pts.toList.length := by simpa using mem_range.mp hl
        have h := hE (fun j => if j = a0 then 1 else 0) pts.toList[l]
        rw [sum_congr rfl (fun j _ => by rw [basisMat_get b' tol pts.toList l j hl']), basisMat_get b tol pts.toList l a0 hl']
        have e1 : ∀ k', ∑ j ∈ range b.numFunctions, (if j = a0 then (1 : K) else 0) * E j k' = E a0 k' := by
          intro k'; simp [Finset.sum_ite_eq', ha0]
        have e2 : ∑ j ∈ range b.numFunctions, (b.evaluate tol pts.toList[l] 0 true).getD j 0 * (if j = a0 then (1 : K) else 0)
            = (b.evaluate tol pts.toList[l] 0 true).getD a0 0 := by
          simp [Finset.sum_ite_eq', ha0]
        rw [sum_congr rfl (fun k' _ => by rw [e1 k']), e2] at h
        exact h
    _ = if a0 = k then 1 else 0 := by
        have := hinv k (by rw [hP]; exact hk) a0 (by rw [hP]; exact ha0)
        rw [this]
        by_cases hc : a0 = k
        · simp [hc]
        · have : ¬ k = a0 := fun e => hc e.symm
          simp [hc, this]

/-- Pure algebra: applying `E_u ⊗ E_v` and then `E_u' ⊗ E_v'` with `E·E' = I` returns the array. -/
theorem double_inverse (A B A' B' : ℕ) (t : ℕ → ℕ → K) (Eu Ev Eu' Ev' : ℕ → ℕ → K)
    (idU : ∀ a0, a0 < A → ∀ k, k < A → ∑ a ∈ range A', Eu a0 a * Eu' a k = if a0 = k then 1 else 0)
    (idV : ∀ j0, j0 < B → ∀ k, k < B → ∑ j ∈ range B', Ev j0 j * Ev' j k = if j0 = k then 1 else 0)
    (k0 k1 : ℕ) (hk0 : k0 < A) (hk1 : k1 < B) :
    ∑ a ∈ range A', (∑ j ∈ range B',
        (∑ a0 ∈ range A, (∑ j0 ∈ range B, t a0 j0 * Ev j0 j) * Eu a0 a) * Ev' j k1) * Eu' a k0
      = t k0 k1 := by
  have inner : ∀ a, ∑ j ∈ range B', (∑ a0 ∈ range A, (∑ j0 ∈ range B, t a0 j0 * Ev j0 j) * Eu a0 a) * Ev' j k1
      = ∑ a0 ∈ range A, Eu a0 a * t a0 k1 := by
    intro a
    calc _ = ∑ j ∈ range B', ∑ a0 ∈ range A, ∑ j0 ∈ range B, Eu a0 a * (t a0 j0 * (Ev j0 j * Ev' j k1)) := by
          apply sum_congr rfl; intro j _; rw [sum_mul]
          apply sum_congr rfl; intro a0 _; rw [sum_mul, sum_mul]
          apply sum_congr rfl; intro j0 _; ring
      _ = ∑ a0 ∈ range A, Eu a0 a * ∑ j0 ∈ range B, t a0 j0 * ∑ j ∈ range B', Ev j0 j * Ev' j k1 := by
          rw [sum_comm]
          apply sum_congr rfl; intro a0 _
          have hr : Eu a0 a * ∑ j0 ∈ range B, t a0 j0 * ∑ j ∈ range B', Ev j0 j * Ev' j k1
              = ∑ j0 ∈ range B, ∑ j ∈ range B', Eu a0 a * (t a0 j0 * (Ev j0 j * Ev' j k1)) := by
            rw [mul_sum]
            apply sum_congr rfl; intro j0 _
            rw [mul_sum, mul_sum]
          rw [hr, sum_comm]
      _ = _ := by
          apply sum_congr rfl; intro a0 _
          congr 1
          rw [sum_congr rfl (fun j0 hj0 => by rw [idV j0 (mem_range.mp hj0) k1 hk1])]
          simp [Finset.sum_ite_eq', hk1]
  rw [sum_congr rfl (fun a _ => by rw [inner a])]
  calc ∑ a ∈ range A', (∑ a0 ∈ range A, Eu a0 a * t a0 k1) * Eu' a k0
      = ∑ a0 ∈ range A, t a0 k1 * ∑ a ∈ range A', Eu a0 a * Eu' a k0 := by
        rw [sum_congr rfl (fun a _ => sum_mul _ _ _), sum_comm]
        apply sum_congr rfl; intro a0 _
        rw [mul_sum]
        apply sum_congr rfl; intro a _; ring
    _ = t k0 k1 := by
        rw [sum_congr rfl (fun a0 ha0 => by rw [idU a0 (mem_range.mp ha0) k0 hk0])]
        simp [Finset.sum_ite_eq', hk0]

/-- **Surfaces: `lower_order(a_u, a_v)` after `raise_order(a_u, a_v)` returns the original control
    points.**  Both directions `DirOK`; the raised bases lower back to the original ones; the
    Greville collocation matrices of the ORIGINAL bases are invertible in the model (`H_sw` at
    amount 0). -/
theorem lower_after_raise_surface (o : Obj K) (tol : K) (hw : C06.WF o 2) (au av : ℕ) (hnz : au ≠ 0 ∨ av ≠ 0)
    (bu' bv' : Basis K) (Eu Ev : ℕ → ℕ → K) (hu : DirOK tol (o.basis 0) au bu' Eu)
    (hv : DirOK tol (o.basis 1) av bv' Ev)
    (hlu : bu'.lowerOrder tol (au : Int) = .ok (o.basis 0)) (hlv : bv'.lowerOrder tol (av : Int) = .ok (o.basis 1))
    (hsu : ∃ pts Ni, (o.basis 0).greville = .ok pts ∧
      Mat.invChecked (Obj.basisMat (o.basis 0) tol pts.toList 0 true) = .ok Ni)
    (hsv : ∃ pts Ni, (o.basis 1).greville = .ok pts ∧
      Mat.invChecked (Obj.basisMat (o.basis 1) tol pts.toList 0 true) = .ok Ni)
    (o' : Obj K) (ho' : o.raiseOrderImplicit tol [au, av] = .ok o') :
    ∃ o'', o'.lowerOrder tol [(au : Int), (av : Int)] = .ok (.new, o'') ∧ o''.bases = o.bases
      ∧ o''.cps.shape = o.cps.shape ∧ o''.rational = o.rational
      ∧ ∀ a, a < (o.basis 0).numFunctions → ∀ j, j < (o.basis 1).numFunctions → ∀ i, i < o.ncomp →
          o''.cps.get ((a * (o.basis 1).numFunctions + j) * o.ncomp + i)
            = o.cps.get ((a * (o.basis 1).numFunctions + j) * o.ncomp + i) := by
  obtain ⟨o1, h1, hwf, hb0', hb1', _, hnc, hrat, hent⟩ := raiseImplicit_surface o tol hw au av bu' bv' Eu Ev hu hv
  have : o1 = o' := by rw [h1] at ho'; injection ho'
  subst this
  have hb' : o1.bases = #[bu', bv'] := by rw [bases_of_wf2 hwf, hb0', hb1']
  have hs' : o1.cps.shape = [bu'.numFunctions, bv'.numFunctions, o.ncomp] := by
    rw [shape_of_wf2 hwf, hb0', hb1', hnc]
  obtain ⟨pu, Niu, hgu, Hu⟩ := hsu
  obtain ⟨pv, Niv, hgv, Hv⟩ := hsv
  have hPu := greville_size _ pu hgu
  have hPv := greville_size _ pv hgv
  set Eu' := compMat Niu (Obj.basisMat bu' tol pu.toList 0 true) pu.size with hEu'
  set Ev' := compMat Niv (Obj.basisMat bv' tol pv.toList 0 true) pv.size with hEv'
  obtain ⟨T, hT, hTs, hTe⟩ := reinterpolate_pardim2_proj o1 tol bu' bv' (o.basis 0) (o.basis 1) pu pv _ _ _ Niu Niv
    hb' hs' hgu hgv Hu Hv Eu' Ev' (proj_compMat _ _ _ _ _) (proj_compMat _ _ _ _ _)
  have hlow : o1.lowerOrder tol [(au : Int), (av : Int)]
      = .ok (.new, { o1 with bases := [o.basis 0, o.basis 1].toArray, cps := T }) := by
    unfold Obj.lowerOrder
    have hz : ¬ ((au : Int) = 0 ∧ (av : Int) = 0) := by
      rintro ⟨h1, h2⟩; rcases hnz with h | h <;> omega
    simp only [List.length_cons, List.length_nil, Nat.reduceAdd, OfNat.ofNat_ne_one, if_false]
    have hall : ([(au : Int), (av : Int)].all fun l => decide (l = 0)) = false := by
      simp only [List.all_cons, List.all_nil, Bool.and_true, Bool.and_eq_false_imp, decide_eq_true_eq,
        decide_eq_false_iff_not]
      intro h1; exact fun h2 => hz ⟨h1, h2⟩
    rw [hall]
    simp only [Bool.false_eq_true, if_false, hb', Obj.lowerBases, hlu, hlv, hT]
  refine ⟨_, hlow, by rw [bases_of_wf2 hw], ?_, hrat, ?_⟩
  · show T.shape = _
    rw [hTs, hPu, hPv, shape_of_wf2 hw]
  · intro a ha j hj i hi
    show T.get ((a * (o.basis 1).numFunctions + j) * o.ncomp + i) = _
    have hTe' := hTe a (by rw [hPu]; exact ha) j (by rw [hPv]; exact hj) i hi
    rw [hPv] at hTe'
    rw [hTe']
    have key := double_inverse (o.basis 0).numFunctions (o.basis 1).numFunctions bu'.numFunctions bv'.numFunctions
      (fun a0 j0 => o.cps.get ((a0 * (o.basis 1).numFunctions + j0) * o.ncomp + i)) Eu Ev Eu' Ev'
      (fun a0 ha0 k hk => elev_lower_id tol (o.basis 0) bu' Eu pu Niu hgu Hu hu.rows a0 k ha0 hk)
      (fun j0 hj0 k hk => elev_lower_id tol (o.basis 1) bv' Ev pv Niv hgv Hv hv.rows j0 k hj0 hk)
      a j ha hj
    rw [← key]
    apply sum_congr rfl
    intro a' ha'
    congr 1
    apply sum_congr rfl
    intro j' hj'
    congr 1
    exact hent a' (mem_range.mp ha') j' (mem_range.mp hj') i hi

/-! ## Volumes -/

/-- One direction: elevation then lowering of a coefficient vector. -/
theorem single_inverse (n n' : ℕ) (f : ℕ → K) (E E' : ℕ → ℕ → K)
    (hid : ∀ a0, a0 < n → ∀ k, k < n → ∑ a ∈ range n', E a0 a * E' a k = if a0 = k then 1 else 0)
    (k : ℕ) (hk : k < n) :
    ∑ j' ∈ range n', (∑ j ∈ range n, f j * E j j') * E' j' k = f k := by
  calc _ = ∑ j ∈ range n, f j * ∑ j' ∈ range n', E j j' * E' j' k := by
        rw [sum_congr rfl (fun j' _ => sum_mul _ _ _), sum_comm]
        apply sum_congr rfl; intro j _
        rw [mul_sum]
        apply sum_congr rfl; intro j' _; ring
    _ = f k := by
        rw [sum_congr rfl (fun j hj => by rw [hid j (mem_range.mp hj) k hk])]
        simp [Finset.sum_ite_eq', hk]

theorem pull3 (B D' : ℕ) (G : ℕ → ℕ → K) (V W : ℕ → K) (U : K) :
    ∑ x ∈ range D', (∑ a1 ∈ range B, G a1 x * V a1) * U * W x
      = (∑ a1 ∈ range B, (∑ x ∈ range D', G a1 x * W x) * V a1) * U := by
  calc _ = ∑ x ∈ range D', ∑ a1 ∈ range B, G a1 x * W x * V a1 * U := by
        apply sum_congr rfl; intro x _
        rw [sum_mul, sum_mul]
        apply sum_congr rfl; intro a1 _; ring
    _ = ∑ a1 ∈ range B, ∑ x ∈ range D', G a1 x * W x * V a1 * U := sum_comm
    _ = _ := by
        rw [sum_mul]
        apply sum_congr rfl; intro a1 _
        rw [sum_mul, sum_mul]

theorem triple_inverse (A B D A' B' D' : ℕ) (t : ℕ → ℕ → ℕ → K) (Eu Ev Ew Eu' Ev' Ew' : ℕ → ℕ → K)
    (idU : ∀ a0, a0 < A → ∀ k, k < A → ∑ a ∈ range A', Eu a0 a * Eu' a k = if a0 = k then 1 else 0)
    (idV : ∀ j0, j0 < B → ∀ k, k < B → ∑ j ∈ range B', Ev j0 j * Ev' j k = if j0 = k then 1 else 0)
    (idW : ∀ j0, j0 < D → ∀ k, k < D → ∑ j ∈ range D', Ew j0 j * Ew' j k = if j0 = k then 1 else 0)
    (k0 k1 k2 : ℕ) (hk0 : k0 < A) (hk1 : k1 < B) (hk2 : k2 < D) :
    ∑ a0' ∈ range A', (∑ a1' ∈ range B', (∑ j' ∈ range D',
        (∑ a0 ∈ range A, (∑ a1 ∈ range B, (∑ j ∈ range D, t a0 a1 j * Ew j j') * Ev a1 a1') * Eu a0 a0')
          * Ew' j' k2) * Ev' a1' k1) * Eu' a0' k0
      = t k0 k1 k2 := by
  have inner : ∀ a0' a1', ∑ j' ∈ range D',
        (∑ a0 ∈ range A, (∑ a1 ∈ range B, (∑ j ∈ range D, t a0 a1 j * Ew j j') * Ev a1 a1') * Eu a0 a0') * Ew' j' k2
      = ∑ a0 ∈ range A, (∑ a1 ∈ range B, t a0 a1 k2 * Ev a1 a1') * Eu a0 a0' := by
    intro a0' a1'
    calc _ = ∑ a0 ∈ range A, (∑ a1 ∈ range B,
              (∑ j' ∈ range D', (∑ j ∈ range D, t a0 a1 j * Ew j j') * Ew' j' k2) * Ev a1 a1') * Eu a0 a0' := by
          rw [sum_congr rfl (fun j' _ => sum_mul _ _ _), sum_comm]
          apply sum_congr rfl; intro a0 _
          exact pull3 B D' (fun a1 x => ∑ j ∈ range D, t a0 a1 j * Ew j x) (fun a1 => Ev a1 a1')
            (fun x => Ew' x k2) (Eu a0 a0')
      _ = _ := by
          apply sum_congr rfl; intro a0 _
          congr 1
          apply sum_congr rfl; intro a1 _
          congr 1
          exact single_inverse D D' (fun j => t a0 a1 j) Ew Ew' idW k2 hk2
  rw [sum_congr rfl (fun a0' _ => by rw [sum_congr rfl (fun a1' _ => by rw [inner a0' a1'])])]
  exact double_inverse A B A' B' (fun a0 a1 => t a0 a1 k2) Eu Ev Eu' Ev' idU idV k0 k1 hk0 hk1

/-- **Volumes: `lower_order` after `raise_order` returns the original control points.** -/
theorem lower_after_raise_volume (o : Obj K) (tol : K) (hw : C06.WF o 3) (au av aw : ℕ)
    (hnz : au ≠ 0 ∨ av ≠ 0 ∨ aw ≠ 0)
    (bu' bv' bw' : Basis K) (Eu Ev Ew : ℕ → ℕ → K) (hu : DirOK tol (o.basis 0) au bu' Eu)
    (hv : DirOK tol (o.basis 1) av bv' Ev) (hw2 : DirOK tol (o.basis 2) aw bw' Ew)
    (hlu : bu'.lowerOrder tol (au : Int) = .ok (o.basis 0)) (hlv : bv'.lowerOrder tol (av : Int) = .ok (o.basis 1))
    (hlw : bw'.lowerOrder tol (aw : Int) = .ok (o.basis 2))
    (hsu : ∃ pts Ni, (o.basis 0).greville = .ok pts ∧
      Mat.invChecked (Obj.basisMat (o.basis 0) tol pts.toList 0 true) = .ok Ni)
    (hsv : ∃ pts Ni, (o.basis 1).greville = .ok pts ∧
      Mat.invChecked (Obj.basisMat (o.basis 1) tol pts.toList 0 true) = .ok Ni)
    (hsw : ∃ pts Ni, (o.basis 2).greville = .ok pts ∧
      Mat.invChecked (Obj.basisMat (o.basis 2) tol pts.toList 0 true) = .ok Ni)
    (o' : Obj K) (ho' : o.raiseOrderImplicit tol [au, av, aw] = .ok o') :
    ∃ o'', o'.lowerOrder tol [(au : Int), (av : Int), (aw : Int)] = .ok (.new, o'') ∧ o''.bases = o.bases
      ∧ o''.cps.shape = o.cps.shape ∧ o''.rational = o.rational
      ∧ ∀ a0, a0 < (o.basis 0).numFunctions → ∀ a1, a1 < (o.basis 1).numFunctions →
          ∀ j, j < (o.basis 2).numFunctions → ∀ i, i < o.ncomp →
          o''.cps.entry4 (o.basis 1).numFunctions (o.basis 2).numFunctions o.ncomp a0 a1 j i
            = o.cps.entry4 (o.basis 1).numFunctions (o.basis 2).numFunctions o.ncomp a0 a1 j i := by
  obtain ⟨o1, h1, hwf, hb0', hb1', hb2', _, hnc, hrat, hent⟩ :=
    raiseImplicit_volume o tol hw au av aw bu' bv' bw' Eu Ev Ew hu hv hw2
  have : o1 = o' := by rw [h1] at ho'; injection ho'
  subst this
  have hb' : o1.bases = #[bu', bv', bw'] := by rw [bases_of_wf3 hwf, hb0', hb1', hb2']
  have hs' : o1.cps.shape = [bu'.numFunctions, bv'.numFunctions, bw'.numFunctions, o.ncomp] := by
    rw [shape_of_wf3 hwf, hb0', hb1', hb2', hnc]
  obtain ⟨pu, Niu, hgu, Hu⟩ := hsu
  obtain ⟨pv, Niv, hgv, Hv⟩ := hsv
  obtain ⟨pw, Niw, hgw, Hw⟩ := hsw
  have hPu := greville_size _ pu hgu
  have hPv := greville_size _ pv hgv
  have hPw := greville_size _ pw hgw
  set Eu' := compMat Niu (Obj.basisMat bu' tol pu.toList 0 true) pu.size with hEu'
  set Ev' := compMat Niv (Obj.basisMat bv' tol pv.toList 0 true) pv.size with hEv'
  set Ew' := compMat Niw (Obj.basisMat bw' tol pw.toList 0 true) pw.size with hEw'
  obtain ⟨T, hT, hTs, hTe⟩ := reinterpolate_pardim3_proj o1 tol bu' bv' bw' (o.basis 0) (o.basis 1) (o.basis 2)
    pu pv pw _ _ _ _ Niu Niv Niw hb' hs' hgu hgv hgw Hu Hv Hw Eu' Ev' Ew'
    (proj_compMat _ _ _ _ _) (proj_compMat _ _ _ _ _) (proj_compMat _ _ _ _ _)
  have hlow : o1.lowerOrder tol [(au : Int), (av : Int), (aw : Int)]
      = .ok (.new, { o1 with bases := [o.basis 0, o.basis 1, o.basis 2].toArray, cps := T }) := by
    unfold Obj.lowerOrder
    simp only [List.length_cons, List.length_nil, Nat.reduceAdd, OfNat.ofNat_ne_one, if_false]
    have hall : ([(au : Int), (av : Int), (aw : Int)].all fun l => decide (l = 0)) = false := by
      rw [List.all_eq_false]
      rcases hnz with h | h | h
      · exact ⟨(au : Int), by simp, by simp; omega⟩
      · exact ⟨(av : Int), by simp, by simp; omega⟩
      · exact ⟨(aw : Int), by simp, by simp; omega⟩
    rw [hall]
    simp only [Bool.false_eq_true, if_false, hb', Obj.lowerBases, hlu, hlv, hlw, hT]
  refine ⟨_, hlow, by rw [bases_of_wf3 hw], ?_, hrat, ?_⟩
  · show T.shape = _
    rw [hTs, hPu, hPv, hPw, shape_of_wf3 hw]
  · intro a0 ha0 a1 ha1 j hj i hi
    show T.entry4 _ _ _ a0 a1 j i = _
    have hTe' := hTe a0 (by rw [hPu]; exact ha0) a1 (by rw [hPv]; exact ha1) j (by rw [hPw]; exact hj) i hi
    rw [hPv, hPw] at hTe'
    rw [hTe']
    have key := triple_inverse (o.basis 0).numFunctions (o.basis 1).numFunctions (o.basis 2).numFunctions
      bu'.numFunctions bv'.numFunctions bw'.numFunctions
      (fun b0 b1 b2 => o.cps.entry4 (o.basis 1).numFunctions (o.basis 2).numFunctions o.ncomp b0 b1 b2 i)
      Eu Ev Ew Eu' Ev' Ew'
      (fun a0 ha0 k hk => elev_lower_id tol (o.basis 0) bu' Eu pu Niu hgu Hu hu.rows a0 k ha0 hk)
      (fun j0 hj0 k hk => elev_lower_id tol (o.basis 1) bv' Ev pv Niv hgv Hv hv.rows j0 k hj0 hk)
      (fun j0 hj0 k hk => elev_lower_id tol (o.basis 2) bw' Ew pw Niw hgw Hw hw2.rows j0 k hj0 hk)
      a0 a1 j ha0 ha1 hj
    rw [← key]
    apply sum_congr rfl
    intro b0 hb0
    congr 1
    apply sum_congr rfl
    intro b1 hb1
    congr 1
    apply sum_congr rfl
    intro b2 hb2
    congr 1
    exact hent b0 (mem_range.mp hb0) b1 (mem_range.mp hb1) b2 (mem_range.mp hb2) i hi

end Splipy
