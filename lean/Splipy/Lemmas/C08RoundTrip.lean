import Splipy.Lemmas.C08Open
import Splipy.Lemmas.C08Knots
import Splipy.Lemmas.C07SplitPer
import Splipy.Lemmas.TensorEval

/-!
# Opening a periodic object at its seam, explicitly; the round trip for continuity `k ≤ 1`
-/

namespace Splipy

set_option linter.unusedSectionVars false
set_option linter.unusedVariables false

open C04

variable {K : Type} [Field K] [LinearOrder K] [IsStrictOrderedRing K] [FloorRing K]

/-- `Obj.insertKnots` in terms of the fold `insertMany` it performs. -/
theorem insertKnots_of_insertMany (o : Obj K) (dir : ℕ) (hdir : dir < o.bases.size)
    (hax : dir < o.cps.shape.length) (xs : List K) (b' : Basis K) (C : Mat K) (m : ℕ)
    (hshape : o.cps.shape.getD dir 0 = (o.basis dir).numFunctions)
    (hm : insertMany (o.basis dir) (Mat.identity (o.basis dir).numFunctions) xs = .ok (b', C))
    (hS : Shape ((o.basis dir).numFunctions + m) (o.basis dir).numFunctions C) :
    let o' : Obj K := { o with bases := o.bases.set! dir b', cps := Tensor.applyAxis C o.cps dir }
    o.insertKnots xs dir = .ok o' ∧ o'.basis dir = b' ∧
      (∀ d, d ≠ dir → o'.basis d = o.basis d) ∧
      o'.cps.shape = o.cps.shape.set dir ((o.basis dir).numFunctions + m) ∧
      outerN o' dir = outerN o dir ∧ innerN o' dir = innerN o dir ∧
      (∀ a i r, a < outerN o dir → i < innerN o dir → r < (o.basis dir).numFunctions + m →
        fibre o' dir a i r = mulVec C (o.basis dir).numFunctions (fibre o dir a i) r) := by
  intro o'
  have hCsize : C.size = (o.basis dir).numFunctions + m := hS.1
  have hmid : (Tensor.split3 o.cps.shape dir).2.1 = (o.basis dir).numFunctions := by
    rw [← hshape]
    simp only [Tensor.split3, List.getD_eq_getElem?_getD, List.getElem?_eq_getElem hax]
    rfl
  refine ⟨?_, basis_set o dir hdir _ _, fun d hd => basis_set_ne o dir d hd _ _, ?_, ?_, ?_, ?_⟩
  · rw [insertKnots_eq, hshape, hm]; rfl
  · change (Tensor.applyAxis C o.cps dir).shape = _
    rw [applyAxis_shape, hCsize]
  · change (Tensor.split3 (Tensor.applyAxis C o.cps dir).shape dir).1 = _
    rw [applyAxis_shape]
    simp only [Tensor.split3]
    rw [List.take_set_of_le (le_refl _)]
    rfl
  · change (Tensor.split3 (Tensor.applyAxis C o.cps dir).shape dir).2.2 = _
    rw [applyAxis_shape]
    simp only [Tensor.split3]
    rw [List.drop_set_of_lt (by omega)]
    rfl
  · intro a i r ha hi hr'
    change (Tensor.applyAxis C o.cps dir).at3 dir a r i = _
    rw [applyAxis_fibre C o.cps dir hax a r i ha (by omega) hi, hmid]
    rfl

theorem set!_set! {α : Type} (a : Array α) (i : ℕ) (x y : α) : (a.set! i x).set! i y = a.set! i y := by
  apply Array.ext
  · simp [Array.set!]
  · intro j h1 h2
    simp [Array.set!, Array.getElem_setIfInBounds]

/-- **Opening a periodic object at its seam**: `split(start, dir)` (guard `n ≥ p + k`, seam separated
from its neighbour knots by more than the tolerance).  The result is a single object whose basis along
`dir` is `openAtSeam` of the periodic basis, and whose control-net rows `k … n` along `dir` are the
periodic rows `r mod n`. -/
theorem open_at_seam (o : Obj K) (dir : ℕ) (hdir : dir < o.bases.size)
    (hax : dir < o.cps.shape.length) (hv : (o.basis dir).Valid) (k : ℕ)
    (hk : (o.basis dir).periodic = (k : Int))
    (hguard : (o.basis dir).order + k ≤ (o.basis dir).numFunctions)
    (hshape : o.cps.shape.getD dir 0 = (o.basis dir).numFunctions) {tol : K} (htol : 0 < tol)
    (htolL : (o.basis dir).kn k < (o.basis dir).start - tol)
    (htolR : (o.basis dir).start + tol ≤ (o.basis dir).kn (o.basis dir).order) :
    ∃ op, o.split tol [(o.basis dir).start] dir = .ok (.single op) ∧
      op.basis dir = (o.basis dir).openAtSeam ∧
      (∀ d, d ≠ dir → op.basis d = o.basis d) ∧ op.rational = o.rational ∧
      op.cps.shape = o.cps.shape.set dir ((o.basis dir).numFunctions + (k + 1)) ∧
      outerN op dir = outerN o dir ∧ innerN op dir = innerN o dir ∧
      op.bases = o.bases.set! dir (o.basis dir).openAtSeam ∧
      (∀ a i, a < outerN o dir → i < innerN o dir → ∀ r, k ≤ r → r ≤ (o.basis dir).numFunctions →
        fibre op dir a i r = fibre o dir a i (r % (o.basis dir).numFunctions)) := by
  set b0 := o.basis dir with hb0
  set n := b0.numFunctions with hn
  set p := b0.order with hpdef
  set x := b0.start with hx
  have hseam : x < b0.kn p := by linarith
  have hghost : b0.kn k < x := by linarith
  have hp := hv.order_pos
  have hper : 0 ≤ b0.periodic := by rw [hk]; omega
  have hktn : b0.periodic.toNat = k := by rw [hk]; omega
  have hpk := Basis.per_k_le hv hper
  rw [hktn] at hpk
  have hsize0 := Basis.per_size hv hper
  rw [hktn] at hsize0
  have hn0 := hv.numFunctions_pos
  obtain ⟨b', C, hmany, hS⟩ := seamState_many hv k hk hguard hseam hghost (k + 1) (le_refl _)
  have hR := hS.ref
  obtain ⟨hins, hsob, hsoother, hsoshape, hsoout, hsoinn, hsofib⟩ :=
    insertKnots_of_insertMany o dir hdir hax _ b' C (k + 1) hshape hmany hR.shape
  set so : Obj K := { o with bases := o.bases.set! dir b', cps := Tensor.applyAxis C o.cps dir }
    with hso
  -- the insertion loop
  have hsplitIns : o.splitInsert tol [x] dir = .ok so := by
    unfold Obj.splitInsert
    simp only [List.foldlM_cons, List.foldlM_nil, bind_pure]
    rw [← hb0, continuity_start hv k hk htol htolL htolR]
    show o.insertKnots (List.replicate (((k : Int) + 1).toNat) x) dir = _
    rw [show ((k : Int) + 1).toNat = k + 1 by omega]
    exact hins
  have hv' : b'.Valid := hR.valid
  have hper' : 0 ≤ b'.periodic := by rw [hR.periodic_eq]; exact hper
  have hktn' : b'.periodic.toNat = k := by rw [hR.periodic_eq]; exact hktn
  have hn' : b'.numFunctions = n + (k + 1) := hR.num_eq
  have hord' : b'.order = p := hR.order_eq
  have hsize' : b'.knots.size = n + p + k + 1 + (k + 1) := by rw [hR.size_eq, hsize0]
  have hkn' : ∀ i, i ≤ n + (k + 1) → b'.kn i = seamKn b0.kn p k (k + 1) x i := hS.kn_eq
  have hknlow : ∀ i, i ≤ k → b'.kn i = b0.kn i := by
    intro i hi; rw [hkn' i (by omega)]; unfold seamKn; rw [if_pos hi]
  have hknx : ∀ i, k + 1 ≤ i → i ≤ p + k → b'.kn i = x := by
    intro i h1 h2; rw [hkn' i (by omega)]; unfold seamKn
    rw [if_neg (by omega), if_pos (by omega)]
  have hknhi : ∀ i, p + k < i → i ≤ n + (k + 1) → b'.kn i = b0.kn (i - (k + 1)) := by
    intro i h1 h2; rw [hkn' i h2]; unfold seamKn
    rw [if_neg (by omega), if_neg (by omega)]
  have hmu : b'.bisectL x = k + 1 :=
    bisectL_of_between hv' x (k + 1) (by omega)
      (fun i hi => by rw [hknlow i (by omega)]; exact lt_of_le_of_lt (hv.kn_mono (by omega)) hghost)
      (by rw [hknx _ (le_refl _) (by omega)])
  obtain ⟨b1, hroll, _⟩ := Basis.roll_spec hv' hper' (k + 1) (by omega)
  have hsplit := split_single_unfold o so tol x dir b1 hsplitIns
    (by rw [hsob, hR.periodic_eq, hk]; omega) (by rw [hsob, hmu, hktn', hord']; omega)
    (by rw [hsob, hmu]; exact hroll)
  rw [hsob, hmu] at hsplit
  obtain ⟨e1, e2, e3, e4⟩ := Basis.opened_spec hv' hper' (k + 1) (by omega) b1 hroll
  rw [hktn'] at e3 e4
  set op := so.openedAt dir (k + 1) b1 with hop
  have hdir' : dir < so.bases.size := by rw [hso]; simp only [size_set!]; exact hdir
  set b2 : Basis K := { b1 with knots := b1.knots.extract 0 (b1.knots.size - k - 1), periodic := -1 }
    with hb2
  have hopb : op.basis dir = b2 := by
    rw [hop]; unfold Obj.openedAt
    rw [basis_set so dir hdir', hsob, hktn']
  have hext : ∀ i, i < b'.knots.size → b'.ext i = b'.kn i := Basis.ext_eq hv' hper'
  have hT' : b'.stop - b'.start = b0.stop - x := by rw [hR.start_eq, hR.stop_eq]
  -- the opened basis is `openAtSeam`
  have hb2eq : b2 = b0.openAtSeam := by
    have hsz2 : b2.knots.size = n + (k + 1) + p := by rw [e3, hn', hord']
    have hkn2 : ∀ j, j < n + (k + 1) + p → b2.kn j = b'.ext (k + 1 + j) := by
      intro j hj; exact e4 j (by rw [hn', hord']; exact hj)
    have hknots : b2.knots = b0.openAtSeam.knots := by
      apply Array.ext_getElem?
      intro j
      rw [Basis.openAtSeam_getElem? hv hper (by omega) j, hktn]
      by_cases hj : j < n + (k + 1) + p
      · have hg : b2.knots[j]? = some (b2.kn j) := by
          rw [Basis.kn_of_lt b2 (by rw [hsz2]; exact hj)]; simp [hsz2, hj]
        rw [hg, hkn2 j hj]
        by_cases h1 : j < p
        · rw [if_pos h1, hext _ (by omega), hknx _ (by omega) (by omega)]
        · rw [if_neg h1]
          by_cases h2 : j < n + k + 1
          · rw [if_pos h2]
            by_cases h3 : j ≤ n
            · rw [hext _ (by omega), hknhi _ (by omega) (by omega)]
              congr 2; omega
            · have e : k + 1 + j = (j - n) + b'.numFunctions := by rw [hn']; omega
              rw [e, Basis.ext_add hv' hper', hext _ (by omega), hknlow _ (by omega), hT']
              have := hv.ghosts hper (j - n) (by omega)
              rw [show j - n + n = j by omega] at this
              rw [this]
          · rw [if_neg h2, if_pos (by omega)]
            have e : k + 1 + j = (j - n) + b'.numFunctions := by rw [hn']; omega
            rw [e, Basis.ext_add hv' hper', hext _ (by omega), hknx _ (by omega) (by omega), hT']
            congr 1; ring
      · have : b2.knots[j]? = none := by
          rw [Array.getElem?_eq_none_iff, hsz2]; omega
        rw [this, if_neg (by omega), if_neg (by omega), if_neg (by omega)]
    have horder : b2.order = b0.openAtSeam.order := e1.trans hord'
    have hperiodic : b2.periodic = b0.openAtSeam.periodic := e2
    cases hb2c : b2 with
    | mk o2 k2 p2 =>
      cases hbc : b0.openAtSeam with
      | mk o3 k3 p3 =>
        rw [hb2c, hbc] at hknots horder hperiodic
        simp only at hknots horder hperiodic
        rw [hknots, horder, hperiodic]
  have haxs : dir < so.cps.shape.length := by rw [hsoshape, List.length_set]; exact hax
  have hrows : so.cps.shape.getD dir 1 = n + (k + 1) := by
    rw [hsoshape]; exact Tensor.getD_set_self _ _ _ hax
  refine ⟨op, hsplit, by rw [hopb, hb2eq], ?_, rfl, ?_, ?_, ?_, ?_, ?_⟩
  · intro d hd
    rw [hop]; unfold Obj.openedAt
    rw [basis_set_ne so dir d hd, hsoother d hd]
  · show (so.cps.rollAxisNeg dir (k + 1)).shape = _
    rw [Tensor.rollAxisNeg_shape _ _ _ haxs, hsoshape]
  · show (Tensor.split3 (so.cps.rollAxisNeg dir (k + 1)).shape dir).1 = _
    rw [Tensor.rollAxisNeg_shape _ _ _ haxs]; exact hsoout
  · show (Tensor.split3 (so.cps.rollAxisNeg dir (k + 1)).shape dir).2.2 = _
    rw [Tensor.rollAxisNeg_shape _ _ _ haxs]; exact hsoinn
  · show (so.bases.set! dir _) = _
    rw [hsob, hktn', ← hb2, hb2eq, hso]
    simp only [set!_set!]
  · intro a i ha hi r hr1 hr2
    show (so.cps.rollAxisNeg dir (k + 1)).at3 dir a r i = _
    rw [Tensor.rollAxisNeg_at3 so.cps dir (k + 1) a r i haxs (by have := hrows; omega)
      (by have := hsoinn; unfold innerN at this; rw [this]; exact hi)
      (by have := hsoout; unfold outerN at this; rw [this]; exact ha), hrows]
    show fibre so dir a i ((r + (k + 1)) % (n + (k + 1))) = _
    rcases Nat.lt_or_ge r n with h | h
    · rw [Nat.mod_eq_of_lt (show r + (k + 1) < n + (k + 1) by omega),
        hsofib a i (r + (k + 1)) ha hi
          (by have e : (o.basis dir).numFunctions = n := (by rw [hn]); omega),
        hS.rows (fibre o dir a i) (r + (k + 1)) (by omega) (by omega), Nat.mod_eq_of_lt h]
      congr 1; omega
    · have hrn : r = n := by omega
      rw [hrn, Nat.mod_self, Nat.mod_self, hsofib a i 0 ha hi (by omega), hS.row0]

theorem set!_getD_self (a : Array (Basis K)) (i : ℕ) : a.set! i (a.getD i default) = a := by
  apply Array.ext
  · simp [Array.set!]
  · intro j h1 h2
    simp only [Array.set!]
    rw [Array.getElem_setIfInBounds]
    split_ifs with h
    · subst h; simp [Array.getD, h2]
    · rfl

/-- Two tensors with the same shape, data of the right length and equal entries along an axis are
equal. -/
theorem Tensor.ext_at3 (t t' : Tensor K) (ax : ℕ) (h : ax < t.shape.length)
    (hs : t'.shape = t.shape) (hd : t.data.size = Tensor.prod t.shape)
    (hd' : t'.data.size = Tensor.prod t'.shape)
    (hat : ∀ a r i, a < (Tensor.split3 t.shape ax).1 → r < (Tensor.split3 t.shape ax).2.1 →
      i < (Tensor.split3 t.shape ax).2.2 → t'.at3 ax a r i = t.at3 ax a r i) : t' = t := by
  obtain ⟨sh, da⟩ := t
  obtain ⟨sh', da'⟩ := t'
  simp only at hs hd hd' h
  subst hs
  have hps := Tensor.prod_split sh' ax h
  simp only [Tensor.split3] at hat
  set A := Tensor.prod (sh'.take ax) with hA
  set n := sh'.getD ax 1 with hn
  set I := Tensor.prod (sh'.drop (ax + 1)) with hI
  have hda : da' = da := by
    apply Array.ext (by rw [hd, hd'])
    intro idx h1 h2
    rw [hd', ← hps] at h1
    have hIpos : 0 < I := by
      rcases Nat.eq_zero_or_pos I with h0 | h0
      · rw [h0, Nat.mul_zero] at h1; omega
      · exact h0
    have hnpos : 0 < n := by
      rcases Nat.eq_zero_or_pos n with h0 | h0
      · rw [h0, Nat.mul_zero, Nat.zero_mul] at h1; omega
      · exact h0
    have e1 : idx = ((idx / I / n) * n + (idx / I) % n) * I + idx % I := by
      rw [Nat.div_add_mod' (idx / I) n, Nat.div_add_mod' idx I]
    have hq : idx / I < A * n := by
      rw [Nat.div_lt_iff_lt_mul hIpos]; exact h1
    have ha : idx / I / n < A := by
      rw [Nat.div_lt_iff_lt_mul hnpos]; exact hq
    have := hat (idx / I / n) ((idx / I) % n) (idx % I) ha (Nat.mod_lt _ hnpos) (Nat.mod_lt _ hIpos)
    unfold Tensor.at3 Tensor.get at this
    simp only [Tensor.split3, ← hn, ← hI, ← e1] at this
    simp only [Array.getD, h1, h2, dif_pos] at this
    have h1' : idx < da'.size := by rw [hd', ← hps]; exact h1
    simp only [h1', h2, dif_pos] at this
    exact this
  rw [hda]

/-- **Round trip for continuity `k ≤ 1`** (model level): `make_periodic(split(o, start), k)`. -/
theorem roundTrip_k_le_1 (o : Obj K) (dir : ℕ) (hdir : dir < o.bases.size)
    (hax : dir < o.cps.shape.length) (hv : (o.basis dir).Valid) (k : ℕ) (hk1 : k ≤ 1)
    (hk : (o.basis dir).periodic = (k : Int))
    (hguard : (o.basis dir).order + k ≤ (o.basis dir).numFunctions)
    (hshape : o.cps.shape.getD dir 0 = (o.basis dir).numFunctions) {tol : K} (htol : 0 < tol)
    (htolL : (o.basis dir).kn k < (o.basis dir).start - tol)
    (htolR : (o.basis dir).start + tol ≤ (o.basis dir).kn (o.basis dir).order) :
    ∃ o', o.roundTrip tol k dir = .ok o' ∧ o'.bases = o.bases ∧ o'.rational = o.rational ∧
      o'.cps.shape = o.cps.shape ∧ o'.cps.data.size = Tensor.prod o'.cps.shape ∧
      ∀ a r i, a < outerN o dir → r < (o.basis dir).numFunctions → i < innerN o dir →
        o'.cps.at3 dir a r i = o.cps.at3 dir a r i := by
  obtain ⟨op, hsplit, hopb, hopother, hoprat, hopshape, hopout, hopinn, hopbases, hopfib⟩ :=
    open_at_seam o dir hdir hax hv k hk hguard hshape htol htolL htolR
  set b0 := o.basis dir with hb0
  have hper : 0 ≤ b0.periodic := by rw [hk]; omega
  have hktn : b0.periodic.toNat = k := by rw [hk]; omega
  have hpk := Basis.per_k_le hv hper
  rw [hktn] at hpk
  have hn0 := hv.numFunctions_pos
  have hmp := Basis.makePeriodic_openAtSeam hv hper (by omega) tol (le_of_lt htol)
  rw [hktn] at hmp
  have hopax : dir < op.cps.shape.length := by rw [hopshape, List.length_set]; exact hax
  have hrows0 : op.cps.shape.getD dir 0 = b0.numFunctions + (k + 1) := by
    rw [hopshape]; exact list_getD_set_self0 _ _ _ hax
  set o' : Obj K := { op with bases := op.bases.set! dir b0, cps := Obj.mergeCps op.cps dir k }
    with ho'
  have hmk : op.makePeriodic tol (some (k : Int)) dir = .ok o' := by
    unfold Obj.makePeriodic
    simp only [hopb]
    have c1 : ¬ ¬ ((-1 : Int) ≤ (k : Int) ∧ (k : Int) ≤ ((b0.openAtSeam.order : ℕ) : Int) - 2) := by
      rw [not_not]
      show (-1 : Int) ≤ (k : Int) ∧ (k : Int) ≤ ((b0.order : ℕ) : Int) - 2
      omega
    have c2 : ¬ ((k : Int) = -1) := by omega
    have c3 : ¬ (b0.openAtSeam.periodic ≥ 0) := by
      show ¬ ((-1 : Int) ≥ 0)
      decide
    simp only [c1, c2, c3, if_false, Int.toNat_natCast, hmp, bind, Except.bind, pure, Except.pure]
    rw [if_neg (by rw [hrows0]; omega)]
  refine ⟨o', ?_, ?_, hoprat, ?_, ?_, ?_⟩
  · unfold Obj.roundTrip
    rw [← hb0, hsplit]
    exact hmk
  · show op.bases.set! dir b0 = o.bases
    rw [hopbases, set!_set!, hb0]
    exact set!_getD_self o.bases dir
  · show (Obj.mergeCps op.cps dir k).shape = _
    unfold Obj.mergeCps
    simp only []
    rw [Tensor.build3_shape, hopshape, List.set_set, list_getD_set_self0 _ _ _ hax,
      show b0.numFunctions + (k + 1) - (k + 1) = b0.numFunctions by omega]
    exact list_set_getD_self _ _ _ hax hshape
  · show (Obj.mergeCps op.cps dir k).data.size = Tensor.prod (Obj.mergeCps op.cps dir k).shape
    unfold Obj.mergeCps
    simp only []
    exact Tensor.build3_data_size_eq_prod _ _ _ _ hopax
  · intro a r i ha hr hi
    show (Obj.mergeCps op.cps dir k).at3 dir a r i = _
    exact Obj.mergeCps_k_le_1 op.cps dir b0.numFunctions k hk1 hn0 hopax
      (by rw [hrows0]; omega) (fun a r i => o.cps.at3 dir a r i) a r i
      (fun r' h1 h2 => hopfib a i ha hi r' h1 h2)
      hr (by have := hopinn; unfold innerN at this; rw [this]; exact hi)
      (by have := hopout; unfold outerN at this; rw [this]; exact ha)

end Splipy
