import Mathlib.Algebra.Order.BigOperators.Ring.Finset
import Splipy.Lemmas.C13Spline
import Splipy.Lemmas.C13Place
import Mathlib.Data.List.GetD

/-!
# C13: evaluated points (all parameters)

* positivity of a spline with positive coefficients on a knot span (`splineVal_pos`);
* which knot span a domain parameter of the circle / arc bases falls into;
* `ev1`: the evaluated homogeneous component `Σ_j β_j · P_j[c]` of a net for arbitrary weights
  `β` (for a curve `β_j` = the value of basis function `j`, for surfaces/volumes the products of
  the directional values over the flat C-order index) and its transfer through the point-wise
  linear maps the factories apply (placement, scaling, revolve rows, extrude rows).
-/

set_option linter.unusedTactic false
set_option linter.unreachableTactic false
set_option linter.unnecessarySeqFocus false

namespace Splipy.Fac

open Finset

variable {K : Type} [Field K] [LinearOrder K] [IsStrictOrderedRing K]

/-- a spline with positive coefficients is positive on every knot span. -/
theorem splineVal_pos (s : Side) (τ : ℕ → K) (hτ : Monotone τ) (q μ n : ℕ) (c : ℕ → K) (t : K)
    (hq : q ≤ μ) (hn : μ < n) (h : s.mem (τ μ) (τ (μ+1)) t) (hc : ∀ i, i < n → 0 < c i) :
    0 < splineVal s τ q n c t := by
  unfold splineVal
  have := sum_pos' (s := range n) (f := fun i => c i * B s τ q i t)
    (fun i hi => mul_nonneg (le_of_lt (hc i (mem_range.mp hi))) (B_nonneg s τ hτ q i t))
  apply this
  have hs := B_sum_range_eq_one s τ hτ q μ n hq hn t h
  by_contra hcon
  push Not at hcon
  have hz : ∀ i ∈ range n, B s τ q i t = 0 := by
    intro i hi
    have h1 := hcon i hi
    have h2 : 0 ≤ c i * B s τ q i t :=
      mul_nonneg (le_of_lt (hc i (mem_range.mp hi))) (B_nonneg s τ hτ q i t)
    have h3 : c i * B s τ q i t = 0 := le_antisymm h1 h2
    rcases mul_eq_zero.mp h3 with h4 | h4
    · exact absurd h4 (ne_of_gt (hc i (mem_range.mp hi)))
    · exact h4
  rw [sum_eq_zero hz] at hs
  exact zero_ne_one hs

/-! ## spans of the factory bases -/

/-- a parameter of `[0, θ)` / `(0, θ]` lies in one of the `n` spans of `circle_segment`. -/
theorem arc_span_of_mem (s : Side) (theta : K) (n : ℕ) (hn : 0 < n) (hθ : 0 < theta) (t : K)
    (h : s.mem 0 theta t) :
    ∃ j, j < n ∧ s.mem ((j : K) / n * theta) (((j + 1 : ℕ) : K) / n * theta) t := by
  have hτ := arcKnotFn_mono theta n hn hθ
  have hn' : (0 : K) < n := by exact_mod_cast hn
  have e0 : arcKnotFn theta n 2 = 0 := by simp [arcKnotFn]
  have e1 : arcKnotFn theta n (2 * n + 2) = theta := by
    have : min n ((2 * n + 2 - 1) / 2) = n := by omega
    unfold arcKnotFn; rw [this]; field_simp
  obtain ⟨μ, h1, h2, h3⟩ := exists_span s (arcKnotFn theta n) hτ 2 (2 * n + 2) t (by rw [e0, e1]; exact h)
  have hlt : arcKnotFn theta n μ < arcKnotFn theta n (μ + 1) := by
    cases s
    · exact lt_of_le_of_lt h3.1 h3.2
    · exact lt_of_lt_of_le h3.1 h3.2
  -- a non-empty span starts at an even index
  have heven : μ % 2 = 0 := by
    by_contra hodd
    have : min n ((μ - 1) / 2) = min n ((μ + 1 - 1) / 2) := by
      have : (μ - 1) / 2 = (μ + 1 - 1) / 2 := by omega
      rw [this]
    unfold arcKnotFn at hlt
    rw [this] at hlt
    exact lt_irrefl _ hlt
  obtain ⟨j, rfl⟩ : ∃ j, μ = 2 * j + 2 := ⟨(μ - 2) / 2, by omega⟩
  refine ⟨j, by omega, ?_⟩
  have a1 : arcKnotFn theta n (2 * j + 2) = (j : K) / n * theta := by
    have : min n ((2 * j + 2 - 1) / 2) = j := by omega
    unfold arcKnotFn; rw [this]
  have a2 : arcKnotFn theta n (2 * j + 2 + 1) = ((j + 1 : ℕ) : K) / n * theta := by
    have : min n ((2 * j + 2 + 1 - 1) / 2) = j + 1 := by omega
    unfold arcKnotFn; rw [this]
  rw [a1, a2] at h3
  exact h3

/-- a parameter of `[0, 2π)` / `(0, 2π]` lies in one of the four spans of the `p2C0` circle. -/
theorem p2_span_of_mem (s : Side) (pi : K) (hpi : 0 < pi) (t : K) (h : s.mem 0 (2 * pi) t) :
    ∃ j : ℕ, j < 4 ∧ s.mem ((j : K) * (pi / 2)) ((j : K) * (pi / 2) + pi / 2) t := by
  have hh : (0 : K) < pi / 2 := by positivity
  have hτ := p2Knot_mono (pi / 2) hh
  have e0 : p2Knot (pi / 2) 2 = 0 := by simp [p2Knot]
  have e1 : p2Knot (pi / 2) 10 = 2 * pi := by simp [p2Knot]; ring
  obtain ⟨μ, h1, h2, h3⟩ := exists_span s (p2Knot (pi / 2)) hτ 2 10 t (by rw [e0, e1]; exact h)
  have hlt : p2Knot (pi / 2) μ < p2Knot (pi / 2) (μ + 1) := by
    cases s
    · exact lt_of_le_of_lt h3.1 h3.2
    · exact lt_of_lt_of_le h3.1 h3.2
  have hcases : μ = 2 ∨ μ = 4 ∨ μ = 6 ∨ μ = 8 := by
    by_contra hcon
    have : (μ + 1) / 2 = (μ + 1 + 1) / 2 := by omega
    unfold p2Knot at hlt
    rw [this] at hlt
    exact lt_irrefl _ hlt
  rcases hcases with rfl | rfl | rfl | rfl
  · refine ⟨0, by norm_num, ?_⟩
    have a : p2Knot (pi / 2) 2 = (0 : K) * (pi / 2) := by simp [p2Knot] <;> ring
    have b : p2Knot (pi / 2) (2 + 1) = (0 : K) * (pi / 2) + pi / 2 := by simp [p2Knot] <;> ring
    rw [a, b] at h3
    simpa using h3
  · refine ⟨1, by norm_num, ?_⟩
    have a : p2Knot (pi / 2) 4 = (1 : K) * (pi / 2) := by simp [p2Knot] <;> ring
    have b : p2Knot (pi / 2) (4 + 1) = (1 : K) * (pi / 2) + pi / 2 := by simp [p2Knot] <;> ring
    rw [a, b] at h3
    simpa using h3
  · refine ⟨2, by norm_num, ?_⟩
    have a : p2Knot (pi / 2) 6 = (2 : K) * (pi / 2) := by simp [p2Knot] <;> ring
    have b : p2Knot (pi / 2) (6 + 1) = (2 : K) * (pi / 2) + pi / 2 := by simp [p2Knot] <;> ring
    rw [a, b] at h3
    simpa using h3
  · refine ⟨3, by norm_num, ?_⟩
    have a : p2Knot (pi / 2) 8 = (3 : K) * (pi / 2) := by simp [p2Knot] <;> ring
    have b : p2Knot (pi / 2) (8 + 1) = (3 : K) * (pi / 2) + pi / 2 := by simp [p2Knot] <;> ring
    rw [a, b] at h3
    simpa using h3

/-- the same for the `p4C1` circle. -/
theorem p4_span_of_mem (s : Side) (pi : K) (hpi : 0 < pi) (t : K) (h : s.mem 0 (2 * pi) t) :
    ∃ j : ℕ, j < 4 ∧ s.mem ((j : K) * (pi / 2)) ((j : K) * (pi / 2) + pi / 2) t := by
  have hh : (0 : K) < pi / 2 := by positivity
  have hτ := p4Knot_mono (pi / 2) hh
  have e0 : p4Knot (pi / 2) 4 = 0 := by simp [p4Knot]
  have e1 : p4Knot (pi / 2) 14 = 2 * pi := by simp [p4Knot]; ring
  obtain ⟨μ, h1, h2, h3⟩ := exists_span s (p4Knot (pi / 2)) hτ 4 14 t (by rw [e0, e1]; exact h)
  have hlt : p4Knot (pi / 2) μ < p4Knot (pi / 2) (μ + 1) := by
    cases s
    · exact lt_of_le_of_lt h3.1 h3.2
    · exact lt_of_lt_of_le h3.1 h3.2
  have hcases : μ = 4 ∨ μ = 7 ∨ μ = 10 ∨ μ = 13 := by
    by_contra hcon
    have : (μ + 1) / 3 = (μ + 1 + 1) / 3 := by omega
    unfold p4Knot at hlt
    rw [this] at hlt
    exact lt_irrefl _ hlt
  rcases hcases with rfl | rfl | rfl | rfl
  · refine ⟨0, by norm_num, ?_⟩
    have a : p4Knot (pi / 2) 4 = (0 : K) * (pi / 2) := by simp [p4Knot] <;> ring
    have b : p4Knot (pi / 2) (4 + 1) = (0 : K) * (pi / 2) + pi / 2 := by simp [p4Knot] <;> ring
    rw [a, b] at h3
    simpa using h3
  · refine ⟨1, by norm_num, ?_⟩
    have a : p4Knot (pi / 2) 7 = (1 : K) * (pi / 2) := by simp [p4Knot] <;> ring
    have b : p4Knot (pi / 2) (7 + 1) = (1 : K) * (pi / 2) + pi / 2 := by simp [p4Knot] <;> ring
    rw [a, b] at h3
    simpa using h3
  · refine ⟨2, by norm_num, ?_⟩
    have a : p4Knot (pi / 2) 10 = (2 : K) * (pi / 2) := by simp [p4Knot] <;> ring
    have b : p4Knot (pi / 2) (10 + 1) = (2 : K) * (pi / 2) + pi / 2 := by simp [p4Knot] <;> ring
    rw [a, b] at h3
    simpa using h3
  · refine ⟨3, by norm_num, ?_⟩
    have a : p4Knot (pi / 2) 13 = (3 : K) * (pi / 2) := by simp [p4Knot] <;> ring
    have b : p4Knot (pi / 2) (13 + 1) = (3 : K) * (pi / 2) + pi / 2 := by simp [p4Knot] <;> ring
    rw [a, b] at h3
    simpa using h3

/-! ## weighted sums of a net -/

/-- `Σ_{j<n} β_j · f_j`. -/
def wS (n : ℕ) (β f : ℕ → K) : K := ∑ j ∈ range n, β j * f j

/-- component `c` of control point `j` (no wrapping). -/
def comp (net : List (Pt K)) (c : ℕ) (j : ℕ) : K := (net.getD j []).getD c 0

omit [LinearOrder K] [IsStrictOrderedRing K] in
theorem wS_congr (n : ℕ) (β f g : ℕ → K) (h : ∀ j, j < n → f j = g j) : wS n β f = wS n β g := by
  unfold wS
  exact sum_congr rfl (fun j hj => by rw [h j (mem_range.mp hj)])

omit [LinearOrder K] [IsStrictOrderedRing K] in
theorem wS_lin4 (n : ℕ) (β f g h k : ℕ → K) (a b c d : K) :
    wS n β (fun j => a * f j + b * g j + c * h j + d * k j)
      = a * wS n β f + b * wS n β g + c * wS n β h + d * wS n β k := by
  unfold wS
  simp only [mul_sum, ← sum_add_distrib]
  exact sum_congr rfl (fun j _ => by ring)

omit [LinearOrder K] [IsStrictOrderedRing K] in
theorem wS_lin3 (n : ℕ) (β f g h : ℕ → K) (a b c : K) :
    wS n β (fun j => a * f j + b * g j + c * h j)
      = a * wS n β f + b * wS n β g + c * wS n β h := by
  unfold wS
  simp only [mul_sum, ← sum_add_distrib]
  exact sum_congr rfl (fun j _ => by ring)

omit [LinearOrder K] [IsStrictOrderedRing K] in
theorem wS_of_lin3 (n : ℕ) (β f g h F : ℕ → K) (a b c : K)
    (hF : ∀ j, F j = a * f j + b * g j + c * h j) :
    wS n β F = a * wS n β f + b * wS n β g + c * wS n β h := by
  rw [← wS_lin3]; exact wS_congr n β _ _ (fun j _ => hF j)

omit [LinearOrder K] [IsStrictOrderedRing K] in
theorem wS_of_lin4 (n : ℕ) (β f g h k F : ℕ → K) (a b c d : K)
    (hF : ∀ j, F j = a * f j + b * g j + c * h j + d * k j) :
    wS n β F = a * wS n β f + b * wS n β g + c * wS n β h + d * wS n β k := by
  rw [← wS_lin4]; exact wS_congr n β _ _ (fun j _ => hF j)

/-- the first `n` points of the net have exactly three components. -/
def Is3 (net : List (Pt K)) (n : ℕ) : Prop := ∀ j, j < n → ∃ X Y W, net.getD j [] = [X, Y, W]

/-- the first `n` points of the net have exactly four components. -/
def Is4 (net : List (Pt K)) (n : ℕ) : Prop := ∀ j, j < n → ∃ X Y Z W, net.getD j [] = [X, Y, Z, W]

omit [Field K] [LinearOrder K] [IsStrictOrderedRing K] in
theorem getD_map_of_ne_nil (net : List (Pt K)) (f : Pt K → Pt K) (j : ℕ) (h : net.getD j [] ≠ []) :
    (net.map f).getD j [] = f (net.getD j []) := by
  by_cases hj : j < net.length
  · simp [List.getD_eq_getElem?_getD, List.getElem?_map, List.getElem?_eq_getElem hj]
  · exfalso; apply h
    simp [List.getD_eq_getElem?_getD, List.getElem?_eq_none (not_lt.mp hj)]

omit [LinearOrder K] [IsStrictOrderedRing K] in
/-- **Placement commutes with evaluation** (planar rational nets): for arbitrary weights `β`
    the weighted combination of the placed control points is the placed weighted combination. -/
theorem wS_placePt (net : List (Pt K)) (n : ℕ) (β : ℕ → K) (h3 : Is3 net n)
    (ca sa ct st cp sp c1 c2 c3 : K) :
    [wS n β (comp (net.map (placePt ca sa ct st cp sp [c1, c2, c3])) 0),
     wS n β (comp (net.map (placePt ca sa ct st cp sp [c1, c2, c3])) 1),
     wS n β (comp (net.map (placePt ca sa ct st cp sp [c1, c2, c3])) 2),
     wS n β (comp (net.map (placePt ca sa ct st cp sp [c1, c2, c3])) 3)]
    = placePt ca sa ct st cp sp [c1, c2, c3]
        [wS n β (comp net 0), wS n β (comp net 1), wS n β (comp net 2)] := by
  have hpt : ∀ j, j < n → ∀ c, comp (net.map (placePt ca sa ct st cp sp [c1, c2, c3])) c j
      = (placePt ca sa ct st cp sp [c1, c2, c3] [comp net 0 j, comp net 1 j, comp net 2 j]).getD c 0 := by
    intro j hj c
    obtain ⟨X, Y, W, e⟩ := h3 j hj
    unfold comp
    rw [getD_map_of_ne_nil _ _ _ (by rw [e]; simp), e]
    simp
  rw [wS_congr n β _ _ (fun j hj => hpt j hj 0), wS_congr n β _ _ (fun j hj => hpt j hj 1),
    wS_congr n β _ _ (fun j hj => hpt j hj 2), wS_congr n β _ _ (fun j hj => hpt j hj 3)]
  simp only [placePt, setDimPt, rotZPt_cons, rotYPt_cons, translatePt, weightOf]
  simp
  refine ⟨?_, ?_, ?_⟩
  · rw [wS_of_lin3 n β (comp net 0) (comp net 1) (comp net 2) _
      (ca * cp * ct - sa * st) (-(sa * cp * ct) - ca * st) c1 (fun j => by ring)]
    ring
  · rw [wS_of_lin3 n β (comp net 0) (comp net 1) (comp net 2) _
      (ca * cp * st + sa * ct) (-(sa * cp * st) + ca * ct) c2 (fun j => by ring)]
    ring
  · rw [wS_of_lin3 n β (comp net 0) (comp net 1) (comp net 2) _
      (-(ca * sp)) (sa * sp) c3 (fun j => by ring)]
    ring

/-! ## indexing of stacked nets -/

omit [Field K] [LinearOrder K] [IsStrictOrderedRing K] in
theorem flatten_getD_uniform {α : Type} (L : List (List α)) (m : ℕ) (d : α)
    (h : ∀ l ∈ L, l.length = m) (k j : ℕ) (hj : j < m) (hk : k < L.length) :
    L.flatten.getD (k * m + j) d = (L.getD k []).getD j d := by
  induction L generalizing k with
  | nil => simp at hk
  | cons l L ih =>
    have hl : l.length = m := h l (by simp)
    cases k with
    | zero =>
      simp only [Nat.zero_mul, Nat.zero_add, List.flatten_cons, List.getD_cons_zero]
      rw [List.getD_append _ _ _ _ (by omega)]
    | succ k =>
      have e : (k + 1) * m + j = l.length + (k * m + j) := by rw [hl]; ring
      rw [List.flatten_cons, e, List.getD_append_right _ _ _ _ (by omega)]
      simp only [Nat.add_sub_cancel_left, List.getD_cons_succ]
      exact ih (fun l' hl' => h l' (by simp [hl'])) k (by simpa using hk)

omit [Field K] [LinearOrder K] [IsStrictOrderedRing K] in
theorem stackLast_getD (rows : List (List (Pt K))) (n : ℕ) (hrows : ∀ r ∈ rows, r.length = n)
    (hne : rows ≠ []) (k j : ℕ) (hk : k < n) (hj : j < rows.length) :
    (stackLast rows).getD (k * rows.length + j) [] = (rows.getD j []).getD k [] := by
  obtain ⟨r0, rest, rfl⟩ : ∃ r0 rest, rows = r0 :: rest := by
    cases rows with
    | nil => exact absurd rfl hne
    | cons a b => exact ⟨a, b, rfl⟩
  have h0 : r0.length = n := hrows r0 (by simp)
  unfold stackLast
  simp only
  rw [flatten_getD_uniform _ (r0 :: rest).length [] (by
      intro l hl
      simp only [List.mem_map, List.mem_range] at hl
      obtain ⟨kk, _, rfl⟩ := hl
      simp) k j hj (by simp [h0, hk])]
  have : ((List.range r0.length).map (fun kk => (r0 :: rest).map (fun r => r.getD kk []))).getD k []
      = (r0 :: rest).map (fun r => r.getD k []) := by
    simp [List.getD_eq_getElem?_getD, h0, hk]
  rw [this]
  have hj' : j < ((r0 :: rest).map (fun r => r.getD k [])).length := by simpa using hj
  rw [List.getD_eq_getElem _ _ hj', List.getD_eq_getElem _ _ hj, List.getElem_map]

/-! ## tensor nets: revolve, extrude -/

/-- `Σ_{k<n} Σ_{j<m} β_k γ_j F(k,j)`. -/
def wS2 (n m : ℕ) (β γ : ℕ → K) (F : ℕ → ℕ → K) : K :=
  ∑ k ∈ range n, ∑ j ∈ range m, β k * γ j * F k j

omit [LinearOrder K] [IsStrictOrderedRing K] in
theorem wS2_congr (n m : ℕ) (β γ : ℕ → K) (F G : ℕ → ℕ → K)
    (h : ∀ k j, k < n → j < m → F k j = G k j) : wS2 n m β γ F = wS2 n m β γ G := by
  unfold wS2
  exact sum_congr rfl (fun k hk => sum_congr rfl (fun j hj => by
    rw [h k j (mem_range.mp hk) (mem_range.mp hj)]))

omit [LinearOrder K] [IsStrictOrderedRing K] in
theorem wS2_lin2 (n m : ℕ) (β γ f1 g1 f2 g2 : ℕ → K) (a b : K) :
    wS2 n m β γ (fun k j => a * (f1 k * g1 j) + b * (f2 k * g2 j))
      = a * (wS n β f1 * wS m γ g1) + b * (wS n β f2 * wS m γ g2) := by
  unfold wS2 wS
  rw [sum_mul_sum, sum_mul_sum, mul_sum, mul_sum, ← sum_add_distrib]
  apply sum_congr rfl; intro k _
  rw [mul_sum, mul_sum, ← sum_add_distrib]
  apply sum_congr rfl; intro j _
  ring

omit [LinearOrder K] [IsStrictOrderedRing K] in
theorem wS2_of_lin2 (n m : ℕ) (β γ f1 g1 f2 g2 : ℕ → K) (F : ℕ → ℕ → K) (a b : K)
    (hF : ∀ k j, k < n → j < m → F k j = a * (f1 k * g1 j) + b * (f2 k * g2 j)) :
    wS2 n m β γ F = a * (wS n β f1 * wS m γ g1) + b * (wS n β f2 * wS m γ g2) := by
  rw [← wS2_lin2]; exact wS2_congr n m β γ _ _ hF

omit [LinearOrder K] [IsStrictOrderedRing K] in
/-- **Evaluation of a revolved net** (`surface_factory.revolve` rows; arbitrary weights `β` on the
    profile's control points and `γ` on the sweep's). -/
theorem wS2_revolve (prof arc : List (Pt K)) (n m : ℕ) (β γ : ℕ → K)
    (hn : prof.length = n) (hm : arc.length = m) (hm0 : 0 < m) (hp : Is4 prof n) (ha : Is3 arc m) :
    wS2 n m β γ (fun k j => comp (stackLast (revolveRows prof arc)) 0 (k * m + j))
      = wS n β (comp prof 0) * wS m γ (comp arc 0) - wS n β (comp prof 1) * wS m γ (comp arc 1) ∧
    wS2 n m β γ (fun k j => comp (stackLast (revolveRows prof arc)) 1 (k * m + j))
      = wS n β (comp prof 0) * wS m γ (comp arc 1) + wS n β (comp prof 1) * wS m γ (comp arc 0) ∧
    wS2 n m β γ (fun k j => comp (stackLast (revolveRows prof arc)) 2 (k * m + j))
      = wS n β (comp prof 2) * wS m γ (comp arc 2) ∧
    wS2 n m β γ (fun k j => comp (stackLast (revolveRows prof arc)) 3 (k * m + j))
      = wS n β (comp prof 3) * wS m γ (comp arc 2) := by
  have hrl : (revolveRows prof arc).length = m := by simp [revolveRows, hm]
  have hrows : ∀ r ∈ revolveRows prof arc, r.length = n := by
    intro r hr
    simp only [revolveRows, List.mem_map] at hr
    obtain ⟨q, _, rfl⟩ := hr
    split <;> simp [hn]
  have hne : revolveRows prof arc ≠ [] := by
    intro h; rw [h] at hrl; simp at hrl; omega
  have hpt : ∀ k j, k < n → j < m → ∀ c,
      comp (stackLast (revolveRows prof arc)) c (k * m + j)
        = (scaleZW (comp arc 2 j) (rotZPt (comp arc 0 j) (comp arc 1 j)
            [comp prof 0 k, comp prof 1 k, comp prof 2 k, comp prof 3 k])).getD c 0 := by
    intro k j hk hj c
    obtain ⟨X, Y, Z, H, ep⟩ := hp k hk
    obtain ⟨x, y, w, ea⟩ := ha j hj
    unfold comp
    have := stackLast_getD (revolveRows prof arc) n hrows hne k j hk (by rw [hrl]; exact hj)
    rw [hrl] at this
    rw [this]
    have hj' : j < arc.length := by omega
    have hk' : k < prof.length := by omega
    have e1 : (revolveRows prof arc).getD j [] = prof.map (fun p => scaleZW w (rotZPt x y p)) := by
      have hea : arc[j] = [x, y, w] := by
        have := ea; rw [List.getD_eq_getElem _ _ hj'] at this; exact this
      simp [revolveRows, List.getD_eq_getElem?_getD, List.getElem?_map, List.getElem?_eq_getElem hj', hea]
    rw [e1, ea, ep]
    have e2 : (prof.map (fun p => scaleZW w (rotZPt x y p))).getD k []
        = scaleZW w (rotZPt x y (prof.getD k [])) := by
      simp [List.getD_eq_getElem?_getD, List.getElem?_map, List.getElem?_eq_getElem hk']
    rw [e2, ep]
    simp
  refine ⟨?_, ?_, ?_, ?_⟩
  · rw [wS2_of_lin2 n m β γ (comp prof 0) (comp arc 0) (comp prof 1) (comp arc 1) _ 1 (-1)
      (fun k j hk hj => by rw [hpt k j hk hj 0]; simp; ring)]
    ring
  · rw [wS2_of_lin2 n m β γ (comp prof 0) (comp arc 1) (comp prof 1) (comp arc 0) _ 1 1
      (fun k j hk hj => by rw [hpt k j hk hj 1]; simp)]
    ring
  · rw [wS2_of_lin2 n m β γ (comp prof 2) (comp arc 2) (comp prof 2) (comp arc 2) _ 1 0
      (fun k j hk hj => by rw [hpt k j hk hj 2]; simp)]
    ring
  · rw [wS2_of_lin2 n m β γ (comp prof 3) (comp arc 2) (comp prof 3) (comp arc 2) _ 1 0
      (fun k j hk hj => by rw [hpt k j hk hj 3]; simp)]
    ring

omit [LinearOrder K] [IsStrictOrderedRing K] in
/-- the rows of `volume_factory.revolve` are those of `surface_factory.revolve` for the sweep net
    `(cos(j·dt), sin(j·dt), weight_j)`. -/
theorem revolveRowsStep_eq (prof : List (Pt K)) (cd sd : K) (ws : List K) :
    revolveRowsStep prof cd sd ws
      = revolveRows prof ((List.range ws.length).map
          (fun i => [(angleIter cd sd i).1, (angleIter cd sd i).2, ws.getD i 1])) := by
  simp [revolveRowsStep, revolveRows, List.map_map, Function.comp_def]

omit [LinearOrder K] [IsStrictOrderedRing K] in
/-- **Evaluation of an extruded rational net** (arbitrary weights; `γ 0`, `γ 1` on the two rows). -/
theorem wS2_extrude_rational (base : List (Pt K)) (n : ℕ) (β γ : ℕ → K) (a b c : K)
    (hn : base.length = n) (hp : Is4 base n) :
    (∀ cc, cc < 3 →
      wS2 n 2 β γ (fun k j => comp (stackLast [base, base.map (translatePt true 3 [a, b, c])]) cc (k * 2 + j))
        = (γ 0 + γ 1) * wS n β (comp base cc) + γ 1 * ([a, b, c].getD cc 0) * wS n β (comp base 3)) ∧
    wS2 n 2 β γ (fun k j => comp (stackLast [base, base.map (translatePt true 3 [a, b, c])]) 3 (k * 2 + j))
      = (γ 0 + γ 1) * wS n β (comp base 3) := by
  have hrows : ∀ r ∈ [base, base.map (translatePt true 3 [a, b, c])], r.length = n := by
    intro r hr; simp at hr; rcases hr with rfl | rfl <;> simp [hn]
  have hpt : ∀ k j, k < n → j < 2 → ∀ cc,
      comp (stackLast [base, base.map (translatePt true 3 [a, b, c])]) cc (k * 2 + j)
        = if j = 0 then comp base cc k
          else (translatePt true 3 [a, b, c]
            [comp base 0 k, comp base 1 k, comp base 2 k, comp base 3 k]).getD cc 0 := by
    intro k j hk hj cc
    obtain ⟨X, Y, Z, H, ep⟩ := hp k hk
    unfold comp
    have := stackLast_getD [base, base.map (translatePt true 3 [a, b, c])] n hrows (by simp) k j hk (by simpa using hj)
    simp only [List.length_cons, List.length_nil] at this
    rw [this]
    have hk' : k < base.length := by omega
    interval_cases j
    · simp
    · simp only [List.getD_cons_succ, List.getD_cons_zero]
      rw [getD_map_of_ne_nil _ _ _ (by rw [ep]; simp), ep]
      simp
  constructor
  · intro cc hcc
    unfold wS2
    simp only [sum_range_succ, sum_range_zero, zero_add]
    have e : ∀ k, k < n →
        β k * γ 0 * comp (stackLast [base, base.map (translatePt true 3 [a, b, c])]) cc (k * 2 + 0)
        + β k * γ 1 * comp (stackLast [base, base.map (translatePt true 3 [a, b, c])]) cc (k * 2 + 1)
        = (γ 0 + γ 1) * (β k * comp base cc k) + γ 1 * ([a, b, c].getD cc 0) * (β k * comp base 3 k) := by
      intro k hk
      rw [hpt k 0 hk (by omega) cc, hpt k 1 hk (by omega) cc]
      interval_cases cc <;> simp [translatePt, weightOf] <;> ring
    rw [sum_congr rfl (fun k hk => e k (mem_range.mp hk))]
    unfold wS
    rw [sum_add_distrib, ← mul_sum, ← mul_sum]
  · unfold wS2
    simp only [sum_range_succ, sum_range_zero, zero_add]
    have e : ∀ k, k < n →
        β k * γ 0 * comp (stackLast [base, base.map (translatePt true 3 [a, b, c])]) 3 (k * 2 + 0)
        + β k * γ 1 * comp (stackLast [base, base.map (translatePt true 3 [a, b, c])]) 3 (k * 2 + 1)
        = (γ 0 + γ 1) * (β k * comp base 3 k) := by
      intro k hk
      rw [hpt k 0 hk (by omega) 3, hpt k 1 hk (by omega) 3]
      simp [translatePt, weightOf]; ring
    rw [sum_congr rfl (fun k hk => e k (mem_range.mp hk))]
    unfold wS
    rw [← mul_sum]

omit [IsStrictOrderedRing K] in
/-- the two linear B-splines on a span `[a,b)` are `1−u`, `u`. -/
theorem B1_linear (s : Side) (τ : ℕ → K) (hτ : Monotone τ) (i : ℕ) (a b t : K) (hab : a < b)
    (h1 : τ (i+1) = a) (h2 : τ (i+2) = b) (h : s.mem a b t) :
    B s τ 1 i t = 1 - (t - a) / (b - a) ∧ B s τ 1 (i+1) t = (t - a) / (b - a) := by
  have hmem : s.mem (τ (i+1)) (τ (i+1+1)) t := by rw [h1, h2]; exact h
  have hne : b - a ≠ 0 := sub_ne_zero.mpr (ne_of_gt hab)
  have e0 : ∀ j, B s τ 0 j t = if j = i + 1 then 1 else 0 :=
    fun j => B0_of_mem s τ hτ (i+1) j t hmem
  constructor
  · simp only [B_succ, e0]
    simp [h1, h2]
    field_simp
    try ring
  · simp only [B_succ, e0]
    simp [h1, h2]

/-! ## bridge: `revolve` about the default axis -/

/-- points with exactly four components. -/
def All4 (net : List (Pt K)) : Prop := ∀ p ∈ net, ∃ X Y Z W, p = [X, Y, Z, W]

omit [LinearOrder K] [IsStrictOrderedRing K] in
theorem all4_revolveRows (prof arc : List (Pt K)) (h4 : All4 prof) :
    ∀ r ∈ revolveRows prof arc, r.length = prof.length ∧ All4 r := by
  intro r hr
  simp only [revolveRows, List.mem_map] at hr
  obtain ⟨q, _, rfl⟩ := hr
  split
  · refine ⟨by simp, ?_⟩
    intro p hp
    simp only [List.mem_map] at hp
    obtain ⟨p0, hp0, rfl⟩ := hp
    obtain ⟨X, Y, Z, W, rfl⟩ := h4 p0 hp0
    simp only [rotZPt_cons, scaleZW_cons]
    exact ⟨_, _, _, _, rfl⟩
  · exact ⟨rfl, h4⟩

omit [Field K] [LinearOrder K] [IsStrictOrderedRing K] in
theorem all4_stackLast (rows : List (List (Pt K))) (n : ℕ)
    (h : ∀ r ∈ rows, r.length = n ∧ All4 r) : All4 (stackLast rows) := by
  intro p hp
  cases rows with
  | nil => simp [stackLast] at hp
  | cons r0 rest =>
    simp only [stackLast, List.mem_flatten, List.mem_map, List.mem_range] at hp
    obtain ⟨l, ⟨kk, hkk, rfl⟩, hp⟩ := hp
    simp only [List.mem_map] at hp
    obtain ⟨r, hr, rfl⟩ := hp
    have hlen : r.length = n := (h r hr).1
    have h0 : r0.length = n := (h r0 (by simp)).1
    have hk : kk < r.length := by omega
    rw [List.getD_eq_getElem _ _ hk]
    exact (h r hr).2 _ (List.getElem_mem hk)

omit [IsStrictOrderedRing K] in
/-- `surface_factory.revolve` about the default axis `(0,0,1)`: the alignment rotations are the
    identity and the control net is the stacked rows. -/
theorem revolve_aux0 (k : Consts K) (o : Fac.Obj K) (theta : K) (arc : ArcAux K) (seg : Fac.Obj K)
    (hdim : o.dim = 3) (hrat : o.rational = true) (h4 : All4 o.cps)
    (hseg : circleSegmentDefault k theta 1 arc = .ok seg) :
    revolve k o theta arc aux0 = .ok
      { bases := o.bases ++ seg.bases, shape := o.shape ++ [seg.cps.length],
        cps := stackLast (revolveRows o.cps seg.cps), rational := true, dim := 3 } := by
  have hid : ∀ p ∈ o.cps, rotYPt (1 : K) 0 (setDimPt 3 3 (rotZPt 1 0 (setDimPt 3 3 p))) = p := by
    intro p hp
    obtain ⟨X, Y, Z, W, rfl⟩ := h4 p hp
    simp [setDimPt]
  have hid2 : ∀ p ∈ stackLast (revolveRows o.cps seg.cps),
      rotZPt (1 : K) 0 (rotYPt 1 0 (setDimPt 3 3 p)) = p := by
    intro p hp
    obtain ⟨X, Y, Z, W, rfl⟩ := all4_stackLast _ o.cps.length (all4_revolveRows o.cps seg.cps h4) p hp
    simp [setDimPt]
  have e1 : List.map (fun p => rotYPt (1 : K) 0 (setDimPt 3 3 (rotZPt 1 0 (setDimPt 3 3 p)))) o.cps = o.cps := by
    conv_rhs => rw [← List.map_id o.cps]
    exact List.map_congr_left (fun p hp => by simpa using hid p hp)
  have e2 : List.map (fun p => rotZPt (1 : K) 0 (rotYPt 1 0 (setDimPt 3 3 p))) (stackLast (revolveRows o.cps seg.cps))
      = stackLast (revolveRows o.cps seg.cps) := by
    conv_rhs => rw [← List.map_id (stackLast (revolveRows o.cps seg.cps))]
    exact List.map_congr_left (fun p hp => by simpa using hid2 p hp)
  simp [revolve, hseg, aux0, Obj.setDimension, Obj.forceRational, Obj.rotateZ, Obj.rotateY, Obj.mapPts, hdim, hrat,
    bind, Except.bind, pure, Except.pure, List.map_map, Function.comp_def]
  rw [e1, e2]

/-! ## B-spline evaluation of placed / scaled nets -/

/-- weights of the control points of a (possibly periodic) curve at a parameter: the sum of the
    B-spline values of all wrapped images of control point `j`. -/
def wrapW (s : Side) (τ : ℕ → K) (q n m : ℕ) (t : K) (j : ℕ) : K :=
  ∑ i ∈ (range n).filter (fun i => i % m = j), B s τ q i t

omit [IsStrictOrderedRing K] in
theorem splineVal_netComp_eq_wS (s : Side) (τ : ℕ → K) (q n : ℕ) (net : List (Pt K)) (c : ℕ) (t : K)
    (hm : 0 < net.length) :
    splineVal s τ q n (netComp net c) t = wS net.length (wrapW s τ q n net.length t) (comp net c) := by
  unfold splineVal wS wrapW
  rw [← sum_fiberwise_of_maps_to (s := range n) (t := range net.length) (g := fun i => i % net.length)
    (fun i _ => mem_range.2 (Nat.mod_lt _ hm))]
  apply sum_congr rfl
  intro j _
  rw [sum_mul]
  apply sum_congr rfl
  intro i hi
  rw [← (mem_filter.1 hi).2]
  simp [netComp, comp, mul_comm]

omit [IsStrictOrderedRing K] in
/-- **Placement commutes with B-spline evaluation** (planar rational curves, periodic or not). -/
theorem splineVal_placed (s : Side) (τ : ℕ → K) (q n : ℕ) (net : List (Pt K)) (t : K)
    (hm : 0 < net.length) (h3 : Is3 net net.length) (ca sa ct st cp sp c1 c2 c3 : K) :
    [splineVal s τ q n (netComp (net.map (placePt ca sa ct st cp sp [c1, c2, c3])) 0) t,
     splineVal s τ q n (netComp (net.map (placePt ca sa ct st cp sp [c1, c2, c3])) 1) t,
     splineVal s τ q n (netComp (net.map (placePt ca sa ct st cp sp [c1, c2, c3])) 2) t,
     splineVal s τ q n (netComp (net.map (placePt ca sa ct st cp sp [c1, c2, c3])) 3) t]
    = placePt ca sa ct st cp sp [c1, c2, c3]
        [splineVal s τ q n (netComp net 0) t, splineVal s τ q n (netComp net 1) t,
         splineVal s τ q n (netComp net 2) t] := by
  have hl : (net.map (placePt ca sa ct st cp sp [c1, c2, c3])).length = net.length := by simp
  have e : ∀ c, splineVal s τ q n (netComp (net.map (placePt ca sa ct st cp sp [c1, c2, c3])) c) t
      = wS net.length (wrapW s τ q n net.length t) (comp (net.map (placePt ca sa ct st cp sp [c1, c2, c3])) c) := by
    intro c
    have := splineVal_netComp_eq_wS s τ q n (net.map (placePt ca sa ct st cp sp [c1, c2, c3])) c t (by rw [hl]; exact hm)
    rw [hl] at this; exact this
  rw [e 0, e 1, e 2, e 3, splineVal_netComp_eq_wS s τ q n net 0 t hm, splineVal_netComp_eq_wS s τ q n net 1 t hm,
    splineVal_netComp_eq_wS s τ q n net 2 t hm]
  exact wS_placePt net net.length _ h3 ca sa ct st cp sp c1 c2 c3

omit [IsStrictOrderedRing K] in
/-- scaling a planar rational net by `[r1, r2, …]` (`dim = 2`: the weight is untouched). -/
theorem splineVal_scaled (s : Side) (τ : ℕ → K) (q n : ℕ) (net : List (Pt K)) (t r1 r2 : K) (rest : List K)
    (hm : 0 < net.length) (h3 : Is3 net net.length) :
    splineVal s τ q n (netComp (net.map (scalePt 2 (r1 :: r2 :: rest))) 0) t = r1 * splineVal s τ q n (netComp net 0) t ∧
    splineVal s τ q n (netComp (net.map (scalePt 2 (r1 :: r2 :: rest))) 1) t = r2 * splineVal s τ q n (netComp net 1) t ∧
    splineVal s τ q n (netComp (net.map (scalePt 2 (r1 :: r2 :: rest))) 2) t = splineVal s τ q n (netComp net 2) t ∧
    Is3 (net.map (scalePt 2 (r1 :: r2 :: rest))) net.length := by
  have hpt : ∀ i, ∃ X Y W, net.getD (i % net.length) [] = [X, Y, W] := fun i => h3 _ (Nat.mod_lt _ hm)
  have hc : ∀ i c, netComp (net.map (scalePt 2 (r1 :: r2 :: rest))) c i
      = (scalePt 2 (r1 :: r2 :: rest) [netComp net 0 i, netComp net 1 i, netComp net 2 i]).getD c 0 := by
    intro i c
    obtain ⟨X, Y, W, e⟩ := hpt i
    unfold netComp
    rw [List.length_map, getD_map_of_ne_nil _ _ _ (by rw [e]; simp), e]
    simp
  refine ⟨?_, ?_, ?_, ?_⟩
  · unfold splineVal
    rw [mul_sum]; apply sum_congr rfl; intro i _
    rw [hc i 0]; simp [scalePt]; ring
  · unfold splineVal
    rw [mul_sum]; apply sum_congr rfl; intro i _
    rw [hc i 1]; simp [scalePt]; ring
  · unfold splineVal
    apply sum_congr rfl; intro i _
    rw [hc i 2]; simp [scalePt]
  · intro j hj
    obtain ⟨X, Y, W, e⟩ := h3 j hj
    refine ⟨X * r1, Y * r2, W, ?_⟩
    rw [getD_map_of_ne_nil _ _ _ (by rw [e]; simp), e]
    simp [scalePt]

omit [LinearOrder K] [IsStrictOrderedRing K] in
theorem map_setDim33 (net : List (Pt K)) (h : All4 net) : net.map (setDimPt 3 3) = net := by
  conv_rhs => rw [← List.map_id net]
  apply List.map_congr_left
  intro p hp
  obtain ⟨X, Y, Z, W, rfl⟩ := h p hp
  simp [setDimPt]

omit [LinearOrder K] [IsStrictOrderedRing K] in
theorem all4_map_placePt (net : List (Pt K)) (h3 : Is3 net net.length) (ca sa ct st cp sp c1 c2 c3 : K) :
    All4 (net.map (placePt ca sa ct st cp sp [c1, c2, c3])) := by
  intro p hp
  simp only [List.mem_map] at hp
  obtain ⟨p0, hp0, rfl⟩ := hp
  obtain ⟨i, hi, rfl⟩ := List.getElem_of_mem hp0
  obtain ⟨X, Y, W, e⟩ := h3 i hi
  rw [List.getD_eq_getElem _ _ hi] at e
  rw [e]
  simp only [placePt, setDimPt, rotZPt_cons]
  simp [translatePt, weightOf]


end Splipy.Fac
