import Splipy.Lemmas.C15CoonsEdges

/-!
# The four edge sections of a surface of the model, as curves

`Obj.sectionSel` (the model of `SplineObject.section`) on a well-formed non-periodic surface with
selector `[None, 0]`, `[None, -1]`, `[0, None]`, `[-1, None]`: it returns a `Curve` on the free
direction's basis; that curve is well formed; and — when the fixed direction is clamped at the
selected end — its evaluated map is the surface's map on that edge.
-/

set_option linter.unusedSectionVars false

namespace Splipy
namespace C15

open C06 C12 Obj Basis Finset Tensor Sections

variable {K : Type} [Field K] [LinearOrder K] [IsStrictOrderedRing K] [FloorRing K]

theorem getIdx_triple (t : Tensor K) (n0 n1 nc i j c : ℕ) (hs : t.shape = [n0, n1, nc]) :
    t.getIdx [i, j, c] = t.get ((i * n1 + j) * nc + c) := by
  unfold Tensor.getIdx
  rw [hs]
  simp [Tensor.ravel, Tensor.prod]
  ring_nf

/-- A curve object assembled from a valid basis and a control array of shape `[n, nc]`. -/
theorem curve_wf_of (b : Basis K) (hv : b.Valid) (cps : Tensor K) (nc : ℕ) (rat : Bool)
    (hs : cps.shape = [b.numFunctions, nc]) :
    C06.WF ({ bases := #[b], cps := cps, rational := rat } : Obj K) 1
      ∧ ({ bases := #[b], cps := cps, rational := rat } : Obj K).ncomp = nc
      ∧ ({ bases := #[b], cps := cps, rational := rat } : Obj K).basis 0 = b := by
  have hb : ({ bases := #[b], cps := cps, rational := rat } : Obj K).basis 0 = b := rfl
  have hn : ({ bases := #[b], cps := cps, rational := rat } : Obj K).ncomp = nc := by
    unfold Obj.ncomp; rw [hs]; rfl
  refine ⟨⟨rfl, ?_, ?_⟩, hn, hb⟩
  · intro d
    have hd : (d : ℕ) = 0 := by omega
    show (({ bases := #[b], cps := cps, rational := rat } : Obj K).basis (d : ℕ)).Valid
    rw [hd, hb]; exact hv
  · rw [hn]
    show cps.shape = _
    rw [hs]
    simp [midx, List.ofFn_succ]
    exact hb.symm ▸ rfl

/-- **`section(None, 0)` / `section(None, -1)`**: the edge in the second direction. -/
theorem surface_edge_v {s : Obj K} (hw : C06.WF s 2) (h0 : (s.basis 0).periodic = -1)
    (h1 : (s.basis 1).periodic = -1) (hcl : EndsClamped (s.basis 1)) (last unwrap : Bool) :
    ∃ e : Obj K, s.sectionSel [none, some (if last then -1 else 0)] unwrap = .ok (.obj "Curve" e)
      ∧ e.basis 0 = s.basis 0 ∧ e.bases = #[s.basis 0] ∧ e.rational = s.rational ∧ C06.WF e 1
      ∧ e.ncomp = s.ncomp
      ∧ ∀ comp, comp < s.ncomp → ∀ (sd : Side) (t : K),
          (toTP e 1 comp).eval (fun _ => sd) (fun _ => t)
            = (toTP s 2 comp).eval ![sd, if last then .left else .right]
                ![t, if last then (s.basis 1).kn (s.basis 1).numFunctions
                      else (s.basis 1).kn ((s.basis 1).order - 1)] := by
  set n0 := (s.basis 0).numFunctions with hn0
  set n1 := (s.basis 1).numFunctions with hn1
  set nc := s.ncomp with hnc
  have hss : s.cps.shape = [n0, n1, nc] := surface_shape hw
  have hpos1 : 1 ≤ n1 := valid_numFunctions_pos (hw.valid 1)
  let D0 : Dir K := ⟨(s.basis 0).kn, (s.basis 0).order - 1, n0⟩
  let D1 : Dir K := ⟨(s.basis 1).kn, (s.basis 1).order - 1, n1⟩
  let ds : List (Dir K × BSel) := [(D0, .free), (D1, if last then .hi else .lo)]
  have hsel : selOf ds = [none, some (if last then -1 else 0)] := by cases last <;> rfl
  have hdims : dimsOf ds = [n0, n1] := by cases last <;> rfl
  have hfix : FixedPos ds := by
    cases last
    · exact ⟨hpos1, trivial⟩
    · exact ⟨hpos1, trivial⟩
  obtain ⟨cps', g1, g2, g3⟩ := sectionSel_boundary s ds nc (by rw [hss, hdims]; rfl) hfix unwrap
  have hfree : freeDims (idxOf ds) (dimsOf ds) = [n0] := by cases last <;> rfl
  have hbl : s.bases.toList = [s.basis 0, s.basis 1] := bases_of_size_two hw.size
  have hfb : Obj.freeBases s.bases.toList (selOf ds) = [s.basis 0] := by rw [hbl, hsel]; rfl
  have hcs : cps'.shape = [n0, nc] := by rw [g1, hfree]; rfl
  obtain ⟨ewf, enc, eb⟩ := curve_wf_of (s.basis 0) (hw.valid 0) cps' nc s.rational hcs
  refine ⟨{ bases := #[s.basis 0], cps := cps', rational := s.rational }, ?_, eb, rfl, rfl, ewf, enc, ?_⟩
  · rw [← hsel, g3, hfb]
    simp [Obj.className]
  · intro comp hcomp sd t
    have hk : (if last then n1 - 1 else 0) < n1 := by cases last <;> simp <;> omega
    have hδ : ∀ j, j < (s.basis 1).numFunctions →
        B ((![sd, if last then Side.left else Side.right] : Fin 2 → Side) 1) (s.basis 1).kn ((s.basis 1).order - 1) j
          ((![t, if last then (s.basis 1).kn (s.basis 1).numFunctions
                else (s.basis 1).kn ((s.basis 1).order - 1)] : Fin 2 → K) 1)
          = if j = (if last then n1 - 1 else 0) then 1 else 0 := by
      intro j _
      simp only [Matrix.cons_val_one]
      cases last
      · exact hcl.B_lo j
      · exact hcl.B_hi j
    rw [surface_eval_v_at hw h0 h1 comp _ _ _ hk hδ, toTP_eval_curve_sum ewf (by rw [eb]; exact h0), eb, enc]
    apply Finset.sum_congr rfl
    intro i hi
    have hi' := mem_range.mp hi
    simp only [Matrix.cons_val_zero]
    congr 1
    have e := g2 [i] comp (by rw [hfree]; exact List.Forall₂.cons hi' List.Forall₂.nil) hcomp
    show cps'.get (i * nc + comp) = _
    rw [← getIdx_pair cps' n0 nc i comp hcs]
    show cps'.getIdx ([i] ++ [comp]) = _
    rw [e]
    cases last
    · show s.cps.getIdx [i, 0, comp] = _
      rw [getIdx_triple s.cps n0 n1 nc i 0 comp hss]; rfl
    · show s.cps.getIdx [i, D1.n - 1, comp] = _
      rw [getIdx_triple s.cps n0 n1 nc i _ comp hss]; rfl

/-- **`section(0, None)` / `section(-1, None)`**: the edge in the first direction. -/
theorem surface_edge_u {s : Obj K} (hw : C06.WF s 2) (h0 : (s.basis 0).periodic = -1)
    (h1 : (s.basis 1).periodic = -1) (hcl : EndsClamped (s.basis 0)) (last unwrap : Bool) :
    ∃ e : Obj K, s.sectionSel [some (if last then -1 else 0), none] unwrap = .ok (.obj "Curve" e)
      ∧ e.basis 0 = s.basis 1 ∧ e.bases = #[s.basis 1] ∧ e.rational = s.rational ∧ C06.WF e 1
      ∧ e.ncomp = s.ncomp
      ∧ ∀ comp, comp < s.ncomp → ∀ (sd : Side) (t : K),
          (toTP e 1 comp).eval (fun _ => sd) (fun _ => t)
            = (toTP s 2 comp).eval ![if last then .left else .right, sd]
                ![if last then (s.basis 0).kn (s.basis 0).numFunctions
                    else (s.basis 0).kn ((s.basis 0).order - 1), t] := by
  set n0 := (s.basis 0).numFunctions with hn0
  set n1 := (s.basis 1).numFunctions with hn1
  set nc := s.ncomp with hnc
  have hss : s.cps.shape = [n0, n1, nc] := surface_shape hw
  have hpos0 : 1 ≤ n0 := valid_numFunctions_pos (hw.valid 0)
  let D0 : Dir K := ⟨(s.basis 0).kn, (s.basis 0).order - 1, n0⟩
  let D1 : Dir K := ⟨(s.basis 1).kn, (s.basis 1).order - 1, n1⟩
  let ds : List (Dir K × BSel) := [(D0, if last then .hi else .lo), (D1, .free)]
  have hsel : selOf ds = [some (if last then -1 else 0), none] := by cases last <;> rfl
  have hdims : dimsOf ds = [n0, n1] := by cases last <;> rfl
  have hfix : FixedPos ds := by
    cases last
    · exact ⟨hpos0, trivial⟩
    · exact ⟨hpos0, trivial⟩
  obtain ⟨cps', g1, g2, g3⟩ := sectionSel_boundary s ds nc (by rw [hss, hdims]; rfl) hfix unwrap
  have hfree : freeDims (idxOf ds) (dimsOf ds) = [n1] := by cases last <;> rfl
  have hbl : s.bases.toList = [s.basis 0, s.basis 1] := bases_of_size_two hw.size
  have hfb : Obj.freeBases s.bases.toList (selOf ds) = [s.basis 1] := by
    rw [hbl, hsel]; cases last <;> rfl
  have hcs : cps'.shape = [n1, nc] := by rw [g1, hfree]; rfl
  obtain ⟨ewf, enc, eb⟩ := curve_wf_of (s.basis 1) (hw.valid 1) cps' nc s.rational hcs
  refine ⟨{ bases := #[s.basis 1], cps := cps', rational := s.rational }, ?_, eb, rfl, rfl, ewf, enc, ?_⟩
  · rw [← hsel, g3, hfb]
    simp [Obj.className]
  · intro comp hcomp sd t
    have hk : (if last then n0 - 1 else 0) < n0 := by cases last <;> simp <;> omega
    have hδ : ∀ i, i < (s.basis 0).numFunctions →
        B ((![if last then Side.left else Side.right, sd] : Fin 2 → Side) 0) (s.basis 0).kn ((s.basis 0).order - 1) i
          ((![if last then (s.basis 0).kn (s.basis 0).numFunctions
                else (s.basis 0).kn ((s.basis 0).order - 1), t] : Fin 2 → K) 0)
          = if i = (if last then n0 - 1 else 0) then 1 else 0 := by
      intro i _
      simp only [Matrix.cons_val_zero]
      cases last
      · exact hcl.B_lo i
      · exact hcl.B_hi i
    rw [surface_eval_u_at hw h0 h1 comp _ _ _ hk hδ, toTP_eval_curve_sum ewf (by rw [eb]; exact h1), eb, enc]
    apply Finset.sum_congr rfl
    intro j hj
    have hj' := mem_range.mp hj
    simp only [Matrix.cons_val_one]
    congr 1
    have e := g2 [j] comp (by rw [hfree]; exact List.Forall₂.cons hj' List.Forall₂.nil) hcomp
    show cps'.get (j * nc + comp) = _
    rw [← getIdx_pair cps' n1 nc j comp hcs]
    show cps'.getIdx ([j] ++ [comp]) = _
    rw [e]
    cases last
    · show s.cps.getIdx [0, j, comp] = _
      rw [getIdx_triple s.cps n0 n1 nc 0 j comp hss]; rfl
    · show s.cps.getIdx [D0.n - 1, j, comp] = _
      rw [getIdx_triple s.cps n0 n1 nc _ j comp hss]; rfl

/-- **The four edge sections of a surface of the family**: `section(None,0)`, `section(None,-1)`,
    `section(0,None)`, `section(-1,None)` of the model return curves of the family whose maps are the
    surface's maps on `v = 0`, `v = 1`, `u = 0`, `u = 1`. -/
theorem UnitSurf.edge_sections {tol : K} (htol : 0 < tol) {s : Obj K} {pa pb : ℕ} {Ua Ub : List K}
    {Ma Mb : List ℕ} {rat : Bool} {nc : ℕ} (h : UnitSurf s pa pb Ua Ub Ma Mb rat nc)
    (ka : UnitKnots tol pa Ua Ma) (kb : UnitKnots tol pb Ub Mb) (unwrap : Bool) :
    ∃ e0 e1 f0 f1 : Obj K,
      s.sectionSel [none, some 0] unwrap = .ok (.obj "Curve" e0)
      ∧ s.sectionSel [none, some (-1)] unwrap = .ok (.obj "Curve" e1)
      ∧ s.sectionSel [some 0, none] unwrap = .ok (.obj "Curve" f0)
      ∧ s.sectionSel [some (-1), none] unwrap = .ok (.obj "Curve" f1)
      ∧ UnitCurve e0 pa Ua Ma rat nc ∧ UnitCurve e1 pa Ua Ma rat nc
      ∧ UnitCurve f0 pb Ub Mb rat nc ∧ UnitCurve f1 pb Ub Mb rat nc
      ∧ ∀ comp, comp < nc → ∀ (sd : Side) (t : K),
          (toTP e0 1 comp).eval (fun _ => sd) (fun _ => t) = (toTP s 2 comp).eval ![sd, .right] ![t, 0]
          ∧ (toTP e1 1 comp).eval (fun _ => sd) (fun _ => t) = (toTP s 2 comp).eval ![sd, .left] ![t, 1]
          ∧ (toTP f0 1 comp).eval (fun _ => sd) (fun _ => t) = (toTP s 2 comp).eval ![.right, sd] ![0, t]
          ∧ (toTP f1 1 comp).eval (fun _ => sd) (fun _ => t) = (toTP s 2 comp).eval ![.left, sd] ![1, t] := by
  obtain ⟨ca, a0, a1⟩ := ka.endsClamped htol
  obtain ⟨cb, b0, b1⟩ := kb.endsClamped htol
  rw [← h.b0] at ca a0 a1
  rw [← h.b1] at cb b0 b1
  have p0 : (s.basis 0).periodic = -1 := by rw [h.b0]; rfl
  have p1 : (s.basis 1).periodic = -1 := by rw [h.b1]; rfl
  obtain ⟨e0, s0, eb0, _, er0, ew0, en0, ev0⟩ := surface_edge_v h.wf p0 p1 cb false unwrap
  obtain ⟨e1, s1, eb1, _, er1, ew1, en1, ev1⟩ := surface_edge_v h.wf p0 p1 cb true unwrap
  obtain ⟨f0, t0, fb0, _, fr0, fw0, fn0, fv0⟩ := surface_edge_u h.wf p0 p1 ca false unwrap
  obtain ⟨f1, t1, fb1, _, fr1, fw1, fn1, fv1⟩ := surface_edge_u h.wf p0 p1 ca true unwrap
  simp only [Bool.false_eq_true, if_false, if_true] at s0 s1 t0 t1 ev0 ev1 fv0 fv1
  rw [b0] at ev0
  rw [b1] at ev1
  rw [a0] at fv0
  rw [a1] at fv1
  refine ⟨e0, e1, f0, f1, s0, s1, t0, t1,
    ⟨ew0, eb0.trans h.b0, er0.trans h.rational, en0.trans h.ncomp⟩,
    ⟨ew1, eb1.trans h.b0, er1.trans h.rational, en1.trans h.ncomp⟩,
    ⟨fw0, fb0.trans h.b1, fr0.trans h.rational, fn0.trans h.ncomp⟩,
    ⟨fw1, fb1.trans h.b1, fr1.trans h.rational, fn1.trans h.ncomp⟩, ?_⟩
  intro comp hcomp sd t
  have hc : comp < s.ncomp := by rw [h.ncomp]; exact hcomp
  exact ⟨ev0 comp hc sd t, ev1 comp hc sd t, fv0 comp hc sd t, fv1 comp hc sd t⟩

/-- Two curves with the same number of components whose component maps agree for every side and
    parameter are the same map. -/
theorem sameMap_curve_of {a b : Obj K} (hn : b.ncomp = a.ncomp)
    (h : ∀ comp, comp < a.ncomp → ∀ (sd : Side) (t : K),
      (toTP b 1 comp).eval (fun _ => sd) (fun _ => t) = (toTP a 1 comp).eval (fun _ => sd) (fun _ => t)) :
    SameMap 1 a b := by
  refine ⟨hn, fun comp hc s u => ?_⟩
  have es : s = fun _ => s 0 := by funext d; rw [Subsingleton.elim d 0]
  have eu : u = fun _ => u 0 := by funext d; rw [Subsingleton.elim d 0]
  rw [es, eu]
  exact h comp hc (s 0) (u 0)

end C15
end Splipy
