import Splipy.Lemmas.TensorEval
import Splipy.Lemmas.LinearPrecision
import Splipy.Properties.C01

/-!
# `Obj.evaluate`: error behaviour, result entries, convexity consequences (helpers for C02)
-/

namespace Splipy

set_option linter.unusedSectionVars false

open Tensor

variable {K : Type} [Field K] [LinearOrder K] [IsStrictOrderedRing K] [FloorRing K]

/-! ## Structure of `Obj.evaluate` -/

/-- The parameters after the in-place `snap` of `_validate_domain`. -/
def Obj.snapParams (o : Obj K) (tol : K) (params : List (List K)) : List (List K) :=
  (List.zip o.bases.toList params).map (fun bp => bp.2.map (snap bp.1 tol))

/-- Some non-periodic direction has an EMPTY parameter list (`min()` of an empty sequence raises
`ValueError`) or a snapped parameter outside `[start, stop]`. -/
def Obj.OutOfDomain (o : Obj K) (tol : K) (params : List (List K)) : Prop :=
  ∃ bp ∈ List.zip o.bases.toList params, bp.1.periodic < 0 ∧
    (bp.2 = [] ∨ ∃ t ∈ bp.2, snap bp.1 tol t < bp.1.start ∨ bp.1.stop < snap bp.1 tol t)

/-- The value computed by `evaluate` once the argument checks have passed (`ps` = snapped
parameters). -/
def Obj.evalCore (o : Obj K) (tol : K) (ps : List (List K)) (tensor : Bool) : Tensor K :=
  let Ns := (List.zip o.bases.toList ps).map (fun bp => Obj.basisMat bp.1 tol bp.2 0 true)
  let res := if tensor then Obj.contractGrid Ns o.cps
             else Obj.contractPointwise Ns o.cps (ps.headD []).length
  if o.rational then Obj.project res o.dimension else res

theorem Obj.validateDomain_any_iff (o : Obj K) (tol : K) (params : List (List K)) :
    (((List.zip o.bases.toList params).map
        (fun (x : Basis K × List K) => (x.1, x.2.map (snap x.1 tol)))).any
        (fun (x : Basis K × List K) =>
          decide (x.1.periodic < 0 ∧ (x.2.isEmpty = true ∨
            (x.2.any (fun t => decide (t < x.1.start ∨ x.1.stop < t))) = true))))
      = true ↔ o.OutOfDomain tol params := by
  unfold Obj.OutOfDomain
  simp only [List.any_map, List.any_eq_true, Function.comp, decide_eq_true_eq, List.mem_map,
    List.isEmpty_iff, List.map_eq_nil_iff]
  constructor
  · rintro ⟨bp, hbp, h1, h2 | ⟨t, ⟨t0, ht0, rfl⟩, h2⟩⟩
    · exact ⟨bp, hbp, h1, Or.inl h2⟩
    · exact ⟨bp, hbp, h1, Or.inr ⟨t0, ht0, h2⟩⟩
  · rintro ⟨bp, hbp, h1, h2 | ⟨t0, ht0, h2⟩⟩
    · exact ⟨bp, hbp, h1, Or.inl h2⟩
    · exact ⟨bp, hbp, h1, Or.inr ⟨_, ⟨t0, ht0, rfl⟩, h2⟩⟩

theorem Obj.validateDomain_error (o : Obj K) (tol : K) (params : List (List K))
    (h : o.OutOfDomain tol params) : o.validateDomain tol params = .error .value := by
  unfold Obj.validateDomain
  simp only []
  rw [if_pos ((o.validateDomain_any_iff tol params).mpr h)]

theorem Obj.validateDomain_ok (o : Obj K) (tol : K) (params : List (List K))
    (h : ¬ o.OutOfDomain tol params) :
    o.validateDomain tol params = .ok (o.snapParams tol params) := by
  unfold Obj.validateDomain
  simp only []
  rw [if_neg (fun hh => h ((o.validateDomain_any_iff tol params).mp hh))]
  simp [Obj.snapParams, List.map_map, Function.comp]

theorem Obj.evaluate_error_len (o : Obj K) (tol : K) (params : List (List K)) (tensor : Bool)
    (h : tensor = false ∧ (params.map List.length).eraseDups.length ≠ 1) :
    o.evaluate tol params tensor = .error .value := by
  unfold Obj.evaluate
  rw [if_pos (by simpa using h)]

theorem Obj.evaluate_error_dom (o : Obj K) (tol : K) (params : List (List K)) (tensor : Bool)
    (h : o.OutOfDomain tol params) : o.evaluate tol params tensor = .error .value := by
  unfold Obj.evaluate
  rw [o.validateDomain_error tol params h]
  by_cases h1 : (!tensor) = true ∧ (params.map List.length).eraseDups.length ≠ 1
  · rw [if_pos h1]
  · rw [if_neg h1]

theorem Obj.evaluate_ok (o : Obj K) (tol : K) (params : List (List K)) (tensor : Bool)
    (h1 : ¬ (tensor = false ∧ (params.map List.length).eraseDups.length ≠ 1))
    (h2 : ¬ o.OutOfDomain tol params) :
    o.evaluate tol params tensor = .ok (o.evalCore tol (o.snapParams tol params) tensor) := by
  unfold Obj.evaluate
  rw [if_neg (by simpa using h1), o.validateDomain_ok tol params h2]
  rfl

/-! ## The equal-length test -/

theorem eraseDups_eq_nil_iff (l : List ℕ) : l.eraseDups = [] ↔ l = [] := by
  cases l with
  | nil => simp
  | cons a as => simp [List.eraseDups_cons]

/-- `len({len(p) for p in params}) == 1`: the list is non-empty and all entries are equal. -/
theorem eraseDups_length_eq_one_iff (l : List ℕ) :
    l.eraseDups.length = 1 ↔ l ≠ [] ∧ ∀ a ∈ l, ∀ b ∈ l, a = b := by
  cases l with
  | nil => simp
  | cons x xs =>
    rw [List.eraseDups_cons, List.length_cons]
    have h0 : (List.filter (fun b => !b == x) xs).eraseDups.length + 1 = 1
        ↔ List.filter (fun b => !b == x) xs = [] := by
      rw [Nat.add_eq_right, List.length_eq_zero_iff, eraseDups_eq_nil_iff]
    rw [h0, List.filter_eq_nil_iff]
    constructor
    · intro h
      refine ⟨by simp, ?_⟩
      have hx : ∀ a ∈ x :: xs, a = x := by
        intro a ha
        rcases List.mem_cons.mp ha with rfl | ha
        · rfl
        · have := h a ha
          simpa using this
      intro a ha b hb
      rw [hx a ha, hx b hb]
    · rintro ⟨_, h⟩ a ha
      have := h a (List.mem_cons_of_mem _ ha) x List.mem_cons_self
      simp [this]

/-! ## Convex combinations -/

theorem convex_sum_le (n : ℕ) (w x : ℕ → K) (hi : K) (hw : ∀ j, j < n → 0 ≤ w j)
    (hs : ∑ j ∈ Finset.range n, w j = 1) (hx : ∀ j, j < n → x j ≤ hi) :
    ∑ j ∈ Finset.range n, w j * x j ≤ hi := by
  calc ∑ j ∈ Finset.range n, w j * x j ≤ ∑ j ∈ Finset.range n, w j * hi := by
        apply Finset.sum_le_sum
        intro j hj
        rw [Finset.mem_range] at hj
        exact mul_le_mul_of_nonneg_left (hx j hj) (hw j hj)
    _ = hi := by rw [← Finset.sum_mul, hs, one_mul]

theorem le_convex_sum (n : ℕ) (w x : ℕ → K) (lo : K) (hw : ∀ j, j < n → 0 ≤ w j)
    (hs : ∑ j ∈ Finset.range n, w j = 1) (hx : ∀ j, j < n → lo ≤ x j) :
    lo ≤ ∑ j ∈ Finset.range n, w j * x j := by
  calc lo = ∑ j ∈ Finset.range n, w j * lo := by rw [← Finset.sum_mul, hs, one_mul]
    _ ≤ ∑ j ∈ Finset.range n, w j * x j := by
        apply Finset.sum_le_sum
        intro j hj
        rw [Finset.mem_range] at hj
        exact mul_le_mul_of_nonneg_left (hx j hj) (hw j hj)

theorem convex_sum_pos (n : ℕ) (w x : ℕ → K) (hw : ∀ j, j < n → 0 ≤ w j)
    (hs : ∑ j ∈ Finset.range n, w j = 1) (hx : ∀ j, j < n → 0 < x j) :
    0 < ∑ j ∈ Finset.range n, w j * x j := by
  have hex : ∃ j ∈ Finset.range n, 0 < w j := by
    by_contra hc
    push Not at hc
    have : ∑ j ∈ Finset.range n, w j = 0 := by
      apply Finset.sum_eq_zero
      intro j hj
      exact le_antisymm (hc j hj) (hw j (Finset.mem_range.mp hj))
    rw [this] at hs
    exact zero_ne_one hs
  obtain ⟨j, hj, hpos⟩ := hex
  apply Finset.sum_pos'
  · intro k hk
    rw [Finset.mem_range] at hk
    exact mul_nonneg (hw k hk) (hx k hk).le
  · exact ⟨j, hj, mul_pos hpos (hx j (Finset.mem_range.mp hj))⟩

omit [LinearOrder K] [IsStrictOrderedRing K] in
theorem sum2_nest (n1 n2 : ℕ) (w1 w2 : ℕ → K) (x : ℕ → ℕ → K) :
    ∑ j1 ∈ Finset.range n1, ∑ j2 ∈ Finset.range n2, w1 j1 * w2 j2 * x j1 j2
      = ∑ j1 ∈ Finset.range n1, w1 j1 * ∑ j2 ∈ Finset.range n2, w2 j2 * x j1 j2 := by
  apply Finset.sum_congr rfl
  intro j1 _
  rw [Finset.mul_sum]
  apply Finset.sum_congr rfl
  intro j2 _
  ring

omit [LinearOrder K] [IsStrictOrderedRing K] in
theorem sum3_nest (n1 n2 n3 : ℕ) (w1 w2 w3 : ℕ → K) (x : ℕ → ℕ → ℕ → K) :
    ∑ j1 ∈ Finset.range n1, ∑ j2 ∈ Finset.range n2, ∑ j3 ∈ Finset.range n3,
        w1 j1 * w2 j2 * w3 j3 * x j1 j2 j3
      = ∑ j1 ∈ Finset.range n1, w1 j1 * ∑ j2 ∈ Finset.range n2, w2 j2 *
          ∑ j3 ∈ Finset.range n3, w3 j3 * x j1 j2 j3 := by
  apply Finset.sum_congr rfl
  intro j1 _
  rw [Finset.mul_sum]
  apply Finset.sum_congr rfl
  intro j2 _
  rw [Finset.mul_sum, Finset.mul_sum]
  apply Finset.sum_congr rfl
  intro j3 _
  ring

theorem convex2_sum_le (n1 n2 : ℕ) (w1 w2 : ℕ → K) (x : ℕ → ℕ → K) (hi : K)
    (hw1 : ∀ j, j < n1 → 0 ≤ w1 j) (hs1 : ∑ j ∈ Finset.range n1, w1 j = 1)
    (hw2 : ∀ j, j < n2 → 0 ≤ w2 j) (hs2 : ∑ j ∈ Finset.range n2, w2 j = 1)
    (hx : ∀ j1 j2, j1 < n1 → j2 < n2 → x j1 j2 ≤ hi) :
    ∑ j1 ∈ Finset.range n1, ∑ j2 ∈ Finset.range n2, w1 j1 * w2 j2 * x j1 j2 ≤ hi := by
  rw [sum2_nest]
  exact convex_sum_le n1 w1 _ hi hw1 hs1
    (fun j1 h1 => convex_sum_le n2 w2 _ hi hw2 hs2 (fun j2 h2 => hx j1 j2 h1 h2))

theorem le_convex2_sum (n1 n2 : ℕ) (w1 w2 : ℕ → K) (x : ℕ → ℕ → K) (lo : K)
    (hw1 : ∀ j, j < n1 → 0 ≤ w1 j) (hs1 : ∑ j ∈ Finset.range n1, w1 j = 1)
    (hw2 : ∀ j, j < n2 → 0 ≤ w2 j) (hs2 : ∑ j ∈ Finset.range n2, w2 j = 1)
    (hx : ∀ j1 j2, j1 < n1 → j2 < n2 → lo ≤ x j1 j2) :
    lo ≤ ∑ j1 ∈ Finset.range n1, ∑ j2 ∈ Finset.range n2, w1 j1 * w2 j2 * x j1 j2 := by
  rw [sum2_nest]
  exact le_convex_sum n1 w1 _ lo hw1 hs1
    (fun j1 h1 => le_convex_sum n2 w2 _ lo hw2 hs2 (fun j2 h2 => hx j1 j2 h1 h2))

theorem convex2_sum_pos (n1 n2 : ℕ) (w1 w2 : ℕ → K) (x : ℕ → ℕ → K)
    (hw1 : ∀ j, j < n1 → 0 ≤ w1 j) (hs1 : ∑ j ∈ Finset.range n1, w1 j = 1)
    (hw2 : ∀ j, j < n2 → 0 ≤ w2 j) (hs2 : ∑ j ∈ Finset.range n2, w2 j = 1)
    (hx : ∀ j1 j2, j1 < n1 → j2 < n2 → 0 < x j1 j2) :
    0 < ∑ j1 ∈ Finset.range n1, ∑ j2 ∈ Finset.range n2, w1 j1 * w2 j2 * x j1 j2 := by
  rw [sum2_nest]
  exact convex_sum_pos n1 w1 _ hw1 hs1
    (fun j1 h1 => convex_sum_pos n2 w2 _ hw2 hs2 (fun j2 h2 => hx j1 j2 h1 h2))

theorem convex3_sum_le (n1 n2 n3 : ℕ) (w1 w2 w3 : ℕ → K) (x : ℕ → ℕ → ℕ → K) (hi : K)
    (hw1 : ∀ j, j < n1 → 0 ≤ w1 j) (hs1 : ∑ j ∈ Finset.range n1, w1 j = 1)
    (hw2 : ∀ j, j < n2 → 0 ≤ w2 j) (hs2 : ∑ j ∈ Finset.range n2, w2 j = 1)
    (hw3 : ∀ j, j < n3 → 0 ≤ w3 j) (hs3 : ∑ j ∈ Finset.range n3, w3 j = 1)
    (hx : ∀ j1 j2 j3, j1 < n1 → j2 < n2 → j3 < n3 → x j1 j2 j3 ≤ hi) :
    ∑ j1 ∈ Finset.range n1, ∑ j2 ∈ Finset.range n2, ∑ j3 ∈ Finset.range n3,
        w1 j1 * w2 j2 * w3 j3 * x j1 j2 j3 ≤ hi := by
  rw [sum3_nest]
  exact convex_sum_le n1 w1 _ hi hw1 hs1
    (fun j1 h1 => convex_sum_le n2 w2 _ hi hw2 hs2
      (fun j2 h2 => convex_sum_le n3 w3 _ hi hw3 hs3 (fun j3 h3 => hx j1 j2 j3 h1 h2 h3)))

theorem le_convex3_sum (n1 n2 n3 : ℕ) (w1 w2 w3 : ℕ → K) (x : ℕ → ℕ → ℕ → K) (lo : K)
    (hw1 : ∀ j, j < n1 → 0 ≤ w1 j) (hs1 : ∑ j ∈ Finset.range n1, w1 j = 1)
    (hw2 : ∀ j, j < n2 → 0 ≤ w2 j) (hs2 : ∑ j ∈ Finset.range n2, w2 j = 1)
    (hw3 : ∀ j, j < n3 → 0 ≤ w3 j) (hs3 : ∑ j ∈ Finset.range n3, w3 j = 1)
    (hx : ∀ j1 j2 j3, j1 < n1 → j2 < n2 → j3 < n3 → lo ≤ x j1 j2 j3) :
    lo ≤ ∑ j1 ∈ Finset.range n1, ∑ j2 ∈ Finset.range n2, ∑ j3 ∈ Finset.range n3,
        w1 j1 * w2 j2 * w3 j3 * x j1 j2 j3 := by
  rw [sum3_nest]
  exact le_convex_sum n1 w1 _ lo hw1 hs1
    (fun j1 h1 => le_convex_sum n2 w2 _ lo hw2 hs2
      (fun j2 h2 => le_convex_sum n3 w3 _ lo hw3 hs3 (fun j3 h3 => hx j1 j2 j3 h1 h2 h3)))

theorem convex3_sum_pos (n1 n2 n3 : ℕ) (w1 w2 w3 : ℕ → K) (x : ℕ → ℕ → ℕ → K)
    (hw1 : ∀ j, j < n1 → 0 ≤ w1 j) (hs1 : ∑ j ∈ Finset.range n1, w1 j = 1)
    (hw2 : ∀ j, j < n2 → 0 ≤ w2 j) (hs2 : ∑ j ∈ Finset.range n2, w2 j = 1)
    (hw3 : ∀ j, j < n3 → 0 ≤ w3 j) (hs3 : ∑ j ∈ Finset.range n3, w3 j = 1)
    (hx : ∀ j1 j2 j3, j1 < n1 → j2 < n2 → j3 < n3 → 0 < x j1 j2 j3) :
    0 < ∑ j1 ∈ Finset.range n1, ∑ j2 ∈ Finset.range n2, ∑ j3 ∈ Finset.range n3,
        w1 j1 * w2 j2 * w3 j3 * x j1 j2 j3 := by
  rw [sum3_nest]
  exact convex_sum_pos n1 w1 _ hw1 hs1
    (fun j1 h1 => convex_sum_pos n2 w2 _ hw2 hs2
      (fun j2 h2 => convex_sum_pos n3 w3 _ hw3 hs3 (fun j3 h3 => hx j1 j2 j3 h1 h2 h3)))

/-! ## `foldl min` / `foldl max` bounds (for `bounding_box`) -/

omit [Field K] [IsStrictOrderedRing K] in
theorem foldl_min_le (l : List K) (init : K) :
    l.foldl min init ≤ init ∧ ∀ x ∈ l, l.foldl min init ≤ x := by
  induction l generalizing init with
  | nil => simp
  | cons a l ih =>
    simp only [List.foldl_cons]
    obtain ⟨h1, h2⟩ := ih (min init a)
    refine ⟨le_trans h1 (min_le_left _ _), ?_⟩
    intro x hx
    rcases List.mem_cons.mp hx with rfl | hx
    · exact le_trans h1 (min_le_right _ _)
    · exact h2 x hx

omit [Field K] [IsStrictOrderedRing K] in
theorem le_foldl_max (l : List K) (init : K) :
    init ≤ l.foldl max init ∧ ∀ x ∈ l, x ≤ l.foldl max init := by
  induction l generalizing init with
  | nil => simp
  | cons a l ih =>
    simp only [List.foldl_cons]
    obtain ⟨h1, h2⟩ := ih (max init a)
    refine ⟨le_trans (le_max_left _ _) h1, ?_⟩
    intro x hx
    rcases List.mem_cons.mp hx with rfl | hx
    · exact le_trans (le_max_right _ _) h1
    · exact h2 x hx


section BBox

theorem boundingBox_spec (o : Obj K) {c pI : ℕ} (hc : c < o.dimension)
    (hp : pI < o.cps.size / o.ncomp) :
    ((o.boundingBox).getD c (0, 0)).1 ≤ o.cps.get (pI * o.ncomp + c) ∧
      o.cps.get (pI * o.ncomp + c) ≤ ((o.boundingBox).getD c (0, 0)).2 := by
  unfold Obj.boundingBox
  simp only []
  rw [map_range_getD _ _ hc]
  simp only []
  have hmem : o.cps.get (pI * o.ncomp + c)
      ∈ (List.range (o.cps.size / o.ncomp)).map (fun pI => o.cps.get (pI * o.ncomp + c)) :=
    List.mem_map.mpr ⟨pI, List.mem_range.mpr hp, rfl⟩
  exact ⟨(foldl_min_le _ _).2 _ hmem, (le_foldl_max _ _).2 _ hmem⟩

end BBox

/-! ## Rows of the basis matrices -/

/-- The number the code uses for basis function `j` at the parameter `u` of an `evaluate` call:
`_validate_domain` snaps `u`, then `b.evaluate` (which snaps again) is called with `d = 0`,
`from_right = True`. -/
def Basis.rowVal (b : Basis K) (tol u : K) (j : ℕ) : K :=
  (b.evaluate tol (snap b tol u) 0 true).getD j 0

/-- The mathematical value of basis function `j` at `u` (specification `B`): for a non-periodic
basis the `j`-th B-spline (right-continuous, at the domain end the limit from inside); for a
periodic basis the sum of all wrapped images `i ≡ j (mod num_functions)` at the wrapped point. -/
def Basis.specRow (b : Basis K) (u : K) (j : ℕ) : K :=
  if b.periodic = -1 then B (effSide b u true) b.kn (b.order - 1) j u
  else ∑ i ∈ (Finset.range b.nAll).filter (fun i => i % b.numFunctions = j),
      B (effSide b (b.wrap u) true) b.kn (b.order - 1) i (b.wrap u)

/-- `u` is an admissible evaluation parameter: all tolerance comparisons are exact at `u` (and at
the wrapped point for periodic bases), and for a non-periodic basis `u` lies in the domain. -/
def Basis.Admissible (b : Basis K) (tol u : K) : Prop :=
  b.ExactAt tol u ∧ (b.periodic = -1 → b.start ≤ u ∧ u ≤ b.stop) ∧
    (0 ≤ b.periodic → b.ExactAt tol (b.wrap u))

theorem Basis.specRow_nonperiodic {b : Basis K} (h : b.periodic = -1) (u : K) (j : ℕ) :
    b.specRow u j = B (effSide b u true) b.kn (b.order - 1) j u := by
  unfold Basis.specRow; rw [if_pos h]

theorem Basis.specRow_periodic {b : Basis K} (h : 0 ≤ b.periodic) (u : K) (j : ℕ) :
    b.specRow u j = ∑ i ∈ (Finset.range b.nAll).filter (fun i => i % b.numFunctions = j),
      B (effSide b (b.wrap u) true) b.kn (b.order - 1) i (b.wrap u) := by
  unfold Basis.specRow; rw [if_neg (by omega)]

theorem periodicEff_true (b : Basis K) (t : K) : periodicEff b t true = (t, effSide b t true) := by
  unfold periodicEff
  rw [if_neg (by simp)]

theorem Basis.Admissible.snap_eq {b : Basis K} {tol u : K} (h : b.Admissible tol u) (htol : 0 < tol) :
    snap b tol u = u := snap_of_exact b htol h.1

theorem Basis.rowVal_eq_specRow {b : Basis K} (hv : b.Valid) {tol u : K} (htol : 0 < tol)
    (h : b.Admissible tol u) {j : ℕ} (hj : j < b.numFunctions) :
    b.rowVal tol u j = b.specRow u j := by
  have hp := hv.order_pos
  unfold Basis.rowVal
  rw [h.snap_eq htol]
  by_cases hper : b.periodic = -1
  · rw [Basis.specRow_nonperiodic hper,
      C01_value_deriv_open hv hper htol h.1 (h.2.1 hper).1 (h.2.1 hper).2 (by simp) (by omega) hj,
      dB_zero]
  · have hper' : 0 ≤ b.periodic := by have := hv.periodic_ge; omega
    rw [Basis.specRow_periodic hper',
      C01_value_deriv_periodic_any_real hv hper' htol h.1 (h.2.2 hper') true (by omega) hj,
      periodicEff_true]
    exact Finset.sum_congr rfl (fun i _ => dB_zero _ _ _ _ _)

theorem Basis.rowVal_nonneg {b : Basis K} (hv : b.Valid) {tol u : K} (htol : 0 < tol)
    (h : b.Admissible tol u) (j : ℕ) : 0 ≤ b.rowVal tol u j := by
  unfold Basis.rowVal
  rw [h.snap_eq htol]
  exact C01_nonneg hv htol h.1 h.2.2 true j

theorem Basis.rowVal_sum {b : Basis K} (hv : b.Valid) {tol u : K} (htol : 0 < tol)
    (h : b.Admissible tol u) : ∑ j ∈ Finset.range b.numFunctions, b.rowVal tol u j = 1 := by
  unfold Basis.rowVal
  rw [h.snap_eq htol]
  by_cases hper : b.periodic = -1
  · exact C01_partition_of_unity hv htol h.1 (h.2.1 hper).1 (h.2.1 hper).2 true
      (fun _ => by simp)
  · have hper' : 0 ≤ b.periodic := by have := hv.periodic_ge; omega
    exact C01_partition_of_unity_periodic_any_real hv hper' htol h.1 (h.2.2 hper') true

theorem basisMat_rows (b : Basis K) (tol : K) (ps : List K) (d : ℕ) (fr : Bool) :
    (Obj.basisMat b tol ps d fr).size = ps.length := by
  simp [Obj.basisMat]

theorem basisMat_snap_entry (b : Basis K) (tol : K) (us : List K) {i : ℕ} (hi : i < us.length)
    (j : ℕ) :
    ((Obj.basisMat b tol (us.map (snap b tol)) 0 true).getD i #[]).getD j 0
      = b.rowVal tol (us.getD i 0) j := by
  unfold Obj.basisMat Basis.rowVal
  rw [Array.getD_eq_getD_getElem?]
  simp [hi, List.getD_eq_getElem?_getD]


/-! ## Surfaces (`pardim = 2`) -/

/-- Homogeneous (before the rational division) result of a surface evaluation. -/
def Obj.hom2 (o : Obj K) (b1 b2 : Basis K) (tol : K) (us vs : List K) (tensor : Bool) : Tensor K :=
  let Ns := [Obj.basisMat b1 tol (us.map (snap b1 tol)) 0 true,
             Obj.basisMat b2 tol (vs.map (snap b2 tol)) 0 true]
  if tensor then Obj.contractGrid Ns o.cps else Obj.contractPointwise Ns o.cps us.length

theorem Obj.outOfDomain2_iff {o : Obj K} {b1 b2 : Basis K} (hb : o.bases = #[b1, b2]) (tol : K)
    (us vs : List K) :
    o.OutOfDomain tol [us, vs] ↔
      (b1.periodic < 0 ∧
        (us = [] ∨ ∃ t ∈ us, snap b1 tol t < b1.start ∨ b1.stop < snap b1 tol t)) ∨
      (b2.periodic < 0 ∧
        (vs = [] ∨ ∃ t ∈ vs, snap b2 tol t < b2.start ∨ b2.stop < snap b2 tol t)) := by
  simp [Obj.OutOfDomain, hb]

theorem Obj.evalCore2 {o : Obj K} {b1 b2 : Basis K} (hb : o.bases = #[b1, b2]) (tol : K)
    (us vs : List K) (tensor : Bool) :
    o.evalCore tol (o.snapParams tol [us, vs]) tensor
      = if o.rational then Obj.project (o.hom2 b1 b2 tol us vs tensor) o.dimension
        else o.hom2 b1 b2 tol us vs tensor := by
  simp [Obj.evalCore, Obj.snapParams, Obj.hom2, hb]

theorem Obj.hom2_grid_get {o : Obj K} (b1 b2 : Basis K) {n1 n2 nc : ℕ}
    (hs : o.cps.shape = [n1, n2, nc]) (tol : K) (us vs : List K) {i1 i2 c : ℕ}
    (h1 : i1 < us.length) (h2 : i2 < vs.length) (hc : c < nc) :
    (o.hom2 b1 b2 tol us vs true).get ((i1 * vs.length + i2) * nc + c)
      = ∑ j1 ∈ Finset.range n1, ∑ j2 ∈ Finset.range n2,
          b1.rowVal tol (us.getD i1 0) j1 * b2.rowVal tol (vs.getD i2 0) j2
            * o.cps.get ((j1 * n2 + j2) * nc + c) := by
  unfold Obj.hom2
  simp only [if_true]
  have e := contractGrid2_get (Obj.basisMat b1 tol (us.map (snap b1 tol)) 0 true)
    (Obj.basisMat b2 tol (vs.map (snap b2 tol)) 0 true) o.cps hs (i1 := i1) (i2 := i2) (c := c)
    (by rw [basisMat_rows, List.length_map]; exact h1)
    (by rw [basisMat_rows, List.length_map]; exact h2) hc
  rw [basisMat_rows, List.length_map] at e
  rw [e]
  apply Finset.sum_congr rfl; intro j1 _
  apply Finset.sum_congr rfl; intro j2 _
  rw [basisMat_snap_entry b1 tol us h1, basisMat_snap_entry b2 tol vs h2]

theorem Obj.hom2_grid_size {o : Obj K} (b1 b2 : Basis K) {n1 n2 nc : ℕ}
    (hs : o.cps.shape = [n1, n2, nc]) (tol : K) (us vs : List K) :
    (o.hom2 b1 b2 tol us vs true).shape = [us.length, vs.length, nc] ∧
      (o.hom2 b1 b2 tol us vs true).data.size = us.length * vs.length * nc := by
  unfold Obj.hom2
  simp only [if_true]
  have e := contractGrid2_size (Obj.basisMat b1 tol (us.map (snap b1 tol)) 0 true)
    (Obj.basisMat b2 tol (vs.map (snap b2 tol)) 0 true) o.cps hs
  simpa [basisMat_rows] using e

theorem Obj.hom2_pw_get {o : Obj K} (b1 b2 : Basis K) {n1 n2 nc : ℕ}
    (hs : o.cps.shape = [n1, n2, nc]) (tol : K) (us vs : List K) (hlen : vs.length = us.length)
    {i c : ℕ} (hi : i < us.length) (hc : c < nc) :
    (o.hom2 b1 b2 tol us vs false).get (i * nc + c)
      = ∑ j1 ∈ Finset.range n1, ∑ j2 ∈ Finset.range n2,
          b1.rowVal tol (us.getD i 0) j1 * b2.rowVal tol (vs.getD i 0) j2
            * o.cps.get ((j1 * n2 + j2) * nc + c) := by
  unfold Obj.hom2
  simp only [Bool.false_eq_true, if_false]
  rw [contractPointwise2_get _ _ _ _ hs hi hc]
  apply Finset.sum_congr rfl; intro j1 _
  apply Finset.sum_congr rfl; intro j2 _
  rw [basisMat_snap_entry b1 tol us hi, basisMat_snap_entry b2 tol vs (by omega)]

theorem Obj.hom2_pw_size {o : Obj K} (b1 b2 : Basis K) {n1 n2 nc : ℕ}
    (hs : o.cps.shape = [n1, n2, nc]) (tol : K) (us vs : List K) :
    (o.hom2 b1 b2 tol us vs false).shape = [us.length, nc] ∧
      (o.hom2 b1 b2 tol us vs false).data.size = us.length * nc := by
  unfold Obj.hom2
  simp only [Bool.false_eq_true, if_false]
  apply contractPointwise_size_of_shape
  · rw [hs]; rfl
  · intro k _
    have := (contractGrid2_size
      #[(Obj.basisMat b1 tol (us.map (snap b1 tol)) 0 true).getD k #[]]
      #[(Obj.basisMat b2 tol (vs.map (snap b2 tol)) 0 true).getD k #[]] o.cps hs).2
    simpa using this

theorem Obj.evaluate2_ok {o : Obj K} {b1 b2 : Basis K} (hb : o.bases = #[b1, b2]) (tol : K)
    (us vs : List K) (tensor : Bool) (hlen : tensor = false → vs.length = us.length)
    (hdom : ¬ o.OutOfDomain tol [us, vs]) :
    o.evaluate tol [us, vs] tensor
      = .ok (if o.rational then Obj.project (o.hom2 b1 b2 tol us vs tensor) o.dimension
             else o.hom2 b1 b2 tol us vs tensor) := by
  rw [o.evaluate_ok tol _ tensor _ hdom, Obj.evalCore2 hb]
  rintro ⟨ht, hne⟩
  apply hne
  rw [eraseDups_length_eq_one_iff]
  refine ⟨by simp, ?_⟩
  have := hlen ht
  intro a ha b hb'
  simp only [List.map_cons, List.map_nil, List.mem_cons, List.not_mem_nil, or_false] at ha hb'
  rcases ha with rfl | rfl <;> rcases hb' with rfl | rfl <;> omega


theorem Basis.Admissible.not_out {b : Basis K} (hv : b.Valid) {tol t : K} (htol : 0 < tol)
    (h : b.Admissible tol t) :
    ¬ (b.periodic < 0 ∧ (snap b tol t < b.start ∨ b.stop < snap b tol t)) := by
  rintro ⟨hper, hout⟩
  have hper' : b.periodic = -1 := by have := hv.periodic_ge; omega
  rw [h.snap_eq htol] at hout
  obtain ⟨h1, h2⟩ := h.2.1 hper'
  rcases hout with h3 | h3
  · exact absurd h1 (not_le.mpr h3)
  · exact absurd h2 (not_le.mpr h3)

theorem Obj.dimension_of_shape {o : Obj K} {pre : List ℕ} {nc : ℕ}
    (hs : o.cps.shape = pre ++ [nc]) :
    o.ncomp = nc ∧ o.dimension = nc - (if o.rational then 1 else 0) := by
  have : o.ncomp = nc := by unfold Obj.ncomp; rw [hs]; simp
  exact ⟨this, by unfold Obj.dimension; rw [this]⟩

theorem Obj.not_outOfDomain2 {o : Obj K} {b1 b2 : Basis K} (hb : o.bases = #[b1, b2])
    (hv1 : b1.Valid) (hv2 : b2.Valid) {tol : K} (htol : 0 < tol) {us vs : List K}
    (hus : ∀ u ∈ us, b1.Admissible tol u) (hvs : ∀ v ∈ vs, b2.Admissible tol v)
    (hne1 : b1.periodic < 0 → us ≠ [] := by (first | assumption | (simp; done) | skip))
    (hne2 : b2.periodic < 0 → vs ≠ [] := by (first | assumption | (simp; done) | skip)) :
    ¬ o.OutOfDomain tol [us, vs] := by
  rw [Obj.outOfDomain2_iff hb]
  rintro (⟨h1, h0 | ⟨t, ht, h2⟩⟩ | ⟨h1, h0 | ⟨t, ht, h2⟩⟩)
  · exact hne1 h1 h0
  · exact Basis.Admissible.not_out hv1 htol (hus t ht) ⟨h1, h2⟩
  · exact hne2 h1 h0
  · exact Basis.Admissible.not_out hv2 htol (hvs t ht) ⟨h1, h2⟩

/-- Entry formula of `project` on a 3-d array `m1 × m2 × (dim+1)`. -/
theorem project_get3 (t : Tensor K) {m1 m2 dim : ℕ} (hs : t.shape = [m1, m2, dim + 1])
    {i1 i2 c : ℕ} (h1 : i1 < m1) (h2 : i2 < m2) (hc : c < dim) :
    (Obj.project t dim).get ((i1 * m2 + i2) * dim + c)
      = t.get ((i1 * m2 + i2) * (dim + 1) + c) / t.get ((i1 * m2 + i2) * (dim + 1) + dim) := by
  apply project_get t dim (dim + 1) (by rw [hs]; rfl) (by omega) _ hc
  have : t.size = m1 * m2 * (dim + 1) := by simp [Tensor.size, hs, prod]
  rw [this, Nat.mul_div_cancel _ (by omega)]
  exact pair_lt h1 h2

theorem project_size3 (t : Tensor K) {m1 m2 dim : ℕ} (hs : t.shape = [m1, m2, dim + 1]) :
    (Obj.project t dim).shape = [m1, m2, dim] ∧
      (Obj.project t dim).data.size = m1 * m2 * dim := by
  refine ⟨by rw [project_shape, hs]; rfl, ?_⟩
  rw [project_data_size]
  have : t.size = m1 * m2 * (dim + 1) := by simp [Tensor.size, hs, prod]
  rw [this, hs]
  simp


theorem size_of_shape_append (t : Tensor K) {pre : List ℕ} {nc : ℕ} (hs : t.shape = pre ++ [nc])
    (hnc : 0 < nc) : t.size / nc = prod pre ∧ t.shape.getLastD 1 = nc := by
  constructor
  · rw [Tensor.size, hs, prod_append, prod_cons, prod_nil, Nat.mul_one, Nat.mul_div_cancel _ hnc]
  · rw [hs]; simp

/-- Entry formula of `project` for an array of shape `pre ++ [dim+1]`. -/
theorem project_get_pre (t : Tensor K) {pre : List ℕ} {dim : ℕ} (hs : t.shape = pre ++ [dim + 1])
    {pI c : ℕ} (hp : pI < prod pre) (hc : c < dim) :
    (Obj.project t dim).get (pI * dim + c)
      = t.get (pI * (dim + 1) + c) / t.get (pI * (dim + 1) + dim) := by
  obtain ⟨e1, e2⟩ := size_of_shape_append t hs (by omega)
  exact project_get t dim (dim + 1) e2 (by omega) (by rw [e1]; exact hp) hc

theorem project_size_pre (t : Tensor K) {pre : List ℕ} {dim : ℕ} (hs : t.shape = pre ++ [dim + 1]) :
    (Obj.project t dim).shape = pre ++ [dim] ∧
      (Obj.project t dim).data.size = prod pre * dim := by
  obtain ⟨e1, e2⟩ := size_of_shape_append t hs (by omega)
  refine ⟨by rw [project_shape, hs]; simp, ?_⟩
  rw [project_data_size, e2, e1]

theorem project_get2 (t : Tensor K) {m dim : ℕ} (hs : t.shape = [m, dim + 1])
    {i c : ℕ} (hi : i < m) (hc : c < dim) :
    (Obj.project t dim).get (i * dim + c)
      = t.get (i * (dim + 1) + c) / t.get (i * (dim + 1) + dim) :=
  project_get_pre t (pre := [m]) hs (by simpa [prod] using hi) hc

theorem project_size2 (t : Tensor K) {m dim : ℕ} (hs : t.shape = [m, dim + 1]) :
    (Obj.project t dim).shape = [m, dim] ∧ (Obj.project t dim).data.size = m * dim := by
  have := project_size_pre t (pre := [m]) hs
  simpa [prod] using this

theorem project_get4 (t : Tensor K) {m1 m2 m3 dim : ℕ} (hs : t.shape = [m1, m2, m3, dim + 1])
    {i1 i2 i3 c : ℕ} (h1 : i1 < m1) (h2 : i2 < m2) (h3 : i3 < m3) (hc : c < dim) :
    (Obj.project t dim).get (((i1 * m2 + i2) * m3 + i3) * dim + c)
      = t.get (((i1 * m2 + i2) * m3 + i3) * (dim + 1) + c)
        / t.get (((i1 * m2 + i2) * m3 + i3) * (dim + 1) + dim) :=
  project_get_pre t (pre := [m1, m2, m3]) hs
    (by have := pair_lt (pair_lt h1 h2) h3; simpa [prod] using this) hc

theorem project_size4 (t : Tensor K) {m1 m2 m3 dim : ℕ} (hs : t.shape = [m1, m2, m3, dim + 1]) :
    (Obj.project t dim).shape = [m1, m2, m3, dim] ∧
      (Obj.project t dim).data.size = m1 * m2 * m3 * dim := by
  have := project_size_pre t (pre := [m1, m2, m3]) hs
  simpa [prod] using this

/-- Non-rational surface on a tensor grid: the result entries in terms of the code's rows. -/
theorem Obj.evaluate2_grid_nonrational {o : Obj K} {b1 b2 : Basis K} (hb : o.bases = #[b1, b2])
    {n1 n2 nc : ℕ} (hs : o.cps.shape = [n1, n2, nc]) (hr : o.rational = false) (tol : K)
    (us vs : List K) (hdom : ¬ o.OutOfDomain tol [us, vs]) :
    ∃ res, o.evaluate tol [us, vs] true = .ok res ∧
      res.shape = [us.length, vs.length, nc] ∧ res.data.size = us.length * vs.length * nc ∧
      ∀ i1 i2 c, i1 < us.length → i2 < vs.length → c < nc →
        res.get ((i1 * vs.length + i2) * nc + c)
          = ∑ j1 ∈ Finset.range n1, ∑ j2 ∈ Finset.range n2,
              b1.rowVal tol (us.getD i1 0) j1 * b2.rowVal tol (vs.getD i2 0) j2
                * o.cps.get ((j1 * n2 + j2) * nc + c) := by
  refine ⟨_, Obj.evaluate2_ok hb tol us vs true (by simp) hdom, ?_⟩
  simp only [hr, Bool.false_eq_true, if_false]
  exact ⟨(Obj.hom2_grid_size b1 b2 hs tol us vs).1, (Obj.hom2_grid_size b1 b2 hs tol us vs).2,
    fun i1 i2 c h1 h2 hc => Obj.hom2_grid_get b1 b2 hs tol us vs h1 h2 hc⟩

/-- Rational surface on a tensor grid: numerator / denominator with the same rows. -/
theorem Obj.evaluate2_grid_rational {o : Obj K} {b1 b2 : Basis K} (hb : o.bases = #[b1, b2])
    {n1 n2 dim : ℕ} (hs : o.cps.shape = [n1, n2, dim + 1]) (hr : o.rational = true) (tol : K)
    (us vs : List K) (hdom : ¬ o.OutOfDomain tol [us, vs]) :
    ∃ res, o.evaluate tol [us, vs] true = .ok res ∧
      res.shape = [us.length, vs.length, dim] ∧ res.data.size = us.length * vs.length * dim ∧
      ∀ i1 i2 c, i1 < us.length → i2 < vs.length → c < dim →
        res.get ((i1 * vs.length + i2) * dim + c)
          = (∑ j1 ∈ Finset.range n1, ∑ j2 ∈ Finset.range n2,
              b1.rowVal tol (us.getD i1 0) j1 * b2.rowVal tol (vs.getD i2 0) j2
                * o.cps.get ((j1 * n2 + j2) * (dim + 1) + c))
            / (∑ j1 ∈ Finset.range n1, ∑ j2 ∈ Finset.range n2,
              b1.rowVal tol (us.getD i1 0) j1 * b2.rowVal tol (vs.getD i2 0) j2
                * o.cps.get ((j1 * n2 + j2) * (dim + 1) + dim)) := by
  refine ⟨_, Obj.evaluate2_ok hb tol us vs true (by simp) hdom, ?_⟩
  have hdim : o.dimension = dim := by
    have := (Obj.dimension_of_shape (o := o) (pre := [n1, n2]) hs).2
    rw [this, hr]; simp
  have hsz := Obj.hom2_grid_size b1 b2 hs tol us vs
  simp only [hr, if_true, hdim]
  refine ⟨(project_size3 _ hsz.1).1, (project_size3 _ hsz.1).2, ?_⟩
  intro i1 i2 c h1 h2 hc
  rw [project_get3 _ hsz.1 h1 h2 hc, Obj.hom2_grid_get b1 b2 hs tol us vs h1 h2 (by omega),
    Obj.hom2_grid_get b1 b2 hs tol us vs h1 h2 (by omega)]

/-- `tensor=False` is the diagonal of the tensor grid (surfaces, rational or not). -/
theorem Obj.evaluate2_pointwise_diag {o : Obj K} {b1 b2 : Basis K} (hb : o.bases = #[b1, b2])
    {n1 n2 nc : ℕ} (hs : o.cps.shape = [n1, n2, nc]) (hnc : o.rational = true → 1 ≤ nc) (tol : K)
    (us vs : List K) (hlen : vs.length = us.length) (hdom : ¬ o.OutOfDomain tol [us, vs]) :
    ∃ rg rp, o.evaluate tol [us, vs] true = .ok rg ∧ o.evaluate tol [us, vs] false = .ok rp ∧
      rp.shape = [us.length, o.dimension] ∧ rp.data.size = us.length * o.dimension ∧
      ∀ i c, i < us.length → c < o.dimension →
        rp.get (i * o.dimension + c) = rg.get ((i * vs.length + i) * o.dimension + c) := by
  refine ⟨_, _, Obj.evaluate2_ok hb tol us vs true (by simp) hdom,
    Obj.evaluate2_ok hb tol us vs false (fun _ => hlen) hdom, ?_⟩
  have hg := Obj.hom2_grid_size b1 b2 hs tol us vs
  have hp := Obj.hom2_pw_size b1 b2 hs tol us vs
  have hdim := (Obj.dimension_of_shape (o := o) (pre := [n1, n2]) hs).2
  cases hrat : o.rational with
  | false =>
    rw [hrat] at hdim
    simp only [Bool.false_eq_true, if_false, Nat.sub_zero] at hdim ⊢
    rw [hdim]
    refine ⟨hp.1, hp.2, ?_⟩
    intro i c hi hc
    rw [Obj.hom2_pw_get b1 b2 hs tol us vs hlen hi hc,
      Obj.hom2_grid_get b1 b2 hs tol us vs hi (by omega) hc]
  | true =>
    have h1 := hnc hrat
    obtain ⟨dim, rfl⟩ : ∃ dim, nc = dim + 1 := ⟨nc - 1, by omega⟩
    rw [hrat] at hdim
    simp only [if_true, Nat.add_sub_cancel] at hdim ⊢
    rw [hdim]
    refine ⟨(project_size2 _ hp.1).1, (project_size2 _ hp.1).2, ?_⟩
    intro i c hi hc
    rw [project_get2 _ hp.1 hi hc, project_get3 _ hg.1 hi (by omega) hc,
      Obj.hom2_pw_get b1 b2 hs tol us vs hlen hi (by omega),
      Obj.hom2_pw_get b1 b2 hs tol us vs hlen hi (by omega),
      Obj.hom2_grid_get b1 b2 hs tol us vs hi (by omega) (by omega),
      Obj.hom2_grid_get b1 b2 hs tol us vs hi (by omega) (by omega)]


theorem getD_mem_of_lt (l : List K) {i : ℕ} (hi : i < l.length) (d : K) : l.getD i d ∈ l := by
  have : l.getD i d = l[i] := by simp [List.getD_eq_getElem?_getD, hi]
  rw [this]
  exact List.getElem_mem hi

/-- Non-rational surface, valid bases, admissible parameters: the specification sum. -/
theorem Obj.evaluate2_spec_nonrational {o : Obj K} {b1 b2 : Basis K} (hb : o.bases = #[b1, b2])
    (hv1 : b1.Valid) (hv2 : b2.Valid) {nc : ℕ}
    (hs : o.cps.shape = [b1.numFunctions, b2.numFunctions, nc]) (hr : o.rational = false)
    {tol : K} (htol : 0 < tol) {us vs : List K}
    (hus : ∀ u ∈ us, b1.Admissible tol u) (hvs : ∀ v ∈ vs, b2.Admissible tol v)
    (hne1 : b1.periodic < 0 → us ≠ [] := by (first | assumption | (simp; done) | skip))
    (hne2 : b2.periodic < 0 → vs ≠ [] := by (first | assumption | (simp; done) | skip)) :
    ∃ res, o.evaluate tol [us, vs] true = .ok res ∧
      res.shape = [us.length, vs.length, nc] ∧ res.data.size = us.length * vs.length * nc ∧
      ∀ i1 i2 c, i1 < us.length → i2 < vs.length → c < nc →
        res.get ((i1 * vs.length + i2) * nc + c)
          = ∑ j1 ∈ Finset.range b1.numFunctions, ∑ j2 ∈ Finset.range b2.numFunctions,
              b1.specRow (us.getD i1 0) j1 * b2.specRow (vs.getD i2 0) j2
                * o.cps.get ((j1 * b2.numFunctions + j2) * nc + c) := by
  obtain ⟨res, h1, h2, h3, h4⟩ := Obj.evaluate2_grid_nonrational hb hs hr tol us vs
    (Obj.not_outOfDomain2 hb hv1 hv2 htol hus hvs)
  refine ⟨res, h1, h2, h3, ?_⟩
  intro i1 i2 c hi1 hi2 hc
  rw [h4 i1 i2 c hi1 hi2 hc]
  apply Finset.sum_congr rfl; intro j1 hj1
  apply Finset.sum_congr rfl; intro j2 hj2
  rw [Basis.rowVal_eq_specRow hv1 htol (hus _ (getD_mem_of_lt us hi1 0)) (Finset.mem_range.mp hj1),
    Basis.rowVal_eq_specRow hv2 htol (hvs _ (getD_mem_of_lt vs hi2 0)) (Finset.mem_range.mp hj2)]

/-- Rational surface with positive weights: the denominators are positive and the result is the
NURBS quotient. -/
theorem Obj.evaluate2_spec_rational {o : Obj K} {b1 b2 : Basis K} (hb : o.bases = #[b1, b2])
    (hv1 : b1.Valid) (hv2 : b2.Valid) {dim : ℕ}
    (hs : o.cps.shape = [b1.numFunctions, b2.numFunctions, dim + 1]) (hr : o.rational = true)
    (hw : ∀ j1 j2, j1 < b1.numFunctions → j2 < b2.numFunctions →
      0 < o.cps.get ((j1 * b2.numFunctions + j2) * (dim + 1) + dim))
    {tol : K} (htol : 0 < tol) {us vs : List K}
    (hus : ∀ u ∈ us, b1.Admissible tol u) (hvs : ∀ v ∈ vs, b2.Admissible tol v)
    (hne1 : b1.periodic < 0 → us ≠ [] := by (first | assumption | (simp; done) | skip))
    (hne2 : b2.periodic < 0 → vs ≠ [] := by (first | assumption | (simp; done) | skip)) :
    ∃ res, o.evaluate tol [us, vs] true = .ok res ∧
      res.shape = [us.length, vs.length, dim] ∧ res.data.size = us.length * vs.length * dim ∧
      ∀ i1 i2, i1 < us.length → i2 < vs.length →
        0 < (∑ j1 ∈ Finset.range b1.numFunctions, ∑ j2 ∈ Finset.range b2.numFunctions,
              b1.specRow (us.getD i1 0) j1 * b2.specRow (vs.getD i2 0) j2
                * o.cps.get ((j1 * b2.numFunctions + j2) * (dim + 1) + dim)) ∧
        ∀ c, c < dim →
          res.get ((i1 * vs.length + i2) * dim + c)
            = (∑ j1 ∈ Finset.range b1.numFunctions, ∑ j2 ∈ Finset.range b2.numFunctions,
                b1.specRow (us.getD i1 0) j1 * b2.specRow (vs.getD i2 0) j2
                  * o.cps.get ((j1 * b2.numFunctions + j2) * (dim + 1) + c))
              / (∑ j1 ∈ Finset.range b1.numFunctions, ∑ j2 ∈ Finset.range b2.numFunctions,
                b1.specRow (us.getD i1 0) j1 * b2.specRow (vs.getD i2 0) j2
                  * o.cps.get ((j1 * b2.numFunctions + j2) * (dim + 1) + dim)) := by
  obtain ⟨res, h1, h2, h3, h4⟩ := Obj.evaluate2_grid_rational hb hs hr tol us vs
    (Obj.not_outOfDomain2 hb hv1 hv2 htol hus hvs)
  refine ⟨res, h1, h2, h3, ?_⟩
  intro i1 i2 hi1 hi2
  have hu := hus _ (getD_mem_of_lt us hi1 0)
  have hv := hvs _ (getD_mem_of_lt vs hi2 0)
  have hrw : ∀ c, (∑ j1 ∈ Finset.range b1.numFunctions, ∑ j2 ∈ Finset.range b2.numFunctions,
        b1.rowVal tol (us.getD i1 0) j1 * b2.rowVal tol (vs.getD i2 0) j2
          * o.cps.get ((j1 * b2.numFunctions + j2) * (dim + 1) + c))
      = ∑ j1 ∈ Finset.range b1.numFunctions, ∑ j2 ∈ Finset.range b2.numFunctions,
        b1.specRow (us.getD i1 0) j1 * b2.specRow (vs.getD i2 0) j2
          * o.cps.get ((j1 * b2.numFunctions + j2) * (dim + 1) + c) := by
    intro c
    apply Finset.sum_congr rfl; intro j1 hj1
    apply Finset.sum_congr rfl; intro j2 hj2
    rw [Basis.rowVal_eq_specRow hv1 htol hu (Finset.mem_range.mp hj1),
      Basis.rowVal_eq_specRow hv2 htol hv (Finset.mem_range.mp hj2)]
  constructor
  · rw [← hrw]
    exact convex2_sum_pos _ _ _ _ _
      (fun j _ => Basis.rowVal_nonneg hv1 htol hu j) (Basis.rowVal_sum hv1 htol hu)
      (fun j _ => Basis.rowVal_nonneg hv2 htol hv j) (Basis.rowVal_sum hv2 htol hv) hw
  · intro c hc
    rw [h4 i1 i2 c hi1 hi2 hc, hrw, hrw]

/-- Non-rational surface: every coordinate of every evaluated point lies in the bounding box. -/
theorem Obj.evaluate2_in_bbox {o : Obj K} {b1 b2 : Basis K} (hb : o.bases = #[b1, b2])
    (hv1 : b1.Valid) (hv2 : b2.Valid) {nc : ℕ}
    (hs : o.cps.shape = [b1.numFunctions, b2.numFunctions, nc]) (hr : o.rational = false)
    {tol : K} (htol : 0 < tol) {us vs : List K}
    (hus : ∀ u ∈ us, b1.Admissible tol u) (hvs : ∀ v ∈ vs, b2.Admissible tol v)
    (hne1 : b1.periodic < 0 → us ≠ [] := by (first | assumption | (simp; done) | skip))
    (hne2 : b2.periodic < 0 → vs ≠ [] := by (first | assumption | (simp; done) | skip)) :
    ∃ res, o.evaluate tol [us, vs] true = .ok res ∧
      ∀ i1 i2 c, i1 < us.length → i2 < vs.length → c < nc →
        ((o.boundingBox).getD c (0, 0)).1 ≤ res.get ((i1 * vs.length + i2) * nc + c) ∧
        res.get ((i1 * vs.length + i2) * nc + c) ≤ ((o.boundingBox).getD c (0, 0)).2 := by
  obtain ⟨res, h1, -, -, h4⟩ := Obj.evaluate2_grid_nonrational hb hs hr tol us vs
    (Obj.not_outOfDomain2 hb hv1 hv2 htol hus hvs)
  refine ⟨res, h1, ?_⟩
  intro i1 i2 c hi1 hi2 hc
  have hu := hus _ (getD_mem_of_lt us hi1 0)
  have hv := hvs _ (getD_mem_of_lt vs hi2 0)
  obtain ⟨hnc, hdim⟩ := Obj.dimension_of_shape (o := o) (pre := [b1.numFunctions, b2.numFunctions]) hs
  rw [hr] at hdim
  simp only [Bool.false_eq_true, if_false, Nat.sub_zero] at hdim
  have hsize : o.cps.size / o.ncomp = b1.numFunctions * b2.numFunctions := by
    rw [hnc]
    have := (size_of_shape_append o.cps (pre := [b1.numFunctions, b2.numFunctions]) hs (by omega)).1
    simpa [prod] using this
  have hbb : ∀ j1 j2, j1 < b1.numFunctions → j2 < b2.numFunctions →
      ((o.boundingBox).getD c (0, 0)).1 ≤ o.cps.get ((j1 * b2.numFunctions + j2) * nc + c) ∧
      o.cps.get ((j1 * b2.numFunctions + j2) * nc + c) ≤ ((o.boundingBox).getD c (0, 0)).2 := by
    intro j1 j2 hj1 hj2
    have := boundingBox_spec o (c := c) (pI := j1 * b2.numFunctions + j2) (by rw [hdim]; exact hc)
      (by rw [hsize]; exact pair_lt hj1 hj2)
    rw [hnc] at this
    exact this
  rw [h4 i1 i2 c hi1 hi2 hc]
  constructor
  · exact le_convex2_sum _ _ _ _ _ _
      (fun j _ => Basis.rowVal_nonneg hv1 htol hu j) (Basis.rowVal_sum hv1 htol hu)
      (fun j _ => Basis.rowVal_nonneg hv2 htol hv j) (Basis.rowVal_sum hv2 htol hv)
      (fun j1 j2 a b => (hbb j1 j2 a b).1)
  · exact convex2_sum_le _ _ _ _ _ _
      (fun j _ => Basis.rowVal_nonneg hv1 htol hu j) (Basis.rowVal_sum hv1 htol hu)
      (fun j _ => Basis.rowVal_nonneg hv2 htol hv j) (Basis.rowVal_sum hv2 htol hv)
      (fun j1 j2 a b => (hbb j1 j2 a b).2)


end Splipy
