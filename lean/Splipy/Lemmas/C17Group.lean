import Mathlib.Data.List.GetD
import Mathlib.Data.List.Perm.Subperm
import Mathlib.Data.List.Nodup
import Mathlib.Data.List.Range
import Splipy.Model.Orientation

/-! Lemmas for C17: the orientations of a given parametric dimension form a group under
`Orientation.mul`, generically in the parametric dimension; `Orientation.all n` enumerates
exactly the well-formed orientations. -/

namespace Splipy.MP

theorem map_getD_range {α : Type} (l : List α) (d : α) :
    (List.range l.length).map (fun i => l.getD i d) = l := by
  apply List.ext_getElem
  · simp
  · intro i h1 h2
    simp [List.getElem?_eq_getElem h2]

theorem map_getD_range' {α : Type} (l : List α) (d : α) {n : ℕ} (h : l.length = n) :
    (List.range n).map (fun i => l.getD i d) = l := by
  subst h; exact map_getD_range l d

/-! ### permutations of `range n` -/

structure IsPerm (p : List ℕ) (n : ℕ) : Prop where
  perm : p.Perm (List.range n)

namespace IsPerm
variable {p : List ℕ} {n : ℕ}

theorem length (h : IsPerm p n) : p.length = n := by simpa using h.perm.length_eq
theorem nodup (h : IsPerm p n) : p.Nodup := h.perm.nodup_iff.2 List.nodup_range
theorem mem_iff (h : IsPerm p n) {x : ℕ} : x ∈ p ↔ x < n := by
  rw [h.perm.mem_iff]; simp
theorem getD_lt (h : IsPerm p n) {d : ℕ} (hd : d < n) : p.getD d 0 < n := by
  rw [List.getD_eq_getElem _ _ (by rw [h.length]; exact hd)]
  exact h.mem_iff.1 (List.getElem_mem _)
theorem idxOf_lt (h : IsPerm p n) {e : ℕ} (he : e < n) : p.idxOf e < n := by
  have := List.idxOf_lt_length_iff.2 (h.mem_iff.2 he)
  rwa [h.length] at this
theorem getD_idxOf (h : IsPerm p n) {e : ℕ} (he : e < n) : p.getD (p.idxOf e) 0 = e := by
  have hl := List.idxOf_lt_length_iff.2 (h.mem_iff.2 he)
  rw [List.getD_eq_getElem _ _ hl]
  exact List.getElem_idxOf hl
theorem idxOf_getD (h : IsPerm p n) {d : ℕ} (hd : d < n) : p.idxOf (p.getD d 0) = d := by
  have hl : d < p.length := by rw [h.length]; exact hd
  rw [List.getD_eq_getElem _ _ hl]
  exact h.nodup.idxOf_getElem d hl

/-- a duplicate-free list of `n` numbers below `n` is a permutation of `range n` -/
theorem of_nodup (hn : p.Nodup) (hl : p.length = n) (hlt : ∀ x ∈ p, x < n) : IsPerm p n := by
  constructor
  have hsub : p ⊆ List.range n := fun x hx => List.mem_range.2 (hlt x hx)
  have hsp : p.Subperm (List.range n) := List.subperm_of_subset hn hsub
  exact hsp.perm_of_length_le (by simp [hl])

theorem range (n : ℕ) : IsPerm (List.range n) n := ⟨List.Perm.refl _⟩

/-- composition of two permutations (as in `Orientation.__mul__`) -/
theorem comp {q : List ℕ} (hp : IsPerm p n) (hq : IsPerm q n) :
    IsPerm ((List.range n).map (fun d => q.getD (p.getD d 0) 0)) n := by
  constructor
  have e1 : (List.range n).map (fun d => q.getD (p.getD d 0) 0)
      = ((List.range n).map (fun d => p.getD d 0)).map (fun e => q.getD e 0) := by
    simp [List.map_map, Function.comp]
  rw [e1, map_getD_range' p 0 hp.length]
  have := hp.perm.map (fun e => q.getD e 0)
  rw [map_getD_range' q 0 hq.length] at this
  exact this.trans hq.perm

/-- the inverse permutation (`perm_inv`) -/
theorem inv (hp : IsPerm p n) : IsPerm ((List.range n).map (fun e => p.idxOf e)) n := by
  apply of_nodup
  · apply List.Nodup.map_on _ List.nodup_range
    intro x hx y hy hxy
    have hx' := List.mem_range.1 hx
    have hy' := List.mem_range.1 hy
    have := hp.getD_idxOf hx'
    rw [hxy, hp.getD_idxOf hy'] at this
    exact this.symm
  · simp
  · intro x hx
    simp only [List.mem_map, List.mem_range] at hx
    obtain ⟨e, he, rfl⟩ := hx
    exact hp.idxOf_lt he

end IsPerm

/-! ### the group laws -/

namespace Orientation

theorem WF.isPerm {o : Orientation} {n : ℕ} (h : o.WF n) : IsPerm o.perm n := ⟨h.1⟩
theorem WF.pardim {o : Orientation} {n : ℕ} (h : o.WF n) : o.pardim = n := h.isPerm.length
theorem WF.flip_length {o : Orientation} {n : ℕ} (h : o.WF n) : o.flip.length = n := h.2

theorem mul_def (a b : Orientation) : a * b = a.mul b := rfl

theorem ext' {a b : Orientation} (h1 : a.perm = b.perm) (h2 : a.flip = b.flip) : a = b := by
  cases a; cases b; simp_all

theorem mul_perm {a b : Orientation} {n : ℕ} (ha : a.WF n) :
    (a * b).perm = (List.range n).map (fun d => b.perm.getD (a.perm.getD d 0) 0) := by
  simp [mul_def, mul, ha.pardim]

theorem mul_flip {a b : Orientation} {n : ℕ} (ha : a.WF n) :
    (a * b).flip = (List.range n).map
      (fun d => xor (a.flip.getD d false) (b.flip.getD (a.perm.getD d 0) false)) := by
  simp [mul_def, mul, ha.pardim]

theorem mul_perm_getD {a b : Orientation} {n d : ℕ} (ha : a.WF n) (hd : d < n) :
    (a * b).perm.getD d 0 = b.perm.getD (a.perm.getD d 0) 0 := by
  rw [mul_perm ha]
  have : d < ((List.range n).map (fun d => b.perm.getD (a.perm.getD d 0) 0)).length := by simpa using hd
  rw [List.getD_eq_getElem _ _ this]
  simp

theorem mul_flip_getD {a b : Orientation} {n d : ℕ} (ha : a.WF n) (hd : d < n) :
    (a * b).flip.getD d false = xor (a.flip.getD d false) (b.flip.getD (a.perm.getD d 0) false) := by
  rw [mul_flip ha]
  have : d < ((List.range n).map
      (fun d => xor (a.flip.getD d false) (b.flip.getD (a.perm.getD d 0) false))).length := by simpa using hd
  rw [List.getD_eq_getElem _ _ this]
  simp

theorem mul_wf {a b : Orientation} {n : ℕ} (ha : a.WF n) (hb : b.WF n) : (a * b).WF n := by
  refine ⟨?_, ?_⟩
  · rw [mul_perm ha]; exact (ha.isPerm.comp hb.isPerm).perm
  · rw [mul_flip ha]; simp

theorem identity_wf (n : ℕ) : (identity n).WF n := ⟨List.Perm.refl _, by simp [identity]⟩

theorem range_getD {n d : ℕ} (hd : d < n) : (List.range n).getD d 0 = d := by
  rw [List.getD_eq_getElem _ _ (by simpa using hd)]; simp

theorem identity_mul {a : Orientation} {n : ℕ} (ha : a.WF n) : identity n * a = a := by
  apply ext'
  · rw [mul_perm (identity_wf n)]
    conv_rhs => rw [← map_getD_range' a.perm 0 ha.isPerm.length]
    apply List.map_congr_left
    intro d hd
    simp only [identity]
    rw [range_getD (List.mem_range.1 hd)]
  · rw [mul_flip (identity_wf n)]
    conv_rhs => rw [← map_getD_range' a.flip false ha.flip_length]
    apply List.map_congr_left
    intro d hd
    have hd' := List.mem_range.1 hd
    simp only [identity]
    rw [range_getD hd']
    have : (List.replicate n false).getD d false = false := by
      rw [List.getD_eq_getElem _ _ (by simpa using hd')]; simp
    rw [this]; simp

theorem mul_identity {a : Orientation} {n : ℕ} (ha : a.WF n) : a * identity n = a := by
  apply ext'
  · rw [mul_perm ha]
    conv_rhs => rw [← map_getD_range' a.perm 0 ha.isPerm.length]
    apply List.map_congr_left
    intro d hd
    simp only [identity]
    rw [range_getD (ha.isPerm.getD_lt (List.mem_range.1 hd))]
  · rw [mul_flip ha]
    conv_rhs => rw [← map_getD_range' a.flip false ha.flip_length]
    apply List.map_congr_left
    intro d hd
    simp only [identity]
    have : (List.replicate n false).getD (a.perm.getD d 0) false = false := by
      rw [List.getD_eq_getElem _ _ (by simpa using ha.isPerm.getD_lt (List.mem_range.1 hd))]; simp
    rw [this]; simp

theorem mul_assoc' {a b c : Orientation} {n : ℕ} (ha : a.WF n) (hb : b.WF n) (_hc : c.WF n) :
    (a * b) * c = a * (b * c) := by
  have hab := mul_wf ha hb
  apply ext'
  · rw [mul_perm (b := c) hab, mul_perm (b := b * c) ha]
    apply List.map_congr_left
    intro d hd
    have hd' := List.mem_range.1 hd
    rw [mul_perm_getD ha hd', mul_perm_getD hb (ha.isPerm.getD_lt hd')]
  · rw [mul_flip (b := c) hab, mul_flip (b := b * c) ha]
    apply List.map_congr_left
    intro d hd
    have hd' := List.mem_range.1 hd
    rw [mul_flip_getD ha hd', mul_perm_getD ha hd', mul_flip_getD hb (ha.isPerm.getD_lt hd')]
    simp

theorem inv_perm {a : Orientation} {n : ℕ} (ha : a.WF n) :
    a.inv.perm = (List.range n).map (fun e => a.perm.idxOf e) := by
  simp [inv, permInv, ha.pardim]

theorem inv_flip {a : Orientation} {n : ℕ} (ha : a.WF n) :
    a.inv.flip = (List.range n).map (fun e => a.flip.getD (a.perm.idxOf e) false) := by
  simp [inv, ha.pardim]

theorem inv_wf {a : Orientation} {n : ℕ} (ha : a.WF n) : a.inv.WF n := by
  refine ⟨?_, ?_⟩
  · rw [inv_perm ha]; exact ha.isPerm.inv.perm
  · rw [inv_flip ha]; simp

theorem inv_perm_getD {a : Orientation} {n e : ℕ} (ha : a.WF n) (he : e < n) :
    a.inv.perm.getD e 0 = a.perm.idxOf e := by
  rw [inv_perm ha]
  have : e < ((List.range n).map (fun e => a.perm.idxOf e)).length := by simpa using he
  rw [List.getD_eq_getElem _ _ this]; simp

theorem inv_flip_getD {a : Orientation} {n e : ℕ} (ha : a.WF n) (he : e < n) :
    a.inv.flip.getD e false = a.flip.getD (a.perm.idxOf e) false := by
  rw [inv_flip ha]
  have : e < ((List.range n).map (fun e => a.flip.getD (a.perm.idxOf e) false)).length := by simpa using he
  rw [List.getD_eq_getElem _ _ this]; simp

theorem map_range_id (n : ℕ) (f : ℕ → ℕ) (h : ∀ d < n, f d = d) : (List.range n).map f = List.range n := by
  conv_rhs => rw [← List.map_id (List.range n)]
  apply List.map_congr_left
  intro d hd; simpa using h d (List.mem_range.1 hd)

theorem map_range_false (n : ℕ) (f : ℕ → Bool) (h : ∀ d < n, f d = false) :
    (List.range n).map f = List.replicate n false := by
  apply List.ext_getElem
  · simp
  · intro i h1 h2
    simp only [List.getElem_map, List.getElem_range, List.getElem_replicate]
    exact h i (by simpa using h1)

theorem mul_inv {a : Orientation} {n : ℕ} (ha : a.WF n) : a * a.inv = identity n := by
  apply ext'
  · rw [mul_perm ha]
    apply map_range_id
    intro d hd
    rw [inv_perm_getD ha (ha.isPerm.getD_lt hd), ha.isPerm.idxOf_getD hd]
  · rw [mul_flip ha]
    apply map_range_false
    intro d hd
    rw [inv_flip_getD ha (ha.isPerm.getD_lt hd), ha.isPerm.idxOf_getD hd]
    simp

theorem inv_mul {a : Orientation} {n : ℕ} (ha : a.WF n) : a.inv * a = identity n := by
  have hi := inv_wf ha
  apply ext'
  · rw [mul_perm hi]
    apply map_range_id
    intro e he
    rw [inv_perm_getD ha he, ha.isPerm.getD_idxOf he]
  · rw [mul_flip hi]
    apply map_range_false
    intro e he
    rw [inv_flip_getD ha he, inv_perm_getD ha he]
    simp

end Orientation

/-! ### the enumeration `Orientation.all n` is complete -/

theorem picks_perm {α : Type} {l : List α} {x : α} {rest : List α} (h : (x, rest) ∈ picks l) :
    l.Perm (x :: rest) := by
  induction l generalizing x rest with
  | nil => simp [picks] at h
  | cons y ys ih =>
    simp only [picks, List.mem_cons, List.mem_map, Prod.mk.injEq] at h
    rcases h with ⟨rfl, rfl⟩ | ⟨⟨x', r'⟩, hm, rfl, rfl⟩
    · exact List.Perm.refl _
    · exact ((ih hm).cons y).trans (List.Perm.swap _ _ _)

theorem picks_of_mem {α : Type} {l : List α} {x : α} (h : x ∈ l) : ∃ rest, (x, rest) ∈ picks l := by
  induction l with
  | nil => simp at h
  | cons y ys ih =>
    rcases List.mem_cons.1 h with rfl | h'
    · exact ⟨ys, by simp [picks]⟩
    · obtain ⟨r, hr⟩ := ih h'
      exact ⟨y :: r, by
        simp only [picks, List.mem_cons, List.mem_map]
        exact Or.inr ⟨(x, r), hr, rfl⟩⟩

theorem mem_permsAux {α : Type} (n : ℕ) (l p : List α) (hl : l.length = n) :
    p ∈ permsAux n l ↔ p.Perm l := by
  induction n generalizing l p with
  | zero =>
    have : l = [] := List.length_eq_zero_iff.1 hl
    subst this
    simp [permsAux]
  | succ n ih =>
    simp only [permsAux, List.mem_flatMap, List.mem_map]
    constructor
    · rintro ⟨⟨x, rest⟩, hpick, q, hq, rfl⟩
      have hp := picks_perm hpick
      have hr : rest.length = n := by
        have := hp.length_eq; simp [hl] at this; omega
      exact (((ih rest q hr).1 hq).cons x).trans hp.symm
    · intro hp
      cases p with
      | nil => have := hp.length_eq; simp [hl] at this
      | cons x q =>
        have hx : x ∈ l := hp.subset (by simp)
        obtain ⟨rest, hpick⟩ := picks_of_mem hx
        have hlp := picks_perm hpick
        have hr : rest.length = n := by
          have := hlp.length_eq; simp [hl] at this; omega
        have hq : q.Perm rest := (hp.trans hlp).cons_inv
        exact ⟨(x, rest), hpick, q, (ih rest q hr).2 hq, rfl⟩

theorem mem_pyPermutations {α : Type} (l p : List α) : p ∈ pyPermutations l ↔ p.Perm l :=
  mem_permsAux l.length l p rfl

theorem mem_boolProduct (n : ℕ) (f : List Bool) : f ∈ boolProduct n ↔ f.length = n := by
  induction n generalizing f with
  | zero => simp [boolProduct, List.length_eq_zero_iff]
  | succ n ih =>
    simp only [boolProduct, List.mem_flatMap, List.mem_map, List.mem_cons, List.not_mem_nil, or_false]
    constructor
    · rintro ⟨b, _, g, hg, rfl⟩
      simp [(ih g).1 hg]
    · intro h
      cases f with
      | nil => simp at h
      | cons b g =>
        refine ⟨b, by cases b <;> simp, g, (ih g).2 (by simpa using h), rfl⟩

theorem Orientation.mem_all (n : ℕ) (o : Orientation) : o ∈ Orientation.all n ↔ o.WF n := by
  simp only [Orientation.all, List.mem_flatMap, List.mem_map, mem_pyPermutations, mem_boolProduct,
    Orientation.WF]
  constructor
  · rintro ⟨p, hp, f, hf, rfl⟩; exact ⟨hp, hf⟩
  · rintro ⟨hp, hf⟩; exact ⟨o.perm, hp, o.flip, hf, rfl⟩

end Splipy.MP
