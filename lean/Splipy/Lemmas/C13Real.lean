import Mathlib.Analysis.SpecialFunctions.Trigonometric.Inverse
import Mathlib.Algebra.Order.Floor.Semiring
import Splipy.Lemmas.C13Arc

/-!
# C13 over ℝ: the spans of `circle_segment` cover every angle of `[0, θ]`

The generic-field statements take `(cos, sin)` pairs as field elements.  Here they are instantiated
with the real functions to obtain the one fact that is not algebraic: the angular ranges
`[2j·dt, (2j+2)·dt]` of the spans cover `[0, θ]`.
-/

namespace Splipy.Fac

open Real

theorem angleIter_real (x : ℝ) (i : ℕ) :
    angleIter (cos x) (sin x) i = (cos (i * x), sin (i * x)) := by
  induction i with
  | zero => simp [angleIter]
  | succ n ih =>
    simp only [angleIter, ih]
    have e : ((n + 1 : ℕ) : ℝ) * x = n * x + x := by push_cast; ring
    rw [e, cos_add, sin_add]

/-- some span's mid-angle is within `dt` of `φ`. -/
theorem exists_span_near (θ φ : ℝ) (n : ℕ) (hn : 0 < n) (hθ : 0 < θ) (hφ0 : 0 ≤ φ) (hφ1 : φ ≤ θ) :
    ∃ j, j < n ∧ |φ - ((2 * j + 1 : ℕ) : ℝ) * (θ / (2 * n))| ≤ θ / (2 * n) := by
  have hn' : (0 : ℝ) < n := by exact_mod_cast hn
  have hdt : 0 < θ / (2 * n) := by positivity
  set dt := θ / (2 * n) with hdt_def
  have hθdt : θ = 2 * n * dt := by rw [hdt_def]; field_simp
  by_cases hφθ : φ = θ
  · refine ⟨n - 1, by omega, ?_⟩
    have e : ((2 * (n - 1) + 1 : ℕ) : ℝ) = 2 * n - 1 := by
      have : 2 * (n - 1) + 1 = 2 * n - 1 := by omega
      rw [this]; push_cast [Nat.cast_sub (by omega : 1 ≤ 2 * n)]; ring
    rw [hφθ, e, hθdt]
    have : 2 * (n : ℝ) * dt - (2 * n - 1) * dt = dt := by ring
    rw [this, abs_of_pos hdt]
  · have hlt : φ < θ := lt_of_le_of_ne hφ1 hφθ
    set q := φ / (2 * dt) with hq
    have hq0 : 0 ≤ q := by positivity
    have hqn : q < n := by
      rw [hq, div_lt_iff₀ (by positivity)]; rw [hθdt] at hlt; linarith
    refine ⟨⌊q⌋₊, ?_, ?_⟩
    · exact (Nat.floor_lt hq0).mpr hqn
    · have h1 : (⌊q⌋₊ : ℝ) ≤ q := Nat.floor_le hq0
      have h2 : q < ⌊q⌋₊ + 1 := Nat.lt_floor_add_one q
      have hφ : φ = q * (2 * dt) := by rw [hq]; field_simp
      rw [abs_le]
      push_cast
      constructor <;> nlinarith

/-- a unit vector that lies counter-clockwise between angle `0` and `θ ∈ (0, 2π)` (in the sense of
    the algebraic betweenness predicate of `C13_three_points`) has an angle `φ ∈ [0, θ]`. -/
theorem exists_angle_between (θ c1 s1 : ℝ) (hθ0 : 0 < θ) (hθ2 : θ < 2 * π) (h1 : c1 ^ 2 + s1 ^ 2 = 1)
    (hb1 : 0 ≤ sin θ → 0 < s1 ∧ cos θ < c1) (hb2 : sin θ < 0 → 0 ≤ s1 ∨ c1 < cos θ) :
    ∃ φ, 0 ≤ φ ∧ φ ≤ θ ∧ cos φ = c1 ∧ sin φ = s1 := by
  have hc1 : -1 ≤ c1 ∧ c1 ≤ 1 := by constructor <;> nlinarith [sq_nonneg s1]
  have hsqrt : √(1 - c1 ^ 2) = |s1| := by
    have : 1 - c1 ^ 2 = s1 ^ 2 := by linarith
    rw [this, sqrt_sq_eq_abs]
  -- θ ≤ π iff sin θ ≥ 0
  have hsin_neg : π < θ → sin θ < 0 := by
    intro h
    have : sin θ = -sin (θ - π) := by rw [sin_sub_pi]; ring
    rw [this]
    have := sin_pos_of_pos_of_lt_pi (by linarith : 0 < θ - π) (by linarith)
    linarith
  have hsin_nonneg : θ ≤ π → 0 ≤ sin θ := fun h => sin_nonneg_of_nonneg_of_le_pi (le_of_lt hθ0) h
  rcases le_or_gt 0 s1 with hs | hs
  · refine ⟨arccos c1, arccos_nonneg _, ?_, cos_arccos hc1.1 hc1.2, ?_⟩
    · rcases le_or_gt θ π with hθπ | hθπ
      · obtain ⟨_, hcc⟩ := hb1 (hsin_nonneg hθπ)
        by_contra hcon
        push Not at hcon
        have := cos_le_cos_of_nonneg_of_le_pi (le_of_lt hθ0) (arccos_le_pi c1) (le_of_lt hcon)
        rw [cos_arccos hc1.1 hc1.2] at this
        linarith
      · linarith [arccos_le_pi c1]
    · rw [sin_arccos, hsqrt, abs_of_nonneg hs]
  · have hθπ : π < θ := by
      by_contra hcon
      push Not at hcon
      obtain ⟨hpos, _⟩ := hb1 (hsin_nonneg hcon)
      linarith
    have hcc : c1 < cos θ := by
      rcases hb2 (hsin_neg hθπ) with h | h
      · linarith
      · exact h
    refine ⟨2 * π - arccos c1, by linarith [arccos_le_pi c1], ?_, ?_, ?_⟩
    · by_contra hcon
      push Not at hcon
      have hψ : arccos c1 < 2 * π - θ := by linarith
      have := cos_lt_cos_of_nonneg_of_le_pi (arccos_nonneg c1) (by linarith : 2 * π - θ ≤ π) hψ
      rw [cos_arccos hc1.1 hc1.2, cos_two_pi_sub] at this
      linarith
    · rw [cos_two_pi_sub, cos_arccos hc1.1 hc1.2]
    · rw [sin_two_pi_sub, sin_arccos, hsqrt, abs_of_neg hs]; ring

/-- **Every angle of `[0, θ]` is attained on the arc** (real version).  For `n ≥ 1` spans of
half-angle `dt = θ/(2n) < π` and `φ ∈ [0, θ]` there are a span `j < n` and a local parameter
`u ∈ [0,1]` at which the homogeneous span point is `r·(cos φ, sin φ)·W(u)`. -/
theorem arc_attains_real (r θ φ : ℝ) (n : ℕ) (hn : 0 < n) (hθ : 0 < θ) (hdt : θ / (2 * n) < π)
    (hφ0 : 0 ≤ φ) (hφ1 : φ ≤ θ) :
    ∃ j, j < n ∧ ∃ u : ℝ, 0 ≤ u ∧ u ≤ 1 ∧
      bern2 (arcX r (cos (θ / (2 * n))) (sin (θ / (2 * n))) (2 * j))
            (arcX r (cos (θ / (2 * n))) (sin (θ / (2 * n))) (2 * j + 1))
            (arcX r (cos (θ / (2 * n))) (sin (θ / (2 * n))) (2 * j + 2)) u
        = r * cos φ * bern2 (arcW (cos (θ / (2 * n))) (2 * j)) (arcW (cos (θ / (2 * n))) (2 * j + 1))
            (arcW (cos (θ / (2 * n))) (2 * j + 2)) u ∧
      bern2 (arcY r (cos (θ / (2 * n))) (sin (θ / (2 * n))) (2 * j))
            (arcY r (cos (θ / (2 * n))) (sin (θ / (2 * n))) (2 * j + 1))
            (arcY r (cos (θ / (2 * n))) (sin (θ / (2 * n))) (2 * j + 2)) u
        = r * sin φ * bern2 (arcW (cos (θ / (2 * n))) (2 * j)) (arcW (cos (θ / (2 * n))) (2 * j + 1))
            (arcW (cos (θ / (2 * n))) (2 * j + 2)) u := by
  have hn' : (0 : ℝ) < n := by exact_mod_cast hn
  have hdt0 : 0 < θ / (2 * n) := by positivity
  set dt := θ / (2 * n) with hdt_def
  obtain ⟨j, hj, hnear⟩ := exists_span_near θ φ n hn hθ hφ0 hφ1
  rw [← hdt_def] at hnear
  refine ⟨j, hj, ?_⟩
  have hw0 : arcW (cos dt) (2 * j) = 1 := by simp [arcW]
  have hw2 : arcW (cos dt) (2 * j + 2) = 1 := by
    have : (2 * j + 2) % 2 = 0 := by omega
    simp [arcW, this]
  have hw1 : arcW (cos dt) (2 * j + 1) = cos dt := by
    have : (2 * j + 1) % 2 = 1 := by omega
    simp [arcW, this]
  have h0 := angleIter_norm (cos dt) (sin dt) (cos_sq_add_sin_sq dt) (2 * j)
  have hd : cos dt ^ 2 + sin dt ^ 2 = 1 := cos_sq_add_sin_sq dt
  have h1 : cos φ ^ 2 + sin φ ^ 2 = 1 := cos_sq_add_sin_sq φ
  have hsd : 0 < sin dt := sin_pos_of_pos_of_lt_pi hdt0 hdt
  have hcd : -1 < cos dt := by
    have := cos_lt_cos_of_nonneg_of_le_pi (le_of_lt hdt0) (le_refl π) hdt
    rwa [cos_pi] at this
  -- the target relative to the mid direction of span j
  have hit := angleIter_real dt (2 * j)
  have hcb : cos φ * ((angleIter (cos dt) (sin dt) (2 * j)).1 * cos dt - (angleIter (cos dt) (sin dt) (2 * j)).2 * sin dt)
      + sin φ * ((angleIter (cos dt) (sin dt) (2 * j)).2 * cos dt + (angleIter (cos dt) (sin dt) (2 * j)).1 * sin dt)
      = cos (φ - ((2 * j + 1 : ℕ) : ℝ) * dt) := by
    rw [hit]
    have e : ((2 * j + 1 : ℕ) : ℝ) * dt = ((2 * j : ℕ) : ℝ) * dt + dt := by push_cast; ring
    rw [e, cos_sub, cos_add, sin_add]
  have hle : cos dt ≤ cos (φ - ((2 * j + 1 : ℕ) : ℝ) * dt) := by
    rw [← cos_abs (φ - ((2 * j + 1 : ℕ) : ℝ) * dt)]
    exact cos_le_cos_of_nonneg_of_le_pi (abs_nonneg _) (le_of_lt hdt) hnear
  have hne : 1 + (cos φ * ((angleIter (cos dt) (sin dt) (2 * j)).1 * cos dt - (angleIter (cos dt) (sin dt) (2 * j)).2 * sin dt)
      + sin φ * ((angleIter (cos dt) (sin dt) (2 * j)).2 * cos dt + (angleIter (cos dt) (sin dt) (2 * j)).1 * sin dt)) ≠ 0 := by
    rw [hcb]; linarith
  obtain ⟨eX, eY, hu⟩ := arc_span_attains r _ _ (cos dt) (sin dt) (cos φ) (sin φ) h0 hd h1 (ne_of_gt hsd) hne
  obtain ⟨hu0, hu1⟩ := hu hsd hcd (by rw [hcb]; exact hle)
  refine ⟨_, hu0, hu1, ?_, ?_⟩
  · rw [hw0, hw1, hw2]; exact eX
  · rw [hw0, hw1, hw2]; exact eY

end Splipy.Fac
