import Mathlib.Tactic.LinearCombination
import Mathlib.Tactic.Positivity
import Splipy.Lemmas.C03Rational

/-!
# C03 – tangent / normal / binormal: the normalisations, square root as a parameter

`IsSqrt sq`: on positive numbers `sq` is THE positive square root.  Row-by-row facts about
`Tensor.normalizeRows`, `Tensor.crossRows`, `Tensor.normSqRows` (3 components), and the two identities behind
`Surface.normal` and `Curve.normal`:
normalising the cross product of two normalised vectors = normalising the cross product of the vectors;
the cross product of the normalised binormal `(v × a)/‖v × a‖` and the normalised tangent `v/‖v‖` is the
normalised `(v × a) × v` (Lagrange: the two factors are orthogonal).
-/

namespace Splipy

variable {K : Type} [Field K] [LinearOrder K] [IsStrictOrderedRing K]

/-- `sq` is the positive square root on positive numbers. -/
def IsSqrt (sq : K → K) : Prop := ∀ x, 0 < x → 0 < sq x ∧ sq x * sq x = x

theorem IsSqrt.unique {sq : K → K} (h : IsSqrt sq) {x y : K} (hx : 0 < x) (hy : 0 < y) (hyy : y * y = x) :
    sq x = y := by
  obtain ⟨h1, h2⟩ := h x hx
  have : (sq x - y) * (sq x + y) = 0 := by linear_combination h2 - hyy
  rcases mul_eq_zero.mp this with h3 | h3
  · linarith
  · linarith

theorem IsSqrt.div_sq {sq : K → K} (h : IsSqrt sq) {x c : K} (hx : 0 < x) (hc : 0 < c) :
    sq (x / (c * c)) = sq x / c := by
  obtain ⟨h1, h2⟩ := h x hx
  apply h.unique (by positivity) (by positivity)
  field_simp
  linear_combination h2

theorem IsSqrt.mul {sq : K → K} (h : IsSqrt sq) {x y : K} (hx : 0 < x) (hy : 0 < y) :
    sq (x * y) = sq x * sq y := by
  obtain ⟨h1, h2⟩ := h x hx
  obtain ⟨h3, h4⟩ := h y hy
  apply h.unique (by positivity) (by positivity)
  calc sq x * sq y * (sq x * sq y) = (sq x * sq x) * (sq y * sq y) := by ring
    _ = x * y := by rw [h2, h4]

/-! ## Vector algebra (components) -/

section vec
variable (a1 a2 a3 b1 b2 b3 : K)

/-- squared norm of the cross product -/
def crossNormSq : K :=
  (a2 * b3 - a3 * b2) * (a2 * b3 - a3 * b2) + (a3 * b1 - a1 * b3) * (a3 * b1 - a1 * b3)
    + (a1 * b2 - a2 * b1) * (a1 * b2 - a2 * b1)

/-- Lagrange's identity for orthogonal factors: `‖(v × a) × v‖² = ‖v × a‖² ‖v‖²`. -/
theorem lagrange_orth (v1 v2 v3 w1 w2 w3 : K) :
    crossNormSq (v2 * w3 - v3 * w2) (v3 * w1 - v1 * w3) (v1 * w2 - v2 * w1) v1 v2 v3 =
      crossNormSq v1 v2 v3 w1 w2 w3 * (v1 * v1 + v2 * v2 + v3 * v3) := by
  unfold crossNormSq
  ring

end vec

/-! ## Rows of tensors with three components -/

namespace Tensor

variable [FloorRing K]

/-- component `c` of row `pI` -/
def row3 (a : Tensor K) (pI c : ℕ) : K := a.get (pI * 3 + c)

/-- squared norm of row `pI` (3 components) -/
def nsq3 (a : Tensor K) (pI : ℕ) : K :=
  a.row3 pI 0 * a.row3 pI 0 + a.row3 pI 1 * a.row3 pI 1 + a.row3 pI 2 * a.row3 pI 2

theorem normSqRows_getD3 (a : Tensor K) (h3 : a.shape.getLastD 1 = 3) {pI : ℕ} (hp : pI < a.size / 3) :
    (normSqRows a).getD pI 0 = a.nsq3 pI := by
  unfold normSqRows
  simp only []
  rw [getD_ofFn, dif_pos (by rw [h3]; exact hp)]
  simp only [h3]
  simp [nsq3, row3, List.range, List.range.loop]

theorem crossRows_row3 (a b : Tensor K) {pI c : ℕ} (hp : pI < a.size / 3) (hc : c < 3) :
    (crossRows a b).row3 pI c =
      a.row3 pI ((c + 1) % 3) * b.row3 pI ((c + 2) % 3) - a.row3 pI ((c + 2) % 3) * b.row3 pI ((c + 1) % 3) := by
  unfold crossRows row3
  have hlt : pI * 3 + c < a.size / 3 * 3 := by
    calc pI * 3 + c < pI * 3 + 3 := by omega
      _ = (pI + 1) * 3 := by ring
      _ ≤ _ := Nat.mul_le_mul_right _ hp
  simp only
  rw [Tensor.get_ofFn _ _ _ _ hlt]
  simp only [idx_div pI 3 c hc, idx_mod pI 3 c hc]

theorem crossRows_shape (a b : Tensor K) : (crossRows a b).shape = a.shape := rfl

theorem normalizeRows_shape (sq : K → K) (a : Tensor K) : (normalizeRows sq a).shape = a.shape := rfl

theorem normalizeRows_row3 (sq : K → K) (a : Tensor K) (h3 : a.shape.getLastD 1 = 3) {pI c : ℕ}
    (hp : pI < a.size / 3) (hc : c < 3) :
    (normalizeRows sq a).row3 pI c = a.row3 pI c / sq (a.nsq3 pI) := by
  unfold normalizeRows row3
  have hlt : pI * 3 + c < a.size / 3 * 3 := by
    calc pI * 3 + c < pI * 3 + 3 := by omega
      _ = (pI + 1) * 3 := by ring
      _ ≤ _ := Nat.mul_le_mul_right _ hp
  simp only []
  rw [Tensor.get_ofFn _ _ _ _ (by rw [h3]; exact hlt)]
  simp only [h3, idx_div pI 3 c hc]
  rw [normSqRows_getD3 a h3 hp]

theorem size_of_shape_eq {a b : Tensor K} (h : a.shape = b.shape) : a.size = b.size := by
  unfold Tensor.size; rw [h]

theorem crossRows_nsq3 (a b : Tensor K) {pI : ℕ} (hp : pI < a.size / 3) :
    (crossRows a b).nsq3 pI =
      crossNormSq (a.row3 pI 0) (a.row3 pI 1) (a.row3 pI 2) (b.row3 pI 0) (b.row3 pI 1) (b.row3 pI 2) := by
  unfold nsq3 crossNormSq
  rw [crossRows_row3 a b hp (by decide : 0 < 3), crossRows_row3 a b hp (by decide : 1 < 3),
    crossRows_row3 a b hp (by decide : 2 < 3)]

theorem nsq3_of_rows_div (X Y : Tensor K) (pI : ℕ) (k : K) (hk : k ≠ 0)
    (h : ∀ c', c' < 3 → X.row3 pI c' = Y.row3 pI c' / k) : X.nsq3 pI = Y.nsq3 pI / (k * k) := by
  unfold nsq3
  rw [h 0 (by decide), h 1 (by decide), h 2 (by decide)]
  field_simp

/-- **`Surface.normal`**: normalising the cross product of the two NORMALISED tangents (what the code does)
gives, row by row, the normalised cross product of the tangents themselves (what the driver sends, divided by the
square root of the squared norm it sends along). -/
theorem normalize_cross_normalized {sq : K → K} (hsq : IsSqrt sq) (du dv : Tensor K)
    (hsh : dv.shape = du.shape) (h3 : du.shape.getLastD 1 = 3) {pI c : ℕ} (hp : pI < du.size / 3)
    (hc : c < 3) (hnu : 0 < du.nsq3 pI) (hnv : 0 < dv.nsq3 pI)
    (hnx : 0 < (crossRows du dv).nsq3 pI) :
    (normalizeRows sq (crossRows (normalizeRows sq du) (normalizeRows sq dv))).row3 pI c =
      (normalizeRows sq (crossRows du dv)).row3 pI c := by
  have h3v : dv.shape.getLastD 1 = 3 := by rw [hsh]; exact h3
  have hpv : pI < dv.size / 3 := by rw [size_of_shape_eq hsh]; exact hp
  obtain ⟨sa, hsa⟩ := hsq _ hnu
  obtain ⟨sb, hsb⟩ := hsq _ hnv
  have hA : ∀ c', c' < 3 → (normalizeRows sq du).row3 pI c' = du.row3 pI c' / sq (du.nsq3 pI) :=
    fun c' hc' => normalizeRows_row3 sq du h3 hp hc'
  have hB : ∀ c', c' < 3 → (normalizeRows sq dv).row3 pI c' = dv.row3 pI c' / sq (dv.nsq3 pI) :=
    fun c' hc' => normalizeRows_row3 sq dv h3v hpv hc'
  have hpA : pI < (normalizeRows sq du).size / 3 := by
    rw [size_of_shape_eq (normalizeRows_shape sq du)]; exact hp
  have hX : ∀ c', c' < 3 → (crossRows (normalizeRows sq du) (normalizeRows sq dv)).row3 pI c' =
      (crossRows du dv).row3 pI c' / (sq (du.nsq3 pI) * sq (dv.nsq3 pI)) := by
    intro c' hc'
    rw [crossRows_row3 _ _ hpA hc', crossRows_row3 _ _ hp hc',
      hA _ (Nat.mod_lt _ (by decide)), hA _ (Nat.mod_lt _ (by decide)),
      hB _ (Nat.mod_lt _ (by decide)), hB _ (Nat.mod_lt _ (by decide))]
    field_simp
  have hpX : pI < (crossRows (normalizeRows sq du) (normalizeRows sq dv)).size / 3 := by
    rw [size_of_shape_eq (crossRows_shape _ _)]; exact hpA
  have hpx : pI < (crossRows du dv).size / 3 := by
    rw [size_of_shape_eq (crossRows_shape _ _)]; exact hp
  have hN : (crossRows (normalizeRows sq du) (normalizeRows sq dv)).nsq3 pI =
      (crossRows du dv).nsq3 pI / ((sq (du.nsq3 pI) * sq (dv.nsq3 pI)) * (sq (du.nsq3 pI) * sq (dv.nsq3 pI))) := by
    exact nsq3_of_rows_div _ _ pI _ (by positivity) hX
  rw [normalizeRows_row3 sq _ (by rw [crossRows_shape, normalizeRows_shape]; exact h3) hpX hc,
    normalizeRows_row3 sq _ (by rw [crossRows_shape]; exact h3) hpx hc, hX c hc, hN,
    hsq.div_sq hnx (by positivity)]
  have hs0 : sq ((crossRows du dv).nsq3 pI) ≠ 0 := ne_of_gt (hsq _ hnx).1
  field_simp

/-- **`Curve.normal`**: the cross product of the normalised binormal `b/‖b‖`, `b = v × a`, and the normalised
tangent `v/‖v‖` is, row by row, the normalised `b × v` (what the driver sends). -/
theorem cross_normalized_binormal_tangent {sq : K → K} (hsq : IsSqrt sq) (v a : Tensor K)
    (hsh : a.shape = v.shape) (h3 : v.shape.getLastD 1 = 3) {pI c : ℕ} (hp : pI < v.size / 3) (hc : c < 3)
    (hnv : 0 < v.nsq3 pI) (hnb : 0 < (crossRows v a).nsq3 pI) :
    (crossRows (normalizeRows sq (crossRows v a)) (normalizeRows sq v)).row3 pI c =
      (normalizeRows sq (crossRows (crossRows v a) v)).row3 pI c := by
  set b := crossRows v a with hb
  have hbs : b.shape = v.shape := crossRows_shape v a
  have h3b : b.shape.getLastD 1 = 3 := by rw [hbs]; exact h3
  have hpb : pI < b.size / 3 := by rw [size_of_shape_eq hbs]; exact hp
  have hB : ∀ c', c' < 3 → (normalizeRows sq b).row3 pI c' = b.row3 pI c' / sq (b.nsq3 pI) :=
    fun c' hc' => normalizeRows_row3 sq b h3b hpb hc'
  have hV : ∀ c', c' < 3 → (normalizeRows sq v).row3 pI c' = v.row3 pI c' / sq (v.nsq3 pI) :=
    fun c' hc' => normalizeRows_row3 sq v h3 hp hc'
  have hpB : pI < (normalizeRows sq b).size / 3 := by
    rw [size_of_shape_eq (normalizeRows_shape sq b)]; exact hpb
  have hpbv : pI < (crossRows b v).size / 3 := by
    rw [size_of_shape_eq (crossRows_shape _ _)]; exact hpb
  -- Lagrange: ‖b × v‖² = ‖b‖² ‖v‖²
  have hL : (crossRows b v).nsq3 pI = b.nsq3 pI * v.nsq3 pI := by
    rw [crossRows_nsq3 b v hpb]
    have e0 := crossRows_row3 v a hp (by decide : 0 < 3)
    have e1 := crossRows_row3 v a hp (by decide : 1 < 3)
    have e2 := crossRows_row3 v a hp (by decide : 2 < 3)
    simp only [Nat.zero_add, Nat.reduceAdd, Nat.reduceMod, Nat.one_mod, Nat.mod_self] at e0 e1 e2
    rw [hb, e0, e1, e2, lagrange_orth, crossRows_nsq3 v a hp]
    rfl
  rw [crossRows_row3 _ _ hpB hc, hB _ (Nat.mod_lt _ (by decide)), hB _ (Nat.mod_lt _ (by decide)),
    hV _ (Nat.mod_lt _ (by decide)), hV _ (Nat.mod_lt _ (by decide)),
    normalizeRows_row3 sq _ (by rw [crossRows_shape]; exact h3b) hpbv hc, crossRows_row3 _ _ hpb hc, hL,
    hsq.mul hnb hnv]
  have h1 : sq (b.nsq3 pI) ≠ 0 := ne_of_gt (hsq _ hnb).1
  have h2 : sq (v.nsq3 pI) ≠ 0 := ne_of_gt (hsq _ hnv).1
  field_simp

/-- The normalised rows are unit vectors, positive multiples of the rows. -/
theorem normalizeRows_unit {sq : K → K} (hsq : IsSqrt sq) (a : Tensor K) (h3 : a.shape.getLastD 1 = 3)
    {pI : ℕ} (hp : pI < a.size / 3) (hn : 0 < a.nsq3 pI) :
    ∃ s, 0 < s ∧ s * s = a.nsq3 pI ∧
      (∀ c, c < 3 → (normalizeRows sq a).row3 pI c = a.row3 pI c / s) ∧
      (normalizeRows sq a).nsq3 pI = 1 := by
  obtain ⟨h1, h2⟩ := hsq _ hn
  refine ⟨sq (a.nsq3 pI), h1, h2, fun c hc => normalizeRows_row3 sq a h3 hp hc, ?_⟩
  have hne : sq (a.nsq3 pI) ≠ 0 := ne_of_gt h1
  rw [nsq3_of_rows_div (normalizeRows sq a) a pI _ hne (fun c hc => normalizeRows_row3 sq a h3 hp hc), h2]
  exact div_self (ne_of_gt hn)

end Tensor

end Splipy
