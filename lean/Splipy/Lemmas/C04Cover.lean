import Splipy.Lemmas.C04PerSeq

/-!
# C04 helper lemmas, part 19: the `R`-fold cover of a periodic basis

* `shift_window` — a spline on a knot window whose knots repeat (`κ (i+n') = κ i + T`, `R` periods)
  evaluated `m` periods to the right is the spline of the shifted coefficients on the first period.
* `coverKnots` — size and entries, validity of the cover basis, the cover spline with `R`-fold
  repeated coefficients is the periodic spline of the basis.
-/

namespace Splipy
namespace C04

set_option linter.unusedSectionVars false

variable {K : Type} [Field K] [LinearOrder K] [IsStrictOrderedRing K]

theorem side_mem_add (s : Side) (a e t c : K) (h : s.mem a e t) : s.mem (a + c) (e + c) (t + c) := by
  cases s
  · exact ⟨by linarith [h.1], by linarith [h.2]⟩
  · exact ⟨by linarith [h.1], by linarith [h.2]⟩

/-- translation of a B-spline derivative along knots that are translated -/
theorem dB_translate (s : Side) (κ σ : ℕ → K) (q i i' d : ℕ) (t c : K)
    (h : ∀ j, j ≤ q + 1 → κ (i' + j) = σ (i + j) + c) :
    dB s κ q i' d (t + c) = dB s σ q i d t := by
  have h1 : dB s κ q i' d (t + c) = dB s (fun j => 1 * σ j + c) q i d (1 * t + c) := by
    rw [one_mul]
    apply dB_congr_knots
    intro j hj
    rw [one_mul]; exact h j hj
  rw [h1]
  have := dB_affine s σ q i d t 1 c one_pos
  rw [one_pow, div_one] at this
  exact this

/-- iterating `κ (i+n') = κ i + T` -/
theorem per_iter (κ : ℕ → K) (n' L : ℕ) (T : K)
    (hper : ∀ i, i + n' ≤ L → κ (i + n') = κ i + T) :
    ∀ m i, i + m * n' ≤ L → κ (i + m * n') = κ i + (m : K) * T := by
  intro m
  induction m with
  | zero => intro i _; simp
  | succ m ih =>
    intro i hi
    have e : i + (m + 1) * n' = (i + m * n') + n' := by ring
    rw [e, hper _ (by rw [← e]; exact hi), ih i (by rw [e] at hi; omega)]
    push_cast; ring

/-- A spline on `R` periods of a periodic knot window, evaluated `m` periods to the right of the
    first period `[κ q, κ (n'+k+1))`. -/
theorem shift_window (s : Side) (κ : ℕ → K) (hκ : Monotone κ) (q n' k R m : ℕ) (T : K)
    (hm : m + 1 ≤ R)
    (hper : ∀ i, i + n' ≤ R * n' + k + q + 1 → κ (i + n') = κ i + T)
    (A : ℕ → K) (d : ℕ) (t : K) (ht : s.mem (κ q) (κ (n' + k + 1)) t) :
    (Finset.range (R * n' + k + 1)).sum (fun i => A i * dB s κ q i d (t + (m : K) * T))
      = (Finset.range (n' + k + 1)).sum (fun i => A (m * n' + i) * dB s κ q i d t) := by
  obtain ⟨r, rfl⟩ : ∃ r, R = m + 1 + r := ⟨R - (m + 1), by omega⟩
  have hit := per_iter κ n' ((m + 1 + r) * n' + k + q + 1) T hper
  have hL : (m + 1 + r) * n' = m * n' + n' + r * n' := by ring
  have ht' := side_mem_add s _ _ _ ((m : K) * T) ht
  rw [show (m + 1 + r) * n' + k + 1 = m * n' + ((n' + k + 1) + r * n') by rw [hL]; omega,
    Finset.sum_range_add, Finset.sum_range_add]
  have z1 : (Finset.range (m * n')).sum (fun i => A i * dB s κ q i d (t + (m : K) * T)) = 0 := by
    apply Finset.sum_eq_zero
    intro i hi
    have hi' := Finset.mem_range.1 hi
    rw [dB_zero_before s κ hκ q i d _ _ _ ht', mul_zero]
    have e := hit m q (by rw [hL]; omega)
    rw [← e]
    exact hκ (by omega)
  have z2 : (Finset.range (r * n')).sum (fun i =>
      A (m * n' + (n' + k + 1 + i)) * dB s κ q (m * n' + (n' + k + 1 + i)) d (t + (m : K) * T)) = 0 := by
    apply Finset.sum_eq_zero
    intro i hi
    have hi' := Finset.mem_range.1 hi
    rw [dB_zero_after s κ hκ q _ d _ _ _ ht', mul_zero]
    have e := hit m (n' + k + 1) (by rw [hL]; omega)
    rw [← e]
    exact hκ (by omega)
  rw [z1, z2, zero_add, add_zero]
  apply Finset.sum_congr rfl
  intro i hi
  have hi' := Finset.mem_range.1 hi
  congr 1
  apply dB_translate
  intro j hj
  have e := hit m (i + j) (by rw [hL]; omega)
  rw [← e]
  congr 1
  ring

/-! ### the knot vector of the cover -/

/-- `m` knots appended by the loop `knots.append(knots[-n] + T)` -/
def coverFold (a0 : Array K) (n : ℕ) (T : K) (m : ℕ) : Array K :=
  (List.range m).foldl (fun (a : Array K) _ => a.push (a.getD (a.size - n) 0 + T)) a0

theorem coverKnots_eq (b : Basis K) (R : ℕ) :
    b.coverKnots R = coverFold b.knots b.numFunctions (b.stop - b.start) ((R - 1) * b.numFunctions) := rfl

theorem coverFold_spec (a0 : Array K) (n : ℕ) (T : K) (hn : 1 ≤ n) (hsz : n ≤ a0.size) (m : ℕ) :
    (coverFold a0 n T m).size = a0.size + m ∧
    ∀ i, i < a0.size + m → (coverFold a0 n T m).getD i 0 =
      if i < a0.size then a0.getD i 0 else (coverFold a0 n T m).getD (i - n) 0 + T := by
  induction m with
  | zero =>
    refine ⟨rfl, fun i hi => ?_⟩
    rw [if_pos (by omega)]; rfl
  | succ m ih =>
    obtain ⟨ih1, ih2⟩ := ih
    have e : coverFold a0 n T (m + 1)
        = (coverFold a0 n T m).push ((coverFold a0 n T m).getD ((coverFold a0 n T m).size - n) 0 + T) := by
      unfold coverFold
      rw [List.range_succ, List.foldl_append]
      rfl
    set A := coverFold a0 n T m with hA
    have hget : ∀ j, j < A.size → (A.push (A.getD (A.size - n) 0 + T)).getD j 0 = A.getD j 0 := by
      intro j hj
      simp only [Array.getD_eq_getD_getElem?, Array.getElem?_push]
      rw [if_neg (by omega)]
    have hlast : (A.push (A.getD (A.size - n) 0 + T)).getD A.size 0 = A.getD (A.size - n) 0 + T := by
      simp [Array.getD_eq_getD_getElem?, Array.getElem?_push]
    refine ⟨by rw [e, Array.size_push, ih1]; omega, fun i hi => ?_⟩
    rw [e]
    by_cases h1 : i < a0.size + m
    · rw [hget i (by rw [ih1]; exact h1), ih2 i h1]
      by_cases h2 : i < a0.size
      · rw [if_pos h2, if_pos h2]
      · rw [if_neg h2, if_neg h2, hget (i - n) (by rw [ih1]; omega)]
    · have hi' : i = A.size := by rw [ih1]; omega
      rw [hi', hlast, if_neg (by rw [ih1]; omega), hget (A.size - n) (by rw [ih1]; omega)]

section cover

variable [FloorRing K]

/-- the cover basis of `R` periods -/
def coverBasis (b : Basis K) (R : ℕ) : Basis K := { b with knots := b.coverKnots R }

theorem coverBasis_size (b : Basis K) (hv : b.Valid) (R : ℕ) :
    (coverBasis b R).knots.size = b.knots.size + (R - 1) * b.numFunctions := by
  have hn := numFunctions_pos hv
  have : b.numFunctions ≤ b.knots.size := by unfold Basis.numFunctions; omega
  exact (coverFold_spec b.knots b.numFunctions (b.stop - b.start) hn this _).1

theorem coverBasis_kn_lt (b : Basis K) (hv : b.Valid) (R : ℕ) (i : ℕ) (hi : i < b.knots.size) :
    (coverBasis b R).kn i = b.kn i := by
  have hn := numFunctions_pos hv
  have hle : b.numFunctions ≤ b.knots.size := by unfold Basis.numFunctions; omega
  obtain ⟨h1, h2⟩ := coverFold_spec b.knots b.numFunctions (b.stop - b.start) hn hle
    ((R - 1) * b.numFunctions)
  rw [kn_eq_getD _ (by rw [coverBasis_size b hv R]; omega), kn_eq_getD _ hi]
  show (b.coverKnots R).getD i 0 = _
  rw [coverKnots_eq, h2 i (by omega), if_pos hi]

/-- the knots of the cover repeat with period `(n, T)` on the whole array -/
theorem coverBasis_per (b : Basis K) (hv : b.Valid) (hper : 0 ≤ b.periodic) (R : ℕ) (i : ℕ)
    (hi : i + b.numFunctions < (coverBasis b R).knots.size) :
    (coverBasis b R).kn (i + b.numFunctions) = (coverBasis b R).kn i + (b.stop - b.start) := by
  have hn := numFunctions_pos hv
  have hle : b.numFunctions ≤ b.knots.size := by unfold Basis.numFunctions; omega
  obtain ⟨h1, h2⟩ := coverFold_spec b.knots b.numFunctions (b.stop - b.start) hn hle
    ((R - 1) * b.numFunctions)
  have hsz := coverBasis_size b hv R
  by_cases hc : i + b.numFunctions < b.knots.size
  · rw [coverBasis_kn_lt b hv R _ hc, coverBasis_kn_lt b hv R _ (by omega)]
    exact hv.ghosts hper i hc
  · rw [kn_eq_getD _ hi, kn_eq_getD _ (by omega)]
    show (b.coverKnots R).getD (i + b.numFunctions) 0 = (b.coverKnots R).getD i 0 + _
    rw [coverKnots_eq, h2 _ (by rw [hsz] at hi; omega), if_neg hc, Nat.add_sub_cancel]

theorem coverBasis_iter (b : Basis K) (hv : b.Valid) (hper : 0 ≤ b.periodic) (R : ℕ) (m i : ℕ)
    (hi : i + m * b.numFunctions < (coverBasis b R).knots.size) :
    (coverBasis b R).kn (i + m * b.numFunctions)
      = (coverBasis b R).kn i + (m : K) * (b.stop - b.start) :=
  per_iter (coverBasis b R).kn b.numFunctions ((coverBasis b R).knots.size - 1) (b.stop - b.start)
    (fun j hj => coverBasis_per b hv hper R j (by omega)) m i (by omega)

/-- The `R`-fold cover (`R = r+1`) of a valid periodic basis is a valid periodic basis with `R·n`
    functions, the same start, and the end `r` periods later. -/
theorem coverBasis_valid (b : Basis K) (hv : b.Valid) (k : ℕ) (hk : b.periodic = (k : Int)) (r : ℕ) :
    (coverBasis b (r + 1)).Valid ∧ (coverBasis b (r + 1)).numFunctions = (r + 1) * b.numFunctions ∧
    (coverBasis b (r + 1)).start = b.start ∧
    (coverBasis b (r + 1)).stop = b.stop + (r : K) * (b.stop - b.start) := by
  have hper : 0 ≤ b.periodic := by rw [hk]; omega
  have hp := hv.order_pos
  have hsz := hv.size_ge
  have hpk : k + 2 ≤ b.order := by
    rcases hv.periodic_le with h | h
    · rw [hk] at h; omega
    · rw [hk] at h; omega
  have hn := numFunctions_periodic b k hk
  have hn1 := numFunctions_pos hv
  have hsize : b.knots.size = b.numFunctions + b.order + k + 1 := by omega
  have hcs : (coverBasis b (r + 1)).knots.size = b.knots.size + r * b.numFunctions := by
    rw [coverBasis_size b hv (r + 1)]; rfl
  have hnum : (coverBasis b (r + 1)).numFunctions = (r + 1) * b.numFunctions := by
    rw [numFunctions_periodic (coverBasis b (r + 1)) k hk]
    show (coverBasis b (r + 1)).knots.size - b.order - (k + 1) = _
    rw [hcs, hsize]
    have : (r + 1) * b.numFunctions = r * b.numFunctions + b.numFunctions := by ring
    omega
  have hstart : (coverBasis b (r + 1)).start = b.start := by
    show (coverBasis b (r + 1)).kn (b.order - 1) = b.kn (b.order - 1)
    exact coverBasis_kn_lt b hv _ _ (by omega)
  have hstop : (coverBasis b (r + 1)).stop = b.stop + (r : K) * (b.stop - b.start) := by
    show (coverBasis b (r + 1)).kn ((coverBasis b (r + 1)).knots.size - b.order) = _
    rw [hcs, show b.knots.size + r * b.numFunctions - b.order = (b.numFunctions + k + 1) + r * b.numFunctions by omega,
      coverBasis_iter b hv hper (r + 1) r (b.numFunctions + k + 1) (by rw [hcs]; omega),
      coverBasis_kn_lt b hv _ _ (by omega)]
    show b.kn (b.numFunctions + k + 1) + _ = b.kn (b.knots.size - b.order) + _
    rw [show b.knots.size - b.order = b.numFunctions + k + 1 by omega]
  have hT : 0 < b.stop - b.start := sub_pos.2 hv.start_lt_stop
  refine ⟨⟨hp, ?_, ?_, hv.periodic_ge, hv.periodic_le, ?_, fun _ i hi => ?_⟩, hnum, hstart, hstop⟩
  · show 2 * b.order ≤ (coverBasis b (r + 1)).knots.size
    rw [hcs]; omega
  · intro i
    induction i using Nat.strong_induction_on with
    | _ i ih =>
      intro hi
      by_cases hc : i + 1 < b.knots.size
      · rw [coverBasis_kn_lt b hv _ _ hc, coverBasis_kn_lt b hv _ _ (by omega)]
        exact hv.sorted i hc
      · obtain ⟨j, rfl⟩ : ∃ j, i = j + b.numFunctions := ⟨i - b.numFunctions, by omega⟩
        rw [show j + b.numFunctions + 1 = (j + 1) + b.numFunctions by omega,
          coverBasis_per b hv hper (r + 1) (j + 1) (by omega),
          coverBasis_per b hv hper (r + 1) j (by omega)]
        have := ih j (by omega) (by omega)
        linarith
  · rw [hstart, hstop]
    have : 0 ≤ (r : K) * (b.stop - b.start) := mul_nonneg (Nat.cast_nonneg r) (le_of_lt hT)
    linarith [hv.start_lt_stop]
  · rw [hnum] at hi ⊢
    rw [coverBasis_iter b hv hper (r + 1) (r + 1) i hi, hstart, hstop]
    push_cast; ring

/-- The spline of the cover with `R`-fold repeated coefficients, `m` periods to the right, is the
    periodic spline of the basis. -/
theorem cover_wsum (b : Basis K) (hv : b.Valid) (k : ℕ) (hk : b.periodic = (k : Int)) (r m : ℕ)
    (hm : m ≤ r) (c : ℕ → K) (s : Side) (d : ℕ) (t : K) (ht : s.mem b.start b.stop t) :
    wsum s (coverBasis b (r + 1)).kn (b.order - 1) ((r + 1) * b.numFunctions + k + 1)
        ((r + 1) * b.numFunctions) (fun i => c (i % b.numFunctions)) d
        (t + (m : K) * (b.stop - b.start))
      = wsum s b.kn (b.order - 1) (b.numFunctions + k + 1) b.numFunctions c d t := by
  have hper : 0 ≤ b.periodic := by rw [hk]; omega
  have hp := hv.order_pos
  have hsz := hv.size_ge
  have hpk : k + 2 ≤ b.order := by
    rcases hv.periodic_le with h | h
    · rw [hk] at h; omega
    · rw [hk] at h; omega
  have hn := numFunctions_periodic b k hk
  have hn1 := numFunctions_pos hv
  have hsize : b.knots.size = b.numFunctions + b.order + k + 1 := by omega
  obtain ⟨hcv, hcn, _, _⟩ := coverBasis_valid b hv k hk r
  have hcs : (coverBasis b (r + 1)).knots.size = b.knots.size + r * b.numFunctions := by
    rw [coverBasis_size b hv (r + 1)]; rfl
  have hmono : Monotone (coverBasis b (r + 1)).kn := kn_mono hcv.sorted
  have e1 : (r + 1) * b.numFunctions = r * b.numFunctions + b.numFunctions := by ring
  unfold wsum
  have hco : ∀ i, (fun i => c (i % b.numFunctions)) (i % ((r + 1) * b.numFunctions))
      = c (i % b.numFunctions) := by
    intro i
    show c (i % ((r + 1) * b.numFunctions) % b.numFunctions) = _
    rw [Nat.mod_mod_of_dvd i (Dvd.intro_left (r + 1) rfl)]
  simp only [hco]
  have hst : s.mem ((coverBasis b (r + 1)).kn (b.order - 1))
      ((coverBasis b (r + 1)).kn (b.numFunctions + k + 1)) t := by
    rw [coverBasis_kn_lt b hv _ _ (by omega), coverBasis_kn_lt b hv _ _ (by omega)]
    have : b.stop = b.kn (b.numFunctions + k + 1) := by
      show b.kn (b.knots.size - b.order) = _
      rw [show b.knots.size - b.order = b.numFunctions + k + 1 by omega]
    rw [← this]; exact ht
  rw [shift_window s (coverBasis b (r + 1)).kn hmono (b.order - 1) b.numFunctions k (r + 1) m
    (b.stop - b.start) (by omega)
    (fun i hi => coverBasis_per b hv hper (r + 1) i (by rw [hcs]; omega))
    (fun i => c (i % b.numFunctions)) d t hst]
  apply Finset.sum_congr rfl
  intro i hi
  have hi' := Finset.mem_range.1 hi
  have : (m * b.numFunctions + i) % b.numFunctions = i % b.numFunctions := by
    rw [Nat.add_comm, Nat.add_mul_mod_self_right]
  rw [this]
  congr 1
  apply dB_congr_knots
  intro j hj
  exact coverBasis_kn_lt b hv _ _ (by omega)

end cover

end C04
end Splipy
