import Mathlib.Data.List.Sort
import Splipy.Lemmas.C14Cubic
set_option linter.unusedSectionVars false

/-!
# C14: `sortK` (the model of Python's `sorted`) is Mathlib's insertion sort; `bezier`
-/

namespace Splipy
namespace Interp
variable {K : Type} [Field K] [LinearOrder K]

theorem insertK_eq_orderedInsert (a : K) (l : List K) : insertK a l = l.orderedInsert (· ≤ ·) a := by
  induction l with
  | nil => rfl
  | cons b l ih =>
    unfold insertK
    rw [List.orderedInsert_cons]
    split <;> simp [*]

theorem sortK_eq_insertionSort (l : List K) : sortK l = l.insertionSort (· ≤ ·) := by
  induction l with
  | nil => rfl
  | cons a l ih =>
    unfold sortK at *
    rw [List.foldr_cons, ih, List.insertionSort_cons, insertK_eq_orderedInsert]

/-- `sorted(l)`: a sorted permutation of `l`. -/
theorem sortK_spec (l : List K) : (sortK l).Perm l ∧ (sortK l).Pairwise (· ≤ ·) := by
  rw [sortK_eq_insertionSort]
  exact ⟨List.perm_insertionSort _ l, List.pairwise_insertionSort _ l⟩

end Interp
end Splipy

namespace Splipy
namespace Interp
variable {K : Type} [Field K] [LinearOrder K]

/-- The running-sum loop `pts[i] = pts[i-1] + pts[i]` as a fold that pushes `g prev row`. -/
theorem foldl_push_spec {α : Type} [Inhabited α] (g : α → α → α) (d : α) :
    ∀ (rows : List α) (init : Array α), 0 < init.size →
      let F := rows.foldl (fun (acc : Array α) row => acc.push (g (acc.getD (acc.size - 1) d) row)) init
      F.size = init.size + rows.length ∧
      (∀ i < init.size, F.getD i d = init.getD i d) ∧
      ∀ i < rows.length, F.getD (init.size + i) d = g (F.getD (init.size + i - 1) d) (rows.getD i d) := by
  intro rows
  induction rows with
  | nil => intro init _; simp
  | cons r rs ih =>
    intro init hpos
    simp only [List.foldl_cons]
    set init' := init.push (g (init.getD (init.size - 1) d) r) with hi'
    have hs' : init'.size = init.size + 1 := by rw [hi']; simp
    obtain ⟨h1, h2, h3⟩ := ih init' (by omega)
    refine ⟨by rw [h1, hs']; simp; omega, fun i hi => ?_, fun i hi => ?_⟩
    · rw [h2 i (by omega), hi']
      simp [Array.getD, hi, Nat.lt_succ_of_lt hi, Array.getElem_push_lt]
    · cases i with
      | zero =>
        simp only [Nat.add_zero, List.getD_cons_zero]
        rw [h2 init.size (by omega), h2 (init.size - 1) (by omega), hi']
        have e1 : (init.push (g (init.getD (init.size - 1) d) r)).getD init.size d
            = g (init.getD (init.size - 1) d) r := by
          simp [Array.getD]
        have e2 : (init.push (g (init.getD (init.size - 1) d) r)).getD (init.size - 1) d
            = init.getD (init.size - 1) d := by
          have : init.size - 1 < init.size := by omega
          simp [Array.getD, this, Nat.lt_succ_of_lt this, Array.getElem_push_lt]
        rw [e1, e2]
      | succ i =>
        have := h3 i (by simpa using hi)
        rw [hs'] at this
        simp only [List.getD_cons_succ]
        rw [show init.size + (i + 1) = init.size + 1 + i by omega]
        exact this

end Interp
end Splipy
