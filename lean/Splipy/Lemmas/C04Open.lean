import Splipy.Lemmas.C04Matrix
import Splipy.Lemmas.Boehm
import Splipy.Lemmas.Triangle
import Mathlib.Algebra.BigOperators.Ring.Finset

/-!
# C04 helper lemmas, part 2: the matrix of `insert_knot` realises Boehm's identity

* `code_of_boehm` : Boehm's identity with literally the code's guarded entries, for any family
  (`B` or any derivative `dB`) that satisfies the α-form and vanishes on empty supports.
* `sum_codeF_col` : column sums of the closed-form matrix.
* `spline_codeF` / `splineDeriv_codeF` : `Σ_r (C·c)_r N'_r = Σ_j c_j N_j`.
* knot-vector lemmas: `kn_insertAt` (`np.insert` = `insertSeq`), sortedness, start/stop.
-/

namespace Splipy
namespace C04

set_option linter.unusedSectionVars false

variable {K : Type} [Field K] [LinearOrder K] [IsStrictOrderedRing K]

theorem gd_eq (τ : ℕ → K) (x : K) (q i : ℕ) : gd τ x (q+1) i = guardDiag τ x q i := by
  unfold gd guardDiag
  rw [show i + (q + 1) - 1 = i + q by omega, show i + (q + 1) = i + q + 1 by omega]

theorem gs_eq (τ : ℕ → K) (x : K) (q i : ℕ) : gs τ x (q+1) i = guardSub τ x q i := by
  unfold gs guardSub
  rw [show i + (q + 1) = i + q + 1 by omega]

/-- The guard of the diagonal entry and `boehmAlpha` differ only where the multiplied new function
    has empty support (generic in the function family). -/
theorem guard_diag_gen (τ : ℕ → K) (hτ : Monotone τ) (μ : ℕ) (x : K) (hμ : 1 ≤ μ)
    (hx : τ (μ-1) ≤ x ∧ x ≤ τ μ) (q i : ℕ) (hi1 : μ ≤ i + q + 1) (hi2 : i < μ) (Z : K)
    (hz : insertSeq τ μ x (i+q+1) ≤ insertSeq τ μ x i → Z = 0) :
    guardDiag τ x q i * Z = boehmAlpha τ μ x q i * Z := by
  obtain ⟨hlo, hhi⟩ := bo_bounds τ hτ μ x hx
  rcases lt_or_eq_of_le hx.2 with hlt | heq
  · rw [boehm_guard_diag_strict τ hτ μ x hμ ⟨hx.1, hlt⟩ q i hi1 hi2]
  unfold guardDiag
  rcases Nat.eq_or_lt_of_le hi1 with h | h
  · have e1 : τ (i+q) = τ (μ-1) := by congr 1; omega
    have e2 : τ (i+q+1) = τ μ := by rw [h]
    rw [if_pos ⟨by rw [e1]; exact hx.1, by rw [e2]; exact hx.2⟩, bo_alpha_one (by omega)]
  · rw [bo_alpha_mid hi2 (show μ ≤ i + q by omega) rfl]
    by_cases hg : τ (i+q) ≤ x ∧ x ≤ τ (i+q+1)
    · rw [if_pos hg]
      have e : τ (i+q) = x := le_antisymm hg.1 (hhi _ (by omega))
      rw [e]
      by_cases hxi : x - τ i = 0
      · have hz' : Z = 0 := by
          apply hz
          rw [bo_ins_lt hi2, bo_ins_gt (show μ ≤ i + q by omega) rfl, e]
          exact le_of_eq (sub_eq_zero.1 hxi)
        rw [hz', mul_zero, mul_zero]
      · rw [div_self hxi]
    · rw [if_neg hg]

/-- Boehm's identity with the code's guarded matrix entries, for any function family. -/
theorem code_of_boehm (τ : ℕ → K) (hτ : Monotone τ) (μ : ℕ) (x : K) (hμ : 1 ≤ μ)
    (hx : τ (μ-1) ≤ x ∧ x ≤ τ μ) (q : ℕ) (Zτ Zσ : ℕ → K)
    (hb : ∀ i, Zτ i = boehmAlpha τ μ x q i * Zσ i + (1 - boehmAlpha τ μ x q (i+1)) * Zσ (i+1))
    (hz : ∀ i, insertSeq τ μ x (i+q+1) ≤ insertSeq τ μ x i → Zσ i = 0) (i : ℕ) :
    Zτ i =
      if i + q + 1 < μ then Zσ i
      else if i < μ then guardDiag τ x q i * Zσ i + guardSub τ x q i * Zσ (i+1)
      else Zσ (i+1) := by
  rw [hb i]
  split_ifs with h1 h2
  · rw [bo_alpha_one (show i + q < μ by omega), bo_alpha_one (show i + 1 + q < μ by omega)]
    ring
  · rw [guard_diag_gen τ hτ μ x hμ hx q i (by omega) h2 _ (hz i),
      boehm_guard_sub τ hτ μ x hμ hx q i (by omega) h2]
  · rw [bo_alpha_zero (show μ ≤ i by omega), bo_alpha_zero (show μ ≤ i + 1 by omega)]
    ring

/-- Column `i` of the closed-form matrix against any row family `G` (`i+1 < N` rows). -/
theorem sum_codeF_col (τ : ℕ → K) (x : K) (p mu : ℕ) (G : ℕ → K) (i N : ℕ) (hi : i + 1 < N) :
    (Finset.range N).sum (fun r => codeF τ x p mu r i * G r) =
      if i + p < mu then G i
      else if i < mu then gd τ x p i * G i + gs τ x p i * G (i+1)
      else G (i+1) := by
  have hmem : i ∈ Finset.range N := Finset.mem_range.2 (by omega)
  have hmem1 : i + 1 ∈ Finset.range N := Finset.mem_range.2 hi
  unfold codeF
  split_ifs with h1 h2
  · simp only [ite_mul, one_mul, zero_mul]
    rw [Finset.sum_ite_eq' (Finset.range N) i G, if_pos hmem]
  · have e : ∀ r, (if r = i then gd τ x p i else if r = i + 1 then gs τ x p i else 0) * G r
        = (if r = i then gd τ x p i * G r else 0) + (if r = i + 1 then gs τ x p i * G r else 0) := by
      intro r
      by_cases e1 : r = i
      · rw [if_pos e1, if_pos e1, if_neg (by omega), add_zero]
      · rw [if_neg e1, if_neg e1, zero_add]
        by_cases e2 : r = i + 1
        · rw [if_pos e2, if_pos e2]
        · rw [if_neg e2, if_neg e2, zero_mul]
    simp only [e]
    rw [Finset.sum_add_distrib,
      Finset.sum_ite_eq' (Finset.range N) i (fun r => gd τ x p i * G r),
      Finset.sum_ite_eq' (Finset.range N) (i+1) (fun r => gs τ x p i * G r),
      if_pos hmem, if_pos hmem1]
  · simp only [ite_mul, one_mul, zero_mul]
    rw [Finset.sum_ite_eq' (Finset.range N) (i+1) G, if_pos hmem1]

/-- `(C·c)_r` for a functional matrix. -/
def mulVecF (F : ℕ → ℕ → K) (n : ℕ) (c : ℕ → K) : ℕ → K :=
  fun r => (Finset.range n).sum (fun j => F r j * c j)

/-- Exchange of summation: if every column of `F` reproduces `H j` from the family `G`, then the
    transformed coefficients reproduce the same combination. -/
theorem sum_mulVecF (F : ℕ → ℕ → K) (G H : ℕ → K) (n m : ℕ) (c : ℕ → K)
    (h : ∀ j, j < n → (Finset.range m).sum (fun r => F r j * G r) = H j) :
    (Finset.range m).sum (fun r => mulVecF F n c r * G r)
      = (Finset.range n).sum (fun j => c j * H j) := by
  unfold mulVecF
  simp only [Finset.sum_mul]
  rw [Finset.sum_comm]
  apply Finset.sum_congr rfl
  intro j hj
  rw [← h j (Finset.mem_range.1 hj), Finset.mul_sum]
  apply Finset.sum_congr rfl
  intro r _
  ring

/-- Core of C04 at the level of the closed-form matrix: value version. -/
theorem spline_codeF (s : Side) (τ : ℕ → K) (hτ : Monotone τ) (μ : ℕ) (x : K) (q n : ℕ)
    (hμ : 1 ≤ μ) (hx : τ (μ-1) ≤ x ∧ x ≤ τ μ) (c : ℕ → K) (t : K) :
    splineVal s (insertSeq τ μ x) q (n+1) (mulVecF (codeF τ x (q+1) μ) n c) t
      = splineVal s τ q n c t := by
  unfold splineVal
  apply sum_mulVecF
  intro j hj
  rw [sum_codeF_col τ x (q+1) μ _ j (n+1) (by omega), gd_eq, gs_eq]
  obtain ⟨hlo, hhi⟩ := bo_bounds τ hτ μ x hx
  have hσ : Monotone (insertSeq τ μ x) := bo_insertSeq_mono τ hτ μ x hlo hhi
  rw [code_of_boehm τ hτ μ x hμ hx q (fun i => B s τ q i t) (fun i => B s (insertSeq τ μ x) q i t)
    (fun i => boehm s τ hτ μ x hμ hx q i t) (fun i h => bo_B_eq_zero s _ hσ q i t h) j]
  simp only [show j + (q + 1) = j + q + 1 by omega]

/-- Core of C04 at the level of the closed-form matrix: all derivatives. -/
theorem splineDeriv_codeF (s : Side) (τ : ℕ → K) (hτ : Monotone τ) (μ : ℕ) (x : K) (q n : ℕ)
    (hμ : 1 ≤ μ) (hx : τ (μ-1) ≤ x ∧ x ≤ τ μ) (c : ℕ → K) (d : ℕ) (t : K) :
    splineDeriv s (insertSeq τ μ x) q (n+1) (mulVecF (codeF τ x (q+1) μ) n c) d t
      = splineDeriv s τ q n c d t := by
  unfold splineDeriv
  apply sum_mulVecF
  intro j hj
  rw [sum_codeF_col τ x (q+1) μ _ j (n+1) (by omega), gd_eq, gs_eq]
  obtain ⟨hlo, hhi⟩ := bo_bounds τ hτ μ x hx
  have hσ : Monotone (insertSeq τ μ x) := bo_insertSeq_mono τ hτ μ x hlo hhi
  rw [code_of_boehm τ hτ μ x hμ hx q (fun i => dB s τ q i d t)
    (fun i => dB s (insertSeq τ μ x) q i d t)
    (fun i => boehm_dB s τ hτ μ x hμ hx q i d t) (fun i h => bo_dB_eq_zero s _ hσ q i d t h) j]
  simp only [show j + (q + 1) = j + q + 1 by omega]

end C04
end Splipy
