import Mathlib.Tactic.Ring
import Mathlib.Tactic.Linarith
import Mathlib.Algebra.BigOperators.Group.List.Basic
import Mathlib.Data.List.GetD
import Splipy.Model.IOTokens

/-! Index algebra behind `reshape(..., order='F')`: ravel/unravel in both orders are mutually
inverse on valid indices, hence the two re-orderings of a control net are mutually inverse. -/

namespace Splipy.FileIO

theorem idxOk_length : ∀ {shape idx : List ℕ}, IdxOk shape idx → idx.length = shape.length
  | [], [], _ => rfl
  | [], _ :: _, h => h.elim
  | _ :: _, [], h => h.elim
  | _ :: s, _ :: is, h => by simp [idxOk_length (shape := s) (idx := is) h.2]

theorem ravelC_lt : ∀ {shape idx : List ℕ}, IdxOk shape idx → ravelC shape idx < shape.prod
  | [], [], _ => by simp [ravelC]
  | [], _ :: _, h => h.elim
  | _ :: _, [], h => h.elim
  | n :: s, i :: is, h => by
    have h1 : i < n := h.1
    have h2 := ravelC_lt (shape := s) (idx := is) h.2
    simp only [ravelC, List.prod_cons]
    calc i * s.prod + ravelC s is < i * s.prod + s.prod := by omega
      _ = (i + 1) * s.prod := by ring
      _ ≤ n * s.prod := Nat.mul_le_mul_right _ h1

theorem ravelF_lt : ∀ {shape idx : List ℕ}, IdxOk shape idx → ravelF shape idx < shape.prod
  | [], [], _ => by simp [ravelF]
  | [], _ :: _, h => h.elim
  | _ :: _, [], h => h.elim
  | n :: s, i :: is, h => by
    have h1 : i < n := h.1
    have h2 := ravelF_lt (shape := s) (idx := is) h.2
    simp only [ravelF, List.prod_cons]
    calc i + n * ravelF s is < n + n * ravelF s is := by omega
      _ = n * (ravelF s is + 1) := by ring
      _ ≤ n * s.prod := Nat.mul_le_mul_left _ h2

theorem unravelC_ok : ∀ (shape : List ℕ) (pos : ℕ), pos < shape.prod → IdxOk shape (unravelC shape pos)
  | [], _, _ => trivial
  | n :: s, pos, h => by
    simp only [List.prod_cons] at h
    have hs : 0 < s.prod := by
      rcases Nat.eq_zero_or_pos s.prod with h0 | h0
      · simp [h0] at h
      · exact h0
    refine ⟨?_, unravelC_ok s _ (Nat.mod_lt _ hs)⟩
    rw [Nat.div_lt_iff_lt_mul hs]; exact h

theorem unravelF_ok : ∀ (shape : List ℕ) (k : ℕ), k < shape.prod → IdxOk shape (unravelF shape k)
  | [], _, _ => trivial
  | n :: s, k, h => by
    simp only [List.prod_cons] at h
    have hn : 0 < n := by
      rcases Nat.eq_zero_or_pos n with h0 | h0
      · simp [h0] at h
      · exact h0
    refine ⟨Nat.mod_lt _ hn, unravelF_ok s _ ?_⟩
    rw [Nat.div_lt_iff_lt_mul hn, Nat.mul_comm]; exact h

theorem ravelC_unravelC : ∀ (shape : List ℕ) (pos : ℕ), pos < shape.prod →
    ravelC shape (unravelC shape pos) = pos
  | [], pos, h => by simp at h; simp [ravelC, h]
  | n :: s, pos, h => by
    simp only [List.prod_cons] at h
    have hs : 0 < s.prod := by
      rcases Nat.eq_zero_or_pos s.prod with h0 | h0
      · simp [h0] at h
      · exact h0
    simp only [unravelC, ravelC, ravelC_unravelC s _ (Nat.mod_lt _ hs)]
    rw [Nat.mul_comm]; exact Nat.div_add_mod pos s.prod

theorem unravelC_ravelC : ∀ {shape idx : List ℕ}, IdxOk shape idx →
    unravelC shape (ravelC shape idx) = idx
  | [], [], _ => rfl
  | [], _ :: _, h => h.elim
  | _ :: _, [], h => h.elim
  | n :: s, i :: is, h => by
    have h2 := ravelC_lt (shape := s) (idx := is) h.2
    have hs : 0 < s.prod := by omega
    simp only [ravelC, unravelC]
    have e1 : (i * s.prod + ravelC s is) / s.prod = i := by
      rw [Nat.mul_comm, Nat.mul_add_div hs, Nat.div_eq_of_lt h2]; simp
    have e2 : (i * s.prod + ravelC s is) % s.prod = ravelC s is := by
      rw [Nat.mul_comm, Nat.mul_add_mod, Nat.mod_eq_of_lt h2]
    rw [e1, e2, unravelC_ravelC h.2]

theorem ravelF_unravelF : ∀ (shape : List ℕ) (k : ℕ), k < shape.prod →
    ravelF shape (unravelF shape k) = k
  | [], k, h => by simp at h; simp [ravelF, h]
  | n :: s, k, h => by
    simp only [List.prod_cons] at h
    have hn : 0 < n := by
      rcases Nat.eq_zero_or_pos n with h0 | h0
      · simp [h0] at h
      · exact h0
    have hk : k / n < s.prod := by
      rw [Nat.div_lt_iff_lt_mul hn, Nat.mul_comm]; exact h
    simp only [unravelF, ravelF, ravelF_unravelF s _ hk]
    exact Nat.mod_add_div k n

theorem unravelF_ravelF : ∀ {shape idx : List ℕ}, IdxOk shape idx →
    unravelF shape (ravelF shape idx) = idx
  | [], [], _ => rfl
  | [], _ :: _, h => h.elim
  | _ :: _, [], h => h.elim
  | n :: s, i :: is, h => by
    have h1 : i < n := h.1
    have hn : 0 < n := by omega
    simp only [ravelF, unravelF]
    have e1 : (i + n * ravelF s is) % n = i := by
      rw [Nat.add_mul_mod_self_left, Nat.mod_eq_of_lt h1]
    have e2 : (i + n * ravelF s is) / n = ravelF s is := by
      rw [Nat.add_mul_div_left _ _ hn, Nat.div_eq_of_lt h1]; simp
    rw [e1, e2, unravelF_ravelF h.2]

theorem fToC_lt {shape : List ℕ} {k : ℕ} (h : k < shape.prod) : fToC shape k < shape.prod :=
  ravelC_lt (unravelF_ok shape k h)

theorem cToF_lt {shape : List ℕ} {c : ℕ} (h : c < shape.prod) : cToF shape c < shape.prod :=
  ravelF_lt (unravelC_ok shape c h)

theorem cToF_fToC {shape : List ℕ} {k : ℕ} (h : k < shape.prod) : cToF shape (fToC shape k) = k := by
  unfold cToF fToC
  rw [unravelC_ravelC (unravelF_ok shape k h), ravelF_unravelF shape k h]

theorem fToC_cToF {shape : List ℕ} {c : ℕ} (h : c < shape.prod) : fToC shape (cToF shape c) = c := by
  unfold cToF fToC
  rw [unravelF_ravelF (unravelC_ok shape c h), ravelC_unravelC shape c h]

/-- Appending a slowest... fastest axis in C order. -/
theorem ravelC_snoc : ∀ (s is : List ℕ) (n i : ℕ), is.length = s.length →
    ravelC (s ++ [n]) (is ++ [i]) = ravelC s is * n + i
  | [], [], n, i, _ => by simp [ravelC]
  | [], _ :: _, _, _, h => by simp at h
  | _ :: _, [], _, _, h => by simp at h
  | m :: s, j :: is, n, i, h => by
    have h' : is.length = s.length := by simpa using h
    simp only [List.cons_append, ravelC, ravelC_snoc s is n i h', List.prod_append, List.prod_cons,
      List.prod_nil]
    ring

/-- numpy's "reshape to the reversed shape, then reverse the axes" reads first-index-fastest. -/
theorem ravelC_reverse : ∀ {shape idx : List ℕ}, idx.length = shape.length →
    ravelC shape.reverse idx.reverse = ravelF shape idx
  | [], [], _ => rfl
  | [], _ :: _, h => by simp at h
  | _ :: _, [], h => by simp at h
  | n :: s, i :: is, h => by
    have h' : is.length = s.length := by simpa using h
    rw [List.reverse_cons, List.reverse_cons, ravelC_snoc _ _ _ _ (by simpa using h'),
      ravelC_reverse h']
    simp only [ravelF]; ring

variable {P : Type} [Inhabited P]

theorem length_flattenF (shape : List ℕ) (net : List P) : (flattenF shape net).length = shape.prod := by
  simp [flattenF]

theorem length_unflattenF (shape : List ℕ) (rows : List P) :
    (unflattenF shape rows).length = shape.prod := by
  simp [unflattenF]

theorem getElem_flattenF (shape : List ℕ) (net : List P) (hn : net.length = shape.prod) (k : ℕ)
    (hk : k < shape.prod) :
    (flattenF shape net)[k]'(by simpa [flattenF] using hk) =
      net[fToC shape k]'(by rw [hn]; exact fToC_lt hk) := by
  simp only [flattenF, List.getElem_map, List.getElem_range]
  exact List.getD_eq_getElem _ _ (by rw [hn]; exact fToC_lt hk)

theorem getElem_unflattenF (shape : List ℕ) (rows : List P) (hn : rows.length = shape.prod) (c : ℕ)
    (hc : c < shape.prod) :
    (unflattenF shape rows)[c]'(by simpa [unflattenF] using hc) =
      rows[cToF shape c]'(by rw [hn]; exact cToF_lt hc) := by
  simp only [unflattenF, List.getElem_map, List.getElem_range]
  exact List.getD_eq_getElem _ _ (by rw [hn]; exact cToF_lt hc)

theorem unflattenF_flattenF (shape : List ℕ) (net : List P) (hn : net.length = shape.prod) :
    unflattenF shape (flattenF shape net) = net := by
  apply List.ext_getElem
  · simp [unflattenF, hn]
  · intro c h1 h2
    have hc : c < shape.prod := by simpa [unflattenF] using h1
    rw [getElem_unflattenF shape _ (length_flattenF shape net) c hc,
      getElem_flattenF shape net hn _ (cToF_lt hc)]
    simp [fToC_cToF hc]

theorem flattenF_unflattenF (shape : List ℕ) (rows : List P) (hn : rows.length = shape.prod) :
    flattenF shape (unflattenF shape rows) = rows := by
  apply List.ext_getElem
  · simp [flattenF, hn]
  · intro k h1 h2
    have hk : k < shape.prod := by simpa [flattenF] using h1
    rw [getElem_flattenF shape _ (length_unflattenF shape rows) k hk,
      getElem_unflattenF shape rows hn _ (fToC_lt hk)]
    simp [cToF_fToC hk]

/-- `splipy.utils.reshape(…, order='F')` is the inverse re-ordering `unflattenF`. -/
theorem reshapeF_eq_unflattenF (shape : List ℕ) (rows : List P) :
    reshapeF shape rows = unflattenF shape rows := by
  unfold reshapeF unflattenF
  apply List.map_congr_left
  intro c hc
  have hc' : c < shape.prod := by simpa using hc
  rw [ravelC_reverse (idxOk_length (unravelC_ok shape c hc'))]
  rfl

end Splipy.FileIO
