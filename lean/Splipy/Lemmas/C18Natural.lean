import Splipy.Lemmas.C18Idem

/-!
# C18 — when no junk is read, the read phase commutes with EVERY relabelling of the entries
-/

set_option linter.unusedSectionVars false

namespace Splipy.MP.C18L

open Splipy.MP

variable {α β : Type} [Inhabited α] [Inhabited β]

omit [Inhabited α] [Inhabited β] in
theorem ndmap_map {γ : Type} (f : α → β) (g : β → γ) (a : NdArr α) : (a.map f).map g = a.map (fun x => g (f x)) := by
  simp [NdArr.map, Function.comp_def]

omit [Inhabited α] [Inhabited β] in
theorem arrmap_map {γ : Type} (f : α → β) (g : β → γ) (A : Array (NdArr α)) :
    (A.map (NdArr.map f)).map (NdArr.map g) = A.map (NdArr.map (fun x => g (f x))) := by
  rw [Array.map_map]
  congr 1
  funext a
  exact ndmap_map f g a

omit [Inhabited β] in
theorem const_true_eq (plans : List PatchPlan) (A : Array (NdArr α)) (hsh : Shaped plans A) (hsz : A.size = plans.length) :
    A.map (NdArr.map (fun _ => true)) = (trueArrays plans).toArray := by
  apply Array.ext
  · simp [trueArrays, hsz]
  · intro i h1 h2
    have hi : i < plans.length := by simpa [hsz] using h1
    obtain ⟨hs, hw⟩ := hsh i plans[i] (by simp [hi])
    have hA : A.getD i default = A[i]'(by simpa using h1) := by
      simp [Array.getD, (by simpa using h1 : i < A.size)]
    rw [hA] at hs hw
    simp only [Array.getElem_map, trueArrays, List.getElem_toArray, List.getElem_map]
    unfold NdArr.SizeOK at hw
    cases hAi : A[i]'(by simpa using h1) with
    | mk sh da =>
      rw [hAi] at hs hw
      simp only at hs hw
      subst hs
      simp only [NdArr.map, NdArr.full]
      congr 1
      apply Array.ext
      · simp [hw]
      · intro j _ _; simp

/-- **naturality for arbitrary relabellings** under the guard `noJunkB`. -/
theorem readAllG_map_any (plans : List PatchPlan) (hnj : noJunkB plans = true) (A : Array (NdArr α))
    (hsh : Shaped plans A) (hsz : A.size = plans.length) (f : α → β) :
    readAllG plans (A.map (NdArr.map f)) = (readAllG plans A).map (fun B => B.map (NdArr.map f)) := by
  have hT : readAllG plans (trueArrays plans).toArray = .ok (trueArrays plans).toArray := by
    simpa [noJunkB] using hnj
  -- the entries tagged with `true`
  set C : Array (NdArr (α × Bool)) := A.map (NdArr.map (fun x => (x, true))) with hC
  have hCsnd : C.map (NdArr.map Prod.snd) = (trueArrays plans).toArray := by
    rw [hC, arrmap_map]; exact const_true_eq plans A hsh hsz
  have hCfst : C.map (NdArr.map Prod.fst) = A := by
    rw [hC, arrmap_map]
    apply Array.ext (by simp)
    intro i h1 h2
    simp [NdArr.map]
  let f' : α × Bool → β := fun z => if z.2 then f z.1 else default
  have hf' : f' default = default := by
    have hb : (default : α × Bool).2 = false := rfl
    simp [f', hb]
  have hCf : C.map (NdArr.map f') = A.map (NdArr.map f) := by
    rw [hC, arrmap_map]
    simp [f']
  have n1 := readAllG_map (Prod.fst : α × Bool → α) rfl plans C
  have n2 := readAllG_map (Prod.snd : α × Bool → Bool) rfl plans C
  have n3 := readAllG_map f' hf' plans C
  rw [hCfst] at n1
  rw [hCsnd, hT] at n2
  rw [hCf] at n3
  rw [n3, n1]
  cases hD : readAllG plans C with
  | error e => rfl
  | ok D =>
    rw [hD] at n2
    simp only [Except.map, Except.ok.injEq] at n2 ⊢
    -- all tags of `D` are `true`
    rw [arrmap_map]
    apply Array.ext (by simp)
    intro i h1 h2
    simp only [Array.getElem_map]
    have hi : i < D.size := by simpa using h1
    have htag : (D[i]).map Prod.snd = ((trueArrays plans).toArray)[i]'(by rw [n2]; simpa using hi) := by
      have := congrArg (fun X => X[i]?) n2
      simp only [Array.getElem?_map, Array.getElem?_eq_getElem hi, Option.map_some] at this
      rw [Array.getElem?_eq_getElem (by rw [n2]; simpa using hi)] at this
      exact (Option.some.inj this).symm
    have hall : ∀ z ∈ (D[i]).data.toList, z.2 = true := by
      intro z hz
      have hm : z.2 ∈ ((D[i]).map Prod.snd).data.toList := by
        simp only [NdArr.map, Array.toList_map]; exact List.mem_map_of_mem hz
      rw [htag] at hm
      simp only [trueArrays, List.getElem_toArray, List.getElem_map, NdArr.full] at hm
      simpa using (List.mem_replicate.1 (by simpa using hm)).2
    simp only [NdArr.map]
    congr 1
    apply Array.ext (by simp)
    intro j g1 g2
    simp only [Array.getElem_map]
    have hz := hall ((D[i]).data[j]'(by simpa using g1)) (by simp)
    simp [f', hz]

end Splipy.MP.C18L
