import Splipy.Model.Numbering

/-!
# C18 — the two-cube witnesses: kernel evaluation of the modelled numbering algorithm

Two trilinear unit cubes.  In FACE contact the algorithm yields 12 numbers for 12 points; in
EDGE-only contact 16 numbers for 14 points, in CORNER-only contact 16 for 15.  Everything is
evaluated by the kernel on `numberPlans ∘ plansOfObjs` (no hash maps involved).
-/

namespace Splipy.MP.C18W

open Splipy Splipy.MP

def linB : Basis ℚ := { order := 2, knots := #[0, 0, 1, 1], periodic := -1 }

/-- the unit cube `[ox,ox+1] × [oy,oy+1] × [oz,oz+1]`, trilinear -/
def unitCube (ox oy oz : ℚ) : Obj :=
  { bases := [linB, linB, linB]
    cps := NdArr.ofFn [2, 2, 2] (fun i => [ox + (i.getD 0 0 : ℕ), oy + (i.getD 1 0 : ℕ), oz + (i.getD 2 0 : ℕ)])
    rational := false }

def faceContact : List Obj := [unitCube 0 0 0, unitCube 1 0 0]
def edgeContact : List Obj := [unitCube 0 0 0, unitCube 1 1 0]
def cornerContact : List Obj := [unitCube 0 0 0, unitCube 1 1 1]

/-- all geometric control points of a history -/
def allPoints (objs : List Obj) : List (List ℚ) := objs.flatMap ptsOf

/-- the flat number arrays and `ncps` the modelled algorithm yields for a history -/
def numbersOf (objs : List Obj) : Option (List (List ℤ) × ℕ) :=
  match numberPlans (plansOfObjs objs) with
  | .ok r => some (r.1.toList.map (·.data.toList), r.2)
  | .error _ => none

set_option maxRecDepth 100000 in
theorem face_numbers : numbersOf faceContact =
    some ([[0, 1, 2, 3, 4, 5, 6, 7], [4, 5, 6, 7, 8, 9, 10, 11]], 12) := by decide +kernel

set_option maxRecDepth 100000 in
theorem edge_numbers : numbersOf edgeContact =
    some ([[0, 1, 2, 3, 4, 5, 6, 7], [8, 9, 10, 11, 12, 13, 14, 15]], 16) := by decide +kernel

set_option maxRecDepth 100000 in
theorem corner_numbers : numbersOf cornerContact =
    some ([[0, 1, 2, 3, 4, 5, 6, 7], [8, 9, 10, 11, 12, 13, 14, 15]], 16) := by decide +kernel

set_option maxRecDepth 100000 in
theorem point_counts : (allPoints faceContact).dedup.length = 12 ∧ (allPoints edgeContact).dedup.length = 14 ∧
    (allPoints cornerContact).dedup.length = 15 := by decide +kernel

set_option maxRecDepth 100000 in
theorem conforming : conformingNets faceContact = true ∧ conformingNets edgeContact = true ∧
    conformingNets cornerContact = true := by decide +kernel

/-- the two coincident points of the edge-contact pair: corner `(1,1,0)` is control point 6 of the
    first cube and control point 0 of the second -/
theorem edge_coincidence : (ptsOf (edgeContact.getD 0 default)).getD 6 [] = (ptsOf (edgeContact.getD 1 default)).getD 0 [] := by
  decide +kernel

theorem corner_coincidence : (ptsOf (cornerContact.getD 0 default)).getD 7 [] = (ptsOf (cornerContact.getD 1 default)).getD 0 [] := by
  decide +kernel

/-- the number arrays of the face-contact pair -/
def faceN : Array (NdArr ℤ) :=
  #[⟨[2, 2, 2], #[0, 1, 2, 3, 4, 5, 6, 7]⟩, ⟨[2, 2, 2], #[4, 5, 6, 7, 8, 9, 10, 11]⟩]

set_option maxRecDepth 100000 in
/-- on the face-contact pair the control nets have the shapes of the number arrays, are transported
    onto themselves by the face links, and the algorithm yields 12 numbers -/
theorem face_plan_run :
    List.Forall₂ (fun (n : NdArr ℤ) (p : NdArr (List ℚ)) => n.shape = p.shape ∧ n.data.size = p.data.size)
      (generateAll (plansOfObjs faceContact) 0).1 (faceContact.map (·.cps)) ∧
    readAllG (plansOfObjs faceContact) (faceContact.map (·.cps)).toArray = .ok (faceContact.map (·.cps)).toArray ∧
    numberPlans (plansOfObjs faceContact) = .ok (faceN, 12) := by
  refine ⟨?_, ?_, ?_⟩
  · decide +kernel
  · decide +kernel
  · decide +kernel

/-- `cps()` of the face-contact pair -/
def faceCps : Array (List ℚ) :=
  #[[0, 0, 0], [0, 0, 1], [0, 1, 0], [0, 1, 1], [1, 0, 0], [1, 0, 1], [1, 1, 0], [1, 1, 1],
    [2, 0, 0], [2, 0, 1], [2, 1, 0], [2, 1, 1]]

set_option maxRecDepth 100000 in
theorem face_cps : faceCps.size = 12 ∧ cpsTable 3 faceContact faceN 12 = .ok faceCps := by
  refine ⟨rfl, ?_⟩
  decide +kernel

set_option maxRecDepth 100000 in
theorem star_witnesses : starOK (plansOfObjs faceContact) (geomArrays faceContact) = true ∧
    starOK (plansOfObjs edgeContact) (geomArrays edgeContact) = false ∧
    starOK (plansOfObjs cornerContact) (geomArrays cornerContact) = false := by
  refine ⟨?_, ?_, ?_⟩ <;> decide +kernel

set_option maxRecDepth 100000 in
theorem guards_witnesses : wellOrderedB (plansOfObjs edgeContact) = true ∧ noJunkB (plansOfObjs edgeContact) = true ∧
    wellOrderedB (plansOfObjs faceContact) = true ∧ noJunkB (plansOfObjs faceContact) = true := by
  refine ⟨?_, ?_, ?_, ?_⟩ <;> decide +kernel

theorem face_points_nonjunk : ∀ p ∈ (faceContact.map (·.cps)).flatMap (·.data.toList), p ≠ (default : List ℚ) := by
  decide +kernel

theorem getD_toList (N : Array (NdArr ℤ)) (k j : ℕ) :
    (N.getD k default).data.getD j 0 = ((N.toList.map (·.data.toList)).getD k []).getD j 0 := by
  simp only [Array.getD_eq_getD_getElem?, List.getD_eq_getElem?_getD, List.getElem?_map, Array.getElem?_toList]
  cases N[k]? with
  | none =>
    have hd : (default : NdArr ℤ).data = #[] := rfl
    simp [hd]
  | some a => simp


end Splipy.MP.C18W
