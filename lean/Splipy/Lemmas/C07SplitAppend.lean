import Splipy.Lemmas.C07AppendObj
import Splipy.Lemmas.Smooth
import Splipy.Lemmas.C07OpenEval

/-!
# `split` followed by `append` gives back the original map (curves, one split value)
-/

namespace Splipy

set_option linter.unusedSectionVars false
set_option linter.unusedVariables false

open C04 C10

variable {K : Type} [Field K] [LinearOrder K] [IsStrictOrderedRing K] [FloorRing K]

/-- Value of a spline at a clamped start, from the right: the first control point. -/
theorem splineVal_clamped_start (τ : ℕ → K) (hτ : Monotone τ) (q n : ℕ) (hn : 1 ≤ n)
    (h0 : τ 0 = τ q) (hlt : τ q < τ (q+1)) (c : ℕ → K) :
    splineVal .right τ q n c (τ q) = c 0 := by
  have hB0 : B .right τ q 0 (τ q) = 1 := B_clamped_start τ hτ q h0 hlt
  have hpart := B_partition_right τ hτ q q (le_refl q) (τ q) ⟨le_refl _, hlt⟩
  rw [Nat.sub_self] at hpart
  have hzero : ∀ i, 1 ≤ i → B .right τ q i (τ q) = 0 := by
    intro i hi
    rcases Nat.lt_or_ge q i with h | h
    · exact B_support_right τ hτ q i _ (Or.inl (lt_of_lt_of_le hlt (hτ h)))
    · have hmem : i ∈ (Finset.Icc 0 q).erase 0 := by
        rw [Finset.mem_erase, Finset.mem_Icc]; exact ⟨by omega, by omega, h⟩
      have hsplit := Finset.add_sum_erase (Finset.Icc 0 q) (fun j => B .right τ q j (τ q))
        (show 0 ∈ Finset.Icc 0 q by rw [Finset.mem_Icc]; omega)
      rw [hpart, hB0] at hsplit
      have hle := Finset.single_le_sum (f := fun j => B .right τ q j (τ q))
        (fun j _ => B_nonneg .right τ hτ q j (τ q)) hmem
      have hnn := B_nonneg .right τ hτ q i (τ q)
      linarith
  unfold splineVal
  rw [Finset.sum_eq_single 0]
  · rw [hB0, mul_one]
  · intro i _ hi
    rw [hzero i (by omega), mul_zero]
  · intro h; exact absurd (Finset.mem_range.2 (by omega)) h

/-- Value of a spline at a clamped end, from the left: the last control point. -/
theorem splineVal_clamped_end (τ : ℕ → K) (hτ : Monotone τ) (q n : ℕ) (hn : q + 1 ≤ n)
    (h0 : τ n = τ (n + q)) (hlt : τ (n-1) < τ n) (c : ℕ → K) :
    splineVal .left τ q n c (τ n) = c (n - 1) := by
  have hB0 : B .left τ q (n-1) (τ n) = 1 := B_clamped_end τ hτ q n h0 hlt (by omega)
  have hpart := B_partition_left τ hτ q (n-1) (by omega) (τ n)
    ⟨hlt, by rw [show n - 1 + 1 = n by omega]⟩
  have hzero : ∀ i, i < n - 1 → B .left τ q i (τ n) = 0 := by
    intro i hi
    rcases Nat.lt_or_ge i (n - 1 - q) with h | h
    · exact B_support_left τ hτ q i _ (Or.inr (lt_of_le_of_lt (hτ (by omega)) hlt))
    · have hmem : i ∈ (Finset.Icc (n - 1 - q) (n - 1)).erase (n - 1) := by
        rw [Finset.mem_erase, Finset.mem_Icc]; exact ⟨by omega, h, by omega⟩
      have hsplit := Finset.add_sum_erase (Finset.Icc (n - 1 - q) (n - 1))
        (fun j => B .left τ q j (τ n))
        (show n - 1 ∈ Finset.Icc (n - 1 - q) (n - 1) by rw [Finset.mem_Icc]; omega)
      rw [hpart, hB0] at hsplit
      have hle := Finset.single_le_sum (f := fun j => B .left τ q j (τ n))
        (fun j _ => B_nonneg .left τ hτ q j (τ n)) hmem
      have hnn := B_nonneg .left τ hτ q i (τ n)
      linarith
  unfold splineVal
  rw [Finset.sum_eq_single (n - 1)]
  · rw [hB0, mul_one]
  · intro i hi hne
    rw [Finset.mem_range] at hi
    rw [hzero i (by omega), mul_zero]
  · intro h; exact absurd (Finset.mem_range.2 (by omega)) h

/-- A spline is continuous at a value whose multiplicity is at most the degree. -/
theorem splineVal_left_eq_right {b : Basis K} (hv : b.Valid) (x : K) (hx : x < b.stop)
    (hm : b.mult x ≤ b.order - 1) (n : ℕ) (c : ℕ → K) :
    splineVal .left b.kn (b.order - 1) n c x = splineVal .right b.kn (b.order - 1) n c x := by
  unfold splineVal
  apply Finset.sum_congr rfl
  intro i _
  congr 1
  apply B_left_eq_right b.kn hv.kn_mono x (b.order - 1) (b.order - 1) i (le_refl _)
  intro j hj hj2
  have hp := hv.order_pos
  have hsz := hv.size_ge
  -- a run of `q+1` copies would give multiplicity `≥ q+1`
  have hjs : j + (b.order - 1) < b.knots.size := by
    by_contra hc
    have h1 : b.kn (b.knots.size - b.order) ≤ b.kn (j + (b.order - 1)) := hv.kn_mono (by omega)
    rw [hj2] at h1
    exact absurd hx (not_lt.2 h1)
  have hrun : ∀ l, j ≤ l → l ≤ j + (b.order - 1) → b.kn l = x := by
    intro l h1 h2
    exact le_antisymm (by rw [← hj2]; exact hv.kn_mono h2) (by rw [← hj]; exact hv.kn_mono h1)
  obtain ⟨g1, g2⟩ := Basis.run_le_mult hv x j (j + (b.order - 1)) (by omega) hjs hrun
  unfold Basis.mult at hm
  omega

theorem curve_outer_inner {o : Obj K} (h : o.WellFormed) (h1 : o.bases.size = 1) :
    outerN o 0 = 1 ∧ innerN o 0 = o.ncomp := by
  have hb := bases_singleton o h1
  have hs : o.cps.shape = [(o.basis 0).numFunctions, o.ncomp] := by
    rw [h.shape_eq']; unfold Obj.counts; rw [hb]; rfl
  unfold outerN innerN
  rw [hs]
  simp [Tensor.split3, Tensor.prod]

/-- **`split` at one value, then `append`: the original map** (curves of order `≥ 2`, the value not
a `C⁻¹` knot of the original). -/
theorem split_append_curve {o : Obj K} (h : o.WellFormed) (h1 : o.bases.size = 1)
    (hper : (o.basis 0).periodic = -1) (hq : 2 ≤ (o.basis 0).order) {tol : K} (htol : 0 < tol)
    (k : K) (hk : SplitOK (o.basis 0) tol [k])
    (hcont : (o.basis 0).mult k ≤ (o.basis 0).order - 1) :
    ∃ p0 p1 r, o.split tol [k] 0 = .ok (.many [p0, p1]) ∧
      p0.appendCurve p1 tol = .ok (some r) ∧ r.WellFormed ∧ r.bases.size = 1 ∧
      (r.basis 0).periodic = -1 ∧ (r.basis 0).order = (o.basis 0).order ∧
      (r.basis 0).start = (o.basis 0).start ∧ (r.basis 0).stop = (o.basis 0).stop ∧
      r.rational = o.rational ∧ r.ncomp = o.ncomp ∧
      ∀ i, i < o.ncomp → ∀ (s : Side) (t : K), s.mem (o.basis 0).start (o.basis 0).stop t →
        splineVal s (r.basis 0).kn ((o.basis 0).order - 1) (r.basis 0).numFunctions (fibre r 0 0 i) t
          = splineVal s (o.basis 0).kn ((o.basis 0).order - 1) (o.basis 0).numFunctions
              (fibre o 0 0 i) t := by
  obtain ⟨⟨hk1, hk2⟩, _, _⟩ := hk k List.mem_cons_self
  obtain ⟨ps, hsplit, hall⟩ := split_open_obj h 0 (by omega) hper htol [k] hk
    (List.pairwise_singleton _ _)
  -- two pieces
  obtain ⟨p0, p1, rfl, P0, P1⟩ : ∃ p0 p1, ps = [p0, p1] ∧
      PieceOK o 0 p0 (o.basis 0).start k ∧ PieceOK o 0 p1 k (o.basis 0).stop := by
    unfold ivalsAll at hall
    cases hall with
    | cons h0 hrest =>
      unfold ivalsAll at hrest
      cases hrest with
      | cons h1' hnil =>
        cases hnil
        exact ⟨_, _, rfl, h0, h1'⟩
  obtain ⟨hout, hinn⟩ := curve_outer_inner h h1
  have hs0 : p0.bases.size = 1 := P0.bases_size.trans h1
  have hs1 : p1.bases.size = 1 := P1.bases_size.trans h1
  obtain ⟨hout0, hinn0⟩ := curve_outer_inner P0.wf hs0
  obtain ⟨hout1, hinn1⟩ := curve_outer_inner P1.wf hs1
  have hnc0 : p0.ncomp = o.ncomp := by rw [← hinn0, P0.inner_eq, hinn]
  have hnc1 : p1.ncomp = o.ncomp := by rw [← hinn1, P1.inner_eq, hinn]
  have hv0 : (p0.basis 0).Valid := P0.wf.valid 0 (by omega)
  have hv1 : (p1.basis 0).Valid := P1.wf.valid 0 (by omega)
  have hvo : (o.basis 0).Valid := h.valid 0 (by omega)
  have hn0 : (p0.basis 0).nAll = (p0.basis 0).numFunctions :=
    (Basis.numFunctions_of_nonperiodic P0.periodic_eq).symm
  have hstop0 : (p0.basis 0).kn (p0.basis 0).numFunctions = k := by rw [← hn0]; exact P0.stop_eq
  have hkne_stop : k ≠ (o.basis 0).stop := ne_of_lt hk2
  have hkne_start : k ≠ (o.basis 0).start := ne_of_gt hk1
  have hce := P0.clamped_end hkne_stop
  have hse := P0.strict_end hkne_stop
  have hcs := P1.clamped_start hkne_start
  have hss := P1.strict_start hkne_start (by omega)
  have hstart1 : (p1.basis 0).kn ((o.basis 0).order - 1) = k := by
    rw [← P1.order_eq]; exact P1.start_eq
  have hn0p : (o.basis 0).order ≤ (p0.basis 0).numFunctions := by
    have := hv0.size_ge; have := hv0.nAll_add; rw [hn0, P0.order_eq] at *; omega
  -- the joint: both one-sided values of the original at `k`
  have hjoint : ∀ i, i < p0.ncomp →
      fibre p0 0 0 i ((p0.basis 0).numFunctions - 1) = fibre p1 0 0 i 0 := by
    intro i hi
    rw [hnc0] at hi
    have hL := splineVal_clamped_end (p0.basis 0).kn hv0.kn_mono ((o.basis 0).order - 1)
      (p0.basis 0).numFunctions (by omega)
      (by rw [hstop0, show (p0.basis 0).numFunctions + ((o.basis 0).order - 1)
            = (p0.basis 0).numFunctions + (o.basis 0).order - 1 by omega, hce])
      (by rw [hstop0]; exact hse) (fibre p0 0 0 i)
    rw [hstop0] at hL
    have hR := splineVal_clamped_start (p1.basis 0).kn hv1.kn_mono ((o.basis 0).order - 1)
      (p1.basis 0).numFunctions hv1.numFunctions_pos (by rw [hcs, hstart1])
      (by rw [hstart1, show (o.basis 0).order - 1 + 1 = (o.basis 0).order by omega]; exact hss)
      (fibre p1 0 0 i)
    rw [hstart1] at hR
    have e0 := P0.same 0 i (by rw [hout]; omega) (by rw [hinn]; exact hi) .left 0 k
      ⟨hk1, le_refl _⟩
    have e1 := P1.same 0 i (by rw [hout]; omega) (by rw [hinn]; exact hi) .right 0 k
      ⟨le_refl _, hk2⟩
    rw [splineDeriv_zero, splineDeriv_zero] at e0 e1
    rw [← hL, ← hR, e0, e1]
    exact splineVal_left_eq_right hvo k hk2 hcont _ _
  obtain ⟨r, happ, hwf, hrs, hrper, hrord, hrnum, hrstart, hrstop, hrrat, hrnc, hgeo⟩ :=
    appendCurve_obj P0.wf P1.wf hs0 hs1 P0.periodic_eq P1.periodic_eq
      (P1.rational_eq.trans P0.rational_eq.symm)
      (by unfold Obj.dimension; rw [hnc0, hnc1, P0.rational_eq, P1.rational_eq])
      (P1.order_eq.trans P0.order_eq.symm) (by rw [P0.order_eq]; exact hq)
      (by rw [P0.order_eq, hstop0, show (p0.basis 0).numFunctions + ((o.basis 0).order - 1)
            = (p0.basis 0).numFunctions + (o.basis 0).order - 1 by omega, hce])
      (by rw [P0.order_eq, hcs, hstart1]) hjoint (le_of_lt htol)
  refine ⟨p0, p1, r, hsplit, happ, hwf, hrs, hrper, hrord.trans P0.order_eq,
    hrstart.trans P0.start_eq, ?_, hrrat.trans P0.rational_eq, hrnc.trans hnc0, ?_⟩
  · rw [hrstop, P0.stop_eq, P1.stop_eq, P1.start_eq]; ring
  · intro i hi s t ht
    obtain ⟨hA, hB⟩ := hgeo i (by rw [hnc0]; exact hi) s t
    rw [P0.order_eq, P0.stop_eq] at hA hB
    rw [Side.mem_iff] at ht
    rcases Side.before_or_after s t k with hb | ha
    · rw [hA hb]
      have := P0.same 0 i (by rw [hout]; omega) (by rw [hinn]; exact hi) s 0 t
        ((Side.mem_iff s _ _ t).2 ⟨ht.1, hb⟩)
      rw [splineDeriv_zero, splineDeriv_zero] at this
      exact this
    · rw [hB ha, P1.start_eq, sub_self, sub_zero]
      have := P1.same 0 i (by rw [hout]; omega) (by rw [hinn]; exact hi) s 0 t
        ((Side.mem_iff s _ _ t).2 ⟨ha, ht.2⟩)
      rw [splineDeriv_zero, splineDeriv_zero] at this
      exact this

end Splipy
