import Splipy.Lemmas.C16Bridge
import Splipy.Lemmas.C16CenterReal
import Splipy.Lemmas.C16Vector
import Splipy.Properties.C04

/-!
# C16: representation independence of the executable curvature / torsion data

Knot insertion (`Obj.insertKnots`, property C04) leaves every specification derivative vector of a
non-rational curve unchanged, hence `curvatureData` / `torsionData` at the same parameters.
Rotations and uniform scalings of the control net act on the data as the node-wise algebra of
`Lemmas/C16Vector.lean` says.
-/

namespace Splipy

open Measure

variable {K : Type} [Field K] [LinearOrder K] [IsStrictOrderedRing K] [FloorRing K]

namespace Obj

omit [LinearOrder K] [IsStrictOrderedRing K] [FloorRing K] in
theorem bases_eq_singleton_c16 (o : Obj K) (h : o.bases.size = 1) : o.bases = #[o.basis 0] := by
  have hl : o.bases.toList.length = 1 := by simpa using h
  match hh : o.bases.toList, hl with
  | [x], _ =>
    have hx : o.bases = #[x] := by
      rw [← Array.toArray_toList (xs := o.bases), hh]
    have hx0 : o.basis 0 = x := by unfold basis; rw [hx]; rfl
    rw [hx0, hx]

/-- A non-rational curve after `insert_knot(xs)`: new basis `b1'` (valid, non-periodic, same
domain), control net `num_functions' × nc`, and EVERY specification derivative vector unchanged. -/
theorem curve_insert_specD1 {o o' : Obj K} {b1 : Basis K} (hb : o.bases = #[b1]) (hv1 : b1.Valid)
    (hper : b1.periodic = -1) {nc : ℕ} (hs : o.cps.shape = [b1.numFunctions, nc]) (xs : List K)
    (hxs : ∀ x ∈ xs, b1.start ≤ x ∧ x < b1.stop) (ho' : o.insertKnots xs 0 = .ok o') :
    ∃ b1', o'.bases = #[b1'] ∧ b1'.Valid ∧ b1'.periodic = -1 ∧
      o'.cps.shape = [b1'.numFunctions, nc] ∧ o'.rational = o.rational ∧
      b1'.start = b1.start ∧ b1'.stop = b1.stop ∧
      ∀ u a d, o'.specD1 b1' nc u a d = o.specD1 b1 nc u a d := by
  have hb0 : o.basis 0 = b1 := by unfold basis; rw [hb]; rfl
  have hdir : 0 < o.bases.size := by rw [hb]; simp
  have hax : 0 < o.cps.shape.length := by rw [hs]; simp
  have hshape : o.cps.shape.getD 0 0 = (o.basis 0).numFunctions := by rw [hs, hb0]; rfl
  obtain ⟨o2, C, h1, h2, _, _, h5, _, _, _, _, _⟩ := C04_object o 0 hdir hax (hb0 ▸ hv1)
    (hb0 ▸ hper) hshape xs (hb0 ▸ hxs)
  rw [ho'] at h1
  cases h1
  obtain ⟨o3, h31, h32, _, _, h35⟩ := C04_curve o b1.numFunctions nc hs hdir (hb0 ▸ hv1)
    (hb0 ▸ hper) (by rw [hb0]) xs (hb0 ▸ hxs)
  rw [ho'] at h31
  cases h31
  rw [hb0] at h2 h35
  have hsz : o'.bases.size = 1 := by rw [insertKnots_bases_size o o' xs 0 ho', hb]; simp
  have hnum : (o'.basis 0).numFunctions = b1.numFunctions + xs.length := h2.num_eq
  refine ⟨o'.basis 0, bases_eq_singleton_c16 o' hsz, h2.valid, by rw [h2.periodic_eq, hper],
    by rw [h32, hnum], h5, h2.start_eq, h2.stop_eq, ?_⟩
  intro u a d
  unfold specD1
  congr 1
  funext c
  have e1 := C03_nonrational_curve_open (o'.basis 0) (by rw [h2.periodic_eq, hper])
    (o'.basis 0).numFunctions (fun j => o'.cps.get (j * nc + c.val)) u a d
  have e2 := C03_nonrational_curve_open b1 hper b1.numFunctions
    (fun j => o.cps.get (j * nc + c.val)) u a d
  simp only [Finset.sum_range] at e1 e2 ⊢
  simp only [← Finset.sum_range
    (fun j => (o'.basis 0).rowSpec u a d j * o'.cps.get (j * nc + c.val))] at e1 ⊢
  simp only [← Finset.sum_range (fun j => b1.rowSpec u a d j * o.cps.get (j * nc + c.val))] at e2 ⊢
  rw [e1, e2, h2.start_eq]
  split_ifs with hc
  · rfl
  · have hside : effSide (o'.basis 0) u a = effSide b1 u a := by
      unfold effSide
      rw [h2.stop_eq]
    rw [hside, h2.order_eq, hnum]
    exact (h35 c.val c.isLt (effSide b1 u a) u).2 d

/-- **Knot insertion leaves `curvatureData` unchanged** (non-rational space curve, same parameters,
admissible for both knot vectors). -/
theorem curvatureData_insertKnots {o o' : Obj K} {b1 : Basis K} (hb : o.bases = #[b1])
    (hv1 : b1.Valid) (hper : b1.periodic = -1) (hs : o.cps.shape = [b1.numFunctions, 3])
    (hr : o.rational = false) (xs : List K) (hxs : ∀ x ∈ xs, b1.start ≤ x ∧ x < b1.stop)
    (ho' : o.insertKnots xs 0 = .ok o') {tol : K} (htol : 0 < tol) {ts : List K} (hne : ts ≠ [])
    (hadm : ∀ u ∈ ts, b1.Admissible tol u)
    (hadm' : ∀ u ∈ ts, (o'.basis 0).Admissible tol u) (a : Bool)
    (hneA1 : b1.periodic < 0 → ts ≠ [] := by (first | assumption | (simp; done) | skip)) :
    o'.curvatureData tol ts a = o.curvatureData tol ts a := by
  obtain ⟨b1', hb', hv', _, hs', hr', _, _, hD⟩ := curve_insert_specD1 hb hv1 hper hs xs hxs ho'
  have hb0' : o'.basis 0 = b1' := by unfold basis; rw [hb']; rfl
  rw [hb0'] at hadm'
  have hneB1 : b1'.periodic < 0 → ts ≠ [] := by
    intro h
    first
      | exact hneA1 h | exact hneA2 h | exact hneA3 h | exact hneA4 h
      | exact hneA5 h | exact hneA6 h | exact hneA7 h | simpa using hneA1 h
      | simpa using hneA2 h | simpa using hneA3 h | simpa using hneA4 h | simpa using hneA5 h
      | simpa using hneA6 h | simpa using hneA7 h | exact hneA1 (by omega) | exact hneA2 (by omega)
      | exact hneA3 (by omega) | exact hneA4 (by omega) | exact hneA5 (by omega) | exact hneA6 (by omega)
      | exact hneA7 (by omega) | simpa using hneA1 (by omega) | simpa using hneA2 (by omega) | simpa using hneA3 (by omega)
      | simpa using hneA4 (by omega) | simpa using hneA5 (by omega) | simpa using hneA6 (by omega) | simpa using hneA7 (by omega)
      | exact hneA1 (by simp_all) | exact hneA2 (by simp_all) | exact hneA3 (by simp_all) | exact hneA4 (by simp_all)
      | exact hneA5 (by simp_all) | exact hneA6 (by simp_all) | exact hneA7 (by simp_all)
  rw [curvatureData_spec3 hb hv1 hs hr htol hne hadm a,
    curvatureData_spec3 hb' hv' hs' (by rw [hr', hr]) htol hne hadm' a]
  simp only [hD]

/-- **Knot insertion leaves `torsionData` unchanged.** -/
theorem torsionData_insertKnots {o o' : Obj K} {b1 : Basis K} (hb : o.bases = #[b1])
    (hv1 : b1.Valid) (hper : b1.periodic = -1) (hs : o.cps.shape = [b1.numFunctions, 3])
    (hr : o.rational = false) (xs : List K) (hxs : ∀ x ∈ xs, b1.start ≤ x ∧ x < b1.stop)
    (ho' : o.insertKnots xs 0 = .ok o') {tol : K} (htol : 0 < tol) {ts : List K} (hne : ts ≠ [])
    (hadm : ∀ u ∈ ts, b1.Admissible tol u)
    (hadm' : ∀ u ∈ ts, (o'.basis 0).Admissible tol u) (a : Bool)
    (hneA1 : b1.periodic < 0 → ts ≠ [] := by (first | assumption | (simp; done) | skip)) :
    o'.torsionData tol ts a = o.torsionData tol ts a := by
  obtain ⟨b1', hb', hv', _, hs', hr', _, _, hD⟩ := curve_insert_specD1 hb hv1 hper hs xs hxs ho'
  have hb0' : o'.basis 0 = b1' := by unfold basis; rw [hb']; rfl
  rw [hb0'] at hadm'
  have hneB1 : b1'.periodic < 0 → ts ≠ [] := by
    intro h
    first
      | exact hneA1 h | exact hneA2 h | exact hneA3 h | exact hneA4 h
      | exact hneA5 h | exact hneA6 h | exact hneA7 h | simpa using hneA1 h
      | simpa using hneA2 h | simpa using hneA3 h | simpa using hneA4 h | simpa using hneA5 h
      | simpa using hneA6 h | simpa using hneA7 h | exact hneA1 (by omega) | exact hneA2 (by omega)
      | exact hneA3 (by omega) | exact hneA4 (by omega) | exact hneA5 (by omega) | exact hneA6 (by omega)
      | exact hneA7 (by omega) | simpa using hneA1 (by omega) | simpa using hneA2 (by omega) | simpa using hneA3 (by omega)
      | simpa using hneA4 (by omega) | simpa using hneA5 (by omega) | simpa using hneA6 (by omega) | simpa using hneA7 (by omega)
      | exact hneA1 (by simp_all) | exact hneA2 (by simp_all) | exact hneA3 (by simp_all) | exact hneA4 (by simp_all)
      | exact hneA5 (by simp_all) | exact hneA6 (by simp_all) | exact hneA7 (by simp_all)
  rw [torsionData_spec3 hb hv1 hs hr htol hne hadm a,
    torsionData_spec3 hb' hv' hs' (by rw [hr', hr]) htol hne hadm' a]
  simp only [hD]

/-- … and the planar `curvatureData`. -/
theorem curvatureData_insertKnots_planar {o o' : Obj K} {b1 : Basis K} (hb : o.bases = #[b1])
    (hv1 : b1.Valid) (hper : b1.periodic = -1) (hs : o.cps.shape = [b1.numFunctions, 2])
    (hr : o.rational = false) (xs : List K) (hxs : ∀ x ∈ xs, b1.start ≤ x ∧ x < b1.stop)
    (ho' : o.insertKnots xs 0 = .ok o') {tol : K} (htol : 0 < tol) {ts : List K} (hne : ts ≠ [])
    (hadm : ∀ u ∈ ts, b1.Admissible tol u)
    (hadm' : ∀ u ∈ ts, (o'.basis 0).Admissible tol u) (a : Bool)
    (hneA1 : b1.periodic < 0 → ts ≠ [] := by (first | assumption | (simp; done) | skip)) :
    o'.curvatureData tol ts a = o.curvatureData tol ts a := by
  obtain ⟨b1', hb', hv', _, hs', hr', _, _, hD⟩ := curve_insert_specD1 hb hv1 hper hs xs hxs ho'
  have hb0' : o'.basis 0 = b1' := by unfold basis; rw [hb']; rfl
  rw [hb0'] at hadm'
  have hneB1 : b1'.periodic < 0 → ts ≠ [] := by
    intro h
    first
      | exact hneA1 h | exact hneA2 h | exact hneA3 h | exact hneA4 h
      | exact hneA5 h | exact hneA6 h | exact hneA7 h | simpa using hneA1 h
      | simpa using hneA2 h | simpa using hneA3 h | simpa using hneA4 h | simpa using hneA5 h
      | simpa using hneA6 h | simpa using hneA7 h | exact hneA1 (by omega) | exact hneA2 (by omega)
      | exact hneA3 (by omega) | exact hneA4 (by omega) | exact hneA5 (by omega) | exact hneA6 (by omega)
      | exact hneA7 (by omega) | simpa using hneA1 (by omega) | simpa using hneA2 (by omega) | simpa using hneA3 (by omega)
      | simpa using hneA4 (by omega) | simpa using hneA5 (by omega) | simpa using hneA6 (by omega) | simpa using hneA7 (by omega)
      | exact hneA1 (by simp_all) | exact hneA2 (by simp_all) | exact hneA3 (by simp_all) | exact hneA4 (by simp_all)
      | exact hneA5 (by simp_all) | exact hneA6 (by simp_all) | exact hneA7 (by simp_all)
  rw [curvatureData_spec2 hb hv1 hs hr htol hne hadm a,
    curvatureData_spec2 hb' hv' hs' (by rw [hr', hr]) htol hne hadm' a]
  simp only [hD]

/-! ## Arrays of length 3 as vectors `Fin 3 → K` -/

/-- The specification derivative vector of a space curve as `Fin 3 → K`: it is the linear
combination `comb` (`Lemmas/C16Vector.lean`) of the control points with the basis-derivative row. -/
def specVec (o : Obj K) (b1 : Basis K) (u : K) (a : Bool) (d : ℕ) : Fin 3 → K :=
  Affine.comb (Finset.range b1.numFunctions) (fun j => b1.rowSpec u a d j)
    (fun j k => o.cps.get (j * 3 + k.val))

omit [LinearOrder K] [IsStrictOrderedRing K] [FloorRing K] in
theorem ofFn3_getD (f : Fin 3 → K) (i : Fin 3) :
    (Array.ofFn (n := 3) f).getD i.val 0 = f i := by
  simp [Array.getD]

theorem specD1_eq_ofFn (o : Obj K) (b1 : Basis K) (u : K) (a : Bool) (d : ℕ) :
    o.specD1 b1 3 u a d = Array.ofFn (n := 3) (o.specVec b1 u a d) := rfl

omit [LinearOrder K] [IsStrictOrderedRing K] [FloorRing K] in
theorem sqNorm_ofFn3 (f : Fin 3 → K) : sqNorm (Array.ofFn (n := 3) f) = Affine.normSq f := by
  simp [sqNorm, dotArr, Affine.normSq, Affine.dot, Array.getD, List.range_succ]

omit [LinearOrder K] [IsStrictOrderedRing K] [FloorRing K] in
theorem cross3_ofFn3 (f g : Fin 3 → K) :
    cross3 (Array.ofFn (n := 3) f) (Array.ofFn (n := 3) g)
      = Array.ofFn (n := 3) (Affine.cross f g) := by
  apply Array.ext
  · simp [cross3]
  · intro i h1 h2
    have hi : i < 3 := by simpa using h2
    interval_cases i <;> simp [cross3, Affine.cross, Array.getD]

omit [LinearOrder K] [IsStrictOrderedRing K] [FloorRing K] in
theorem dotArr_ofFn3 (f g : Fin 3 → K) :
    dotArr (Array.ofFn (n := 3) f) (Array.ofFn (n := 3) g) = Affine.dot f g := by
  simp [dotArr, Affine.dot, Array.getD, List.range_succ]

/-- `curvatureData` of a non-rational space curve in vector form:
`(‖v × a‖², ‖v‖²)` with `v, a : Fin 3 → K` the specification derivative vectors. -/
theorem curvatureData_vec {o : Obj K} {b1 : Basis K} (hb : o.bases = #[b1]) (hv1 : b1.Valid)
    (hs : o.cps.shape = [b1.numFunctions, 3]) (hr : o.rational = false) {tol : K}
    (htol : 0 < tol) {ts : List K} (hne : ts ≠ []) (hadm : ∀ u ∈ ts, b1.Admissible tol u)
    (a : Bool)
    (hneA1 : b1.periodic < 0 → ts ≠ [] := by (first | assumption | (simp; done) | skip)) :
    o.curvatureData tol ts a = .ok (ts.map (fun u =>
      (Affine.normSq (Affine.cross (o.specVec b1 u a 1) (o.specVec b1 u a 2)),
       Affine.normSq (o.specVec b1 u a 1)))) := by
  rw [curvatureData_spec3 hb hv1 hs hr htol hne hadm a]
  simp only [specD1_eq_ofFn, cross3_ofFn3, sqNorm_ofFn3]

/-- `torsionData` in vector form: `((v × a)·a', ‖v × a‖²)`. -/
theorem torsionData_vec {o : Obj K} {b1 : Basis K} (hb : o.bases = #[b1]) (hv1 : b1.Valid)
    (hs : o.cps.shape = [b1.numFunctions, 3]) (hr : o.rational = false) {tol : K}
    (htol : 0 < tol) {ts : List K} (hne : ts ≠ []) (hadm : ∀ u ∈ ts, b1.Admissible tol u)
    (a : Bool)
    (hneA1 : b1.periodic < 0 → ts ≠ [] := by (first | assumption | (simp; done) | skip)) :
    o.torsionData tol ts a = .ok (some (ts.map (fun u =>
      (Affine.dot (Affine.cross (o.specVec b1 u a 1) (o.specVec b1 u a 2)) (o.specVec b1 u a 3),
       Affine.normSq (Affine.cross (o.specVec b1 u a 1) (o.specVec b1 u a 2)))))) := by
  rw [torsionData_spec3 hb hv1 hs hr htol hne hadm a]
  simp only [specD1_eq_ofFn, cross3_ofFn3, sqNorm_ofFn3, dotArr_ofFn3]

/-- **Rotation of the control net** (what `SplineObject.rotate` does to every control point:
`p ↦ p R`, `R` the Euler–Rodrigues matrix of `a² + b² + c² + d² = 1`; bases unchanged) leaves
`curvatureData` and `torsionData` unchanged — no division is involved, so no condition on
`v`, `v × a`. -/
theorem curvature_torsion_data_rotate {o o' : Obj K} {b1 : Basis K} (hb : o.bases = #[b1])
    (hb' : o'.bases = #[b1]) (hv1 : b1.Valid) (hs : o.cps.shape = [b1.numFunctions, 3])
    (hs' : o'.cps.shape = [b1.numFunctions, 3]) (hr : o.rational = false)
    (hr' : o'.rational = false) {qa qb qc qd : K}
    (hq : qa * qa + qb * qb + qc * qc + qd * qd = 1)
    (hnet : ∀ j, j < b1.numFunctions → ∀ k : Fin 3, o'.cps.get (j * 3 + k.val)
      = Affine.rotatePoint qa qb qc qd (fun k' => o.cps.get (j * 3 + k'.val)) k)
    {tol : K} (htol : 0 < tol) {ts : List K} (hne : ts ≠ []) (hadm : ∀ u ∈ ts, b1.Admissible tol u)
    (a : Bool)
    (hneA1 : b1.periodic < 0 → ts ≠ [] := by (first | assumption | (simp; done) | skip)) :
    o'.curvatureData tol ts a = o.curvatureData tol ts a ∧
    o'.torsionData tol ts a = o.torsionData tol ts a := by
  have hvec : ∀ u d, o'.specVec b1 u a d = Affine.rotatePoint qa qb qc qd (o.specVec b1 u a d) := by
    intro u d
    unfold specVec
    rw [← Affine.comb_rotate]
    unfold Affine.comb
    funext k
    apply Finset.sum_congr rfl
    intro j hj
    simp only []
    rw [hnet j (Finset.mem_range.mp hj) k]
  rw [curvatureData_vec hb hv1 hs hr htol hne hadm a, curvatureData_vec hb' hv1 hs' hr' htol hne hadm a,
    torsionData_vec hb hv1 hs hr htol hne hadm a, torsionData_vec hb' hv1 hs' hr' htol hne hadm a]
  simp only [hvec, Affine.rotatePoint_normSq hq, Affine.rotatePoint_cross hq,
    Affine.rotatePoint_dot hq, and_self]

/-- **Uniform scaling of the control net by `t`**: `curvatureData` becomes
`(t⁴·‖v×a‖², t²·‖v‖²)` and `torsionData` `(t³·(v×a)·a', t⁴·‖v×a‖²)` — hence curvature `× 1/|t|`,
torsion `× 1/t` wherever the original quotients are defined. -/
theorem curvature_torsion_data_scale {o o' : Obj K} {b1 : Basis K} (hb : o.bases = #[b1])
    (hb' : o'.bases = #[b1]) (hv1 : b1.Valid) (hs : o.cps.shape = [b1.numFunctions, 3])
    (hs' : o'.cps.shape = [b1.numFunctions, 3]) (hr : o.rational = false)
    (hr' : o'.rational = false) (t : K)
    (hnet : ∀ j, j < b1.numFunctions → ∀ k : Fin 3,
      o'.cps.get (j * 3 + k.val) = t * o.cps.get (j * 3 + k.val))
    {tol : K} (htol : 0 < tol) {ts : List K} (hne : ts ≠ []) (hadm : ∀ u ∈ ts, b1.Admissible tol u)
    (a : Bool)
    (hneA1 : b1.periodic < 0 → ts ≠ [] := by (first | assumption | (simp; done) | skip)) :
    o'.curvatureData tol ts a = .ok (ts.map (fun u =>
      ((t ^ 2) ^ 2 * Affine.normSq (Affine.cross (o.specVec b1 u a 1) (o.specVec b1 u a 2)),
       t ^ 2 * Affine.normSq (o.specVec b1 u a 1)))) ∧
    o'.torsionData tol ts a = .ok (some (ts.map (fun u =>
      (t ^ 3 * Affine.dot (Affine.cross (o.specVec b1 u a 1) (o.specVec b1 u a 2)) (o.specVec b1 u a 3),
       (t ^ 2) ^ 2 * Affine.normSq (Affine.cross (o.specVec b1 u a 1) (o.specVec b1 u a 2)))))) := by
  have hvec : ∀ u d, o'.specVec b1 u a d = Affine.smul3 t (o.specVec b1 u a d) := by
    intro u d
    unfold specVec
    rw [← Affine.comb_smul3]
    unfold Affine.comb
    funext k
    apply Finset.sum_congr rfl
    intro j hj
    simp only []
    rw [hnet j (Finset.mem_range.mp hj) k]
    rfl
  rw [curvatureData_vec hb' hv1 hs' hr' htol hne hadm a, torsionData_vec hb' hv1 hs' hr' htol hne hadm a]
  constructor
  · simp only [hvec, Affine.normSq_smul3, Affine.cross_smul3]
  · simp only [hvec, Affine.normSq_smul3, Affine.cross_smul3]
    congr 2
    apply List.map_congr_left
    intro u _
    congr 1
    simp only [Affine.dot, Affine.smul3]
    ring

end Obj

end Splipy
