import Splipy.Lemmas.C04PerSeq
import Splipy.Lemmas.C07PerWindow
import Splipy.Lemmas.C07Periodic
import Splipy.Lemmas.C07Roll
import Splipy.Model.Split

/-!
# `Obj.split` at a single value of a periodic direction (model level)

The insertion loop is a sequence of periodic insertions (`C04.PerRefines`, every valid periodic basis:
`C04.insertKnots_fibres_periodic_all`);
`roll` / `rollAxisNeg` shift the periodic sequences (`C07Roll`); the opened object is one full
period of the periodic map starting at the split value (`splineVal_open_periodic`).
-/

namespace Splipy

set_option linter.unusedSectionVars false
set_option linter.unusedVariables false

open C04

variable {K : Type} [Field K] [LinearOrder K] [IsStrictOrderedRing K] [FloorRing K]

/-- `continuity` never raises on a periodic basis. -/
theorem Basis.continuity_periodic_ok (b : Basis K) (hper : 0 ≤ b.periodic) (tol x : K) :
    ∃ c, b.continuity tol x = .ok c := by
  unfold Basis.continuity
  simp only [ge_iff_le, hper, if_true]
  split_ifs <;> exact ⟨_, rfl⟩

/-- The insertion loop of `split` for one value of a periodic direction (every valid periodic basis,
any real value). -/
theorem splitInsert_single_periodic_all (o : Obj K) (dir : ℕ) (hdir : dir < o.bases.size)
    (hax : dir < o.cps.shape.length) (hv : (o.basis dir).Valid) (k : ℕ)
    (hk : (o.basis dir).periodic = (k : Int))
    (hshape : o.cps.shape.getD dir 0 = (o.basis dir).numFunctions) (tol x0 : K) :
    ∃ so C m, o.splitInsert tol [x0] dir = .ok so ∧
      PerRefines (o.basis dir) (so.basis dir) C m ∧
      (∀ d, d ≠ dir → so.basis d = o.basis d) ∧ so.rational = o.rational ∧
      so.cps.shape = o.cps.shape.set dir ((o.basis dir).numFunctions + m) ∧
      outerN so dir = outerN o dir ∧ innerN so dir = innerN o dir ∧
      (∀ a i r, a < outerN o dir → i < innerN o dir → r < (o.basis dir).numFunctions + m →
        fibre so dir a i r = mulVec C (o.basis dir).numFunctions (fibre o dir a i) r) ∧
      so.bases = o.bases.set! dir (so.basis dir) := by
  obtain ⟨c, hc⟩ := (o.basis dir).continuity_periodic_ok (by rw [hk]; omega) tol x0
  obtain ⟨cnt, hcnt⟩ : ∃ cnt : ℕ, cnt = ((match c with
      | none => ((o.basis dir).order : Int) - 1
      | some c => c) + 1).toNat := ⟨_, rfl⟩
  obtain ⟨o', C, h1, h2, _, h3, h4, h5, h6, h7, h8, h9⟩ :=
    insertKnots_fibres_periodic_all o dir hdir hax hv k hk hshape (List.replicate cnt x0)
  rw [List.length_replicate] at h2 h5 h8
  refine ⟨o', C, cnt, ?_, h2, h3, h4, h5, h6, h7, h8, h9⟩
  unfold Obj.splitInsert
  simp only [List.foldlM_cons, List.foldlM_nil, hc, bind_pure]
  rw [show (Except.ok c : PyM (Option Int)) = pure c from rfl, pure_bind]
  subst hcnt
  cases c <;> exact h1

/-- Older guarded form (the hypotheses `hguard`, `hx` are not used). -/
theorem splitInsert_single_periodic (o : Obj K) (dir : ℕ) (hdir : dir < o.bases.size)
    (hax : dir < o.cps.shape.length) (hv : (o.basis dir).Valid) (k : ℕ)
    (hk : (o.basis dir).periodic = (k : Int))
    (_hguard : (o.basis dir).order + k ≤ (o.basis dir).numFunctions)
    (hshape : o.cps.shape.getD dir 0 = (o.basis dir).numFunctions) (tol x0 : K)
    (_hx : (o.basis dir).start ≤ x0 ∧ x0 < (o.basis dir).stop) :
    ∃ so C m, o.splitInsert tol [x0] dir = .ok so ∧
      PerRefines (o.basis dir) (so.basis dir) C m ∧
      (∀ d, d ≠ dir → so.basis d = o.basis d) ∧ so.rational = o.rational ∧
      so.cps.shape = o.cps.shape.set dir ((o.basis dir).numFunctions + m) ∧
      outerN so dir = outerN o dir ∧ innerN so dir = innerN o dir ∧
      (∀ a i r, a < outerN o dir → i < innerN o dir → r < (o.basis dir).numFunctions + m →
        fibre so dir a i r = mulVec C (o.basis dir).numFunctions (fibre o dir a i) r) ∧
      so.bases = o.bases.set! dir (so.basis dir) :=
  splitInsert_single_periodic_all o dir hdir hax hv k hk hshape tol x0

/-- The object `split` returns for a single value of a periodic direction, in terms of the clone
`so` after the insertion loop. -/
def Obj.openedAt (so : Obj K) (dir mu : ℕ) (b1 : Basis K) : Obj K :=
  { so with
    bases := so.bases.set! dir
      { b1 with knots := b1.knots.extract 0 (b1.knots.size - (so.basis dir).periodic.toNat - 1),
                periodic := -1 },
    cps := so.cps.rollAxisNeg dir mu }

theorem split_single_unfold (o so : Obj K) (tol x0 : K) (dir : ℕ) (b1 : Basis K)
    (hso : o.splitInsert tol [x0] dir = .ok so) (hper : (so.basis dir).periodic > -1)
    (hmu : ¬ (so.basis dir).bisectL x0 >
      (so.basis dir).knots.size - (so.basis dir).order - (so.basis dir).periodic.toNat - 1)
    (hroll : (so.basis dir).roll ((so.basis dir).bisectL x0) = .ok b1) :
    o.split tol [x0] dir = .ok (.single (so.openedAt dir ((so.basis dir).bisectL x0) b1)) := by
  unfold Obj.split
  rw [hso]
  simp only [Except.bind, bind, hper, if_true, hmu, if_false, hroll]
  rfl

/-- The rolled, ghost-free basis: `n + p` knots `ext (μ + ·)`, non-periodic. -/
theorem Basis.opened_spec {b : Basis K} (hv : b.Valid) (hper : 0 ≤ b.periodic) (mu : ℕ)
    (hmu : mu ≤ b.numFunctions) (b1 : Basis K) (hroll : b.roll mu = .ok b1) :
    let b2 : Basis K := { b1 with knots := b1.knots.extract 0 (b1.knots.size - b.periodic.toNat - 1),
                                  periodic := -1 }
    b2.order = b.order ∧ b2.periodic = -1 ∧ b2.knots.size = b.numFunctions + b.order ∧
      ∀ j, j < b.numFunctions + b.order → b2.kn j = b.ext (mu + j) := by
  obtain ⟨b1', h1, h2, h3, h4, h5⟩ := Basis.roll_spec hv hper mu hmu
  rw [hroll] at h1
  have e : b1 = b1' := Except.ok.inj h1
  subst e
  have hs := Basis.per_size hv hper
  intro b2
  have hsz : b2.knots.size = b.numFunctions + b.order := by
    show (b1.knots.extract 0 (b1.knots.size - b.periodic.toNat - 1)).size = _
    rw [Array.size_extract, h4]; omega
  refine ⟨h2, rfl, hsz, fun j hj => ?_⟩
  rw [Basis.kn_of_lt b2 (by rw [hsz]; exact hj)]
  have hj' : j < b.knots.size := by omega
  have := h5 j hj'
  have e2 : b2.knots[j]? = some (b.ext (mu + j)) := by
    show (b1.knots.extract 0 (b1.knots.size - b.periodic.toNat - 1))[j]? = _
    rw [Array.getElem?_extract, h4, if_pos (by omega), Nat.zero_add, this]
  have e3 : b2.knots[j]? = some (b2.knots[j]'(by rw [hsz]; exact hj)) := by
    simp [hsz, hj]
  rw [e3] at e2
  exact Option.some.inj e2

theorem size_set! {α : Type} (a : Array α) (i : ℕ) (x : α) : (a.set! i x).size = a.size := by
  simp [Array.set!]

/-- **`split` at one value of a periodic direction** (model level; every valid periodic basis). -/
theorem split_periodic_single_all (o : Obj K) (dir : ℕ) (hdir : dir < o.bases.size)
    (hax : dir < o.cps.shape.length) (hv : (o.basis dir).Valid) (k : ℕ)
    (hk : (o.basis dir).periodic = (k : Int))
    (hshape : o.cps.shape.getD dir 0 = (o.basis dir).numFunctions) (tol x0 : K)
    (hx : (o.basis dir).start ≤ x0 ∧ x0 < (o.basis dir).stop)
    (hMult : ∀ so, o.splitInsert tol [x0] dir = .ok so →
      (so.basis dir).kn ((so.basis dir).bisectL x0) = x0 ∧
      (so.basis dir).kn ((so.basis dir).bisectL x0 + (o.basis dir).order - 1) = x0) :
    ∃ op m, o.split tol [x0] dir = .ok (.single op) ∧
      (op.basis dir).Valid ∧ (op.basis dir).periodic = -1 ∧ (op.basis dir).order = (o.basis dir).order ∧
      (op.basis dir).numFunctions = (o.basis dir).numFunctions + m ∧
      (op.basis dir).start = x0 ∧
      (op.basis dir).stop = x0 + ((o.basis dir).stop - (o.basis dir).start) ∧
      (∀ d, d ≠ dir → op.basis d = o.basis d) ∧ op.rational = o.rational ∧
      op.cps.shape = o.cps.shape.set dir ((o.basis dir).numFunctions + m) ∧
      ∀ a i, a < outerN o dir → i < innerN o dir → ∀ (s : Side) (t : K),
        s.mem x0 (x0 + ((o.basis dir).stop - (o.basis dir).start)) t →
        (s.before t (o.basis dir).stop →
          splineVal s (op.basis dir).kn ((o.basis dir).order - 1) ((o.basis dir).numFunctions + m)
              (fibre op dir a i) t
            = wsum s (o.basis dir).kn ((o.basis dir).order - 1) (o.basis dir).nAll
                (o.basis dir).numFunctions (fibre o dir a i) 0 t) ∧
        (s.after (o.basis dir).stop t →
          splineVal s (op.basis dir).kn ((o.basis dir).order - 1) ((o.basis dir).numFunctions + m)
              (fibre op dir a i) t
            = wsum s (o.basis dir).kn ((o.basis dir).order - 1) (o.basis dir).nAll
                (o.basis dir).numFunctions (fibre o dir a i) 0
                (t - ((o.basis dir).stop - (o.basis dir).start))) := by
  obtain ⟨so, C, m, hso, hR, hother, hrat, hshp, hout, hinn, hfib, hbases⟩ :=
    splitInsert_single_periodic_all o dir hdir hax hv k hk hshape tol x0
  obtain ⟨hM1, hM2⟩ := hMult so hso
  set b := o.basis dir with hb
  set b' := so.basis dir with hb'
  set mu := b'.bisectL x0 with hmudef
  have hv' : b'.Valid := hR.valid
  have hper' : 0 ≤ b'.periodic := by rw [hR.periodic_eq, hk]; omega
  have hktn : b'.periodic.toNat = k := by rw [hR.periodic_eq, hk]; omega
  have hp := hv.order_pos
  have hpk : k + 2 ≤ b.order := by
    rcases hv.periodic_le with h | h
    · rw [hk] at h; omega
    · rw [hk] at h; omega
  have hord : b'.order = b.order := hR.order_eq
  have hn' : b'.numFunctions = b.numFunctions + m := hR.num_eq
  have hsize' := Basis.per_size hv' hper'
  have hnAll' := Basis.per_nAll hv' hper'
  rw [hktn] at hsize' hnAll'
  have hTpos : 0 < b.stop - b.start := sub_pos.2 hv.start_lt_stop
  have hT' : b'.stop - b'.start = b.stop - b.start := by rw [hR.start_eq, hR.stop_eq]
  -- position of the split value
  have hmu_lt : mu + b.order - 1 < b'.nAll := by
    by_contra hc
    have h1 : b'.kn b'.nAll ≤ b'.kn (mu + b.order - 1) := hv'.kn_mono (by omega)
    have h2 : b'.kn b'.nAll = b.stop := by rw [← hR.stop_eq]; rfl
    rw [h2, hM2] at h1
    exact absurd hx.2 (not_lt.2 h1)
  have hmu_le : mu ≤ b'.numFunctions := by omega
  -- the `p`-fold split value fits into one period: the opened basis has at least `p` functions
  have hpn : b.order ≤ b'.numFunctions := by
    by_contra hc
    have := kn_run_le_period hv' k (hR.periodic_eq.trans hk) mu (mu + b.order - 1) (by omega)
      (by unfold Basis.nAll at hmu_lt; omega)
    rw [hM1, hM2] at this
    exact absurd this (lt_irrefl _)
  obtain ⟨b1, hroll, _⟩ := Basis.roll_spec hv' hper' mu hmu_le
  have hsplit := split_single_unfold o so tol x0 dir b1 hso (by rw [← hb', hR.periodic_eq, hk]; omega)
    (by rw [← hb', ← hmudef, hktn]; omega) hroll
  obtain ⟨e1, e2, e3, e4⟩ := Basis.opened_spec hv' hper' mu hmu_le b1 hroll
  rw [hktn] at e3 e4
  have hdir' : dir < so.bases.size := by rw [hbases, size_set!]; exact hdir
  set op := so.openedAt dir mu b1 with hop
  set b2 : Basis K := { b1 with knots := b1.knots.extract 0 (b1.knots.size - k - 1), periodic := -1 }
    with hb2
  have hopb : op.basis dir = b2 := by
    rw [hop]; unfold Obj.openedAt
    rw [basis_set so dir hdir', ← hb', hktn]
  have hb2sz : b2.knots.size = b'.numFunctions + b'.order := e3
  have hb2kn : ∀ j, j < b'.numFunctions + b'.order → b2.kn j = b'.ext (mu + j) := e4
  have hext : ∀ i, i < b'.knots.size → b'.ext i = b'.kn i := Basis.ext_eq hv' hper'
  have hstart2 : b2.start = x0 := by
    show b2.kn (b2.order - 1) = x0
    rw [show b2.order = b'.order from e1, hb2kn _ (by omega), hext _ (by omega), hord,
      show mu + (b.order - 1) = mu + b.order - 1 by omega, hM2]
  have hstop2 : b2.stop = x0 + (b.stop - b.start) := by
    show b2.kn (b2.knots.size - b2.order) = _
    rw [hb2sz, show b2.order = b'.order from e1, Nat.add_sub_cancel, hb2kn _ (by omega),
      Basis.ext_add hv' hper', hext _ (by omega), hM1, hT']
  have hvalid2 : b2.Valid := by
    refine ⟨(by rw [show b2.order = b'.order from e1, hord]; exact hp), ?_, ?_, (by rw [e2]), Or.inr e2, ?_, ?_⟩
    · rw [hb2sz, show b2.order = b'.order from e1]; omega
    · intro j hj
      rw [hb2sz] at hj
      rw [hb2kn j (by omega), hb2kn (j+1) (by omega)]
      exact Basis.ext_mono hv' hper' (by omega)
    · rw [hstart2, hstop2]; linarith
    · intro h; rw [e2] at h; exact absurd h (by decide)
  have hnum2 : b2.numFunctions = b.numFunctions + m := by
    show b2.knots.size - b2.order - (b2.periodic + 1).toNat = b.numFunctions + m
    rw [hb2sz, show b2.order = b'.order from e1, e2, show ((-1 : Int) + 1).toNat = 0 from rfl]
    omega
  refine ⟨op, m, hsplit, ?_, ?_, ?_, ?_, ?_, ?_, ?_, hrat, ?_, ?_⟩
  · rw [hopb]; exact hvalid2
  · rw [hopb]
  · rw [hopb]; exact e1.trans hord
  · rw [hopb]; exact hnum2
  · rw [hopb]; exact hstart2
  · rw [hopb]; exact hstop2
  · intro d hd
    rw [hop]; unfold Obj.openedAt
    rw [basis_set_ne so dir d hd, hother d hd]
  · show (so.cps.rollAxisNeg dir mu).shape = _
    rw [Tensor.rollAxisNeg_shape _ _ _ (by rw [hshp, List.length_set]; exact hax), hshp]
  · intro a i ha hi s t ht
    rw [hopb]
    have haxs : dir < so.cps.shape.length := by rw [hshp, List.length_set]; exact hax
    have hrows : so.cps.shape.getD dir 1 = b.numFunctions + m := by
      rw [hshp]; exact Tensor.getD_set_self _ _ _ hax
    -- the control points of the opened object: rolled fibre of the refined one
    have hfop : ∀ r, r < b.numFunctions + m →
        fibre op dir a i r = fibre so dir a i ((mu + r) % (b.numFunctions + m)) := by
      intro r hr
      show (so.cps.rollAxisNeg dir mu).at3 dir a r i = _
      rw [Tensor.rollAxisNeg_at3 so.cps dir mu a r i haxs (by rw [hrows]; exact hr)
        (by have := hinn; unfold innerN at this; rw [this]; exact hi)
        (by have := hout; unfold outerN at this; rw [this]; exact ha), hrows, Nat.add_comm r mu]
      rfl
    set c' := fibre so dir a i with hc'
    set n' := b.numFunctions + m with hn'def
    have hn'pos : 0 < n' := by have := hv.numFunctions_pos; omega
    set cper : ℕ → K := fun j => c' (j % n') with hcper
    have hcperiodic : ∀ j, cper (j + n') = cper j := by
      intro j; show c' ((j + n') % n') = c' (j % n'); rw [Nat.add_mod_right]
    have hq : b.order - 1 + 1 = b.order := by omega
    -- step 1: the opened spline as a window of the periodic family
    have step1 : splineVal s b2.kn (b.order - 1) n' (fibre op dir a i) t
        = splineVal s (fun j => b'.ext (mu + j)) (b.order - 1) n' (fun j => cper (mu + j)) t := by
      unfold splineVal
      apply Finset.sum_congr rfl
      intro r hr
      rw [Finset.mem_range] at hr
      rw [hfop r hr]
      congr 1
      apply B_congr_knots
      intro j hj
      exact hb2kn (r + j) (by rw [hn', hord]; omega)
    have hperx : ∀ j, b'.ext (j + n') = b'.ext j + (b.stop - b.start) := by
      intro j
      have := Basis.ext_add hv' hper' j
      rw [hn', hT'] at this
      exact this
    have hmu_eq : b'.ext mu = b'.ext (mu + (b.order - 1)) := by
      rw [hext _ (by omega), hext _ (by omega), hM1,
        show mu + (b.order - 1) = mu + b.order - 1 by omega, hM2]
    have hxq : b'.ext (mu + (b.order - 1)) = x0 := by rw [← hmu_eq, hext _ (by omega), hM1]
    have hstartq : b'.ext (b.order - 1) = b.start := by
      rw [hext _ (by omega), ← hR.start_eq, ← hord]; rfl
    have hstopN : b'.ext b'.nAll = b.stop := by
      rw [hext _ (by unfold Basis.nAll; omega), ← hR.stop_eq]; rfl
    obtain ⟨hA, hB⟩ := splineVal_open_periodic b'.ext (Basis.ext_mono hv' hper') n' (b.stop - b.start)
      hperx cper hcperiodic s (b.order - 1) mu b'.nAll hn'pos hmu_eq
      (by rw [hstartq, hstopN]; linarith) (by rw [hxq, hstartq]; linarith [hx.2]) t
      (by rw [hxq]; exact ht)
    rw [hstartq] at hA hB
    rw [show b.start + (b.stop - b.start) = b.stop by ring] at hA hB
    -- step 3: the unrolled sum on the base period is the wrapped sum of the refined basis
    have step3 : ∀ t', splineVal s b'.ext (b.order - 1) b'.nAll cper t'
        = wsum s b'.kn (b.order - 1) b'.nAll n' c' 0 t' := by
      intro t'
      unfold splineVal wsum
      apply Finset.sum_congr rfl
      intro j hj
      rw [Finset.mem_range] at hj
      rw [dB_zero]
      congr 1
      apply B_congr_knots
      intro jj hjj
      exact hext (j + jj) (by unfold Basis.nAll at hj; omega)
    -- step 4: refined coefficients are `C · (original fibre)`, and periodic insertion keeps `wsum`
    have step4 : ∀ t', s.mem b.start b.stop t' →
        wsum s b'.kn (b.order - 1) b'.nAll n' c' 0 t'
          = wsum s b.kn (b.order - 1) b.nAll b.numFunctions (fibre o dir a i) 0 t' := by
      intro t' ht'
      rw [wsum_congr s _ _ _ n' hn'pos _ _ 0 t' (fun r hr => hfib a i r ha hi hr), hR.nAll_eq hv]
      exact hR.same (fibre o dir a i) s 0 t' ht'
    have ht2 := (Side.mem_iff s _ _ t).1 ht
    constructor
    · intro hbf
      rw [step1, hA hbf, step3, step4]
      rw [Side.mem_iff]
      exact ⟨Side.after_of_le s hx.1 ht2.1, hbf⟩
    · intro haf
      rw [step1, hB haf, step3, step4]
      rw [Side.mem_iff]
      refine ⟨?_, ?_⟩
      · rw [← Side.after_add, show b.start + (b.stop - b.start) = b.stop by ring]; exact haf
      · rw [← Side.before_add]
        exact Side.before_of_le s (by linarith [hx.2]) ht2.2

/-- Older guarded form (the hypothesis `hguard` is not used). -/
theorem split_periodic_single (o : Obj K) (dir : ℕ) (hdir : dir < o.bases.size)
    (hax : dir < o.cps.shape.length) (hv : (o.basis dir).Valid) (k : ℕ)
    (hk : (o.basis dir).periodic = (k : Int))
    (_hguard : (o.basis dir).order + k ≤ (o.basis dir).numFunctions)
    (hshape : o.cps.shape.getD dir 0 = (o.basis dir).numFunctions) (tol x0 : K)
    (hx : (o.basis dir).start ≤ x0 ∧ x0 < (o.basis dir).stop)
    (hMult : ∀ so, o.splitInsert tol [x0] dir = .ok so →
      (so.basis dir).kn ((so.basis dir).bisectL x0) = x0 ∧
      (so.basis dir).kn ((so.basis dir).bisectL x0 + (o.basis dir).order - 1) = x0) :
    ∃ op m, o.split tol [x0] dir = .ok (.single op) ∧
      (op.basis dir).Valid ∧ (op.basis dir).periodic = -1 ∧ (op.basis dir).order = (o.basis dir).order ∧
      (op.basis dir).numFunctions = (o.basis dir).numFunctions + m ∧
      (op.basis dir).start = x0 ∧
      (op.basis dir).stop = x0 + ((o.basis dir).stop - (o.basis dir).start) ∧
      (∀ d, d ≠ dir → op.basis d = o.basis d) ∧ op.rational = o.rational ∧
      op.cps.shape = o.cps.shape.set dir ((o.basis dir).numFunctions + m) ∧
      ∀ a i, a < outerN o dir → i < innerN o dir → ∀ (s : Side) (t : K),
        s.mem x0 (x0 + ((o.basis dir).stop - (o.basis dir).start)) t →
        (s.before t (o.basis dir).stop →
          splineVal s (op.basis dir).kn ((o.basis dir).order - 1) ((o.basis dir).numFunctions + m)
              (fibre op dir a i) t
            = wsum s (o.basis dir).kn ((o.basis dir).order - 1) (o.basis dir).nAll
                (o.basis dir).numFunctions (fibre o dir a i) 0 t) ∧
        (s.after (o.basis dir).stop t →
          splineVal s (op.basis dir).kn ((o.basis dir).order - 1) ((o.basis dir).numFunctions + m)
              (fibre op dir a i) t
            = wsum s (o.basis dir).kn ((o.basis dir).order - 1) (o.basis dir).nAll
                (o.basis dir).numFunctions (fibre o dir a i) 0
                (t - ((o.basis dir).stop - (o.basis dir).start))) :=
  split_periodic_single_all o dir hdir hax hv k hk hshape tol x0 hx hMult

end Splipy
