import Splipy.Lemmas.C05SurfaceObj
import Splipy.Lemmas.C12Elev
import Splipy.Lemmas.SchoenbergWhitney

/-!
# C05 — a clamped continuous direction is `DirOK` (no analytic hypothesis)

Degree-elevation inclusion (`C12.elevation_both`: one matrix for the executable rows and for the
Cox–de Boor level), Schoenberg–Whitney at the Greville points (`H_sw_clamped_gap`) and the knot
bookkeeping (`raiseOrder_open`) packaged for the surface / volume theorems.  Amount `0` included.
-/

namespace Splipy

set_option linter.unusedSectionVars false

variable {K : Type} [Field K] [LinearOrder K] [IsStrictOrderedRing K] [FloorRing K]

open Finset

theorem dirOK_clamped (tol : K) (htol : 0 < tol) (q a : ℕ) (hqa : 1 ≤ q + a) (x0 xl : K)
    (umid : List K) (mmid : List ℕ) (hlen : umid.length = mmid.length)
    (hm : ∀ j ∈ mmid, 1 ≤ j ∧ j ≤ q)
    (hgap : Separated (2 * ((q + a : ℕ) : K) * tol) (clampedU x0 xl umid)) :
    ∃ E : ℕ → ℕ → K, (∀ i j, 0 ≤ E i j) ∧
      DirOK tol (openBasis (q+1) (clampedU x0 xl umid) (clampedM (q+1) mmid)) a
        (openBasis (q+1+a) (clampedU x0 xl umid) (clampedM (q+1+a) (mmid.map (· + a)))) E := by
  have hfac : tol ≤ 2 * ((q + a : ℕ) : K) * tol := by
    have h1 : (1 : K) ≤ ((q + a : ℕ) : K) := by exact_mod_cast hqa
    nlinarith
  have hsep : Separated tol (clampedU x0 xl umid) := separated_mono hfac hgap
  have hm1 : ∀ j ∈ mmid, 1 ≤ j := fun j hj => (hm j hj).1
  have hmq : ∀ j ∈ mmid, j ≤ q := fun j hj => (hm j hj).2
  set b := openBasis (q+1) (clampedU x0 xl umid) (clampedM (q+1) mmid) with hb
  set b' := openBasis (q+1+a) (clampedU x0 xl umid) (clampedM (q+1+a) (mmid.map (· + a))) with hb'
  obtain ⟨A, hA, hspec, hmodel⟩ := C12.elevation_both tol htol q a x0 xl umid mmid hlen hsep hm1
  have hraise : b.raiseOrder tol a = .ok b' := by
    have := raiseOrder_open tol htol.le (q+1) a (by omega) x0 (umid ++ [xl]) (q+1) (mmid ++ [q+1]) (by omega)
      (by simp [hlen]) (by simp) hsep (by
        intro j hj
        rcases List.mem_append.mp hj with h | h
        · exact hm1 j h
        · simp at h; omega)
      (by rw [show expand (x0 :: (umid ++ [xl])) ((q+1) :: (mmid ++ [q+1]))
            = expand (clampedU x0 xl umid) (clampedM (q+1) mmid) from rfl,
            expand_clamped (q+1) x0 xl umid mmid hlen]; simp; omega)
    rw [show (((q+1) :: (mmid ++ [q+1])).map (· + a)) = clampedM (q+1+a) (mmid.map (· + a)) from
      clampedM_map (q+1) a mmid] at this
    exact this
  have hvalid' : b'.Valid :=
    openBasis_clamped_valid tol htol.le (q+1+a) (by omega) x0 xl umid _ (by simpa using hlen) hsep
  obtain ⟨pts, hg⟩ := greville_ok b' (show q + 1 + a ≠ 1 by omega)
  obtain ⟨Ni, hNi⟩ := H_sw_clamped_gap tol htol q a hqa x0 xl umid mmid hlen hgap hm1 hmq pts hg
  refine ⟨A, hA, hraise, hvalid', ⟨pts, Ni, hg, hNi⟩, fun f t => hmodel f t, Or.inl ⟨rfl, rfl, ?_⟩⟩
  intro s f t
  have ho' : b'.order - 1 = q + a := by show q + 1 + a - 1 = q + a; omega
  have ho : b.order - 1 = q := by show q + 1 - 1 = q; omega
  rw [ho', ho]
  unfold splineVal
  have h := hspec s f t
  calc ∑ i ∈ range b'.numFunctions, (fun k => ∑ j ∈ range b.numFunctions, A j k * f j) i * B s b'.kn (q + a) i t
      = ∑ k ∈ range b'.numFunctions, B s b'.kn (q + a) k t * (∑ j ∈ range b.numFunctions, f j * A j k) := by
        apply sum_congr rfl
        intro k _
        rw [mul_comm]
        congr 1
        apply sum_congr rfl
        intro j _
        ring
    _ = ∑ j ∈ range b.numFunctions, B s b.kn q j t * f j := h
    _ = _ := sum_congr rfl (fun j _ => mul_comm _ _)

end Splipy
