import Splipy.Lemmas.C05PerIncl
import Splipy.Lemmas.C05Geometry
import Splipy.Lemmas.C05Surface

/-!
# C05c — `raise_order` on a periodic curve keeps the evaluated map (relative to `H_sw` only)

`H_incl` for standard periodic bases is proved (`PerData.H_incl_specRow`); at parameters that are
admissible for the old and the new basis (`Basis.Admissible`: all tolerance comparisons exact, also
at the wrapped point) the specification rows are the rows of the executable `Basis.evaluate`, so the
projection argument applies.  Remaining hypotheses: `H_sw` (the model's certified inverse of the
periodic Greville collocation matrix exists, i.e. no `LinAlgError`) and admissibility of the
Greville points.
-/

namespace Splipy

set_option linter.unusedSectionVars false

variable {K : Type} [Field K] [LinearOrder K] [IsStrictOrderedRing K] [FloorRing K]

open Finset

variable {tol : K} {p k : ℕ} {w0 : K} {wr : List K} {μ0 : ℕ} {μr : List ℕ} {T : K}

theorem specRow_eq_evaluate' {b : Basis K} (hv : b.Valid) {tol u : K} (htol : 0 < tol)
    (h : b.Admissible tol u) {j : ℕ} (hj : j < b.numFunctions) :
    b.specRow u j = (b.evaluate tol u 0 true).getD j 0 := by
  rw [← Basis.rowVal_eq_specRow hv htol h hj]
  unfold Basis.rowVal
  rw [h.snap_eq htol]

/-- **`H_incl` for standard periodic bases at the level of the executable rows**, at every
    parameter admissible for both bases. -/
theorem PerData.H_incl_rows (h : PerData tol p k w0 wr μ0 μr T) (htol : 0 < tol) (a : ℕ) :
    ∃ E : ℕ → ℕ → K, (∀ j r, 0 ≤ E j r) ∧ ∀ (f : ℕ → K) (u : K),
      (perBasis p k (w0 :: wr) (μ0 :: μr) T).Admissible tol u →
      (perBasis (p + a) k (w0 :: wr) ((μ0 :: μr).map (· + a)) T).Admissible tol u →
      ∑ r ∈ range (perBasis (p + a) k (w0 :: wr) ((μ0 :: μr).map (· + a)) T).numFunctions,
          ((perBasis (p + a) k (w0 :: wr) ((μ0 :: μr).map (· + a)) T).evaluate tol u 0 true).getD r 0
            * (∑ j ∈ range (perBasis p k (w0 :: wr) (μ0 :: μr) T).numFunctions, f j * E j r)
        = ∑ j ∈ range (perBasis p k (w0 :: wr) (μ0 :: μr) T).numFunctions,
            ((perBasis p k (w0 :: wr) (μ0 :: μr) T).evaluate tol u 0 true).getD j 0 * f j := by
  obtain ⟨E, hE, hS⟩ := h.H_incl_specRow htol.le a
  refine ⟨E, hE, ?_⟩
  intro f u hu hu'
  have hv := h.valid htol.le
  have hv' : (perBasis (p + a) k (w0 :: wr) ((μ0 :: μr).map (· + a)) T).Valid := by
    have := (h.raise a).valid htol.le
    have hmap : (μ0 :: μr).map (· + a) = (μ0 + a) :: μr.map (· + a) := by simp
    rw [hmap]; exact this
  have e1 : ∑ r ∈ range (perBasis (p + a) k (w0 :: wr) ((μ0 :: μr).map (· + a)) T).numFunctions,
          ((perBasis (p + a) k (w0 :: wr) ((μ0 :: μr).map (· + a)) T).evaluate tol u 0 true).getD r 0
            * (∑ j ∈ range (perBasis p k (w0 :: wr) (μ0 :: μr) T).numFunctions, f j * E j r)
      = ∑ r ∈ range (perBasis (p + a) k (w0 :: wr) ((μ0 :: μr).map (· + a)) T).numFunctions,
          (perBasis (p + a) k (w0 :: wr) ((μ0 :: μr).map (· + a)) T).specRow u r
            * (∑ j ∈ range (perBasis p k (w0 :: wr) (μ0 :: μr) T).numFunctions, f j * E j r) := by
    apply Finset.sum_congr rfl
    intro r hr
    rw [specRow_eq_evaluate' hv' htol hu' (mem_range.mp hr)]
  have e2 : ∑ j ∈ range (perBasis p k (w0 :: wr) (μ0 :: μr) T).numFunctions,
            ((perBasis p k (w0 :: wr) (μ0 :: μr) T).evaluate tol u 0 true).getD j 0 * f j
      = ∑ j ∈ range (perBasis p k (w0 :: wr) (μ0 :: μr) T).numFunctions,
            (perBasis p k (w0 :: wr) (μ0 :: μr) T).specRow u j * f j := by
    apply Finset.sum_congr rfl
    intro j hj
    rw [specRow_eq_evaluate' hv htol hu (mem_range.mp hj)]
  rw [e1, e2]
  exact hS f u

/-! ## One-directional `raise_order` with `H_incl` known on a set `S` of parameters -/

/-- `raise_order_implicit` on a curve, `H_incl` (through the matrix `E`) known at the parameters in
    `S`, which contains the Greville points of the new basis. -/
theorem raiseImplicit_curve_on (o : Obj K) (tol : K) (b b' : Basis K) (a : ℕ) (pts : Array K) (nc : ℕ)
    (Ni : Mat K) (hb : o.bases = #[b]) (hs : o.cps.shape = [b.numFunctions, nc])
    (hb' : b.raiseOrder tol a = .ok b') (hg : b'.greville = .ok pts)
    (H_sw : Mat.invChecked (Obj.basisMat b' tol pts.toList 0 true) = .ok Ni)
    (E : ℕ → ℕ → K) (S : K → Prop) (hS : ∀ t ∈ pts.toList, S t)
    (hrows : ∀ (f : ℕ → K) (t : K), S t →
      ∑ r ∈ range b'.numFunctions, (b'.evaluate tol t 0 true).getD r 0 * (∑ j ∈ range b.numFunctions, f j * E j r)
        = ∑ j ∈ range b.numFunctions, (b.evaluate tol t 0 true).getD j 0 * f j) :
    ∃ o', o.raiseOrderImplicit tol [a] = .ok o' ∧ o'.bases = #[b'] ∧ o'.rational = o.rational ∧
      o'.cps.shape = [b'.numFunctions, nc] ∧
      (∀ i, i < b'.numFunctions → ∀ c, c < nc →
        o'.cps.get (i * nc + c) = ∑ j ∈ range b.numFunctions, o.cps.get (j * nc + c) * E j i) ∧
      (∀ t, S t → ∀ c, c < nc →
        ∑ r ∈ range b'.numFunctions, (b'.evaluate tol t 0 true).getD r 0 * o'.cps.get (r * nc + c)
          = ∑ j ∈ range b.numFunctions, (b.evaluate tol t 0 true).getD j 0 * o.cps.get (j * nc + c)) := by
  have hP := greville_size b' pts hg
  obtain ⟨T, hT, hTs, hTe⟩ := reinterpolate_pardim1 o tol b b' pts b.numFunctions nc Ni hb hs hg H_sw
    (fun r c => ∑ j ∈ range b.numFunctions, o.cps.get (j * nc + c) * E j r)
    (fun t ht c _ => by rw [hP]; exact hrows (fun j => o.cps.get (j * nc + c)) t (hS t ht))
  rw [hP] at hTs hTe
  refine ⟨{ o with bases := [b'].toArray, cps := T }, ?_, rfl, rfl, hTs, hTe, ?_⟩
  · unfold Obj.raiseOrderImplicit
    simp only [hb, Obj.raiseBases, hb', hT]
  · intro t ht c hc
    rw [← hrows (fun j => o.cps.get (j * nc + c)) t ht]
    apply Finset.sum_congr rfl
    intro r hr
    show _ * T.get (r * nc + c) = _
    rw [hTe r (mem_range.mp hr) c hc]

/-- The guard of `SplineObject.raise_order` is `True` when the first basis is periodic. -/
theorem raiseGuard_periodic' (tol : K) (b : Basis K) (hper : 0 ≤ b.periodic) (rest : List (Basis K)) :
    Obj.raiseGuard tol (b :: rest) = .ok true := by
  have hp : b.periodic > -1 := by omega
  have hc : ∃ c, b.continuity tol (b.kn 0) = .ok c := by
    unfold Basis.continuity
    simp only [ge_iff_le, hper, if_true]
    split <;> (split <;> exact ⟨_, rfl⟩)
  obtain ⟨c, hc⟩ := hc
  unfold Obj.raiseGuard
  rw [hc]
  simp [hp]

/-- `Curve.raise_order(a)` with `H_incl` known on a set `S` containing the Greville points
    (copy of `curveRaiseOrder_spec` with the weaker hypothesis). -/
theorem curveRaiseOrder_on (o : Obj K) (tol : K) (b b' : Basis K) (a : ℕ) (ha : 1 ≤ a) (pts : Array K)
    (n nc : ℕ) (hn : 0 < n) (hb : o.bases = #[b]) (hs : o.cps.shape = [n, nc])
    (hb' : b.raiseOrder tol a = .ok b') (hg : b'.greville = .ok pts) (hpts : 0 < pts.size)
    (L : ℕ → ℕ → K)
    (H_sw : ∀ i, i < pts.size → ∀ j, j < pts.size →
      ∑ l ∈ Finset.range pts.size, L i l * (Obj.basisMat b' tol pts.toList 0 true).get l j = if i = j then 1 else 0)
    (c' : ℕ → ℕ → K) (S : K → Prop) (hS : ∀ t ∈ pts.toList, S t)
    (H_incl : ∀ t, S t → ∀ c, c < nc →
      ∑ k ∈ Finset.range pts.size, (b'.evaluate tol t 0 true).getD k 0 * c' k c
        = ∑ j ∈ Finset.range n, (b.evaluate tol t 0 true).getD j 0 * o.cps.get (j * nc + c))
    (r : Ret) (o' : Obj K) (hcall : o.curveRaiseOrder tol (a : Int) = .ok (r, o')) :
    r = .self ∧ o'.bases = #[b'] ∧ o'.rational = o.rational ∧ o'.cps.shape = [pts.size, nc] ∧
      (∀ i, i < pts.size → ∀ c, c < nc → o'.cps.get (i * nc + c) = c' i c) ∧
      (∀ t, S t → ∀ c, c < nc →
        ∑ k ∈ Finset.range pts.size, (b'.evaluate tol t 0 true).getD k 0 * o'.cps.get (k * nc + c)
          = ∑ j ∈ Finset.range n, (b.evaluate tol t 0 true).getD j 0 * o.cps.get (j * nc + c)) := by
  set Nold := Obj.basisMat b tol pts.toList 0 true with hNold
  set Nnew := Obj.basisMat b' tol pts.toList 0 true with hNnew
  unfold Obj.curveRaiseOrder at hcall
  have h1 : ¬ ((a : Int) < 0) := by omega
  have h2 : ¬ ((a : Int) = 0) := by omega
  have hb0 : o.basis 0 = b := by simp [Obj.basis, hb]
  simp only [h1, h2, if_false, hb0, Int.toNat_natCast, hb', hg] at hcall
  rw [← hNold, ← hNnew] at hcall
  split at hcall
  · exact absurd hcall (by simp)
  · rename_i C hC
    have hpair : (Ret.self, ({ o with bases := #[b'], cps := Obj.ofCpsMat C (o.cps.shape.getD 1 1) } : Obj K)) = (r, o') := by
      simpa using hcall
    have hr : r = .self := (Prod.mk.inj hpair).1.symm
    have ho' : o' = { o with bases := #[b'], cps := Obj.ofCpsMat C (o.cps.shape.getD 1 1) } :=
      (Prod.mk.inj hpair).2.symm
    have hnc : o.cps.shape.getD 1 1 = nc := by simp [hs]
    rw [hnc] at ho'
    obtain ⟨hCsz, hsol⟩ := Mat.solveChecked_spec Nnew _ C hC
    have hrows : Nnew.nrows = pts.size := by simp [Mat.nrows, hNnew, basisMat_size]
    have hrowsO : Nold.nrows = pts.size := by simp [Mat.nrows, hNold, basisMat_size]
    have hXcols : (Mat.mul Nold (Obj.cpsMat o.cps)).ncols = nc := by
      rw [Mat.mul_ncols _ _ (by omega), cpsMat_ncols o.cps n nc hs hn]
    rw [hrows] at hCsz hsol
    rw [hXcols] at hsol
    -- the entries of C are c'
    have hCe : ∀ i, i < pts.size → ∀ c, c < nc → C.get i c = c' i c := by
      intro i hi c hc
      have hrow : ∀ l, l < pts.size →
          ∑ k ∈ Finset.range pts.size, Nnew.get l k * C.get k c
            = ∑ k ∈ Finset.range pts.size, Nnew.get l k * c' k c := by
        intro l hl
        rw [hsol l hl c hc, Mat.mul_get Nold _ l c (by omega) (by rw [cpsMat_ncols o.cps n nc hs hn]; exact hc),
          cpsMat_nrows o.cps n nc hs]
        have hl' : l < pts.toList.length := by simpa using hl
        have e1 : ∀ k, Nnew.get l k = (b'.evaluate tol pts.toList[l] 0 true).getD k 0 :=
          fun k => basisMat_get b' tol pts.toList l k hl'
        have e2 : ∀ j, Nold.get l j = (b.evaluate tol pts.toList[l] 0 true).getD j 0 :=
          fun j => basisMat_get b tol pts.toList l j hl'
        simp only [e1, e2]
        rw [H_incl _ (hS _ (List.getElem_mem hl')) c hc]
        apply Finset.sum_congr rfl
        intro j hj
        rw [cpsMat_get o.cps n nc hs j c (Finset.mem_range.mp hj) hc]
      have e3 := leftInv_apply pts.size L (fun a b => Nnew.get a b) H_sw (fun k => C.get k c) i hi
      have e4 := leftInv_apply pts.size L (fun a b => Nnew.get a b) H_sw (fun k => c' k c) i hi
      rw [← e3, ← e4]
      apply Finset.sum_congr rfl
      intro l hl
      rw [hrow l (Finset.mem_range.mp hl)]
    have hge : ∀ i, i < pts.size → ∀ c, c < nc → o'.cps.get (i * nc + c) = c' i c := by
      intro i hi c hc
      rw [ho']
      show (Obj.ofCpsMat C nc).get (i * nc + c) = _
      rw [ofCpsMat_get C nc i c (by omega) hc, hCe i hi c hc]
    refine ⟨hr, by rw [ho'], by rw [ho'], by rw [ho']; simp [Obj.ofCpsMat, hCsz], hge, ?_⟩
    intro t ht c hc
    rw [← H_incl t ht c hc]
    apply Finset.sum_congr rfl
    intro k hk
    rw [hge k (Finset.mem_range.mp hk) c hc]


/-- `ElevatedFrom` with the evaluated-map identity required only at the parameters in `S`
    (for periodic bases: parameters admissible for the old and the new basis). -/
def ElevatedOn (S : K → Prop) (tol : K) (b b' : Basis K) (nc : ℕ) (o o' : Obj K) : Prop :=
  o'.bases = #[b'] ∧ o'.rational = o.rational ∧ o'.cps.shape = [b'.numFunctions, nc] ∧
  (∀ t, S t → ∀ c, c < nc →
    ∑ r ∈ range b'.numFunctions, (b'.evaluate tol t 0 true).getD r 0 * o'.cps.get (r * nc + c)
      = ∑ j ∈ range b.numFunctions, (b.evaluate tol t 0 true).getD j 0 * o.cps.get (j * nc + c)) ∧
  (∀ c, c < nc → (∀ j, j < b.numFunctions → 0 ≤ o.cps.get (j * nc + c)) →
    ∀ r, r < b'.numFunctions → 0 ≤ o'.cps.get (r * nc + c))

/-- **`raise_order(a)`, `a ≥ 1`, on a curve over a standard periodic basis**, relative to `H_sw`
    (certified inverse of the periodic Greville collocation matrix) and admissibility of the Greville
    points: the three paths succeed, the public ones return the receiver, and the result is
    `ElevatedOn` the parameters admissible for both bases. -/
theorem raise_periodic_curve (h : PerData tol p k w0 wr μ0 μr T) (htol : 0 < tol) (a : ℕ) (ha : 1 ≤ a)
    (o : Obj K) (nc : ℕ)
    (hb : o.bases = #[perBasis p k (w0 :: wr) (μ0 :: μr) T])
    (hs : o.cps.shape = [(perBasis p k (w0 :: wr) (μ0 :: μr) T).numFunctions, nc])
    (pts : Array K) (hg : (perBasis (p + a) k (w0 :: wr) ((μ0 :: μr).map (· + a)) T).greville = .ok pts)
    (hadm : ∀ t ∈ pts.toList, (perBasis p k (w0 :: wr) (μ0 :: μr) T).Admissible tol t ∧
      (perBasis (p + a) k (w0 :: wr) ((μ0 :: μr).map (· + a)) T).Admissible tol t)
    (Ni : Mat K)
    (H_sw : Mat.invChecked (Obj.basisMat (perBasis (p + a) k (w0 :: wr) ((μ0 :: μr).map (· + a)) T) tol
      pts.toList 0 true) = .ok Ni) :
    let b := perBasis p k (w0 :: wr) (μ0 :: μr) T
    let b' := perBasis (p + a) k (w0 :: wr) ((μ0 :: μr).map (· + a)) T
    let S : K → Prop := fun u => b.Admissible tol u ∧ b'.Admissible tol u
    (∃ o', o.raiseOrderImplicit tol [a] = .ok o' ∧ ElevatedOn S tol b b' nc o o') ∧
    (∃ o', o.raiseOrder tol [(a : Int)] none = .ok (.self, o') ∧ ElevatedOn S tol b b' nc o o') ∧
    (∃ o', o.curveRaiseOrder tol (a : Int) = .ok (.self, o') ∧ ElevatedOn S tol b b' nc o o') := by
  intro b b' S
  have hraise : b.raiseOrder tol a = .ok b' := raiseOrder_periodic h htol a
  obtain ⟨E, hE, hrows⟩ := h.H_incl_rows htol a
  have hrowsS : ∀ (f : ℕ → K) (t : K), S t →
      ∑ r ∈ range b'.numFunctions, (b'.evaluate tol t 0 true).getD r 0 * (∑ j ∈ range b.numFunctions, f j * E j r)
        = ∑ j ∈ range b.numFunctions, (b.evaluate tol t 0 true).getD j 0 * f j :=
    fun f t ht => hrows f t ht.1 ht.2
  obtain ⟨o1, h1, g1, g2, g3, g4, g5⟩ := raiseImplicit_curve_on o tol b b' a pts nc Ni hb hs hraise hg H_sw E S
    hadm hrowsS
  have pack : ∀ o' : Obj K, o'.bases = #[b'] → o'.rational = o.rational → o'.cps.shape = [b'.numFunctions, nc] →
      (∀ i, i < b'.numFunctions → ∀ c, c < nc →
        o'.cps.get (i * nc + c) = ∑ j ∈ range b.numFunctions, o.cps.get (j * nc + c) * E j i) →
      (∀ t, S t → ∀ c, c < nc →
        ∑ r ∈ range b'.numFunctions, (b'.evaluate tol t 0 true).getD r 0 * o'.cps.get (r * nc + c)
          = ∑ j ∈ range b.numFunctions, (b.evaluate tol t 0 true).getD j 0 * o.cps.get (j * nc + c)) →
      ElevatedOn S tol b b' nc o o' := by
    intro o' e1 e2 e3 e4 e5
    refine ⟨e1, e2, e3, e5, ?_⟩
    intro c hc hpos r hr
    rw [e4 r hr c hc]
    exact Finset.sum_nonneg (fun j hj => mul_nonneg (hpos j (mem_range.mp hj)) (hE j r))
  have hP := greville_size b' pts hg
  refine ⟨⟨o1, h1, pack o1 g1 g2 g3 g4 g5⟩, ⟨o1, ?_, pack o1 g1 g2 g3 g4 g5⟩, ?_⟩
  · -- the public base-class method
    unfold Obj.raiseOrder
    have hpd : o.pardim = 1 := by simp [Obj.pardim, hs]
    have hguard : Obj.raiseGuard tol o.bases.toList = .ok true := by
      rw [hb]
      exact raiseGuard_periodic' tol _ (by show (0 : Int) ≤ (k : Int); omega) []
    have ha0 : ¬ (a = 0) := by omega
    simp [Obj.normRaises, hpd, ha0, hguard, h1]
  · -- the `Curve` override
    obtain ⟨_, hinv⟩ := Mat.invChecked_spec _ Ni H_sw
    have hrowsN : (Obj.basisMat b' tol pts.toList 0 true).nrows = pts.size := by
      simp [Mat.nrows, basisMat_size]
    rw [hrowsN] at hinv
    have hv' : b'.Valid := by
      have := (h.raise a).valid htol.le
      have hmap : (μ0 :: μr).map (· + a) = (μ0 + a) :: μr.map (· + a) := by simp
      show (perBasis (p + a) k (w0 :: wr) ((μ0 :: μr).map (· + a)) T).Valid
      rw [hmap]; exact this
    have hn0 : 0 < b.numFunctions := by
      rw [(h.start_stop).2.2]; have := h.pos0; omega
    have hpts0 : 0 < pts.size := by
      rw [hP]
      have h1 := hv'.order_pos; have h2 := hv'.size_ge; have h3 := hv'.periodic_ge; have h4 := hv'.periodic_le
      unfold Basis.numFunctions; omega
    obtain ⟨o2, ho2⟩ := curveRaiseOrder_succeeds o tol b b' a ha pts b.numFunctions nc hn0 hb hs hraise hg hpts0
      (fun i j => Ni.get i j) hinv
    obtain ⟨_, f1, f2, f3, f4, f5⟩ := curveRaiseOrder_on o tol b b' a ha pts b.numFunctions nc hn0 hb hs hraise hg
      hpts0 (fun i j => Ni.get i j) hinv
      (fun r c => ∑ j ∈ range b.numFunctions, o.cps.get (j * nc + c) * E j r) S hadm
      (fun t ht c _ => by rw [hP]; exact hrowsS (fun j => o.cps.get (j * nc + c)) t ht) .self o2 ho2
    rw [hP] at f3 f4 f5
    exact ⟨o2, ho2, pack o2 f1 f2 f3 f4 f5⟩

/-- Concrete instance for the non-vacuity example: closed quadratic curve on the periodic basis
    `-1,0,0,1,2,2,3` (order 3, `k = 0`). -/
def c05PerCurve : Obj ℚ :=
  { bases := #[perBasis 3 0 ((0 : ℚ) :: [1]) (2 :: [1]) 2],
    cps := { shape := [3, 2], data := #[0,0,2,0,1,3] }, rational := false }

/-- Decidability of `ExactAt` / `Admissible` at concrete rationals (kernel-evaluated examples only). -/
@[instance_reducible] def c05ExactAtDec (b : Basis ℚ) (tol t : ℚ) : Decidable (b.ExactAt tol t) := by
  unfold Basis.ExactAt; infer_instance

attribute [local instance] c05ExactAtDec in
@[instance_reducible] def c05AdmissibleDec (b : Basis ℚ) (tol t : ℚ) : Decidable (b.Admissible tol t) := by
  unfold Basis.Admissible; infer_instance

end Splipy
