import Splipy.Lemmas.C04Open

/-!
# C04 helper lemmas, part 3: the knot vector after `np.insert`, and the open-basis theorem
-/

namespace Splipy
namespace C04

set_option linter.unusedSectionVars false

variable {K : Type} [Field K] [LinearOrder K]

theorem kn_of_lt (b : Basis K) {i : ℕ} (h : i < b.knots.size) : b.kn i = b.knots[i] := by
  simp [Basis.kn, Array.getD, h]

theorem kn_of_ge (b : Basis K) {i : ℕ} (h : b.knots.size ≤ i) :
    b.kn i = b.kn (b.knots.size - 1) := by
  by_cases h0 : b.knots.size = 0
  · simp [Basis.kn, Array.getD, h0]
  · have h1 : ¬ i < b.knots.size := by omega
    have h2 : b.knots.size - 1 < b.knots.size := by omega
    simp [Basis.kn, Array.getD, h1, h2]

theorem kn_mono {b : Basis K} (hs : ∀ i, i + 1 < b.knots.size → b.kn i ≤ b.kn (i + 1)) :
    Monotone b.kn := by
  apply monotone_nat_of_le_succ
  intro n
  by_cases h : n + 1 < b.knots.size
  · exact hs n h
  · rw [kn_of_ge b (i := n+1) (by omega)]
    by_cases h' : n < b.knots.size
    · rw [show b.knots.size - 1 = n by omega]
    · rw [kn_of_ge b (i := n) (by omega)]

theorem size_insertAt (a : Array K) (mu : ℕ) (x : K) (h : mu ≤ a.size) :
    (Basis.insertAt a mu x).size = a.size + 1 := by
  simp [Basis.insertAt]; omega

theorem getElem?_insertAt (a : Array K) (mu : ℕ) (x : K) (h : mu ≤ a.size) (j : ℕ) :
    (Basis.insertAt a mu x)[j]? = if j < mu then a[j]? else if j = mu then some x else a[j-1]? := by
  unfold Basis.insertAt
  rw [Array.getElem?_append]
  have hs : ((a.extract 0 mu).push x).size = mu + 1 := by simp; omega
  rw [hs]
  by_cases h1 : j < mu
  · rw [if_pos (by omega), if_pos h1, Array.getElem?_push]
    have : ¬ j = (a.extract 0 mu).size := by simp; omega
    rw [if_neg this, Array.getElem?_extract]
    simp only [Nat.zero_add, Nat.sub_zero]
    rw [if_pos (by omega)]
  · rw [if_neg h1]
    by_cases h2 : j = mu
    · subst h2
      rw [if_pos (by omega), if_pos rfl, Array.getElem?_push]
      have : j = (a.extract 0 j).size := by simp; omega
      rw [if_pos this]
    · rw [if_neg (by omega), if_neg h2, Array.getElem?_extract]
      by_cases h3 : j - (mu + 1) < min a.size a.size - mu
      · rw [if_pos h3]
        congr 1
        omega
      · rw [if_neg h3]
        have : a.size ≤ j - 1 := by
          simp only [Nat.min_self] at h3
          omega
        exact (Array.getElem?_eq_none this).symm

/-- `np.insert(knots, mu, x)` is `insertSeq` on the total knot accessor (for `mu < size`). -/
theorem kn_insertAt (b : Basis K) (mu : ℕ) (x : K) (h : mu < b.knots.size) (j : ℕ) :
    ({ b with knots := Basis.insertAt b.knots mu x } : Basis K).kn j = insertSeq b.kn mu x j := by
  have hsz := size_insertAt b.knots mu x (le_of_lt h)
  have hg : ∀ i, i ≤ b.knots.size →
      (Basis.insertAt b.knots mu x)[i]?.getD 0 = insertSeq b.kn mu x i := by
    intro i hi
    rw [getElem?_insertAt _ _ _ (le_of_lt h)]
    unfold insertSeq
    by_cases h1 : i < mu
    · rw [if_pos h1, if_pos h1, kn_of_lt b (by omega)]
      simp [Array.getElem?_eq_getElem (show i < b.knots.size by omega)]
    · rw [if_neg h1, if_neg h1]
      by_cases h2 : i = mu
      · rw [if_pos h2, if_pos h2]; rfl
      · rw [if_neg h2, if_neg h2, kn_of_lt b (show i - 1 < b.knots.size by omega)]
        simp [Array.getElem?_eq_getElem (show i - 1 < b.knots.size by omega)]
  have hlast : (Basis.insertAt b.knots mu x)[b.knots.size]?.getD 0 = b.kn (b.knots.size - 1) := by
    rw [hg _ le_rfl]
    unfold insertSeq
    rw [if_neg (by omega), if_neg (by omega)]
  change (Basis.insertAt b.knots mu x).getD j
    ((Basis.insertAt b.knots mu x).getD ((Basis.insertAt b.knots mu x).size - 1) 0) = _
  simp only [Array.getD_eq_getD_getElem?]
  rw [hsz, show b.knots.size + 1 - 1 = b.knots.size by omega, hlast]
  by_cases hj : j ≤ b.knots.size
  · have hjs : j < (Basis.insertAt b.knots mu x).size := by omega
    have := hg j hj
    rw [Array.getElem?_eq_getElem hjs] at this ⊢
    simpa using this
  · have hjs : (Basis.insertAt b.knots mu x).size ≤ j := by omega
    rw [Array.getElem?_eq_none hjs]
    simp only [Option.getD_none]
    unfold insertSeq
    rw [if_neg (by omega), if_neg (by omega), kn_of_ge b (show b.knots.size ≤ j - 1 by omega)]

/-- `(C·c)_r` for the model's array matrix. -/
def mulVec (C : Array (Array K)) (n : ℕ) (c : ℕ → K) : ℕ → K :=
  fun r => (Finset.range n).sum (fun j => entry C r j * c j)

theorem splineVal_congr (s : Side) (τ : ℕ → K) (q n : ℕ) (c c' : ℕ → K) (t : K)
    (h : ∀ r, r < n → c r = c' r) : splineVal s τ q n c t = splineVal s τ q n c' t := by
  unfold splineVal
  exact Finset.sum_congr rfl (fun r hr => by rw [h r (Finset.mem_range.1 hr)])

theorem splineDeriv_congr (s : Side) (τ : ℕ → K) (q n : ℕ) (c c' : ℕ → K) (d : ℕ) (t : K)
    (h : ∀ r, r < n → c r = c' r) : splineDeriv s τ q n c d t = splineDeriv s τ q n c' d t := by
  unfold splineDeriv
  exact Finset.sum_congr rfl (fun r hr => by rw [h r (Finset.mem_range.1 hr)])

/-- The array matrix of `insert_knot` acts like the closed form (non-wrapping case). -/
theorem mulVec_matC (τ : ℕ → K) (x : K) (n p mu : ℕ) (hp : 1 ≤ p) (hpm : p ≤ mu) (hmn : mu ≤ n)
    (hx : τ (mu - 1) ≤ x ∧ x ≤ τ mu) (c : ℕ → K) (r : ℕ) (hr : r < n + 1) :
    mulVec (matC τ x n p mu) n c r = mulVecF (codeF τ x p mu) n c r := by
  unfold mulVec mulVecF
  apply Finset.sum_congr rfl
  intro j hj
  have hj' := Finset.mem_range.1 hj
  rw [(rel_matC τ x n p mu (by omega)).2 r j hr hj', matF_closed τ x n p mu hp hpm hmn hx r j hj']


theorem perm_insertAt (a : Array K) (mu : ℕ) (x : K) :
    (Basis.insertAt a mu x).toList.Perm (x :: a.toList) := by
  unfold Basis.insertAt
  rw [Array.toList_append, Array.toList_push, Array.toList_extract, Array.toList_extract,
    List.extract_eq_take_drop, List.extract_eq_take_drop]
  simp only [List.drop_zero, Nat.sub_zero, List.append_assoc, List.singleton_append]
  have e : List.take (a.size - mu) (List.drop mu a.toList) = List.drop mu a.toList := by
    apply List.take_of_length_le
    simp
  rw [e]
  have := @List.perm_middle _ x (List.take mu a.toList) (List.drop mu a.toList)
  rwa [List.take_append_drop] at this

section open_basis

variable [IsStrictOrderedRing K] [FloorRing K]

/-- What a successful, geometry-preserving insertion `b ↦ (b', C)` means (used for single insertions
    and, with `k` inserted values, for sequences): `b'` valid with the same order/periodicity/domain,
    `k` more knots and functions, `C` of shape `(n+k) × n`, and `C` maps the coefficients of any spline on
    `b` to coefficients of the SAME function on `b'` (values and every derivative, both sides). -/
structure Refines (b b' : Basis K) (C : Mat K) (k : ℕ) : Prop where
  valid : b'.Valid
  order_eq : b'.order = b.order
  periodic_eq : b'.periodic = b.periodic
  size_eq : b'.knots.size = b.knots.size + k
  num_eq : b'.numFunctions = b.numFunctions + k
  start_eq : b'.start = b.start
  stop_eq : b'.stop = b.stop
  shape : Shape (b.numFunctions + k) b.numFunctions C
  same : ∀ (c : ℕ → K) (s : Side) (t : K),
    splineVal s b'.kn (b.order - 1) (b.numFunctions + k) (mulVec C b.numFunctions c) t
      = splineVal s b.kn (b.order - 1) b.numFunctions c t ∧
    ∀ d, splineDeriv s b'.kn (b.order - 1) (b.numFunctions + k) (mulVec C b.numFunctions c) d t
      = splineDeriv s b.kn (b.order - 1) b.numFunctions c d t

/-- Single insertion into a valid non-periodic basis (the content of `C04_open`). -/
theorem insertKnot_open (b : Basis K) (hv : b.Valid) (hper : b.periodic = -1) (x : K)
    (hx : b.start ≤ x ∧ x ≤ b.stop) (hμ : b.bisectR x - 1 + b.order < b.knots.size) :
    ∃ b' C, b.insertKnot x = .ok (b', C) ∧ Refines b b' C 1 ∧
      (∀ j, b'.kn j = insertSeq b.kn (b.bisectR x) x j) ∧
      b'.knots.toList.Perm (x :: b.knots.toList) := by
  have hmono : Monotone b.kn := kn_mono hv.sorted
  have hp := hv.order_pos
  have hsz := hv.size_ge
  obtain ⟨hm1, hm2, hm3⟩ := bisectRight_spec b.kn hmono x b.knots.size
  set mu := b.bisectR x with hmu
  have hm1' : mu ≤ b.knots.size := hm1
  have hm2' : ∀ i, i < mu → b.kn i ≤ x := hm2
  have hm3' : ∀ i, mu ≤ i → i < b.knots.size → x < b.kn i := hm3
  have hpm : b.order ≤ mu := by
    by_contra hlt
    have := hm3' (b.order - 1) (by omega) (by omega)
    exact absurd hx.1 (not_le.2 this)
  have hn : b.numFunctions = b.knots.size - b.order := by
    unfold Basis.numFunctions; rw [hper]; simp
  have hmn : mu ≤ b.numFunctions := by omega
  have hxx : b.kn (mu - 1) ≤ x ∧ x ≤ b.kn mu :=
    ⟨hm2' _ (by omega), le_of_lt (hm3' mu le_rfl (by omega))⟩
  obtain ⟨hlo, hhi⟩ := bo_bounds b.kn hmono mu x hxx
  have hσ : Monotone (insertSeq b.kn mu x) := bo_insertSeq_mono b.kn hmono mu x hlo hhi
  have hkn := kn_insertAt b mu x (show mu < b.knots.size by omega)
  have hsize := size_insertAt b.knots mu x hm1'
  have hstart : ({ b with knots := Basis.insertAt b.knots mu x } : Basis K).start = b.start := by
    change ({ b with knots := Basis.insertAt b.knots mu x } : Basis K).kn (b.order - 1) = _
    rw [hkn, bo_ins_lt (by omega)]; rfl
  have hstop : ({ b with knots := Basis.insertAt b.knots mu x } : Basis K).stop = b.stop := by
    change ({ b with knots := Basis.insertAt b.knots mu x } : Basis K).kn
      ((Basis.insertAt b.knots mu x).size - b.order) = _
    rw [hkn, hsize, bo_ins_gt (k := b.knots.size - b.order) (by omega) (by omega)]; rfl
  have hq : b.order = (b.order - 1) + 1 := by omega
  refine ⟨{ b with knots := Basis.insertAt b.knots mu x }, matC b.kn x b.numFunctions b.order mu,
    ?_, ⟨?_, rfl, rfl, hsize, ?_, hstart, hstop, (rel_matC _ _ _ _ _ (by omega)).1, ?_⟩, hkn,
    perm_insertAt _ _ _⟩
  · rw [insertKnot_eq b x (not_coverCond_of_nonperiodic b (by rw [hper]; decide))
      (fun y _ => insertMu_nonperiodic b (by rw [hper]; decide) y)]
    have hw : wrapX b x = .ok x := by
      unfold wrapX
      rw [if_neg (by rw [hper]; decide),
        if_neg (not_or.2 ⟨not_lt.2 hx.1, not_lt.2 hx.2⟩)]
    rw [hw]
    have hidx : ¬ idxErr b x mu := by
      unfold idxErr
      omega
    simp only []
    rw [← hmu, if_neg (by omega), if_neg (by omega), if_neg hidx]
    unfold repair
    rw [if_neg (by rw [hper]; decide)]
  · refine ⟨hp, (show 2 * b.order ≤ (Basis.insertAt b.knots mu x).size by rw [hsize]; omega), fun i _ => ?_, by rw [hper], Or.inr hper, ?_, ?_⟩
    · rw [hkn, hkn]; exact hσ (Nat.le_succ i)
    · rw [hstart, hstop]; exact hv.start_lt_stop
    · intro h0; rw [hper] at h0; exact absurd h0 (by decide)
  · change (Basis.insertAt b.knots mu x).size - b.order - (b.periodic + 1).toNat = _
    rw [hsize, hn, hper]; simp; omega
  · intro c s t
    have hfun : ({ b with knots := Basis.insertAt b.knots mu x } : Basis K).kn
        = insertSeq b.kn mu x := funext hkn
    rw [hfun]
    have hmv : ∀ r, r < b.numFunctions + 1 →
        mulVec (matC b.kn x b.numFunctions b.order mu) b.numFunctions c r
          = mulVecF (codeF b.kn x ((b.order - 1) + 1) mu) b.numFunctions c r := by
      intro r hr
      rw [← hq]
      exact mulVec_matC b.kn x b.numFunctions b.order mu hp hpm hmn hxx c r hr
    refine ⟨?_, fun d => ?_⟩
    · rw [splineVal_congr s _ _ _ _ _ t hmv]
      exact spline_codeF s b.kn hmono mu x (b.order - 1) b.numFunctions (by omega) hxx c t
    · rw [splineDeriv_congr s _ _ _ _ _ d t hmv]
      exact splineDeriv_codeF s b.kn hmono mu x (b.order - 1) b.numFunctions (by omega) hxx c d t

/-- `x < end` is enough for the index guard (no clamping needed). -/
theorem guard_of_lt_stop (b : Basis K) (hv : b.Valid) (x : K) (hx : x < b.stop) :
    b.bisectR x - 1 + b.order < b.knots.size := by
  have hmono : Monotone b.kn := kn_mono hv.sorted
  obtain ⟨hm1, hm2, _⟩ := bisectRight_spec b.kn hmono x b.knots.size
  have hp := hv.order_pos
  have hsz := hv.size_ge
  have : b.bisectR x ≤ b.knots.size - b.order := by
    by_contra hlt
    have h2 : b.kn (b.knots.size - b.order) ≤ x := hm2 _ (by unfold Basis.bisectR at hlt; omega)
    exact absurd hx (not_lt.2 h2)
  omega

end open_basis

end C04
end Splipy
