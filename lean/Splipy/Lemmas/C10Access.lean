import Splipy.Model.Accessors
import Splipy.Lemmas.C10Section
import Splipy.Lemmas.C19Index
import Splipy.Lemmas.TensorEvalObj

/-!
# C10: accessors, flat indexing, clone / re-construction, evaluation of a well-formed object

* A. `Obj.WellFormed.accessors_consistent`: `len / shape / order / knots / start / end` and the flat
  (first-index-fastest) control-point indexing (`__getitem__`, `__setitem__` with an `int` or a full
  multi-index) are mutually consistent (component lemmas in `namespace Obj.WellFormed`);
* B. `Obj.construct_own`, `Obj.clone_eq`, `Obj.WellFormed.clone`, `Obj.WellFormed.construct`;
* C. `Obj.WellFormed.evaluable`: evaluation on the whole domain, every parametric dimension
  (`Basis.SnapSafe tol`: no knot strictly outside `[start, end]` within `tol` of it, so that the in-place
  `snap` of `_validate_domain` cannot push a parameter out of the domain), with the variants
  `evaluable_of_snapped` (hypothesis on the snapped parameters) and `evaluable_at_knots` (no hypothesis
  on the tolerance).
-/

set_option linter.unusedSectionVars false

namespace Splipy

open FileIO

variable {K : Type} [Field K] [LinearOrder K]

namespace C10

theorem tprod_eq (l : List ℕ) : Tensor.prod l = l.prod := by
  induction l with
  | nil => rfl
  | cons a l ih => rw [C06.prod_cons, ih, List.prod_cons]

theorem get_eq_getElem (t : Tensor K) (f : ℕ) (hf : f < t.data.size) : t.get f = t.data[f] := by
  simp [Tensor.get, Array.getD, hf]

theorem getD_eq_getElem (a : Array K) (c : ℕ) (hc : c < a.size) : a.getD c 0 = a[c] := by
  simp [Array.getD, hc]

theorem split3_mid (pre : List ℕ) (n : ℕ) (post : List ℕ) :
    Tensor.split3 (pre ++ n :: post) pre.length = (Tensor.prod pre, n, Tensor.prod post) := by
  simp [Tensor.split3]

/-- Reading `takeAxis`: outer block `a`, inner position `i`. -/
theorem takeAxis_get (t : Tensor K) (d j a i : ℕ) (ha : a < (Tensor.split3 t.shape d).1)
    (hi : i < (Tensor.split3 t.shape d).2.2) :
    (t.takeAxis d j).get (a * (Tensor.split3 t.shape d).2.2 + i) = t.at3 d a j i := by
  have := build3_get t.shape d 1 (fun a _ i => t.at3 d a j i) a 0 i ha (by omega) hi
  simp only [Nat.mul_one, Nat.add_zero] at this
  exact this

theorem idxOk_selOk : ∀ {cnts js : List ℕ}, IdxOk cnts js → SelOk cnts (js.map some)
  | [], [], _ => List.Forall₂.nil
  | [], _ :: _, h => h.elim
  | _ :: _, [], h => h.elim
  | _ :: _, _ :: _, h =>
    List.Forall₂.cons (by intro j' hj'; injection hj' with hj'; subst hj'; exact h.1) (idxOk_selOk h.2)

/-- **Fixing every remaining direction**: the slicing recursion started at axis `pre.length` with an
    integer for every later direction leaves shape `pre ++ [nc]` and reads the old tensor at the
    C-order position of the multi-index. -/
theorem sliceSecFrom_all {t : Tensor K} {nc : ℕ} : ∀ {cnts js : List ℕ}, IdxOk cnts js →
    ∀ (pre : List ℕ), t.shape = pre ++ cnts ++ [nc] → t.data.size = Tensor.prod t.shape →
      (Obj.sliceSecFrom pre.length (js.map some) t).shape = pre ++ [nc] ∧
      (Obj.sliceSecFrom pre.length (js.map some) t).data.size
        = Tensor.prod (Obj.sliceSecFrom pre.length (js.map some) t).shape ∧
      ∀ A c, A < pre.prod → c < nc →
        (Obj.sliceSecFrom pre.length (js.map some) t).get (A * nc + c)
          = t.get ((A * cnts.prod + ravelC cnts js) * nc + c)
  | [], [], _ => by
    intro pre hsh hsz
    refine ⟨by simpa [Obj.sliceSecFrom] using hsh, by simpa [Obj.sliceSecFrom] using hsz, ?_⟩
    intro A c _ _
    simp [Obj.sliceSecFrom, ravelC]
  | [], _ :: _, h => h.elim
  | _ :: _, [], h => h.elim
  | n :: cnts, j :: js, h => by
    intro pre hsh hsz
    obtain ⟨hj, hok⟩ := h
    have ih := sliceSecFrom_all (t := t) (nc := nc) hok (pre ++ [n]) (by simpa using hsh) hsz
    rw [List.length_append, List.length_singleton] at ih
    obtain ⟨ish, isz, iget⟩ := ih
    rw [List.map_cons, Obj.sliceSecFrom]
    set T' := Obj.sliceSecFrom (pre.length + 1) (js.map some) t with hT'
    have hnet : Net T' (pre ++ [n]) nc 0 false := ⟨ish, isz, by intro hh; cases hh⟩
    have hnet' := hnet.takeAxis pre.length j (by simp) (by simp [List.getD_eq_getElem?_getD]; exact hj)
    have hpre : (pre ++ [n]).eraseIdx pre.length = pre := by
      simp [List.eraseIdx_append_of_length_le]
    rw [hpre] at hnet'
    refine ⟨hnet'.shape, hnet'.size, ?_⟩
    intro A c hA hc
    have hsp : Tensor.split3 T'.shape pre.length = (Tensor.prod pre, n, nc) := by
      rw [ish, List.append_assoc, List.singleton_append, split3_mid]
      simp [Tensor.prod]
    have key := takeAxis_get T' pre.length j A c (by rw [hsp, tprod_eq]; exact hA) (by rw [hsp]; exact hc)
    rw [hsp] at key
    simp only at key
    rw [key]
    unfold Tensor.at3
    rw [hsp]
    simp only
    have hlt : A * n + j < (pre ++ [n]).prod := by
      rw [List.prod_append, List.prod_singleton]
      calc A * n + j < A * n + n := by omega
        _ = (A + 1) * n := by ring
        _ ≤ pre.prod * n := Nat.mul_le_mul_right _ hA
    rw [iget (A * n + j) c hlt hc]
    congr 1
    simp only [ravelC, List.prod_cons]
    ring

theorem pyIndex_cast {n j : ℕ} (hj : j < n) : Sections.pyIndex n (j : Int) = .ok j := by
  unfold Sections.pyIndex
  simp only
  rw [if_neg (show ¬ ((j : Int) < 0) by omega), if_pos ⟨by omega, by omega⟩, Int.toNat_natCast]

/-- numpy integer indexing with in-range non-negative indices (surplus axes `extra` untouched). -/
theorem mapM_pyIndex_cast : ∀ {shape js : List ℕ} (extra : List ℕ), IdxOk shape js →
    (List.zip (shape ++ extra) (js.map (fun j : ℕ => (j : Int)))).mapM
      (fun (p : ℕ × Int) => Sections.pyIndex p.1 p.2) = .ok js
  | [], [], _, _ => by rw [List.map_nil, List.zip_nil_right, List.mapM_nil]; rfl
  | [], _ :: _, _, h => h.elim
  | _ :: _, [], _, h => h.elim
  | n :: shape, j :: js, extra, h => by
    rw [List.cons_append, List.map_cons, List.zip_cons_cons, List.mapM_cons,
      mapM_pyIndex_cast extra h.2]
    show (do let a ← Sections.pyIndex n (j : Int); let bs ← (Except.ok js : PyM _); pure (a :: bs)) = _
    rw [pyIndex_cast h.1]
    rfl

theorem unravelF_length : ∀ (shape : List ℕ) (k : ℕ), (unravelF shape k).length = shape.length
  | [], _ => rfl
  | _ :: s, k => by simp [unravelF, unravelF_length s]

end C10

namespace Obj

open C10 Sections

variable {o : Obj K}

theorem list_map_getElem? {α β : Type} (a : Array α) (f : α → β) (dflt : α) (d : ℕ) (hd : d < a.size) :
    (a.toList.map f)[d]? = some (f (a.getD d dflt)) := by
  simp [Array.getD, hd]

/-! ### storing a control point -/

theorem ext_getD (a b : Array K) (hs : a.size = b.size) (hg : ∀ c, c < a.size → a.getD c 0 = b.getD c 0) :
    a = b := by
  apply Array.ext hs
  intro c h1 h2
  rw [← getD_eq_getElem a c h1, ← getD_eq_getElem b c h2]
  exact hg c h1

theorem pointRow_size' (o : Obj K) (p : ℕ) (hb : p * o.ncomp + o.ncomp ≤ o.cps.data.size) :
    (o.pointRow p).size = o.ncomp := by
  unfold Obj.pointRow
  rw [Array.size_extract]
  omega

theorem pointRow_getD' (o : Obj K) (p : ℕ) (hb : p * o.ncomp + o.ncomp ≤ o.cps.data.size) (c : ℕ)
    (hc : c < o.ncomp) : (o.pointRow p).getD c 0 = o.cps.get (p * o.ncomp + c) := by
  unfold Obj.pointRow Tensor.get
  rw [Array.getD_eq_getD_getElem?, Array.getElem?_extract, if_pos (by omega),
    Array.getD_eq_getD_getElem?]

/-- The object `setRow` returns. -/
def setRowObj (o : Obj K) (p : ℕ) (cp : Array K) : Obj K :=
  { bases := o.bases,
    cps := { shape := o.cps.shape,
             data := Array.ofFn (n := o.cps.data.size) (fun k =>
               if p * o.ncomp ≤ k.val ∧ k.val < p * o.ncomp + o.ncomp then
                 cp.getD (if cp.size = 1 then 0 else k.val - p * o.ncomp) 0
               else o.cps.data.getD k.val 0) },
    rational := o.rational }

theorem setRow_eq (o : Obj K) (p : ℕ) (cp : Array K) (hcp : cp.size = o.ncomp ∨ cp.size = 1) :
    o.setRow p cp = .ok (o.setRowObj p cp) := by
  unfold Obj.setRow
  simp only
  rw [if_pos hcp]
  rfl

theorem setRow_bad (o : Obj K) (p : ℕ) (cp : Array K) (hcp : ¬ (cp.size = o.ncomp ∨ cp.size = 1)) :
    o.setRow p cp = .error .value := by
  unfold Obj.setRow
  simp only
  rw [if_neg hcp]

theorem setRowObj_get (o : Obj K) (p : ℕ) (cp : Array K) (k : ℕ) (hk : k < o.cps.data.size) :
    (o.setRowObj p cp).cps.get k
      = if p * o.ncomp ≤ k ∧ k < p * o.ncomp + o.ncomp then
          cp.getD (if cp.size = 1 then 0 else k - p * o.ncomp) 0
        else o.cps.get k := by
  unfold Obj.setRowObj Tensor.get
  simp only
  rw [Array.getD_eq_getD_getElem?, Array.getElem?_ofFn, dif_pos hk]
  rfl

theorem setRowObj_size (o : Obj K) (p : ℕ) (cp : Array K) :
    (o.setRowObj p cp).cps.data.size = o.cps.data.size := by
  unfold Obj.setRowObj; simp

/-- The stored row reads back. -/
theorem setRowObj_row_self (o : Obj K) (p : ℕ) (cp : Array K) (hcp : cp.size = o.ncomp)
    (hb : p * o.ncomp + o.ncomp ≤ o.cps.data.size) : (o.setRowObj p cp).pointRow p = cp := by
  have hb' : p * (o.setRowObj p cp).ncomp + (o.setRowObj p cp).ncomp ≤ (o.setRowObj p cp).cps.data.size := by
    rw [setRowObj_size]; exact hb
  apply ext_getD
  · rw [pointRow_size' _ p hb', hcp]; rfl
  · intro c hc
    rw [pointRow_size' _ p hb'] at hc
    have hc' : c < o.ncomp := hc
    rw [pointRow_getD' _ p hb' c hc]
    show (o.setRowObj p cp).cps.get (p * o.ncomp + c) = _
    rw [setRowObj_get o p cp _ (by omega), if_pos ⟨by omega, by omega⟩]
    by_cases h1 : cp.size = 1
    · rw [if_pos h1]
      have : c = 0 := by omega
      rw [this]
    · rw [if_neg h1, Nat.add_sub_cancel_left]

/-- Every other row is untouched. -/
theorem setRowObj_row_ne (o : Obj K) (p p' : ℕ) (cp : Array K) (hne : p' ≠ p)
    (hb : p' * o.ncomp + o.ncomp ≤ o.cps.data.size) : (o.setRowObj p cp).pointRow p' = o.pointRow p' := by
  have hb' : p' * (o.setRowObj p cp).ncomp + (o.setRowObj p cp).ncomp ≤ (o.setRowObj p cp).cps.data.size := by
    rw [setRowObj_size]; exact hb
  apply ext_getD
  · rw [pointRow_size' _ p' hb', pointRow_size' _ p' hb]; rfl
  · intro c hc
    rw [pointRow_size' _ p' hb'] at hc
    have hc' : c < o.ncomp := hc
    rw [pointRow_getD' _ p' hb' c hc, pointRow_getD' _ p' hb c hc']
    show (o.setRowObj p cp).cps.get (p' * o.ncomp + c) = _
    rw [setRowObj_get o p cp _ (by omega), if_neg]
    intro ⟨h1, h2⟩
    rcases Nat.lt_or_gt_of_ne hne with hlt | hgt
    · have : (p' + 1) * o.ncomp ≤ p * o.ncomp := Nat.mul_le_mul_right _ hlt
      rw [Nat.add_mul, Nat.one_mul] at this
      omega
    · have : (p + 1) * o.ncomp ≤ p' * o.ncomp := Nat.mul_le_mul_right _ hgt
      rw [Nat.add_mul, Nat.one_mul] at this
      omega

namespace WellFormed

variable (h : o.WellFormed)
include h

theorem shapeAcc_eq : o.shapeAcc = o.counts := by
  unfold Obj.shapeAcc; rw [h.shape]; simp

theorem len_eq_prod : o.len = o.shapeAcc.prod := by
  rw [h.shapeAcc_eq]; unfold Obj.len; exact tprod_eq _

theorem shapeAcc_length : o.shapeAcc.length = o.pardim := by
  rw [h.shapeAcc_eq, counts_length, h.bases_size]

theorem orderAcc_length : o.orderAcc.length = o.pardim := by
  unfold Obj.orderAcc; rw [List.length_map, Array.length_toList, h.bases_size]

theorem knotsAcc_length : o.knotsAcc.length = o.pardim := by
  unfold Obj.knotsAcc; rw [List.length_map, Array.length_toList, h.bases_size]

theorem startAcc_length : o.startAcc.length = o.pardim := by
  unfold Obj.startAcc; rw [List.length_map, Array.length_toList, h.bases_size]

theorem endAcc_length : o.endAcc.length = o.pardim := by
  unfold Obj.endAcc; rw [List.length_map, Array.length_toList, h.bases_size]

theorem orderAcc_get (d : ℕ) (hd : d < o.pardim) : o.orderAcc[d]? = some (o.basis d).order :=
  list_map_getElem? o.bases _ Inhabited.default d (by rw [h.bases_size]; exact hd)

theorem knotsAcc_get (d : ℕ) (hd : d < o.pardim) : o.knotsAcc[d]? = some (o.basis d).knots :=
  list_map_getElem? o.bases _ Inhabited.default d (by rw [h.bases_size]; exact hd)

theorem startAcc_get (d : ℕ) (hd : d < o.pardim) : o.startAcc[d]? = some (o.basis d).start :=
  list_map_getElem? o.bases _ Inhabited.default d (by rw [h.bases_size]; exact hd)

theorem endAcc_get (d : ℕ) (hd : d < o.pardim) : o.endAcc[d]? = some (o.basis d).stop :=
  list_map_getElem? o.bases _ Inhabited.default d (by rw [h.bases_size]; exact hd)

theorem shapeAcc_get (d : ℕ) (hd : d < o.pardim) : o.shapeAcc[d]? = some (o.basis d).numFunctions := by
  rw [h.shapeAcc_eq]; exact counts_getElem? o d (by rw [h.bases_size]; exact hd)

omit h in
theorem orderDir_eq (d : ℕ) (hd : d < o.pardim) (h3 : d < 3) : o.orderDir d = .ok (o.basis d).order :=
  if_pos ⟨hd, h3⟩
omit h in
theorem knotsDir_eq (d : ℕ) (hd : d < o.pardim) (h3 : d < 3) : o.knotsDir d = .ok (o.basis d).knots :=
  if_pos ⟨hd, h3⟩
omit h in
theorem startDir_eq (d : ℕ) (hd : d < o.pardim) (h3 : d < 3) : o.startDir d = .ok (o.basis d).start :=
  if_pos ⟨hd, h3⟩
omit h in
theorem endDir_eq (d : ℕ) (hd : d < o.pardim) (h3 : d < 3) : o.endDir d = .ok (o.basis d).stop :=
  if_pos ⟨hd, h3⟩

/-- The shape accessor agrees with the knots / order accessors:
    `shape[d] = len(knots(d)) - order(d) - (periodic(d) + 1)`. -/
theorem shape_knots_order (d : ℕ) (hd : d < o.pardim) :
    o.shapeAcc.getD d 0
      = (o.knotsAcc.getD d #[]).size - o.orderAcc.getD d 0 - ((o.basis d).periodic + 1).toNat := by
  rw [List.getD_eq_getElem?_getD, List.getD_eq_getElem?_getD, List.getD_eq_getElem?_getD,
    h.shapeAcc_get d hd, h.knotsAcc_get d hd, h.orderAcc_get d hd]
  rfl

/-! ### flat (first-index-fastest) indexing -/

theorem shape_eq_acc : o.cps.shape = o.shapeAcc ++ [o.ncomp] := by
  rw [h.shapeAcc_eq]; exact h.shape_eq'

theorem flatPoint_nat (i : ℕ) (hi : i < o.len) : o.flatPoint (i : Int) = .ok (fToC o.shapeAcc i) := by
  unfold Obj.flatPoint
  simp only
  rw [if_pos (show (0 : Int) ≤ (i : Int) by omega), if_neg (by rw [← h.len_eq_prod]; omega),
    Int.toNat_natCast]
  rfl

theorem flatPoint_neg (i : ℕ) (hi : i < o.len) :
    o.flatPoint ((i : Int) - o.len) = .ok (fToC o.shapeAcc i) := by
  unfold Obj.flatPoint
  simp only
  rw [if_neg (show ¬ ((0 : Int) ≤ (i : Int) - o.len) by omega),
    show (o.len : Int) + ((i : Int) - o.len) = (i : Int) by ring,
    if_neg (by rw [← h.len_eq_prod]; omega), Int.toNat_natCast]
  rfl

theorem flatPoint_out (i : Int) (hi : i < -(o.len : Int) ∨ (o.len : Int) ≤ i) :
    o.flatPoint i = .error .index := by
  unfold Obj.flatPoint
  simp only
  rw [← h.len_eq_prod]
  by_cases h0 : 0 ≤ i
  · rw [if_pos h0, if_pos (by omega)]
  · rw [if_neg h0, if_pos (by omega)]

theorem point_lt (i : ℕ) (hi : i < o.len) : fToC o.shapeAcc i < o.len := by
  rw [h.len_eq_prod] at hi ⊢; exact fToC_lt hi

theorem row_bound (p : ℕ) (hp : p < o.len) : p * o.ncomp + o.ncomp ≤ o.cps.data.size := by
  rw [h.size_eq]
  calc p * o.ncomp + o.ncomp = (p + 1) * o.ncomp := by ring
    _ ≤ o.len * o.ncomp := Nat.mul_le_mul_right _ hp

theorem pointRow_size (p : ℕ) (hp : p < o.len) : (o.pointRow p).size = o.ncomp := by
  unfold Obj.pointRow
  rw [Array.size_extract]
  have := h.row_bound p hp
  omega

theorem pointRow_getD (p : ℕ) (hp : p < o.len) (c : ℕ) (hc : c < o.ncomp) :
    (o.pointRow p).getD c 0 = o.cps.get (p * o.ncomp + c) := by
  have hb := h.row_bound p hp
  unfold Obj.pointRow Tensor.get
  rw [Array.getD_eq_getD_getElem?, Array.getElem?_extract, if_pos (by omega),
    Array.getD_eq_getD_getElem?]

theorem getFlat_nat (i : ℕ) (hi : i < o.len) :
    o.getFlat (i : Int) = .ok (o.pointRow (fToC o.shapeAcc i)) := by
  unfold Obj.getFlat; rw [h.flatPoint_nat i hi]; rfl

theorem getFlat_neg (i : ℕ) (hi : i < o.len) : o.getFlat ((i : Int) - o.len) = o.getFlat i := by
  unfold Obj.getFlat; rw [h.flatPoint_nat i hi, h.flatPoint_neg i hi]

theorem getFlat_out (i : Int) (hi : i < -(o.len : Int) ∨ (o.len : Int) ≤ i) :
    o.getFlat i = .error .index := by
  unfold Obj.getFlat; rw [h.flatPoint_out i hi]; rfl

/-- Different flat indices address different control points. -/
theorem point_inj (i i' : ℕ) (hi : i < o.len) (hi' : i' < o.len)
    (he : fToC o.shapeAcc i = fToC o.shapeAcc i') : i = i' := by
  rw [h.len_eq_prod] at hi hi'
  rw [← cToF_fToC hi, ← cToF_fToC hi', he]

/-- Every control point is addressed by a flat index. -/
theorem point_surj (p : ℕ) (hp : p < o.len) : ∃ i, i < o.len ∧ fToC o.shapeAcc i = p := by
  rw [h.len_eq_prod] at hp ⊢
  exact ⟨cToF o.shapeAcc p, cToF_lt hp, fToC_cToF hp⟩

/-- `obj[i0, …]` with the multi-index of flat index `i` is the same control point. -/
theorem getMulti_unravel (i : ℕ) (hi : i < o.len) :
    o.getMulti ((unravelF o.shapeAcc i).map (fun j : ℕ => (j : Int)))
      = .ok { shape := [o.ncomp], data := o.pointRow (fToC o.shapeAcc i) } := by
  have hi' : i < o.shapeAcc.prod := by rw [← h.len_eq_prod]; exact hi
  have hok := unravelF_ok o.shapeAcc i hi'
  have hp := h.point_lt i hi
  unfold Obj.getMulti Obj.sliceSec
  rw [if_neg (by rw [List.length_map, unravelF_length, h.shape_eq_acc]; simp)]
  have hm := mapM_pyIndex_cast [o.ncomp] hok
  rw [← h.shape_eq_acc] at hm
  have hm' : (List.zip o.cps.shape ((unravelF o.shapeAcc i).map (fun j : ℕ => (j : Int)))).mapM
      (fun (x : ℕ × Int) => match x with | (n, i) => Sections.pyIndex n i) = .ok (unravelF o.shapeAcc i) := hm
  rw [hm']
  simp only
  obtain ⟨s1, s2, s3⟩ := sliceSecFrom_all (t := o.cps) (nc := o.ncomp) hok []
    (by simpa using h.shape_eq_acc) h.data_size
  have s1' : (sliceSecFrom 0 ((unravelF o.shapeAcc i).map some) o.cps).shape = [o.ncomp] := by
    simpa using s1
  have s2' : (sliceSecFrom 0 ((unravelF o.shapeAcc i).map some) o.cps).data.size = o.ncomp := by
    have : (sliceSecFrom 0 ((unravelF o.shapeAcc i).map some) o.cps).data.size
        = Tensor.prod (sliceSecFrom 0 ((unravelF o.shapeAcc i).map some) o.cps).shape := s2
    rw [this, s1']; simp [Tensor.prod]
  have s3' : ∀ c, c < o.ncomp → (sliceSecFrom 0 ((unravelF o.shapeAcc i).map some) o.cps).get c
      = o.cps.get (fToC o.shapeAcc i * o.ncomp + c) := by
    intro c hc
    have := s3 0 c (by simp) hc
    simpa [fToC] using this
  congr 1
  cases hT : sliceSecFrom 0 ((unravelF o.shapeAcc i).map some) o.cps with
  | mk sh dat =>
    rw [hT] at s1' s2' s3'
    simp only at s1' s2'
    subst s1'
    congr 1
    apply Array.ext
    · rw [s2', h.pointRow_size _ hp]
    · intro c hc1 hc2
      have hc : c < o.ncomp := by rw [← s2']; exact hc1
      have e1 := s3' c hc
      rw [← h.pointRow_getD _ hp c hc] at e1
      rw [← getD_eq_getElem dat c hc1, ← getD_eq_getElem _ c hc2]
      exact e1

/-! ### `__setitem__` -/

theorem setFlat_eq (i : ℕ) (hi : i < o.len) (cp : Array K) :
    o.setFlat (i : Int) cp = o.setRow (fToC o.shapeAcc i) cp := by
  unfold Obj.setFlat; rw [h.flatPoint_nat i hi]

theorem setMulti_unravel (i : ℕ) (hi : i < o.len) (cp : Array K) :
    o.setMulti ((unravelF o.shapeAcc i).map (fun j : ℕ => (j : Int))) cp = o.setFlat (i : Int) cp := by
  have hi' : i < o.shapeAcc.prod := by rw [← h.len_eq_prod]; exact hi
  have hok := unravelF_ok o.shapeAcc i hi'
  rw [h.setFlat_eq i hi]
  unfold Obj.setMulti
  rw [if_neg (by rw [List.length_map, unravelF_length]; exact fun hh => hh rfl)]
  have hm := mapM_pyIndex_cast [] hok
  rw [List.append_nil] at hm
  have hm' : (List.zip o.shapeAcc ((unravelF o.shapeAcc i).map (fun j : ℕ => (j : Int)))).mapM
      (fun (x : ℕ × Int) => match x with | (n, i) => Sections.pyIndex n i) = .ok (unravelF o.shapeAcc i) := hm
  rw [hm']
  rfl

/-- `obj[i] = cp` followed by `obj[j]`. -/
theorem setFlat_getFlat (i : ℕ) (hi : i < o.len) (cp : Array K) (hcp : cp.size = o.ncomp) :
    ∃ o', o.setFlat (i : Int) cp = .ok o' ∧ o'.bases = o.bases ∧ o'.cps.shape = o.cps.shape ∧
      o'.rational = o.rational ∧ o'.cps.data.size = o.cps.data.size ∧ o'.getFlat (i : Int) = .ok cp ∧
      ∀ j : ℕ, j < o.len → j ≠ i → o'.getFlat (j : Int) = o.getFlat (j : Int) := by
  refine ⟨o.setRowObj (fToC o.shapeAcc i) cp, ?_, rfl, rfl, rfl, setRowObj_size _ _ _, ?_, ?_⟩
  · rw [h.setFlat_eq i hi, setRow_eq _ _ _ (Or.inl hcp)]
  · have hfp : (o.setRowObj (fToC o.shapeAcc i) cp).flatPoint (i : Int) = o.flatPoint (i : Int) := rfl
    unfold Obj.getFlat
    rw [hfp, h.flatPoint_nat i hi]
    show Except.ok _ = _
    rw [setRowObj_row_self _ _ _ hcp (h.row_bound _ (h.point_lt i hi))]
  · intro j hj hne
    have hfp : (o.setRowObj (fToC o.shapeAcc i) cp).flatPoint (j : Int) = o.flatPoint (j : Int) := rfl
    unfold Obj.getFlat
    rw [hfp, h.flatPoint_nat j hj]
    show Except.ok _ = Except.ok _
    rw [setRowObj_row_ne _ _ _ _ (fun he => hne (h.point_inj j i hj hi he)) (h.row_bound _ (h.point_lt j hj))]

end WellFormed

/-! ## A. summary -/

/-- **The accessors of a well-formed object are mutually consistent.**
    (1) `shape` (read off the control-point array) is the tuple of `num_functions()` of the bases, `len` is
    its product, `order()/knots()/start()/end()` have one entry per direction, the entry of the basis,
    the per-direction forms agree, and `shape[d] = len(knots[d]) - order[d] - (periodic[d] + 1)`;
    (2) a flat index `i < len` is the first-index-fastest position of its multi-index
    `unravelF shape i`; `obj[i]`, `obj[i - len]` and `obj[multi-index]` all return control point number
    `p = ravelC shape (unravelF shape i)` of the C-order array, an array of `ncomp` numbers read from
    flat positions `p * ncomp + c`; assignment through the multi-index is assignment through the flat
    index, and `obj[i] = cp` is read back by `obj[i]` and leaves every other point alone;
    (3) flat indices outside `[-len, len)` raise `IndexError`;
    (4) `i ↦ p` is a bijection of `[0, len)`. -/
theorem WellFormed.accessors_consistent (h : o.WellFormed) :
    (o.shapeAcc = o.counts ∧ o.len = o.shapeAcc.prod ∧
      o.shapeAcc.length = o.pardim ∧ o.orderAcc.length = o.pardim ∧ o.knotsAcc.length = o.pardim ∧
      o.startAcc.length = o.pardim ∧ o.endAcc.length = o.pardim ∧
      ∀ d, d < o.pardim →
        o.shapeAcc[d]? = some (o.basis d).numFunctions ∧ o.orderAcc[d]? = some (o.basis d).order ∧
        o.knotsAcc[d]? = some (o.basis d).knots ∧ o.startAcc[d]? = some (o.basis d).start ∧
        o.endAcc[d]? = some (o.basis d).stop ∧
        o.shapeAcc.getD d 0
          = (o.knotsAcc.getD d #[]).size - o.orderAcc.getD d 0 - ((o.basis d).periodic + 1).toNat ∧
        (d < 3 → o.orderDir d = .ok (o.basis d).order ∧ o.knotsDir d = .ok (o.basis d).knots ∧
          o.startDir d = .ok (o.basis d).start ∧ o.endDir d = .ok (o.basis d).stop)) ∧
    (∀ i : ℕ, i < o.len →
      IdxOk o.shapeAcc (unravelF o.shapeAcc i) ∧
      ravelF o.shapeAcc (unravelF o.shapeAcc i) = i ∧
      ravelC o.shapeAcc (unravelF o.shapeAcc i) < o.len ∧
      o.getFlat (i : Int) = .ok (o.pointRow (ravelC o.shapeAcc (unravelF o.shapeAcc i))) ∧
      (o.pointRow (ravelC o.shapeAcc (unravelF o.shapeAcc i))).size = o.ncomp ∧
      (∀ c, c < o.ncomp → (o.pointRow (ravelC o.shapeAcc (unravelF o.shapeAcc i))).getD c 0
          = o.cps.get (ravelC o.shapeAcc (unravelF o.shapeAcc i) * o.ncomp + c)) ∧
      o.getFlat ((i : Int) - o.len) = o.getFlat (i : Int) ∧
      o.getMulti ((unravelF o.shapeAcc i).map (fun j : ℕ => (j : Int)))
        = .ok { shape := [o.ncomp], data := o.pointRow (ravelC o.shapeAcc (unravelF o.shapeAcc i)) } ∧
      (∀ cp : Array K, o.setMulti ((unravelF o.shapeAcc i).map (fun j : ℕ => (j : Int))) cp
        = o.setFlat (i : Int) cp) ∧
      (∀ cp : Array K, cp.size = o.ncomp →
        ∃ o', o.setFlat (i : Int) cp = .ok o' ∧ o'.bases = o.bases ∧ o'.cps.shape = o.cps.shape ∧
          o'.rational = o.rational ∧ o'.cps.data.size = o.cps.data.size ∧ o'.getFlat (i : Int) = .ok cp ∧
          ∀ j : ℕ, j < o.len → j ≠ i → o'.getFlat (j : Int) = o.getFlat (j : Int))) ∧
    (∀ i : Int, i < -(o.len : Int) ∨ (o.len : Int) ≤ i → o.getFlat i = .error .index) ∧
    (∀ i i' : ℕ, i < o.len → i' < o.len →
      ravelC o.shapeAcc (unravelF o.shapeAcc i) = ravelC o.shapeAcc (unravelF o.shapeAcc i') → i = i') ∧
    (∀ p, p < o.len → ∃ i, i < o.len ∧ ravelC o.shapeAcc (unravelF o.shapeAcc i) = p) := by
  refine ⟨⟨h.shapeAcc_eq, h.len_eq_prod, h.shapeAcc_length, h.orderAcc_length, h.knotsAcc_length,
    h.startAcc_length, h.endAcc_length, fun d hd => ⟨h.shapeAcc_get d hd, h.orderAcc_get d hd,
      h.knotsAcc_get d hd, h.startAcc_get d hd, h.endAcc_get d hd, h.shape_knots_order d hd,
      fun h3 => ⟨orderDir_eq d hd h3, knotsDir_eq d hd h3, startDir_eq d hd h3, endDir_eq d hd h3⟩⟩⟩,
    ?_, h.getFlat_out, h.point_inj, h.point_surj⟩
  intro i hi
  have hi' : i < o.shapeAcc.prod := by rw [← h.len_eq_prod]; exact hi
  exact ⟨unravelF_ok _ _ hi', ravelF_unravelF _ _ hi', h.point_lt i hi, h.getFlat_nat i hi,
    h.pointRow_size _ (h.point_lt i hi), h.pointRow_getD _ (h.point_lt i hi), h.getFlat_neg i hi,
    h.getMulti_unravel i hi, h.setMulti_unravel i hi, h.setFlat_getFlat i hi⟩

/-! ## B. clone / re-construction -/

theorem construct_own (o : Obj K) : Obj.construct o.bases o.cps o.rational = .ok o := rfl

theorem clone_eq (o : Obj K) : o.clone = o := rfl

theorem WellFormed.clone (h : o.WellFormed) : o.clone.WellFormed := h

theorem WellFormed.construct (h : o.WellFormed) :
    ∃ o', Obj.construct o.bases o.cps o.rational = .ok o' ∧ o' = o ∧ o'.WellFormed :=
  ⟨o, rfl, rfl, h⟩

theorem WellFormed.construct_clone (h : o.WellFormed) :
    ∃ o', Obj.construct o.clone.bases o.clone.cps o.clone.rational = .ok o' ∧ o' = o ∧ o'.WellFormed :=
  ⟨o, rfl, rfl, h⟩

end Obj

/-! ## C. evaluation on the whole domain -/

section Eval

variable [IsStrictOrderedRing K] [FloorRing K]

/-- No knot lies strictly outside the domain `[start, stop]` within `tol` of it: then `snap` cannot move
    a parameter of the domain out of the domain. -/
def Basis.SnapSafe (b : Basis K) (tol : K) : Prop :=
  ∀ i, i < b.knots.size →
    ¬ (b.start - tol < b.kn i ∧ b.kn i < b.start) ∧ ¬ (b.stop < b.kn i ∧ b.kn i < b.stop + tol)

/-- Every knot inside the domain (open knot vectors): safe for every tolerance. -/
theorem Basis.SnapSafe.of_knots_in_domain {b : Basis K} (tol : K)
    (hk : ∀ i, i < b.knots.size → b.start ≤ b.kn i ∧ b.kn i ≤ b.stop) : b.SnapSafe tol := by
  intro i hi
  obtain ⟨h1, h2⟩ := hk i hi
  exact ⟨fun hh => absurd hh.2 (not_lt.mpr h1), fun hh => absurd hh.1 (not_lt.mpr h2)⟩

namespace C10

/-- `snap` returns its argument or a knot strictly within `tol` of it. -/
theorem snap_cases (b : Basis K) (tol t : K) :
    snap b tol t = t ∨ ∃ j, j < b.knots.size ∧ snap b tol t = b.kn j ∧ |b.kn j - t| < tol := by
  unfold snap
  simp only []
  have hle := bisectLeft_le b.kn t b.knots.size
  split_ifs with h1 h2
  · exact Or.inr ⟨_, h1.1, rfl, h1.2⟩
  · exact Or.inr ⟨_, by omega, rfl, h2.2⟩
  · exact Or.inl rfl

theorem snap_in_domain {b : Basis K} {tol t : K} (hs : b.SnapSafe tol) (h1 : b.start ≤ t)
    (h2 : t ≤ b.stop) : b.start ≤ snap b tol t ∧ snap b tol t ≤ b.stop := by
  rcases snap_cases b tol t with he | ⟨j, hj, he, hab⟩
  · rw [he]; exact ⟨h1, h2⟩
  · rw [he]
    rw [abs_lt] at hab
    obtain ⟨s1, s2⟩ := hs j hj
    constructor
    · by_contra hc
      exact s1 ⟨by linarith [hab.1], not_le.mp hc⟩
    · by_contra hc
      exact s2 ⟨not_le.mp hc, by linarith [hab.2]⟩

/-- A knot is never moved by `snap`, whatever the tolerance. -/
theorem snap_knot_any {b : Basis K} (hv : b.Valid) (tol : K) {k : ℕ} (hk : k < b.knots.size) :
    snap b tol (b.kn k) = b.kn k := by
  by_cases htol : 0 < tol
  · exact snap_knot hv htol hk
  · rcases snap_cases b tol (b.kn k) with he | ⟨j, _, _, hab⟩
    · exact he
    · exact absurd (lt_of_le_of_lt (abs_nonneg _) hab) htol

/-- Shape and size of the contraction of the axes `pre.length, pre.length + 1, …`. -/
theorem foldr_applyAxis_shape {t : Tensor K} {nc : ℕ} : ∀ (Ns : List (Mat K)) (cnts pre : List ℕ),
    cnts.length = Ns.length → t.shape = pre ++ cnts ++ [nc] → t.data.size = Tensor.prod t.shape →
    ((List.zip (List.range' pre.length Ns.length) Ns).foldr
        (fun (x : ℕ × Mat K) t => Tensor.applyAxis x.2 t x.1) t).shape
      = pre ++ Ns.map Array.size ++ [nc] ∧
    ((List.zip (List.range' pre.length Ns.length) Ns).foldr
        (fun (x : ℕ × Mat K) t => Tensor.applyAxis x.2 t x.1) t).data.size
      = Tensor.prod ((List.zip (List.range' pre.length Ns.length) Ns).foldr
        (fun (x : ℕ × Mat K) t => Tensor.applyAxis x.2 t x.1) t).shape := by
  intro Ns
  induction Ns with
  | nil =>
    intro cnts pre hl hsh hsz
    have : cnts = [] := List.length_eq_zero_iff.mp hl
    subst this
    simp only [List.length_nil, List.range'_zero, List.zip_nil_left, List.foldr_nil, List.map_nil]
    exact ⟨hsh, hsz⟩
  | cons N Ns ih =>
    intro cnts pre hl hsh hsz
    cases cnts with
    | nil => simp at hl
    | cons n cnts =>
      have ih' := ih cnts (pre ++ [n]) (by simpa using hl) (by simpa using hsh) hsz
      rw [List.length_append, List.length_singleton] at ih'
      rw [List.length_cons, List.range'_succ, List.zip_cons_cons, List.foldr_cons]
      set T' := (List.zip (List.range' (pre.length + 1) Ns.length) Ns).foldr
        (fun (x : ℕ × Mat K) t => Tensor.applyAxis x.2 t x.1) t with hT'
      obtain ⟨i1, _⟩ := ih'
      have hlt : pre.length < T'.shape.length := by rw [i1]; simp
      refine ⟨?_, applyAxis_wf N T' pre.length hlt⟩
      show (Tensor.applyAxis N T' pre.length).shape = _
      rw [applyAxis_shape, i1]
      simp

theorem contractGrid_shape {t : Tensor K} {nc : ℕ} (Ns : List (Mat K)) (cnts : List ℕ)
    (hl : cnts.length = Ns.length) (hsh : t.shape = cnts ++ [nc]) (hsz : t.data.size = Tensor.prod t.shape) :
    (Obj.contractGrid Ns t).shape = Ns.map Array.size ++ [nc] ∧
    (Obj.contractGrid Ns t).data.size = Tensor.prod (Obj.contractGrid Ns t).shape := by
  have := foldr_applyAxis_shape (t := t) (nc := nc) Ns cnts [] hl (by simpa using hsh) hsz
  simp only [List.length_nil, List.nil_append] at this
  unfold Obj.contractGrid
  rw [List.range_eq_range']
  exact this

theorem basisMats_sizes (tol : K) : ∀ (bs : List (Basis K)) (params : List (List K)),
    bs.length = params.length →
    ((List.zip bs ((List.zip bs params).map (fun bp => bp.2.map (snap bp.1 tol)))).map
        (fun bp => Obj.basisMat bp.1 tol bp.2 0 true)).map Array.size = params.map List.length
  | [], [], _ => rfl
  | [], _ :: _, h => by simp at h
  | _ :: _, [], h => by simp at h
  | b :: bs, p :: params, h => by
    have ih := basisMats_sizes tol bs params (by simpa using h)
    simp only [List.zip_cons_cons, List.map_cons, ih]
    simp [Obj.basisMat]

end C10

namespace Obj

open C10

variable {o : Obj K}

/-- The domain test of `evaluate` passes when every SNAPPED parameter of a non-periodic direction lies
    in `[start, stop]` and no non-periodic direction has an empty parameter list (`min()` of an empty
    sequence raises `ValueError` in the real code). -/
theorem not_outOfDomain_of_snapped (h : o.WellFormed) (tol : K) (params : List (List K))
    (hin : ∀ d, d < o.bases.size → (o.basis d).periodic = -1 → ∀ t ∈ params.getD d [],
      (o.basis d).start ≤ snap (o.basis d) tol t ∧ snap (o.basis d) tol t ≤ (o.basis d).stop)
    (hne : ∀ d, d < o.bases.size → (o.basis d).periodic = -1 → params.getD d [] ≠ []) :
    ¬ o.OutOfDomain tol params := by
  rintro ⟨bp, hbp, hper, hcase⟩
  obtain ⟨d, hd, hbd⟩ := List.getElem_of_mem hbp
  rw [List.length_zip] at hd
  have hd1 : d < o.bases.size := by
    have : d < o.bases.toList.length := by omega
    simpa using this
  have hd2 : d < params.length := by omega
  rw [List.getElem_zip] at hbd
  have e1 : o.basis d = bp.1 := by
    rw [basis_eq_getElem o d hd1, ← hbd]; simp
  have e2 : params.getD d [] = bp.2 := by
    rw [← hbd]; simp [List.getD_eq_getElem?_getD, hd2]
  have hper' : (o.basis d).periodic = -1 := by
    have := (h.valid d hd1).periodic_ge
    rw [e1] at this ⊢; omega
  rcases hcase with hnil | ⟨t, ht, hout⟩
  · exact hne d hd1 hper' (by rw [e2]; exact hnil)
  have := hin d hd1 hper' t (by rw [e2]; exact ht)
  rw [e1] at this
  rcases hout with hh | hh
  · exact absurd this.1 (not_le.mpr hh)
  · exact absurd this.2 (not_le.mpr hh)

/-- Shape and size of the value `evaluate(…, tensor=True)` computes (every parametric dimension). -/
theorem WellFormed.evalCore_shape (h : o.WellFormed) (tol : K) (params : List (List K))
    (hlen : params.length = o.bases.size) :
    (o.evalCore tol (o.snapParams tol params) true).shape = params.map List.length ++ [o.dimension] ∧
    (o.evalCore tol (o.snapParams tol params) true).data.size
      = Tensor.prod (o.evalCore tol (o.snapParams tol params) true).shape := by
  have hbl : o.bases.toList.length = params.length := by simp [hlen]
  have hsizes := basisMats_sizes tol o.bases.toList params hbl
  set Ns := (List.zip o.bases.toList (o.snapParams tol params)).map
    (fun bp => Obj.basisMat bp.1 tol bp.2 0 true) with hNs
  have hsz' : Ns.map Array.size = params.map List.length := hsizes
  have hNl : Ns.length = o.bases.size := by
    calc Ns.length = (Ns.map Array.size).length := (List.length_map _).symm
      _ = (params.map List.length).length := congrArg List.length hsz'
      _ = params.length := List.length_map _
      _ = o.bases.size := hlen
  obtain ⟨c1, c2⟩ := contractGrid_shape (t := o.cps) (nc := o.ncomp) Ns o.counts
    (by rw [counts_length, hNl]) h.shape_eq' h.data_size
  rw [hsz'] at c1
  have hcore : o.evalCore tol (o.snapParams tol params) true
      = if o.rational then Obj.project (Obj.contractGrid Ns o.cps) o.dimension
        else Obj.contractGrid Ns o.cps := by
    unfold Obj.evalCore
    simp only [if_true]
    rfl
  rw [hcore]
  cases hr : o.rational with
  | false =>
    simp only [Bool.false_eq_true, if_false]
    rw [← h.ncomp_nonrat hr]
    exact ⟨c1, c2⟩
  | true =>
    simp only [if_true]
    unfold Obj.project
    have hnc := h.ncomp_pos
    refine ⟨by rw [mapLast_shape, c1]; simp, ?_⟩
    rw [mapLast_data_size, mapLast_shape, c1]
    unfold Tensor.size
    rw [c1]
    simp only [List.dropLast_concat, List.getLastD_concat, C06.prod_append]
    simp [Tensor.prod, Nat.mul_div_cancel _ hnc]

/-- **Evaluation from the snapped parameters**: if every snapped parameter of a non-periodic direction
    lies in the domain, `evaluate` returns a grid of the right shape and size. -/
theorem WellFormed.evaluable_of_snapped (h : o.WellFormed) (tol : K) (params : List (List K))
    (hlen : params.length = o.bases.size)
    (hin : ∀ d, d < o.bases.size → (o.basis d).periodic = -1 → ∀ t ∈ params.getD d [],
      (o.basis d).start ≤ snap (o.basis d) tol t ∧ snap (o.basis d) tol t ≤ (o.basis d).stop)
    (hne : ∀ d, d < o.bases.size → (o.basis d).periodic = -1 → params.getD d [] ≠ []) :
    ∃ res, o.evaluate tol params true = .ok res ∧
      res.shape = params.map List.length ++ [o.dimension] ∧ res.data.size = Tensor.prod res.shape := by
  refine ⟨_, o.evaluate_ok tol params true (by simp) (not_outOfDomain_of_snapped h tol params hin hne), ?_⟩
  exact h.evalCore_shape tol params hlen

/-- **A well-formed object can be evaluated on its whole domain** (every parametric dimension):
    parameters of non-periodic directions in `[start, end]` (and at least one of them: the real code
    raises `ValueError` for an empty list there), periodic directions accept every number. -/
theorem WellFormed.evaluable (h : o.WellFormed) (tol : K) (params : List (List K))
    (hlen : params.length = o.bases.size)
    (hdom : ∀ d, d < o.bases.size → (o.basis d).periodic = -1 → ∀ t ∈ params.getD d [],
      (o.basis d).start ≤ t ∧ t ≤ (o.basis d).stop)
    (hsnap : ∀ d, d < o.bases.size → (o.basis d).periodic = -1 → (o.basis d).SnapSafe tol)
    (hne : ∀ d, d < o.bases.size → (o.basis d).periodic = -1 → params.getD d [] ≠ []) :
    ∃ res, o.evaluate tol params true = .ok res ∧
      res.shape = params.map List.length ++ [o.dimension] ∧ res.data.size = Tensor.prod res.shape := by
  apply h.evaluable_of_snapped tol params hlen ?_ hne
  intro d hd hper t ht
  exact snap_in_domain (hsnap d hd hper) (hdom d hd hper t ht).1 (hdom d hd hper t ht).2

/-- Without any hypothesis on the tolerance: parameters that are knots of their direction (this
    includes `start` and `end`) inside `[start, end]`. -/
theorem WellFormed.evaluable_at_knots (h : o.WellFormed) (tol : K) (params : List (List K))
    (hlen : params.length = o.bases.size)
    (hdom : ∀ d, d < o.bases.size → (o.basis d).periodic = -1 → ∀ t ∈ params.getD d [],
      (∃ k, k < (o.basis d).knots.size ∧ t = (o.basis d).kn k) ∧
      (o.basis d).start ≤ t ∧ t ≤ (o.basis d).stop)
    (hne : ∀ d, d < o.bases.size → (o.basis d).periodic = -1 → params.getD d [] ≠ []) :
    ∃ res, o.evaluate tol params true = .ok res ∧
      res.shape = params.map List.length ++ [o.dimension] ∧ res.data.size = Tensor.prod res.shape := by
  apply h.evaluable_of_snapped tol params hlen ?_ hne
  intro d hd hper t ht
  obtain ⟨⟨k, hk, rfl⟩, h1, h2⟩ := hdom d hd hper t ht
  rw [snap_knot_any (h.valid d hd) tol hk]
  exact ⟨h1, h2⟩

end Obj

end Eval

end Splipy
