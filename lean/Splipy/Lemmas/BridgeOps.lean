import Splipy.Lemmas.BridgeTransfer
import Splipy.Lemmas.Smooth
import Splipy.Properties.C04
import Splipy.Properties.C06

/-!
# Bridge (p11), part 3: the operations give `SameAlong`

* `insertKnots_along` — knot insertion along a non-periodic direction (from `C04_object`);
* `reverse_along` — `Obj.reverse` along a non-periodic direction (from `C06_reverse_open`), at
  parameters where the spline is continuous or at the ends of the domain (`RevOK`);
* `reparam_along` — `Obj.reparamDir` along a non-periodic direction (from `C06_reparam_curve`).
Each lemma also records what the operation does to bases, shape and the `rational` flag.
-/

namespace Splipy
namespace Bridge

set_option linter.unusedSectionVars false

open Finset C04 C06

variable {K : Type} [Field K] [LinearOrder K] [IsStrictOrderedRing K] [FloorRing K]

/-- For a non-periodic basis the weighted sum with the specification row is `splineVal`. -/
theorem specRow_sum {b : Basis K} (hper : b.periodic = -1) (u : K) (n : ℕ) (f : ℕ → K) :
    ∑ j ∈ range n, b.specRow u j * f j
      = splineVal (effSide b u true) b.kn (b.order - 1) n f u := by
  unfold splineVal
  apply sum_congr rfl
  intro j _
  rw [Basis.specRow_nonperiodic hper, mul_comm]

omit [IsStrictOrderedRing K] [FloorRing K] in
theorem effSide_congr {b b' : Basis K} (h : b'.stop = b.stop) (u : K) (fr : Bool) :
    effSide b' u fr = effSide b u fr := by
  unfold effSide; rw [h]

omit [IsStrictOrderedRing K] [FloorRing K] in
/-- Exactness survives the insertion of values that are exact for `u` themselves. -/
theorem exactAt_of_perm {b b' : Basis K} {xs : List K}
    (hperm : b'.knots.toList.Perm (xs ++ b.knots.toList)) {tol u : K} (h : b.ExactAt tol u)
    (hx : ∀ x ∈ xs, x = u ∨ tol ≤ |x - u|) : b'.ExactAt tol u := by
  intro i hi
  rw [C06.kn_of_lt b' hi]
  have hmem : b'.knots[i] ∈ b'.knots.toList := by simp
  have := (hperm.mem_iff).mp hmem
  rcases List.mem_append.mp this with h1 | h1
  · exact hx _ h1
  · obtain ⟨j, hj, hjeq⟩ := List.getElem_of_mem h1
    have hj' : j < b.knots.size := by simpa using hj
    have := h j hj'
    rw [C06.kn_of_lt b hj'] at this
    have e : b.knots[j] = b'.knots[i] := by rw [← hjeq]; simp
    rw [e] at this
    exact this

/-- … hence admissibility (non-periodic bases with the same domain). -/
theorem admissible_of_perm {b b' : Basis K} {xs : List K} (hper' : b'.periodic = -1)
    (hstart : b'.start = b.start) (hstop : b'.stop = b.stop)
    (hperm : b'.knots.toList.Perm (xs ++ b.knots.toList)) {tol u : K} (hper : b.periodic = -1)
    (h : b.Admissible tol u) (hx : ∀ x ∈ xs, x = u ∨ tol ≤ |x - u|) : b'.Admissible tol u :=
  ⟨exactAt_of_perm hperm h.1 hx, fun _ => by rw [hstart, hstop]; exact h.2.1 hper,
    fun h0 => by rw [hper'] at h0; exact absurd h0 (by decide)⟩

/-! ## Knot insertion -/

/-- `Obj.insertKnots` along a valid non-periodic direction: bases, shape, flag, and `SameAlong`
at every parameter. -/
theorem insertKnots_along (o : Obj K) (dir : ℕ) (hdir : dir < o.bases.size)
    (hax : dir < o.cps.shape.length) (hv : (o.basis dir).Valid)
    (hper : (o.basis dir).periodic = -1)
    (hshape : o.cps.shape.getD dir 0 = (o.basis dir).numFunctions) (xs : List K)
    (hxs : ∀ x ∈ xs, (o.basis dir).start ≤ x ∧ x < (o.basis dir).stop) :
    ∃ o' b', o.insertKnots xs dir = .ok o' ∧ o'.bases = o.bases.set! dir b' ∧ b'.Valid ∧
      b'.periodic = -1 ∧ b'.numFunctions = (o.basis dir).numFunctions + xs.length ∧
      b'.start = (o.basis dir).start ∧ b'.stop = (o.basis dir).stop ∧
      b'.knots.toList.Perm (xs ++ (o.basis dir).knots.toList) ∧
      o'.rational = o.rational ∧
      o'.cps.shape = o.cps.shape.set dir ((o.basis dir).numFunctions + xs.length) ∧
      ∀ u, SameAlong o o' dir (o.basis dir).numFunctions b'.numFunctions
        ((o.basis dir).specRow u) (b'.specRow u) := by
  obtain ⟨o', C, h1, h2, h3, _, h5, h6, _, _, _, h10⟩ :=
    C04_object o dir hdir hax hv hper hshape xs hxs
  have hb' : o'.bases = o.bases.set! dir (o'.basis dir) := by
    rw [insertKnots_eq] at h1
    cases hm : insertMany (o.basis dir) (Mat.identity (o.cps.shape.getD dir 0)) xs with
    | error e => rw [hm] at h1; cases h1
    | ok bc =>
      rw [hm] at h1
      injection h1 with h1
      subst h1
      rw [C04.basis_set o dir hdir]
  have hper' : (o'.basis dir).periodic = -1 := h2.periodic_eq.trans hper
  refine ⟨o', o'.basis dir, h1, hb', h2.valid, hper', h2.num_eq, h2.start_eq, h2.stop_eq, h3, h5,
    h6, ?_⟩
  intro u a i ha hi
  rw [specRow_sum hper', specRow_sum hper, effSide_congr h2.stop_eq, h2.order_eq, h2.num_eq]
  exact (h10 a i ha hi _ u).1

/-! ## reverse -/

/-- The parameters at which `reverse` is pointwise exact: the ends of the domain, or points where
fewer than `order` consecutive knots coincide (the spline is continuous there). -/
def RevOK (b : Basis K) (u : K) : Prop :=
  u = b.start ∨ u = b.stop ∨ ∀ j, b.kn j = u → b.kn (j + (b.order - 1)) ≠ u

omit [IsStrictOrderedRing K] [FloorRing K] in
theorem split3_of_getD (shape : List ℕ) (dir : ℕ) :
    (Tensor.split3 shape dir).2.1 = shape.getD dir 1 := rfl

omit [FloorRing K] in
/-- Fibres of a flipped control net. -/
theorem fibre_flip (t : Tensor K) (dir : ℕ) (hax : dir < t.shape.length) (a r i : ℕ)
    (ha : a < (Tensor.split3 t.shape dir).1) (hr : r < t.shape.getD dir 1)
    (hi : i < (Tensor.split3 t.shape dir).2.2) :
    (t.flipAxis dir).at3 dir a r i = t.at3 dir a (t.shape.getD dir 1 - 1 - r) i := by
  unfold Tensor.flipAxis Tensor.reindexAxis
  simp only []
  rw [C04.at3_build3 t.shape dir _ _ hax a r i ha hr hi]

omit [IsStrictOrderedRing K] [FloorRing K] in
theorem flipAxis_shape (t : Tensor K) (dir : ℕ) : (t.flipAxis dir).shape = t.shape := by
  unfold Tensor.flipAxis Tensor.reindexAxis Tensor.build3
  simp only []
  exact C06.set_getD_self t.shape dir 1

/-- `Obj.reverse` along a valid non-periodic direction. -/
theorem reverse_along (o : Obj K) (dir : ℕ) (hax : dir < o.cps.shape.length)
    (hv : (o.basis dir).Valid) (hper : (o.basis dir).periodic = -1)
    (hshape : o.cps.shape.getD dir 1 = (o.basis dir).numFunctions) :
    (o.reverse dir).bases = o.bases.set! dir (o.basis dir).reverse ∧
      (o.reverse dir).rational = o.rational ∧ (o.reverse dir).cps.shape = o.cps.shape ∧
      ∀ u, RevOK (o.basis dir) u →
        SameAlong o (o.reverse dir) dir (o.basis dir).numFunctions
          (o.basis dir).reverse.numFunctions ((o.basis dir).specRow u)
          ((o.basis dir).reverse.specRow ((o.basis dir).start + (o.basis dir).stop - u)) := by
  have hnp : ¬ (o.basis dir).periodic > -1 := by rw [hper]; decide
  have hcps : (o.reverse dir).cps = o.cps.flipAxis dir := by
    unfold Obj.reverse
    simp only [if_neg hnp]
  refine ⟨rfl, rfl, by rw [hcps, flipAxis_shape], ?_⟩
  intro u hu a i ha hi
  set b := o.basis dir with hbdef
  have hperr : b.reverse.periodic = -1 := hper
  rw [C06.reverse_numFunctions, specRow_sum hperr, specRow_sum hper]
  have hf : ∀ j, j < b.numFunctions →
      fibre (o.reverse dir) dir a i j = (fun j => fibre o dir a i (b.numFunctions - 1 - j)) j := by
    intro j hj
    unfold fibre
    rw [hcps, fibre_flip o.cps dir hax a j i ha (by rw [hshape]; exact hj) hi, hshape]
  rw [C04.splineVal_congr _ _ _ _ _ _ _ hf]
  have hord : b.reverse.order = b.order := rfl
  rw [hord]
  have key := C06_reverse_open hv hper (effSide b.reverse (b.start + b.stop - u) true).flip
    (fibre o dir a i) u
  rw [C06.TP.flip_flip] at key
  rw [key]
  -- the side
  have hne := ne_of_lt hv.start_lt_stop
  have hstop' : b.reverse.stop = b.stop := C06.reverse_stop hv
  unfold effSide
  rw [hstop']
  simp only [if_true]
  by_cases h1 : u = b.stop
  · rw [if_pos h1, if_neg (by rw [h1]; intro h; apply hne; linarith)]
    rfl
  · rw [if_neg h1]
    by_cases h2 : u = b.start
    · rw [if_pos (by rw [h2]; ring)]
      rfl
    · rw [if_neg (by intro h; apply h2; linarith)]
      rcases hu with h | h | h
      · exact absurd h h2
      · exact absurd h h1
      · show splineVal Side.left b.kn (b.order - 1) b.numFunctions (fibre o dir a i) u
          = splineVal Side.right b.kn (b.order - 1) b.numFunctions (fibre o dir a i) u
        unfold splineVal
        apply sum_congr rfl
        intro j _
        rw [B_left_eq_right b.kn hv.kn_mono u (b.order - 1) (b.order - 1) j (le_refl _) h]

omit [FloorRing K] in
theorem exactAt_reverse {b : Basis K} (hv : b.Valid) {tol u : K} (h : b.ExactAt tol u) :
    b.reverse.ExactAt tol (b.start + b.stop - u) := by
  intro i hi
  rw [C06.reverse_size] at hi
  rw [C06.reverse_kn b (C06.valid_size_pos hv) (C06.valid_ne hv) i]
  rcases h (b.knots.size - 1 - i) (by omega) with h1 | h1
  · left; rw [h1]
  · right
    have : b.start + b.stop - b.kn (b.knots.size - 1 - i) - (b.start + b.stop - u)
        = -(b.kn (b.knots.size - 1 - i) - u) := by ring
    rw [this, abs_neg]
    exact h1

/-- Admissible parameters are mapped to admissible parameters of the reversed basis. -/
theorem admissible_reverse {b : Basis K} (hv : b.Valid) (hper : b.periodic = -1) {tol u : K}
    (h : b.Admissible tol u) : b.reverse.Admissible tol (b.start + b.stop - u) := by
  refine ⟨exactAt_reverse hv h.1, fun _ => ?_, fun h0 => ?_⟩
  · rw [C06.reverse_start hv, C06.reverse_stop hv]
    obtain ⟨h1, h2⟩ := h.2.1 hper
    constructor <;> linarith
  · have : b.reverse.periodic = -1 := hper
    rw [this] at h0
    exact absurd h0 (by decide)

/-! ## reparam -/

/-- The affine parameter map of `reparam(s, e)`. -/
def reparamMap (b : Basis K) (s e u : K) : K := s + (u - b.start) * (e - s) / (b.stop - b.start)

/-- `Obj.reparamDir` along a valid non-periodic direction. -/
theorem reparam_along (o : Obj K) (dir : ℕ) (hv : (o.basis dir).Valid)
    (hper : (o.basis dir).periodic = -1) {s e : K} {o' : Obj K}
    (h : o.reparamDir dir s e = .ok o') :
    s < e ∧ o'.bases = o.bases.set! dir (reparamOk (o.basis dir) s e) ∧
      (reparamOk (o.basis dir) s e).Valid ∧ (reparamOk (o.basis dir) s e).periodic = -1 ∧
      (reparamOk (o.basis dir) s e).numFunctions = (o.basis dir).numFunctions ∧
      (reparamOk (o.basis dir) s e).start = s ∧ (reparamOk (o.basis dir) s e).stop = e ∧
      o'.rational = o.rational ∧ o'.cps = o.cps ∧
      ∀ u, SameAlong o o' dir (o.basis dir).numFunctions
          (reparamOk (o.basis dir) s e).numFunctions ((o.basis dir).specRow u)
          ((reparamOk (o.basis dir) s e).specRow (reparamMap (o.basis dir) s e u)) := by
  have hse : s < e := by
    by_contra hc
    rw [C06.reparamDir_error o dir (not_lt.mp hc)] at h
    cases h
  rw [C06.reparamDir_ok o dir hse] at h
  injection h with h
  subst h
  set b := o.basis dir with hbdef
  have hperr : (reparamOk b s e).periodic = -1 := hper
  refine ⟨hse, rfl, C06.reparamOk_valid hv hse, hperr, C06.reparamOk_numFunctions b s e,
    C06.reparamOk_start hv s e, C06.reparamOk_stop hv s e, rfl, rfl, ?_⟩
  intro u a i _ _
  rw [C06.reparamOk_numFunctions, specRow_sum hperr, specRow_sum hper]
  have hf : fibre (reparamObj o dir s e) dir a i = fibre o dir a i := rfl
  rw [hf]
  have hn : b.nAll = b.numFunctions := by rw [C06.valid_nAll_eq hv, hper]; rfl
  have key := C06_reparam_curve hv hse (effSide b u true) (fibre o dir a i) 0 u
  rw [hn, C06.wsum_open, C06.wsum_open, C06.splineDeriv_zero, C06.splineDeriv_zero, pow_zero,
    div_one] at key
  have hord : (reparamOk b s e).order = b.order := rfl
  rw [hord]
  -- the side
  have hlt := hv.start_lt_stop
  have hd : b.stop - b.start ≠ 0 := by linarith [hlt]
  have hside : effSide (reparamOk b s e) (reparamMap b s e u) true = effSide b u true := by
    unfold effSide reparamMap
    rw [C06.reparamOk_stop hv s e]
    by_cases h1 : u = b.stop
    · rw [if_pos h1, if_pos (by rw [h1]; field_simp; ring)]
    · rw [if_neg h1, if_neg]
      intro h2
      apply h1
      have hes : e - s ≠ 0 := by linarith [hse]
      have h3 : (u - b.start) * (e - s) / (b.stop - b.start) = e - s := by linarith
      rw [div_eq_iff hd] at h3
      have h4 : (u - b.start) = (b.stop - b.start) := by
        apply mul_right_cancel₀ hes
        linarith
      linarith
  rw [hside]
  exact key

/-- A sufficient condition for the admissibility of the mapped parameter: exactness of `u` with
the tolerance divided by the scale factor `ρ = (e - s)/(end - start)`. -/
theorem admissible_reparam {b : Basis K} (hv : b.Valid) (hper : b.periodic = -1) {s e : K}
    (hse : s < e) {tol u : K}
    (hex : ∀ i, i < b.knots.size →
      b.kn i = u ∨ tol ≤ (e - s) / (b.stop - b.start) * |b.kn i - u|)
    (hdom : b.start ≤ u ∧ u ≤ b.stop) :
    (reparamOk b s e).Admissible tol (s + (u - b.start) * (e - s) / (b.stop - b.start)) := by
  have hρ := C06.reparam_scale_pos hv hse
  have hlt := hv.start_lt_stop
  have hd : 0 < b.stop - b.start := by linarith
  have hφ : s + (u - b.start) * (e - s) / (b.stop - b.start)
      = (e - s) / (b.stop - b.start) * u + (s - (e - s) / (b.stop - b.start) * b.start) := by ring
  refine ⟨?_, fun _ => ?_, fun h0 => ?_⟩
  · intro i hi
    rw [C06.reparamOk_size] at hi
    rw [C06.reparamOk_kn_affine b (C06.valid_size_pos hv) s e i, hφ]
    rcases hex i hi with h1 | h1
    · left; rw [h1]
    · right
      have : (e - s) / (b.stop - b.start) * b.kn i + (s - (e - s) / (b.stop - b.start) * b.start)
          - ((e - s) / (b.stop - b.start) * u + (s - (e - s) / (b.stop - b.start) * b.start))
          = (e - s) / (b.stop - b.start) * (b.kn i - u) := by ring
      rw [this, abs_mul, abs_of_pos hρ]
      exact h1
  · rw [C06.reparamOk_start hv, C06.reparamOk_stop hv, hφ]
    constructor
    · have : s = (e - s) / (b.stop - b.start) * b.start
          + (s - (e - s) / (b.stop - b.start) * b.start) := by ring
      calc s = (e - s) / (b.stop - b.start) * b.start
            + (s - (e - s) / (b.stop - b.start) * b.start) := this
        _ ≤ _ := by
          have := mul_le_mul_of_nonneg_left hdom.1 hρ.le
          linarith
    · have he : e = (e - s) / (b.stop - b.start) * b.stop
          + (s - (e - s) / (b.stop - b.start) * b.start) := by
        field_simp
        ring
      have := mul_le_mul_of_nonneg_left hdom.2 hρ.le
      calc _ ≤ (e - s) / (b.stop - b.start) * b.stop
            + (s - (e - s) / (b.stop - b.start) * b.start) := by linarith
        _ = e := he.symm
  · have : (reparamOk b s e).periodic = -1 := hper
    rw [this] at h0
    exact absurd h0 (by decide)

end Bridge
end Splipy
