import Mathlib.Tactic.IntervalCases
import Splipy.Lemmas.C18Star

/-!
# C18 — a small instance of the hypotheses of `C18_numbering_partial`: two segments sharing an end point
-/

namespace Splipy.MP.C18X

open Splipy Splipy.MP Splipy.MP.C18L

def own (s : Sec) (k : ℕ) : FaceLink := { sec := s, owned := true, src := some ⟨k, [s]⟩, ori := .ok (Orientation.identity 0) }

/-- two segments `A—B`, `B—C`: the second reads its first end from the last end of the first -/
def plans : List PatchPlan :=
  [ { shape := [2], faces := [own [some false] 0, own [some true] 0] },
    { shape := [2], faces := [{ sec := [some false], owned := false, src := some ⟨0, [[some true]]⟩,
                                ori := .ok (Orientation.identity 0) }, own [some true] 1] } ]

/-- the points `A = 1, B = 2, C = 3` (any type of points will do; `0` is the junk value) -/
def pts : List (NdArr ℕ) := [⟨[2], #[1, 2]⟩, ⟨[2], #[2, 3]⟩]

def nums : Array (NdArr ℤ) := #[⟨[2], #[0, 1]⟩, ⟨[2], #[1, 2]⟩]

theorem facts : Compat (generateAll plans 0).1 pts ∧ readAllG plans pts.toArray = .ok pts.toArray ∧
    (∀ p ∈ allData pts, p ≠ default) ∧ WellOrdered plans ∧ numberPlans plans = .ok (nums, 3) := by
  refine ⟨?_, ?_, ?_, wellOrdered_of_B _ (by decide), ?_⟩
  · unfold Compat; decide +kernel
  · decide +kernel
  · decide +kernel
  · decide +kernel

theorem validPos {k q : ℕ} (h : ValidPos plans k q) : k < 2 ∧ q < 2 := by
  obtain ⟨p, hp, hq⟩ := h
  have hk := (List.getElem?_eq_some_iff.1 hp).1
  have hk2 : k < 2 := by simpa [plans] using hk
  refine ⟨hk2, ?_⟩
  interval_cases k <;> simp [plans] at hp <;> subst hp <;> simpa [shapeSize] using hq

theorem star : ∀ k k' q q', ValidPos plans k q → ValidPos plans k' q' → k' < k → ptAt pts k q = ptAt pts k' q' →
    ∃ p, plans[k]? = some p ∧ Flagged p q := by
  intro k k' q q' hv hv' hlt hpt
  obtain ⟨hk, hq⟩ := validPos hv
  obtain ⟨hk', hq'⟩ := validPos hv'
  have hk1 : k = 1 := by omega
  have hk0 : k' = 0 := by omega
  subst hk1; subst hk0
  interval_cases q <;> interval_cases q' <;> simp [ptAt, pts] at hpt
  exact ⟨_, rfl, _, List.mem_cons_self, rfl, by decide⟩

theorem inj : ∀ k q q', ValidPos plans k q → ValidPos plans k q' → ptAt pts k q = ptAt pts k q' → q = q' := by
  intro k q q' hv hv' hpt
  obtain ⟨hk, hq⟩ := validPos hv
  obtain ⟨-, hq'⟩ := validPos hv'
  interval_cases k <;> interval_cases q <;> interval_cases q' <;> simp [ptAt, pts] at hpt ⊢

end Splipy.MP.C18X
