import Splipy.Lemmas.C12Fibre
import Splipy.Lemmas.C05Surface

/-!
# C05 — re-netting one direction keeps the evaluated map (any number of directions)

`renet o d b' E`: replace the basis of the non-periodic direction `d` by `b'` and every control-net
fibre `f` along `d` by `k ↦ Σ_j E j k · f j`.  If `E` represents the old B-splines on the new basis at
the Cox–de Boor level (`SpecVia`), the result is well formed and has the same evaluated map
(`C12.sameMap_of_fibres`).
-/

namespace Splipy

set_option linter.unusedSectionVars false

variable {K : Type} [Field K] [LinearOrder K] [IsStrictOrderedRing K] [FloorRing K]

open Finset C06

/-- Cox–de Boor level: every spline on `b` is the spline on `b'` with coefficients `f · E`
    (every parameter, both sides). -/
def SpecVia (b b' : Basis K) (E : ℕ → ℕ → K) : Prop :=
  ∀ (s : Side) (f : ℕ → K) (t : K),
    splineVal s b'.kn (b'.order - 1) b'.numFunctions (fun k => ∑ j ∈ range b.numFunctions, E j k * f j) t
      = splineVal s b.kn (b.order - 1) b.numFunctions f t

theorem specVia_id (b : Basis K) : SpecVia b b (fun j k => if j = k then 1 else 0) := by
  intro s f t
  unfold splineVal
  apply sum_congr rfl
  intro k hk
  congr 1
  simp [Finset.sum_ite_eq', mem_range.mp hk]

/-- The matrix `E` transposed as a `Mat` with `n'` rows and `n` columns. -/
def matOfE (E : ℕ → ℕ → K) (n n' : ℕ) : Mat K :=
  Array.ofFn (n := n') (fun k => Array.ofFn (n := n) (fun j => E j.val k.val))

theorem matOfE_size (E : ℕ → ℕ → K) (n n' : ℕ) : (matOfE E n n').size = n' := by simp [matOfE]

theorem matOfE_entry (E : ℕ → ℕ → K) (n n' k j : ℕ) (hk : k < n') (hj : j < n) :
    C04.entry (matOfE E n n') k j = E j k := by
  simp [C04.entry, matOfE, Array.getD, hk, hj]

theorem matOfE_get (E : ℕ → ℕ → K) (n n' k j : ℕ) (hk : k < n') (hj : j < n) :
    (matOfE E n n').get k j = E j k := by
  simp [Mat.get, matOfE, Array.getD, hk, hj]

/-- The object with direction `d` re-netted through `E` onto the basis `b'`. -/
def renet (o : Obj K) (d : ℕ) (b' : Basis K) (E : ℕ → ℕ → K) : Obj K :=
  { o with bases := o.bases.set! d b',
           cps := Tensor.applyAxis (matOfE E (o.basis d).numFunctions b'.numFunctions) o.cps d }

variable {m : ℕ}

theorem renet_sameMap {o : Obj K} (hw : C06.WF o m) (d : Fin m) (hper : (o.basis d).periodic = -1)
    (b' : Basis K) (hv' : b'.Valid) (hper' : b'.periodic = -1) (E : ℕ → ℕ → K)
    (hE : SpecVia (o.basis d) b' E) :
    C12.SameMap m o (renet o d b' E) ∧ C06.WF (renet o d b' E) m ∧ (renet o d b' E).basis d = b'
      ∧ (∀ k : Fin m, k ≠ d → (renet o d b' E).basis k = o.basis k)
      ∧ (renet o d b' E).ncomp = o.ncomp ∧ (renet o d b' E).rational = o.rational := by
  have hsize : (d : ℕ) < o.bases.size := by rw [hw.size]; exact d.isLt
  have hax : (d : ℕ) < o.cps.shape.length := by rw [hw.shape, midx_length]; omega
  set ME := matOfE E (o.basis d).numFunctions b'.numFunctions with hME
  have hbd : (renet o d b' E).basis d = b' := C04.basis_set o d hsize b' _
  have hbk : ∀ k : Fin m, k ≠ d → (renet o d b' E).basis k = o.basis k := by
    intro k hk
    exact C04.basis_set_ne o d k (fun e => hk (Fin.ext e)) b' _
  have hshape' : (renet o d b' E).cps.shape
      = midx (Function.update (fun k : Fin m => (o.basis k).numFunctions) d b'.numFunctions) o.ncomp := by
    show (Tensor.applyAxis ME o.cps d).shape = _
    rw [C04.applyAxis_shape, hw.shape, midx_set, hME, matOfE_size]
  have hnc : (renet o d b' E).ncomp = o.ncomp := ncomp_of_shape _ _ _ hshape'
  have hwf' : C06.WF (renet o d b' E) m := by
    refine ⟨?_, ?_, ?_⟩
    · show (o.bases.set! d b').size = m
      have : (o.bases.set! d b').size = o.bases.size := by simp [Array.set!]
      rw [this, hw.size]
    · intro k
      by_cases hk : k = d
      · subst hk; rw [hbd]; exact hv'
      · rw [hbk k hk]; exact hw.valid k
    · rw [hshape', hnc]
      congr 1
      funext k
      by_cases hk : k = d
      · subst hk; rw [Function.update_self, hbd]
      · rw [Function.update_of_ne hk, hbk k hk]
  refine ⟨C12.sameMap_of_fibres hw hwf' d hper (by rw [hbd]; exact hper') hbk hnc ?_, hwf', hbd, hbk, hnc, rfl⟩
  intro a i ha hi sd t
  rw [hbd]
  have hfib : ∀ r, r < b'.numFunctions →
      C04.fibre (renet o d b' E) d a i r = ∑ j ∈ range (o.basis d).numFunctions, E j r * C04.fibre o d a i j := by
    intro r hr
    show (Tensor.applyAxis ME o.cps d).at3 d a r i = _
    rw [C04.applyAxis_fibre ME o.cps d hax a r i ha (by rw [hME, matOfE_size]; exact hr) hi]
    unfold C04.mulVec
    have hn : (Tensor.split3 o.cps.shape d).2.1 = (o.basis d).numFunctions := by
      show o.cps.shape.getD d 1 = _
      rw [hw.shape, midx_getD_lt]
    rw [hn]
    apply sum_congr rfl
    intro j hj
    rw [hME, matOfE_entry E _ _ r j hr (mem_range.mp hj)]
    rfl
  rw [C04.splineVal_congr sd _ _ _ _ _ t hfib]
  exact hE sd (C04.fibre o d a i) t

/-- Well-formedness and bookkeeping of `renet` (no hypothesis on periodicity or on `E`). -/
theorem renet_wf {o : Obj K} (hw : C06.WF o m) (d : Fin m) (b' : Basis K) (hv' : b'.Valid) (E : ℕ → ℕ → K) :
    C06.WF (renet o d b' E) m ∧ (renet o d b' E).basis d = b'
      ∧ (∀ k : Fin m, k ≠ d → (renet o d b' E).basis k = o.basis k)
      ∧ (renet o d b' E).ncomp = o.ncomp ∧ (renet o d b' E).rational = o.rational := by
  have hsize : (d : ℕ) < o.bases.size := by rw [hw.size]; exact d.isLt
  set ME := matOfE E (o.basis d).numFunctions b'.numFunctions with hME
  have hbd : (renet o d b' E).basis d = b' := C04.basis_set o d hsize b' _
  have hbk : ∀ k : Fin m, k ≠ d → (renet o d b' E).basis k = o.basis k := by
    intro k hk
    exact C04.basis_set_ne o d k (fun e => hk (Fin.ext e)) b' _
  have hshape' : (renet o d b' E).cps.shape
      = midx (Function.update (fun k : Fin m => (o.basis k).numFunctions) d b'.numFunctions) o.ncomp := by
    show (Tensor.applyAxis ME o.cps d).shape = _
    rw [C04.applyAxis_shape, hw.shape, midx_set, hME, matOfE_size]
  have hnc : (renet o d b' E).ncomp = o.ncomp := ncomp_of_shape _ _ _ hshape'
  refine ⟨⟨?_, ?_, ?_⟩, hbd, hbk, hnc, rfl⟩
  · show (o.bases.set! d b').size = m
    have : (o.bases.set! d b').size = o.bases.size := by simp [Array.set!]
    rw [this, hw.size]
  · intro k
    by_cases hk : k = d
    · subst hk; rw [hbd]; exact hv'
    · rw [hbk k hk]; exact hw.valid k
  · rw [hshape', hnc]
    congr 1
    funext k
    by_cases hk : k = d
    · subst hk; rw [Function.update_self, hbd]
    · rw [Function.update_of_ne hk, hbk k hk]

/-- Re-netting a direction (periodic or not) through the identity matrix onto its own basis changes
    neither the bases nor the evaluated map. -/
theorem renet_id {o : Obj K} (hw : C06.WF o m) (d : Fin m) :
    C12.SameMap m o (renet o d (o.basis d) (fun j k => if j = k then 1 else 0))
      ∧ C06.WF (renet o d (o.basis d) (fun j k => if j = k then 1 else 0)) m
      ∧ (∀ k : Fin m, (renet o d (o.basis d) (fun j k => if j = k then 1 else 0)).basis k = o.basis k)
      ∧ (renet o d (o.basis d) (fun j k => if j = k then 1 else 0)).ncomp = o.ncomp
      ∧ (renet o d (o.basis d) (fun j k => if j = k then 1 else 0)).rational = o.rational := by
  set E : ℕ → ℕ → K := fun j k => if j = k then 1 else 0 with hEdef
  set o1 := renet o d (o.basis d) E with ho1
  have hsize : (d : ℕ) < o.bases.size := by rw [hw.size]; exact d.isLt
  have hax : (d : ℕ) < o.cps.shape.length := by rw [hw.shape, midx_length]; omega
  set ME := matOfE E (o.basis d).numFunctions (o.basis d).numFunctions with hME
  have hbd : o1.basis d = o.basis d := C04.basis_set o d hsize _ _
  have hbk : ∀ k : Fin m, o1.basis k = o.basis k := by
    intro k
    by_cases hk : k = d
    · subst hk; exact hbd
    · exact C04.basis_set_ne o d k (fun e => hk (Fin.ext e)) _ _
  have hshape' : o1.cps.shape = o.cps.shape := by
    show (Tensor.applyAxis ME o.cps d).shape = _
    rw [C04.applyAxis_shape, hME, matOfE_size, hw.shape, midx_set]
    congr 1
    funext k
    by_cases hk : k = d
    · subst hk; rw [Function.update_self]
    · rw [Function.update_of_ne hk]
  have hnc : o1.ncomp = o.ncomp := by unfold Obj.ncomp; rw [hshape']
  have hwf' : C06.WF o1 m := by
    refine ⟨?_, fun k => by rw [hbk k]; exact hw.valid k, ?_⟩
    · show (o.bases.set! d (o.basis d)).size = m
      have : (o.bases.set! d (o.basis d)).size = o.bases.size := by simp [Array.set!]
      rw [this, hw.size]
    · rw [hshape', hw.shape, hnc]
      congr 1
      funext k
      rw [hbk k]
  refine ⟨⟨hnc, fun comp hc s u => ?_⟩, hwf', hbk, hnc, rfl⟩
  rw [TP.eval_eq, TP.eval_eq]
  have hfields : ∀ k : Fin m, (toTP o1 m comp).nAll k = (toTP o m comp).nAll k
      ∧ (toTP o1 m comp).n k = (toTP o m comp).n k ∧ (toTP o1 m comp).τ k = (toTP o m comp).τ k
      ∧ (toTP o1 m comp).q k = (toTP o m comp).q k := by
    intro k
    simp only [toTP, hbk k, and_self]
  have hsets : (fun k => range ((toTP o1 m comp).nAll k)) = (fun k => range ((toTP o m comp).nAll k)) := by
    funext k; rw [(hfields k).1]
  rw [hsets]
  apply sum_congr rfl
  intro I _
  have hprod : ∏ k, B (s k) ((toTP o1 m comp).τ k) ((toTP o1 m comp).q k) (I k) (u k)
      = ∏ k, B (s k) ((toTP o m comp).τ k) ((toTP o m comp).q k) (I k) (u k) := by
    apply Finset.prod_congr rfl
    intro k _
    rw [(hfields k).2.2.1, (hfields k).2.2.2]
  rw [hprod]
  congr 1
  -- the coefficient
  have hn : (fun k => I k % (toTP o1 m comp).n k) = (fun k => I k % (toTP o m comp).n k) := by
    funext k; rw [(hfields k).2.1]
  rw [hn]
  set J : Fin m → ℕ := fun k => I k % (toTP o m comp).n k with hJ
  have hJlt : ∀ k, J k < (o.basis k).numFunctions := fun k =>
    Nat.mod_lt _ (valid_numFunctions_pos (hw.valid k))
  show getIdx o1.cps (midx J comp) = getIdx o.cps (midx J comp)
  obtain ⟨e1, ha1, hi1⟩ := C12.getIdx_eq_fibre hwf' d J comp (fun k => by rw [hbk k]; exact hJlt k)
    (by rw [hnc]; exact hc)
  obtain ⟨e0, _, _⟩ := C12.getIdx_eq_fibre hw d J comp hJlt hc
  rw [e1, e0]
  have houter : C12.outerIdx o1 d (midx J comp) = C12.outerIdx o d (midx J comp) := by
    unfold C12.outerIdx; rw [hshape']
  have hinner : C12.innerIdx o1 d (midx J comp) = C12.innerIdx o d (midx J comp) := by
    unfold C12.innerIdx; rw [hshape']
  have hoN : C04.outerN o1 d = C04.outerN o d := by unfold C04.outerN; rw [hshape']
  have hiN : C04.innerN o1 d = C04.innerN o d := by unfold C04.innerN; rw [hshape']
  rw [houter, hoN] at ha1
  rw [hinner, hiN] at hi1
  rw [houter, hinner]
  show (Tensor.applyAxis ME o.cps d).at3 d _ (J d) _ = _
  rw [C04.applyAxis_fibre ME o.cps d hax _ (J d) _ ha1 (by rw [hME, matOfE_size]; exact hJlt d) hi1]
  unfold C04.mulVec
  have hnn : (Tensor.split3 o.cps.shape d).2.1 = (o.basis d).numFunctions := by
    show o.cps.shape.getD d 1 = _
    rw [hw.shape, midx_getD_lt]
  rw [hnn]
  rw [sum_congr rfl (fun j hj => by rw [hME, matOfE_entry E _ _ (J d) j (hJlt d) (mem_range.mp hj)])]
  simp only [hEdef]
  simp [Finset.sum_ite_eq', hJlt d]
  rfl

end Splipy
