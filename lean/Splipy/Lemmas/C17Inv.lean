import Splipy.Lemmas.C17Core
import Splipy.Lemmas.C17Sections

/-! Lemmas for C17: the catalogue invariant (`Inv`), representation of an object by a node (`Rep`),
extension of states (`Ext`); `≈` on the universe `GU`; vertices. -/

namespace Splipy.MP

/-! ### `≈` on the universe -/

theorem GU.equiv_refl {nc : ℕ} {x : Obj} (h : GU nc x) : Equiv x x := Equiv.refl' h.good

theorem GU.equiv_symm {nc : ℕ} {x y : Obj} (hx : GU nc x) (hy : GU nc y) (h : Equiv x y) : Equiv y x :=
  Equiv.symm_full hx.good hy.good h

theorem GU.equiv_trans {nc : ℕ} {x y z : Obj} (hx : GU nc x) (hy : GU nc y) (hz : GU nc z)
    (h1 : Equiv x y) (h2 : Equiv y z) : Equiv x z :=
  Equiv.trans_full hx.good hy.good hz.good h1 h2

theorem Equiv.pardim_eq {x y : Obj} (h : Equiv x y) : x.pardim = y.pardim := by
  obtain ⟨o, ho⟩ := h
  exact (compute_sound x y o ho).2.2.1

/-! ### points -/

theorem wf_zero {o : Orientation} (h : o.WF 0) : o = Orientation.identity 0 := by
  obtain ⟨hp, hf⟩ := h
  have h1 : o.perm = [] := by simpa using hp.length_eq
  have h2 : o.flip = [] := List.length_eq_zero_iff.1 hf
  cases o; simp_all [Orientation.identity]

theorem GU.point_shape {nc : ℕ} {x : Obj} (h : GU nc x) (h0 : x.pardim = 0) : x.cps.shape = [] := by
  have := h.good.axes
  rw [h0] at this
  exact List.length_eq_zero_iff.1 this

/-- the single control point of a point object -/
def thePoint (x : Obj) : List ℚ := x.cps.data.getD 0 []

theorem GU.point_cps {nc : ℕ} {x : Obj} (h : GU nc x) (h0 : x.pardim = 0) :
    x.cps = ⟨[], #[thePoint x]⟩ := by
  have hs := h.point_shape h0
  have hsz : x.cps.data.size = 1 := by
    have := h.good.size
    rw [show x.shape = x.cps.shape from rfl, hs] at this
    simpa [shapeSize] using this
  cases hx : x.cps with
  | mk s d =>
    rw [hx] at hs hsz
    simp only at hs hsz
    subst hs
    have : d = #[thePoint x] := by
      apply Array.ext
      · simp [hsz]
      · intro i h1 h2
        have hi : i = 0 := by omega
        subst hi
        simp [thePoint, hx, Array.getD_eq_getD_getElem?, h1]
    rw [this]

/-- the canonical net of a point: its key with weight 1 -/
theorem GU.point_pnet {nc : ℕ} {x : Obj} (h : GU nc x) (h0 : x.pardim = 0) :
    pnet x = ⟨[], #[pointKey x ++ [1]]⟩ := by
  have hq : qnet x = ⟨[], #[if x.rational then thePoint x else thePoint x ++ [1]]⟩ := by
    unfold qnet
    rw [h.point_cps h0]
    split <;> simp [promoteNet, NdArr.map]
  have hw : wsum (qnet x) = lastD (if x.rational then thePoint x else thePoint x ++ [1]) := by
    rw [hq]; simp [wsum]
  have hne := h.wsum_ne
  rw [pnet_eq, hw] at *
  rw [hq]
  simp only [NdArr.map, List.map_toArray, List.map_cons, List.map_nil, NdArr.mk.injEq, true_and]
  congr 1
  unfold fS
  rw [div_self hne]
  congr 1
  unfold pointKey thePoint
  split <;> simp

theorem point_equiv_iff {nc : ℕ} {a b : Obj} (ha : GU nc a) (hb : GU nc b) (ha0 : a.pardim = 0)
    (hb0 : b.pardim = 0) : Equiv a b ↔ pointKey a = pointKey b := by
  have hbl : (pnet b).shape.length = 0 := by rw [hb.point_pnet hb0]; rfl
  have hbs : (pnet b).data.size = shapeSize (pnet b).shape := by rw [hb.point_pnet hb0]; rfl
  have hwf0 : (Orientation.identity 0).WF 0 := Orientation.identity_wf 0
  constructor
  · rintro ⟨o, ho⟩
    obtain ⟨hwf, hfit, _, _⟩ := compute_sound a b o ho
    rw [ha0] at hwf
    obtain ⟨_, harr, _⟩ := (fits_pnet_iff hwf hb.good hb0).1 hfit
    rw [wf_zero hwf, identity_mapArray 0 (pnet b) hbl hbs, ha.point_pnet ha0, hb.point_pnet hb0] at harr
    simp only [NdArr.mk.injEq, true_and] at harr
    have := congrArg (fun a : Array (List ℚ) => a.toList) harr
    simp only [List.cons.injEq, and_true] at this
    exact (List.append_inj_left' this rfl).symm
  · intro hk
    apply compute_complete a b hb.good.axes (by rw [ha0, hb0]) (by rw [ha.dimension, hb.dimension])
    refine ⟨Orientation.identity 0, by rw [ha0]; exact hwf0, ?_⟩
    rw [fits_pnet_iff hwf0 hb.good hb0, identity_mapArray 0 (pnet b) hbl hbs]
    refine ⟨?_, by rw [ha.point_pnet ha0, hb.point_pnet hb0, hk], ?_⟩
    · show (Orientation.identity 0).mapShape b.cps.shape = a.cps.shape
      rw [hb.point_shape hb0, ha.point_shape ha0]; rfl
    · rw [basesMatch_iff]
      intro i hi
      rw [ha0] at hi
      exact absurd hi (Nat.not_lt_zero i)

/-! ### representation, extension, invariant -/

/-- node `id` represents (the class of) `x` -/
def Rep (m : Model) (id : ℕ) (x : Obj) : Prop := id < m.nodes.size ∧ Equiv (m.node id).obj x

/-- `m'` has all the nodes of `m`, with the same objects and lower links -/
structure Ext (m m' : Model) : Prop where
  size_le : m.nodes.size ≤ m'.nodes.size
  lsize : m'.levels.size = m.levels.size
  obj : ∀ c, c < m.nodes.size → (m'.node c).obj = (m.node c).obj
  lower : ∀ c, c < m.nodes.size → (m'.node c).lower = (m.node c).lower

theorem Ext.refl (m : Model) : Ext m m := ⟨le_rfl, rfl, fun _ _ => rfl, fun _ _ => rfl⟩

theorem Ext.trans {a b c : Model} (h1 : Ext a b) (h2 : Ext b c) : Ext a c :=
  ⟨h1.size_le.trans h2.size_le, h2.lsize.trans h1.lsize,
   fun k hk => (h2.obj k (lt_of_lt_of_le hk h1.size_le)).trans (h1.obj k hk),
   fun k hk => (h2.lower k (lt_of_lt_of_le hk h1.size_le)).trans (h1.lower k hk)⟩

theorem Rep.ext {m m' : Model} {id : ℕ} {x : Obj} (h : Rep m id x) (he : Ext m m') : Rep m' id x :=
  ⟨lt_of_lt_of_le h.1 he.size_le, by rw [he.obj id h.1]; exact h.2⟩

/-- codimension-1 nodes of a node (`lower_nodes[-1]`) -/
def facets (m : Model) (c : ℕ) : List ℕ := (m.node c).lower.getLastD []

/-- the `higher_nodes` links are exactly the incidences: `(d, c)` occurs in `higher` of `k` as often
    as `k` occurs among the lower links of the node `c` of dimension `d` -/
def HighOK (m : Model) : Prop :=
  ∀ k, k < m.nodes.size → ∀ d c, (m.node k).higher.count (d, c) =
    if c < m.nodes.size ∧ (m.node c).pardim = d then (m.node c).lower.flatten.count k else 0

/-- **The catalogue invariant.**  `S` is the set of objects that may be stored (sections of the
    patches), `nc` the number of components per control point. -/
structure Inv (nc : ℕ) (S : Obj → Prop) (m : Model) : Prop where
  /-- vertex keys are distinct -/
  vkeys : (m.verts.toList.map (·.1)).Nodup
  /-- a vertex entry points to a point node with that key -/
  vnode : ∀ kv ∈ m.verts.toList, kv.2 < m.nodes.size ∧ (m.node kv.2).obj.pardim = 0 ∧
    pointKey (m.node kv.2).obj = kv.1
  /-- every point node is registered -/
  vall : ∀ c, c < m.nodes.size → (m.node c).obj.pardim = 0 → ∃ kv ∈ m.verts.toList, kv.2 = c
  /-- stored objects come from `S` (hence are well-formed) and fit into the catalogue chain -/
  orig : ∀ c, c < m.nodes.size → S (m.node c).obj ∧ GU nc (m.node c).obj ∧
    (m.node c).obj.pardim < m.levels.size
  /-- shape of the lower links -/
  lowshape : ∀ c, c < m.nodes.size → (m.node c).lower.length = (m.node c).obj.pardim ∧
    ∀ i, i < (m.node c).obj.pardim →
      ((m.node c).lower.getD i []).length = (sections (m.node c).obj.pardim i).length
  /-- the lower links are the nodes representing the sections, in `sections` order -/
  low : ∀ c, c < m.nodes.size → ∀ i, i < (m.node c).obj.pardim →
    ∀ j, j < (sections (m.node c).obj.pardim i).length →
      Rep m (((m.node c).lower.getD i []).getD j 0)
        ((m.node c).obj.sect ((sections (m.node c).obj.pardim i).getD j []))
  /-- a node of dimension ≥ 1 is filed under its facet nodes -/
  filed : ∀ c, c < m.nodes.size → 1 ≤ (m.node c).obj.pardim →
    c ∈ (m.level (m.node c).obj.pardim).get (facets m c)
  /-- whatever is filed under a key is a node of that level whose facet nodes are a permutation of
      the key -/
  cand : ∀ d q c, c ∈ (m.level d).get q →
    c < m.nodes.size ∧ (m.node c).obj.pardim = d ∧ (facets m c).Perm q
  /-- **key classes**: permuted keys carry the same candidate list -/
  closed : ∀ d q q', q.Perm q' → (m.level d).get q = (m.level d).get q'
  /-- distinct nodes represent distinct classes -/
  uniq : ∀ c c', c < m.nodes.size → c' < m.nodes.size →
    Equiv (m.node c).obj (m.node c').obj → c = c'
  /-- the `pardim` property of a node is that of its object -/
  pdfield : ∀ c, c < m.nodes.size → (m.node c).pardim = (m.node c).obj.pardim
  /-- lower links point to existing nodes -/
  lowlt : ∀ c, c < m.nodes.size → ∀ k ∈ (m.node c).lower.flatten, k < m.nodes.size
  /-- every key with candidates is in the ordered key list of its level -/
  keys : ∀ d, Cov (m.level d)
  /-- `higher_nodes` = incidences -/
  high : HighOK m

theorem Inv.gu {nc : ℕ} {S : Obj → Prop} {m : Model} (h : Inv nc S m) {c : ℕ} (hc : c < m.nodes.size) :
    GU nc (m.node c).obj := (h.orig c hc).2.1

/-- two nodes representing the same object coincide -/
theorem Inv.rep_unique {nc : ℕ} {S : Obj → Prop} {m : Model} (h : Inv nc S m) {c c' : ℕ} {x : Obj}
    (hx : GU nc x) (h1 : Rep m c x) (h2 : Rep m c' x) : c = c' :=
  h.uniq c c' h1.1 h2.1
    ((h.gu h1.1).equiv_trans hx (h.gu h2.1) h1.2 ((h.gu h2.1).equiv_symm hx h2.2))

theorem Rep.equiv {nc : ℕ} {S : Obj → Prop} {m : Model} (h : Inv nc S m) {c : ℕ} {x y : Obj}
    (hx : GU nc x) (hy : GU nc y) (h1 : Rep m c x) (hxy : Equiv x y) : Rep m c y :=
  ⟨h1.1, (h.gu h1.1).equiv_trans hx hy h1.2 hxy⟩

end Splipy.MP
