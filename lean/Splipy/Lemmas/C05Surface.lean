import Splipy.Lemmas.C05Tensor
import Splipy.Lemmas.C05Geometry

/-!
# C05 — `raise_order_implicit` / `lower_order` on surfaces (two parametric directions)

The model re-interpolates both directions at once (four `tensordot` steps).  Under the projection
property of each direction the result is the control net `Σ_a Σ_j t[a,j,·] E_u[a,k0] E_v[j,k1]`.
-/

namespace Splipy

set_option linter.unusedSectionVars false

variable {K : Type} [Field K] [LinearOrder K] [IsStrictOrderedRing K] [FloorRing K]

open Finset

/-- One direction of a re-interpolation: the rows of the executable `evaluate` of the old basis `b`
    (`n` functions) are reproduced on the new basis `b'` through the matrix `E`, at every `t`. -/
def RowsVia (tol : K) (b b' : Basis K) (n : ℕ) (E : ℕ → ℕ → K) : Prop :=
  ∀ (f : ℕ → K) (t : K),
    ∑ k ∈ range b'.numFunctions, (b'.evaluate tol t 0 true).getD k 0 * (∑ j ∈ range n, f j * E j k)
      = ∑ j ∈ range n, (b.evaluate tol t 0 true).getD j 0 * f j

theorem rowsVia_id (tol : K) (b : Basis K) : RowsVia tol b b b.numFunctions (fun j k => if j = k then 1 else 0) := by
  intro f t
  apply sum_congr rfl
  intro k hk
  congr 1
  simp [Finset.sum_ite_eq', mem_range.mp hk]

/-- `Proj` for one direction of the model: certified inverse at the Greville points + `RowsVia`. -/
theorem proj_of_rowsVia (tol : K) (b b' : Basis K) (n : ℕ) (E : ℕ → ℕ → K) (pts : Array K) (Ni : Mat K)
    (hg : b'.greville = .ok pts)
    (H_sw : Mat.invChecked (Obj.basisMat b' tol pts.toList 0 true) = .ok Ni)
    (hE : RowsVia tol b b' n E) :
    Ni.size = pts.size ∧ (Obj.basisMat b tol pts.toList 0 true).size = pts.size ∧
    Proj Ni (Obj.basisMat b tol pts.toList 0 true) pts.size n pts.size E := by
  obtain ⟨hNi, hinv⟩ := Mat.invChecked_spec _ Ni H_sw
  have hrows : (Obj.basisMat b' tol pts.toList 0 true).nrows = pts.size := by
    simp [Mat.nrows, basisMat_size]
  rw [hrows] at hNi hinv
  have hP := greville_size b' pts hg
  refine ⟨hNi, by simp [basisMat_size], ?_⟩
  apply proj_of_leftInv Ni (Obj.basisMat b' tol pts.toList 0 true) _ pts.size n E hinv
  intro f l hl
  have hl' : l < pts.toList.length := by simpa using hl
  have e1 : ∀ k, (Obj.basisMat b' tol pts.toList 0 true).get l k = (b'.evaluate tol pts.toList[l] 0 true).getD k 0 :=
    fun k => basisMat_get b' tol pts.toList l k hl'
  have e2 : ∀ j, (Obj.basisMat b tol pts.toList 0 true).get l j = (b.evaluate tol pts.toList[l] 0 true).getD j 0 :=
    fun j => basisMat_get b tol pts.toList l j hl'
  simp only [e1, e2]
  rw [hP]
  exact hE f pts.toList[l]

/-- **Greville re-interpolation of a surface net.** -/
theorem reinterpolate_pardim2 (o : Obj K) (tol : K) (bu bv bu' bv' : Basis K) (pu pv : Array K)
    (A B C : ℕ) (Niu Niv : Mat K) (hb : o.bases = #[bu, bv]) (hs : o.cps.shape = [A, B, C])
    (hgu : bu'.greville = .ok pu) (hgv : bv'.greville = .ok pv)
    (Hu : Mat.invChecked (Obj.basisMat bu' tol pu.toList 0 true) = .ok Niu)
    (Hv : Mat.invChecked (Obj.basisMat bv' tol pv.toList 0 true) = .ok Niv)
    (Eu Ev : ℕ → ℕ → K) (hEu : RowsVia tol bu bu' A Eu) (hEv : RowsVia tol bv bv' B Ev) :
    ∃ T, o.reinterpolate tol [bu', bv'] = .ok T ∧ T.shape = [pu.size, pv.size, C] ∧
      ∀ k0, k0 < pu.size → ∀ k1, k1 < pv.size → ∀ i, i < C →
        T.get ((k0 * pv.size + k1) * C + i)
          = ∑ a ∈ range A, (∑ j ∈ range B, o.cps.get ((a * B + j) * C + i) * Ev j k1) * Eu a k0 := by
  have hpd : o.pardim = 2 := by simp [Obj.pardim, hs]
  obtain ⟨su, sou, pju⟩ := proj_of_rowsVia tol bu bu' A Eu pu Niu hgu Hu hEu
  obtain ⟨sv, sov, pjv⟩ := proj_of_rowsVia tol bv bv' B Ev pv Niv hgv Hv hEv
  set Nou := Obj.basisMat bu tol pu.toList 0 true with hNou
  set Nov := Obj.basisMat bv tol pv.toList 0 true with hNov
  have hr : o.reinterpolate tol [bu', bv'] = .ok (Tensor.tensordotFront Niu (Tensor.tensordotFront Niv
        (Tensor.tensordotFront Nou (Tensor.tensordotFront Nov o.cps 2) 2) 2) 2) := by
    unfold Obj.reinterpolate
    simp only [Obj.grevilles, hgu, hgv, hb, hpd]
    simp only [List.zip_cons_cons, List.zip_nil_right, List.map_cons, List.map_nil, List.reverse_cons,
      List.reverse_nil, List.nil_append, List.cons_append, List.foldl_cons, List.foldl_nil, Obj.solveChain]
    rw [Hv]
    simp only [Hu]
    rfl
  refine ⟨_, hr, ?_, ?_⟩
  · rw [(chain2 o.cps hs Nou Nov Niu Niv).1, su, sv]
  · intro k0 hk0 k1 hk1 i hi
    have := chain2_proj o.cps hs Nou Nov Niu Niv Eu Ev (by rw [sou, su]; exact pju) (by rw [sov, sv]; exact pjv)
      k0 k1 i (by rw [su]; exact hk0) (by rw [sv]; exact hk1) hi
    rw [sv] at this
    exact this

/-- The same with the projection property of each direction given directly (used by `lower_order`). -/
theorem reinterpolate_pardim2_proj (o : Obj K) (tol : K) (bu bv bu' bv' : Basis K) (pu pv : Array K)
    (A B C : ℕ) (Niu Niv : Mat K) (hb : o.bases = #[bu, bv]) (hs : o.cps.shape = [A, B, C])
    (hgu : bu'.greville = .ok pu) (hgv : bv'.greville = .ok pv)
    (Hu : Mat.invChecked (Obj.basisMat bu' tol pu.toList 0 true) = .ok Niu)
    (Hv : Mat.invChecked (Obj.basisMat bv' tol pv.toList 0 true) = .ok Niv)
    (Eu Ev : ℕ → ℕ → K)
    (pju : Proj Niu (Obj.basisMat bu tol pu.toList 0 true) pu.size A pu.size Eu)
    (pjv : Proj Niv (Obj.basisMat bv tol pv.toList 0 true) pv.size B pv.size Ev) :
    ∃ T, o.reinterpolate tol [bu', bv'] = .ok T ∧ T.shape = [pu.size, pv.size, C] ∧
      ∀ k0, k0 < pu.size → ∀ k1, k1 < pv.size → ∀ i, i < C →
        T.get ((k0 * pv.size + k1) * C + i)
          = ∑ a ∈ range A, (∑ j ∈ range B, o.cps.get ((a * B + j) * C + i) * Ev j k1) * Eu a k0 := by
  have hpd : o.pardim = 2 := by simp [Obj.pardim, hs]
  obtain ⟨su, _⟩ := Mat.invChecked_spec _ Niu Hu
  obtain ⟨sv, _⟩ := Mat.invChecked_spec _ Niv Hv
  have r1 : (Obj.basisMat bu' tol pu.toList 0 true).nrows = pu.size := by simp [Mat.nrows, basisMat_size]
  have r2 : (Obj.basisMat bv' tol pv.toList 0 true).nrows = pv.size := by simp [Mat.nrows, basisMat_size]
  rw [r1] at su
  rw [r2] at sv
  set Nou := Obj.basisMat bu tol pu.toList 0 true with hNou
  set Nov := Obj.basisMat bv tol pv.toList 0 true with hNov
  have sou : Nou.size = pu.size := by simp [hNou, basisMat_size]
  have sov : Nov.size = pv.size := by simp [hNov, basisMat_size]
  have hr : o.reinterpolate tol [bu', bv'] = .ok (Tensor.tensordotFront Niu (Tensor.tensordotFront Niv
        (Tensor.tensordotFront Nou (Tensor.tensordotFront Nov o.cps 2) 2) 2) 2) := by
    unfold Obj.reinterpolate
    simp only [Obj.grevilles, hgu, hgv, hb, hpd]
    simp only [List.zip_cons_cons, List.zip_nil_right, List.map_cons, List.map_nil, List.reverse_cons,
      List.reverse_nil, List.nil_append, List.cons_append, List.foldl_cons, List.foldl_nil, Obj.solveChain]
    rw [Hv]
    simp only [Hu]
    rfl
  refine ⟨_, hr, ?_, ?_⟩
  · rw [(chain2 o.cps hs Nou Nov Niu Niv).1, su, sv]
  · intro k0 hk0 k1 hk1 i hi
    have := chain2_proj o.cps hs Nou Nov Niu Niv Eu Ev (by rw [sou, su]; exact pju) (by rw [sov, sv]; exact pjv)
      k0 k1 i (by rw [su]; exact hk0) (by rw [sv]; exact hk1) hi
    rw [sv] at this
    exact this

end Splipy
