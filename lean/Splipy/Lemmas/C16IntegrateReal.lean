import Splipy.Lemmas.C16Integrate
import Splipy.Lemmas.C16IntegralReal

/-!
# C16: what `integrate` returns is the integral (`K = ℝ`)
-/

namespace Splipy

open MeasureTheory

namespace Basis

/-- **The spec-level entry of `integrate` is the integral of the basis function.** -/
theorem intEntry_eq_integral {b : Basis ℝ} (hv : b.Valid) (s : Side)
    (i : ℕ) {t0 t1 : ℝ} (h0 : b.start ≤ t0) (hlt : t0 < t1) (h1 : t1 ≤ b.stop) :
    b.intEntry t0 t1 i = ∫ x in t0..t1, B s b.kn (b.order - 1) i x := by
  have hp := hv.order_pos
  have hτ : Monotone b.aug.kn := (aug_valid hv).kn_mono
  have hstart : b.aug.kn b.order = b.start := by
    rw [b.aug_kn hv.size_pos]; rfl
  have hstop : b.aug.kn (b.nAll + 1) = b.stop := by
    rw [b.aug_kn_succ hv.size_pos]; rfl
  have hle := hv.order_le_nAll
  obtain ⟨μ0, hμ1, hμ2, hmem⟩ := exists_span .right b.aug.kn hτ b.order (b.nAll + 1) t0
    ⟨by rw [hstart]; exact h0, by rw [hstop]; exact lt_of_lt_of_le hlt h1⟩
  have hk : μ0 + (b.nAll - μ0) + 1 = b.nAll + 1 := by omega
  obtain ⟨-, hint⟩ := integral_B_eq_intF_multi s b.aug.kn hτ (b.order - 1) (b.nAll + 1) (i + 1) μ0 t0
    (by omega) hmem.1 hmem.2 (b.nAll - μ0) (by omega) t1 hlt (by rw [hk, hstop]; exact h1)
  have hB : ∀ x, B s b.aug.kn (b.order - 1) (i + 1) x = B s b.kn (b.order - 1) i x := by
    intro x
    apply B_congr_knots
    intro j _
    rw [show i + 1 + j = (i + j) + 1 by omega, b.aug_kn_succ hv.size_pos]
  simp_rw [hB] at hint
  rw [hint]
  unfold intEntry
  have hs0 : b.intSide t0 = .right := by
    unfold intSide
    rw [if_neg (ne_of_lt (lt_of_lt_of_le hlt h1))]
  rw [hs0]
  congr 1
  unfold intSide
  split_ifs with hc
  · rfl
  · have h1lt : t1 < b.stop := lt_of_le_of_ne h1 hc
    obtain ⟨μL, hL1, hL2, hLm⟩ := exists_span .left b.aug.kn hτ b.order (b.nAll + 1) t1
      ⟨by rw [hstart]; exact lt_of_le_of_lt h0 hlt, by rw [hstop]; exact h1⟩
    obtain ⟨μR, hR1, hR2, hRm⟩ := exists_span .right b.aug.kn hτ b.order (b.nAll + 1) t1
      ⟨by rw [hstart]; exact le_trans h0 hlt.le, by rw [hstop]; exact h1lt⟩
    exact (intF_left_eq_right_of_domain b.aug.kn hτ t1 (b.order - 1) (b.nAll + 1) (i + 1) μL μR
      hLm hRm (by omega) hL2 (by omega) hR2).symm

/-- The basis functions are interval integrable over every sub-interval of the domain. -/
theorem intervalIntegrable_B {b : Basis ℝ} (hv : b.Valid) (s : Side)
    (i : ℕ) {t0 t1 : ℝ} (h0 : b.start ≤ t0) (hlt : t0 < t1) (h1 : t1 ≤ b.stop) :
    IntervalIntegrable (fun x => B s b.kn (b.order - 1) i x) volume t0 t1 := by
  have hp := hv.order_pos
  have hτ : Monotone b.aug.kn := (aug_valid hv).kn_mono
  have hstart : b.aug.kn b.order = b.start := by
    rw [b.aug_kn hv.size_pos]; rfl
  have hstop : b.aug.kn (b.nAll + 1) = b.stop := by
    rw [b.aug_kn_succ hv.size_pos]; rfl
  have hle := hv.order_le_nAll
  obtain ⟨μ0, hμ1, hμ2, hmem⟩ := exists_span .right b.aug.kn hτ b.order (b.nAll + 1) t0
    ⟨by rw [hstart]; exact h0, by rw [hstop]; exact lt_of_lt_of_le hlt h1⟩
  have hk : μ0 + (b.nAll - μ0) + 1 = b.nAll + 1 := by omega
  obtain ⟨hI, -⟩ := integral_B_eq_intF_multi s b.aug.kn hτ (b.order - 1) (b.nAll + 1) (i + 1) μ0 t0
    (by omega) hmem.1 hmem.2 (b.nAll - μ0) (by omega) t1 hlt (by rw [hk, hstop]; exact h1)
  have hB : (fun x => B s b.aug.kn (b.order - 1) (i + 1) x) = fun x => B s b.kn (b.order - 1) i x := by
    funext x
    apply B_congr_knots
    intro j _
    rw [show i + 1 + j = (i + j) + 1 by omega, b.aug_kn_succ hv.size_pos]
  rwa [hB] at hI

/-- `Σ_j c_j · ∫ B_j = ∫ Σ_j c_j B_j`: the weighted sum of the entries is the integral of the
spline. -/
theorem sum_intEntry_eq_integral_spline {b : Basis ℝ} (hv : b.Valid)
    (s : Side) (n : ℕ) (c : ℕ → ℝ) {t0 t1 : ℝ} (h0 : b.start ≤ t0) (hlt : t0 < t1)
    (h1 : t1 ≤ b.stop) :
    ∑ j ∈ Finset.range n, b.intEntry t0 t1 j * c j
      = ∫ x in t0..t1, splineVal s b.kn (b.order - 1) n c x := by
  unfold splineVal
  rw [intervalIntegral.integral_finsetSum
    (fun j _ => (intervalIntegrable_B hv s j h0 hlt h1).const_mul (c j))]
  apply Finset.sum_congr rfl
  intro j _
  rw [intervalIntegral.integral_const_mul, intEntry_eq_integral hv s j h0 hlt h1, mul_comm]

theorem intervalIntegrable_sum_fun {ι : Type} (s : Finset ι) (f : ι → ℝ → ℝ) {a b : ℝ}
    (h : ∀ i ∈ s, IntervalIntegrable (f i) volume a b) :
    IntervalIntegrable (fun x => ∑ i ∈ s, f i x) volume a b := by
  have h1 : (fun x => ∑ i ∈ s, f i x) = ∑ i ∈ s, f i := by
    funext x
    simp [Finset.sum_apply]
  rw [h1]
  exact IntervalIntegrable.sum s h

theorem intervalIntegrable_splineVal {b : Basis ℝ} (hv : b.Valid)
    (s : Side) (n : ℕ) (c : ℕ → ℝ) {t0 t1 : ℝ} (h0 : b.start ≤ t0) (hlt : t0 < t1)
    (h1 : t1 ≤ b.stop) :
    IntervalIntegrable (fun x => splineVal s b.kn (b.order - 1) n c x) volume t0 t1 := by
  unfold splineVal
  exact intervalIntegrable_sum_fun _ _
    (fun j _ => (intervalIntegrable_B hv s j h0 hlt h1).const_mul (c j))

/-- Two directions: `Σ_a Σ_j (∫B_a)(∫B_j) c_{aj}` is the iterated integral of the tensor-product
spline `Σ_a Σ_j c_{aj} B_a(u) B_j(v)`. -/
theorem sum_intEntry2_eq_integral {b0 b1 : Basis ℝ} (hv0 : b0.Valid) (hv1 : b1.Valid)
    (s : Side) (n1 n2 : ℕ) (c : ℕ → ℕ → ℝ) :
    ∑ a ∈ Finset.range n1, b0.intEntry b0.start b0.stop a *
        ∑ j ∈ Finset.range n2, b1.intEntry b1.start b1.stop j * c a j
      = ∫ u in b0.start..b0.stop, ∫ v in b1.start..b1.stop,
          ∑ a ∈ Finset.range n1, ∑ j ∈ Finset.range n2,
            c a j * B s b0.kn (b0.order - 1) a u * B s b1.kn (b1.order - 1) j v := by
  have hl0 := hv0.start_lt_stop
  have hl1 := hv1.start_lt_stop
  have step1 : ∀ a, ∑ j ∈ Finset.range n2, b1.intEntry b1.start b1.stop j * c a j
      = ∫ v in b1.start..b1.stop, splineVal s b1.kn (b1.order - 1) n2 (c a) v :=
    fun a => sum_intEntry_eq_integral_spline hv1 s n2 (c a) le_rfl hl1 le_rfl
  simp_rw [step1]
  rw [sum_intEntry_eq_integral_spline hv0 s n1
    (fun a => ∫ v in b1.start..b1.stop, splineVal s b1.kn (b1.order - 1) n2 (c a) v) le_rfl hl0 le_rfl]
  apply intervalIntegral.integral_congr
  intro u _
  show splineVal s b0.kn (b0.order - 1) n1 _ u = _
  unfold splineVal
  have hI : ∀ a ∈ Finset.range n1, IntervalIntegrable
      (fun v => ∑ j ∈ Finset.range n2, c a j * B s b0.kn (b0.order - 1) a u * B s b1.kn (b1.order - 1) j v)
      volume b1.start b1.stop := fun a _ =>
    intervalIntegrable_sum_fun _ _ (fun j _ =>
      (intervalIntegrable_B hv1 s j le_rfl hl1 le_rfl).const_mul _)
  simp only []
  rw [intervalIntegral.integral_finsetSum hI]
  apply Finset.sum_congr rfl
  intro a _
  rw [← intervalIntegral.integral_mul_const]
  apply intervalIntegral.integral_congr
  intro v _
  simp only []
  rw [Finset.sum_mul]
  apply Finset.sum_congr rfl
  intro j _
  ring

end Basis

end Splipy
