import Splipy.Lemmas.C18History
import Splipy.Lemmas.C18Views

/-!
# C18 — from the history invariant `Hist` to the plans invariant `PlansInv`
-/

namespace Splipy.MP.C18L

open Splipy.MP Splipy.MP.Own

theorem sameEntity_iff (x y : Obj) : sameEntity x y = true ↔ Equiv x y := by
  unfold sameEntity Equiv
  cases h : Orientation.compute x y with
  | ok o => simp
  | error e => simp

theorem mem_occsUpTo (objs : List Obj) (k i a b : ℕ) :
    (a, b) ∈ occsUpTo objs k i ↔
      (a < k ∧ b < (faceSecs (objs.getD a default)).length) ∨ (a = k ∧ b < i + 1) := by
  unfold occsUpTo
  simp only [List.mem_append, List.mem_flatMap, List.mem_range, List.mem_map, Prod.mk.injEq]
  constructor
  · rintro (⟨j, hj, i', hi', rfl, rfl⟩ | ⟨i', hi', rfl, rfl⟩)
    · exact Or.inl ⟨hj, hi'⟩
    · exact Or.inr ⟨rfl, hi'⟩
  · rintro (⟨h1, h2⟩ | ⟨rfl, h2⟩)
    · exact Or.inl ⟨a, h1, b, h2, rfl, rfl⟩
    · exact Or.inr ⟨b, h2, rfl, rfl⟩

theorem occsUpTo_pairwise (objs : List Obj) (k i : ℕ) : (occsUpTo objs k i).Pairwise occLt := by
  unfold occsUpTo
  rw [List.pairwise_append]
  refine ⟨?_, ?_, ?_⟩
  · rw [List.pairwise_flatMap]
    refine ⟨fun j _ => ?_, ?_⟩
    · rw [List.pairwise_map]
      exact List.Pairwise.imp (fun h => Or.inr ⟨rfl, h⟩) List.pairwise_lt_range
    · refine List.Pairwise.imp ?_ List.pairwise_lt_range
      intro a b hab x hx y hy
      simp only [List.mem_map, List.mem_range] at hx hy
      obtain ⟨_, _, rfl⟩ := hx
      obtain ⟨_, _, rfl⟩ := hy
      exact Or.inl hab
  · rw [List.pairwise_map]
    exact List.Pairwise.imp (fun h => Or.inr ⟨rfl, h⟩) List.pairwise_lt_range
  · intro x hx y hy
    simp only [List.mem_flatMap, List.mem_map, List.mem_range] at hx hy
    obtain ⟨j, hj, _, _, rfl⟩ := hx
    obtain ⟨_, _, rfl⟩ := hy
    exact Or.inl hj

section
variable {nc P : ℕ} {S : Obj → Prop} {objs : List Obj} {m : Model}

/-- the facet nodes of the `k`-th top node -/
def facetsAt (m : Model) (P k : ℕ) : List ℕ := (m.node ((m.nodesOf P).getD k 0)).lower.getLastD []

theorem Hist.facets_eq (H : Hist nc P S objs m) (hP : 1 ≤ P) {k : ℕ} (hk : k < objs.length) :
    facetsAt m P k = (m.node ((m.nodesOf P).getD k 0)).lower.getD (P - 1) [] ∧
      (facetsAt m P k).length = (sections P (P - 1)).length := by
  obtain ⟨hlt, hpd⟩ := H.top_lt hk
  obtain ⟨hlen, hlens⟩ := H.inv.lowshape _ hlt
  rw [hpd] at hlen hlens
  have h1 : facetsAt m P k = (m.node ((m.nodesOf P).getD k 0)).lower.getD (P - 1) [] :=
    getLastD_eq_getD _ _ P hlen hP
  exact ⟨h1, by rw [h1]; exact hlens (P - 1) (by omega)⟩

theorem Hist.facet_rep (H : Hist nc P S objs m) (hP : 1 ≤ P) {k i : ℕ} (hk : k < objs.length)
    (hi : i < (sections P (P - 1)).length) : Rep m ((facetsAt m P k).getD i 0) (occObj objs (k, i)) := by
  rw [(H.facets_eq hP hk).1]; exact H.face_rep hP hk hi

/-- what `Hist.prov` says about a node -/
def IsOrigin (P : ℕ) (objs : List Obj) (m : Model) (G a b : ℕ) : Prop :=
  a < objs.length ∧ b < (sections P (P - 1)).length ∧ (m.node G).obj = occObj objs (a, b) ∧
    ∀ c d, c < objs.length → d < (sections P (P - 1)).length → occLt (c, d) (a, b) →
      ¬ Equiv (occObj objs (c, d)) (m.node G).obj

theorem Hist.faceSecs_len (H : Hist nc P S objs m) {k : ℕ} (hk : k < objs.length) :
    faceSecs (objs.getD k default) = sections P (P - 1) := by
  unfold faceSecs; rw [H.obj_pardim hk]

/-- the node of an origin is the facet node there -/
theorem Hist.node_of_origin (H : Hist nc P S objs m) (hP : 1 ≤ P) {G a b : ℕ} (hG : G < m.nodes.size)
    (ho : IsOrigin P objs m G a b) : (facetsAt m P a).getD b 0 = G := by
  obtain ⟨ha, hb, hobj, _⟩ := ho
  have hr := H.facet_rep hP ha hb
  have hgu := H.inv.gu hG
  have hr2 : Rep m G (occObj objs (a, b)) := ⟨hG, by rw [← hobj]; exact hgu.equiv_refl⟩
  exact H.inv.rep_unique (occ_gu H ha hb) hr hr2

/-- **`firstOcc` computes the origin**: every face whose node is `G` was first seen at the origin of `G` -/
theorem Hist.firstOcc_of_origin (H : Hist nc P S objs m) (hP : 1 ≤ P) {G a b : ℕ} (hG : G < m.nodes.size)
    (ho : IsOrigin P objs m G a b) {k i : ℕ} (hk : k < objs.length) (hi : i < (sections P (P - 1)).length)
    (hki : (facetsAt m P k).getD i 0 = G) : firstOcc objs k i = (a, b) ∧ a ≤ k := by
  obtain ⟨ha, hb, hobj, hmin⟩ := ho
  have hr := H.facet_rep hP hk hi
  rw [hki] at hr
  have hguG := H.inv.gu hG
  have hguki := occ_gu H hk hi
  have hguab := occ_gu H ha hb
  have hEq : Equiv (occObj objs (a, b)) (occObj objs (k, i)) := by rw [← hobj]; exact hr.2
  -- the origin is not later than `(k, i)`
  have hle : a < k ∨ (a = k ∧ b < i + 1) := by
    by_contra hcon
    have hlt : occLt (k, i) (a, b) := by
      unfold occLt; simp only
      by_cases hak : k < a
      · exact Or.inl hak
      · right; constructor <;> omega
    exact hmin k i hk hi hlt (hguG.equiv_symm hguki hr.2)
  have hmem : (a, b) ∈ occsUpTo objs k i := by
    rw [mem_occsUpTo]
    rcases hle with h1 | h1
    · exact Or.inl ⟨h1, by rw [H.faceSecs_len ha]; exact hb⟩
    · exact Or.inr h1
  have hfind := find?_of_pairwise occLt (fun ji => sameEntity (occObj objs ji) (occObj objs (k, i)))
    (occsUpTo objs k i) (a, b) (occsUpTo_pairwise objs k i) hmem ((sameEntity_iff _ _).2 hEq) (by
      rintro ⟨c, d⟩ hcd hlt
      rw [mem_occsUpTo] at hcd
      have hc : c < objs.length := by rcases hcd with h1 | h1 <;> omega
      have hd : d < (sections P (P - 1)).length := by
        rcases hcd with h1 | ⟨h1, h2⟩
        · rw [← H.faceSecs_len hc]; exact h1.2
        · omega
      cases hse : sameEntity (occObj objs (c, d)) (occObj objs (k, i)) with
      | false => rfl
      | true =>
        exfalso
        have hE := (sameEntity_iff _ _).1 hse
        have hgucd := occ_gu H hc hd
        exact hmin c d hc hd hlt (hgucd.equiv_trans hguki hguG hE (hguG.equiv_symm hguki hr.2)))
  refine ⟨?_, by omega⟩
  unfold firstOcc
  rw [hfind]; rfl

theorem Hist.facet_dim (H : Hist nc P S objs m) (hP : 1 ≤ P) {k i : ℕ} (hk : k < objs.length)
    (hi : i < (sections P (P - 1)).length) :
    (facetsAt m P k).getD i 0 < m.nodes.size ∧ (m.node ((facetsAt m P k).getD i 0)).obj.pardim + 1 = P := by
  obtain ⟨hlt, hpd⟩ := H.top_lt hk
  have hmem : (facetsAt m P k).getD i 0 ∈ (m.node ((m.nodesOf P).getD k 0)).lower.getLastD [] := by
    have : i < (facetsAt m P k).length := by rw [(H.facets_eq hP hk).2]; exact hi
    rw [List.getD_eq_getElem _ _ this]; exact List.getElem_mem _
  obtain ⟨h1, h2⟩ := dimOK_of_inv H.inv _ hlt _ hmem
  rw [H.inv.pdfield _ h1, H.inv.pdfield _ hlt, hpd] at h2
  exact ⟨h1, h2⟩

theorem Hist.origin_of_node (H : Hist nc P S objs m) {G : ℕ} (hG : G < m.nodes.size)
    (hdim : (m.node G).obj.pardim + 1 = P) :
    ∃ a b, IsOrigin P objs m G a b ∧ (m.node G).owner = some ((m.nodesOf P).getD a 0) := by
  obtain ⟨a, b, ha, hb, hobj, hown, hmin⟩ := H.prov G hG hdim
  exact ⟨a, b, ⟨ha, hb, hobj, hmin⟩, hown⟩

theorem Hist.tops_nodup (H : Hist nc P S objs m) : (m.nodesOf P).Nodup := (nodesOf_spec H.inv P).1

theorem Hist.tops_ne (H : Hist nc P S objs m) {a k : ℕ} (ha : a < objs.length) (hk : k < objs.length)
    (hne : a ≠ k) : (m.nodesOf P).getD a 0 ≠ (m.nodesOf P).getD k 0 := by
  have ha' : a < (m.nodesOf P).length := by rw [H.tops_len]; exact ha
  have hk' : k < (m.nodesOf P).length := by rw [H.tops_len]; exact hk
  rw [List.getD_eq_getElem _ _ ha', List.getD_eq_getElem _ _ hk']
  exact fun he => hne ((H.tops_nodup.getElem_inj_iff).1 he)

/-- the pass of `assign_cp_numbers` over a top node that does not own `F` leaves the view of `F` -/
theorem Hist.topPass_frame (H : Hist nc P S objs m) (hP : 2 ≤ P) {F a k : ℕ} (hF : F < m.nodes.size)
    (hdim : (m.node F).obj.pardim + 1 = P) (ha : a < objs.length) (hk : k < objs.length) (hne : a ≠ k)
    (hown : (m.node F).owner = some ((m.nodesOf P).getD a 0)) (acc : Array (Option CpView)) :
    (assignViews (P + 1) m ((m.nodesOf P).getD k 0) ⟨k, []⟩ acc).getD F none = acc.getD F none := by
  obtain ⟨hlt, hpd⟩ := H.top_lt hk
  have hpdf : (m.node ((m.nodesOf P).getD k 0)).pardim = P := by rw [H.inv.pdfield _ hlt]; exact hpd
  have hFt : F ≠ (m.nodesOf P).getD k 0 := by rintro rfl; omega
  rw [assignViews_succ, hpdf, if_pos (by omega)]
  rw [childFold_frame (dimOK_of_inv H.inv) P _ _ F]
  · exact getD_set_ne _ _ _ _ hFt
  · intro cs hcs
    obtain ⟨h1, h2⟩ := dimOK_of_inv H.inv _ hlt _ (List.of_mem_zip hcs).1
    rw [H.inv.pdfield F hF]; omega
  · intro cs _ _
    rw [hown, H.top_owner k hk]
    have := H.tops_ne ha hk hne
    generalize (m.nodesOf P).getD a 0 = x at this ⊢
    generalize (m.nodesOf P).getD k 0 = y at this ⊢
    simp [this]

/-- … and the pass over the owner writes the section of the LAST facet that is `F` -/
theorem Hist.topPass_hit (H : Hist nc P S objs m) (hP : 2 ≤ P) {F a istar : ℕ} (hF : F < m.nodes.size)
    (hdim : (m.node F).obj.pardim + 1 = P) (ha : a < objs.length)
    (hi : istar < (sections P (P - 1)).length) (hFi : (facetsAt m P a).getD istar 0 = F)
    (hmax : ∀ j, j < (sections P (P - 1)).length → (facetsAt m P a).getD j 0 = F → j ≤ istar)
    (hown : (m.node F).owner = some ((m.nodesOf P).getD a 0)) (acc : Array (Option CpView))
    (hsz : acc.size = m.nodes.size) :
    (assignViews (P + 1) m ((m.nodesOf P).getD a 0) ⟨a, []⟩ acc).getD F none =
      some ⟨a, [(sections P (P - 1)).getD istar []]⟩ := by
  obtain ⟨hlt, hpd⟩ := H.top_lt ha
  have hpdf : (m.node ((m.nodesOf P).getD a 0)).pardim = P := by rw [H.inv.pdfield _ hlt]; exact hpd
  rw [assignViews_succ, hpdf, if_pos (by omega)]
  have hLdef : (m.node ((m.nodesOf P).getD a 0)).lower.getLastD [] = facetsAt m P a := rfl
  rw [hLdef]
  have hLlen := (H.facets_eq (by omega) ha).2
  have hiL : istar < (facetsAt m P a).length := by rw [hLlen]; exact hi
  have hZlen : (List.zip (facetsAt m P a) (sections P (P - 1))).length = (sections P (P - 1)).length := by
    simp [List.length_zip, hLlen]
  have hiZ : istar < (List.zip (facetsAt m P a) (sections P (P - 1))).length := by rw [hZlen]; exact hi
  have hZi : (List.zip (facetsAt m P a) (sections P (P - 1)))[istar] = (F, (sections P (P - 1)).getD istar []) := by
    rw [List.getElem_zip, List.getD_eq_getElem _ _ hi, ← hFi, List.getD_eq_getElem _ _ hiL]
  have hsplit : List.zip (facetsAt m P a) (sections P (P - 1)) =
      (List.zip (facetsAt m P a) (sections P (P - 1))).take istar ++
        (F, (sections P (P - 1)).getD istar []) ::
          (List.zip (facetsAt m P a) (sections P (P - 1))).drop (istar + 1) := by
    rw [← hZi, List.getElem_cons_drop, List.take_append_drop]
  rw [hsplit]
  rw [childFold_hit (dimOK_of_inv H.inv) P _ _ F _ _ _ (by omega)]
  · rfl
  · intro cs hcs
    obtain ⟨h1, h2⟩ := dimOK_of_inv H.inv _ hlt _ (List.of_mem_zip (List.mem_of_mem_drop hcs)).1
    rw [H.inv.pdfield F hF]; omega
  · intro cs hcs hcF
    obtain ⟨j, hj, hcj⟩ := List.mem_drop_iff_getElem.1 hcs
    rw [hZlen] at hj
    have hjL : istar + 1 + j < (facetsAt m P a).length := by rw [hLlen]; omega
    have : (facetsAt m P a).getD (istar + 1 + j) 0 = F := by
      rw [List.getD_eq_getElem _ _ hjL, ← hcF, ← hcj, List.getElem_zip]
    have := hmax _ (by omega) this
    omega
  · rw [hown]; simp
  · rw [Array.size_setIfInBounds, hsz]; exact hF

theorem row_getD (objs : List Obj) (k i : ℕ) (d : ℕ × ℕ) (hk : k < objs.length)
    (hi : i < (faceSecs (objs.getD k default)).length) :
    ((firstOccTable objs).getD k []).getD i d = firstOcc objs k i := by
  unfold firstOccTable
  have hi' : i < (faceSecs (objs[k]?.getD default)).length := by
    simpa [List.getD_eq_getElem?_getD] using hi
  simp [List.getD_eq_getElem?_getD, List.getElem?_map, List.getElem?_range hk, List.getElem?_range hi']

theorem row_length (objs : List Obj) (k : ℕ) (hk : k < objs.length) :
    ((firstOccTable objs).getD k []).length = (faceSecs (objs.getD k default)).length := by
  unfold firstOccTable
  simp [List.getD_eq_getElem?_getD, List.getElem?_map, List.getElem?_range hk]

/-- the views handed out by the first loop of `generate_cp_numbers` -/
def allViewsM (m : Model) (P : ℕ) : Array (Option CpView) :=
  (m.nodesOf P).zipIdx.foldl (fun acc (tk : ℕ × ℕ) =>
    assignViews (P + 1) m tk.1 ⟨tk.2, []⟩ acc) (Array.replicate m.nodes.size none)

/-- **(c) `assign_cp_numbers`**: the view of a face node is the array of its owner through the last
    section of the owner that shows it. -/
theorem Hist.view_of_origin (H : Hist nc P S objs m) (hP : 2 ≤ P) {F a b : ℕ} (hF : F < m.nodes.size)
    (hdim : (m.node F).obj.pardim + 1 = P) (ho : IsOrigin P objs m F a b)
    (hown : (m.node F).owner = some ((m.nodesOf P).getD a 0)) :
    (allViewsM m P).getD F none =
      some ⟨a, [(sections P (P - 1)).getD (lastSame (firstOccTable objs) a b) []]⟩ := by
  have hP1 : 1 ≤ P := by omega
  have ha := ho.1
  have hb := ho.2.1
  have hFab := H.node_of_origin hP1 hF ho
  have hsecs := H.faceSecs_len ha
  -- a facet of the owner is `F` iff its face was first seen at the origin
  have hiff : ∀ i', i' < (sections P (P - 1)).length →
      ((((firstOccTable objs).getD a []).getD i' (0, 0) == (a, b)) = true ↔
        (facetsAt m P a).getD i' 0 = F) := by
    intro i' hi'
    rw [row_getD objs a i' (0, 0) ha (by rw [hsecs]; exact hi'), beq_iff_eq]
    constructor
    · intro hfo
      obtain ⟨hG, hGd⟩ := H.facet_dim hP1 ha hi'
      obtain ⟨a', b', ho', _⟩ := H.origin_of_node hG hGd
      have h1 := (H.firstOcc_of_origin hP1 hG ho' ha hi' rfl).1
      rw [hfo] at h1
      obtain ⟨rfl, rfl⟩ := Prod.mk.inj h1
      rw [← H.node_of_origin hP1 hG ho', hFab]
    · intro hL
      exact (H.firstOcc_of_origin hP1 hF ho ha hi' hL).1
  have hlast : lastSame (firstOccTable objs) a b =
      ((List.range (sections P (P - 1)).length).filter
        (fun i' => ((firstOccTable objs).getD a []).getD i' (0, 0) == (a, b))).getLast?.getD b := by
    unfold lastSame
    simp only
    rw [row_length objs a ha, hsecs]
  obtain ⟨hs1, hs2, hs3⟩ := lastIdx_spec (sections P (P - 1)).length
    (fun i' => ((firstOccTable objs).getD a []).getD i' (0, 0) == (a, b)) b hb ((hiff b hb).2 hFab)
  rw [← hlast] at hs1 hs2 hs3
  have hFi := (hiff _ hs1).1 hs2
  have hmax : ∀ j, j < (sections P (P - 1)).length → (facetsAt m P a).getD j 0 = F →
      j ≤ lastSame (firstOccTable objs) a b := fun j hj hjF => hs3 j hj ((hiff j hj).2 hjF)
  unfold allViewsM
  have ha' : a < (m.nodesOf P).length := by rw [H.tops_len]; exact ha
  apply foldl_hit (fun acc : Array (Option CpView) => acc.size = m.nodes.size)
    (fun acc : Array (Option CpView) => acc.getD F none =
      some ⟨a, [(sections P (P - 1)).getD (lastSame (firstOccTable objs) a b) []]⟩)
    _ _ ?_ ((m.nodesOf P).getD a 0, a) ?_ ?_ _ (by simp)
  · rintro acc ⟨t, k⟩ hx hI
    have hx' := List.mem_zipIdx_iff_getElem?.1 hx
    simp only at hx'
    have hk' : k < (m.nodesOf P).length := by
      by_contra hh
      rw [List.getElem?_eq_none (by omega)] at hx'
      simp at hx'
    have hk : k < objs.length := by rw [← H.tops_len]; exact hk'
    have ht : t = (m.nodesOf P).getD k 0 := by
      rw [List.getD_eq_getElem?_getD, hx']; rfl
    refine ⟨by simp only; rw [assignViews_size]; exact hI, fun hG => ?_⟩
    simp only
    rw [ht]
    by_cases hak : a = k
    · subst hak
      exact H.topPass_hit hP hF hdim ha hs1 hFi hmax hown acc hI
    · rw [H.topPass_frame hP hF hdim ha hk hak hown]; exact hG
  · rw [List.mem_zipIdx_iff_getElem?]
    simp only
    rw [List.getD_eq_getElem _ _ ha', List.getElem?_eq_getElem ha']
  · intro acc hI
    exact H.topPass_hit hP hF hdim ha hs1 hFi hmax hown acc hI

end

end Splipy.MP.C18L
