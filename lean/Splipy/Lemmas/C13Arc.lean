import Mathlib.Tactic.Ring
import Mathlib.Algebra.Order.Ring.Abs
import Mathlib.Tactic.FieldSimp
import Mathlib.Tactic.Linarith
import Mathlib.Tactic.LinearCombination
import Mathlib.Tactic.Positivity
import Mathlib.Tactic.IntervalCases
import Splipy.Model.Factories

/-!
# Helper lemmas for C13: arcs (Bernstein form of the rational quadratic/quartic spans)
-/

namespace Splipy.Fac

variable {K : Type} [Field K] [LinearOrder K] [IsStrictOrderedRing K]

/-- quadratic Bernstein combination. -/
def bern2 (p0 p1 p2 t : K) : K := (1 - t) ^ 2 * p0 + 2 * t * (1 - t) * p1 + t ^ 2 * p2

/-- quartic Bernstein combination. -/
def bern4 (p0 p1 p2 p3 p4 t : K) : K :=
  (1 - t) ^ 4 * p0 + 4 * t * (1 - t) ^ 3 * p1 + 6 * t ^ 2 * (1 - t) ^ 2 * p2
    + 4 * t ^ 3 * (1 - t) * p3 + t ^ 4 * p4

/-- components of the `i`-th control point of `arcNet`. -/
def arcX (r cd sd : K) (i : ℕ) : K := r * (angleIter cd sd i).1
def arcY (r cd sd : K) (i : ℕ) : K := r * (angleIter cd sd i).2
def arcW (cd : K) (i : ℕ) : K := if i % 2 = 1 then cd else 1

omit [LinearOrder K] [IsStrictOrderedRing K] in
theorem angleIter_norm (cd sd : K) (h : cd ^ 2 + sd ^ 2 = 1) (i : ℕ) :
    (angleIter cd sd i).1 ^ 2 + (angleIter cd sd i).2 ^ 2 = 1 := by
  induction i with
  | zero => simp [angleIter]
  | succ n ih =>
    simp only [angleIter]
    linear_combination (cd ^ 2 + sd ^ 2) * ih + h

omit [LinearOrder K] [IsStrictOrderedRing K] in
/-- `angleIter` is a homomorphism: the angle of index `i + j` is the sum of the angles. -/
theorem angleIter_add (cd sd : K) (i j : ℕ) :
    angleIter cd sd (i + j) =
      ((angleIter cd sd i).1 * (angleIter cd sd j).1 - (angleIter cd sd i).2 * (angleIter cd sd j).2,
       (angleIter cd sd i).2 * (angleIter cd sd j).1 + (angleIter cd sd i).1 * (angleIter cd sd j).2) := by
  induction j with
  | zero => simp [angleIter]
  | succ n ih =>
    rw [← Nat.add_assoc]
    simp only [angleIter, ih]
    ext <;> simp <;> ring

omit [LinearOrder K] [IsStrictOrderedRing K] in
theorem arcNet_getElem? (r cd sd : K) (n i : ℕ) (hi : i < 2 * n + 1) :
    (arcNet r cd sd n)[i]? = some [arcX r cd sd i, arcY r cd sd i, arcW cd i] := by
  simp [arcNet, arcX, arcY, arcW, List.getElem?_map, List.getElem?_range hi]

omit [LinearOrder K] [IsStrictOrderedRing K] in
theorem arcNet_length (r cd sd : K) (n : ℕ) : (arcNet r cd sd n).length = 2 * n + 1 := by
  simp [arcNet]

omit [LinearOrder K] [IsStrictOrderedRing K] in
/-- The polynomial identity behind every circular arc span. -/
theorem arc_span_identity (r c0 s0 cd sd t : K) (h0 : c0 ^ 2 + s0 ^ 2 = 1) (hd : cd ^ 2 + sd ^ 2 = 1) :
    (bern2 (r * c0) (r * (c0 * cd - s0 * sd)) (r * ((c0 * cd - s0 * sd) * cd - (s0 * cd + c0 * sd) * sd)) t) ^ 2
    + (bern2 (r * s0) (r * (s0 * cd + c0 * sd)) (r * ((s0 * cd + c0 * sd) * cd + (c0 * cd - s0 * sd) * sd)) t) ^ 2
    = r ^ 2 * (bern2 1 cd 1 t) ^ 2 := by
  unfold bern2
  linear_combination
    (r ^ 2 * (cd ^ 2 * t ^ 2 - 2 * cd * t ^ 2 + 2 * cd * t + sd ^ 2 * t ^ 2 + t ^ 2 - 2 * t + 1) ^ 2) * h0
    + (r ^ 2 * t ^ 2 * (cd ^ 2 * t ^ 2 - 4 * cd * t ^ 2 + 4 * cd * t + sd ^ 2 * t ^ 2 + 3 * t ^ 2 - 4 * t + 2)) * hd

/-- the denominator of an arc span is positive on `[0,1]` when `cos dt > 0`. -/
theorem arc_weight_pos (cd t : K) (hcd : 0 < cd) (h0 : 0 ≤ t) (h1 : t ≤ 1) : 0 < bern2 1 cd 1 t := by
  unfold bern2
  have h2 : 0 ≤ 1 - t := by linarith
  have ha : 0 ≤ 2 * t * (1 - t) * cd := by positivity
  rcases le_or_gt t (1 / 2) with h | h
  · have : 0 < (1 - t) ^ 2 := by
      have : 0 < 1 - t := by linarith
      positivity
    nlinarith [sq_nonneg t]
  · have : 0 < t ^ 2 := by
      have : 0 < t := by linarith
      positivity
    nlinarith [sq_nonneg (1 - t)]

/-- Orientation: along a span with `sin dt > 0`, `cos dt > 0` the homogeneous position vectors
    turn counter-clockwise: `X(t)·Y(u) − Y(t)·X(u) > 0` for `0 ≤ t < u ≤ 1`. -/
theorem arc_span_ccw (r c0 s0 cd sd t u : K) (h0 : c0 ^ 2 + s0 ^ 2 = 1) (hd : cd ^ 2 + sd ^ 2 = 1)
    (hr : 0 < r) (hcd : 0 < cd) (hsd : 0 < sd) (ht : 0 ≤ t) (htu : t < u) (hu : u ≤ 1) :
    0 < bern2 (r * c0) (r * (c0 * cd - s0 * sd)) (r * ((c0 * cd - s0 * sd) * cd - (s0 * cd + c0 * sd) * sd)) t
        * bern2 (r * s0) (r * (s0 * cd + c0 * sd)) (r * ((s0 * cd + c0 * sd) * cd + (c0 * cd - s0 * sd) * sd)) u
      - bern2 (r * s0) (r * (s0 * cd + c0 * sd)) (r * ((s0 * cd + c0 * sd) * cd + (c0 * cd - s0 * sd) * sd)) t
        * bern2 (r * c0) (r * (c0 * cd - s0 * sd)) (r * ((c0 * cd - s0 * sd) * cd - (s0 * cd + c0 * sd) * sd)) u := by
  have key :
      bern2 (r * c0) (r * (c0 * cd - s0 * sd)) (r * ((c0 * cd - s0 * sd) * cd - (s0 * cd + c0 * sd) * sd)) t
        * bern2 (r * s0) (r * (s0 * cd + c0 * sd)) (r * ((s0 * cd + c0 * sd) * cd + (c0 * cd - s0 * sd) * sd)) u
      - bern2 (r * s0) (r * (s0 * cd + c0 * sd)) (r * ((s0 * cd + c0 * sd) * cd + (c0 * cd - s0 * sd) * sd)) t
        * bern2 (r * c0) (r * (c0 * cd - s0 * sd)) (r * ((c0 * cd - s0 * sd) * cd - (s0 * cd + c0 * sd) * sd)) u
      = r ^ 2 * (2 * sd * (u - t) * (((1 - t) * (1 - u) + t * u) + cd * (t * (1 - u) + u * (1 - t))))
          * (c0 ^ 2 + s0 ^ 2)
        + r ^ 2 * (2 * sd * (u - t) * (t * u)) * (c0 ^ 2 + s0 ^ 2) * (cd ^ 2 + sd ^ 2 - 1) := by
    unfold bern2; ring
  rw [key, h0, hd]
  have h1t : 0 ≤ 1 - t := by linarith
  have h1u : 0 ≤ 1 - u := by linarith
  have hu0 : 0 ≤ u := by linarith
  have hut : 0 < u - t := by linarith
  have hq : 0 < ((1 - t) * (1 - u) + t * u) + cd * (t * (1 - u) + u * (1 - t)) := by
    have e1 : 0 ≤ (1 - t) * (1 - u) := mul_nonneg h1t h1u
    have e2 : 0 ≤ t * u := mul_nonneg ht hu0
    have e3 : 0 ≤ t * (1 - u) := mul_nonneg ht h1u
    have e4 : 0 ≤ u * (1 - t) := mul_nonneg hu0 h1t
    have sum1 : (1 - t) * (1 - u) + t * u + (t * (1 - u) + u * (1 - t)) = 1 := by ring
    rcases lt_or_ge cd 1 with hc | hc
    · nlinarith
    · nlinarith
  have : 0 < r ^ 2 * (2 * sd * (u - t) * (((1 - t) * (1 - u) + t * u) + cd * (t * (1 - u) + u * (1 - t)))) := by
    positivity
  linarith

/-- first span of the `p4C1` circle in Bézier form (`s2 = √2`):
    `(1,0,1), (1,a,1), (b,b,w), (a,1,1), (0,1,1)`. -/
theorem p4_span_identity (s2 t : K) (h : s2 ^ 2 = 2) (hs : s2 ≠ 0) :
    (bern4 1 1 (1 / 6 * (4 * s2 - 1)) (1 / 2 / s2) 0 t) ^ 2
    + (bern4 0 (1 / 2 / s2) (1 / 6 * (4 * s2 - 1)) 1 1 t) ^ 2
    = (bern4 1 1 (2 * s2 / 3) 1 1 t) ^ 2 := by
  unfold bern4
  have hinv : 1 / 2 / s2 = s2 / 4 := by
    field_simp
    linear_combination (-2 : K) * h
  rw [hinv]
  linear_combination
    (2 * t ^ 8 - 8 * t ^ 7 + 8 * t ^ 6 + 4 * t ^ 5 - 9 * t ^ 4 + 2 * t ^ 3 + t ^ 2) * h

theorem bern2_at_ratio (p0 p1 p2 N D : K) (hD : D ≠ 0) :
    bern2 p0 p1 p2 (N / (2 * D)) = ((2 * D - N) ^ 2 * p0 + 2 * N * (2 * D - N) * p1 + N ^ 2 * p2) / (2 * D) ^ 2 := by
  unfold bern2; field_simp

theorem mid_frame_attains (cd sd cb sb : K) (hd : cd ^ 2 + sd ^ 2 = 1) (hb : cb ^ 2 + sb ^ 2 = 1)
    (hsd : sd ≠ 0) (hcb : 1 + cb ≠ 0) :
    bern2 cd 1 cd ((sd * (1 + cb) + sb * (1 + cd)) / (2 * (sd * (1 + cb))))
      = cb * bern2 1 cd 1 ((sd * (1 + cb) + sb * (1 + cd)) / (2 * (sd * (1 + cb)))) ∧
    bern2 (-sd) 0 sd ((sd * (1 + cb) + sb * (1 + cd)) / (2 * (sd * (1 + cb))))
      = sb * bern2 1 cd 1 ((sd * (1 + cb) + sb * (1 + cd)) / (2 * (sd * (1 + cb)))) := by
  have hD : sd * (1 + cb) ≠ 0 := mul_ne_zero hsd hcb
  have h2D : (2 * (sd * (1 + cb))) ^ 2 ≠ 0 := pow_ne_zero 2 (mul_ne_zero two_ne_zero hD)
  rw [bern2_at_ratio _ _ _ _ _ hD, bern2_at_ratio _ _ _ _ _ hD, bern2_at_ratio _ _ _ _ _ hD]
  constructor
  · rw [← mul_div_assoc, div_left_inj' h2D]
    linear_combination (2 * sb ^ 2 * (cb + 1) * (cd + 1)) * hd + (-2 * sd ^ 2 * (cb + 1) * (cd + 1)) * hb
  · rw [← mul_div_assoc, div_left_inj' h2D]
    linear_combination (2 * sb ^ 3 * (cd + 1)) * hd + (-2 * sb * sd ^ 2 * (cd + 1)) * hb

/-- **Every direction within a span is attained, at an explicit parameter.**  Span with start angle
`(c0, s0)`, half-angle `(cd, sd)`, mid direction `(cm, sm)`; target direction `(c1, s1)`;
`(cb, sb)` = the target relative to the mid direction.  With
`u = 1/2 + (sb/(1+cb)) / (sd/(1+cd)) / 2` (half-angle tangents!) the homogeneous span point is
`r·(c1, s1)·W(u)`; `u ∈ [0,1]` as soon as `cos β ≥ cos dt`. -/
theorem arc_span_attains (r c0 s0 cd sd c1 s1 : K) (h0 : c0 ^ 2 + s0 ^ 2 = 1) (hd : cd ^ 2 + sd ^ 2 = 1)
    (h1 : c1 ^ 2 + s1 ^ 2 = 1) (hsd : sd ≠ 0)
    (hcb : 1 + (c1 * (c0 * cd - s0 * sd) + s1 * (s0 * cd + c0 * sd)) ≠ 0) :
    let cm := c0 * cd - s0 * sd
    let sm := s0 * cd + c0 * sd
    let cb := c1 * cm + s1 * sm
    let sb := s1 * cm - c1 * sm
    let u := (sd * (1 + cb) + sb * (1 + cd)) / (2 * (sd * (1 + cb)))
    bern2 (r * c0) (r * cm) (r * (cm * cd - sm * sd)) u = r * c1 * bern2 1 cd 1 u ∧
    bern2 (r * s0) (r * sm) (r * (sm * cd + cm * sd)) u = r * s1 * bern2 1 cd 1 u ∧
    (0 < sd → -1 < cd → cd ≤ cb → 0 ≤ u ∧ u ≤ 1) := by
  intro cm sm cb sb u
  have hm : cm ^ 2 + sm ^ 2 = 1 := by
    simp only [cm, sm]; linear_combination (cd ^ 2 + sd ^ 2) * h0 + hd
  have hb : cb ^ 2 + sb ^ 2 = 1 := by
    simp only [cb, sb]; linear_combination (cm ^ 2 + sm ^ 2) * h1 + hm
  obtain ⟨eX, eY⟩ := mid_frame_attains cd sd cb sb hd hb hsd hcb
  change bern2 cd 1 cd u = cb * bern2 1 cd 1 u at eX
  change bern2 (-sd) 0 sd u = sb * bern2 1 cd 1 u at eY
  have lX : bern2 (r * c0) (r * cm) (r * (cm * cd - sm * sd)) u
      = r * (cm * bern2 cd 1 cd u - sm * bern2 (-sd) 0 sd u) := by
    simp only [bern2, cm, sm]; linear_combination (-(r * (1 - u) ^ 2 * c0)) * hd
  have lY : bern2 (r * s0) (r * sm) (r * (sm * cd + cm * sd)) u
      = r * (sm * bern2 cd 1 cd u + cm * bern2 (-sd) 0 sd u) := by
    simp only [bern2, cm, sm]; linear_combination (-(r * (1 - u) ^ 2 * s0)) * hd
  refine ⟨?_, ?_, ?_⟩
  · rw [lX, eX, eY]
    simp only [cb, sb]
    linear_combination (r * c1 * bern2 1 cd 1 u) * hm
  · rw [lY, eX, eY]
    simp only [cb, sb]
    linear_combination (r * s1 * bern2 1 cd 1 u) * hm
  · intro hsd0 hcd hle
    have hcbpos : 0 < 1 + cb := by linarith
    have hD : 0 < sd * (1 + cb) := mul_pos hsd0 hcbpos
    have hsq : (sb * (1 + cd)) ^ 2 ≤ (sd * (1 + cb)) ^ 2 := by
      have e1 : (sb * (1 + cd)) ^ 2 = (1 - cb) * (1 + cb) * (1 + cd) ^ 2 := by
        have : sb ^ 2 = (1 - cb) * (1 + cb) := by linear_combination hb
        rw [mul_pow, this]
      have e2 : (sd * (1 + cb)) ^ 2 = (1 - cd) * (1 + cd) * (1 + cb) ^ 2 := by
        have : sd ^ 2 = (1 - cd) * (1 + cd) := by linear_combination hd
        rw [mul_pow, this]
      rw [e1, e2]
      have hcdpos : 0 < 1 + cd := by linarith
      have : 0 ≤ (1 + cb) * (1 + cd) * (2 * (cb - cd)) :=
        mul_nonneg (mul_nonneg (le_of_lt hcbpos) (le_of_lt hcdpos)) (by linarith)
      have key : (1 - cd) * (1 + cd) * (1 + cb) ^ 2 - (1 - cb) * (1 + cb) * (1 + cd) ^ 2
          = (1 + cb) * (1 + cd) * (2 * (cb - cd)) := by ring
      linarith
    obtain ⟨hlo, hhi⟩ := abs_le_of_sq_le_sq' hsq (le_of_lt hD)
    have h2D : 0 < 2 * (sd * (1 + cb)) := by linarith
    constructor
    · apply div_nonneg _ (le_of_lt h2D); linarith
    · rw [div_le_one h2D]; linarith

end Splipy.Fac
