import Mathlib.Tactic.Ring
import Mathlib.Tactic.FieldSimp
import Mathlib.Tactic.Linarith
import Mathlib.Tactic.LinearCombination
import Mathlib.Tactic.Positivity
import Mathlib.Tactic.IntervalCases
import Splipy.Model.Factories

/-!
# Helper lemmas for C13: arcs (Bernstein form of the rational quadratic/quartic spans)
-/

namespace Splipy.Fac

variable {K : Type} [Field K] [LinearOrder K] [IsStrictOrderedRing K]

/-- quadratic Bernstein combination. -/
def bern2 (p0 p1 p2 t : K) : K := (1 - t) ^ 2 * p0 + 2 * t * (1 - t) * p1 + t ^ 2 * p2

/-- quartic Bernstein combination. -/
def bern4 (p0 p1 p2 p3 p4 t : K) : K :=
  (1 - t) ^ 4 * p0 + 4 * t * (1 - t) ^ 3 * p1 + 6 * t ^ 2 * (1 - t) ^ 2 * p2
    + 4 * t ^ 3 * (1 - t) * p3 + t ^ 4 * p4

/-- components of the `i`-th control point of `arcNet`. -/
def arcX (r cd sd : K) (i : ℕ) : K := r * (angleIter cd sd i).1
def arcY (r cd sd : K) (i : ℕ) : K := r * (angleIter cd sd i).2
def arcW (cd : K) (i : ℕ) : K := if i % 2 = 1 then cd else 1

omit [LinearOrder K] [IsStrictOrderedRing K] in
theorem angleIter_norm (cd sd : K) (h : cd ^ 2 + sd ^ 2 = 1) (i : ℕ) :
    (angleIter cd sd i).1 ^ 2 + (angleIter cd sd i).2 ^ 2 = 1 := by
  induction i with
  | zero => simp [angleIter]
  | succ n ih =>
    simp only [angleIter]
    linear_combination (cd ^ 2 + sd ^ 2) * ih + h

omit [LinearOrder K] [IsStrictOrderedRing K] in
/-- `angleIter` is a homomorphism: the angle of index `i + j` is the sum of the angles. -/
theorem angleIter_add (cd sd : K) (i j : ℕ) :
    angleIter cd sd (i + j) =
      ((angleIter cd sd i).1 * (angleIter cd sd j).1 - (angleIter cd sd i).2 * (angleIter cd sd j).2,
       (angleIter cd sd i).2 * (angleIter cd sd j).1 + (angleIter cd sd i).1 * (angleIter cd sd j).2) := by
  induction j with
  | zero => simp [angleIter]
  | succ n ih =>
    rw [← Nat.add_assoc]
    simp only [angleIter, ih]
    ext <;> simp <;> ring

omit [LinearOrder K] [IsStrictOrderedRing K] in
theorem arcNet_getElem? (r cd sd : K) (n i : ℕ) (hi : i < 2 * n + 1) :
    (arcNet r cd sd n)[i]? = some [arcX r cd sd i, arcY r cd sd i, arcW cd i] := by
  simp [arcNet, arcX, arcY, arcW, List.getElem?_map, List.getElem?_range hi]

omit [LinearOrder K] [IsStrictOrderedRing K] in
theorem arcNet_length (r cd sd : K) (n : ℕ) : (arcNet r cd sd n).length = 2 * n + 1 := by
  simp [arcNet]

omit [LinearOrder K] [IsStrictOrderedRing K] in
/-- The polynomial identity behind every circular arc span. -/
theorem arc_span_identity (r c0 s0 cd sd t : K) (h0 : c0 ^ 2 + s0 ^ 2 = 1) (hd : cd ^ 2 + sd ^ 2 = 1) :
    (bern2 (r * c0) (r * (c0 * cd - s0 * sd)) (r * ((c0 * cd - s0 * sd) * cd - (s0 * cd + c0 * sd) * sd)) t) ^ 2
    + (bern2 (r * s0) (r * (s0 * cd + c0 * sd)) (r * ((s0 * cd + c0 * sd) * cd + (c0 * cd - s0 * sd) * sd)) t) ^ 2
    = r ^ 2 * (bern2 1 cd 1 t) ^ 2 := by
  unfold bern2
  linear_combination
    (r ^ 2 * (cd ^ 2 * t ^ 2 - 2 * cd * t ^ 2 + 2 * cd * t + sd ^ 2 * t ^ 2 + t ^ 2 - 2 * t + 1) ^ 2) * h0
    + (r ^ 2 * t ^ 2 * (cd ^ 2 * t ^ 2 - 4 * cd * t ^ 2 + 4 * cd * t + sd ^ 2 * t ^ 2 + 3 * t ^ 2 - 4 * t + 2)) * hd

/-- the denominator of an arc span is positive on `[0,1]` when `cos dt > 0`. -/
theorem arc_weight_pos (cd t : K) (hcd : 0 < cd) (h0 : 0 ≤ t) (h1 : t ≤ 1) : 0 < bern2 1 cd 1 t := by
  unfold bern2
  have h2 : 0 ≤ 1 - t := by linarith
  have ha : 0 ≤ 2 * t * (1 - t) * cd := by positivity
  rcases le_or_gt t (1 / 2) with h | h
  · have : 0 < (1 - t) ^ 2 := by
      have : 0 < 1 - t := by linarith
      positivity
    nlinarith [sq_nonneg t]
  · have : 0 < t ^ 2 := by
      have : 0 < t := by linarith
      positivity
    nlinarith [sq_nonneg (1 - t)]

/-- Orientation: along a span with `sin dt > 0`, `cos dt > 0` the homogeneous position vectors
    turn counter-clockwise: `X(t)·Y(u) − Y(t)·X(u) > 0` for `0 ≤ t < u ≤ 1`. -/
theorem arc_span_ccw (r c0 s0 cd sd t u : K) (h0 : c0 ^ 2 + s0 ^ 2 = 1) (hd : cd ^ 2 + sd ^ 2 = 1)
    (hr : 0 < r) (hcd : 0 < cd) (hsd : 0 < sd) (ht : 0 ≤ t) (htu : t < u) (hu : u ≤ 1) :
    0 < bern2 (r * c0) (r * (c0 * cd - s0 * sd)) (r * ((c0 * cd - s0 * sd) * cd - (s0 * cd + c0 * sd) * sd)) t
        * bern2 (r * s0) (r * (s0 * cd + c0 * sd)) (r * ((s0 * cd + c0 * sd) * cd + (c0 * cd - s0 * sd) * sd)) u
      - bern2 (r * s0) (r * (s0 * cd + c0 * sd)) (r * ((s0 * cd + c0 * sd) * cd + (c0 * cd - s0 * sd) * sd)) t
        * bern2 (r * c0) (r * (c0 * cd - s0 * sd)) (r * ((c0 * cd - s0 * sd) * cd - (s0 * cd + c0 * sd) * sd)) u := by
  have key :
      bern2 (r * c0) (r * (c0 * cd - s0 * sd)) (r * ((c0 * cd - s0 * sd) * cd - (s0 * cd + c0 * sd) * sd)) t
        * bern2 (r * s0) (r * (s0 * cd + c0 * sd)) (r * ((s0 * cd + c0 * sd) * cd + (c0 * cd - s0 * sd) * sd)) u
      - bern2 (r * s0) (r * (s0 * cd + c0 * sd)) (r * ((s0 * cd + c0 * sd) * cd + (c0 * cd - s0 * sd) * sd)) t
        * bern2 (r * c0) (r * (c0 * cd - s0 * sd)) (r * ((c0 * cd - s0 * sd) * cd - (s0 * cd + c0 * sd) * sd)) u
      = r ^ 2 * (2 * sd * (u - t) * (((1 - t) * (1 - u) + t * u) + cd * (t * (1 - u) + u * (1 - t))))
          * (c0 ^ 2 + s0 ^ 2)
        + r ^ 2 * (2 * sd * (u - t) * (t * u)) * (c0 ^ 2 + s0 ^ 2) * (cd ^ 2 + sd ^ 2 - 1) := by
    unfold bern2; ring
  rw [key, h0, hd]
  have h1t : 0 ≤ 1 - t := by linarith
  have h1u : 0 ≤ 1 - u := by linarith
  have hu0 : 0 ≤ u := by linarith
  have hut : 0 < u - t := by linarith
  have hq : 0 < ((1 - t) * (1 - u) + t * u) + cd * (t * (1 - u) + u * (1 - t)) := by
    have e1 : 0 ≤ (1 - t) * (1 - u) := mul_nonneg h1t h1u
    have e2 : 0 ≤ t * u := mul_nonneg ht hu0
    have e3 : 0 ≤ t * (1 - u) := mul_nonneg ht h1u
    have e4 : 0 ≤ u * (1 - t) := mul_nonneg hu0 h1t
    have sum1 : (1 - t) * (1 - u) + t * u + (t * (1 - u) + u * (1 - t)) = 1 := by ring
    rcases lt_or_ge cd 1 with hc | hc
    · nlinarith
    · nlinarith
  have : 0 < r ^ 2 * (2 * sd * (u - t) * (((1 - t) * (1 - u) + t * u) + cd * (t * (1 - u) + u * (1 - t)))) := by
    positivity
  linarith

/-- first span of the `p4C1` circle in Bézier form (`s2 = √2`):
    `(1,0,1), (1,a,1), (b,b,w), (a,1,1), (0,1,1)`. -/
theorem p4_span_identity (s2 t : K) (h : s2 ^ 2 = 2) (hs : s2 ≠ 0) :
    (bern4 1 1 (1 / 6 * (4 * s2 - 1)) (1 / 2 / s2) 0 t) ^ 2
    + (bern4 0 (1 / 2 / s2) (1 / 6 * (4 * s2 - 1)) 1 1 t) ^ 2
    = (bern4 1 1 (2 * s2 / 3) 1 1 t) ^ 2 := by
  unfold bern4
  have hinv : 1 / 2 / s2 = s2 / 4 := by
    field_simp
    linear_combination (-2 : K) * h
  rw [hinv]
  linear_combination
    (2 * t ^ 8 - 8 * t ^ 7 + 8 * t ^ 6 + 4 * t ^ 5 - 9 * t ^ 4 + 2 * t ^ 3 + t ^ 2) * h

end Splipy.Fac
