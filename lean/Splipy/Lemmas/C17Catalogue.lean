import Std.Data.HashMap.Lemmas
import Mathlib.Data.List.Dedup
import Mathlib.Data.List.Nodup
import Splipy.Lemmas.C17Group
import Splipy.Lemmas.C17Compute
import Splipy.Model.Catalogue

/-! Lemmas for C17: the catalogue files a node under every permutation of its codimension-1
nodes, and finds it again from any of them. -/

namespace Splipy.MP

/-! ### `pyPermutations` of a duplicate-free list is duplicate-free -/

theorem picks_fst {α : Type} (l : List α) : (picks l).map (·.1) = l := by
  induction l with
  | nil => rfl
  | cons x xs ih =>
    simp only [picks, List.map_cons, List.map_map]
    have : ((fun p : α × List α => p.1) ∘ fun p : α × List α => (p.1, x :: p.2)) =
        fun p : α × List α => p.1 := rfl
    rw [this, ih]

theorem nodup_permsAux {α : Type} (n : ℕ) (l : List α) (hl : l.length = n) (hn : l.Nodup) :
    (permsAux n l).Nodup := by
  induction n generalizing l with
  | zero => simp [permsAux]
  | succ n ih =>
    simp only [permsAux]
    rw [List.nodup_flatMap]
    constructor
    · rintro ⟨x, rest⟩ hp
      have hperm := picks_perm hp
      have hr : rest.length = n := by have := hperm.length_eq; simp [hl] at this; omega
      have hrn : rest.Nodup := ((hperm.nodup_iff.1 hn).of_cons)
      exact (ih rest hr hrn).map (fun a b h => by simpa using h)
    · have hfst : ((picks l).map (·.1)).Nodup := by rw [picks_fst]; exact hn
      have hpw := List.Nodup.pairwise_of_forall_ne (l := picks l)
        (r := fun p q => p.1 ≠ q.1) ?_ ?_
      · refine hpw.imp ?_
        intro p q hne
        simp only [Function.onFun, List.disjoint_left, List.mem_map]
        rintro a ⟨u, _, rfl⟩ ⟨v, _, hv⟩
        simp at hv
        exact hne hv.1.symm
      · exact (List.Nodup.of_map _ hfst)
      · intro p hp q hq hpq h
        exact hpq ((List.inj_on_of_nodup_map hfst) hp hq h)

theorem nodup_pyPermutations {α : Type} (l : List α) (hn : l.Nodup) : (pyPermutations l).Nodup :=
  nodup_permsAux l.length l rfl hn

theorem mem_permKeys (key p : List ℕ) : p ∈ Model.permKeys key ↔ p.Perm key := by
  unfold Model.permKeys
  split <;> simp [mem_pyPermutations]

theorem nodup_permKeys (key : List ℕ) : (Model.permKeys key).Nodup := by
  unfold Model.permKeys
  split
  · next h => exact nodup_pyPermutations key h
  · exact List.nodup_dedup _

/-! ### `internal.setdefault(p, []).append(node)` -/

theorem Level.get_setdefaultAppend (lv : Level) (p q : List ℕ) (id : ℕ) :
    (lv.setdefaultAppend p id).get q = if p = q then lv.get p ++ [id] else lv.get q := by
  unfold Level.setdefaultAppend Level.get
  cases h : lv.map[p]? with
  | none =>
    simp only [Std.HashMap.getElem?_insert, beq_iff_eq]
    split <;> simp_all
  | some v =>
    simp only [Std.HashMap.getElem?_insert, beq_iff_eq]
    split <;> simp_all

theorem Level.get_foldl_not_mem (ks : List (List ℕ)) (lv : Level) (id : ℕ) (q : List ℕ)
    (hq : q ∉ ks) : (ks.foldl (fun lv p => lv.setdefaultAppend p id) lv).get q = lv.get q := by
  induction ks generalizing lv with
  | nil => rfl
  | cons k ks ih =>
    simp only [List.foldl_cons]
    rw [ih _ (fun h => hq (List.mem_cons_of_mem _ h)), Level.get_setdefaultAppend]
    have : k ≠ q := fun h => hq (by simp [h])
    simp [this]

theorem Level.get_foldl_mem (ks : List (List ℕ)) (hn : ks.Nodup) (lv : Level) (id : ℕ) (q : List ℕ)
    (hq : q ∈ ks) :
    (ks.foldl (fun lv p => lv.setdefaultAppend p id) lv).get q = lv.get q ++ [id] := by
  induction ks generalizing lv with
  | nil => simp at hq
  | cons k ks ih =>
    simp only [List.foldl_cons]
    rw [List.nodup_cons] at hn
    rcases List.mem_cons.1 hq with rfl | h
    · rw [Level.get_foldl_not_mem _ _ _ _ hn.1, Level.get_setdefaultAppend]; simp
    · rw [ih hn.2 _ h, Level.get_setdefaultAppend]
      have : k ≠ q := fun e => hn.1 (e ▸ h)
      simp [this]

end Splipy.MP

namespace Splipy.MP

/-! ### operations on nodes keep the objects, the levels and the vertex dictionary -/

/-- `m'` differs from `m` only in the `higher`/`owner` links of nodes -/
structure SameObjs (m m' : Model) : Prop where
  levels : m'.levels = m.levels
  size : m'.nodes.size = m.nodes.size
  obj : ∀ k, (m'.node k).obj = (m.node k).obj

theorem SameObjs.refl (m : Model) : SameObjs m m := ⟨rfl, rfl, fun _ => rfl⟩

theorem SameObjs.trans {a b c : Model} (h1 : SameObjs a b) (h2 : SameObjs b c) : SameObjs a c :=
  ⟨h2.levels.trans h1.levels, h2.size.trans h1.size, fun k => (h2.obj k).trans (h1.obj k)⟩

theorem SameObjs.modifyNode (m : Model) (i : ℕ) (f : TNode → TNode) (hf : ∀ n, (f n).obj = n.obj) :
    SameObjs m (m.modifyNode i f) := by
  refine ⟨rfl, by simp [Model.modifyNode], fun k => ?_⟩
  simp only [Model.node, Model.modifyNode, Array.getD_eq_getD_getElem?, Array.getElem?_modify]
  by_cases hik : i = k
  · subst hik
    cases h : m.nodes[i]? with
    | none => simp
    | some n => simp [hf]
  · simp [hik]

theorem SameObjs.foldl {α : Type} (l : List α) (step : Model → α → Model)
    (hstep : ∀ m x, SameObjs m (step m x)) (m : Model) : SameObjs m (l.foldl step m) := by
  induction l generalizing m with
  | nil => exact SameObjs.refl m
  | cons x xs ih => exact (hstep m x).trans (ih (step m x))

theorem SameObjs.transferOwnership (fuel : ℕ) (m : Model) (self newOwner : ℕ) :
    SameObjs m (Model.transferOwnership fuel m self newOwner) := by
  induction fuel generalizing m self with
  | zero => exact SameObjs.refl m
  | succ fuel ih =>
    simp only [Model.transferOwnership]
    have h1 := SameObjs.modifyNode m self (fun n => { n with owner := some newOwner }) (fun _ => rfl)
    split
    · refine h1.trans (SameObjs.foldl _ _ (fun m' child => ?_) _)
      split
      · exact ih m' child
      · exact SameObjs.refl m'
    · exact h1

theorem Model.newNode_spec (m : Model) (obj : Obj) (lower : List (List ℕ)) (index : ℕ) :
    (m.newNode obj lower index).2 = m.nodes.size ∧
    (m.newNode obj lower index).1.levels = m.levels ∧
    ((m.newNode obj lower index).1.node m.nodes.size).obj = obj ∧
    ∀ k, k < m.nodes.size → ((m.newNode obj lower index).1.node k).obj = (m.node k).obj := by
  -- the model right after the push
  let nd : TNode := { pardim := obj.pardim, obj := obj, lower := lower, higher := [], owner := none, index := index }
  let m0 : Model := { m with nodes := m.nodes.push nd }
  have h0 : ∀ m1, SameObjs m0 m1 →
      m1.levels = m.levels ∧ (m1.node m.nodes.size).obj = obj ∧
      ∀ k, k < m.nodes.size → (m1.node k).obj = (m.node k).obj := by
    intro m1 h
    refine ⟨h.levels, ?_, fun k hk => ?_⟩
    · rw [h.obj]; simp [m0, Model.node, nd]
    · rw [h.obj]; simp [m0, Model.node, Array.getD_eq_getD_getElem?, Array.getElem?_push, hk, Nat.ne_of_lt hk]
  have key : SameObjs m0 (m.newNode obj lower index).1 := by
    unfold Model.newNode
    dsimp only
    split
    · refine SameObjs.trans (SameObjs.foldl _ _ ?_ _) (SameObjs.foldl _ _ ?_ _)
      · intro m' dn
        refine SameObjs.foldl _ _ ?_ _
        intro m'' k
        exact SameObjs.modifyNode _ _ _ (fun _ => rfl)
      · intro m' k
        split
        · exact SameObjs.transferOwnership _ _ _ _
        · exact SameObjs.refl _
    · refine SameObjs.foldl _ _ ?_ _
      intro m' dn
      refine SameObjs.foldl _ _ ?_ _
      intro m'' k
      exact SameObjs.modifyNode _ _ _ (fun _ => rfl)
  exact ⟨rfl, h0 _ key⟩

theorem Model.level_modifyLevel (m : Model) (d : ℕ) (f : Level → Level) (hd : d < m.levels.size) :
    (m.modifyLevel d f).level d = f (m.level d) := by
  simp [Model.level, Model.modifyLevel, Array.getD_eq_getD_getElem?, hd, Array.getElem_modify]

theorem Model.node_modifyLevel (m : Model) (d : ℕ) (f : Level → Level) (k : ℕ) :
    (m.modifyLevel d f).node k = m.node k := rfl

/-- `_add`: the new node is the next id, carries the object, and is filed under exactly the
    permutations of its codimension-1 nodes (appended to whatever was filed there). -/
theorem Model.addNode_spec (m : Model) (obj : Obj) (lower : List (List ℕ))
    (hpd : obj.pardim < m.levels.size) :
    (m.addNode obj lower).2.1 = m.nodes.size ∧
    (m.addNode obj lower).2.2 = Orientation.identity obj.pardim ∧
    ((m.addNode obj lower).1.node m.nodes.size).obj = obj ∧
    (∀ k, k < m.nodes.size → ((m.addNode obj lower).1.node k).obj = (m.node k).obj) ∧
    ∀ q, ((m.addNode obj lower).1.level obj.pardim).get q =
      if q.Perm (lower.getLastD []) then (m.level obj.pardim).get q ++ [m.nodes.size]
      else (m.level obj.pardim).get q := by
  obtain ⟨h1, h2, h3, h4⟩ := Model.newNode_spec m obj lower (m.level obj.pardim).count
  unfold Model.addNode
  dsimp only
  refine ⟨h1, rfl, ?_, ?_, ?_⟩
  · rw [Model.node_modifyLevel]; exact h3
  · intro k hk; rw [Model.node_modifyLevel]; exact h4 k hk
  · intro q
    have hsz : obj.pardim < (m.newNode obj lower (m.level obj.pardim).count).1.levels.size := by
      rw [h2]; exact hpd
    rw [Model.level_modifyLevel _ _ _ hsz, h1]
    have hlv : (m.newNode obj lower (m.level obj.pardim).count).1.level obj.pardim = m.level obj.pardim := by
      exact congrArg (fun l : Array Level => l.getD obj.pardim {}) h2
    rw [hlv]
    by_cases hq : q.Perm (lower.getLastD [])
    · rw [if_pos hq, Level.get_foldl_mem _ (nodup_permKeys _) _ _ _ ((mem_permKeys _ _).2 hq)]
      rfl
    · rw [if_neg hq, Level.get_foldl_not_mem _ _ _ _ (fun h => hq ((mem_permKeys _ _).1 h))]
      rfl

theorem Model.firstView_append_single (m : Model) (obj : Obj) (cs : List ℕ) (c : ℕ) (o : Orientation)
    (hcs : ∀ k ∈ cs, ∀ o', Orientation.compute (m.node k).obj obj ≠ .ok o')
    (hc : Orientation.compute (m.node c).obj obj = .ok o) :
    m.firstView obj (cs ++ [c]) = some (c, o) := by
  induction cs with
  | nil => simp [Model.firstView, hc]
  | cons k ks ih =>
    simp only [List.cons_append, Model.firstView]
    cases h : Orientation.compute (m.node k).obj obj with
    | ok o' => exact absurd h (hcs k (by simp) o')
    | error e => exact ih (fun k' hk' => hcs k' (by simp [hk']))

/-- **Lookup after add, at one catalogue level.**  After `_add(obj, lower)` in any model state
    `m`, `resolve` (the part of `lookup` that follows the computation of the lower nodes) of any
    object `obj'` that `Orientation.compute` matches to `obj`, arriving with ANY permutation
    `lower'` of the stored codimension-1 nodes, returns the node just added with the orientation
    `compute obj obj'` — provided the candidates filed earlier under that key (twins) do not
    match `obj'`, and twins are tolerated if there are any. -/
theorem Model.resolve_after_addNode (m : Model) (obj obj' : Obj) (lower lower' : List (List ℕ))
    (o : Orientation) (add : Bool) (twins : List ℕ)
    (hpd : obj.pardim < m.levels.size) (hpd' : obj'.pardim = obj.pardim)
    (hperm : (lower'.getLastD []).Perm (lower.getLastD []))
    (hc : Orientation.compute obj obj' = .ok o)
    (hsize : ∀ k ∈ (m.level obj.pardim).get (lower'.getLastD []), k < m.nodes.size)
    (hold : ∀ k ∈ (m.level obj.pardim).get (lower'.getLastD []), ∀ o',
      Orientation.compute (m.node k).obj obj' ≠ .ok o')
    (htw : (m.level obj.pardim).get (lower'.getLastD []) ≠ [] → twins.contains obj.pardim = false) :
    (m.addNode obj lower).1.resolve obj' lower' add twins =
      .ok ((m.addNode obj lower).1, m.nodes.size, o) := by
  obtain ⟨_, _, h3, h4, h5⟩ := Model.addNode_spec m obj lower hpd
  have hcand := h5 (lower'.getLastD [])
  rw [if_pos hperm] at hcand
  have hnew : Orientation.compute ((m.addNode obj lower).1.node m.nodes.size).obj obj' = .ok o := by
    rw [h3]; exact hc
  have hold' : ∀ k ∈ (m.level obj.pardim).get (lower'.getLastD []), ∀ o',
      Orientation.compute ((m.addNode obj lower).1.node k).obj obj' ≠ .ok o' := by
    intro k hk o'; rw [h4 k (hsize k hk)]; exact hold k hk o'
  unfold Model.resolve
  dsimp only
  rw [hpd', hcand]
  cases hcs : (m.level obj.pardim).get (lower'.getLastD []) with
  | nil =>
    simp only [List.nil_append]
    rw [hnew]
  | cons c cs =>
    have htw' := htw (by rw [hcs]; simp)
    rw [hcs] at hold'
    have hfv := Model.firstView_append_single (m.addNode obj lower).1 obj' (c :: cs) m.nodes.size o hold' hnew
    obtain ⟨d, ds, hds⟩ : ∃ d ds, cs ++ [m.nodes.size] = d :: ds := by
      cases cs with
      | nil => exact ⟨_, _, rfl⟩
      | cons x xs => exact ⟨_, _, rfl⟩
    simp only [List.cons_append] at hfv ⊢
    rw [hds] at hfv ⊢
    simp only [htw', Bool.false_eq_true, if_false, hfv]

/-! ### vertices -/

/-- the `VertexDict` key of a point object (`cps[..., :-1]` when rational) -/
def pointKey (obj : Obj) : List ℚ :=
  if obj.rational then (obj.cps.data.getD 0 []).dropLast else obj.cps.data.getD 0 []

theorem Model.newNode_verts (m : Model) (obj : Obj) (lower : List (List ℕ)) (index : ℕ) :
    (m.newNode obj lower index).1.verts = m.verts := by
  -- `verts` is not touched by any of the node operations
  have hfold : ∀ {α : Type} (l : List α) (step : Model → α → Model)
      (_ : ∀ m' x, (step m' x).verts = m'.verts) (m' : Model), (l.foldl step m').verts = m'.verts := by
    intro α l step hstep m'
    induction l generalizing m' with
    | nil => rfl
    | cons x xs ih => simp only [List.foldl_cons]; rw [ih, hstep]
  have htr : ∀ (fuel : ℕ) (m' : Model) (a b : ℕ), (Model.transferOwnership fuel m' a b).verts = m'.verts := by
    intro fuel
    induction fuel with
    | zero => intro m' a b; rfl
    | succ fuel ih =>
      intro m' a b
      simp only [Model.transferOwnership]
      split
      · rw [hfold]
        · rfl
        · intro m'' x; split
          · exact ih _ _ _
          · rfl
      · rfl
  unfold Model.newNode
  dsimp only
  split
  · refine (hfold _ _ ?_ _).trans ((hfold _ _ ?_ _).trans rfl)
    · intro m' x
      split
      · exact htr _ _ _ _
      · rfl
    · intro m' x
      refine hfold _ _ ?_ _
      intro m'' k; rfl
  · refine (hfold _ _ ?_ _).trans rfl
    intro m' x
    refine hfold _ _ ?_ _
    intro m'' k; rfl

/-- **Vertices are canonical** (exact keys): after `lookup(point, add=True)` in any state, a
    lookup (with or without `add`) of any point object with the same key returns the same node. -/
theorem Model.lookupPoint_after_add (m m1 : Model) (obj obj' : Obj) (id : ℕ) (o : Orientation)
    (hkey : pointKey obj' = pointKey obj)
    (h : m.lookupPoint obj true = .ok (m1, id, o)) (add : Bool) :
    ∃ m2, m1.lookupPoint obj' add = .ok (m2, id, Orientation.identity 0) ∧ m2.verts = m1.verts := by
  unfold Model.lookupPoint at h
  simp only [if_true] at h
  have hk : (if obj.rational then (obj.cps.data.getD 0 []).dropLast else obj.cps.data.getD 0 []) = pointKey obj := rfl
  rw [hk] at h
  -- the stored entry for this key after the add
  have hfound : ∃ kv, m1.verts.find? (fun kv => kv.1 == pointKey obj) = some kv ∧ kv.2 = id := by
    cases hf : (m.modifyLevel 0 (fun lv => { lv with count := lv.count + 1 })).verts.find?
        (fun kv => kv.1 == pointKey obj) with
    | some kv =>
      rw [hf] at h
      simp only [Except.ok.injEq, Prod.mk.injEq] at h
      obtain ⟨rfl, rfl, _⟩ := h
      exact ⟨kv, hf, rfl⟩
    | none =>
      rw [hf] at h
      simp only [Except.ok.injEq, Prod.mk.injEq] at h
      obtain ⟨rfl, rfl, _⟩ := h
      refine ⟨(pointKey obj, _), ?_, rfl⟩
      simp only [Array.find?_push, Model.newNode_verts, hf, Option.none_or, beq_self_eq_true, if_true]
  obtain ⟨kv, hkv, hid⟩ := hfound
  unfold Model.lookupPoint
  dsimp only
  have hk' : (if obj'.rational then (obj'.cps.data.getD 0 []).dropLast else obj'.cps.data.getD 0 []) = pointKey obj := hkey
  rw [hk']
  cases add with
  | true =>
    simp only [if_true]
    have : (m1.modifyLevel 0 (fun lv => { lv with count := lv.count + 1 })).verts = m1.verts := rfl
    rw [this, hkv]
    refine ⟨m1.modifyLevel 0 (fun lv => { lv with count := lv.count + 1 }), ?_, rfl⟩
    simp only [hid]
  | false =>
    simp only [Bool.false_eq_true, if_false]
    rw [hkv]
    refine ⟨m1, ?_, rfl⟩
    simp only [hid]

end Splipy.MP
