import Splipy.Lemmas.C11Heap

/-!
# The relational contracts preserve separation and give isolation
-/

namespace Splipy.Heap

/-- Under the in-place contract with receiver `i`, every other live object is still the same
    object and observes exactly what it observed before. -/
theorem InPlaceStep.isolation {h h' : Heap} {i : Nat} (w : WF h) (s : Sep h)
    (st : InPlaceStep h h' i) {j : Nat} {b : Obj} (hji : j ≠ i) (hb : h.objs[j]? = some b) :
    h'.objs[j]? = some b ∧ observe h' b = observe h b ∧ ownBufs h' b = ownBufs h b := by
  obtain ⟨a, a', ha, hobjs, _, _, hbufs, hrecs, _, _, _⟩ := st
  have hbm : b ∈ h.objs := List.mem_of_getElem? hb
  have hsep := s i j a b (Ne.symm hji) ha hb
  have hrec_same : ∀ r ∈ b.bases, h'.recs[r]? = h.recs[r]? := by
    intro r hr
    apply hrecs r (w.bases_lt b hbm r hr)
    intro hra; exact hsep.2 r hra hr
  have hbuf_same : ∀ x ∈ ownBufs h b, h'.bufs[x]? = h.bufs[x]? := by
    intro x hx
    apply hbufs x (w.ownBufs_lt hbm hx)
    intro hxa; exact hsep.1 x hxa hx
  refine ⟨?_, observe_congr hrec_same hbuf_same, ownBufs_congr (fun r hr => by rw [hrec_same r hr])⟩
  rw [hobjs, List.getElem?_set_ne (Ne.symm hji)]; exact hb

/-- What the new receiver state owns was owned before or is fresh. -/
theorem InPlaceStep.own_new {h h' : Heap} {i : Nat} (st : InPlaceStep h h' i) :
    ∃ a a', h.objs[i]? = some a ∧ h'.objs = h.objs.set i a' ∧
      (∀ x ∈ ownBufs h' a', x ∈ ownBufs h a ∨ h.bufs.length ≤ x) ∧
      (∀ r ∈ a'.bases, r ∈ a.bases ∨ h.recs.length ≤ r) := by
  obtain ⟨a, a', ha, hobjs, _, _, _, hrecs, hbases', hcps', hrk⟩ := st
  refine ⟨a, a', ha, hobjs, ?_, fun r hr => (hbases' r hr).imp id (fun hh => hh.1)⟩
  intro x hx
  rw [mem_ownBufs] at hx
  rcases hx with rfl | hx
  · exact hcps'.imp id (fun hh => hh.1)
  · rw [mem_knotBufs] at hx
    obtain ⟨b, hb, rec, hrec, rfl⟩ := hx
    have hb' := (hbases' b hb).imp id (fun hh => hh.1)
    exact (hrk b rec hrec hb').imp id (fun hh => hh.1)

/-- **Well-formedness is preserved by the in-place contract** (proved from what the step may do). -/
theorem InPlaceStep.wf {h h' : Heap} {i : Nat} (w : WF h) (st : InPlaceStep h h' i) : WF h' := by
  obtain ⟨a, a', ha, hobjs, hbl, hrl, hbufs, hrecs, hbases', hcps', hrk⟩ := st
  have ham : a ∈ h.objs := List.mem_of_getElem? ha
  refine ⟨?_, ?_, ?_⟩
  · intro o ho
    rw [hobjs] at ho
    rcases List.mem_or_eq_of_mem_set ho with ho | rfl
    · have := w.cps_lt o ho; omega
    · rcases hcps' with hc | hc
      · have := w.ownBufs_lt ham hc; omega
      · exact hc.2
  · intro o ho b hb
    rw [hobjs] at ho
    rcases List.mem_or_eq_of_mem_set ho with ho | rfl
    · have := w.bases_lt o ho b hb; omega
    · rcases hbases' b hb with hb | hb
      · have := w.bases_lt a ham b hb; omega
      · exact hb.2
  · intro rec hrec
    obtain ⟨r, hr⟩ := List.mem_iff_getElem?.mp hrec
    by_cases hold : r < h.recs.length ∧ r ∉ a.bases
    · have := hrecs r hold.1 hold.2
      rw [this] at hr
      have := w.knots_lt rec (List.mem_of_getElem? hr); omega
    · have hcase : r ∈ a.bases ∨ h.recs.length ≤ r := by
        by_cases hlt : r < h.recs.length
        · left
          apply Classical.byContradiction
          intro hn; exact hold ⟨hlt, hn⟩
        · right; omega
      rcases hrk r rec hr hcase with hk | hk
      · have := w.ownBufs_lt ham hk; omega
      · exact hk.2

/-- The in-place contract preserves the invariant. -/
theorem InPlaceStep.inv {h h' : Heap} {i : Nat} (hi : Invariant h) (st : InPlaceStep h h' i) : Invariant h' := by
  obtain ⟨w, s⟩ := hi
  have st' := st
  have w' := st.wf w
  obtain ⟨a, a', ha, hobjs, hown', hbases'⟩ := st.own_new
  refine ⟨w', ?_⟩
  have hilt : i < h.objs.length := lt_of_getElem?_eq_some ha
  -- the receiver's new state against any other (old) object
  have key : ∀ (j : Nat) (b : Obj), j ≠ i → h.objs[j]? = some b →
      ((∀ x ∈ ownBufs h' a', x ∉ ownBufs h' b) ∧ (∀ r ∈ a'.bases, r ∉ b.bases)) := by
    intro j b hji hb
    have hbm : b ∈ h.objs := List.mem_of_getElem? hb
    have hsep := s i j a b (Ne.symm hji) ha hb
    obtain ⟨_, _, hown⟩ := st'.isolation w s hji hb
    constructor
    · intro x hx hxb
      rw [hown] at hxb
      rcases hown' x hx with hxa | hge
      · exact hsep.1 x hxa hxb
      · have := w.ownBufs_lt hbm hxb; omega
    · intro r hr hrb
      rcases hbases' r hr with hra | hge
      · exact hsep.2 r hra hrb
      · have := w.bases_lt b hbm r hrb; omega
  intro p q x y hpq hx hy
  rw [hobjs] at hx hy
  by_cases hp : p = i
  · subst hp
    have hq : q ≠ p := Ne.symm hpq
    rw [List.getElem?_set_self hilt] at hx
    rw [List.getElem?_set_ne (Ne.symm hq)] at hy
    cases hx
    exact key q y hq hy
  · rw [List.getElem?_set_ne (Ne.symm hp)] at hx
    by_cases hq : q = i
    · subst hq
      rw [List.getElem?_set_self hilt] at hy
      cases hy
      have := key p x hp hx
      exact ⟨fun z hz hz' => this.1 z hz' hz, fun r hr hr' => this.2 r hr' hr⟩
    · rw [List.getElem?_set_ne (Ne.symm hq)] at hy
      obtain ⟨_, _, hox⟩ := st'.isolation w s hp hx
      obtain ⟨_, _, hoy⟩ := st'.isolation w s hq hy
      rw [hox, hoy]
      exact s p q x y hpq hx hy

/-- Allocation only: every pre-existing object is the same and observes the same. -/
theorem FreshStep.isolation {h h' : Heap} (w : WF h) (st : FreshStep h h')
    {j : Nat} {b : Obj} (hb : h.objs[j]? = some b) :
    h'.objs[j]? = some b ∧ observe h' b = observe h b ∧ ownBufs h' b = ownBufs h b := by
  obtain ⟨news, bufs', recs', hobjs, hbufs, hrecs, _, _, _⟩ := st
  have hbm : b ∈ h.objs := List.mem_of_getElem? hb
  have hrec_same : ∀ r ∈ b.bases, h'.recs[r]? = h.recs[r]? := by
    intro r hr
    rw [hrecs, List.getElem?_append_left (w.bases_lt b hbm r hr)]
  have hbuf_same : ∀ x ∈ ownBufs h b, h'.bufs[x]? = h.bufs[x]? := by
    intro x hx
    rw [hbufs, List.getElem?_append_left (w.ownBufs_lt hbm hx)]
  refine ⟨?_, observe_congr hrec_same hbuf_same, ownBufs_congr (fun r hr => by rw [hrec_same r hr])⟩
  rw [hobjs, List.getElem?_append_left (lt_of_getElem?_eq_some hb)]; exact hb

/-- **Well-formedness is preserved by allocation** (proved from what the step may do). -/
theorem FreshStep.wf {h h' : Heap} (w : WF h) (st : FreshStep h h') : WF h' := by
  obtain ⟨news, bufs', recs', hobjs, hbufs, hrecs, hnew, hrecs', _⟩ := st
  refine ⟨?_, ?_, ?_⟩
  · intro o ho
    rw [hobjs, List.mem_append] at ho
    rcases ho with ho | ho
    · have := w.cps_lt o ho; rw [hbufs, List.length_append]; omega
    · exact (hnew o ho).1.2
  · intro o ho b hb
    rw [hobjs, List.mem_append] at ho
    rcases ho with ho | ho
    · have := w.bases_lt o ho b hb; rw [hrecs, List.length_append]; omega
    · exact ((hnew o ho).2 b hb).2
  · intro r hr
    rw [hrecs, List.mem_append] at hr
    rcases hr with hr | hr
    · have := w.knots_lt r hr; rw [hbufs, List.length_append]; omega
    · exact (hrecs' r hr).2

/-- Allocation preserves the invariant. -/
theorem FreshStep.inv {h h' : Heap} (hi : Invariant h) (st : FreshStep h h') : Invariant h' := by
  obtain ⟨w, s⟩ := hi
  have st' := st
  have w' := st.wf w
  obtain ⟨news, bufs', recs', hobjs, hbufs, hrecs, hnew, hrecs', hpair⟩ := st
  refine ⟨w', ?_⟩
  -- everything a new object owns is fresh
  have fresh_own : ∀ o ∈ news, ∀ x ∈ ownBufs h' o, h.bufs.length ≤ x := by
    intro o ho x hx
    rw [mem_ownBufs] at hx
    rcases hx with rfl | hx
    · exact (hnew o ho).1.1
    · rw [mem_knotBufs] at hx
      obtain ⟨b, hb, r, hr, rfl⟩ := hx
      have hge := ((hnew o ho).2 b hb).1
      rw [hrecs, List.getElem?_append_right hge] at hr
      exact (hrecs' r (List.mem_of_getElem? hr)).1
  have key : ∀ (j : Nat) (b o : Obj), h.objs[j]? = some b → o ∈ news →
      ((∀ x ∈ ownBufs h' o, x ∉ ownBufs h' b) ∧ (∀ r ∈ o.bases, r ∉ b.bases)) := by
    intro j b o hb ho
    have hbm : b ∈ h.objs := List.mem_of_getElem? hb
    obtain ⟨_, _, hown⟩ := st'.isolation w hb
    constructor
    · intro x hx hxb
      rw [hown] at hxb
      have := fresh_own o ho x hx
      have := w.ownBufs_lt hbm hxb; omega
    · intro r hr hrb
      have := ((hnew o ho).2 r hr).1
      have := w.bases_lt b hbm r hrb; omega
  intro p q x y hpq hx hy
  rw [hobjs] at hx hy
  by_cases hp : p < h.objs.length
  · rw [List.getElem?_append_left hp] at hx
    by_cases hq : q < h.objs.length
    · rw [List.getElem?_append_left hq] at hy
      obtain ⟨_, _, hox⟩ := st'.isolation w hx
      obtain ⟨_, _, hoy⟩ := st'.isolation w hy
      rw [hox, hoy]
      exact s p q x y hpq hx hy
    · have hq' : h.objs.length ≤ q := by omega
      rw [List.getElem?_append_right hq'] at hy
      have := key p x y hx (List.mem_of_getElem? hy)
      exact ⟨fun z hz hz' => this.1 z hz' hz, fun r hr hr' => this.2 r hr' hr⟩
  · have hp' : h.objs.length ≤ p := by omega
    rw [List.getElem?_append_right hp'] at hx
    by_cases hq : q < h.objs.length
    · rw [List.getElem?_append_left hq] at hy
      exact key q y x hy (List.mem_of_getElem? hx)
    · have hq' : h.objs.length ≤ q := by omega
      rw [List.getElem?_append_right hq'] at hy
      exact hpair (p - h.objs.length) (q - h.objs.length) x y (by omega) hx hy

/-- A `query` transition is an allocation without new objects or records. -/
theorem QueryStep.fresh {h h' : Heap} (st : QueryStep h h') : FreshStep h h' := by
  obtain ⟨hobjs, hrecs, extra, hbufs⟩ := st
  exact ⟨[], extra, [], by simp [hobjs], hbufs, by simp [hrecs], by simp, by simp, by simp⟩

theorem ContractStep.inv {h h' : Heap} (hi : Invariant h) (st : ContractStep h h') : Invariant h' := by
  rcases st with ⟨i, st⟩ | st | st
  · exact st.inv hi
  · exact st.inv hi
  · exact st.fresh.inv hi

theorem Reachable.inv {h : Heap} (r : Reachable h) : Invariant h := by
  induction r with
  | empty => exact inv_empty
  | step _ st ih => exact st.inv ih

end Splipy.Heap
