import Splipy.Lemmas.C15SixE

/-!
# Six-face `edge_surfaces`: the transfinite-interpolation formula of the model and its six faces
-/

set_option linter.unusedSectionVars false

namespace Splipy
namespace C15

open C06 C12 Obj Basis Finset

variable {K : Type} [Field K] [LinearOrder K] [IsStrictOrderedRing K] [FloorRing K]

theorem bt_end_sum (e : Bool) (f : Bool → K) :
    sum2 (fun a => bt (K := K) (sideOf e) a (endOf e) * f a) = f e := by
  simp only [sum2]
  rw [bt_at_end, bt_at_end]
  cases e <;> simp

set_option maxHeartbeats 400000 in
/-- **The six-face `edge_surfaces` of the model as a map** (faces on common clamped bases, non-rational):
    `vol(u,v,w) = Σ_a β_a(u) Fu_a(v,w) + Σ_b β_b(v) Fv_b(u,w) + Σ_c β_c(w) Fw_c(u,v) + Σ_abc β_a β_b β_c Fu_a(b,c)
                 - Σ_ab β_a(u) β_b(v) Fu_a(b,w) - Σ_bc β_b(v) β_c(w) Fv_b(u,c) - Σ_ac β_a(u) β_c(w) Fw_c(a,v)`
    (`a, b, c` range over the two ends; `Fu_false = umin`, `Fu_true = umax`, …). -/
theorem edgeSurfaces6_formula (tol : K) (htol : 0 < tol) (p : Fin 3 → ℕ) (U : Fin 3 → List K) (M : Fin 3 → List ℕ)
    (k : ∀ d, UnitKnots tol (p d) (U d) (M d)) (nc : ℕ) (umin umax vmin vmax wmin wmax : Obj K)
    (hu0 : UnitSurf umin (p 1) (p 2) (U 1) (U 2) (M 1) (M 2) false nc)
    (hu1 : UnitSurf umax (p 1) (p 2) (U 1) (U 2) (M 1) (M 2) false nc)
    (hv0 : UnitSurf vmin (p 0) (p 2) (U 0) (U 2) (M 0) (M 2) false nc)
    (hv1 : UnitSurf vmax (p 0) (p 2) (U 0) (U 2) (M 0) (M 2) false nc)
    (hw0 : UnitSurf wmin (p 0) (p 1) (U 0) (U 1) (M 0) (M 1) false nc)
    (hw1 : UnitSurf wmax (p 0) (p 1) (U 0) (U 1) (M 0) (M 1) false nc) :
    ∃ vol : Obj K, Obj.edgeSurfaces tol [umin, umax, vmin, vmax, wmin, wmax] = .ok vol
      ∧ StdVol vol p U M (fun _ => true) false nc
      ∧ ∀ comp, comp < nc → ∀ (sd : Fin 3 → Side) (u : Fin 3 → K),
          (toTP vol 3 comp).eval sd u
            = sum2 (fun a => bt (sd 0) a (u 0) * (toTP (if a then umax else umin) 2 comp).eval ![sd 1, sd 2] ![u 1, u 2])
              + sum2 (fun b => bt (sd 1) b (u 1) * (toTP (if b then vmax else vmin) 2 comp).eval ![sd 0, sd 2] ![u 0, u 2])
              + sum2 (fun c => bt (sd 2) c (u 2) * (toTP (if c then wmax else wmin) 2 comp).eval ![sd 0, sd 1] ![u 0, u 1])
              + sum2 (fun a => sum2 (fun b => sum2 (fun c => bt (sd 0) a (u 0) * bt (sd 1) b (u 1) * bt (sd 2) c (u 2)
                  * (toTP (if a then umax else umin) 2 comp).eval ![sideOf b, sideOf c] ![endOf b, endOf c])))
              - sum2 (fun a => sum2 (fun b => bt (sd 0) a (u 0) * bt (sd 1) b (u 1)
                  * (toTP (if a then umax else umin) 2 comp).eval ![sideOf b, sd 2] ![endOf b, u 2]))
              - sum2 (fun b => sum2 (fun c => bt (sd 1) b (u 1) * bt (sd 2) c (u 2)
                  * (toTP (if b then vmax else vmin) 2 comp).eval ![sd 0, sideOf c] ![u 0, endOf c]))
              - sum2 (fun a => sum2 (fun c => bt (sd 0) a (u 0) * bt (sd 2) c (u 2)
                  * (toTP (if c then wmax else wmin) 2 comp).eval ![sideOf a, sd 1] ![endOf a, u 1])) := by
  obtain ⟨ru, rv, rw, cs, s4, X1, X2, X3, res, vol, ⟨Ru1, Ru2, mu1, mu2⟩, ⟨Rv1, Rv2, mv1, mv2⟩, ⟨Rw1, Rw2, mw1, mw2⟩,
    hcs, hs4, SX1, SX2, SX3, Sres, mX1, mX2, mX3, hcall, Svol, hsum⟩ :=
    edgeSurfaces6_sum tol htol p U M k nc umin umax vmin vmax wmin wmax hu0 hu1 hv0 hv1 hw0 hw1
  refine ⟨vol, hcall, Svol, fun comp hc sd u => ?_⟩
  have shu : ru.2.cps.shape = ru.1.cps.shape := by rw [Ru1.shape, Ru2.shape]
  have shv : rv.2.cps.shape = rv.1.cps.shape := by rw [Rv1.shape, Rv2.shape]
  have shw : rw.2.cps.shape = rw.1.cps.shape := by rw [Rw1.shape, Rw2.shape]
  -- the three ruled volumes at arbitrary arguments, in terms of the faces
  have E1 : ∀ (s : Fin 3 → Side) (t : Fin 3 → K),
      (toTP (((ruledObj ru.1 ru.2).swap 0 2).swap 1 2) 3 comp).eval s t
        = sum2 (fun a => bt (s 0) a (t 0) * (toTP (if a then umax else umin) 2 comp).eval ![s 1, s 2] ![t 1, t 2]) := by
    intro s t
    rw [vol1_eval ru.1 ru.2 Ru1.wf Ru2.wf (by rw [Ru1.b0]; rfl) (by rw [Ru1.b1]; rfl)
      (by rw [Ru1.b0, Ru2.b0]) (by rw [Ru1.b1, Ru2.b1]) shu comp (by rw [Ru1.ncomp]; exact hc),
      mu1.eval comp (by rw [hu0.ncomp]; exact hc), mu2.eval comp (by rw [hu1.ncomp]; exact hc)]
    simp [sum2]
  have E2 : ∀ (s : Fin 3 → Side) (t : Fin 3 → K),
      (toTP ((ruledObj rv.1 rv.2).swap 1 2) 3 comp).eval s t
        = sum2 (fun b => bt (s 1) b (t 1) * (toTP (if b then vmax else vmin) 2 comp).eval ![s 0, s 2] ![t 0, t 2]) := by
    intro s t
    rw [vol2_eval rv.1 rv.2 Rv1.wf Rv2.wf (by rw [Rv1.b0]; rfl) (by rw [Rv1.b1]; rfl)
      (by rw [Rv1.b0, Rv2.b0]) (by rw [Rv1.b1, Rv2.b1]) shv comp (by rw [Rv1.ncomp]; exact hc),
      mv1.eval comp (by rw [hv0.ncomp]; exact hc), mv2.eval comp (by rw [hv1.ncomp]; exact hc)]
    simp [sum2]
  have E3 : ∀ (s : Fin 3 → Side) (t : Fin 3 → K),
      (toTP (ruledObj rw.1 rw.2) 3 comp).eval s t
        = sum2 (fun c => bt (s 2) c (t 2) * (toTP (if c then wmax else wmin) 2 comp).eval ![s 0, s 1] ![t 0, t 1]) := by
    intro s t
    rw [vol3_eval rw.1 rw.2 Rw1.wf Rw2.wf (by rw [Rw1.b0]; rfl) (by rw [Rw1.b1]; rfl)
      (by rw [Rw1.b0, Rw2.b0]) (by rw [Rw1.b1, Rw2.b1]) shw comp (by rw [Rw1.ncomp]; exact hc),
      mw1.eval comp (by rw [hw0.ncomp]; exact hc), mw2.eval comp (by rw [hw1.ncomp]; exact hc)]
    simp [sum2]
  have n1 : (((ruledObj ru.1 ru.2).swap 0 2).swap 1 2).ncomp = nc := (vol1_std p U M ru.1 ru.2 Ru1 shu).ncomp
  have n2 : ((ruledObj rv.1 rv.2).swap 1 2).ncomp = nc := (vol2_std p U M rv.1 rv.2 Rv1 shv).ncomp
  have n3 : (ruledObj rw.1 rw.2).ncomp = nc := (vol3_std p U M rw.1 rw.2 Rw1 shw).ncomp
  -- the corner volume
  have E4 := cornerVol_eval htol (k 1) (k 2) ru.1 ru.2 Ru1 Ru2 cs hcs s4 hs4 comp hc sd u
  have hcorner : ∀ (a b c : Bool), (toTP (if a then ru.2 else ru.1) 2 comp).eval ![sideOf b, sideOf c] ![endOf b, endOf c]
      = (toTP (if a then umax else umin) 2 comp).eval ![sideOf b, sideOf c] ![endOf b, endOf c] := by
    intro a b c
    cases a
    · simp only [Bool.false_eq_true, if_false]; exact mu1.eval comp (by rw [hu0.ncomp]; exact hc) _ _
    · simp only [if_true]; exact mu2.eval comp (by rw [hu1.ncomp]; exact hc) _ _
  -- the three edge volumes
  have EU := edgeVolU_eval htol p U M k X1 res SX1 Sres comp hc sd u
  have EV := edgeVolV_eval htol p U M k X2 res SX2 Sres comp hc sd u
  have EW := edgeVolW_eval htol p U M k X3 res SX3 Sres comp hc sd u
  have X1e : ∀ (a b : Bool), (toTP X1 3 comp).eval ![sideOf a, sideOf b, sd 2] ![endOf a, endOf b, u 2]
      = (toTP (if a then umax else umin) 2 comp).eval ![sideOf b, sd 2] ![endOf b, u 2] := by
    intro a b
    rw [mX1.eval comp (by rw [n1]; exact hc), E1]
    simp only [Matrix.cons_val_zero, Matrix.cons_val_one, Matrix.cons_val_two, Matrix.tail_cons, Matrix.head_cons]
    exact bt_end_sum a _
  have X2e : ∀ (b c : Bool), (toTP X2 3 comp).eval ![sd 0, sideOf b, sideOf c] ![u 0, endOf b, endOf c]
      = (toTP (if b then vmax else vmin) 2 comp).eval ![sd 0, sideOf c] ![u 0, endOf c] := by
    intro b c
    rw [mX2.eval comp (by rw [n2]; exact hc), E2]
    simp only [Matrix.cons_val_zero, Matrix.cons_val_one, Matrix.cons_val_two, Matrix.tail_cons, Matrix.head_cons]
    exact bt_end_sum b _
  have X3e : ∀ (a c : Bool), (toTP X3 3 comp).eval ![sideOf a, sd 1, sideOf c] ![endOf a, u 1, endOf c]
      = (toTP (if c then wmax else wmin) 2 comp).eval ![sideOf a, sd 1] ![endOf a, u 1] := by
    intro a c
    rw [mX3.eval comp (by rw [n3]; exact hc), E3]
    simp only [Matrix.cons_val_zero, Matrix.cons_val_one, Matrix.cons_val_two, Matrix.tail_cons, Matrix.head_cons]
    exact bt_end_sum c _
  rw [hsum comp hc, E1, E2, E3, E4, EU, EV, EW]
  simp only [X1e, X2e, X3e, hcorner]

/-- The twelve shared edges of six faces agree as maps (`a, b, c` = ends of `u, v, w`):
    * `uv`: the `w`-edge `u = a, v = b` read from the `v`-face `b` and from the `u`-face `a`;
    * `vw`: the `u`-edge `v = b, w = c` read from the `w`-face `c` and from the `v`-face `b`;
    * `uw`: the `v`-edge `u = a, w = c` read from the `w`-face `c` and from the `u`-face `a`. -/
structure FacesCompatible (nc : ℕ) (umin umax vmin vmax wmin wmax : Obj K) : Prop where
  uv : ∀ (a b : Bool) comp, comp < nc → ∀ (sd : Side) (t : K),
    (toTP (if b then vmax else vmin) 2 comp).eval ![sideOf a, sd] ![endOf a, t]
      = (toTP (if a then umax else umin) 2 comp).eval ![sideOf b, sd] ![endOf b, t]
  vw : ∀ (b c : Bool) comp, comp < nc → ∀ (sd : Side) (t : K),
    (toTP (if c then wmax else wmin) 2 comp).eval ![sd, sideOf b] ![t, endOf b]
      = (toTP (if b then vmax else vmin) 2 comp).eval ![sd, sideOf c] ![t, endOf c]
  uw : ∀ (a c : Bool) comp, comp < nc → ∀ (sd : Side) (t : K),
    (toTP (if c then wmax else wmin) 2 comp).eval ![sideOf a, sd] ![endOf a, t]
      = (toTP (if a then umax else umin) 2 comp).eval ![sd, sideOf c] ![t, endOf c]

set_option maxHeartbeats 400000 in
/-- **The six faces of the model's six-face `edge_surfaces` are the six inputs** (as maps, every component,
    side and parameter pair), for compatible faces on common clamped bases. -/
theorem edgeSurfaces6_faces (tol : K) (htol : 0 < tol) (p : Fin 3 → ℕ) (U : Fin 3 → List K) (M : Fin 3 → List ℕ)
    (k : ∀ d, UnitKnots tol (p d) (U d) (M d)) (nc : ℕ) (umin umax vmin vmax wmin wmax : Obj K)
    (hu0 : UnitSurf umin (p 1) (p 2) (U 1) (U 2) (M 1) (M 2) false nc)
    (hu1 : UnitSurf umax (p 1) (p 2) (U 1) (U 2) (M 1) (M 2) false nc)
    (hv0 : UnitSurf vmin (p 0) (p 2) (U 0) (U 2) (M 0) (M 2) false nc)
    (hv1 : UnitSurf vmax (p 0) (p 2) (U 0) (U 2) (M 0) (M 2) false nc)
    (hw0 : UnitSurf wmin (p 0) (p 1) (U 0) (U 1) (M 0) (M 1) false nc)
    (hw1 : UnitSurf wmax (p 0) (p 1) (U 0) (U 1) (M 0) (M 1) false nc)
    (hcompat : FacesCompatible nc umin umax vmin vmax wmin wmax) :
    ∃ vol : Obj K, Obj.edgeSurfaces tol [umin, umax, vmin, vmax, wmin, wmax] = .ok vol
      ∧ StdVol vol p U M (fun _ => true) false nc
      ∧ ∀ comp, comp < nc → ∀ (e : Bool) (s1 s2 : Side) (x y : K),
          (toTP vol 3 comp).eval ![sideOf e, s1, s2] ![endOf e, x, y]
              = (toTP (if e then umax else umin) 2 comp).eval ![s1, s2] ![x, y]
          ∧ (toTP vol 3 comp).eval ![s1, sideOf e, s2] ![x, endOf e, y]
              = (toTP (if e then vmax else vmin) 2 comp).eval ![s1, s2] ![x, y]
          ∧ (toTP vol 3 comp).eval ![s1, s2, sideOf e] ![x, y, endOf e]
              = (toTP (if e then wmax else wmin) 2 comp).eval ![s1, s2] ![x, y] := by
  obtain ⟨vol, hcall, Svol, hf⟩ := edgeSurfaces6_formula tol htol p U M k nc umin umax vmin vmax wmin wmax
    hu0 hu1 hv0 hv1 hw0 hw1
  refine ⟨vol, hcall, Svol, fun comp hc e s1 s2 x y => ⟨?_, ?_, ?_⟩⟩
  · rw [hf comp hc]
    simp only [Matrix.cons_val_zero, Matrix.cons_val_one, Matrix.cons_val_two, Matrix.tail_cons, Matrix.head_cons]
    have h2 : ∀ b, (toTP (if b then vmax else vmin) 2 comp).eval ![sideOf e, s2] ![endOf e, y]
        = (toTP (if e then umax else umin) 2 comp).eval ![sideOf b, s2] ![endOf b, y] :=
      fun b => hcompat.uv e b comp hc s2 y
    have h6 : ∀ b c, (toTP (if b then vmax else vmin) 2 comp).eval ![sideOf e, sideOf c] ![endOf e, endOf c]
        = (toTP (if e then umax else umin) 2 comp).eval ![sideOf b, sideOf c] ![endOf b, endOf c] :=
      fun b c => hcompat.uv e b comp hc (sideOf c) (endOf c)
    simp only [h2, h6]
    have t1 := bt_end_sum (K := K) e (fun a => (toTP (if a then umax else umin) 2 comp).eval ![s1, s2] ![x, y])
    have t4 := bt_end_sum (K := K) e (fun a => sum2 (fun b => sum2 (fun c => bt s1 b x * bt s2 c y
      * (toTP (if a then umax else umin) 2 comp).eval ![sideOf b, sideOf c] ![endOf b, endOf c])))
    have t5 := bt_end_sum (K := K) e (fun a => sum2 (fun b => bt s1 b x
      * (toTP (if a then umax else umin) 2 comp).eval ![sideOf b, s2] ![endOf b, y]))
    have t7 := bt_end_sum (K := K) e (fun a => sum2 (fun c => bt s2 c y
      * (toTP (if c then wmax else wmin) 2 comp).eval ![sideOf a, s1] ![endOf a, x]))
    simp only [sum2] at t1 t4 t5 t7 ⊢
    linear_combination t1 + t4 - t5 - t7
  · rw [hf comp hc]
    simp only [Matrix.cons_val_zero, Matrix.cons_val_one, Matrix.cons_val_two, Matrix.tail_cons, Matrix.head_cons]
    have h3 : ∀ c, (toTP (if c then wmax else wmin) 2 comp).eval ![s1, sideOf e] ![x, endOf e]
        = (toTP (if e then vmax else vmin) 2 comp).eval ![s1, sideOf c] ![x, endOf c] :=
      fun c => hcompat.vw e c comp hc s1 x
    have h7 : ∀ a c, (toTP (if c then wmax else wmin) 2 comp).eval ![sideOf a, sideOf e] ![endOf a, endOf e]
        = (toTP (if a then umax else umin) 2 comp).eval ![sideOf e, sideOf c] ![endOf e, endOf c] :=
      fun a c => hcompat.uw a c comp hc (sideOf e) (endOf e)
    simp only [h3, h7]
    have t2 := bt_end_sum (K := K) e (fun b => (toTP (if b then vmax else vmin) 2 comp).eval ![s1, s2] ![x, y])
    have t4 := bt_end_sum (K := K) e (fun b => sum2 (fun a => sum2 (fun c => bt s1 a x * bt s2 c y
      * (toTP (if a then umax else umin) 2 comp).eval ![sideOf b, sideOf c] ![endOf b, endOf c])))
    have t5 := bt_end_sum (K := K) e (fun b => sum2 (fun a => bt s1 a x
      * (toTP (if a then umax else umin) 2 comp).eval ![sideOf b, s2] ![endOf b, y]))
    have t6 := bt_end_sum (K := K) e (fun b => sum2 (fun c => bt s2 c y
      * (toTP (if b then vmax else vmin) 2 comp).eval ![s1, sideOf c] ![x, endOf c]))
    simp only [sum2] at t2 t4 t5 t6 ⊢
    linear_combination t2 + t4 - t5 - t6
  · rw [hf comp hc]
    simp only [Matrix.cons_val_zero, Matrix.cons_val_one, Matrix.cons_val_two, Matrix.tail_cons, Matrix.head_cons]
    have h7 : ∀ a, (toTP (if e then wmax else wmin) 2 comp).eval ![sideOf a, s2] ![endOf a, y]
        = (toTP (if a then umax else umin) 2 comp).eval ![s2, sideOf e] ![y, endOf e] :=
      fun a => hcompat.uw a e comp hc s2 y
    have t3 := bt_end_sum (K := K) e (fun c => (toTP (if c then wmax else wmin) 2 comp).eval ![s1, s2] ![x, y])
    have t4 := bt_end_sum (K := K) e (fun c => sum2 (fun a => sum2 (fun b => bt s1 a x * bt s2 b y
      * (toTP (if a then umax else umin) 2 comp).eval ![sideOf b, sideOf c] ![endOf b, endOf c])))
    have t6 := bt_end_sum (K := K) e (fun c => sum2 (fun b => bt s2 b y
      * (toTP (if b then vmax else vmin) 2 comp).eval ![s1, sideOf c] ![x, endOf c]))
    have t7 := bt_end_sum (K := K) e (fun c => sum2 (fun a => bt s1 a x
      * (toTP (if c then wmax else wmin) 2 comp).eval ![sideOf a, s2] ![endOf a, y]))
    simp only [sum2, h7] at t3 t4 t6 t7 ⊢
    linear_combination t3 + t4 - t6 - t7

end C15
end Splipy
