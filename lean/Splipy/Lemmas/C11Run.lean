import Splipy.Lemmas.C11Exec

/-!
# Histories of the executable model: invariant, isolation, predicted observables
-/

namespace Splipy.Heap

/-! ## Allocation -/

theorem allocBuf_query (h : Heap) (d : List Int) : QueryStep h (allocBuf h d) :=
  ⟨rfl, rfl, [d], rfl⟩

/-- The copying constructor respects the `fresh` contract. -/
theorem allocObj_fresh {h : Heap} (w : WF h) (s : ObjSpec) : FreshStep h (allocObj h s) := by
  refine ⟨_, _, _, rfl, rfl, rfl, ?_, ?_, ?_, ?_⟩
  · intro o ho
    simp only [List.mem_singleton] at ho
    subst ho
    refine ⟨by simp, ?_⟩
    intro r hr
    simp only [List.mem_range'] at hr
    obtain ⟨k, _, rfl⟩ := hr
    omega
  · intro r hr
    rw [List.mem_mapIdx] at hr
    obtain ⟨k, _, rfl⟩ := hr
    simp
  · intro i j a b hij hi hj
    have hi0 : i = 0 := by
      have := lt_of_getElem?_eq_some hi; simp at this; exact this
    have hj0 : j = 0 := by
      have := lt_of_getElem?_eq_some hj; simp at this; exact this
    omega
  · refine ⟨?_, ?_, ?_⟩
    · intro o ho
      simp only [allocObj, List.mem_append, List.mem_singleton] at ho
      rcases ho with ho | rfl
      · have := w.cps_lt o ho; simp [allocObj]; omega
      · simp [allocObj]
    · intro o ho b hb
      simp only [allocObj, List.mem_append, List.mem_singleton] at ho
      rcases ho with ho | rfl
      · have := w.bases_lt o ho b hb; simp [allocObj]; omega
      · simp only [List.mem_range'] at hb
        obtain ⟨k, hk, rfl⟩ := hb
        simp [allocObj]; omega
    · intro r hr
      simp only [allocObj, List.mem_append] at hr
      rcases hr with hr | hr
      · have := w.knots_lt r hr; simp [allocObj]; omega
      · rw [List.mem_mapIdx] at hr
        obtain ⟨k, hk, rfl⟩ := hr
        simp [allocObj]; omega

theorem allocObj_length (h : Heap) (s : ObjSpec) : (allocObj h s).objs.length = h.objs.length + 1 := by
  simp [allocObj]

/-! ## The invariant along executable steps -/

theorem applyPrim_inv {h : Heap} (hi : Invariant h) (i : Nat) (p : Prim) : Invariant (applyPrim h i p) := by
  cases ha : h.objs[i]? with
  | none => rw [applyPrim_dangling ha]; exact hi
  | some a => exact (applyPrim_inPlace hi.1 ha p).inv hi

theorem applyProg_inv {h : Heap} (hi : Invariant h) (i : Nat) (prog : List Prim) : Invariant (applyProg h i prog) := by
  unfold applyProg
  induction prog generalizing h with
  | nil => exact hi
  | cons p ps ih => exact ih (applyPrim_inv hi i p)

theorem allocObjs_inv {h : Heap} (hi : Invariant h) (ss : List ObjSpec) : Invariant (allocObjs h ss) := by
  unfold allocObjs
  induction ss generalizing h with
  | nil => exact hi
  | cons s ss ih => exact ih ((allocObj_fresh hi.1 s).inv hi)

theorem applyProgs_inv {h : Heap} (hi : Invariant h) (progs : List (Nat × List Prim)) :
    Invariant (progs.foldl (fun h p => applyProg h p.1 p.2) h) := by
  induction progs generalizing h with
  | nil => exact hi
  | cons p ps ih => exact ih (applyProg_inv hi p.1 p.2)

/-- Every executable step preserves the invariant, whatever the payload. -/
theorem step_inv {h : Heap} (hi : Invariant h) (op : Op) : Invariant (step h op).1 := by
  cases op with
  | query args payload =>
    cases payload with
    | none => exact hi
    | some d => exact ((allocBuf_query h d).fresh hi.1).inv hi
  | fresh args news => exact allocObjs_inv hi news
  | inPlace recv others prog rs => exact applyProg_inv hi recv prog
  | inPlaceAll progs => exact applyProgs_inv hi progs

theorem run_inv {h : Heap} (hi : Invariant h) (ops : List Op) : Invariant (run h ops) := by
  unfold run
  induction ops generalizing h with
  | nil => exact hi
  | cons op ops ih => exact ih (step_inv hi op)

/-! ## Isolation along executable steps

`Same h h' j` : handle `j` refers to the same object before and after, with the same observation. -/

def Same (h h' : Heap) (j : Nat) : Prop :=
  ∀ b, h.objs[j]? = some b → h'.objs[j]? = some b ∧ observe h' b = observe h b

theorem Same.refl (h : Heap) (j : Nat) : Same h h j := fun _ hb => ⟨hb, rfl⟩

theorem Same.trans {h h' h'' : Heap} {j : Nat} (s1 : Same h h' j) (s2 : Same h' h'' j) : Same h h'' j := by
  intro b hb
  obtain ⟨hb', ho'⟩ := s1 b hb
  obtain ⟨hb'', ho''⟩ := s2 b hb'
  exact ⟨hb'', ho''.trans ho'⟩

theorem applyPrim_same {h : Heap} (hi : Invariant h) {i j : Nat} (hji : j ≠ i) (p : Prim) :
    Same h (applyPrim h i p) j := by
  cases ha : h.objs[i]? with
  | none => rw [applyPrim_dangling ha]; exact Same.refl h j
  | some a =>
    intro b hb
    obtain ⟨h1, h2, _⟩ := (applyPrim_inPlace hi.1 ha p).isolation hi.1 hi.2 hji hb
    exact ⟨h1, h2⟩

theorem applyProg_same {h : Heap} (hi : Invariant h) {i j : Nat} (hji : j ≠ i) (prog : List Prim) :
    Same h (applyProg h i prog) j := by
  unfold applyProg
  induction prog generalizing h with
  | nil => exact Same.refl h j
  | cons p ps ih => exact (applyPrim_same hi hji p).trans (ih (applyPrim_inv hi i p))

theorem allocObjs_same {h : Heap} (hi : Invariant h) (ss : List ObjSpec) (j : Nat) :
    Same h (allocObjs h ss) j := by
  unfold allocObjs
  induction ss generalizing h with
  | nil => exact Same.refl h j
  | cons s ss ih =>
    have st := allocObj_fresh hi.1 s
    have h1 : Same h (allocObj h s) j := by
      intro b hb
      obtain ⟨h1, h2, _⟩ := st.isolation hi.1 hb
      exact ⟨h1, h2⟩
    exact h1.trans (ih (st.inv hi))

theorem applyProgs_same {h : Heap} (hi : Invariant h) (progs : List (Nat × List Prim)) {j : Nat}
    (hj : ∀ p ∈ progs, j ≠ p.1) : Same h (progs.foldl (fun h p => applyProg h p.1 p.2) h) j := by
  induction progs generalizing h with
  | nil => exact Same.refl h j
  | cons p ps ih =>
    have h1 := applyProg_same hi (hj p (by simp)) p.2
    exact h1.trans (ih (applyProg_inv hi p.1 p.2) (fun q hq => hj q (by simp [hq])))

/-- The handles an operation instance is allowed to write through. -/
def Op.receivers : Op → List Nat
  | .query _ _ => []
  | .fresh _ _ => []
  | .inPlace recv _ _ _ => [recv]
  | .inPlaceAll progs => progs.map (·.1)

/-- Isolation for every executable step: a handle that is not a receiver of the operation refers
    to the same object and observes the same afterwards. -/
theorem step_same {h : Heap} (hi : Invariant h) (op : Op) {j : Nat} (hj : j ∉ op.receivers) :
    Same h (step h op).1 j := by
  cases op with
  | query args payload =>
    cases payload with
    | none => exact Same.refl h j
    | some d =>
      intro b hb
      obtain ⟨h1, h2, _⟩ := ((allocBuf_query h d).fresh hi.1).isolation hi.1 hb
      exact ⟨h1, h2⟩
  | fresh args news => exact allocObjs_same hi news j
  | inPlace recv others prog rs =>
    have : j ≠ recv := by simpa [Op.receivers] using hj
    exact applyProg_same hi this prog
  | inPlaceAll progs =>
    apply applyProgs_same hi progs
    intro p hp hjp
    apply hj
    simp only [Op.receivers, List.mem_map]
    exact ⟨p, hp, hjp.symm⟩

/-! ## The predicted observables -/

theorem intersects_eq_true {xs ys : List Nat} : intersects xs ys = true ↔ ∃ x, x ∈ xs ∧ x ∈ ys := by
  simp [intersects, List.any_eq_true]

/-- Under the separation invariant no two distinct live objects share state. -/
theorem sharesState_false_of_sep {h : Heap} (s : Sep h) {i j : Nat} {a b : Obj} (hij : i ≠ j)
    (ha : h.objs[i]? = some a) (hb : h.objs[j]? = some b) : sharesState h a b = false := by
  have := s i j a b hij ha hb
  cases hs : sharesState h a b with
  | false => rfl
  | true =>
    exfalso
    simp only [sharesState, Bool.or_eq_true, intersects_eq_true] at hs
    rcases hs with ⟨x, hx, hx'⟩ | ⟨r, hr, hr'⟩
    · exact this.1 x hx hx'
    · exact this.2 r hr hr'

/-- The sharing graph of a separated heap has no edges. -/
theorem sharingEdges_nil_of_sep {h : Heap} (s : Sep h) : sharingEdges h = [] := by
  unfold sharingEdges
  rw [List.flatMap_eq_nil_iff]
  intro i _
  rw [List.filterMap_eq_nil_iff]
  intro j _
  cases ha : h.objs[i]? with
  | none => rfl
  | some a =>
    cases hb : h.objs[j]? with
    | none => rfl
    | some b =>
      by_cases hij : i < j
      · have : sharesState h a b = false := sharesState_false_of_sep s (by omega) ha hb
        simp [this]
      · simp [hij]

/-- `sepB` is a sound executable check of `Sep`. -/
theorem sepB_sound {h : Heap} (hb : sepB h = true) : Sep h := by
  intro i j a b hij ha hbj
  have hil := lt_of_getElem?_eq_some ha
  have hjl := lt_of_getElem?_eq_some hbj
  simp only [sepB, List.all_eq_true, List.mem_range] at hb
  have := hb i hil j hjl
  simp only [ha, hbj, Bool.or_eq_true, beq_iff_eq, Bool.not_eq_true'] at this
  rcases this with h1 | h1
  · exact absurd h1 hij
  · simp only [sharesState, Bool.or_eq_false_iff] at h1
    constructor
    · intro x hx hx'
      have : intersects (ownBufs h a) (ownBufs h b) = true := intersects_eq_true.mpr ⟨x, hx, hx'⟩
      rw [h1.1] at this; exact Bool.noConfusion this
    · intro r hr hr'
      have : intersects a.bases b.bases = true := intersects_eq_true.mpr ⟨r, hr, hr'⟩
      rw [h1.2] at this; exact Bool.noConfusion this

/-- `wfB` is a sound executable check of `WF`. -/
theorem wfB_sound {h : Heap} (hb : wfB h = true) : WF h := by
  simp only [wfB, Bool.and_eq_true, List.all_eq_true, decide_eq_true_eq] at hb
  exact ⟨fun o ho => (hb.1 o ho).1, fun o ho => (hb.1 o ho).2, hb.2⟩

/-- The write set of a step is within the receivers of the operation. -/
theorem writeSet_subset_receivers {h : Heap} (hi : Invariant h) (op : Op) :
    ∀ j ∈ writeSet h (step h op).1, j ∈ op.receivers := by
  intro j hj
  simp only [writeSet, List.mem_filter, List.mem_range, bne_iff_ne, ne_eq] at hj
  obtain ⟨hjl, hne⟩ := hj
  apply Classical.byContradiction
  intro hnr
  apply hne
  have hs := step_same hi op hnr
  unfold observeAt
  obtain ⟨b, hb⟩ : ∃ b, h.objs[j]? = some b := ⟨h.objs[j], by simp [hjl]⟩
  obtain ⟨h1, h2⟩ := hs b hb
  rw [hb, h1]; simp [h2]

end Splipy.Heap

namespace Splipy.Heap

/-- Isolation along a whole history: a handle through which no operation of the history writes
    refers to the same object with the same observation at the end. -/
theorem run_same {h : Heap} (hi : Invariant h) (ops : List Op) {j : Nat}
    (hj : ∀ op ∈ ops, j ∉ op.receivers) : Same h (run h ops) j := by
  unfold run
  induction ops generalizing h with
  | nil => exact Same.refl h j
  | cons op ops ih =>
    exact (step_same hi op (hj op (by simp))).trans
      (ih (step_inv hi op) (fun o ho => hj o (by simp [ho])))

/-- The array returned by a `query` step is owned by no live object. -/
theorem bufferSharers_allocBuf {h : Heap} (w : WF h) (d : List Int) :
    bufferSharers (allocBuf h d) h.bufs.length = [] := by
  unfold bufferSharers
  rw [List.filter_eq_nil_iff]
  intro i _
  show ¬ (match h.objs[i]? with
    | some a => (ownBufs (allocBuf h d) a).contains h.bufs.length
    | none => false) = true
  cases ha : h.objs[i]? with
  | none => simp
  | some a =>
    have hown : ownBufs (allocBuf h d) a = ownBufs h a := ownBufs_congr (fun _ _ => rfl)
    simp only [hown, List.contains_iff_mem]
    intro hm
    have := w.ownBufs_lt (List.mem_of_getElem? ha) hm
    omega

end Splipy.Heap
