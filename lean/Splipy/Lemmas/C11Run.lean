import Splipy.Lemmas.C11Exec

/-!
# Histories of the executable model: invariant, isolation, predicted observables

`exec` performs a `RawOp` literally (it can alias and write anywhere).  Everything here is about
operations whose actions conform (`RawOp.conforming`) / that respect their contract
(`RawOp.respects c`).
-/

namespace Splipy.Heap

/-! ## Allocation -/

theorem allocBuf_query (h : Heap) (d : List Int) : QueryStep h (allocBuf h d) :=
  ⟨rfl, rfl, [d], rfl⟩

/-- The copying constructor respects the `fresh` contract. -/
theorem allocObj_fresh (h : Heap) (s : ObjSpec) : FreshStep h (allocObj h s) := by
  refine ⟨_, _, _, rfl, rfl, rfl, ?_, ?_, ?_⟩
  · intro o ho
    simp only [List.mem_singleton] at ho
    subst ho
    refine ⟨⟨by simp, by simp [allocObj]⟩, ?_⟩
    intro r hr
    simp only [List.mem_range'] at hr
    obtain ⟨k, hk, rfl⟩ := hr
    refine ⟨by omega, ?_⟩
    simp [allocObj]; omega
  · intro r hr
    rw [List.mem_mapIdx] at hr
    obtain ⟨k, hk, rfl⟩ := hr
    refine ⟨by simp, ?_⟩
    simp [allocObj]; omega
  · intro i j a b hij hi hj
    have hi0 : i = 0 := by
      have := lt_of_getElem?_eq_some hi; simp at this; exact this
    have hj0 : j = 0 := by
      have := lt_of_getElem?_eq_some hj; simp at this; exact this
    omega

theorem allocObj_length (h : Heap) (s : ObjSpec) : (allocObj h s).objs.length = h.objs.length + 1 := by
  simp [allocObj]

/-! ## `Same h h' j` : handle `j` refers to the same object before and after, with the same observation -/

def Same (h h' : Heap) (j : Nat) : Prop :=
  ∀ b, h.objs[j]? = some b → h'.objs[j]? = some b ∧ observe h' b = observe h b

theorem Same.refl (h : Heap) (j : Nat) : Same h h j := fun _ hb => ⟨hb, rfl⟩

theorem Same.trans {h h' h'' : Heap} {j : Nat} (s1 : Same h h' j) (s2 : Same h' h'' j) : Same h h'' j := by
  intro b hb
  obtain ⟨hb', ho'⟩ := s1 b hb
  obtain ⟨hb'', ho''⟩ := s2 b hb'
  exact ⟨hb'', ho''.trans ho'⟩

/-! ## Conforming actions -/

theorem applyPrim_inv {h : Heap} (hi : Invariant h) (i : Nat) (p : Prim) : Invariant (applyPrim h i p) := by
  cases ha : h.objs[i]? with
  | none => rw [applyPrim_dangling ha]; exact hi
  | some a => exact (applyPrim_inPlace hi.1 ha p).inv hi

theorem applyPrim_same {h : Heap} (hi : Invariant h) {i j : Nat} (hji : j ≠ i) (p : Prim) :
    Same h (applyPrim h i p) j := by
  cases ha : h.objs[i]? with
  | none => rw [applyPrim_dangling ha]; exact Same.refl h j
  | some a =>
    intro b hb
    obtain ⟨h1, h2, _⟩ := (applyPrim_inPlace hi.1 ha p).isolation hi.1 hi.2 hji hb
    exact ⟨h1, h2⟩

theorem applyAct_inv {h : Heap} (hi : Invariant h) (i : Nat) {a : Act} (hc : a.conforming = true) :
    Invariant (applyAct h i a) := by
  cases a with
  | prim p => exact applyPrim_inv hi i p
  | aliasCps _ => simp [Act.conforming] at hc
  | aliasBasis _ _ _ => simp [Act.conforming] at hc

theorem applyAct_same {h : Heap} (hi : Invariant h) {i j : Nat} (hji : j ≠ i) {a : Act}
    (hc : a.conforming = true) : Same h (applyAct h i a) j := by
  cases a with
  | prim p => exact applyPrim_same hi hji p
  | aliasCps _ => simp [Act.conforming] at hc
  | aliasBasis _ _ _ => simp [Act.conforming] at hc

theorem applyActs_inv {h : Heap} (hi : Invariant h) (i : Nat) {acts : List Act}
    (hc : acts.all Act.conforming = true) : Invariant (applyActs h i acts) := by
  unfold applyActs
  induction acts generalizing h with
  | nil => exact hi
  | cons a as ih =>
    simp only [List.all_cons, Bool.and_eq_true] at hc
    exact ih (applyAct_inv hi i hc.1) hc.2

theorem applyActs_same {h : Heap} (hi : Invariant h) {i j : Nat} (hji : j ≠ i) {acts : List Act}
    (hc : acts.all Act.conforming = true) : Same h (applyActs h i acts) j := by
  unfold applyActs
  induction acts generalizing h with
  | nil => exact Same.refl h j
  | cons a as ih =>
    simp only [List.all_cons, Bool.and_eq_true] at hc
    exact (applyAct_same hi hji hc.1).trans (ih (applyAct_inv hi i hc.1) hc.2)

theorem applyWrites_inv {h : Heap} (hi : Invariant h) {ws : List (Nat × List Act)}
    (hc : ws.all (fun w => w.2.all Act.conforming) = true) : Invariant (applyWrites h ws) := by
  unfold applyWrites
  induction ws generalizing h with
  | nil => exact hi
  | cons w ws ih =>
    simp only [List.all_cons, Bool.and_eq_true] at hc
    exact ih (applyActs_inv hi w.1 hc.1) hc.2

theorem applyWrites_same {h : Heap} (hi : Invariant h) {ws : List (Nat × List Act)}
    (hc : ws.all (fun w => w.2.all Act.conforming) = true) {j : Nat} (hj : ∀ w ∈ ws, j ≠ w.1) :
    Same h (applyWrites h ws) j := by
  unfold applyWrites
  induction ws generalizing h with
  | nil => exact Same.refl h j
  | cons w ws ih =>
    simp only [List.all_cons, Bool.and_eq_true] at hc
    exact (applyActs_same hi (hj w (by simp)) hc.1).trans
      (ih (applyActs_inv hi w.1 hc.1) hc.2 (fun v hv => hj v (by simp [hv])))

theorem buildObj_inv {h : Heap} (hi : Invariant h) {n : ObjSpec × List Act}
    (hc : n.2.all Act.conforming = true) : Invariant (buildObj h n) :=
  applyActs_inv ((allocObj_fresh h n.1).inv hi) _ hc

theorem buildObj_same {h : Heap} (hi : Invariant h) {n : ObjSpec × List Act}
    (hc : n.2.all Act.conforming = true) (j : Nat) : Same h (buildObj h n) j := by
  intro b hb
  have hjl : j < h.objs.length := lt_of_getElem?_eq_some hb
  have st := allocObj_fresh h n.1
  have h1 : Same h (allocObj h n.1) j := by
    intro b hb
    obtain ⟨h1, h2, _⟩ := st.isolation hi.1 hb
    exact ⟨h1, h2⟩
  exact (h1.trans (applyActs_same (st.inv hi) (by omega) hc)) b hb

theorem buildObjs_inv {h : Heap} (hi : Invariant h) {ns : List (ObjSpec × List Act)}
    (hc : ns.all (fun n => n.2.all Act.conforming) = true) : Invariant (buildObjs h ns) := by
  unfold buildObjs
  induction ns generalizing h with
  | nil => exact hi
  | cons n ns ih =>
    simp only [List.all_cons, Bool.and_eq_true] at hc
    exact ih (buildObj_inv hi hc.1) hc.2

theorem buildObjs_same {h : Heap} (hi : Invariant h) {ns : List (ObjSpec × List Act)}
    (hc : ns.all (fun n => n.2.all Act.conforming) = true) (j : Nat) : Same h (buildObjs h ns) j := by
  unfold buildObjs
  induction ns generalizing h with
  | nil => exact Same.refl h j
  | cons n ns ih =>
    simp only [List.all_cons, Bool.and_eq_true] at hc
    exact (buildObj_same hi hc.1 j).trans (ih (buildObj_inv hi hc.1) hc.2)

/-! ## Operations -/

theorem exec_fst (h : Heap) (op : RawOp) :
    (exec h op).1 = (match op.ret with
      | .newBuffer d => allocBuf (buildObjs (applyWrites h op.writes) op.news) d
      | _ => buildObjs (applyWrites h op.writes) op.news) := by
  unfold exec
  cases op.ret <;> rfl

theorem exec_snd (h : Heap) (op : RawOp) :
    (exec h op).2 = (match op.ret with
      | .none => .none
      | .scalar => .scalar
      | .newBuffer _ => .buffer (buildObjs (applyWrites h op.writes) op.news).bufs.length
      | .bufferOf x => (match (buildObjs (applyWrites h op.writes) op.news).objs[x]? with
                        | some a => .buffer a.cps | none => .none)
      | .newObjects => .handles (List.range' (applyWrites h op.writes).objs.length op.news.length)
      | .receiver => (match op.args with | r :: _ => .handles [r] | [] => .none)) := by
  unfold exec
  cases op.ret <;> rfl

/-- **Every operation whose actions conform preserves the invariant**, whatever it writes, builds
    or returns. -/
theorem exec_inv {h : Heap} (hi : Invariant h) {op : RawOp} (hc : op.conforming = true) :
    Invariant (exec h op).1 := by
  simp only [RawOp.conforming, Bool.and_eq_true] at hc
  have h2 := buildObjs_inv (applyWrites_inv hi hc.1) hc.2
  rw [exec_fst]
  cases op.ret with
  | newBuffer d => exact (allocBuf_query _ d).fresh.inv h2
  | none => exact h2
  | scalar => exact h2
  | bufferOf _ => exact h2
  | newObjects => exact h2
  | receiver => exact h2

theorem respects_conforming {c : Contract} {op : RawOp} (hr : op.respects c = true) : op.conforming = true := by
  simp only [RawOp.respects, Bool.and_eq_true] at hr
  exact hr.1.1

theorem respects_writes {c : Contract} {op : RawOp} (hr : op.respects c = true) :
    ∀ w ∈ op.writes, w.1 ∈ op.receivers c := by
  simp only [RawOp.respects, Bool.and_eq_true, List.all_eq_true, List.contains_iff_mem] at hr
  exact hr.1.2

/-- **Isolation for every operation that respects its contract**: a handle that is not a receiver
    refers to the same object and observes the same afterwards. -/
theorem exec_same {h : Heap} (hi : Invariant h) {c : Contract} {op : RawOp} (hr : op.respects c = true)
    {j : Nat} (hj : j ∉ op.receivers c) : Same h (exec h op).1 j := by
  have hc := respects_conforming hr
  have hc' := hc
  simp only [RawOp.conforming, Bool.and_eq_true] at hc'
  have hw : ∀ w ∈ op.writes, j ≠ w.1 := fun w hw e => hj (e ▸ respects_writes hr w hw)
  have s1 := applyWrites_same hi hc'.1 hw
  have i1 := applyWrites_inv hi hc'.1
  have s2 := s1.trans (buildObjs_same i1 hc'.2 j)
  rw [exec_fst]
  cases op.ret with
  | newBuffer d =>
    refine s2.trans ?_
    intro b hb
    obtain ⟨h1, h2, _⟩ := (allocBuf_query _ d).fresh.isolation (buildObjs_inv i1 hc'.2).1 hb
    exact ⟨h1, h2⟩
  | none => exact s2
  | scalar => exact s2
  | bufferOf _ => exact s2
  | newObjects => exact s2
  | receiver => exact s2

theorem run_inv {h : Heap} (hi : Invariant h) {hist : List (Contract × RawOp)}
    (hr : ∀ e ∈ hist, e.2.respects e.1 = true) : Invariant (run h hist) := by
  unfold run
  induction hist generalizing h with
  | nil => exact hi
  | cons e es ih =>
    exact ih (exec_inv hi (respects_conforming (hr e (by simp)))) (fun x hx => hr x (by simp [hx]))

/-- Isolation along a whole history: a handle through which no operation of the history is allowed
    to write refers to the same object with the same observation at the end. -/
theorem run_same {h : Heap} (hi : Invariant h) {hist : List (Contract × RawOp)}
    (hr : ∀ e ∈ hist, e.2.respects e.1 = true) {j : Nat}
    (hj : ∀ e ∈ hist, j ∉ e.2.receivers e.1) : Same h (run h hist) j := by
  unfold run
  induction hist generalizing h with
  | nil => exact Same.refl h j
  | cons e es ih =>
    have hre := hr e (by simp)
    exact (exec_same hi hre (hj e (by simp))).trans
      (ih (exec_inv hi (respects_conforming hre)) (fun x hx => hr x (by simp [hx]))
        (fun x hx => hj x (by simp [hx])))

/-! ## The predicted observables -/

theorem intersects_eq_true {xs ys : List Nat} : intersects xs ys = true ↔ ∃ x, x ∈ xs ∧ x ∈ ys := by
  simp [intersects, List.any_eq_true]

/-- Under the separation invariant no two distinct live objects share state. -/
theorem sharesState_false_of_sep {h : Heap} (s : Sep h) {i j : Nat} {a b : Obj} (hij : i ≠ j)
    (ha : h.objs[i]? = some a) (hb : h.objs[j]? = some b) : sharesState h a b = false := by
  have := s i j a b hij ha hb
  cases hs : sharesState h a b with
  | false => rfl
  | true =>
    exfalso
    simp only [sharesState, Bool.or_eq_true, intersects_eq_true] at hs
    rcases hs with ⟨x, hx, hx'⟩ | ⟨r, hr, hr'⟩
    · exact this.1 x hx hx'
    · exact this.2 r hr hr'

/-- The sharing graph of a separated heap has no edges. -/
theorem sharingEdges_nil_of_sep {h : Heap} (s : Sep h) : sharingEdges h = [] := by
  unfold sharingEdges
  rw [List.flatMap_eq_nil_iff]
  intro i _
  rw [List.filterMap_eq_nil_iff]
  intro j _
  cases ha : h.objs[i]? with
  | none => rfl
  | some a =>
    cases hb : h.objs[j]? with
    | none => rfl
    | some b =>
      by_cases hij : i < j
      · have : sharesState h a b = false := sharesState_false_of_sep s (by omega) ha hb
        simp [this]
      · simp [hij]

/-- `sepB` is a sound executable check of `Sep`. -/
theorem sepB_sound {h : Heap} (hb : sepB h = true) : Sep h := by
  intro i j a b hij ha hbj
  have hil := lt_of_getElem?_eq_some ha
  have hjl := lt_of_getElem?_eq_some hbj
  simp only [sepB, List.all_eq_true, List.mem_range] at hb
  have := hb i hil j hjl
  simp only [ha, hbj, Bool.or_eq_true, beq_iff_eq, Bool.not_eq_true'] at this
  rcases this with h1 | h1
  · exact absurd h1 hij
  · simp only [sharesState, Bool.or_eq_false_iff] at h1
    constructor
    · intro x hx hx'
      have : intersects (ownBufs h a) (ownBufs h b) = true := intersects_eq_true.mpr ⟨x, hx, hx'⟩
      rw [h1.1] at this; exact Bool.noConfusion this
    · intro r hr hr'
      have : intersects a.bases b.bases = true := intersects_eq_true.mpr ⟨r, hr, hr'⟩
      rw [h1.2] at this; exact Bool.noConfusion this

/-- `wfB` is a sound executable check of `WF`. -/
theorem wfB_sound {h : Heap} (hb : wfB h = true) : WF h := by
  simp only [wfB, Bool.and_eq_true, List.all_eq_true, decide_eq_true_eq] at hb
  exact ⟨fun o ho => (hb.1 o ho).1, fun o ho => (hb.1 o ho).2, hb.2⟩


/-- The write set of an operation that respects its contract is within its receivers. -/
theorem writeSet_subset_receivers {h : Heap} (hi : Invariant h) {c : Contract} {op : RawOp}
    (hr : op.respects c = true) : ∀ j ∈ writeSet h (exec h op).1, j ∈ op.receivers c := by
  intro j hj
  simp only [writeSet, List.mem_filter, List.mem_range, bne_iff_ne, ne_eq] at hj
  obtain ⟨hjl, hne⟩ := hj
  apply Classical.byContradiction
  intro hnr
  apply hne
  have hs := exec_same hi hr hnr
  unfold observeAt
  obtain ⟨b, hb⟩ : ∃ b, h.objs[j]? = some b := ⟨h.objs[j], by simp [hjl]⟩
  obtain ⟨h1, h2⟩ := hs b hb
  rw [hb, h1]; simp [h2]

/-- The array returned by a `query` step is owned by no live object. -/
theorem bufferSharers_allocBuf {h : Heap} (w : WF h) (d : List Int) :
    bufferSharers (allocBuf h d) h.bufs.length = [] := by
  unfold bufferSharers
  rw [List.filter_eq_nil_iff]
  intro i _
  show ¬ (match h.objs[i]? with
    | some a => (ownBufs (allocBuf h d) a).contains h.bufs.length
    | none => false) = true
  cases ha : h.objs[i]? with
  | none => simp
  | some a =>
    have hown : ownBufs (allocBuf h d) a = ownBufs h a := ownBufs_congr (fun _ _ => rfl)
    simp only [hown, List.contains_iff_mem]
    intro hm
    have := w.ownBufs_lt (List.mem_of_getElem? ha) hm
    omega


/-- An operation that respects `query` or `fresh` writes through no handle and leaves the objects'
    store as it was before building. -/
theorem respects_no_writes {c : Contract} {op : RawOp} (hc : c = .query ∨ c = .fresh)
    (hr : op.respects c = true) : op.writes = [] := by
  have hw := respects_writes hr
  cases hws : op.writes with
  | nil => rfl
  | cons w ws =>
    have := hw w (by simp [hws])
    rcases hc with rfl | rfl <;> simp [RawOp.receivers] at this

end Splipy.Heap
