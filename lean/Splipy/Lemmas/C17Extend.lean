import Splipy.Lemmas.C17Inv

/-! Lemmas for C17: adding one node that represents a NEW class keeps the catalogue invariant. -/

namespace Splipy.MP

/-- what the two places that create a node (`lookupPoint`, `_add`) do to the state -/
structure NodeAdded (m m' : Model) (x : Obj) (lower : List (List ℕ)) : Prop where
  size : m'.nodes.size = m.nodes.size + 1
  lsize : m'.levels.size = m.levels.size
  new_obj : (m'.node m.nodes.size).obj = x
  new_lower : (m'.node m.nodes.size).lower = lower
  old_obj : ∀ k, k < m.nodes.size → (m'.node k).obj = (m.node k).obj
  old_lower : ∀ k, k < m.nodes.size → (m'.node k).lower = (m.node k).lower
  new_pardim : (m'.node m.nodes.size).pardim = x.pardim
  old_pardim : ∀ k, k < m.nodes.size → (m'.node k).pardim = (m.node k).pardim
  new_higher : (m'.node m.nodes.size).higher =
    List.replicate (lower.flatten.count m.nodes.size) (x.pardim, m.nodes.size)
  old_higher : ∀ j, j < m.nodes.size → (m'.node j).higher =
    (m.node j).higher ++ List.replicate (lower.flatten.count j) (x.pardim, m.nodes.size)
  cov : ∀ d, Cov (m.level d) → Cov (m'.level d)
  verts : m'.verts.toList = m.verts.toList ++
    (if x.pardim = 0 then [(pointKey x, m.nodes.size)] else [])
  get : ∀ d q, (m'.level d).get q =
    if d = x.pardim ∧ 1 ≤ x.pardim ∧ q.Perm (lower.getLastD []) then (m.level d).get q ++ [m.nodes.size]
    else (m.level d).get q

theorem NodeAdded.ext {m m' : Model} {x : Obj} {lower : List (List ℕ)} (h : NodeAdded m m' x lower) :
    Ext m m' :=
  ⟨by rw [h.size]; omega, h.lsize, h.old_obj, h.old_lower⟩

theorem NodeAdded.facets_old {m m' : Model} {x : Obj} {lower : List (List ℕ)}
    (h : NodeAdded m m' x lower) {c : ℕ} (hc : c < m.nodes.size) : facets m' c = facets m c := by
  unfold facets; rw [h.old_lower c hc]

theorem NodeAdded.facets_new {m m' : Model} {x : Obj} {lower : List (List ℕ)}
    (h : NodeAdded m m' x lower) : facets m' m.nodes.size = lower.getLastD [] := by
  unfold facets; rw [h.new_lower]

theorem NodeAdded.mem_get {m m' : Model} {x : Obj} {lower : List (List ℕ)}
    (h : NodeAdded m m' x lower) {d : ℕ} {q : List ℕ} {c : ℕ} (hc : c ∈ (m'.level d).get q) :
    c ∈ (m.level d).get q ∨
      (c = m.nodes.size ∧ d = x.pardim ∧ 1 ≤ x.pardim ∧ q.Perm (lower.getLastD [])) := by
  rw [h.get] at hc
  split at hc
  · next hcond =>
    rcases List.mem_append.1 hc with h1 | h1
    · exact Or.inl h1
    · exact Or.inr ⟨by simpa using h1, hcond⟩
  · exact Or.inl hc

theorem NodeAdded.get_mono {m m' : Model} {x : Obj} {lower : List (List ℕ)}
    (h : NodeAdded m m' x lower) {d : ℕ} {q : List ℕ} {c : ℕ} (hc : c ∈ (m.level d).get q) :
    c ∈ (m'.level d).get q := by
  rw [h.get]
  split
  · exact List.mem_append_left _ hc
  · exact hc

/-- **One new class.**  If `x` (from `S`, well-formed) is represented by no node of `m`, its lower
    links `lower` represent its sections in `m`, and `m'` is `m` plus one node for `x`
    (`NodeAdded`), then `m'` satisfies the invariant. -/
theorem Inv.extend {nc : ℕ} {S : Obj → Prop} {m m' : Model} {x : Obj} {lower : List (List ℕ)}
    (hI : Inv nc S m) (hA : NodeAdded m m' x lower)
    (hS : S x) (hx : GU nc x) (hpd : x.pardim < m.levels.size)
    (hfresh : ∀ c, c < m.nodes.size → ¬ Equiv (m.node c).obj x)
    (hkey : x.pardim = 0 → ∀ kv ∈ m.verts.toList, kv.1 ≠ pointKey x)
    (hlen : lower.length = x.pardim ∧
      ∀ i, i < x.pardim → (lower.getD i []).length = (sections x.pardim i).length)
    (hlow : ∀ i, i < x.pardim → ∀ j, j < (sections x.pardim i).length →
      Rep m ((lower.getD i []).getD j 0) (x.sect ((sections x.pardim i).getD j [])))
    (hlt : ∀ k ∈ lower.flatten, k < m.nodes.size) :
    Inv nc S m' := by
  have hE := hA.ext
  have hcase : ∀ c, c < m'.nodes.size → c < m.nodes.size ∨ c = m.nodes.size := by
    intro c hc; rw [hA.size] at hc; omega
  refine ⟨?_, ?_, ?_, ?_, ?_, ?_, ?_, ?_, ?_, ?_, ?_, ?_, ?_, ?_⟩
  · -- vkeys
    rw [hA.verts, List.map_append]
    by_cases h0 : x.pardim = 0
    · simp only [h0, if_true, List.map_cons, List.map_nil]
      rw [List.nodup_append]
      refine ⟨hI.vkeys, by simp, ?_⟩
      intro a ha b hb
      simp only [List.mem_singleton] at hb
      subst hb
      simp only [List.mem_map] at ha
      obtain ⟨kv, hkv, rfl⟩ := ha
      exact hkey h0 kv hkv
    · simp only [h0, if_false, List.map_nil, List.append_nil]
      exact hI.vkeys
  · -- vnode
    intro kv hkv
    rw [hA.verts] at hkv
    rcases List.mem_append.1 hkv with h1 | h1
    · obtain ⟨a, b, c⟩ := hI.vnode kv h1
      refine ⟨lt_of_lt_of_le a hE.size_le, ?_, ?_⟩
      · rw [hA.old_obj _ a]; exact b
      · rw [hA.old_obj _ a]; exact c
    · by_cases h0 : x.pardim = 0
      · simp only [h0, if_true, List.mem_singleton] at h1
        subst h1
        refine ⟨by rw [hA.size]; omega, ?_, ?_⟩
        · rw [hA.new_obj]; exact h0
        · rw [hA.new_obj]
      · simp [h0] at h1
  · -- vall
    intro c hc h0
    rcases hcase c hc with h1 | h1
    · rw [hA.old_obj c h1] at h0
      obtain ⟨kv, hkv, hk⟩ := hI.vall c h1 h0
      exact ⟨kv, by rw [hA.verts]; exact List.mem_append_left _ hkv, hk⟩
    · subst h1
      rw [hA.new_obj] at h0
      exact ⟨(pointKey x, m.nodes.size), by rw [hA.verts]; simp [h0], rfl⟩
  · -- orig
    intro c hc
    rw [hA.lsize]
    rcases hcase c hc with h1 | h1
    · rw [hA.old_obj c h1]; exact hI.orig c h1
    · subst h1; rw [hA.new_obj]; exact ⟨hS, hx, hpd⟩
  · -- lowshape
    intro c hc
    rcases hcase c hc with h1 | h1
    · rw [hA.old_obj c h1, hA.old_lower c h1]; exact hI.lowshape c h1
    · subst h1; rw [hA.new_obj, hA.new_lower]; exact hlen
  · -- low
    intro c hc
    rcases hcase c hc with h1 | h1
    · rw [hA.old_obj c h1, hA.old_lower c h1]
      intro i hi j hj
      exact (hI.low c h1 i hi j hj).ext hE
    · subst h1
      rw [hA.new_obj, hA.new_lower]
      intro i hi j hj
      exact (hlow i hi j hj).ext hE
  · -- filed
    intro c hc hpos
    rcases hcase c hc with h1 | h1
    · rw [hA.old_obj c h1] at hpos ⊢
      rw [hA.facets_old h1]
      exact hA.get_mono (hI.filed c h1 hpos)
    · subst h1
      rw [hA.new_obj] at hpos ⊢
      rw [hA.facets_new, hA.get, if_pos ⟨rfl, hpos, List.Perm.refl _⟩]
      simp
  · -- cand
    intro d q c hc
    rcases hA.mem_get hc with h1 | ⟨rfl, rfl, hpos, hq⟩
    · obtain ⟨a, b, e⟩ := hI.cand d q c h1
      refine ⟨lt_of_lt_of_le a hE.size_le, ?_, ?_⟩
      · rw [hA.old_obj c a]; exact b
      · rw [hA.facets_old a]; exact e
    · refine ⟨by rw [hA.size]; omega, by rw [hA.new_obj], ?_⟩
      rw [hA.facets_new]; exact hq.symm
  · -- closed
    intro d q q' hqq
    rw [hA.get, hA.get, hI.closed d q q' hqq]
    have : (d = x.pardim ∧ 1 ≤ x.pardim ∧ q.Perm (lower.getLastD [])) ↔
        (d = x.pardim ∧ 1 ≤ x.pardim ∧ q'.Perm (lower.getLastD [])) :=
      ⟨fun ⟨a, b, c⟩ => ⟨a, b, hqq.symm.trans c⟩, fun ⟨a, b, c⟩ => ⟨a, b, hqq.trans c⟩⟩
    by_cases hc : d = x.pardim ∧ 1 ≤ x.pardim ∧ q.Perm (lower.getLastD [])
    · rw [if_pos hc, if_pos (this.1 hc)]
    · rw [if_neg hc, if_neg (fun h => hc (this.2 h))]
  · -- uniq
    intro c c' hc hc' heq
    rcases hcase c hc with h1 | h1 <;> rcases hcase c' hc' with h2 | h2
    · rw [hA.old_obj c h1, hA.old_obj c' h2] at heq
      exact hI.uniq c c' h1 h2 heq
    · subst h2
      rw [hA.old_obj c h1, hA.new_obj] at heq
      exact absurd heq (hfresh c h1)
    · subst h1
      rw [hA.new_obj, hA.old_obj c' h2] at heq
      exact absurd (hx.equiv_symm (hI.gu h2) heq) (hfresh c' h2)
    · rw [h1, h2]

  · -- pdfield
    intro c hc
    rcases hcase c hc with h1 | h1
    · rw [hA.old_pardim c h1, hA.old_obj c h1]; exact hI.pdfield c h1
    · subst h1; rw [hA.new_pardim, hA.new_obj]
  · -- lowlt
    intro c hc k hk
    rcases hcase c hc with h1 | h1
    · rw [hA.old_lower c h1] at hk
      exact lt_of_lt_of_le (hI.lowlt c h1 k hk) hE.size_le
    · subst h1
      rw [hA.new_lower] at hk
      exact lt_of_lt_of_le (hlt k hk) hE.size_le
  · -- keys
    intro d; exact hA.cov d (hI.keys d)
  · -- high
    intro k hk d c
    have hnotin : lower.flatten.count m.nodes.size = 0 :=
      List.count_eq_zero.2 (fun h => absurd (hlt _ h) (lt_irrefl _))
    rcases hcase k hk with h1 | h1
    · rw [hA.old_higher k h1, List.count_append, hI.high k h1 d c, List.count_replicate]
      by_cases hc : c < m.nodes.size
      · have hne : ¬ ((x.pardim, m.nodes.size) == (d, c)) = true := by
          simp only [beq_iff_eq, Prod.mk.injEq, not_and]; intro _ h; omega
        rw [if_neg hne, hA.old_pardim c hc, hA.old_lower c hc]
        have hc' : c < m'.nodes.size := lt_of_lt_of_le hc hE.size_le
        simp [hc, hc']
      · by_cases hceq : c = m.nodes.size
        · subst hceq
          have hc' : m.nodes.size < m'.nodes.size := by rw [hA.size]; omega
          rw [hA.new_pardim, hA.new_lower]
          by_cases hd : x.pardim = d
          · simp [hc', hd]
          · have hne : ¬ ((x.pardim, m.nodes.size) == (d, m.nodes.size)) = true := by
              simp only [beq_iff_eq, Prod.mk.injEq, not_and]; intro h; exact absurd h hd
            simp [hc', hd, hne]
        · have hc' : ¬ c < m'.nodes.size := by rw [hA.size]; omega
          have hne : ¬ ((x.pardim, m.nodes.size) == (d, c)) = true := by
            simp only [beq_iff_eq, Prod.mk.injEq, not_and]; intro _ h; exact hceq h.symm
          simp [hc, hc', hne]
    · subst h1
      rw [hA.new_higher, hnotin, List.replicate_zero, List.count_nil]
      by_cases hc : c < m.nodes.size
      · have hc' : c < m'.nodes.size := lt_of_lt_of_le hc hE.size_le
        rw [hA.old_pardim c hc, hA.old_lower c hc]
        have : (m.node c).lower.flatten.count m.nodes.size = 0 :=
          List.count_eq_zero.2 (fun h => absurd (hI.lowlt c hc _ h) (lt_irrefl _))
        simp [hc', this]
      · by_cases hceq : c = m.nodes.size
        · subst hceq
          rw [hA.new_lower, hnotin]; simp
        · have hc' : ¬ c < m'.nodes.size := by rw [hA.size]; omega
          simp [hc']

end Splipy.MP
