import Splipy.Lemmas.C07OpenSplit
import Splipy.Lemmas.C08LowerEval

/-!
# Pieces of `split` and the real evaluator (curves)
-/

namespace Splipy

set_option linter.unusedSectionVars false
set_option linter.unusedVariables false

open C04 C10 Finset Bridge

variable {K : Type} [Field K] [LinearOrder K] [IsStrictOrderedRing K] [FloorRing K]

theorem splineDeriv_zero (s : Side) (τ : ℕ → K) (q n : ℕ) (c : ℕ → K) (t : K) :
    splineDeriv s τ q n c 0 t = splineVal s τ q n c t := by
  unfold splineDeriv splineVal
  exact Finset.sum_congr rfl (fun i _ => by rw [dB_zero])

/-- A piece of a curve evaluates (`Obj.evaluate`, the model of `SplineObject.evaluate`) to the
original curve at every admissible parameter of its sub-interval `[lv, hv)` (and at `hv` if that is
the end of the whole domain). -/
theorem PieceOK.evaluate_curve {o pc : Obj K} {b1 : Basis K} {lv hv : K} (hb : o.bases = #[b1])
    (hv1 : b1.Valid) (hper1 : b1.periodic = -1) {nc : ℕ} (hs : o.cps.shape = [b1.numFunctions, nc])
    (hnc : o.rational = true → 1 ≤ nc) (hP : PieceOK o 0 pc lv hv) (hhv : hv ≤ b1.stop)
    {tol : K} (htol : 0 < tol) {us : List K} (hus : ∀ u ∈ us, b1.Admissible tol u)
    (hus' : ∀ u ∈ us, (pc.basis 0).Admissible tol u)
    (hin : ∀ u ∈ us, lv ≤ u ∧ (u < hv ∨ (u = hv ∧ hv = b1.stop)))
    (hneA1 : b1.periodic < 0 → us ≠ [] := by (first | assumption | (simp; done) | skip))
    (hneA2 : (pc.basis 0).periodic < 0 → us ≠ [] := by (first | assumption | (simp; done) | skip)) :
    pc.evaluate tol [us] true = o.evaluate tol [us] true := by
  have hb0 : o.basis 0 = b1 := by simp [Obj.basis, hb]
  have hsz : pc.bases.size = 1 := by rw [hP.bases_size, hb]; rfl
  have hb' : pc.bases = #[pc.basis 0] := bases_singleton pc hsz
  have hvp : (pc.basis 0).Valid := hP.wf.valid 0 (by omega)
  have hlen := hP.wf.shape_length
  rw [hsz] at hlen
  have hg0 := hP.wf.shape_getD 0 0 (by omega)
  have hinn := hP.inner_eq
  unfold innerN at hinn
  rw [hs] at hinn
  have hs' : pc.cps.shape = [(pc.basis 0).numFunctions, nc] := by
    match hsh : pc.cps.shape, hlen with
    | [x, y], _ =>
      rw [hsh] at hg0 hinn
      simp only [List.getD_cons_zero] at hg0
      simp [Tensor.split3, Tensor.prod] at hinn
      rw [hg0, hinn]
  have hlvhv : lv < hv := by rw [← hP.start_eq, ← hP.stop_eq]; exact hvp.start_lt_stop
  refine (transfer_curve hb hb' hv1 hvp hs hs' hP.rational_eq hnc htol rfl hus hus'
    (fun p hp => ?_)).1
  intro a i ha hi
  set u := us.getD p 0 with hu
  have humem : u ∈ us := by
    rw [hu, List.getD_eq_getElem?_getD, List.getElem?_eq_getElem hp]; simp
  obtain ⟨hu1, hu2⟩ := hin u humem
  rw [specRow_sum hP.periodic_eq, specRow_sum hper1]
  have hside : effSide (pc.basis 0) u true = effSide b1 u true := by
    unfold effSide
    rw [hP.stop_eq]
    rcases hu2 with h | ⟨h, h'⟩
    · rw [if_neg (ne_of_lt h), if_neg (ne_of_lt (lt_of_lt_of_le h hhv))]
    · rw [if_pos h, if_pos (h.trans h')]
  have hmem : (effSide b1 u true).mem lv hv u := by
    unfold effSide
    rcases hu2 with h | ⟨h, h'⟩
    · rw [if_neg (ne_of_lt (lt_of_lt_of_le h hhv))]; exact ⟨hu1, h⟩
    · rw [if_pos (h.trans h')]; exact ⟨by rw [h]; exact hlvhv, le_of_eq h⟩
  have := hP.same a i ha hi (effSide b1 u true) 0 u hmem
  rw [splineDeriv_zero, splineDeriv_zero, hb0] at this
  rw [hside, hP.order_eq, hb0]
  exact this

end Splipy
