import Splipy.Lemmas.C15
import Splipy.Lemmas.LinearPrecision

/-!
# Coons blending: function level, control-net level, and the link between the two

`coonsMap`  : the bilinearly blended (Coons) map of four boundary maps;
`coonsNet`  : the control-net formula the model (`Obj.coonsPatch`) uses for inputs that already share
              their bases: linear blending with the Greville abscissae of the two bases;
`c15_coonsNet_eval` : the tensor-product spline with net `coonsNet` **is** `coonsMap` of the four
              boundary splines (partition of unity + linear precision), so the Greville formula is
              exactly what `make_splines_identical` + `+=`/`-=` of the three auxiliary surfaces
              compute in exact arithmetic;
`triMap`    : the trilinear transfinite interpolant of `edge_surfaces` (six faces).
-/

set_option linter.unusedSectionVars false

namespace Splipy

open Finset

/-! ## Function level (values in any module) -/

section Module

variable {R V : Type} [CommRing R] [AddCommGroup V] [Module R V]

/-- `S(u,v) = (1-v) b(u) + v t(u) + (1-u) l(v) + u r(v) - bilinear(b 0, b 1, t 0, t 1)`:
    what `coons_patch` builds as `s1 + s2 - s3` (`b,t` bottom/top in `u`; `l,r` left/right in `v`). -/
def coonsMap (b t l r : R → V) (u v : R) : V :=
  (1 - v) • b u + v • t u + (1 - u) • l v + u • r v
    - (((1 - u) * (1 - v)) • b 0 + (u * (1 - v)) • b 1 + ((1 - u) * v) • t 0 + (u * v) • t 1)

theorem c15_coonsMap_v0 (b t l r : R → V) (h00 : l 0 = b 0) (h10 : r 0 = b 1) (u : R) :
    coonsMap b t l r u 0 = b u := by
  unfold coonsMap; rw [h00, h10]; module

theorem c15_coonsMap_v1 (b t l r : R → V) (h01 : l 1 = t 0) (h11 : r 1 = t 1) (u : R) :
    coonsMap b t l r u 1 = t u := by
  unfold coonsMap; rw [h01, h11]; module

theorem c15_coonsMap_u0 (b t l r : R → V) (v : R) : coonsMap b t l r 0 v = l v := by
  unfold coonsMap; module

theorem c15_coonsMap_u1 (b t l r : R → V) (v : R) : coonsMap b t l r 1 v = r v := by
  unfold coonsMap; module

/-- Control-net formula with blending abscissae `ξ` (direction `u`, `n` points) and `η`
    (direction `v`); corners taken from `b` and `t` as in the code. -/
def coonsNet (ξ η : ℕ → R) (n : ℕ) (b t l r : ℕ → V) (i j : ℕ) : V :=
  (1 - η j) • b i + η j • t i + (1 - ξ i) • l j + ξ i • r j
    - (((1 - ξ i) * (1 - η j)) • b 0 + (ξ i * (1 - η j)) • b (n-1)
        + ((1 - ξ i) * η j) • t 0 + (ξ i * η j) • t (n-1))

theorem c15_coonsNet_j0 (ξ η : ℕ → R) (n : ℕ) (b t l r : ℕ → V) (hη : η 0 = 0)
    (h00 : l 0 = b 0) (h10 : r 0 = b (n-1)) (i : ℕ) : coonsNet ξ η n b t l r i 0 = b i := by
  unfold coonsNet; rw [hη, h00, h10]; module

theorem c15_coonsNet_jlast (ξ η : ℕ → R) (n m : ℕ) (b t l r : ℕ → V) (hη : η (m-1) = 1)
    (h01 : l (m-1) = t 0) (h11 : r (m-1) = t (n-1)) (i : ℕ) :
    coonsNet ξ η n b t l r i (m-1) = t i := by
  unfold coonsNet; rw [hη, h01, h11]; module

theorem c15_coonsNet_i0 (ξ η : ℕ → R) (n : ℕ) (b t l r : ℕ → V) (hξ : ξ 0 = 0) (j : ℕ) :
    coonsNet ξ η n b t l r 0 j = l j := by
  unfold coonsNet; rw [hξ]; module

theorem c15_coonsNet_ilast (ξ η : ℕ → R) (n : ℕ) (b t l r : ℕ → V) (hξ : ξ (n-1) = 1) (j : ℕ) :
    coonsNet ξ η n b t l r (n-1) j = r j := by
  unfold coonsNet; rw [hξ]; module

/-! ### Six faces -/

/-- Trilinear transfinite interpolant, with the pieces taken from the faces exactly as
    `edge_surfaces` takes them: `f a` = faces `u = a` (maps of `(v,w)`), `g b` = faces `v = b` (maps of
    `(u,w)`), `h c` = faces `w = c` (maps of `(u,v)`); the `w`-edges come from `f`, the `u`-edges from
    `g`, the `v`-edges from `h`, the corners from `f`. -/
def triMap (f0 f1 g0 g1 h0 h1 : R → R → V) (u v w : R) : V :=
  ((1 - u) • f0 v w + u • f1 v w) + ((1 - v) • g0 u w + v • g1 u w) + ((1 - w) • h0 u v + w • h1 u v)
  + (((1-u)*(1-v)*(1-w)) • f0 0 0 + ((1-u)*(1-v)*w) • f0 0 1 + ((1-u)*v*(1-w)) • f0 1 0
      + ((1-u)*v*w) • f0 1 1 + (u*(1-v)*(1-w)) • f1 0 0 + (u*(1-v)*w) • f1 0 1
      + (u*v*(1-w)) • f1 1 0 + (u*v*w) • f1 1 1)
  - (((1-u)*(1-v)) • f0 0 w + ((1-u)*v) • f0 1 w + (u*(1-v)) • f1 0 w + (u*v) • f1 1 w)
  - (((1-v)*(1-w)) • g0 u 0 + ((1-v)*w) • g0 u 1 + (v*(1-w)) • g1 u 0 + (v*w) • g1 u 1)
  - (((1-u)*(1-w)) • h0 0 v + ((1-u)*w) • h1 0 v + (u*(1-w)) • h0 1 v + (u*w) • h1 1 v)

/-- The twelve edge-compatibility conditions of a face sextuple. -/
structure FacesCompatible (f0 f1 g0 g1 h0 h1 : R → R → V) : Prop where
  fg00 : ∀ w, g0 0 w = f0 0 w
  fg01 : ∀ w, g1 0 w = f0 1 w
  fg10 : ∀ w, g0 1 w = f1 0 w
  fg11 : ∀ w, g1 1 w = f1 1 w
  fh00 : ∀ v, h0 0 v = f0 v 0
  fh01 : ∀ v, h1 0 v = f0 v 1
  fh10 : ∀ v, h0 1 v = f1 v 0
  fh11 : ∀ v, h1 1 v = f1 v 1
  gh00 : ∀ u, h0 u 0 = g0 u 0
  gh01 : ∀ u, h1 u 0 = g0 u 1
  gh10 : ∀ u, h0 u 1 = g1 u 0
  gh11 : ∀ u, h1 u 1 = g1 u 1

variable {f0 f1 g0 g1 h0 h1 : R → R → V}

theorem c15_triMap_u0 (hc : FacesCompatible f0 f1 g0 g1 h0 h1) (v w : R) :
    triMap f0 f1 g0 g1 h0 h1 0 v w = f0 v w := by
  unfold triMap
  rw [hc.fg00, hc.fg01, hc.fh00, hc.fh01, hc.fg00, hc.fg00, hc.fg01, hc.fg01]
  module

theorem c15_triMap_u1 (hc : FacesCompatible f0 f1 g0 g1 h0 h1) (v w : R) :
    triMap f0 f1 g0 g1 h0 h1 1 v w = f1 v w := by
  unfold triMap
  rw [hc.fg10, hc.fg11, hc.fh10, hc.fh11, hc.fg10, hc.fg10, hc.fg11, hc.fg11]
  module

theorem c15_triMap_v0 (hc : FacesCompatible f0 f1 g0 g1 h0 h1) (u w : R) :
    triMap f0 f1 g0 g1 h0 h1 u 0 w = g0 u w := by
  unfold triMap
  rw [hc.gh00, hc.gh01, hc.fh00, hc.fh01, hc.fh10, hc.fh11,
    ← hc.fg00 w, ← hc.fg10 w, ← hc.fg00 0, ← hc.fg00 1, ← hc.fg10 0, ← hc.fg10 1]
  module

theorem c15_triMap_v1 (hc : FacesCompatible f0 f1 g0 g1 h0 h1) (u w : R) :
    triMap f0 f1 g0 g1 h0 h1 u 1 w = g1 u w := by
  unfold triMap
  rw [hc.gh10, hc.gh11, hc.fh00, hc.fh01, hc.fh10, hc.fh11,
    ← hc.fg01 w, ← hc.fg11 w, ← hc.fg01 0, ← hc.fg01 1, ← hc.fg11 0, ← hc.fg11 1]
  module

theorem c15_triMap_w0 (hc : FacesCompatible f0 f1 g0 g1 h0 h1) (u v : R) :
    triMap f0 f1 g0 g1 h0 h1 u v 0 = h0 u v := by
  unfold triMap
  rw [← hc.gh00 u, ← hc.gh10 u, ← hc.fh00 v, ← hc.fh10 v, ← hc.fh00 0, ← hc.fh00 1, ← hc.fh10 0,
    ← hc.fh10 1]
  module

theorem c15_triMap_w1 (hc : FacesCompatible f0 f1 g0 g1 h0 h1) (u v : R) :
    triMap f0 f1 g0 g1 h0 h1 u v 1 = h1 u v := by
  unfold triMap
  rw [← hc.gh01 u, ← hc.gh11 u, ← hc.fh01 v, ← hc.fh11 v, ← hc.fh01 0, ← hc.fh01 1, ← hc.fh11 0,
    ← hc.fh11 1]
  module

end Module

/-! ## The Greville net evaluates to the Coons map -/

section Field

variable {K : Type} [Field K] [LinearOrder K] [IsStrictOrderedRing K]

/-- `Σ_j (α + β η_j + γ l_j + δ r_j) Y_j` with `ΣY = 1`, `Σ η Y = v`. -/
theorem c15_blend_sum (m : ℕ) (Y η l r : ℕ → K) (v : K) (h1 : ∑ j ∈ range m, Y j = 1)
    (hv : ∑ j ∈ range m, η j * Y j = v) (α β γ δ : K) :
    ∑ j ∈ range m, (α + β * η j + γ * l j + δ * r j) * Y j
      = α + β * v + γ * ∑ j ∈ range m, l j * Y j + δ * ∑ j ∈ range m, r j * Y j := by
  have e : ∀ j, (α + β * η j + γ * l j + δ * r j) * Y j
      = α * Y j + β * (η j * Y j) + γ * (l j * Y j) + δ * (r j * Y j) := fun j => by ring
  simp only [e, Finset.sum_add_distrib, ← Finset.mul_sum, h1, hv, mul_one]

/-- The tensor-product spline with the Greville-blended net is the Coons map of the four boundary
    splines.  `u` lies in span `μ1` of `τ1` and `v` in span `μ2` of `τ2`; `ξ, η` are the Greville
    abscissae of the two bases (domains `[0,1]` after `reparam`), `n ≥ μ1+1`, `m ≥ μ2+1`. -/
theorem c15_coonsNet_eval (s1 s2 : Side) (τ1 τ2 : ℕ → K) (h1 : Monotone τ1) (h2 : Monotone τ2)
    (q1 q2 μ1 μ2 n m : ℕ) (hq1 : 1 ≤ q1) (hq2 : 1 ≤ q2) (hμ1 : q1 ≤ μ1) (hμ2 : q2 ≤ μ2)
    (hn : μ1 < n) (hm : μ2 < m) (u v : K)
    (hu : s1.mem (τ1 μ1) (τ1 (μ1+1)) u) (hv : s2.mem (τ2 μ2) (τ2 (μ2+1)) v)
    (b t l r : ℕ → K) :
    splineVal s1 τ1 q1 n (fun i => splineVal s2 τ2 q2 m
        (coonsNet (grevilleAbscissa τ1 q1) (grevilleAbscissa τ2 q2) n b t l r i) v) u
      = (1 - v) * splineVal s1 τ1 q1 n b u + v * splineVal s1 τ1 q1 n t u
        + (1 - u) * splineVal s2 τ2 q2 m l v + u * splineVal s2 τ2 q2 m r v
        - ((1 - u) * (1 - v) * b 0 + u * (1 - v) * b (n-1) + (1 - u) * v * t 0 + u * v * t (n-1)) := by
  have X1 := B_sum_range_eq_one s1 τ1 h1 q1 μ1 n hμ1 hn u hu
  have Xu := linear_precision_range s1 τ1 h1 q1 μ1 n hq1 hμ1 hn u hu
  have Y1 := B_sum_range_eq_one s2 τ2 h2 q2 μ2 m hμ2 hm v hv
  have Yv := linear_precision_range s2 τ2 h2 q2 μ2 m hq2 hμ2 hm v hv
  set ξ := grevilleAbscissa τ1 q1
  set η := grevilleAbscissa τ2 q2
  -- inner sums
  have inner : ∀ i, splineVal s2 τ2 q2 m (coonsNet ξ η n b t l r i) v
      = (b i - ((1 - ξ i) * b 0 + ξ i * b (n-1)))
        + (t i - b i - ((1 - ξ i) * (t 0 - b 0) + ξ i * (t (n-1) - b (n-1)))) * v
        + (1 - ξ i) * splineVal s2 τ2 q2 m l v + ξ i * splineVal s2 τ2 q2 m r v := by
    intro i
    have := c15_blend_sum m (fun j => B s2 τ2 q2 j v) η l r v Y1 Yv
      (b i - ((1 - ξ i) * b 0 + ξ i * b (n-1)))
      (t i - b i - ((1 - ξ i) * (t 0 - b 0) + ξ i * (t (n-1) - b (n-1)))) (1 - ξ i) (ξ i)
    unfold splineVal at this ⊢
    rw [← this]
    apply Finset.sum_congr rfl
    intro j _
    simp only [coonsNet, smul_eq_mul]
    ring
  simp only [inner]
  set L := splineVal s2 τ2 q2 m l v
  set Rr := splineVal s2 τ2 q2 m r v
  -- outer sum: affine in (1, ξ_i, b_i, t_i)
  have e : ∀ i, ((b i - ((1 - ξ i) * b 0 + ξ i * b (n-1)))
        + (t i - b i - ((1 - ξ i) * (t 0 - b 0) + ξ i * (t (n-1) - b (n-1)))) * v
        + (1 - ξ i) * L + ξ i * Rr) * B s1 τ1 q1 i u
      = ((L - b 0 - (t 0 - b 0) * v)
          + (Rr - L + b 0 - b (n-1) + (t 0 - b 0 - (t (n-1) - b (n-1))) * v) * ξ i
          + (1 - v) * b i + v * t i) * B s1 τ1 q1 i u := fun i => by ring
  unfold splineVal
  simp only [e]
  have := c15_blend_sum n (fun i => B s1 τ1 q1 i u) ξ b t u X1 Xu
    (L - b 0 - (t 0 - b 0) * v)
    (Rr - L + b 0 - b (n-1) + (t 0 - b 0 - (t (n-1) - b (n-1))) * v) (1 - v) v
  rw [this]
  ring

/-- Greville abscissa of the first function of a basis clamped at the start. -/
theorem c15_greville_clamped_start (τ : ℕ → K) (hτ : Monotone τ) (q : ℕ) (hq : 1 ≤ q)
    (h : τ 0 = τ q) : grevilleAbscissa τ q 0 = τ q := by
  have hq0 : (q : K) ≠ 0 := Nat.cast_ne_zero.mpr (by omega)
  unfold grevilleAbscissa grevilleSum
  have : ∀ k ∈ range q, τ (0 + 1 + k) = τ q := by
    intro k hk
    have hk' := mem_range.mp hk
    exact le_antisymm (hτ (by omega)) (by rw [← h]; exact hτ (by omega))
  rw [Finset.sum_congr rfl this, Finset.sum_const, card_range, nsmul_eq_mul]
  field_simp

/-- Greville abscissa of the last function of a basis clamped at the end. -/
theorem c15_greville_clamped_end (τ : ℕ → K) (hτ : Monotone τ) (q n : ℕ) (hq : 1 ≤ q) (hn : 1 ≤ n)
    (h : τ n = τ (n + q)) : grevilleAbscissa τ q (n-1) = τ n := by
  have hq0 : (q : K) ≠ 0 := Nat.cast_ne_zero.mpr (by omega)
  unfold grevilleAbscissa grevilleSum
  have : ∀ k ∈ range q, τ (n - 1 + 1 + k) = τ n := by
    intro k hk
    have hk' := mem_range.mp hk
    exact le_antisymm (by rw [h]; exact hτ (by omega)) (hτ (by omega))
  rw [Finset.sum_congr rfl this, Finset.sum_const, card_range, nsmul_eq_mul]
  field_simp

end Field

end Splipy
