import Splipy.Lemmas.Basic
import Splipy.Lemmas.Boehm
import Mathlib.LinearAlgebra.Matrix.Determinant.Basic
import Mathlib.LinearAlgebra.Multilinear.Basic
import Splipy.Lemmas.LinearPrecision
import Mathlib.LinearAlgebra.Matrix.Nondegenerate
import Mathlib.LinearAlgebra.Matrix.NonsingularInverse
import Mathlib.LinearAlgebra.Matrix.ToLinearEquiv
import Splipy.Lemmas.Elevation
import Splipy.Lemmas.C05LinAlg
import Splipy.Lemmas.C05Geometry

/-!
# L16: Schoenberg–Whitney (sufficiency) and total positivity of the B-spline collocation matrix;
# `H_sw` of `C05_geometry_clamped` discharged

Everything is over an arbitrary ordered field `K` (no analysis, no limits): the proof is the
knot-insertion proof of total positivity (de Boor–DeVore 1985), made finite by inserting the
collocation points themselves until each has multiplicity `q`.

1. `det_cols_combo` — multilinear expansion of a determinant whose columns are two-term
   combinations (replaces Cauchy–Binet for the bidiagonal Boehm matrix).
2. `det_indicator` — determinant of a 0/1 matrix given by two strictly increasing index maps.
3. `colloc`, `SpanMult`, `Nested`; `B_row_of_sat`: at a knot of multiplicity `≥ q` the row of
   right-continuous B-spline values is a unit vector.
4. `tp_base` — base case (all points saturated).
5. `colloc_insert_expand`, `tp_step` — one Boehm insertion: `det N_τ[x;J] = Σ_s w_s · det N_σ[x;J_s]`
   with weights `w_s ≥ 0`; nesting is inherited by one explicit term with positive weight.
6. `tp_main`, **`colloc_det_nonneg_pos`** — for strictly increasing points `x a ≥ τ q` and strictly
   increasing B-spline indices `J`: `det [B_{J b}(x a)] ≥ 0`, and `> 0` if
   `τ (J a) < x a < τ (J a + q + 1)` for all `a` (Schoenberg–Whitney, sufficiency; degree `q ≥ 1`).
7. Greville abscissae of a clamped knot vector with interior multiplicities `≤ q` are nested.
8. `NestedPts`, **`clamped_colloc_injective`**, `collocMat_det_ne_zero`,
   `clamped_colloc_left_inverse` — the full `n × n` collocation matrix of a clamped knot vector at
   nested points (first point = domain start, last point = domain end with the left limit, as
   `Basis.evaluate` does) is non-singular; **`greville_colloc_injective`**, `grevMat_det_ne_zero`,
   `greville_colloc_left_inverse` — the Greville instance; `NestedPts.perturb`, `greville_margins` —
   stability under perturbations `< tol` (what `snap` does).
9. Bridge to the executable model: `colloc_invChecked_ok` (abstract), `greville_invChecked_ok`
   (exact Greville points), `greville_invChecked_ok_gap` (distinct knots `≥ 2(p-1)·tol` apart, no
   exactness assumption), and for the knot vectors of `C05_knots`:
   `greville_invChecked_clamped`, `greville_invChecked_clamped_gap`, and, literally the hypothesis
   `H_sw` of `C05_geometry_clamped`: **`H_sw_clamped_exact`**, **`H_sw_clamped_gap`**.
   The examples at the end show that the extra hypothesis cannot be dropped: with distinct knots
   merely more than `tol` apart `snap` can merge two Greville points and the model's matrix is
   singular (`LinAlgError`).
-/

namespace Splipy

open Finset

set_option linter.unusedSectionVars false

variable {K : Type} [Field K] [LinearOrder K] [IsStrictOrderedRing K]

/-! ## 1. Linear algebra: determinant of a matrix whose columns are two-term combinations -/

/-- Column-wise multilinear expansion of a determinant. -/
theorem det_cols_combo {m : ℕ} (u u' : Fin m → Fin m → K) (A A' : Fin m → K) :
    Matrix.det (Matrix.of fun a b => A b * u b a + A' b * u' b a)
      = ∑ s : Finset (Fin m), (∏ b, if b ∈ s then A b else A' b)
          * Matrix.det (Matrix.of fun a b => if b ∈ s then u b a else u' b a) := by
  classical
  have h1 : Matrix.det (Matrix.of fun a b => A b * u b a + A' b * u' b a)
      = (Matrix.detRowAlternating (R := K) (n := Fin m)).toMultilinearMap
          ((fun b => A b • u b) + (fun b => A' b • u' b)) := by
    rw [← Matrix.det_transpose]
    rfl
  rw [h1, MultilinearMap.map_add_univ]
  apply Finset.sum_congr rfl
  intro s _
  have h2 : s.piecewise (fun b => A b • u b) (fun b => A' b • u' b)
      = fun b => (if b ∈ s then A b else A' b) • (s.piecewise u u') b := by
    funext b
    by_cases hb : b ∈ s <;> simp [hb]
  rw [h2, MultilinearMap.map_smul_univ, smul_eq_mul]
  congr 1
  have h3 : Matrix.det (Matrix.of fun a b => if b ∈ s then u b a else u' b a)
      = (Matrix.detRowAlternating (R := K) (n := Fin m)).toMultilinearMap (s.piecewise u u') := by
    rw [← Matrix.det_transpose]
    show Matrix.det _ = Matrix.det _
    congr 1
    funext b a
    by_cases hb : b ∈ s <;> simp [hb, Matrix.transpose_apply]
  rw [h3]

/-! ## 2. Determinant of a 0/1 matrix given by two strictly increasing index maps -/

theorem indicator_eq_of_no_zero {m : ℕ} (p J : Fin m → ℕ) (hp : StrictMono p) (hJ : StrictMono J)
    (hrow : ∀ a, ∃ b, J b = p a) (hcol : ∀ b, ∃ a, J b = p a) : p = J := by
  have key : ∀ n : ℕ, ∀ a : Fin m, a.val = n → p a = J a := by
    intro n
    induction n using Nat.strong_induction_on with
    | _ n ih =>
      intro a ha
      have ih' : ∀ a' : Fin m, a' < a → p a' = J a' := fun a' h =>
        ih a'.val (by rw [← ha]; exact h) a' rfl
      rcases lt_trichotomy (p a) (J a) with h | h | h
      · exfalso
        obtain ⟨b, hb⟩ := hrow a
        have hba : b < a := hJ.lt_iff_lt.mp (by rw [hb]; exact h)
        have h1 := ih' b hba
        have h2 := hp hba
        omega
      · exact h
      · exfalso
        obtain ⟨a', ha'⟩ := hcol a
        rcases lt_or_ge a' a with h1 | h1
        · have h2 := ih' a' h1
          have h3 := hJ h1
          omega
        · have h2 := hp.monotone h1
          omega
  funext a
  exact key a.val a rfl

theorem det_indicator {m : ℕ} (p J : Fin m → ℕ) (hp : StrictMono p) (hJ : StrictMono J) :
    (p = J → Matrix.det (Matrix.of fun a b => if J b = p a then (1 : K) else 0) = 1) ∧
    (p ≠ J → Matrix.det (Matrix.of fun a b => if J b = p a then (1 : K) else 0) = 0) := by
  constructor
  · intro h
    subst h
    have : (Matrix.of fun a b => if p b = p a then (1 : K) else 0) = 1 := by
      ext a b
      simp only [Matrix.of_apply, Matrix.one_apply]
      by_cases hab : a = b
      · subst hab; simp
      · have : p b ≠ p a := fun h => hab (hp.injective h).symm
        simp [hab, this]
    rw [this, Matrix.det_one]
  · intro hne
    by_contra hdet
    apply hne
    apply indicator_eq_of_no_zero p J hp hJ
    · intro a
      by_contra hno
      push Not at hno
      apply hdet
      apply Matrix.det_eq_zero_of_row_eq_zero a
      intro b
      simp [hno b]
    · intro b
      by_contra hno
      push Not at hno
      apply hdet
      apply Matrix.det_eq_zero_of_column_eq_zero b
      intro a
      simp [hno a]

/-! ## 3. The collocation matrix; saturated points -/

/-- Collocation matrix of the (right-continuous) B-splines `J b` at the points `x a`. -/
def colloc (τ : ℕ → K) (q : ℕ) {m : ℕ} (x : Fin m → K) (J : Fin m → ℕ) :
    Matrix (Fin m) (Fin m) K :=
  Matrix.of fun a b => B .right τ q (J b) (x a)

/-- `z` lies in the knot span `[τ μ, τ (μ+1))`, `μ ≥ q`, and the `r ≤ q` knots
`τ (μ-r+1), …, τ μ` are equal to `z`. -/
def SpanMult (τ : ℕ → K) (q : ℕ) (z : K) (r μ : ℕ) : Prop :=
  q ≤ μ ∧ τ μ ≤ z ∧ z < τ (μ+1) ∧ r ≤ q ∧ ∀ j, μ + 1 ≤ j + r → j ≤ μ → τ j = z

/-- Open nesting of points and supports. -/
def Nested (τ : ℕ → K) (q : ℕ) {m : ℕ} (x : Fin m → K) (J : Fin m → ℕ) : Prop :=
  ∀ a, τ (J a) < x a ∧ x a < τ (J a + q + 1)

theorem B_eq_one_of_sat (τ : ℕ → K) (hτ : Monotone τ) (q p : ℕ) (hq : 1 ≤ q) (z : K)
    (h1 : τ (p+1) = z) (h2 : τ (p+q) = z) (h3 : z < τ (p+q+1)) : B .right τ q p z = 1 := by
  obtain ⟨q, rfl⟩ : ∃ q', q = q'+1 := ⟨q-1, by omega⟩
  have e1 : p + 1 + q = p + (q+1) := by omega
  have hA : B .right τ q p z = 0 := by
    apply B_support_right τ hτ
    right
    rw [show p + q + 1 = p + (q+1) by omega, h2]
  have hB : B .right τ q (p+1) z = 1 := by
    have := B_right_eq_one_of_clamped τ hτ q (p+1) (by rw [e1, h1, h2])
      (by rw [e1, h2]; exact h3)
    rw [h1] at this
    exact this
  rw [B_succ, hA, hB, h1]
  have e2 : p + q + 2 = p + (q+1) + 1 := by omega
  rw [e2]
  have : τ (p + (q+1) + 1) - z ≠ 0 := ne_of_gt (sub_pos.2 h3)
  rw [div_self this]
  ring

/-- At a point of multiplicity `≥ q` the row of the collocation matrix is a unit vector. -/
theorem B_row_of_sat (τ : ℕ → K) (hτ : Monotone τ) (q : ℕ) (hq : 1 ≤ q) (z : K) (μ : ℕ)
    (h : SpanMult τ q z q μ) (j : ℕ) :
    B .right τ q j z = if j = μ - q then 1 else 0 := by
  obtain ⟨hqμ, hlo, hhi, _, hm⟩ := h
  have hmem : Side.right.mem (τ μ) (τ (μ+1)) z := ⟨hlo, hhi⟩
  have hp : B .right τ q (μ - q) z = 1 := by
    apply B_eq_one_of_sat τ hτ q (μ - q) hq z
    · exact hm _ (by omega) (by omega)
    · exact hm _ (by omega) (by omega)
    · rw [show μ - q + q + 1 = μ + 1 by omega]; exact hhi
  by_cases hj : j = μ - q
  · rw [if_pos hj, hj, hp]
  rw [if_neg hj]
  rcases Nat.lt_or_ge j (μ - q) with h1 | h1
  · exact B_eq_zero_of_mem_of_le .right τ hτ q j μ z hmem (by omega)
  rcases Nat.lt_or_ge μ j with h2 | h2
  · exact B_eq_zero_of_mem_of_gt .right τ hτ q j μ z hmem h2
  have hpart := B_partition .right τ hτ q μ hqμ z hmem
  have hmemp : μ - q ∈ Finset.Icc (μ - q) μ := Finset.mem_Icc.2 ⟨le_refl _, by omega⟩
  rw [← Finset.add_sum_erase _ _ hmemp, hp] at hpart
  have hz : ∑ i ∈ (Finset.Icc (μ - q) μ).erase (μ - q), B .right τ q i z = 0 := by
    linarith
  rw [Finset.sum_eq_zero_iff_of_nonneg (fun i _ => B_nonneg .right τ hτ q i z)] at hz
  exact hz j (Finset.mem_erase.2 ⟨hj, Finset.mem_Icc.2 ⟨h1, h2⟩⟩)

/-! ## 4. Base case: every point is a knot of multiplicity `≥ q` -/

theorem lt_of_tau_lt {τ : ℕ → K} (hτ : Monotone τ) {i j : ℕ} (h : τ i < τ j) : i < j := by
  by_contra hn
  exact absurd (hτ (not_lt.1 hn)) (not_le.2 h)

theorem tp_base (τ : ℕ → K) (hτ : Monotone τ) (q : ℕ) (hq : 1 ≤ q) {m : ℕ} (x : Fin m → K)
    (hx : StrictMono x) (μ : Fin m → ℕ) (hs : ∀ a, SpanMult τ q (x a) q (μ a))
    (J : Fin m → ℕ) (hJ : StrictMono J) :
    0 ≤ Matrix.det (colloc τ q x J) ∧ (Nested τ q x J → 0 < Matrix.det (colloc τ q x J)) := by
  have hμx : ∀ a, τ (μ a) = x a := fun a => (hs a).2.2.2.2 _ (by omega) (le_refl _)
  have hμ : StrictMono μ := by
    intro a a' haa'
    apply lt_of_tau_lt hτ
    rw [hμx, hμx]
    exact hx haa'
  have hp : StrictMono (fun a => μ a - q) := by
    intro a a' haa'
    have h1 := hμ haa'
    have h2 := (hs a).1
    show μ a - q < μ a' - q
    omega
  have hM : colloc τ q x J = Matrix.of fun a b => if J b = μ a - q then (1 : K) else 0 := by
    ext a b
    simp only [colloc, Matrix.of_apply]
    exact B_row_of_sat τ hτ q hq (x a) (μ a) (hs a) (J b)
  rw [hM]
  obtain ⟨d1, d0⟩ := det_indicator (K := K) (fun a => μ a - q) J hp hJ
  by_cases hpJ : (fun a => μ a - q) = J
  · rw [d1 hpJ]
    exact ⟨zero_le_one, fun _ => zero_lt_one⟩
  · rw [d0 hpJ]
    refine ⟨le_refl 0, fun hn => ?_⟩
    exfalso
    apply hpJ
    funext a
    obtain ⟨hqμ, _, _, _, hm⟩ := hs a
    obtain ⟨n1, n2⟩ := hn a
    have e1 : τ (μ a - q + 1) = x a := hm _ (by omega) (by omega)
    rw [← e1] at n1
    rw [← hμx a] at n2
    have := lt_of_tau_lt hτ n1
    have := lt_of_tau_lt hτ n2
    show μ a - q = J a
    omega

/-! ## 5. One knot insertion: nesting is inherited by a shifted index -/

section step

variable (τ : ℕ → K) (hτ : Monotone τ) (q μ : ℕ) (z : K)
  (hlo : τ μ ≤ z) (hhi : z < τ (μ+1))

include hτ hlo hhi

theorem ins_bounds : (∀ j, j < μ+1 → τ j ≤ z) ∧ (∀ j, μ+1 ≤ j → z ≤ τ j) :=
  ⟨fun _ hj => le_trans (hτ (by omega)) hlo, fun _ hj => le_trans hhi.le (hτ hj)⟩

theorem ins_mono : Monotone (insertSeq τ (μ+1) z) :=
  bo_insertSeq_mono τ hτ (μ+1) z (ins_bounds τ hτ μ z hlo hhi).1 (ins_bounds τ hτ μ z hlo hhi).2

theorem alpha_nonneg' (i : ℕ) : 0 ≤ boehmAlpha τ (μ+1) z q i := by
  unfold boehmAlpha
  split_ifs with h1 h2
  · exact zero_le_one
  · exact le_refl 0
  · exact div_nonneg (sub_nonneg.2 ((ins_bounds τ hτ μ z hlo hhi).1 i (by omega)))
      (sub_nonneg.2 (hτ (by omega)))

theorem alpha_le_one' (i : ℕ) : boehmAlpha τ (μ+1) z q i ≤ 1 := by
  unfold boehmAlpha
  split_ifs with h1 h2
  · exact le_refl 1
  · exact zero_le_one
  · exact div_le_one_of_le₀ (sub_le_sub_right ((ins_bounds τ hτ μ z hlo hhi).2 (i+q) (by omega)) _)
      (sub_nonneg.2 (hτ (by omega)))

/-- A point left of (or at) the inserted knot keeps its index. -/
theorem nest_step_left (j : ℕ) (t : K) (h1 : τ j < t) (h2 : t < τ (j+q+1)) (htz : t ≤ z)
    (heq : t = z → μ + 1 ≤ j + q) :
    0 < boehmAlpha τ (μ+1) z q j ∧ insertSeq τ (μ+1) z j < t ∧ t < insertSeq τ (μ+1) z (j+q+1) := by
  have hj : j < μ + 1 := by
    by_contra hn
    have := hτ (not_lt.1 hn)
    exact absurd (lt_of_lt_of_le (lt_of_le_of_lt htz hhi) this) (not_lt.2 h1.le)
  refine ⟨?_, ?_, ?_⟩
  · rcases Nat.lt_or_ge (j+q) (μ+1) with h | h
    · rw [bo_alpha_one h]; exact zero_lt_one
    · rw [bo_alpha_mid hj h rfl]
      apply div_pos (sub_pos.2 (lt_of_lt_of_le h1 htz))
      exact sub_pos.2 (lt_of_lt_of_le (lt_of_lt_of_le h1 htz) (le_trans hhi.le (hτ h)))
  · rw [bo_ins_lt hj]; exact h1
  · rcases lt_trichotomy (j+q+1) (μ+1) with h | h | h
    · rw [bo_ins_lt h]; exact h2
    · rw [h, bo_ins_self]
      rcases lt_or_eq_of_le htz with h3 | h3
      · exact h3
      · have := heq h3; omega
    · rw [bo_ins_gt (show μ + 1 ≤ j + q by omega) rfl]
      exact lt_of_le_of_lt htz (lt_of_lt_of_le hhi (hτ (by omega)))

/-- A point right of (or at) the inserted knot moves to the next index. -/
theorem nest_step_right (j : ℕ) (t : K) (h1 : τ j < t) (h2 : t < τ (j+q+1)) (htz : z ≤ t)
    (heq : t = z → j + q ≤ μ) (hmult : τ (μ + 1 - q) < z) (hq : 1 ≤ q) (hqμ : q ≤ μ) :
    0 < 1 - boehmAlpha τ (μ+1) z q (j+1) ∧ insertSeq τ (μ+1) z (j+1) < t
      ∧ t < insertSeq τ (μ+1) z (j+1+q+1) := by
  have hzq : z < τ (j+q+1) := lt_of_le_of_lt htz h2
  have hjq : μ < j + q + 1 := by
    by_contra hn
    have := hτ (not_lt.1 hn)
    exact absurd (lt_of_lt_of_le hzq (le_trans this hlo)) (lt_irrefl _)
  refine ⟨?_, ?_, ?_⟩
  · rcases Nat.lt_or_ge (j+1) (μ+1) with h | h
    · rw [bo_alpha_mid h (show μ + 1 ≤ j + 1 + q by omega) rfl, sub_pos]
      have e : j + 1 + q = j + q + 1 := by omega
      rw [e]
      have hj1 : τ (j+1) ≤ z := le_trans (hτ (by omega)) hlo
      rw [div_lt_one (sub_pos.2 (lt_of_le_of_lt hj1 hzq))]
      exact sub_lt_sub_right hzq _
    · rw [bo_alpha_zero h]; simp
  · rcases lt_trichotomy (j+1) (μ+1) with h | h | h
    · rw [bo_ins_lt h]
      rcases lt_or_eq_of_le htz with h3 | h3
      · exact lt_of_le_of_lt (le_trans (hτ (by omega)) hlo) h3
      · have := heq h3.symm
        rw [← h3]
        exact lt_of_le_of_lt (hτ (by omega)) hmult
    · rw [h, bo_ins_self]
      rcases lt_or_eq_of_le htz with h3 | h3
      · exact h3
      · have := heq h3.symm; omega
    · rw [bo_ins_gt (show μ + 1 ≤ j by omega) rfl]; exact h1
  · rw [bo_ins_gt (show μ + 1 ≤ j + q + 1 by omega) (by omega)]
    exact h2

/-- Determinant expansion under one knot insertion. -/
theorem colloc_insert_expand {m : ℕ} (x : Fin m → K) (J : Fin m → ℕ) :
    Matrix.det (colloc τ q x J)
      = ∑ s : Finset (Fin m),
          (∏ b, if b ∈ s then boehmAlpha τ (μ+1) z q (J b) else 1 - boehmAlpha τ (μ+1) z q (J b + 1))
          * Matrix.det (colloc (insertSeq τ (μ+1) z) q x (fun b => if b ∈ s then J b else J b + 1)) := by
  have h1 : colloc τ q x J = Matrix.of fun a b =>
      boehmAlpha τ (μ+1) z q (J b) * B .right (insertSeq τ (μ+1) z) q (J b) (x a)
      + (1 - boehmAlpha τ (μ+1) z q (J b + 1)) * B .right (insertSeq τ (μ+1) z) q (J b + 1) (x a) := by
    ext a b
    simp only [colloc, Matrix.of_apply]
    exact boehm .right τ hτ (μ+1) z (by omega) ⟨hlo, hhi.le⟩ q (J b) (x a)
  rw [h1, det_cols_combo (fun b a => B .right (insertSeq τ (μ+1) z) q (J b) (x a))
    (fun b a => B .right (insertSeq τ (μ+1) z) q (J b + 1) (x a))]
  apply Finset.sum_congr rfl
  intro s _
  congr 2
  ext a b
  simp only [colloc, Matrix.of_apply]
  split_ifs <;> rfl

theorem tp_step (hq : 1 ≤ q) (hqμ : q ≤ μ) {m : ℕ} (x : Fin m → K) (hx : StrictMono x)
    (hmult : τ (μ + 1 - q) < z)
    (hIH : ∀ J' : Fin m → ℕ, StrictMono J' →
      0 ≤ Matrix.det (colloc (insertSeq τ (μ+1) z) q x J') ∧
      (Nested (insertSeq τ (μ+1) z) q x J' → 0 < Matrix.det (colloc (insertSeq τ (μ+1) z) q x J')))
    (J : Fin m → ℕ) (hJ : StrictMono J) :
    0 ≤ Matrix.det (colloc τ q x J) ∧ (Nested τ q x J → 0 < Matrix.det (colloc τ q x J)) := by
  classical
  rw [colloc_insert_expand τ hτ q μ z hlo hhi x J]
  have hw : ∀ (s : Finset (Fin m)) (b : Fin m),
      0 ≤ (if b ∈ s then boehmAlpha τ (μ+1) z q (J b) else 1 - boehmAlpha τ (μ+1) z q (J b + 1)) := by
    intro s b
    split_ifs
    · exact alpha_nonneg' τ hτ q μ z hlo hhi _
    · exact sub_nonneg.2 (alpha_le_one' τ hτ q μ z hlo hhi _)
  have hdet : ∀ s : Finset (Fin m),
      0 ≤ Matrix.det (colloc (insertSeq τ (μ+1) z) q x (fun b => if b ∈ s then J b else J b + 1)) := by
    intro s
    by_cases hs : StrictMono (fun b => if b ∈ s then J b else J b + 1)
    · exact (hIH _ hs).1
    · have hmono : Monotone (fun b => if b ∈ s then J b else J b + 1) := by
        intro b b' hbb'
        rcases eq_or_lt_of_le hbb' with h | h
        · rw [h]
        · have := hJ h
          show (if b ∈ s then J b else J b + 1) ≤ (if b' ∈ s then J b' else J b' + 1)
          split_ifs <;> omega
      have hinj : ¬ Function.Injective (fun b => if b ∈ s then J b else J b + 1) :=
        fun hi => hs (hmono.strictMono_of_injective hi)
      unfold Function.Injective at hinj
      push Not at hinj
      obtain ⟨b, b', heq, hne⟩ := hinj
      rw [Matrix.det_zero_of_column_eq hne]
      intro k
      simp only [colloc, Matrix.of_apply]
      rw [show (if b ∈ s then J b else J b + 1) = (if b' ∈ s then J b' else J b' + 1) from heq]
  have hterm : ∀ s : Finset (Fin m), 0 ≤
      (∏ b, if b ∈ s then boehmAlpha τ (μ+1) z q (J b) else 1 - boehmAlpha τ (μ+1) z q (J b + 1))
      * Matrix.det (colloc (insertSeq τ (μ+1) z) q x (fun b => if b ∈ s then J b else J b + 1)) :=
    fun s => mul_nonneg (Finset.prod_nonneg (fun b _ => hw s b)) (hdet s)
  refine ⟨Finset.sum_nonneg (fun s _ => hterm s), fun hn => ?_⟩
  apply Finset.sum_pos' (fun s _ => hterm s)
  let s0 : Finset (Fin m) := Finset.univ.filter (fun b => x b < z ∨ (x b = z ∧ μ + 1 ≤ J b + q))
  have hs0 : ∀ b, b ∈ s0 ↔ (x b < z ∨ (x b = z ∧ μ + 1 ≤ J b + q)) := by
    intro b; simp [s0]
  refine ⟨s0, Finset.mem_univ _, ?_⟩
  have hL : ∀ b, b ∈ s0 → 0 < boehmAlpha τ (μ+1) z q (J b) ∧ insertSeq τ (μ+1) z (J b) < x b ∧
      x b < insertSeq τ (μ+1) z (J b + q + 1) := by
    intro b hb
    rw [hs0] at hb
    apply nest_step_left τ hτ q μ z hlo hhi (J b) (x b) (hn b).1 (hn b).2
    · rcases hb with h | h
      · exact h.le
      · exact h.1.le
    · intro he
      rcases hb with h | h
      · exact absurd he (ne_of_lt h)
      · exact h.2
  have hR : ∀ b, b ∉ s0 → 0 < 1 - boehmAlpha τ (μ+1) z q (J b + 1) ∧
      insertSeq τ (μ+1) z (J b + 1) < x b ∧ x b < insertSeq τ (μ+1) z (J b + 1 + q + 1) := by
    intro b hb
    rw [hs0] at hb
    push Not at hb
    apply nest_step_right τ hτ q μ z hlo hhi (J b) (x b) (hn b).1 (hn b).2 hb.1
    · intro he
      have := hb.2 he
      omega
    · exact hmult
    · exact hq
    · exact hqμ
  apply mul_pos
  · apply Finset.prod_pos
    intro b _
    by_cases hb : b ∈ s0
    · rw [if_pos hb]; exact (hL b hb).1
    · rw [if_neg hb]; exact (hR b hb).1
  · have hsm : StrictMono (fun b => if b ∈ s0 then J b else J b + 1) := by
      intro b b' hbb'
      have hJ' := hJ hbb'
      have hx' := hx hbb'
      show (if b ∈ s0 then J b else J b + 1) < (if b' ∈ s0 then J b' else J b' + 1)
      by_cases hb' : b' ∈ s0
      · have hb : b ∈ s0 := by
          rw [hs0] at hb' ⊢
          left
          rcases hb' with h | h
          · exact lt_trans hx' h
          · rw [← h.1]; exact hx'
        rw [if_pos hb, if_pos hb']; exact hJ'
      · rw [if_neg hb']
        split_ifs <;> omega
    apply (hIH _ hsm).2
    intro b
    show insertSeq τ (μ+1) z (if b ∈ s0 then J b else J b + 1) < x b ∧
      x b < insertSeq τ (μ+1) z ((if b ∈ s0 then J b else J b + 1) + q + 1)
    by_cases hb : b ∈ s0
    · rw [if_pos hb]; exact (hL b hb).2
    · rw [if_neg hb]; exact (hR b hb).2

theorem spanMult_insert_self (r : ℕ) (h : SpanMult τ q z r μ) (hr : r < q) :
    SpanMult (insertSeq τ (μ+1) z) q z (r+1) (μ+1) := by
  obtain ⟨h1, _, _, _, h5⟩ := h
  refine ⟨by omega, ?_, ?_, hr, ?_⟩
  · rw [bo_ins_self]
  · rw [bo_ins_gt (le_refl (μ+1)) rfl]; exact hhi
  · intro j hj1 hj2
    rcases Nat.lt_or_ge j (μ+1) with h | h
    · rw [bo_ins_lt h]; exact h5 j (by omega) (by omega)
    · rw [show j = μ + 1 by omega, bo_ins_self]

theorem spanMult_insert_lt (t : K) (r' μ' : ℕ) (h : SpanMult τ q t r' μ') (ht : t < z) :
    SpanMult (insertSeq τ (μ+1) z) q t r' μ' := by
  obtain ⟨h1, h2, h3, h4, h5⟩ := h
  have hμ' : μ' < μ + 1 := lt_of_tau_lt hτ (lt_of_le_of_lt h2 (lt_trans ht hhi))
  refine ⟨h1, ?_, ?_, h4, ?_⟩
  · rw [bo_ins_lt hμ']; exact h2
  · rcases Nat.lt_or_ge (μ'+1) (μ+1) with h | h
    · rw [bo_ins_lt h]; exact h3
    · rw [show μ' + 1 = μ + 1 by omega, bo_ins_self]; exact ht
  · intro j hj1 hj2
    rw [bo_ins_lt (by omega)]; exact h5 j hj1 hj2

theorem spanMult_insert_gt (t : K) (r' μ' : ℕ) (h : SpanMult τ q t r' μ') (ht : z < t) :
    SpanMult (insertSeq τ (μ+1) z) q t r' (μ'+1) := by
  obtain ⟨h1, h2, h3, h4, h5⟩ := h
  have hμ' : μ < μ' + 1 := lt_of_tau_lt hτ (lt_of_le_of_lt hlo (lt_trans ht h3))
  refine ⟨by omega, ?_, ?_, h4, ?_⟩
  · rcases Nat.lt_or_ge μ μ' with h | h
    · obtain ⟨k, rfl⟩ : ∃ k, μ' = k + 1 := ⟨μ' - 1, by omega⟩
      rw [bo_ins_gt (show μ + 1 ≤ k + 1 by omega) rfl]; exact h2
    · rw [show μ' + 1 = μ + 1 by omega, bo_ins_self]; exact ht.le
  · rw [bo_ins_gt (show μ + 1 ≤ μ' + 1 by omega) rfl]; exact h3
  · intro j hj1 hj2
    obtain ⟨k, rfl⟩ : ∃ k, j = k + 1 := ⟨j - 1, by omega⟩
    have hk : τ k = t := h5 k (by omega) (by omega)
    have hμk : μ < k := lt_of_tau_lt hτ (by rw [hk]; exact lt_of_le_of_lt hlo ht)
    rw [bo_ins_gt (show μ + 1 ≤ k by omega) rfl]; exact hk

end step

/-! ## 6. Total positivity of the collocation matrix -/

theorem tp_main (q : ℕ) (hq : 1 ≤ q) {m : ℕ} (x : Fin m → K) (hx : StrictMono x) :
    ∀ (D : ℕ) (τ : ℕ → K), Monotone τ → ∀ (r μ : Fin m → ℕ),
      (∀ a, SpanMult τ q (x a) (r a) (μ a)) → (∑ a, (q - r a)) = D →
      ∀ J : Fin m → ℕ, StrictMono J →
        0 ≤ Matrix.det (colloc τ q x J) ∧ (Nested τ q x J → 0 < Matrix.det (colloc τ q x J)) := by
  classical
  intro D
  induction D with
  | zero =>
    intro τ hτ r μ hs hD J hJ
    have hr : ∀ a, r a = q := by
      intro a
      have h0 := (Finset.sum_eq_zero_iff.1 hD) a (Finset.mem_univ a)
      have h1 := (hs a).2.2.2.1
      omega
    exact tp_base τ hτ q hq x hx μ (fun a => by have := hs a; rw [hr a] at this; exact this) J hJ
  | succ D ih =>
    intro τ hτ r μ hs hD J hJ
    obtain ⟨a0, ha0⟩ : ∃ a0, r a0 < q := by
      by_contra hno
      push Not at hno
      have : ∑ a, (q - r a) = 0 := Finset.sum_eq_zero (fun a _ => by have := hno a; omega)
      omega
    have hsum : ∑ a, (q - Function.update r a0 (r a0 + 1) a) = D := by
      have e1 := Finset.add_sum_erase Finset.univ (fun a => q - r a) (Finset.mem_univ a0)
      have e2 := Finset.add_sum_erase Finset.univ (fun a => q - Function.update r a0 (r a0 + 1) a)
        (Finset.mem_univ a0)
      have e3 : ∑ a ∈ Finset.univ.erase a0, (q - Function.update r a0 (r a0 + 1) a)
          = ∑ a ∈ Finset.univ.erase a0, (q - r a) := by
        apply Finset.sum_congr rfl
        intro a ha
        rw [Function.update_of_ne (Finset.ne_of_mem_erase ha)]
      simp only [Function.update_self] at e2
      omega
    obtain ⟨h1, h2, h3, h4, h5⟩ := hs a0
    by_cases hcase : τ (μ a0 - r a0) = x a0
    · -- the multiplicity witness can be raised without insertion
      apply ih τ hτ (Function.update r a0 (r a0 + 1)) μ _ hsum J hJ
      intro a
      by_cases ha : a = a0
      · subst ha
        rw [Function.update_self]
        refine ⟨h1, h2, h3, ha0, ?_⟩
        intro j hj1 hj2
        rcases Nat.eq_or_lt_of_le (show μ a + 1 ≤ j + r a + 1 from hj1) with h | h
        · rw [show j = μ a - r a by omega]; exact hcase
        · exact h5 j (by omega) hj2
      · rw [Function.update_of_ne ha]; exact hs a
    · -- insert the point once
      have hlt : τ (μ a0 - r a0) < x a0 :=
        lt_of_le_of_ne (le_trans (hτ (Nat.sub_le _ _)) h2) hcase
      have hmult : τ (μ a0 + 1 - q) < x a0 := lt_of_le_of_lt (hτ (by omega)) hlt
      apply tp_step τ hτ q (μ a0) (x a0) h2 h3 hq h1 x hx hmult _ J hJ
      intro J' hJ'
      apply ih (insertSeq τ (μ a0 + 1) (x a0)) (ins_mono τ hτ (μ a0) (x a0) h2 h3)
        (Function.update r a0 (r a0 + 1))
        (fun a => if x a < x a0 then μ a else μ a + 1) _ hsum J' hJ'
      intro a
      rcases lt_trichotomy (x a) (x a0) with ha | ha | ha
      · have hne : a ≠ a0 := fun h => by rw [h] at ha; exact lt_irrefl _ ha
        rw [Function.update_of_ne hne, if_pos ha]
        exact spanMult_insert_lt τ hτ q (μ a0) (x a0) h2 h3 (x a) (r a) (μ a) (hs a) ha
      · have hae : a = a0 := hx.injective ha
        subst hae
        rw [Function.update_self, if_neg (lt_irrefl _)]
        exact spanMult_insert_self τ hτ q (μ a) (x a) h2 h3 (r a) (hs a) ha0
      · have hne : a ≠ a0 := fun h => by rw [h] at ha; exact lt_irrefl _ ha
        rw [Function.update_of_ne hne, if_neg (not_lt.2 ha.le)]
        exact spanMult_insert_gt τ hτ q (μ a0) (x a0) h2 h3 (x a) (r a) (μ a) (hs a) ha

/-- **Total positivity / Schoenberg–Whitney (sufficiency), any ordered field.**
`τ` monotone, degree `q ≥ 1`, strictly increasing points `x a` in `[τ q, ·)` (each in some knot
span `[τ μ, τ (μ+1))` with `μ ≥ q`), strictly increasing B-spline indices `J`: the collocation
determinant `det [B_{J b}(x a)]` is `≥ 0`, and `> 0` when `τ (J a) < x a < τ (J a + q + 1)`. -/
theorem colloc_det_nonneg_pos (τ : ℕ → K) (hτ : Monotone τ) (q : ℕ) (hq : 1 ≤ q) {m : ℕ}
    (x : Fin m → K) (hx : StrictMono x)
    (hspan : ∀ a, ∃ μ, q ≤ μ ∧ τ μ ≤ x a ∧ x a < τ (μ+1))
    (J : Fin m → ℕ) (hJ : StrictMono J) :
    0 ≤ Matrix.det (colloc τ q x J) ∧ (Nested τ q x J → 0 < Matrix.det (colloc τ q x J)) := by
  choose μ hμ using hspan
  exact tp_main q hq x hx _ τ hτ (fun _ => 0) μ
    (fun a => ⟨(hμ a).1, (hμ a).2.1, (hμ a).2.2, Nat.zero_le _, fun j h1 h2 => by omega⟩) rfl J hJ

/-! ## 7. Greville abscissae of a clamped knot vector -/

theorem B_eq_zero_of_eq_one (s : Side) (τ : ℕ → K) (hτ : Monotone τ) (q μ p : ℕ) (hqμ : q ≤ μ)
    (t : K) (hmem : s.mem (τ μ) (τ (μ+1)) t) (hp1 : μ - q ≤ p) (hp2 : p ≤ μ)
    (hp : B s τ q p t = 1) (j : ℕ) (hj : j ≠ p) : B s τ q j t = 0 := by
  rcases Nat.lt_or_ge j (μ - q) with h1 | h1
  · exact B_eq_zero_of_mem_of_le s τ hτ q j μ t hmem (by omega)
  rcases Nat.lt_or_ge μ j with h2 | h2
  · exact B_eq_zero_of_mem_of_gt s τ hτ q j μ t hmem h2
  have hpart := B_partition s τ hτ q μ hqμ t hmem
  have hmemp : p ∈ Finset.Icc (μ - q) μ := Finset.mem_Icc.2 ⟨hp1, hp2⟩
  rw [← Finset.add_sum_erase _ _ hmemp, hp] at hpart
  have hz : ∑ i ∈ (Finset.Icc (μ - q) μ).erase p, B s τ q i t = 0 := by
    linarith
  rw [Finset.sum_eq_zero_iff_of_nonneg (fun i _ => B_nonneg s τ hτ q i t)] at hz
  exact hz j (Finset.mem_erase.2 ⟨hj, Finset.mem_Icc.2 ⟨h1, h2⟩⟩)

theorem grevilleSum_lower (τ : ℕ → K) (hτ : Monotone τ) (q i : ℕ) :
    (q : K) * τ (i+1) ≤ grevilleSum τ q i := by
  unfold grevilleSum
  have : ∑ _k ∈ Finset.range q, τ (i+1) ≤ ∑ k ∈ Finset.range q, τ (i+1+k) :=
    Finset.sum_le_sum (fun k _ => hτ (by omega))
  rwa [Finset.sum_const, Finset.card_range, nsmul_eq_mul] at this

theorem grevilleSum_upper (τ : ℕ → K) (hτ : Monotone τ) (q i : ℕ) :
    grevilleSum τ q i ≤ (q : K) * τ (i+q) := by
  unfold grevilleSum
  have : ∑ k ∈ Finset.range q, τ (i+1+k) ≤ ∑ _k ∈ Finset.range q, τ (i+q) :=
    Finset.sum_le_sum (fun k hk => hτ (by have := Finset.mem_range.1 hk; omega))
  rwa [Finset.sum_const, Finset.card_range, nsmul_eq_mul] at this

theorem grevilleSum_gt (τ : ℕ → K) (hτ : Monotone τ) (q i : ℕ) (h : τ i < τ (i+q)) :
    (q : K) * τ i < grevilleSum τ q i := by
  obtain ⟨q, rfl⟩ : ∃ q', q = q'+1 := ⟨q-1, by
    rcases Nat.eq_zero_or_pos q with h0 | h0
    · subst h0; exact absurd h (lt_irrefl _)
    · omega⟩
  rw [grevilleSum_succ]
  have h1 := grevilleSum_lower τ hτ q i
  have h2 : τ i ≤ τ (i+1) := hτ (by omega)
  have h3 : (q : K) * τ i ≤ (q : K) * τ (i+1) := mul_le_mul_of_nonneg_left h2 (Nat.cast_nonneg q)
  have e : i + q + 1 = i + (q+1) := by omega
  rw [e]
  push_cast
  linarith

theorem grevilleSum_lt (τ : ℕ → K) (hτ : Monotone τ) (q i : ℕ) (h : τ (i+1) < τ (i+q+1)) :
    grevilleSum τ q i < (q : K) * τ (i+q+1) := by
  obtain ⟨q, rfl⟩ : ∃ q', q = q'+1 := ⟨q-1, by
    rcases Nat.eq_zero_or_pos q with h0 | h0
    · subst h0; exact absurd h (lt_irrefl _)
    · omega⟩
  rw [grevilleSum_succ']
  have h1 := grevilleSum_upper τ hτ q (i+1)
  have h2 : τ (i+1+q) ≤ τ (i+(q+1)+1) := hτ (by omega)
  have h3 : (q : K) * τ (i+1+q) ≤ (q : K) * τ (i+(q+1)+1) :=
    mul_le_mul_of_nonneg_left h2 (Nat.cast_nonneg q)
  push_cast
  linarith

theorem grevilleSum_step (τ : ℕ → K) (q i : ℕ) :
    grevilleSum τ q (i+1) = grevilleSum τ q i + (τ (i+q+1) - τ (i+1)) := by
  have h1 := grevilleSum_succ τ q i
  have h2 := grevilleSum_succ' τ q i
  linear_combination h1 - h2

theorem greville_const (τ : ℕ → K) (hτ : Monotone τ) (q i : ℕ) (hq : 1 ≤ q)
    (h : τ (i+1) = τ (i+q)) : grevilleAbscissa τ q i = τ (i+1) := by
  have hq0 : (q : K) ≠ 0 := Nat.cast_ne_zero.mpr (by omega)
  unfold grevilleAbscissa
  have h1 := grevilleSum_lower τ hτ q i
  have h2 := grevilleSum_upper τ hτ q i
  rw [← h] at h2
  rw [le_antisymm h2 h1]
  field_simp

section greville

variable (τ : ℕ → K) (hτ : Monotone τ) (q n : ℕ) (hq : 1 ≤ q) (hn : q + 1 ≤ n)
  (hc0 : τ 0 = τ q) (hc1 : τ n = τ (n+q)) (hmult : ∀ i, 1 ≤ i → i < n → τ i < τ (i+q))

include hτ hq hn hc0 hc1 hmult

theorem greville_gt (i : ℕ) (h1 : 1 ≤ i) (h2 : i < n) : τ i < grevilleAbscissa τ q i := by
  have hq0 : (0 : K) < q := Nat.cast_pos.mpr (by omega)
  unfold grevilleAbscissa
  rw [lt_div_iff₀ hq0, mul_comm]
  exact grevilleSum_gt τ hτ q i (hmult i h1 h2)

theorem greville_lt (i : ℕ) (h2 : i + 1 < n) : grevilleAbscissa τ q i < τ (i+q+1) := by
  have hq0 : (0 : K) < q := Nat.cast_pos.mpr (by omega)
  unfold grevilleAbscissa
  rw [div_lt_iff₀ hq0, mul_comm]
  apply grevilleSum_lt τ hτ q i
  have := hmult (i+1) (by omega) h2
  rw [show i + 1 + q = i + q + 1 by omega] at this
  exact this

theorem greville_lt_succ (i : ℕ) (h2 : i + 1 < n) :
    grevilleAbscissa τ q i < grevilleAbscissa τ q (i+1) := by
  have hq0 : (0 : K) < q := Nat.cast_pos.mpr (by omega)
  unfold grevilleAbscissa
  rw [div_lt_div_iff_of_pos_right hq0, grevilleSum_step]
  have := hmult (i+1) (by omega) h2
  rw [show i + 1 + q = i + q + 1 by omega] at this
  linarith

theorem greville_strictMono (i d : ℕ) (h2 : i + d + 1 < n) :
    grevilleAbscissa τ q i < grevilleAbscissa τ q (i+d+1) := by
  induction d with
  | zero => exact greville_lt_succ τ hτ q n hq hn hc0 hc1 hmult i h2
  | succ d ih =>
    exact lt_trans (ih (by omega))
      (greville_lt_succ τ hτ q n hq hn hc0 hc1 hmult (i+d+1) (by omega))

theorem greville_first : grevilleAbscissa τ q 0 = τ q := by
  have e : τ (0+1) = τ q := le_antisymm (hτ (by omega)) (by rw [← hc0]; exact hτ (by omega))
  rw [greville_const τ hτ q 0 hq (by rw [e]; simp), e]

theorem greville_last : grevilleAbscissa τ q (n-1) = τ n := by
  have e0 : n - 1 + 1 = n := by omega
  have e : τ (n-1+q) = τ n := le_antisymm (by rw [hc1]; exact hτ (by omega)) (hτ (by omega))
  rw [greville_const τ hτ q (n-1) hq (by rw [e0, e]), e0]

theorem clamped_lt_start : τ q < τ (q+1) := by
  have h := hmult 1 (le_refl 1) (by omega)
  have e : τ 1 = τ q := le_antisymm (hτ (by omega)) (by rw [← hc0]; exact hτ (by omega))
  rw [e, show 1 + q = q + 1 by omega] at h
  exact h

theorem clamped_lt_end : τ (n-1) < τ n := by
  have h := hmult (n-1) (by omega) (by omega)
  have e : τ (n-1+q) = τ n := le_antisymm (by rw [hc1]; exact hτ (by omega)) (hτ (by omega))
  rw [e] at h
  exact h

/-- First row of the Greville collocation matrix. -/
theorem greville_row_first (j : ℕ) : B .right τ q j (τ q) = if j = 0 then 1 else 0 := by
  have hlt := clamped_lt_start τ hτ q n hq hn hc0 hc1 hmult
  have := B_row_of_sat τ hτ q hq (τ q) q ⟨le_refl q, le_refl _, hlt, le_refl q, fun j _ hj2 =>
    le_antisymm (hτ hj2) (by rw [← hc0]; exact hτ (Nat.zero_le _))⟩ j
  rw [Nat.sub_self] at this
  exact this

/-- Last row of the Greville collocation matrix (left limit at the end of the domain). -/
theorem greville_row_last (j : ℕ) : B .left τ q j (τ n) = if j = n - 1 then 1 else 0 := by
  have hlt := clamped_lt_end τ hτ q n hq hn hc0 hc1 hmult
  have hp : B .left τ q (n-1) (τ n) = 1 := B_clamped_end τ hτ q n hc1 hlt (by omega)
  by_cases hj : j = n - 1
  · rw [if_pos hj, hj, hp]
  rw [if_neg hj]
  have e0 : n - 1 + 1 = n := by omega
  exact B_eq_zero_of_eq_one .left τ hτ q (n-1) (n-1) (by omega) (τ n)
    (by rw [e0]; exact ⟨hlt, le_refl _⟩) (by omega) (le_refl _) hp j hj

end greville

/-! ## 8. Collocation at nested points of a clamped knot vector -/

/-- The side the model's `evaluate(·, 0, from_right=True)` uses in row `l` of a collocation
matrix whose last point is the domain end: the left limit in the last row, right-continuous
otherwise. -/
def grevSide (n l : ℕ) : Side := if l + 1 = n then .left else .right

/-- Collocation points `x 0 < x 1 < … < x (n-1)` for the `n` B-splines of a clamped knot vector:
the first is the domain start, the last the domain end, the interior ones are nested with the
supports, `τ l < x l < τ (l+q+1)` (Schoenberg–Whitney condition). -/
structure NestedPts (τ : ℕ → K) (q n : ℕ) (x : ℕ → K) : Prop where
  first : x 0 = τ q
  last : x (n-1) = τ n
  lt_succ : ∀ l, l + 1 < n → x l < x (l+1)
  nest : ∀ l, 1 ≤ l → l + 1 < n → τ l < x l ∧ x l < τ (l+q+1)

theorem NestedPts.strict {τ : ℕ → K} {q n : ℕ} {x : ℕ → K} (hx : NestedPts τ q n x) (i d : ℕ)
    (h : i + d + 1 < n) : x i < x (i+d+1) := by
  induction d with
  | zero => exact hx.lt_succ i h
  | succ d ih => exact lt_trans (ih (by omega)) (hx.lt_succ (i+d+1) (by omega))

section greville

variable (τ : ℕ → K) (hτ : Monotone τ) (q n : ℕ) (hq : 1 ≤ q) (hn : q + 1 ≤ n)
  (hc0 : τ 0 = τ q) (hc1 : τ n = τ (n+q)) (hmult : ∀ i, 1 ≤ i → i < n → τ i < τ (i+q))

include hτ hq hn hc0 hc1 hmult

/-- The Greville abscissae are nested collocation points. -/
theorem greville_nestedPts : NestedPts τ q n (grevilleAbscissa τ q) where
  first := greville_first τ hτ q n hq hn hc0 hc1 hmult
  last := greville_last τ hτ q n hq hn hc0 hc1 hmult
  lt_succ := fun l hl => greville_lt_succ τ hτ q n hq hn hc0 hc1 hmult l hl
  nest := fun l h1 h2 => ⟨greville_gt τ hτ q n hq hn hc0 hc1 hmult l h1 (by omega),
    greville_lt τ hτ q n hq hn hc0 hc1 hmult l h2⟩

/-- The interior block of the collocation matrix has positive determinant. -/
theorem clamped_interior_det_pos (x : ℕ → K) (hx : NestedPts τ q n x) (m : ℕ) (hm : n = m + 2) :
    0 < Matrix.det (colloc τ q (fun a : Fin m => x (a.val+1)) (fun a : Fin m => a.val + 1)) := by
  apply (colloc_det_nonneg_pos τ hτ q hq _ ?_ ?_ _ ?_).2 ?_
  · intro a b hab
    have hab' : a.val < b.val := hab
    obtain ⟨d, hd⟩ : ∃ d, b.val + 1 = a.val + 1 + d + 1 := ⟨b.val - a.val - 1, by omega⟩
    show x (a.val+1) < x (b.val+1)
    rw [hd]
    exact hx.strict (a.val+1) d (by have := b.isLt; omega)
  · intro a
    have ha := a.isLt
    obtain ⟨h1, h2⟩ := hx.nest (a.val+1) (by omega) (by omega)
    have h3 : τ q ≤ x (a.val+1) :=
      le_trans (by rw [← hc0]; exact hτ (Nat.zero_le _)) h1.le
    have h4 : x (a.val+1) < τ n :=
      lt_of_lt_of_le h2 (by rw [hc1]; exact hτ (by omega))
    obtain ⟨μ, hμ1, _, hμ3⟩ := exists_span .right τ hτ q n _ ⟨h3, h4⟩
    exact ⟨μ, hμ1, hμ3.1, hμ3.2⟩
  · intro a b hab
    have hab' : a.val < b.val := hab
    show a.val + 1 < b.val + 1
    omega
  · intro a
    have ha := a.isLt
    exact hx.nest (a.val+1) (by omega) (by omega)

/-- **Schoenberg–Whitney for a clamped knot vector** (injectivity form).
`τ` monotone, degree `q ≥ 1`, `n ≥ q+1` functions, clamped ends (`τ 0 = τ q`, `τ n = τ (n+q)`),
interior multiplicities `≤ q` (`τ i < τ (i+q)` for `1 ≤ i < n`), nested collocation points `x`.
A spline `Σ c_j B_j` vanishing at all `n` points is zero. -/
theorem clamped_colloc_injective (x : ℕ → K) (hx : NestedPts τ q n x) (c : ℕ → K)
    (h : ∀ l, l < n → ∑ j ∈ Finset.range n, c j * B (grevSide n l) τ q j (x l) = 0) :
    ∀ j, j < n → c j = 0 := by
  obtain ⟨m, rfl⟩ : ∃ m, n = m + 2 := ⟨n - 2, by omega⟩
  -- first coefficient
  have h0 : c 0 = 0 := by
    have := h 0 (by omega)
    rw [show grevSide (m+2) 0 = .right by simp [grevSide], hx.first] at this
    simp only [greville_row_first τ hτ q (m+2) hq hn hc0 hc1 hmult, mul_ite, mul_one, mul_zero,
      Finset.sum_ite_eq', Finset.mem_range] at this
    rw [if_pos (by omega)] at this
    exact this
  -- last coefficient
  have hl : c (m+1) = 0 := by
    have := h (m+1) (by omega)
    rw [show grevSide (m+2) (m+1) = .left by simp [grevSide]] at this
    have e := hx.last
    rw [show m + 2 - 1 = m + 1 by omega] at e
    rw [e] at this
    simp only [greville_row_last τ hτ q (m+2) hq hn hc0 hc1 hmult, mul_ite, mul_one, mul_zero,
      show m + 2 - 1 = m + 1 by omega, Finset.sum_ite_eq', Finset.mem_range] at this
    rw [if_pos (by omega)] at this
    exact this
  -- interior block
  have hdet := clamped_interior_det_pos τ hτ q (m+2) hq hn hc0 hc1 hmult x hx m rfl
  have hmv : (colloc τ q (fun a : Fin m => x (a.val+1))
      (fun a : Fin m => a.val + 1)).mulVec (fun b : Fin m => c (b.val+1)) = 0 := by
    funext a
    have ha := a.isLt
    have := h (a.val+1) (by omega)
    rw [show grevSide (m+2) (a.val+1) = .right by
      simp only [grevSide]; rw [if_neg (by omega)]] at this
    rw [Finset.sum_range_succ', Finset.sum_range_succ, h0, hl] at this
    simp only [zero_mul, add_zero] at this
    simp only [Matrix.mulVec, dotProduct, colloc, Matrix.of_apply, Pi.zero_apply]
    rw [← this, Fin.sum_univ_eq_sum_range
      (fun b => B .right τ q (b+1) (x (a.val+1)) * c (b+1)) m]
    apply Finset.sum_congr rfl
    intro b _
    ring
  have hz := Matrix.eq_zero_of_mulVec_eq_zero (ne_of_gt hdet) hmv
  intro j hj
  rcases Nat.eq_zero_or_pos j with hj0 | hj0
  · rw [hj0]; exact h0
  rcases Nat.eq_or_lt_of_le (show j ≤ m + 1 by omega) with hj1 | hj1
  · rw [hj1]; exact hl
  have := congrFun hz ⟨j - 1, by omega⟩
  simp only [Pi.zero_apply] at this
  rw [show j - 1 + 1 = j by omega] at this
  exact this

end greville

/-- The full `n × n` collocation matrix of the specification at the points `x`. -/
def collocMat (τ : ℕ → K) (q n : ℕ) (x : ℕ → K) : Matrix (Fin n) (Fin n) K :=
  Matrix.of fun l j => B (grevSide n l.val) τ q j.val (x l.val)

/-- **Schoenberg–Whitney for a clamped knot vector, determinant form.** -/
theorem collocMat_det_ne_zero (τ : ℕ → K) (hτ : Monotone τ) (q n : ℕ) (hq : 1 ≤ q)
    (hn : q + 1 ≤ n) (hc0 : τ 0 = τ q) (hc1 : τ n = τ (n+q))
    (hmult : ∀ i, 1 ≤ i → i < n → τ i < τ (i+q)) (x : ℕ → K) (hx : NestedPts τ q n x) :
    (collocMat τ q n x).det ≠ 0 := by
  intro hdet
  obtain ⟨v, hv, hmv⟩ := Matrix.exists_mulVec_eq_zero_iff.2 hdet
  apply hv
  have key := clamped_colloc_injective τ hτ q n hq hn hc0 hc1 hmult x hx
    (fun j => if h : j < n then v ⟨j, h⟩ else 0) (by
      intro l hl
      have := congrFun hmv ⟨l, hl⟩
      simp only [Matrix.mulVec, dotProduct, collocMat, Matrix.of_apply, Pi.zero_apply] at this
      rw [← Fin.sum_univ_eq_sum_range (fun j => (if h : j < n then v ⟨j, h⟩ else 0)
        * B (grevSide n l) τ q j (x l)) n]
      refine Eq.trans (Finset.sum_congr rfl (fun j _ => ?_)) this
      rw [dif_pos j.isLt]
      exact mul_comm _ _)
  funext j
  have := key j.val j.isLt
  simp only [j.isLt, dif_pos] at this
  exact this

/-- **Schoenberg–Whitney for a clamped knot vector, left-inverse form** (the form consumed by
`Mat.invChecked_complete` / `Mat.solve_complete`). -/
theorem clamped_colloc_left_inverse (τ : ℕ → K) (hτ : Monotone τ) (q n : ℕ) (hq : 1 ≤ q)
    (hn : q + 1 ≤ n) (hc0 : τ 0 = τ q) (hc1 : τ n = τ (n+q))
    (hmult : ∀ i, 1 ≤ i → i < n → τ i < τ (i+q)) (x : ℕ → K) (hx : NestedPts τ q n x) :
    ∃ L : ℕ → ℕ → K, ∀ i j, i < n → j < n →
      ∑ l ∈ Finset.range n, L i l * B (grevSide n l) τ q j (x l) = if i = j then 1 else 0 := by
  have hdet := collocMat_det_ne_zero τ hτ q n hq hn hc0 hc1 hmult x hx
  have hinv := Matrix.nonsing_inv_mul (collocMat τ q n x) (isUnit_iff_ne_zero.2 hdet)
  refine ⟨fun i l => if h : i < n ∧ l < n then (collocMat τ q n x)⁻¹ ⟨i, h.1⟩ ⟨l, h.2⟩ else 0, ?_⟩
  intro i j hi hj
  have := congrFun (congrFun hinv ⟨i, hi⟩) ⟨j, hj⟩
  rw [Matrix.mul_apply, Matrix.one_apply] at this
  rw [← Fin.sum_univ_eq_sum_range
    (fun l => (if h : i < n ∧ l < n then (collocMat τ q n x)⁻¹ ⟨i, h.1⟩ ⟨l, h.2⟩ else 0)
      * B (grevSide n l) τ q j (x l)) n]
  have e : (if i = j then (1 : K) else 0) = if (⟨i, hi⟩ : Fin n) = ⟨j, hj⟩ then 1 else 0 := by
    simp [Fin.ext_iff]
  rw [e, ← this]
  apply Finset.sum_congr rfl
  intro l _
  rw [dif_pos ⟨hi, l.isLt⟩]
  rfl

/-! ### The Greville abscissae -/

/-- **Schoenberg–Whitney at the Greville abscissae of a clamped knot vector** (injectivity form):
a spline `Σ c_j B_j` vanishing at all `n` Greville abscissae is zero. -/
theorem greville_colloc_injective (τ : ℕ → K) (hτ : Monotone τ) (q n : ℕ) (hq : 1 ≤ q)
    (hn : q + 1 ≤ n) (hc0 : τ 0 = τ q) (hc1 : τ n = τ (n+q))
    (hmult : ∀ i, 1 ≤ i → i < n → τ i < τ (i+q)) (c : ℕ → K)
    (h : ∀ l, l < n →
      ∑ j ∈ Finset.range n, c j * B (grevSide n l) τ q j (grevilleAbscissa τ q l) = 0) :
    ∀ j, j < n → c j = 0 :=
  clamped_colloc_injective τ hτ q n hq hn hc0 hc1 hmult _
    (greville_nestedPts τ hτ q n hq hn hc0 hc1 hmult) c h

/-- The full `n × n` Greville collocation matrix of the specification. -/
def grevMat (τ : ℕ → K) (q n : ℕ) : Matrix (Fin n) (Fin n) K :=
  collocMat τ q n (grevilleAbscissa τ q)

/-- **Schoenberg–Whitney at the Greville abscissae, determinant form.** -/
theorem grevMat_det_ne_zero (τ : ℕ → K) (hτ : Monotone τ) (q n : ℕ) (hq : 1 ≤ q)
    (hn : q + 1 ≤ n) (hc0 : τ 0 = τ q) (hc1 : τ n = τ (n+q))
    (hmult : ∀ i, 1 ≤ i → i < n → τ i < τ (i+q)) : (grevMat τ q n).det ≠ 0 :=
  collocMat_det_ne_zero τ hτ q n hq hn hc0 hc1 hmult _
    (greville_nestedPts τ hτ q n hq hn hc0 hc1 hmult)

/-- **Schoenberg–Whitney at the Greville abscissae, left-inverse form.** -/
theorem greville_colloc_left_inverse (τ : ℕ → K) (hτ : Monotone τ) (q n : ℕ) (hq : 1 ≤ q)
    (hn : q + 1 ≤ n) (hc0 : τ 0 = τ q) (hc1 : τ n = τ (n+q))
    (hmult : ∀ i, 1 ≤ i → i < n → τ i < τ (i+q)) :
    ∃ L : ℕ → ℕ → K, ∀ i j, i < n → j < n →
      ∑ l ∈ Finset.range n, L i l * B (grevSide n l) τ q j (grevilleAbscissa τ q l)
        = if i = j then 1 else 0 :=
  clamped_colloc_left_inverse τ hτ q n hq hn hc0 hc1 hmult _
    (greville_nestedPts τ hτ q n hq hn hc0 hc1 hmult)

/-! ### Perturbed points (what `snap` does to the Greville points) -/

/-- Nested collocation points stay nested under a perturbation smaller than `tol` that fixes the
two end points, if the nesting and the spacing have margins `tol` resp. `2·tol`. -/
theorem NestedPts.perturb {τ : ℕ → K} (hτ : Monotone τ) {q n : ℕ} (hc0 : τ 0 = τ q)
    (hc1 : τ n = τ (n+q)) {x y : ℕ → K} (hx : NestedPts τ q n x) (tol : K)
    (hy0 : y 0 = x 0) (hyl : y (n-1) = x (n-1)) (hy : ∀ l, l < n → |y l - x l| < tol)
    (hm1 : ∀ l, 1 ≤ l → l + 1 < n → τ l + tol ≤ x l ∧ x l + tol ≤ τ (l+q+1))
    (hm2 : ∀ l, 1 ≤ l → l + 2 < n → x l + 2 * tol ≤ x (l+1)) : NestedPts τ q n y := by
  have hnest : ∀ l, 1 ≤ l → l + 1 < n → τ l < y l ∧ y l < τ (l+q+1) := by
    intro l h1 h2
    obtain ⟨m1, m2⟩ := hm1 l h1 h2
    have := abs_lt.1 (hy l (by omega))
    constructor <;> linarith [this.1, this.2]
  refine ⟨by rw [hy0, hx.first], by rw [hyl, hx.last], ?_, hnest⟩
  intro l hl
  rcases Nat.eq_zero_or_pos l with h0 | h0
  · subst h0
    rcases Nat.eq_or_lt_of_le (show 0 + 1 + 1 ≤ n by omega) with h1 | h1
    · have e : 0 + 1 = n - 1 := by omega
      rw [hy0, e, hyl, ← e]
      exact hx.lt_succ 0 hl
    · rw [hy0, hx.first]
      have := (hnest 1 (le_refl 1) (by omega)).1
      exact lt_of_le_of_lt (by rw [← hc0]; exact hτ (Nat.zero_le _)) this
  · rcases Nat.eq_or_lt_of_le (show l + 1 + 1 ≤ n by omega) with h1 | h1
    · have e : l + 1 = n - 1 := by omega
      rw [e, hyl, hx.last]
      have := (hnest l h0 hl).2
      exact lt_of_lt_of_le this (by rw [hc1]; exact hτ (by omega))
    · have a1 := abs_lt.1 (hy l (by omega))
      have a2 := abs_lt.1 (hy (l+1) (by omega))
      have := hm2 l h0 (by omega)
      linarith [a1.1, a1.2, a2.1, a2.2]

theorem grevilleSum_ge_gap (τ : ℕ → K) (hτ : Monotone τ) (q i : ℕ) (hq : 1 ≤ q) (δ : K)
    (h : τ i + δ ≤ τ (i+q)) : (q : K) * τ i + δ ≤ grevilleSum τ q i := by
  obtain ⟨q, rfl⟩ : ∃ q', q = q'+1 := ⟨q-1, by omega⟩
  rw [grevilleSum_succ]
  have h1 := grevilleSum_lower τ hτ q i
  have h2 : τ i ≤ τ (i+1) := hτ (by omega)
  have h3 : (q : K) * τ i ≤ (q : K) * τ (i+1) := mul_le_mul_of_nonneg_left h2 (Nat.cast_nonneg q)
  have e : i + q + 1 = i + (q+1) := by omega
  rw [e]
  push_cast
  linarith

theorem grevilleSum_le_gap (τ : ℕ → K) (hτ : Monotone τ) (q i : ℕ) (hq : 1 ≤ q) (δ : K)
    (h : τ (i+1) + δ ≤ τ (i+q+1)) : grevilleSum τ q i + δ ≤ (q : K) * τ (i+q+1) := by
  obtain ⟨q, rfl⟩ : ∃ q', q = q'+1 := ⟨q-1, by omega⟩
  rw [grevilleSum_succ']
  have h1 := grevilleSum_upper τ hτ q (i+1)
  have h2 : τ (i+1+q) ≤ τ (i+(q+1)+1) := hτ (by omega)
  have h3 : (q : K) * τ (i+1+q) ≤ (q : K) * τ (i+(q+1)+1) :=
    mul_le_mul_of_nonneg_left h2 (Nat.cast_nonneg q)
  push_cast
  linarith

/-- Margins of the Greville abscissae when distinct knots are at least `2·q·tol` apart. -/
theorem greville_margins (τ : ℕ → K) (hτ : Monotone τ) (q n : ℕ) (hq : 1 ≤ q)
    (hmult : ∀ i, 1 ≤ i → i < n → τ i < τ (i+q)) (tol : K)
    (hgap : ∀ i j, τ i < τ j → τ i + 2 * (q : K) * tol ≤ τ j) :
    (∀ l, 1 ≤ l → l + 1 < n →
      τ l + 2 * tol ≤ grevilleAbscissa τ q l ∧ grevilleAbscissa τ q l + 2 * tol ≤ τ (l+q+1)) ∧
    (∀ l, l + 1 < n → grevilleAbscissa τ q l + 2 * tol ≤ grevilleAbscissa τ q (l+1)) := by
  have hq0 : (0 : K) < q := Nat.cast_pos.mpr (by omega)
  have hq1 : (q : K) ≠ 0 := ne_of_gt hq0
  constructor
  · intro l h1 h2
    constructor
    · have := grevilleSum_ge_gap τ hτ q l hq _ (hgap _ _ (hmult l h1 (by omega)))
      unfold grevilleAbscissa
      rw [le_div_iff₀ hq0]
      linarith
    · have h3 := hmult (l+1) (by omega) h2
      rw [show l + 1 + q = l + q + 1 by omega] at h3
      have := grevilleSum_le_gap τ hτ q l hq _ (hgap _ _ h3)
      unfold grevilleAbscissa
      rw [← le_sub_iff_add_le, div_le_iff₀ hq0]
      linarith
  · intro l h2
    have h3 := hmult (l+1) (by omega) h2
    rw [show l + 1 + q = l + q + 1 by omega] at h3
    have h4 := hgap _ _ h3
    unfold grevilleAbscissa
    rw [grevilleSum_step, ← le_sub_iff_add_le, div_le_iff₀ hq0, sub_mul, div_mul_cancel₀ _ hq1]
    linarith

/-! ## 9. Bridge to the executable model -/

theorem greville_ge (τ : ℕ → K) (hτ : Monotone τ) (q i : ℕ) (hq : 1 ≤ q) :
    τ (i+1) ≤ grevilleAbscissa τ q i := by
  have hq0 : (0 : K) < q := Nat.cast_pos.mpr (by omega)
  unfold grevilleAbscissa
  rw [le_div_iff₀ hq0, mul_comm]
  exact grevilleSum_lower τ hτ q i

theorem greville_le (τ : ℕ → K) (hτ : Monotone τ) (q i : ℕ) (hq : 1 ≤ q) :
    grevilleAbscissa τ q i ≤ τ (i+q) := by
  have hq0 : (0 : K) < q := Nat.cast_pos.mpr (by omega)
  unfold grevilleAbscissa
  rw [div_le_iff₀ hq0, mul_comm]
  exact grevilleSum_upper τ hτ q i

theorem sw_foldl_range_add_sum (g : ℕ → K) (n : ℕ) :
    (List.range n).foldl (fun acc j => acc + g j) 0 = ∑ j ∈ Finset.range n, g j := by
  induction n with
  | zero => simp
  | succ n ih => rw [List.range_succ, List.foldl_append, ih, Finset.sum_range_succ]; simp

/-- The model's `greville()` returns the Greville abscissae of the specification. -/
theorem sw_greville_eq (b : Basis K) (hp : 2 ≤ b.order) :
    b.greville = .ok (Array.ofFn (n := b.numFunctions)
      (fun i => grevilleAbscissa b.kn (b.order - 1) i.val)) := by
  unfold Basis.greville
  simp only []
  rw [if_neg (by omega)]
  congr 1
  apply congrArg
  funext i
  rw [sw_foldl_range_add_sum]
  unfold grevilleAbscissa grevilleSum
  rw [Nat.cast_sub (by omega), Nat.cast_one]

section Model

variable [FloorRing K]

/-- **`H_sw` for the executable model, abstract form.**  `b` a valid non-periodic basis of order
`p ≥ 2` whose knot sequence is clamped with interior multiplicities `≤ p-1`; `ps` a list of
`n = num_functions` parameters whose rows `b.evaluate(ps[l])` are the rows at exact parameters
`x l` (`snap` does not move `x l`) that are nested collocation points.  Then the model's certified
inverse of the collocation matrix exists. -/
theorem colloc_invChecked_ok {b : Basis K} (hv : b.Valid) (hper : b.periodic = -1)
    (hp : 2 ≤ b.order) (hc0 : b.kn 0 = b.kn (b.order - 1))
    (hc1 : b.kn b.numFunctions = b.kn (b.numFunctions + (b.order - 1)))
    (hmult : ∀ i, 1 ≤ i → i < b.numFunctions → b.kn i < b.kn (i + (b.order - 1)))
    {tol : K} (htol : 0 < tol) (ps : List K) (hlen : ps.length = b.numFunctions) (x : ℕ → K)
    (hx : NestedPts b.kn (b.order - 1) b.numFunctions x)
    (hev : ∀ l (hl : l < ps.length), b.evaluate tol ps[l] 0 true = b.evaluate tol (x l) 0 true)
    (hex : ∀ l, l < b.numFunctions → b.ExactAt tol (x l)) :
    ∃ Ni, Mat.invChecked (Obj.basisMat b tol ps 0 true) = .ok Ni := by
  have hτ : Monotone b.kn := hv.kn_mono
  have hnf : b.numFunctions = b.nAll := Basis.numFunctions_of_nonperiodic hper
  have hn : b.order - 1 + 1 ≤ b.numFunctions := by
    have := hv.order_le_nAll; omega
  have hq : 1 ≤ b.order - 1 := by omega
  obtain ⟨L, hL⟩ := clamped_colloc_left_inverse b.kn hτ (b.order - 1) b.numFunctions hq hn
    hc0 hc1 hmult x hx
  have hshape := basisMat_shape b tol ps hlen
  rw [hlen] at hshape
  apply Mat.invChecked_complete _ b.numFunctions hshape L
  intro i j hi hj
  rw [← hL i j hi hj]
  apply Finset.sum_congr rfl
  intro l hl
  have hl' : l < b.numFunctions := Finset.mem_range.1 hl
  congr 1
  rw [basisMat_get b tol ps l j (by omega), hev l (by omega)]
  have hstart : b.start = b.kn (b.order - 1) := rfl
  have hstop : b.stop = b.kn b.numFunctions := by
    rw [hnf]; rfl
  have h1 : b.start ≤ x l := by
    rw [hstart, ← hx.first]
    rcases Nat.eq_zero_or_pos l with h0 | h0
    · rw [h0]
    · have := hx.strict 0 (l-1) (by omega)
      rw [show 0 + (l - 1) + 1 = l by omega] at this
      exact this.le
  have hlast : l + 1 < b.numFunctions → x l < b.stop := by
    intro hlt
    obtain ⟨d, hd⟩ : ∃ d, b.numFunctions - 1 = l + d + 1 := ⟨b.numFunctions - 1 - l - 1, by omega⟩
    have h3 := hx.strict l d (by omega)
    rw [← hd, hx.last, ← hstop] at h3
    exact h3
  have hlast' : l + 1 = b.numFunctions → x l = b.stop := by
    intro he
    rw [hstop, ← hx.last, show b.numFunctions - 1 = l by omega]
  have h2 : x l ≤ b.stop := by
    rcases Nat.lt_or_ge (l+1) b.numFunctions with h | h
    · exact (hlast h).le
    · exact le_of_eq (hlast' (by omega))
  rw [evaluate_inside_right hv hper htol (hex l hl') h1 h2 hj]
  congr 1
  unfold effSide grevSide
  simp only [if_true]
  by_cases hl1 : l + 1 = b.numFunctions
  · rw [if_pos hl1, if_pos (hlast' hl1)]
  · rw [if_neg hl1, if_neg (ne_of_lt (hlast (by omega)))]

/-- **`H_sw` for the executable model, exact Greville points.**  As `colloc_invChecked_ok`, for the
Greville points the model computes, assuming they are exact with respect to the knot tolerance
(equal to a knot or at least `tol` away from every knot, so that `snap` does not move them). -/
theorem greville_invChecked_ok {b : Basis K} (hv : b.Valid) (hper : b.periodic = -1)
    (hp : 2 ≤ b.order) (hc0 : b.kn 0 = b.kn (b.order - 1))
    (hc1 : b.kn b.numFunctions = b.kn (b.numFunctions + (b.order - 1)))
    (hmult : ∀ i, 1 ≤ i → i < b.numFunctions → b.kn i < b.kn (i + (b.order - 1)))
    {tol : K} (htol : 0 < tol) (pts : Array K) (hg : b.greville = .ok pts)
    (hex : ∀ l, l < b.numFunctions → b.ExactAt tol (grevilleAbscissa b.kn (b.order - 1) l)) :
    ∃ Ni, Mat.invChecked (Obj.basisMat b tol pts.toList 0 true) = .ok Ni := by
  have hτ : Monotone b.kn := hv.kn_mono
  have hn : b.order - 1 + 1 ≤ b.numFunctions := by
    have := hv.order_le_nAll
    have := Basis.numFunctions_of_nonperiodic hper
    omega
  have hpts : pts = Array.ofFn (n := b.numFunctions)
      (fun i => grevilleAbscissa b.kn (b.order - 1) i.val) := by
    have := sw_greville_eq b hp
    rw [hg] at this
    injection this
  have hlen : pts.toList.length = b.numFunctions := by rw [hpts]; simp
  apply colloc_invChecked_ok hv hper hp hc0 hc1 hmult htol pts.toList hlen
    (grevilleAbscissa b.kn (b.order - 1))
    (greville_nestedPts b.kn hτ (b.order - 1) b.numFunctions (by omega) hn hc0 hc1 hmult) _ hex
  intro l hl
  subst hpts
  simp

theorem snap_abs_lt (b : Basis K) {tol : K} (htol : 0 < tol) (t : K) : |snap b tol t - t| < tol := by
  unfold snap
  simp only []
  split_ifs with h1 h2
  · exact h1.2
  · exact h2.2
  · rw [sub_self, abs_zero]; exact htol

/-- **`H_sw` for the executable model without an exactness assumption.**  If distinct knots are
at least `2·(p-1)·tol` apart, `snap` moves every Greville point by less than `tol` and the snapped
points are still nested collocation points, so the model's certified inverse of its Greville
collocation matrix exists. -/
theorem greville_invChecked_ok_gap {b : Basis K} (hv : b.Valid) (hper : b.periodic = -1)
    (hp : 2 ≤ b.order) (hc0 : b.kn 0 = b.kn (b.order - 1))
    (hc1 : b.kn b.numFunctions = b.kn (b.numFunctions + (b.order - 1)))
    (hmult : ∀ i, 1 ≤ i → i < b.numFunctions → b.kn i < b.kn (i + (b.order - 1)))
    {tol : K} (htol : 0 < tol) (pts : Array K) (hg : b.greville = .ok pts)
    (hgap : ∀ i j, b.kn i < b.kn j → b.kn i + 2 * ((b.order - 1 : ℕ) : K) * tol ≤ b.kn j) :
    ∃ Ni, Mat.invChecked (Obj.basisMat b tol pts.toList 0 true) = .ok Ni := by
  have hτ : Monotone b.kn := hv.kn_mono
  have hnf : b.numFunctions = b.nAll := Basis.numFunctions_of_nonperiodic hper
  have hq : 1 ≤ b.order - 1 := by omega
  have hn : b.order - 1 + 1 ≤ b.numFunctions := by
    have := hv.order_le_nAll; omega
  have hq1 : (1 : K) ≤ ((b.order - 1 : ℕ) : K) := by exact_mod_cast hq
  have hsepB : b.Separated tol := by
    intro i j _ _
    have key : ∀ i j, b.kn i < b.kn j → tol ≤ |b.kn i - b.kn j| := by
      intro i j hij
      have h1 := hgap i j hij
      have h2 : tol ≤ 2 * ((b.order - 1 : ℕ) : K) * tol := by nlinarith
      rw [abs_sub_comm, abs_of_pos (sub_pos.2 hij)]
      linarith
    rcases lt_trichotomy (b.kn i) (b.kn j) with h | h | h
    · exact Or.inr (key i j h)
    · exact Or.inl h
    · right; rw [abs_sub_comm]; exact key j i h
  have hpts : pts = Array.ofFn (n := b.numFunctions)
      (fun i => grevilleAbscissa b.kn (b.order - 1) i.val) := by
    have := sw_greville_eq b hp
    rw [hg] at this
    injection this
  have hlen : pts.toList.length = b.numFunctions := by rw [hpts]; simp
  have hG := greville_nestedPts b.kn hτ (b.order - 1) b.numFunctions hq hn hc0 hc1 hmult
  obtain ⟨g1, g2⟩ := greville_margins b.kn hτ (b.order - 1) b.numFunctions hq hmult tol hgap
  have hsize : b.numFunctions + b.order = b.knots.size := by rw [hnf]; exact hv.nAll_add
  have hx : NestedPts b.kn (b.order - 1) b.numFunctions
      (fun l => snap b tol (grevilleAbscissa b.kn (b.order - 1) l)) := by
    apply NestedPts.perturb hτ hc0 hc1 hG tol
    · show snap b tol _ = _
      rw [hG.first]; exact snap_knot hv htol (by omega)
    · show snap b tol _ = _
      rw [hG.last]; exact snap_knot hv htol (by omega)
    · intro l _; exact snap_abs_lt b htol _
    · intro l h1 h2
      obtain ⟨m1, m2⟩ := g1 l h1 h2
      constructor <;> linarith
    · intro l _ h2; exact g2 l (by omega)
  apply colloc_invChecked_ok hv hper hp hc0 hc1 hmult htol pts.toList hlen _ hx
  · intro l hl
    have : pts.toList[l] = grevilleAbscissa b.kn (b.order - 1) l := by
      subst hpts; simp
    rw [this]
    exact evaluate_snap hv htol hsepB _ 0 true
  · intro l _
    exact exactAt_snap hv hsepB _

/-! ### Clamped knot vectors `expand (clampedU …) (clampedM …)` -/

theorem blk_append_of_lt (m t : List ℕ) : ∀ n, n < m.sum → blk (m ++ t) n = blk m n := by
  induction m with
  | nil => intro n h; simp at h
  | cons k ms ih =>
    intro n h
    simp only [List.sum_cons] at h
    rcases Nat.lt_or_ge n k with h1 | h1
    · rw [List.cons_append, blk_cons_lt _ h1, blk_cons_lt _ h1]
    · rw [List.cons_append, blk_cons_ge _ h1, blk_cons_ge _ h1, ih (n - k) (by omega)]

theorem blk_append_sum (m t : List ℕ) : ∀ j, blk (m ++ t) (m.sum + j) = m.length + blk t j := by
  induction m with
  | nil => intro j; simp
  | cons k ms ih =>
    intro j
    simp only [List.sum_cons, List.cons_append, List.length_cons]
    rw [blk_cons_ge _ (by omega), show k + ms.sum + j - k = ms.sum + j by omega, ih j]
    omega

theorem blk_append_add_lt (m t : List ℕ) (r : ℕ) (hr : ∀ k ∈ m, k ≤ r) :
    ∀ n, n < m.sum → blk (m ++ t) n < blk (m ++ t) (n + r) := by
  induction m with
  | nil => intro n h; simp at h
  | cons k ms ih =>
    intro n h
    simp only [List.sum_cons] at h
    have hk : k ≤ r := hr k (by simp)
    rcases Nat.lt_or_ge n k with h1 | h1
    · rw [List.cons_append, blk_cons_lt _ h1, blk_cons_ge _ (by omega)]
      omega
    · rw [List.cons_append, blk_cons_ge _ h1, blk_cons_ge _ (by omega),
        show n + r - k = n - k + r by omega]
      have := ih (fun k' hk' => hr k' (by simp [hk'])) (n - k) (by omega)
      omega

theorem separated_getD_lt (tol : K) (h0 : 0 ≤ tol) (u : List K) (hsep : Separated tol u)
    (a b : ℕ) (hab : a < b) (hb : b < u.length) : u.getD a 0 < u.getD b 0 := by
  rw [List.getD_eq_getElem _ _ (by omega), List.getD_eq_getElem _ _ hb]
  have := (List.pairwise_iff_getElem.mp hsep) a b (by omega) hb hab
  linarith

/-- Block numbers in a clamped multiplicity list `p :: (mmid ++ [p])` with interior
multiplicities `≤ p-1`. -/
theorem blkC_clamped (p : ℕ) (hp : 2 ≤ p) (mmid : List ℕ) (hmq : ∀ j ∈ mmid, j ≤ p - 1) :
    blkC (clampedM p mmid) 0 = blkC (clampedM p mmid) (p - 1) ∧
    blkC (clampedM p mmid) (p + mmid.sum) = blkC (clampedM p mmid) (p + mmid.sum + (p - 1)) ∧
    ∀ i, 1 ≤ i → i < p + mmid.sum →
      blkC (clampedM p mmid) i < blkC (clampedM p mmid) (i + (p - 1)) := by
  have hL : (clampedM p mmid).length - 1 = mmid.length + 1 := by simp [clampedM]
  refine ⟨?_, ?_, ?_⟩
  · unfold blkC clampedM
    rw [blk_cons_lt _ (by omega), blk_cons_lt _ (by omega)]
  · have h1 : blk (clampedM p mmid) (p + mmid.sum) = mmid.length + 1 := by
      unfold clampedM
      rw [blk_cons_ge _ (by omega), show p + mmid.sum - p = mmid.sum + 0 by omega,
        blk_append_sum, blk_cons_lt _ (by omega)]
    have h2 : blkC (clampedM p mmid) (p + mmid.sum) = mmid.length + 1 := by
      unfold blkC; rw [h1, hL]; simp
    have h3 := blkC_mono (clampedM p mmid) (show p + mmid.sum ≤ p + mmid.sum + (p - 1) by omega)
    have h4 : blkC (clampedM p mmid) (p + mmid.sum + (p - 1)) ≤ mmid.length + 1 := by
      unfold blkC; rw [hL]; exact min_le_right _ _
    omega
  · intro i hi1 hi2
    unfold blkC
    rw [hL]
    unfold clampedM
    rcases Nat.lt_or_ge i p with h | h
    · rw [blk_cons_lt _ h, blk_cons_ge _ (by omega)]
      simp only [Nat.zero_le, inf_of_le_left, lt_inf_iff]
      omega
    · rw [blk_cons_ge _ h, blk_cons_ge _ (by omega), show i + (p - 1) - p = i - p + (p - 1) by omega]
      have h1 := blk_append_add_lt mmid [p] (p - 1) hmq (i - p) (by omega)
      have h2 := blk_append_of_lt mmid [p] (i - p) (by omega)
      have h3 := blk_lt mmid (i - p) (by omega)
      rw [lt_min_iff]
      constructor
      · exact lt_of_le_of_lt (min_le_left _ _) (by omega)
      · exact lt_of_le_of_lt (min_le_left _ _) (by omega)

/-- **`H_sw` of `C05_geometry_clamped` discharged** (Schoenberg–Whitney at the Greville points,
executable model).  `b` = clamped basis of order `p ≥ 2` in the form of `C05_knots`: end knots
`x0`, `xl` of multiplicity `p`, interior distinct knots `umid` with multiplicities `1 ≤ mmid ≤ p-1`
(continuous splines), distinct knots more than `tol` apart.  If the Greville points are exact with
respect to the knot tolerance, the model's certified inverse of the Greville collocation matrix
exists. -/
theorem greville_invChecked_clamped (tol : K) (htol : 0 < tol) (p : ℕ) (hp : 2 ≤ p) (x0 xl : K)
    (umid : List K) (mmid : List ℕ) (hlen : umid.length = mmid.length)
    (hsep : Separated tol (clampedU x0 xl umid)) (hm : ∀ j ∈ mmid, 1 ≤ j)
    (hmq : ∀ j ∈ mmid, j ≤ p - 1) (pts : Array K)
    (hg : (openBasis p (clampedU x0 xl umid) (clampedM p mmid)).greville = .ok pts)
    (hex : ∀ t ∈ pts.toList, (openBasis p (clampedU x0 xl umid) (clampedM p mmid)).ExactAt tol t) :
    ∃ Ni, Mat.invChecked
      (Obj.basisMat (openBasis p (clampedU x0 xl umid) (clampedM p mmid)) tol pts.toList 0 true)
        = .ok Ni := by
  set b := openBasis p (clampedU x0 xl umid) (clampedM p mmid) with hb
  have hv : b.Valid := openBasis_clamped_valid tol htol.le p (by omega) x0 xl umid mmid hlen hsep
  have hlenUM := clamped_lengths p x0 xl umid mmid hlen
  have hMpos := clampedM_pos p (by omega) mmid hm
  have hkn : ∀ n, b.kn n = (clampedU x0 xl umid).getD (blkC (clampedM p mmid) n) 0 := by
    intro n
    rw [kn_eq_knSeq b (expand (clampedU x0 xl umid) (clampedM p mmid)) rfl,
      knSeq_expand _ _ hlenUM hMpos]
  have hnf : b.numFunctions = p + mmid.sum := by
    rw [hb, numFunctions_clamped p x0 xl umid mmid hlen, el_length_expand umid mmid hlen]
  have hord : b.order = p := rfl
  obtain ⟨k0, k1, k2⟩ := blkC_clamped p hp mmid hmq
  have hpts : pts = Array.ofFn (n := b.numFunctions)
      (fun i => grevilleAbscissa b.kn (b.order - 1) i.val) := by
    have := sw_greville_eq b (by rw [hord]; exact hp)
    rw [hg] at this
    injection this
  apply greville_invChecked_ok hv rfl (by rw [hord]; exact hp) _ _ _ htol pts hg
  · intro l hl
    apply hex
    rw [hpts]
    simp only [Array.toList_ofFn, List.mem_ofFn]
    exact ⟨⟨l, hl⟩, rfl⟩
  · rw [hord, hkn, hkn, k0]
  · rw [hord, hnf, hkn, hkn, k1]
  · intro i hi1 hi2
    rw [hord, hkn, hkn]
    rw [hnf] at hi2
    apply separated_getD_lt tol htol.le _ hsep _ _ (k2 i hi1 hi2)
    have : blkC (clampedM p mmid) (i + (p - 1)) ≤ (clampedM p mmid).length - 1 := min_le_right _ _
    have hl2 : 1 ≤ (clampedM p mmid).length := by simp [clampedM]
    omega

theorem separated_mono {tol tol' : K} (h : tol ≤ tol') {u : List K} (hsep : Separated tol' u) :
    Separated tol u :=
  List.Pairwise.imp (fun {x y} hxy => by linarith) hsep

theorem separated_getD_gap (δ : K) (h0 : 0 ≤ δ) (u : List K) (hsep : Separated δ u)
    (a b : ℕ) (ha : a < u.length) (hb : b < u.length) (h : u.getD a 0 < u.getD b 0) :
    u.getD a 0 + δ ≤ u.getD b 0 := by
  rcases Nat.lt_or_ge a b with hab | hab
  · rw [List.getD_eq_getElem _ _ ha, List.getD_eq_getElem _ _ hb]
    exact ((List.pairwise_iff_getElem.mp hsep) a b ha hb hab).le
  · exfalso
    rcases Nat.eq_or_lt_of_le hab with e | e
    · rw [e] at h; exact lt_irrefl _ h
    · exact absurd (separated_getD_lt δ h0 u hsep b a e ha) (not_lt.2 h.le)

/-- **`H_sw` of `C05_geometry_clamped` discharged, knot-spacing form.**  Same clamped basis; instead
of exactness of the Greville points: distinct knots are more than `2·(p-1)·tol` apart. -/
theorem greville_invChecked_clamped_gap (tol : K) (htol : 0 < tol) (p : ℕ) (hp : 2 ≤ p) (x0 xl : K)
    (umid : List K) (mmid : List ℕ) (hlen : umid.length = mmid.length)
    (hsep : Separated (2 * ((p - 1 : ℕ) : K) * tol) (clampedU x0 xl umid)) (hm : ∀ j ∈ mmid, 1 ≤ j)
    (hmq : ∀ j ∈ mmid, j ≤ p - 1) (pts : Array K)
    (hg : (openBasis p (clampedU x0 xl umid) (clampedM p mmid)).greville = .ok pts) :
    ∃ Ni, Mat.invChecked
      (Obj.basisMat (openBasis p (clampedU x0 xl umid) (clampedM p mmid)) tol pts.toList 0 true)
        = .ok Ni := by
  set b := openBasis p (clampedU x0 xl umid) (clampedM p mmid) with hb
  have hq1 : (1 : K) ≤ ((p - 1 : ℕ) : K) := by exact_mod_cast (show 1 ≤ p - 1 by omega)
  have hδ : tol ≤ 2 * ((p - 1 : ℕ) : K) * tol := by nlinarith
  have hsep1 : Separated tol (clampedU x0 xl umid) := separated_mono hδ hsep
  have hv : b.Valid := openBasis_clamped_valid tol htol.le p (by omega) x0 xl umid mmid hlen hsep1
  have hlenUM := clamped_lengths p x0 xl umid mmid hlen
  have hMpos := clampedM_pos p (by omega) mmid hm
  have hkn : ∀ n, b.kn n = (clampedU x0 xl umid).getD (blkC (clampedM p mmid) n) 0 := by
    intro n
    rw [kn_eq_knSeq b (expand (clampedU x0 xl umid) (clampedM p mmid)) rfl,
      knSeq_expand _ _ hlenUM hMpos]
  have hnf : b.numFunctions = p + mmid.sum := by
    rw [hb, numFunctions_clamped p x0 xl umid mmid hlen, el_length_expand umid mmid hlen]
  have hord : b.order = p := rfl
  obtain ⟨k0, k1, k2⟩ := blkC_clamped p hp mmid hmq
  have hl2 : 1 ≤ (clampedM p mmid).length := by simp [clampedM]
  have hblk : ∀ n, blkC (clampedM p mmid) n < (clampedU x0 xl umid).length := by
    intro n
    have : blkC (clampedM p mmid) n ≤ (clampedM p mmid).length - 1 := min_le_right _ _
    omega
  apply greville_invChecked_ok_gap hv rfl (by rw [hord]; exact hp) _ _ _ htol pts hg
  · intro i j hij
    rw [hord]
    rw [hkn, hkn] at hij ⊢
    exact separated_getD_gap _ (le_trans htol.le hδ) _ hsep _ _ (hblk i) (hblk j) hij
  · rw [hord, hkn, hkn, k0]
  · rw [hord, hnf, hkn, hkn, k1]
  · intro i hi1 hi2
    rw [hord, hkn, hkn]
    rw [hnf] at hi2
    exact separated_getD_lt tol htol.le _ hsep1 _ _ (k2 i hi1 hi2) (hblk _)

/-- `H_sw` exactly as it appears in `C05_geometry_clamped` (`b'` the elevated clamped basis of
order `q+1+a`), exact Greville points; the original basis is continuous (`mmid ≤ q`). -/
theorem H_sw_clamped_exact (tol : K) (htol : 0 < tol) (q a : ℕ) (hqa : 1 ≤ q + a) (x0 xl : K)
    (umid : List K) (mmid : List ℕ) (hlen : umid.length = mmid.length)
    (hsep : Separated tol (clampedU x0 xl umid)) (hm : ∀ j ∈ mmid, 1 ≤ j)
    (hmq : ∀ j ∈ mmid, j ≤ q) (pts : Array K)
    (hg : (openBasis (q+1+a) (clampedU x0 xl umid)
      (clampedM (q+1+a) (mmid.map (· + a)))).greville = .ok pts)
    (hex : ∀ t ∈ pts.toList, (openBasis (q+1+a) (clampedU x0 xl umid)
      (clampedM (q+1+a) (mmid.map (· + a)))).ExactAt tol t) :
    ∃ Ni, Mat.invChecked (Obj.basisMat (openBasis (q+1+a) (clampedU x0 xl umid)
      (clampedM (q+1+a) (mmid.map (· + a)))) tol pts.toList 0 true) = .ok Ni := by
  apply greville_invChecked_clamped tol htol (q+1+a) (by omega) x0 xl umid (mmid.map (· + a))
    (by simpa using hlen) hsep _ _ pts hg hex
  · intro j hj
    rw [List.mem_map] at hj
    obtain ⟨j0, hj0, rfl⟩ := hj
    have := hm j0 hj0; omega
  · intro j hj
    rw [List.mem_map] at hj
    obtain ⟨j0, hj0, rfl⟩ := hj
    have := hmq j0 hj0; omega

/-- `H_sw` exactly as it appears in `C05_geometry_clamped`, knot-spacing form: distinct knots more
than `2·(q+a)·tol` apart; the original basis is continuous (`mmid ≤ q`). -/
theorem H_sw_clamped_gap (tol : K) (htol : 0 < tol) (q a : ℕ) (hqa : 1 ≤ q + a) (x0 xl : K)
    (umid : List K) (mmid : List ℕ) (hlen : umid.length = mmid.length)
    (hsep : Separated (2 * ((q + a : ℕ) : K) * tol) (clampedU x0 xl umid))
    (hm : ∀ j ∈ mmid, 1 ≤ j) (hmq : ∀ j ∈ mmid, j ≤ q) (pts : Array K)
    (hg : (openBasis (q+1+a) (clampedU x0 xl umid)
      (clampedM (q+1+a) (mmid.map (· + a)))).greville = .ok pts) :
    ∃ Ni, Mat.invChecked (Obj.basisMat (openBasis (q+1+a) (clampedU x0 xl umid)
      (clampedM (q+1+a) (mmid.map (· + a)))) tol pts.toList 0 true) = .ok Ni := by
  apply greville_invChecked_clamped_gap tol htol (q+1+a) (by omega) x0 xl umid (mmid.map (· + a))
    (by simpa using hlen) _ _ _ pts hg
  · rw [show q + 1 + a - 1 = q + a by omega]; exact hsep
  · intro j hj
    rw [List.mem_map] at hj
    obtain ⟨j0, hj0, rfl⟩ := hj
    have := hm j0 hj0; omega
  · intro j hj
    rw [List.mem_map] at hj
    obtain ⟨j0, hj0, rfl⟩ := hj
    have := hmq j0 hj0; omega

end Model

/-! ## Non-vacuity and sharpness -/

/-- The hypotheses of `H_sw_clamped_gap` are satisfiable (order 3 → 4, knots `0,0,0,1,2,2,3,3,3`). -/
example : ∃ pts Ni,
    (openBasis 4 (clampedU (0 : ℚ) 3 [1, 2]) (clampedM 4 ([1, 2].map (· + 1)))).greville = .ok pts ∧
    Mat.invChecked (Obj.basisMat (openBasis 4 (clampedU (0 : ℚ) 3 [1, 2])
      (clampedM 4 ([1, 2].map (· + 1)))) (1/100) pts.toList 0 true) = .ok Ni := by
  obtain ⟨pts, hg⟩ := greville_ok (openBasis 4 (clampedU (0 : ℚ) 3 [1, 2])
    (clampedM 4 ([1, 2].map (· + 1)))) (by decide)
  obtain ⟨Ni, h⟩ := H_sw_clamped_gap (K := ℚ) (1/100) (by norm_num) 2 1 (by norm_num) 0 3 [1, 2] [1, 2]
    rfl (by simp [Separated, clampedU]; norm_num) (by simp) (by simp) pts hg
  exact ⟨pts, Ni, hg, h⟩

/-- Sharpness: a clamped basis of order 3 whose distinct knots `0, 3/2, 3` are more than
`tol = 1` apart (the knot hypotheses of `C05_geometry_clamped` hold, `q = 2`, `a = 0`).  Its Greville points
are `0, 3/4, 9/4, 3`; `snap` moves `3/4 ↦ 3/2` and `9/4 ↦ 3`, the last two rows of the model's
collocation matrix coincide and the model raises `LinAlgError`.  So `H_sw` needs a hypothesis beyond
`Separated tol` (exactness of the Greville points, or the knot spacing of `H_sw_clamped_gap`). -/
example : (openBasis 3 (clampedU (0 : ℚ) 3 [3/2]) (clampedM 3 [1])).greville
    = .ok #[0, 3/4, 9/4, 3] := by decide +kernel

example : (Mat.invChecked (Obj.basisMat (openBasis 3 (clampedU (0 : ℚ) 3 [3/2]) (clampedM 3 [1]))
    1 [0, 3/4, 9/4, 3] 0 true)).toOption = none := by decide +kernel

end Splipy
