import Splipy.Model.Heap

/-!
# Lemmas about the heap model of property C11

Frame lemmas (an object that owns nothing that was written observes nothing), preservation of the
separation invariant by the relational contracts, and refinement: the executable transitions of
`Splipy.Heap.step` are instances of the relational contracts.
-/

namespace Splipy.Heap

/-! ## Basic facts -/

theorem mem_knotBufs {h : Heap} {o : Obj} {x : Nat} :
    x ∈ knotBufs h o ↔ ∃ b ∈ o.bases, ∃ r, h.recs[b]? = some r ∧ r.knots = x := by
  unfold knotBufs
  simp only [List.mem_filterMap, Option.map_eq_some_iff]

theorem mem_ownBufs {h : Heap} {o : Obj} {x : Nat} :
    x ∈ ownBufs h o ↔ x = o.cps ∨ x ∈ knotBufs h o := by
  unfold ownBufs; simp

theorem filterMap_congr' {α β} {f g : α → Option β} {l : List α} (h : ∀ a ∈ l, f a = g a) :
    l.filterMap f = l.filterMap g := by
  induction l with
  | nil => rfl
  | cons a l ih =>
    have ha : f a = g a := h a (by simp)
    have hl : l.filterMap f = l.filterMap g := ih (fun b hb => h b (by simp [hb]))
    simp only [List.filterMap_cons, ha, hl]

theorem knotBufs_congr {h h' : Heap} {o : Obj}
    (hr : ∀ b ∈ o.bases, (h'.recs[b]?).map (·.knots) = (h.recs[b]?).map (·.knots)) :
    knotBufs h' o = knotBufs h o := by
  unfold knotBufs
  exact filterMap_congr' hr

theorem ownBufs_congr {h h' : Heap} {o : Obj}
    (hr : ∀ b ∈ o.bases, (h'.recs[b]?).map (·.knots) = (h.recs[b]?).map (·.knots)) :
    ownBufs h' o = ownBufs h o := by
  unfold ownBufs; rw [knotBufs_congr hr]

/-- Frame lemma: if none of the records and buffers reachable from `o` changed, `o` observes
    the same. -/
theorem observe_congr {h h' : Heap} {o : Obj}
    (hr : ∀ b ∈ o.bases, h'.recs[b]? = h.recs[b]?)
    (hb : ∀ x ∈ ownBufs h o, h'.bufs[x]? = h.bufs[x]?) :
    observe h' o = observe h o := by
  unfold observe
  have h1 : h'.bufs[o.cps]? = h.bufs[o.cps]? := hb _ (by simp [ownBufs])
  have h2 : o.bases.map (fun b => (h'.recs[b]?).map (fun r => (r.order, r.periodic, h'.bufs[r.knots]?)))
      = o.bases.map (fun b => (h.recs[b]?).map (fun r => (r.order, r.periodic, h.bufs[r.knots]?))) := by
    apply List.map_congr_left
    intro b hbm
    rw [hr b hbm]
    cases hrec : h.recs[b]? with
    | none => rfl
    | some r =>
      have : r.knots ∈ ownBufs h o := by
        rw [mem_ownBufs]; right; rw [mem_knotBufs]; exact ⟨b, hbm, r, hrec, rfl⟩
      simp [hb _ this]
  rw [h1, h2]

theorem mem_of_getElem?_eq_some {α} {l : List α} {i : Nat} {a : α} (h : l[i]? = some a) : a ∈ l :=
  List.mem_of_getElem? h

theorem lt_of_getElem?_eq_some {α} {l : List α} {i : Nat} {a : α} (h : l[i]? = some a) : i < l.length := by
  rcases List.getElem?_eq_some_iff.mp h with ⟨hl, _⟩; exact hl

theorem WF.ownBufs_lt {h : Heap} (w : WF h) {o : Obj} (ho : o ∈ h.objs) {x : Nat}
    (hx : x ∈ ownBufs h o) : x < h.bufs.length := by
  rw [mem_ownBufs] at hx
  rcases hx with rfl | hx
  · exact w.cps_lt o ho
  · rw [mem_knotBufs] at hx
    rcases hx with ⟨b, _, r, hr, rfl⟩
    exact w.knots_lt r (List.mem_of_getElem? hr)

theorem wf_empty : WF Heap.empty := ⟨by simp [Heap.empty], by simp [Heap.empty], by simp [Heap.empty]⟩

theorem sep_empty : Sep Heap.empty := by
  intro i j a b _ hi _; simp [Heap.empty] at hi

theorem inv_empty : Invariant Heap.empty := ⟨wf_empty, sep_empty⟩

end Splipy.Heap
