import Splipy.Lemmas.Elevation
import Splipy.Lemmas.C07Roll

/-!
# C05c — degree elevation for PERIODIC knot sequences (Cox–de Boor level)

`Elev τ σ q q' A`: every B-spline `B_{i,q,τ}` is the non-negative combination `Σ_j A i j · B_{j,q',σ}`
(finite rows, supports inside the support of `B_{i,q,τ}` in terms of knot VALUES).  The relation is
closed under composition, holds for one elevation step (`Elevation.elevation_incl`), hence for
`a` steps; for periodic sequences the matrix can be chosen shift-invariant
(`A (i+n) (j+n') = A i j`), which is what folding onto the periodic basis needs.
-/

namespace Splipy

set_option linter.unusedSectionVars false

variable {K : Type} [Field K] [LinearOrder K] [IsStrictOrderedRing K]

open Finset

/-- `B_{i,q,τ} = Σ_j A i j · B_{j,q',σ}` with non-negative coefficients, finite rows and supports
    (in knot values) inside `[τ i, τ (i+q+1)]`; both sides `s`, every `t`. -/
structure Elev (τ σ : ℕ → K) (q q' : ℕ) (A : ℕ → ℕ → K) : Prop where
  nonneg : ∀ i j, 0 ≤ A i j
  supp : ∀ i j, A i j ≠ 0 → τ i ≤ σ j ∧ σ (j + q' + 1) ≤ τ (i + q + 1)
  fin : ∀ i, ∃ N0, ∀ j, N0 ≤ j → A i j = 0
  ident : ∀ i (s : Side) (t : K) (N : ℕ), (∀ j, N ≤ j → A i j = 0) →
    B s τ q i t = ∑ j ∈ range N, A i j * B s σ q' j t

theorem Elev.refl (τ : ℕ → K) (q : ℕ) : Elev τ τ q q (fun i j => if i = j then 1 else 0) where
  nonneg := fun i j => by beta_reduce; split_ifs <;> simp
  supp := fun i j h => by
    beta_reduce at h
    split_ifs at h with hij
    · subst hij; exact ⟨le_rfl, le_rfl⟩
    · exact absurd rfl h
  fin := fun i => ⟨i + 1, fun j hj => by beta_reduce; rw [if_neg (by omega)]⟩
  ident := fun i s t N hN => by
    have hi : i < N := by
      by_contra hc
      have := hN i (by omega)
      simp at this
    rw [Finset.sum_eq_single i]
    · simp
    · intro j _ hji; simp [Ne.symm hji]
    · intro h; exact absurd (mem_range.mpr hi) h

/-- Sums over a larger range do not change a finite row. -/
theorem sum_range_of_zero (g : ℕ → K) (N M : ℕ) (hNM : N ≤ M) (h : ∀ j, N ≤ j → g j = 0) :
    ∑ j ∈ range M, g j = ∑ j ∈ range N, g j := by
  rw [← Finset.sum_range_add_sum_Ico _ hNM]
  rw [Finset.sum_eq_zero (s := Finset.Ico N M) (fun j hj => h j (Finset.mem_Ico.mp hj).1), add_zero]

theorem Elev.comp {τ σ ρ : ℕ → K} {q q' q'' : ℕ} {A A' : ℕ → ℕ → K}
    (h : Elev τ σ q q' A) (h' : Elev σ ρ q' q'' A') :
    ∃ A'', Elev τ ρ q q'' A'' := by
  choose N0 hN0 using h.fin
  choose N1 hN1 using h'.fin
  refine ⟨fun i l => ∑ j ∈ range (N0 i), A i j * A' j l, ?_, ?_, ?_, ?_⟩
  · intro i l
    exact Finset.sum_nonneg (fun j _ => mul_nonneg (h.nonneg i j) (h'.nonneg j l))
  · intro i l hne
    have : ∃ j ∈ range (N0 i), A i j * A' j l ≠ 0 := by
      by_contra hc
      push Not at hc
      exact hne (Finset.sum_eq_zero hc)
    obtain ⟨j, _, hj⟩ := this
    have h1 := h.supp i j (left_ne_zero_of_mul hj)
    have h2 := h'.supp j l (right_ne_zero_of_mul hj)
    exact ⟨le_trans h1.1 h2.1, le_trans h2.2 h1.2⟩
  · intro i
    refine ⟨(range (N0 i)).sup N1, fun l hl => ?_⟩
    apply Finset.sum_eq_zero
    intro j hj
    have : N1 j ≤ l := le_trans (Finset.le_sup (f := N1) hj) hl
    rw [hN1 j l this, mul_zero]
  · intro i s t N hN
    rw [h.ident i s t (N0 i) (hN0 i)]
    -- a common bound for the rows of `A'` that are used
    set M := max N ((range (N0 i)).sup N1) with hM
    have hrow : ∀ j ∈ range (N0 i), B s σ q' j t = ∑ l ∈ range M, A' j l * B s ρ q'' l t := by
      intro j hj
      apply h'.ident j s t M
      intro l hl
      exact hN1 j l (le_trans (Finset.le_sup (f := N1) hj) (le_trans (le_max_right _ _) hl))
    rw [Finset.sum_congr rfl (fun j hj => by rw [hrow j hj])]
    have hswap : ∑ j ∈ range (N0 i), A i j * ∑ l ∈ range M, A' j l * B s ρ q'' l t
        = ∑ l ∈ range M, (∑ j ∈ range (N0 i), A i j * A' j l) * B s ρ q'' l t := by
      rw [Finset.sum_congr rfl (fun j _ => Finset.mul_sum _ _ _), Finset.sum_comm]
      apply Finset.sum_congr rfl
      intro l _
      rw [Finset.sum_mul]
      apply Finset.sum_congr rfl
      intro j _
      ring
    rw [hswap]
    exact sum_range_of_zero _ N M (le_max_left _ _) (fun l hl => by rw [hN l hl, zero_mul])

/-- One elevation step for general sequences (`Elevation.elevation_incl`). -/
theorem Elev.step (τ σ : ℕ → K) (hσ : Monotone σ) (φ : ℕ → ℕ) (hφ : StrictMono φ)
    (h1 : ∀ n, σ (φ n) = τ n) (h2 : ∀ n, σ (φ n + 1) = τ n) (q : ℕ) :
    ∃ A, Elev τ σ q (q + 1) A := by
  choose A hA hS hB using fun i => elevation_incl τ σ hσ φ hφ h1 h2 q i
  refine ⟨A, hA, ?_, ?_, ?_⟩
  · intro i j hne
    obtain ⟨s1, s2⟩ := hS i j hne
    refine ⟨by rw [← h1 i]; exact hσ s1, ?_⟩
    rw [← h2 (i + q + 1)]
    exact hσ (by omega)
  · intro i
    refine ⟨φ (i + q + 1), fun j hj => ?_⟩
    by_contra hne
    have := (hS i j hne).2
    omega
  · intro i s t N hN
    -- use the identity with a bound large enough, then cut the range
    set M := max N (φ (i + q + 1)) with hM
    rw [hB i s M t (by have := le_max_right N (φ (i + q + 1)); omega)]
    exact sum_range_of_zero _ N M (le_max_left _ _) (fun j hj => by rw [hN j hj, zero_mul])

/-! ## Periodic knot sequences built from one period -/

/-- The infinite periodic knot sequence with period `expand w μ` (starting at `w₀`) and shift `T`. -/
def pSeq (w : List K) (μ : List ℕ) (T : K) : ℕ → K := perExt (knSeq (expand w μ)) μ.sum T

/-- Hypotheses on one period (values sorted, inside one period length, multiplicities positive). -/
structure PerSeqOK (w : List K) (μ : List ℕ) (T : K) : Prop where
  len : w.length = μ.length
  pos : ∀ k ∈ μ, 1 ≤ k
  ne : μ ≠ []
  sorted : w.Pairwise (· ≤ ·)
  last : ∀ x ∈ w, x ≤ w.getD 0 0 + T

variable {w : List K} {μ : List ℕ} {T : K}

theorem PerSeqOK.sum_pos (h : PerSeqOK w μ T) : 0 < μ.sum := by
  cases hμ : μ with
  | nil => exact absurd hμ h.ne
  | cons k ms =>
    have : 1 ≤ k := h.pos k (by rw [hμ]; simp)
    simp only [List.sum_cons]; omega

theorem PerSeqOK.raise (h : PerSeqOK w μ T) (a : ℕ) : PerSeqOK w (μ.map (· + a)) T where
  len := by simpa using h.len
  pos := by
    intro k hk; rw [List.mem_map] at hk; obtain ⟨j, hj, rfl⟩ := hk; have := h.pos j hj; omega
  ne := by simpa using h.ne
  sorted := h.sorted
  last := h.last

theorem pSeq_add (h : PerSeqOK w μ T) (i : ℕ) : pSeq w μ T (i + μ.sum) = pSeq w μ T i + T :=
  perExt_add _ _ _ h.sum_pos i

/-- Value of the periodic sequence: block number inside the period plus the period shift. -/
theorem pSeq_val (h : PerSeqOK w μ T) (j : ℕ) :
    pSeq w μ T j = w.getD (blk μ (j % μ.sum)) 0 + ((j / μ.sum : ℕ) : K) * T := by
  unfold pSeq perExt
  have hx : j % μ.sum < μ.sum := Nat.mod_lt _ h.sum_pos
  rw [knSeq_expand w μ h.len h.pos]
  have hb := blk_lt μ _ hx
  unfold blkC
  rw [min_eq_left (by omega)]

theorem pSeq_mono (h : PerSeqOK w μ T) : Monotone (pSeq w μ T) := by
  have hn := h.sum_pos
  have hblk0 : blk μ 0 = 0 := by
    cases hμ : μ with
    | nil => exact absurd hμ h.ne
    | cons k ms =>
      have : 1 ≤ k := h.pos k (by rw [hμ]; simp)
      exact blk_cons_lt ms (by omega)
  apply monotone_nat_of_le_succ
  intro i
  rw [pSeq_val h, pSeq_val h]
  have hdm := Nat.div_add_mod i μ.sum
  have hr := Nat.mod_lt i hn
  rcases Nat.lt_or_ge (i % μ.sum + 1) μ.sum with hc | hc
  · have e1 : (i + 1) % μ.sum = i % μ.sum + 1 := by
      have : i + 1 = μ.sum * (i / μ.sum) + (i % μ.sum + 1) := by omega
      rw [this, Nat.mul_add_mod, Nat.mod_eq_of_lt hc]
    have e2 : (i + 1) / μ.sum = i / μ.sum := by
      have : i + 1 = μ.sum * (i / μ.sum) + (i % μ.sum + 1) := by omega
      rw [this, Nat.mul_add_div hn, Nat.div_eq_of_lt hc]; simp
    rw [e1, e2]
    have hb1 := blk_lt μ _ hr
    have hb2 := blk_lt μ _ hc
    have hle := blk_mono μ (Nat.le_succ (i % μ.sum))
    rw [h.len.symm] at hb1 hb2
    rw [List.getD_eq_getElem _ _ hb1, List.getD_eq_getElem _ _ hb2]
    rcases Nat.eq_or_lt_of_le hle with he | hl
    · simp only [he]; exact le_refl _
    · have := (List.pairwise_iff_getElem.mp h.sorted) _ _ hb1 hb2 hl
      linarith
  · have e : i + 1 = μ.sum * (i / μ.sum + 1) := by
      have : i + 1 = μ.sum * (i / μ.sum) + μ.sum := by omega
      rw [this]; ring
    have e1 : (i + 1) % μ.sum = 0 := by rw [e]; exact Nat.mul_mod_right _ _
    have e2 : (i + 1) / μ.sum = i / μ.sum + 1 := by rw [e]; exact Nat.mul_div_cancel_left _ hn
    rw [e1, e2, hblk0]
    push_cast
    have hb1 := blk_lt μ _ hr
    rw [h.len.symm] at hb1
    have := h.last (w.getD (blk μ (i % μ.sum)) 0) (by rw [List.getD_eq_getElem _ _ hb1]; exact List.getElem_mem _)
    linarith

/-- Shift invariance of the B-splines on a periodic sequence. -/
theorem B_pSeq_shift (h : PerSeqOK w μ T) (s : Side) (q i : ℕ) (t : K) :
    B s (pSeq w μ T) q (i + μ.sum) (t + T) = B s (pSeq w μ T) q i t := by
  have e : B s (pSeq w μ T) q (i + μ.sum) (t + T) = B s (fun j => 1 * pSeq w μ T j + T) q i (1 * t + T) := by
    rw [one_mul]
    apply B_congr_knots
    intro j _
    rw [show i + μ.sum + j = (i + j) + μ.sum by omega, pSeq_add h, one_mul]
  rw [e, B_affine s _ q i t 1 T one_pos]

/-! ## One elevation step on a periodic sequence -/

theorem c05_mul_add_mod_lt (m n y : ℕ) (hy : y < n) : (m * n + y) % n = y := by
  rw [Nat.add_comm, Nat.add_mul_mod_self_right, Nat.mod_eq_of_lt hy]

theorem c05_mul_add_div_lt (m n y : ℕ) (hy : y < n) : (m * n + y) / n = m := by
  rw [Nat.add_comm, Nat.add_mul_div_right _ _ (by omega), Nat.div_eq_of_lt hy, Nat.zero_add]

/-- Position in the sequence with all multiplicities raised by one. -/
def perIdx (μ : List ℕ) (j : ℕ) : ℕ := j + μ.length * (j / μ.sum) + blk μ (j % μ.sum)

theorem perIdx_decomp (h : PerSeqOK w μ T) (j : ℕ) :
    perIdx μ j = (j / μ.sum) * (μ.map (· + 1)).sum + (j % μ.sum + blk μ (j % μ.sum)) ∧
    j % μ.sum + blk μ (j % μ.sum) + 1 < (μ.map (· + 1)).sum := by
  have hn := h.sum_pos
  have hx : j % μ.sum < μ.sum := Nat.mod_lt _ hn
  have hb := blk_lt μ _ hx
  rw [el_sum_map_succ]
  refine ⟨?_, by omega⟩
  unfold perIdx
  have hdm := Nat.div_add_mod j μ.sum
  have : j / μ.sum * (μ.sum + μ.length) = μ.sum * (j / μ.sum) + μ.length * (j / μ.sum) := by ring
  omega

theorem perIdx_strictMono (h : PerSeqOK w μ T) : StrictMono (perIdx μ) := by
  have hn := h.sum_pos
  apply strictMono_nat_of_lt_succ
  intro i
  unfold perIdx
  have hr := Nat.mod_lt i hn
  have hdm := Nat.div_add_mod i μ.sum
  rcases Nat.lt_or_ge (i % μ.sum + 1) μ.sum with hc | hc
  · have e1 : (i + 1) % μ.sum = i % μ.sum + 1 := by
      have : i + 1 = μ.sum * (i / μ.sum) + (i % μ.sum + 1) := by omega
      rw [this, Nat.mul_add_mod, Nat.mod_eq_of_lt hc]
    have e2 : (i + 1) / μ.sum = i / μ.sum := by
      have : i + 1 = μ.sum * (i / μ.sum) + (i % μ.sum + 1) := by omega
      rw [this, Nat.mul_add_div hn, Nat.div_eq_of_lt hc]; simp
    rw [e1, e2]
    have := blk_succ_ge μ (i % μ.sum)
    omega
  · have e : i + 1 = μ.sum * (i / μ.sum + 1) := by
      have : i + 1 = μ.sum * (i / μ.sum) + μ.sum := by omega
      rw [this]; ring
    have e1 : (i + 1) % μ.sum = 0 := by rw [e]; exact Nat.mul_mod_right _ _
    have e2 : (i + 1) / μ.sum = i / μ.sum + 1 := by rw [e]; exact Nat.mul_div_cancel_left _ hn
    rw [e1, e2]
    have hb := blk_lt μ _ hr
    have : μ.length * (i / μ.sum + 1) = μ.length * (i / μ.sum) + μ.length := by ring
    omega

theorem pSeq_perIdx (h : PerSeqOK w μ T) (j : ℕ) :
    pSeq w (μ.map (· + 1)) T (perIdx μ j) = pSeq w μ T j ∧
    pSeq w (μ.map (· + 1)) T (perIdx μ j + 1) = pSeq w μ T j := by
  have h' := h.raise 1
  obtain ⟨hd, hlt⟩ := perIdx_decomp h j
  have hn' := h'.sum_pos
  set n' := (μ.map (· + 1)).sum with hn'def
  set y := j % μ.sum + blk μ (j % μ.sum) with hy
  have m1 : perIdx μ j % n' = y := by rw [hd]; exact c05_mul_add_mod_lt _ _ _ (by omega)
  have d1 : perIdx μ j / n' = j / μ.sum := by rw [hd]; exact c05_mul_add_div_lt _ _ _ (by omega)
  have m2 : (perIdx μ j + 1) % n' = y + 1 := by rw [hd, Nat.add_assoc]; exact c05_mul_add_mod_lt _ _ _ hlt
  have d2 : (perIdx μ j + 1) / n' = j / μ.sum := by rw [hd, Nat.add_assoc]; exact c05_mul_add_div_lt _ _ _ hlt
  constructor
  · rw [pSeq_val h', pSeq_val h, m1, d1, hy, blk_raise]
  · rw [pSeq_val h', pSeq_val h, m2, d2, hy, blk_raise']

/-- One elevation step on a periodic sequence. -/
theorem Elev.perStep (h : PerSeqOK w μ T) (q : ℕ) :
    ∃ A, Elev (pSeq w μ T) (pSeq w (μ.map (· + 1)) T) q (q + 1) A :=
  Elev.step _ _ (pSeq_mono (h.raise 1)) (perIdx μ) (perIdx_strictMono h)
    (fun n => (pSeq_perIdx h n).1) (fun n => (pSeq_perIdx h n).2) q

/-- `a` elevation steps on a periodic sequence. -/
theorem Elev.perIter (h : PerSeqOK w μ T) (q a : ℕ) :
    ∃ A, Elev (pSeq w μ T) (pSeq w (μ.map (· + a)) T) q (q + a) A := by
  induction a with
  | zero =>
    have e : μ.map (· + 0) = μ := by simp
    rw [e]
    exact ⟨_, Elev.refl _ q⟩
  | succ a ih =>
    obtain ⟨A, hA⟩ := ih
    obtain ⟨A1, hA1⟩ := Elev.perStep (h.raise a) (q + a)
    have e : (μ.map (· + a)).map (· + 1) = μ.map (· + (a + 1)) := by
      rw [List.map_map]; rfl
    rw [e] at hA1
    exact hA.comp hA1

/-! ## A shift-invariant elevation matrix -/

theorem pSeq_add_mul (h : PerSeqOK w μ T) (i m : ℕ) :
    pSeq w μ T (i + m * μ.sum) = pSeq w μ T i + (m : K) * T := by
  induction m with
  | zero => simp
  | succ m ih =>
    rw [show i + (m + 1) * μ.sum = (i + m * μ.sum) + μ.sum by ring, pSeq_add h, ih]
    push_cast; ring

theorem B_pSeq_shift_mul (h : PerSeqOK w μ T) (s : Side) (q i m : ℕ) (t : K) :
    B s (pSeq w μ T) q (i + m * μ.sum) (t + (m : K) * T) = B s (pSeq w μ T) q i t := by
  induction m generalizing t with
  | zero => simp
  | succ m ih =>
    rw [show i + (m + 1) * μ.sum = (i + m * μ.sum) + μ.sum by ring,
      show t + ((m + 1 : ℕ) : K) * T = (t + (m : K) * T) + T by push_cast; ring,
      B_pSeq_shift h, ih]

/-- The fundamental rows `i < n` of an elevation matrix, repeated along the diagonal blocks. -/
def shiftInv (A : ℕ → ℕ → K) (n n' : ℕ) (i j : ℕ) : K :=
  if (i / n) * n' ≤ j then A (i % n) (j - (i / n) * n') else 0

theorem shiftInv_shift (A : ℕ → ℕ → K) (n n' : ℕ) (hn : 0 < n) (i j : ℕ) :
    shiftInv A n n' (i + n) (j + n') = shiftInv A n n' i j := by
  unfold shiftInv
  rw [Nat.add_mod_right, Nat.add_div_right i hn]
  have e : (i / n).succ * n' = (i / n) * n' + n' := by rw [Nat.succ_mul]
  by_cases hc : (i / n) * n' ≤ j
  · rw [if_pos hc, if_pos (by rw [e]; omega)]
    congr 1
    rw [e]; omega
  · rw [if_neg hc, if_neg (by rw [e]; omega)]

/-- **Periodic elevation with a shift-invariant matrix.** -/
theorem Elev.shiftInv {μ' : List ℕ} {q q' : ℕ} {A : ℕ → ℕ → K}
    (h : PerSeqOK w μ T) (h' : PerSeqOK w μ' T)
    (hA : Elev (pSeq w μ T) (pSeq w μ' T) q q' A) :
    Elev (pSeq w μ T) (pSeq w μ' T) q q' (Splipy.shiftInv A μ.sum μ'.sum) where
  nonneg := fun i j => by
    unfold Splipy.shiftInv
    split_ifs
    · exact hA.nonneg _ _
    · exact le_refl _
  supp := fun i j hne => by
    unfold Splipy.shiftInv at hne
    split_ifs at hne with hc
    · obtain ⟨s1, s2⟩ := hA.supp _ _ hne
      have hi : i % μ.sum + (i / μ.sum) * μ.sum = i := by
        rw [Nat.mul_comm]; exact Nat.mod_add_div i μ.sum
      have t1 : pSeq w μ T i = pSeq w μ T (i % μ.sum) + ((i / μ.sum : ℕ) : K) * T := by
        rw [← pSeq_add_mul h, hi]
      have t2 : pSeq w μ' T j = pSeq w μ' T (j - (i / μ.sum) * μ'.sum) + ((i / μ.sum : ℕ) : K) * T := by
        rw [← pSeq_add_mul h']; congr 1; omega
      have t3 : pSeq w μ T (i + q + 1) = pSeq w μ T (i % μ.sum + q + 1) + ((i / μ.sum : ℕ) : K) * T := by
        rw [← pSeq_add_mul h]; congr 1; omega
      have t4 : pSeq w μ' T (j + q' + 1)
          = pSeq w μ' T (j - (i / μ.sum) * μ'.sum + q' + 1) + ((i / μ.sum : ℕ) : K) * T := by
        rw [← pSeq_add_mul h']; congr 1; omega
      rw [t1, t2, t3, t4]
      constructor <;> linarith
    · exact absurd rfl hne
  fin := fun i => by
    obtain ⟨N0, hN0⟩ := hA.fin (i % μ.sum)
    refine ⟨N0 + (i / μ.sum) * μ'.sum, fun j hj => ?_⟩
    unfold Splipy.shiftInv
    rw [if_pos (by omega)]
    exact hN0 _ (by omega)
  ident := fun i s t N hN => by
    set m := i / μ.sum with hm
    set x := i % μ.sum with hx
    have hi : i = x + m * μ.sum := by
      rw [hx, hm, Nat.mul_comm]; exact (Nat.mod_add_div i μ.sum).symm
    -- the row of `A` used
    have hrow : ∀ j0, N - m * μ'.sum ≤ j0 → A x j0 = 0 := by
      intro j0 hj0
      have := hN (j0 + m * μ'.sum) (by omega)
      unfold Splipy.shiftInv at this
      rw [← hm, ← hx, if_pos (by omega)] at this
      rw [← this]; congr 1; omega
    have hB : B s (pSeq w μ T) q i t = B s (pSeq w μ T) q x (t - (m : K) * T) := by
      have := B_pSeq_shift_mul h s q x m (t - (m : K) * T)
      rw [sub_add_cancel] at this
      rw [← this]
      congr 1
    rw [hB, hA.ident x s (t - (m : K) * T) (N - m * μ'.sum) hrow]
    have hterm : ∀ j0, A x j0 * B s (pSeq w μ' T) q' j0 (t - (m : K) * T)
        = Splipy.shiftInv A μ.sum μ'.sum i (m * μ'.sum + j0) * B s (pSeq w μ' T) q' (m * μ'.sum + j0) t := by
      intro j0
      unfold Splipy.shiftInv
      rw [← hm, ← hx, if_pos (by omega)]
      have e1 : m * μ'.sum + j0 - m * μ'.sum = j0 := by omega
      rw [e1]
      congr 1
      have := B_pSeq_shift_mul h' s q' j0 m (t - (m : K) * T)
      rw [sub_add_cancel] at this
      rw [← this]
      congr 1
      omega
    rw [Finset.sum_congr rfl (fun j0 _ => hterm j0)]
    by_cases hc : m * μ'.sum ≤ N
    · have hN' : N = m * μ'.sum + (N - m * μ'.sum) := by omega
      conv_rhs => rw [hN', Finset.sum_range_add]
      have hz : ∑ j ∈ range (m * μ'.sum), Splipy.shiftInv A μ.sum μ'.sum i j * B s (pSeq w μ' T) q' j t = 0 := by
        apply Finset.sum_eq_zero
        intro j hj
        unfold Splipy.shiftInv
        rw [← hm, if_neg (by have := Finset.mem_range.mp hj; omega), zero_mul]
      rw [hz, zero_add]
    · have h0 : N - m * μ'.sum = 0 := by omega
      rw [h0, Finset.sum_range_zero]
      symm
      apply Finset.sum_eq_zero
      intro j hj
      unfold Splipy.shiftInv
      rw [← hm, if_neg (by have := Finset.mem_range.mp hj; omega), zero_mul]

/-- `a` elevation steps on a periodic sequence with a shift-invariant non-negative matrix. -/
theorem Elev.perIter_inv (h : PerSeqOK w μ T) (q a : ℕ) :
    ∃ A, Elev (pSeq w μ T) (pSeq w (μ.map (· + a)) T) q (q + a) A ∧
      ∀ i j, A (i + μ.sum) (j + (μ.map (· + a)).sum) = A i j := by
  obtain ⟨A, hA⟩ := Elev.perIter h q a
  exact ⟨_, hA.shiftInv h (h.raise a), fun i j => shiftInv_shift A _ _ h.sum_pos i j⟩

end Splipy
