import Splipy.Lemmas.Basic
import Splipy.Lemmas.Boehm
import Mathlib.Tactic.Linarith
import Mathlib.Algebra.BigOperators.Intervals

/-!
# Lemmas for property C07 (split / append / subdivide), specification level

* `splineVal_restrict` / `splineDeriv_restrict`: a contiguous slice `[lo, hi)` of the control
  points together with the knot slice `τ (lo ..)` evaluates to the whole spline on the interval
  `[τ (lo+q), τ hi]` (side-aware): locality (`B_congr_knots`) + local support.
* `B_congr_knots_of_before` / `B_congr_knots_of_after`: one-sided locality, used for the C⁰ glue
  of `Curve.append`.
* `splineVal_iterInsert`: any sequence of legal knot insertions preserves the spline (Boehm).
-/

namespace Splipy

set_option linter.unusedSectionVars false
set_option linter.unusedVariables false

variable {K : Type} [Field K] [LinearOrder K] [IsStrictOrderedRing K]

/-! ## Restriction of a spline to a slice of its control points -/

theorem B_eq_zero_of_mem_slice_lt (s : Side) (τ : ℕ → K) (hτ : Monotone τ) (q lo hi i : ℕ) (t : K)
    (ht : s.mem (τ (lo + q)) (τ hi) t) (hi' : i < lo) : B s τ q i t = 0 := by
  cases s
  · exact B_support_right τ hτ q i t (Or.inr (le_trans (hτ (by omega)) ht.1))
  · exact B_support_left τ hτ q i t (Or.inr (lt_of_le_of_lt (hτ (by omega)) ht.1))

theorem B_eq_zero_of_mem_slice_ge (s : Side) (τ : ℕ → K) (hτ : Monotone τ) (q lo hi i : ℕ) (t : K)
    (ht : s.mem (τ (lo + q)) (τ hi) t) (hi' : hi ≤ i) : B s τ q i t = 0 := by
  cases s
  · exact B_support_right τ hτ q i t (Or.inl (lt_of_lt_of_le ht.2 (hτ hi')))
  · exact B_support_left τ hτ q i t (Or.inl (le_trans ht.2 (hτ hi')))

theorem dB_eq_zero_of_mem_slice_lt (s : Side) (τ : ℕ → K) (hτ : Monotone τ) (q lo hi i d : ℕ) (t : K)
    (ht : s.mem (τ (lo + q)) (τ hi) t) (hi' : i < lo) : dB s τ q i d t = 0 := by
  cases s
  · exact dB_support_right τ hτ q i d t (Or.inr (le_trans (hτ (by omega)) ht.1))
  · exact dB_support_left τ hτ q i d t (Or.inr (lt_of_le_of_lt (hτ (by omega)) ht.1))

theorem dB_eq_zero_of_mem_slice_ge (s : Side) (τ : ℕ → K) (hτ : Monotone τ) (q lo hi i d : ℕ) (t : K)
    (ht : s.mem (τ (lo + q)) (τ hi) t) (hi' : hi ≤ i) : dB s τ q i d t = 0 := by
  cases s
  · exact dB_support_right τ hτ q i d t (Or.inl (lt_of_lt_of_le ht.2 (hτ hi')))
  · exact dB_support_left τ hτ q i d t (Or.inl (le_trans ht.2 (hτ hi')))

/-- Abstract windowing: a sum over `range n` whose terms vanish outside `[lo, hi)` is the
re-indexed sum over the window. -/
theorem sum_range_window (f : ℕ → K) (n lo hi : ℕ) (hlh : lo ≤ hi) (hn : hi ≤ n)
    (h0 : ∀ i, i < lo → f i = 0) (h1 : ∀ i, hi ≤ i → i < n → f i = 0) :
    (Finset.range n).sum f = (Finset.range (hi - lo)).sum (fun j => f (lo + j)) := by
  rw [← Finset.sum_Ico_eq_sum_range f lo hi]
  symm
  apply Finset.sum_subset
  · intro i hi'
    rw [Finset.mem_Ico] at hi'
    exact Finset.mem_range.2 (by omega)
  · intro i hin hni
    rw [Finset.mem_Ico] at hni
    rw [Finset.mem_range] at hin
    rcases Nat.lt_or_ge i lo with h | h
    · exact h0 i h
    · exact h1 i (by omega) hin

/-- **Restriction.**  The slice `c (lo ..)` of the control points with the knots `σ j = τ (lo + j)`
(`j ≤ hi - lo + q`, i.e. the slice `knots[lo : hi+p]`) evaluates to the whole spline at every `t`
of the interval `[τ (lo+q), τ hi)` (right-continuous version) resp. `(τ (lo+q), τ hi]` (left). -/
theorem splineVal_restrict (s : Side) (τ σ : ℕ → K) (hτ : Monotone τ) (q n lo hi : ℕ) (c : ℕ → K)
    (t : K) (hlh : lo ≤ hi) (hn : hi ≤ n) (hσ : ∀ j, j ≤ hi - lo + q → σ j = τ (lo + j))
    (ht : s.mem (τ (lo + q)) (τ hi) t) :
    splineVal s σ q (hi - lo) (fun j => c (lo + j)) t = splineVal s τ q n c t := by
  unfold splineVal
  rw [sum_range_window (fun i => c i * B s τ q i t) n lo hi hlh hn
    (fun i h => by
      show c i * B s τ q i t = 0
      rw [B_eq_zero_of_mem_slice_lt s τ hτ q lo hi i t ht h, mul_zero])
    (fun i h _ => by
      show c i * B s τ q i t = 0
      rw [B_eq_zero_of_mem_slice_ge s τ hτ q lo hi i t ht h, mul_zero])]
  apply Finset.sum_congr rfl
  intro j hj
  rw [Finset.mem_range] at hj
  show c (lo + j) * B s σ q j t = c (lo + j) * B s τ q (lo + j) t
  rw [B_congr_knots s σ τ q j (lo + j) t (fun k hk => by
    rw [hσ (j + k) (by omega)]; congr 1; omega)]

/-- Same for every derivative. -/
theorem splineDeriv_restrict (s : Side) (τ σ : ℕ → K) (hτ : Monotone τ) (q n lo hi : ℕ)
    (c : ℕ → K) (d : ℕ) (t : K) (hlh : lo ≤ hi) (hn : hi ≤ n)
    (hσ : ∀ j, j ≤ hi - lo + q → σ j = τ (lo + j)) (ht : s.mem (τ (lo + q)) (τ hi) t) :
    splineDeriv s σ q (hi - lo) (fun j => c (lo + j)) d t = splineDeriv s τ q n c d t := by
  unfold splineDeriv
  rw [sum_range_window (fun i => c i * dB s τ q i d t) n lo hi hlh hn
    (fun i h => by
      show c i * dB s τ q i d t = 0
      rw [dB_eq_zero_of_mem_slice_lt s τ hτ q lo hi i d t ht h, mul_zero])
    (fun i h _ => by
      show c i * dB s τ q i d t = 0
      rw [dB_eq_zero_of_mem_slice_ge s τ hτ q lo hi i d t ht h, mul_zero])]
  apply Finset.sum_congr rfl
  intro j hj
  rw [Finset.mem_range] at hj
  show c (lo + j) * dB s σ q j d t = c (lo + j) * dB s τ q (lo + j) d t
  rw [dB_congr_knots s σ τ q j (lo + j) d t (fun k hk => by
    rw [hσ (j + k) (by omega)]; congr 1; omega)]

/-! ## One-sided locality -/

/-- `t` lies before `a` in the sense of side `s` (`t < a` right-continuous, `t ≤ a` left). -/
def Side.before (s : Side) (t a : K) : Prop :=
  match s with
  | .right => t < a
  | .left => t ≤ a

/-- `t` lies after `a` in the sense of side `s` (`a ≤ t` right-continuous, `a < t` left). -/
def Side.after (s : Side) (a t : K) : Prop :=
  match s with
  | .right => a ≤ t
  | .left => a < t

theorem B_eq_zero_of_before (s : Side) (τ : ℕ → K) (hτ : Monotone τ) (q i : ℕ) (t : K)
    (h : s.before t (τ i)) : B s τ q i t = 0 := by
  cases s
  · exact B_support_right τ hτ q i t (Or.inl h)
  · exact B_support_left τ hτ q i t (Or.inl h)

theorem B_eq_zero_of_after (s : Side) (τ : ℕ → K) (hτ : Monotone τ) (q i : ℕ) (t : K)
    (h : s.after (τ (i+q+1)) t) : B s τ q i t = 0 := by
  cases s
  · exact B_support_right τ hτ q i t (Or.inr h)
  · exact B_support_left τ hτ q i t (Or.inr h)

theorem ind_congr_of_before (s : Side) (a b b' t : K) (h : s.before t b) (h' : s.before t b') :
    ind s a b t = ind s a b' t := by
  cases s <;> simp only [ind, Side.before] at * <;> simp [h, h']

theorem ind_congr_of_after (s : Side) (a a' b t : K) (h : s.after a t) (h' : s.after a' t) :
    ind s a b t = ind s a' b t := by
  cases s <;> simp only [ind, Side.after] at * <;> simp [h, h']

/-- Before its second knot a B-spline does not depend on its last knot. -/
theorem B_congr_knots_of_before (s : Side) (τ σ : ℕ → K) (hτ : Monotone τ) (hσ : Monotone σ)
    (q i i' : ℕ) (t : K) (h : ∀ j, j ≤ q → τ (i+j) = σ (i'+j))
    (h1 : s.before t (τ (i+1))) (h2 : s.before t (σ (i'+1))) :
    B s τ q i t = B s σ q i' t := by
  induction q with
  | zero =>
    rw [B_zero, B_zero]
    have h0 := h 0 (le_refl 0)
    simp only [add_zero] at h0
    rw [h0]
    exact ind_congr_of_before s _ _ _ t h1 h2
  | succ q ih =>
    rw [B_succ, B_succ, B_eq_zero_of_before s τ hτ q (i+1) t h1,
      B_eq_zero_of_before s σ hσ q (i'+1) t h2, mul_zero, mul_zero, add_zero, add_zero,
      ih (fun j hj => h j (by omega))]
    have e0 := h 0 (by omega)
    have e1 := h (q+1) (le_refl _)
    simp only [add_zero] at e0
    rw [e0, show i + q + 1 = i + (q+1) by omega, show i' + q + 1 = i' + (q+1) by omega, e1]

/-- After its last-but-one knot a B-spline does not depend on its first knot. -/
theorem B_congr_knots_of_after (s : Side) (τ σ : ℕ → K) (hτ : Monotone τ) (hσ : Monotone σ)
    (q i i' : ℕ) (t : K) (h : ∀ j, 1 ≤ j → j ≤ q + 1 → τ (i+j) = σ (i'+j))
    (h1 : s.after (τ (i+q)) t) (h2 : s.after (σ (i'+q)) t) :
    B s τ q i t = B s σ q i' t := by
  induction q generalizing i i' with
  | zero =>
    rw [B_zero, B_zero]
    have h0 := h 1 (le_refl 1) (le_refl 1)
    rw [h0]
    simp only [add_zero] at h1 h2
    exact ind_congr_of_after s _ _ _ t h1 h2
  | succ q ih =>
    have z1 : B s τ q i t = 0 := B_eq_zero_of_after s τ hτ q i t h1
    have z2 : B s σ q i' t = 0 := B_eq_zero_of_after s σ hσ q i' t h2
    rw [B_succ, B_succ, z1, z2, mul_zero, mul_zero, zero_add, zero_add]
    have e : B s τ q (i+1) t = B s σ q (i'+1) t := by
      apply ih (i+1) (i'+1)
      · intro j hj1 hj2
        have := h (j+1) (by omega) (by omega)
        rw [show i + 1 + j = i + (j+1) by omega, show i' + 1 + j = i' + (j+1) by omega]
        exact this
      · rw [show i + 1 + q = i + (q+1) by omega]; exact h1
      · rw [show i' + 1 + q = i' + (q+1) by omega]; exact h2
    rw [e]
    have e1 := h 1 (le_refl 1) (by omega)
    have e2 := h (q+2) (by omega) (le_refl _)
    rw [show i + q + 2 = i + (q+2) by omega, show i' + q + 2 = i' + (q+2) by omega, e1, e2]

/-! ## Iterated knot insertion preserves the spline -/

/-- State of a spline under construction: knots, number of functions, control points. -/
structure SplineData (K : Type) where
  τ : ℕ → K
  n : ℕ
  c : ℕ → K

/-- One legal Boehm insertion of `x` at position `μ`. -/
def SplineData.insert (D : SplineData K) (q μ : ℕ) (x : K) : SplineData K :=
  { τ := insertSeq D.τ μ x, n := D.n + 1, c := boehmCoefGen D.τ μ x q D.n D.c }

/-- A sequence of insertions each of which is legal for the knots it is applied to. -/
def SplineData.Legal (q : ℕ) : SplineData K → List (ℕ × K) → Prop
  | _, [] => True
  | D, (μ, x) :: rest =>
      (1 ≤ μ ∧ D.τ (μ-1) ≤ x ∧ x ≤ D.τ μ) ∧ SplineData.Legal q (D.insert q μ x) rest

def SplineData.insertAll (q : ℕ) : SplineData K → List (ℕ × K) → SplineData K
  | D, [] => D
  | D, (μ, x) :: rest => SplineData.insertAll q (D.insert q μ x) rest

theorem SplineData.insertAll_mono (q : ℕ) (D : SplineData K) (steps : List (ℕ × K))
    (hτ : Monotone D.τ) (hl : SplineData.Legal q D steps) :
    Monotone (SplineData.insertAll q D steps).τ := by
  induction steps generalizing D with
  | nil => exact hτ
  | cons st rest ih =>
    obtain ⟨μ, x⟩ := st
    obtain ⟨⟨h1, h2, h3⟩, hl'⟩ := hl
    apply ih (D.insert q μ x) _ hl'
    obtain ⟨a, b⟩ := bo_bounds D.τ hτ μ x ⟨h2, h3⟩
    exact bo_insertSeq_mono D.τ hτ μ x a b

/-- **Boehm, iterated**: any legal sequence of insertions leaves value and derivatives of the
spline unchanged (both sides, every `t`). -/
theorem splineVal_insertAll (s : Side) (q : ℕ) (D : SplineData K) (steps : List (ℕ × K))
    (hτ : Monotone D.τ) (hl : SplineData.Legal q D steps) (t : K) :
    splineVal s (SplineData.insertAll q D steps).τ q (SplineData.insertAll q D steps).n
        (SplineData.insertAll q D steps).c t
      = splineVal s D.τ q D.n D.c t := by
  induction steps generalizing D with
  | nil => rfl
  | cons st rest ih =>
    obtain ⟨μ, x⟩ := st
    obtain ⟨⟨h1, h2, h3⟩, hl'⟩ := hl
    obtain ⟨a, b⟩ := bo_bounds D.τ hτ μ x ⟨h2, h3⟩
    have hm : Monotone (D.insert q μ x).τ := bo_insertSeq_mono D.τ hτ μ x a b
    simp only [SplineData.insertAll]
    rw [ih (D.insert q μ x) hm hl']
    exact (boehm_splineVal_gen s D.τ hτ μ x h1 ⟨h2, h3⟩ q D.n D.c t).symm

theorem splineDeriv_insertAll (s : Side) (q : ℕ) (D : SplineData K) (steps : List (ℕ × K))
    (hτ : Monotone D.τ) (hl : SplineData.Legal q D steps) (d : ℕ) (t : K) :
    splineDeriv s (SplineData.insertAll q D steps).τ q (SplineData.insertAll q D steps).n
        (SplineData.insertAll q D steps).c d t
      = splineDeriv s D.τ q D.n D.c d t := by
  induction steps generalizing D with
  | nil => rfl
  | cons st rest ih =>
    obtain ⟨μ, x⟩ := st
    obtain ⟨⟨h1, h2, h3⟩, hl'⟩ := hl
    obtain ⟨a, b⟩ := bo_bounds D.τ hτ μ x ⟨h2, h3⟩
    have hm : Monotone (D.insert q μ x).τ := bo_insertSeq_mono D.τ hτ μ x a b
    simp only [SplineData.insertAll]
    rw [ih (D.insert q μ x) hm hl']
    exact (boehm_splineDeriv_gen s D.τ hτ μ x h1 ⟨h2, h3⟩ q D.n D.c d t).symm

end Splipy
