import Splipy.Lemmas.C10Periodic
import Splipy.Lemmas.C10Raise

/-!
# C10: `Curve.append` for curves of any two orders

`History.append a c tol`: both curves non-periodic, `make_splines_compatible`, the curve of LOWER order
is raised with `Curve.raise_order(difference)`, then the merge `Obj.appendCurve`.

* equal orders: `History.append_wf` (`Lemmas/C10Periodic.lean`), no guard;
* unequal orders: the raised curve must satisfy C05's clamped guard `History.ClampedDir` for the amount
  by which it is raised (`C10R.raise_curve_wf`, `Lemmas/C10Raise.lean`); the merge itself only needs the
  raised curve to be well formed with one basis (`Obj.appendCurve_wf`; when the orders still differed
  `appendCurve` would return `none` and `append` would raise).

`History.AppendGuard` packages the three cases; `History.stepOut_append_any_wf_partial` is the statement
for one call of a history.
-/

set_option linter.unusedSectionVars false
set_option linter.unusedVariables false

namespace Splipy

variable {K : Type} [Field K] [LinearOrder K] [IsStrictOrderedRing K] [FloorRing K]

open History

namespace C10R

/-- `Curve.raise_order` keeps the number of bases (one). -/
theorem curveRaiseOrder_bases_size (o o' : Obj K) (tol : K) (a : Int) (r : Ret)
    (hsz : o.bases.size = 1) (hs : o.curveRaiseOrder tol a = .ok (r, o')) : o'.bases.size = 1 := by
  unfold Obj.curveRaiseOrder at hs
  by_cases h1 : a < 0
  · rw [if_pos h1] at hs; cases hs
  rw [if_neg h1] at hs
  by_cases h2 : a = 0
  · rw [if_pos h2] at hs
    injection hs with hs
    rw [← (Prod.mk.inj hs).2]; exact hsz
  rw [if_neg h2] at hs
  simp only [] at hs
  cases hb : (o.basis 0).raiseOrder tol a.toNat with
  | error e => rw [hb] at hs; cases hs
  | ok nb =>
    rw [hb] at hs
    simp only [] at hs
    cases hg : nb.greville with
    | error e => rw [hg] at hs; cases hs
    | ok pts =>
      rw [hg] at hs
      simp only [] at hs
      cases hC : Mat.solveChecked (Obj.basisMat nb tol pts.toList 0 true)
          (Mat.mul (Obj.basisMat (o.basis 0) tol pts.toList 0 true) (Obj.cpsMat o.cps)) with
      | error e => rw [hC] at hs; cases hs
      | ok C =>
        rw [hC] at hs
        injection hs with hs
        rw [← (Prod.mk.inj hs).2]
        rfl

end C10R

namespace History

/-- Guard of `Curve.append`: the orders agree, or the curve of lower order is a clamped curve in the
    sense of C05's guard (`ClampedDir`) for the amount by which `Curve.raise_order` raises it. -/
def AppendGuard (tol : K) (o other : Obj K) : Prop :=
  (o.basis 0).order = (other.basis 0).order
  ∨ ((o.basis 0).order < (other.basis 0).order
      ∧ ClampedDir tol (o.basis 0) ((other.basis 0).order - (o.basis 0).order) 0)
  ∨ ((other.basis 0).order < (o.basis 0).order
      ∧ ClampedDir tol (other.basis 0) ((o.basis 0).order - (other.basis 0).order) 0)

/-- The tail of `History.append` once both curves are well formed with one basis each. -/
theorem append_tail_wf {a2 c2 r : Obj K} {tol : K} (ha : a2.WellFormed) (hc : c2.WellFormed)
    (ha1 : a2.bases.size = 1) (hc1 : c2.bases.size = 1)
    (hs : (do
      let l ← a2.appendCurve c2 tol
      match l with
        | some o => pure o
        | none => throw PyErr.other : PyM (Obj K)) = .ok r) : r.WellFormed := by
  simp only [bind, Except.bind, pure, Except.pure] at hs
  cases hm : a2.appendCurve c2 tol with
  | error e => rw [hm] at hs; cases hs
  | ok res =>
    rw [hm] at hs
    cases res with
    | none => cases hs
    | some o' =>
      simp only [Except.ok.injEq] at hs
      subst hs
      exact Obj.appendCurve_wf ha hc ha1 hc1 hm

/-- **`Curve.append` for any two orders** under `AppendGuard`. -/
theorem append_any_wf {a c r : Obj K} {tol : K} (htol : 0 < tol) (ha : a.WellFormed) (hc : c.WellFormed)
    (ha1 : a.bases.size = 1) (hc1 : c.bases.size = 1) (hg : AppendGuard tol a c)
    (hs : append a c tol = .ok r) : r.WellFormed := by
  rcases hg with heq | ⟨hlt, hcl⟩ | ⟨hlt, hcl⟩
  · exact append_wf ha hc ha1 hc1 heq hs
  · -- the receiver has the lower order
    unfold append at hs
    by_cases hper : (a.basis 0).periodic > -1 ∨ (c.basis 0).periodic > -1
    · simp only [if_pos hper] at hs
      cases hs
    simp only [if_neg hper] at hs
    have hcp := Obj.compatible_spec ha hc
    have hlt' : (((a.compatible c).1.basis 0).order : Int) < (((a.compatible c).2.basis 0).order : Int) := by
      rw [hcp.basis_a, hcp.basis_c]; exact_mod_cast hlt
    rw [if_pos hlt'] at hs
    rw [hcp.basis_a, hcp.basis_c, ← Nat.cast_sub hlt.le] at hs
    cases hr : (a.compatible c).1.curveRaiseOrder tol
        (((c.basis 0).order - (a.basis 0).order : ℕ) : Int) with
    | error e => rw [hr] at hs; cases hs
    | ok res =>
      obtain ⟨ret, a2⟩ := res
      rw [hr] at hs
      have hsz1 : (a.compatible c).1.bases.size = 1 := by rw [hcp.ba]; exact ha1
      have hw := C10R.raise_curve_wf hcp.wa hsz1 tol htol _ (by omega)
        (by rw [hcp.basis_a]; exact hcl) ret a2 hr
      have hb := C10R.curveRaiseOrder_bases_size _ a2 tol _ ret hsz1 hr
      exact append_tail_wf hw.2 hcp.wc hb (by rw [hcp.bc]; exact hc1) hs
  · -- the argument has the lower order
    unfold append at hs
    by_cases hper : (a.basis 0).periodic > -1 ∨ (c.basis 0).periodic > -1
    · simp only [if_pos hper] at hs
      cases hs
    simp only [if_neg hper] at hs
    have hcp := Obj.compatible_spec ha hc
    have hlt' : ¬ (((a.compatible c).1.basis 0).order : Int) < (((a.compatible c).2.basis 0).order : Int) := by
      rw [hcp.basis_a, hcp.basis_c]
      have : ((c.basis 0).order : Int) < ((a.basis 0).order : Int) := by exact_mod_cast hlt
      omega
    rw [if_neg hlt'] at hs
    rw [hcp.basis_a, hcp.basis_c, ← Nat.cast_sub hlt.le] at hs
    cases hr : (a.compatible c).2.curveRaiseOrder tol
        (((a.basis 0).order - (c.basis 0).order : ℕ) : Int) with
    | error e => rw [hr] at hs; cases hs
    | ok res =>
      obtain ⟨ret, c2⟩ := res
      rw [hr] at hs
      have hsz1 : (a.compatible c).2.bases.size = 1 := by rw [hcp.bc]; exact hc1
      have hw := C10R.raise_curve_wf hcp.wc hsz1 tol htol _ (by omega)
        (by rw [hcp.basis_c]; exact hcl) ret c2 hr
      have hb := C10R.curveRaiseOrder_bases_size _ c2 tol _ ret hsz1 hr
      exact append_tail_wf hcp.wa hw.2 (by rw [hcp.ba]; exact ha1) hb hs

/-- `_partial`: when the orders differ, the curve of lower order must satisfy C05's clamped guard for
    the amount by which it is raised. -/
theorem stepOut_append_any_wf_partial {o other : Obj K} (h : o.WellFormed) (ho : other.WellFormed)
    (tol : K) (htol : 0 < tol) (hg : AppendGuard tol o other) {out : Out K}
    (hs : stepOut tol o (.append other) = .ok out) : out.recv.WellFormed ∧ out.news = [] := by
  simp only [stepOut] at hs
  split_ifs at hs with hsz
  cases hr : append o other tol with
  | error e => rw [hr] at hs; cases hs
  | ok r =>
    rw [hr] at hs
    injection hs with hs
    subst hs
    exact ⟨append_any_wf htol h ho hsz.1 hsz.2 hg hr, rfl⟩

end History

end Splipy
