import Splipy.Lemmas.C12Compat
import Splipy.Lemmas.C12Merge
import Splipy.Lemmas.C12Union
import Splipy.Lemmas.C12Stages
import Splipy.Lemmas.C12Curve
import Splipy.Lemmas.C12Raise
import Splipy.Lemmas.C12Direction
import Splipy.Lemmas.C05RaisesTo
import Splipy.Lemmas.C12Periodic
import Splipy.Lemmas.C12All

/-!
# C12 — the per-direction theorems in terms of the pair `a` after the `reparam` stage

These are the statements of `Properties/C12.lean` with the state `a` after `reparam` and the equation
`stageReparam s i = .ok a` still explicit; the property theorems discharge that equation
(`C12.stageReparam_succeeds`) and state the knot hypotheses on the normalised bases
`C06.reparamOk (s.j.basis i) 0 1`.
-/

open Splipy Splipy.Obj Splipy.C12

namespace Splipy

set_option linter.unusedSectionVars false

variable {K : Type} [Field K] [LinearOrder K] [IsStrictOrderedRing K] [FloorRing K]

namespace C12

theorem core_open_curves_same (tol : K) (htol : 0 < tol) (c1 c2 : Bool) (p : ℕ) (hp : 2 ≤ p) (x0 xl : K)
    (L : List (K × ℕ × ℕ)) (hsep : Separated tol (clampedU x0 xl (L.map (·.1))))
    (s a : Obj K × Obj K) (hw1 : C06.WF s.1 1) (hw2 : C06.WF s.2 1) (ha : stageReparam s 0 = .ok a)
    (hb1 : a.1.basis 0 = openBasis p (clampedU x0 xl (L.map (·.1))) (clampedM p (L.map (·.2.1))))
    (hb2 : a.2.basis 0 = openBasis p (clampedU x0 xl (L.map (·.1))) (clampedM p (L.map (·.2.2)))) :
    ∃ r, identicalDir tol c1 c2 s 0 = .ok r
      ∧ r.1.basis 0 = openBasis p (clampedU x0 xl (L.map (·.1))) (clampedM p (L.map (fun e => max e.2.1 e.2.2)))
      ∧ r.2.basis 0 = r.1.basis 0
      ∧ Rescaled 1 0 (s.1.basis 0).start (s.1.basis 0).stop s.1 r.1
      ∧ Rescaled 1 0 (s.2.basis 0).start (s.2.basis 0).stop s.2 r.2 := by
  obtain ⟨_, _, ha1, ha2⟩ := stageReparam_ok ha
  have hre1 := reparam_rescaled hw1 0 ha1
  have hre2 := reparam_rescaled hw2 0 ha2
  obtain ⟨r, hSP, hSO, hSM, hr1, hr2, hs1, hs2⟩ :=
    open_curves_same_order tol htol c1 c2 p hp x0 xl L hsep a hre1.2.1 hre2.2.1 hb1 hb2
  exact ⟨r, identicalDir_of_stages ha hSP hSO hSM, hr1, hr2.trans hr1.symm,
    hre1.1.trans_same hs1, hre2.1.trans_same hs2⟩


theorem core_open_curves (tol : K) (htol : 0 < tol) (c1 c2 : Bool) (p1 p2 : ℕ) (hp1 : 2 ≤ p1) (hp2 : 2 ≤ p2)
    (x0 xl : K) (L : List (K × ℕ × ℕ)) (hm : ∀ e ∈ L, e.2.1 ≤ p1 - 1 ∧ e.2.2 ≤ p2 - 1)
    (hgap : Separated (2 * ((max p1 p2 - 1 : ℕ) : K) * tol) (clampedU x0 xl (L.map (·.1))))
    (s a : Obj K × Obj K) (hw1 : C06.WF s.1 1) (hw2 : C06.WF s.2 1) (ha : stageReparam s 0 = .ok a)
    (hb1 : a.1.basis 0 = openBasis p1 (clampedU x0 xl (L.map (·.1))) (clampedM p1 (L.map (·.2.1))))
    (hb2 : a.2.basis 0 = openBasis p2 (clampedU x0 xl (L.map (·.1))) (clampedM p2 (L.map (·.2.2)))) :
    ∃ r, identicalDir tol c1 c2 s 0 = .ok r
      ∧ r.1.basis 0 = openBasis (max p1 p2) (clampedU x0 xl (L.map (·.1)))
          (clampedM (max p1 p2) (L.map (fun e =>
            max (raisedMult (max p1 p2 - p1) e.2.1) (raisedMult (max p1 p2 - p2) e.2.2))))
      ∧ r.2.basis 0 = r.1.basis 0
      ∧ Rescaled 1 0 (s.1.basis 0).start (s.1.basis 0).stop s.1 r.1
      ∧ Rescaled 1 0 (s.2.basis 0).start (s.2.basis 0).stop s.2 r.2 := by
  obtain ⟨_, _, ha1, ha2⟩ := stageReparam_ok ha
  have hre1 := reparam_rescaled hw1 0 ha1
  have hre2 := reparam_rescaled hw2 0 ha2
  obtain ⟨c, r, hSP, hSO, hSM, hr1, hr2, hs1, hs2⟩ :=
    open_curves_any_order tol htol c1 c2 p1 p2 hp1 hp2 x0 xl L hm hgap a hre1.2.1 hre2.2.1 hb1 hb2
  exact ⟨r, identicalDir_of_stages ha hSP hSO hSM, hr1, hr2,
    hre1.1.trans_same hs1, hre2.1.trans_same hs2⟩


theorem core_open_direction {m : ℕ} (tol : K) (htol : 0 < tol) (c1 c2 : Bool) (p1 p2 : ℕ)
    (hp1 : 2 ≤ p1) (hp2 : 2 ≤ p2) (x0 xl : K) (L : List (K × ℕ × ℕ))
    (hsep : Separated tol (clampedU x0 xl (L.map (·.1)))) (i : Fin m) (hi : (i : ℕ) ≤ 2)
    (s a : Obj K × Obj K) (hw1 : C06.WF s.1 m) (hw2 : C06.WF s.2 m) (ha : stageReparam s i = .ok a)
    (hb1 : a.1.basis i = openBasis p1 (clampedU x0 xl (L.map (·.1))) (clampedM p1 (L.map (·.2.1))))
    (hb2 : a.2.basis i = openBasis p2 (clampedU x0 xl (L.map (·.1))) (clampedM p2 (L.map (·.2.2))))
    (H_raise₁ : p1 < max p1 p2 → RaisesTo tol c1 m i p1 (max p1 p2) x0 xl L (·.1) (·.2.1) a.1)
    (H_raise₂ : p2 < max p1 p2 → RaisesTo tol c2 m i p2 (max p1 p2) x0 xl L (·.1) (·.2.2) a.2) :
    ∃ r, identicalDir tol c1 c2 s i = .ok r
      ∧ r.1.basis i = openBasis (max p1 p2) (clampedU x0 xl (L.map (·.1)))
          (clampedM (max p1 p2) (L.map (fun e =>
            max (raisedMult (max p1 p2 - p1) e.2.1) (raisedMult (max p1 p2 - p2) e.2.2))))
      ∧ r.2.basis i = r.1.basis i
      ∧ (∀ k : Fin m, k ≠ i → r.1.basis k = s.1.basis k ∧ r.2.basis k = s.2.basis k)
      ∧ Rescaled m i (s.1.basis i).start (s.1.basis i).stop s.1 r.1
      ∧ Rescaled m i (s.2.basis i).start (s.2.basis i).stop s.2 r.2
      ∧ C06.WF r.1 m ∧ C06.WF r.2 m := by
  obtain ⟨_, _, ha1, ha2⟩ := stageReparam_ok ha
  have hre1 := reparam_rescaled hw1 i ha1
  have hre2 := reparam_rescaled hw2 i ha2
  obtain ⟨c, r, hSP, hSO, hSM, hr1, hr2, hs1, hs2, hk, hwr1, hwr2⟩ :=
    open_direction_any_order tol htol c1 c2 p1 p2 hp1 hp2 x0 xl L hsep i hi a hre1.2.1 hre2.2.1 hb1 hb2
      H_raise₁ H_raise₂
  have hod1 := reparamDir_onlyDir ha1
  have hod2 := reparamDir_onlyDir ha2
  refine ⟨r, identicalDir_of_stages ha hSP hSO hSM, hr1, hr2, fun k hk' => ?_,
    hre1.1.trans_same hs1, hre2.1.trans_same hs2, hwr1, hwr2⟩
  have hne : (k : ℕ) ≠ (i : ℕ) := fun e => hk' (Fin.ext e)
  exact ⟨((hk k hk').1).trans (hod1.basis_ne k hne), ((hk k hk').2).trans (hod2.basis_ne k hne)⟩


theorem core_open_surfaces (tol : K) (htol : 0 < tol) (p1 p2 : ℕ) (hp1 : 2 ≤ p1) (hp2 : 2 ≤ p2) (x0 xl : K)
    (L : List (K × ℕ × ℕ)) (hm : ∀ e ∈ L, e.2.1 ≤ p1 - 1 ∧ e.2.2 ≤ p2 - 1)
    (hgap : Separated (2 * ((max p1 p2 - 1 : ℕ) : K) * tol) (clampedU x0 xl (L.map (·.1))))
    (i : Fin 2) (s a : Obj K × Obj K) (hw1 : C06.WF s.1 2) (hw2 : C06.WF s.2 2)
    (ha : stageReparam s i = .ok a)
    (hb1 : a.1.basis i = openBasis p1 (clampedU x0 xl (L.map (·.1))) (clampedM p1 (L.map (·.2.1))))
    (hb2 : a.2.basis i = openBasis p2 (clampedU x0 xl (L.map (·.1))) (clampedM p2 (L.map (·.2.2))))
    (hother₁ : p1 < max p1 p2 → ∀ k : Fin 2, k ≠ i → GrevilleOK tol (a.1.basis k))
    (hother₂ : p2 < max p1 p2 → ∀ k : Fin 2, k ≠ i → GrevilleOK tol (a.2.basis k))
    (hguard₁ : p1 < max p1 p2 → Obj.raiseGuard tol a.1.bases.toList = .ok true)
    (hguard₂ : p2 < max p1 p2 → Obj.raiseGuard tol a.2.bases.toList = .ok true) :
    ∃ r, identicalDir tol false false s i = .ok r
      ∧ r.1.basis i = openBasis (max p1 p2) (clampedU x0 xl (L.map (·.1)))
          (clampedM (max p1 p2) (L.map (fun e =>
            max (raisedMult (max p1 p2 - p1) e.2.1) (raisedMult (max p1 p2 - p2) e.2.2))))
      ∧ r.2.basis i = r.1.basis i
      ∧ (∀ k : Fin 2, k ≠ i → r.1.basis k = s.1.basis k ∧ r.2.basis k = s.2.basis k)
      ∧ Rescaled 2 i (s.1.basis i).start (s.1.basis i).stop s.1 r.1
      ∧ Rescaled 2 i (s.2.basis i).start (s.2.basis i).stop s.2 r.2
      ∧ C06.WF r.1 2 ∧ C06.WF r.2 2 := by
  obtain ⟨_, _, ha1, ha2⟩ := stageReparam_ok ha
  have hwa1 := (reparam_rescaled hw1 i ha1).2.1
  have hwa2 := (reparam_rescaled hw2 i ha2).2.1
  have hfac : tol ≤ 2 * ((max p1 p2 - 1 : ℕ) : K) * tol := by
    have h1 : (1 : K) ≤ ((max p1 p2 - 1 : ℕ) : K) := by
      have : 1 ≤ max p1 p2 - 1 := by have := le_max_left p1 p2; omega
      exact_mod_cast this
    nlinarith
  exact core_open_direction tol htol false false p1 p2 hp1 hp2 x0 xl L (separated_mono hfac hgap) i
    (by have := i.isLt; omega) s a hw1 hw2 ha hb1 hb2
    (fun h => raisesTo_surface tol htol i p1 (max p1 p2) hp1 (le_max_left _ _) x0 xl L (·.1) (·.2.1)
      (fun e he => (hm e he).1) hgap a.1 hwa1 hb1 (hother₁ h) (hguard₁ h))
    (fun h => raisesTo_surface tol htol i p2 (max p1 p2) hp2 (le_max_right _ _) x0 xl L (·.1) (·.2.2)
      (fun e he => (hm e he).2) hgap a.2 hwa2 hb2 (hother₂ h) (hguard₂ h))


theorem core_open_volumes (tol : K) (htol : 0 < tol) (p1 p2 : ℕ) (hp1 : 2 ≤ p1) (hp2 : 2 ≤ p2) (x0 xl : K)
    (L : List (K × ℕ × ℕ)) (hm : ∀ e ∈ L, e.2.1 ≤ p1 - 1 ∧ e.2.2 ≤ p2 - 1)
    (hgap : Separated (2 * ((max p1 p2 - 1 : ℕ) : K) * tol) (clampedU x0 xl (L.map (·.1))))
    (i : Fin 3) (s a : Obj K × Obj K) (hw1 : C06.WF s.1 3) (hw2 : C06.WF s.2 3)
    (ha : stageReparam s i = .ok a)
    (hb1 : a.1.basis i = openBasis p1 (clampedU x0 xl (L.map (·.1))) (clampedM p1 (L.map (·.2.1))))
    (hb2 : a.2.basis i = openBasis p2 (clampedU x0 xl (L.map (·.1))) (clampedM p2 (L.map (·.2.2))))
    (hother₁ : p1 < max p1 p2 → ∀ k : Fin 3, k ≠ i → GrevilleOK tol (a.1.basis k))
    (hother₂ : p2 < max p1 p2 → ∀ k : Fin 3, k ≠ i → GrevilleOK tol (a.2.basis k))
    (hguard₁ : p1 < max p1 p2 → Obj.raiseGuard tol a.1.bases.toList = .ok true)
    (hguard₂ : p2 < max p1 p2 → Obj.raiseGuard tol a.2.bases.toList = .ok true) :
    ∃ r, identicalDir tol false false s i = .ok r
      ∧ r.1.basis i = openBasis (max p1 p2) (clampedU x0 xl (L.map (·.1)))
          (clampedM (max p1 p2) (L.map (fun e =>
            max (raisedMult (max p1 p2 - p1) e.2.1) (raisedMult (max p1 p2 - p2) e.2.2))))
      ∧ r.2.basis i = r.1.basis i
      ∧ (∀ k : Fin 3, k ≠ i → r.1.basis k = s.1.basis k ∧ r.2.basis k = s.2.basis k)
      ∧ Rescaled 3 i (s.1.basis i).start (s.1.basis i).stop s.1 r.1
      ∧ Rescaled 3 i (s.2.basis i).start (s.2.basis i).stop s.2 r.2
      ∧ C06.WF r.1 3 ∧ C06.WF r.2 3 := by
  obtain ⟨_, _, ha1, ha2⟩ := stageReparam_ok ha
  have hwa1 := (reparam_rescaled hw1 i ha1).2.1
  have hwa2 := (reparam_rescaled hw2 i ha2).2.1
  have hfac : tol ≤ 2 * ((max p1 p2 - 1 : ℕ) : K) * tol := by
    have h1 : (1 : K) ≤ ((max p1 p2 - 1 : ℕ) : K) := by
      have : 1 ≤ max p1 p2 - 1 := by have := le_max_left p1 p2; omega
      exact_mod_cast this
    nlinarith
  exact core_open_direction tol htol false false p1 p2 hp1 hp2 x0 xl L (separated_mono hfac hgap) i
    (by have := i.isLt; omega) s a hw1 hw2 ha hb1 hb2
    (fun h => raisesTo_volume tol htol i p1 (max p1 p2) hp1 (le_max_left _ _) x0 xl L (·.1) (·.2.1)
      (fun e he => (hm e he).1) hgap a.1 hwa1 hb1 (hother₁ h) (hguard₁ h))
    (fun h => raisesTo_volume tol htol i p2 (max p1 p2) hp2 (le_max_right _ _) x0 xl L (·.1) (·.2.2)
      (fun e he => (hm e he).2) hgap a.2 hwa2 hb2 (hother₂ h) (hguard₂ h))


theorem core_periodic_direction {m : ℕ} (tol : K) (htol : 0 < tol) (c1 c2 : Bool) (p1 p2 : ℕ)
    (hp1 : 2 ≤ p1) (hp2 : 2 ≤ p2) (x0 xl : K) (L : List (K × ℕ × ℕ))
    (hsep : Separated tol (clampedU x0 xl (L.map (·.1)))) (i : Fin m) (hi : (i : ℕ) ≤ 2)
    (s a : Obj K × Obj K) (hw1 : C06.WF s.1 m) (hw2 : C06.WF s.2 m) (ha : stageReparam s i = .ok a)
    (hb1 : a.1.basis i = openBasis p1 (clampedU x0 xl (L.map (·.1))) (clampedM p1 (L.map (·.2.1))))
    (k : ℕ) (hk : (a.2.basis i).periodic = (k : Int))
    (hb2 : ∀ o2, a.2.lowerPeriodic (-1) i = .ok o2 →
      o2.basis i = openBasis p2 (clampedU x0 xl (L.map (·.1))) (clampedM p2 (L.map (·.2.2))))
    (H_raise₁ : p1 < max p1 p2 → RaisesTo tol c1 m i p1 (max p1 p2) x0 xl L (·.1) (·.2.1) a.1)
    (H_raise₂ : p2 < max p1 p2 → ∀ o2, a.2.lowerPeriodic (-1) i = .ok o2 →
      RaisesTo tol c2 m i p2 (max p1 p2) x0 xl L (·.1) (·.2.2) o2) :
    ∃ r, identicalDir tol c1 c2 s i = .ok r
      ∧ r.1.basis i = openBasis (max p1 p2) (clampedU x0 xl (L.map (·.1)))
          (clampedM (max p1 p2) (L.map (fun e =>
            max (raisedMult (max p1 p2 - p1) e.2.1) (raisedMult (max p1 p2 - p2) e.2.2))))
      ∧ r.2.basis i = r.1.basis i
      ∧ (∀ j : Fin m, j ≠ i → r.1.basis j = s.1.basis j ∧ r.2.basis j = s.2.basis j)
      ∧ Rescaled m i (s.1.basis i).start (s.1.basis i).stop s.1 r.1
      ∧ RescaledOn m i (s.2.basis i).start (s.2.basis i).stop s.2 r.2
      ∧ C06.WF r.1 m ∧ C06.WF r.2 m := by
  obtain ⟨_, _, ha1, ha2⟩ := stageReparam_ok ha
  have hre1 := reparam_rescaled hw1 i ha1
  have hre2 := reparam_rescaled hw2 i ha2
  obtain ⟨b, c, r, hSP, _, _, hSO, hSM, hr1, hr2, hs1, hs2, hkr, hwr1, hwr2⟩ :=
    periodic_vs_open_direction tol htol c1 c2 p1 p2 hp1 hp2 x0 xl L hsep i hi a hre1.2.1 hre2.2.1 hb1 k hk
      hb2 H_raise₁ H_raise₂
  have hod1 := reparamDir_onlyDir ha1
  have hod2 := reparamDir_onlyDir ha2
  refine ⟨r, identicalDir_of_stages ha hSP hSO hSM, hr1, hr2, fun j hj => ?_, hre1.1.trans_same hs1,
    hre2.1.trans_on (hw2.valid i).start_lt_stop ⟨hre2.2.2.1, hre2.2.2.2⟩ hs2, hwr1, hwr2⟩
  have hne : (j : ℕ) ≠ (i : ℕ) := fun e => hj (Fin.ext e)
  exact ⟨((hkr j hj).1).trans (hod1.basis_ne j hne), ((hkr j hj).2).trans (hod2.basis_ne j hne)⟩


theorem core_periodic_curves (tol : K) (htol : 0 < tol) (c1 c2 : Bool) (p1 p2 : ℕ)
    (hp1 : 2 ≤ p1) (hp2 : 2 ≤ p2) (x0 xl : K) (L : List (K × ℕ × ℕ))
    (hm : ∀ e ∈ L, e.2.1 ≤ p1 - 1 ∧ e.2.2 ≤ p2 - 1)
    (hgap : Separated (2 * ((max p1 p2 - 1 : ℕ) : K) * tol) (clampedU x0 xl (L.map (·.1))))
    (s a : Obj K × Obj K) (hw1 : C06.WF s.1 1) (hw2 : C06.WF s.2 1) (ha : stageReparam s 0 = .ok a)
    (hb1 : a.1.basis 0 = openBasis p1 (clampedU x0 xl (L.map (·.1))) (clampedM p1 (L.map (·.2.1))))
    (k : ℕ) (hk : (a.2.basis 0).periodic = (k : Int))
    (hb2 : ∀ o2, a.2.lowerPeriodic (-1) 0 = .ok o2 →
      o2.basis 0 = openBasis p2 (clampedU x0 xl (L.map (·.1))) (clampedM p2 (L.map (·.2.2)))) :
    ∃ r, identicalDir tol c1 c2 s 0 = .ok r
      ∧ r.1.basis 0 = openBasis (max p1 p2) (clampedU x0 xl (L.map (·.1)))
          (clampedM (max p1 p2) (L.map (fun e =>
            max (raisedMult (max p1 p2 - p1) e.2.1) (raisedMult (max p1 p2 - p2) e.2.2))))
      ∧ r.2.basis 0 = r.1.basis 0
      ∧ Rescaled 1 0 (s.1.basis 0).start (s.1.basis 0).stop s.1 r.1
      ∧ RescaledOn 1 0 (s.2.basis 0).start (s.2.basis 0).stop s.2 r.2 := by
  obtain ⟨_, _, ha1, ha2⟩ := stageReparam_ok ha
  have hwa1 := (reparam_rescaled hw1 0 ha1).2.1
  have hwa2 := (reparam_rescaled hw2 0 ha2).2.1
  have hfac : tol ≤ 2 * ((max p1 p2 - 1 : ℕ) : K) * tol := by
    have h1 : (1 : K) ≤ ((max p1 p2 - 1 : ℕ) : K) := by
      have : 1 ≤ max p1 p2 - 1 := by have := le_max_left p1 p2; omega
      exact_mod_cast this
    nlinarith
  obtain ⟨r, h1, h2, h3, _, h5, h6, _, _⟩ := core_periodic_direction (m := 1) tol htol c1 c2 p1 p2 hp1 hp2
    x0 xl L (separated_mono hfac hgap) 0 (by decide) s a hw1 hw2 ha hb1 k hk hb2
    (fun _ => raisesTo_curve tol htol p1 (max p1 p2) hp1 (le_max_left _ _) x0 xl L (·.1) (·.2.1)
      (fun e he => (hm e he).1) hgap a.1 hwa1 hb1 c1)
    (fun _ o2 hl => by
      obtain ⟨o2', hl', hwo2, _⟩ := lowerPeriodic_sameMapOn hwa2 0 k hk (-1) (le_refl _) (by omega)
      have : o2' = o2 := by rw [hl'] at hl; injection hl
      subst this
      exact raisesTo_curve tol htol p2 (max p1 p2) hp2 (le_max_right _ _) x0 xl L (·.1) (·.2.2)
        (fun e he => (hm e he).2) hgap o2' hwo2 (hb2 o2' hl') c2)
  exact ⟨r, h1, h2, h3, h5, h6⟩


end C12

end Splipy
