import Splipy.Lemmas.C10PerInsert
import Splipy.Lemmas.C10Split
import Splipy.Lemmas.C08Lower
import Splipy.Lemmas.C07SplitPer
import Splipy.Lemmas.C07Mult
import Splipy.Model.History

/-!
# C10 helper lemmas: `lower_periodic` and `split` along a PERIODIC direction keep an object well formed

* `Obj.WellFormed.rollNeg`      : `np.roll(cps, -mu, dir)` + a valid basis with the same number of functions;
* `Obj.WellFormed.lowerStep`, `Obj.lowerLoop_wf`, `Obj.WellFormed.lowerPeriodic`,
  `History.stepOut_lowerPeriodic_wf_partial` : `lower_periodic` (guard `n ≥ p + k`, seam knot with its
  declared multiplicity, the hypotheses of `C08_lower_periodic_partial`), incl. the no-op case;
* `C10.PerInv`, `C10.splitInsert_periodic_inv` : the insertion loop of `split` on a periodic direction;
* `C10.opened_wf`               : the object opened at `x0` (roll, drop the ghost knots);
* `Obj.WellFormed.split_periodic`, `History.stepOut_split_periodic_wf_partial`,
  `History.stepOut_split_periodic_single_wf_partial` : `split(x0 :: rest)` on a periodic direction;
* `History.SplitOK`, `History.stepOut_split_any_wf_partial`, `History.SplitOK.of_exact` : both kinds of
  direction.

Guard-free versions (second half of the file; periodic `insert_knot` works on every valid periodic basis):
`Obj.WellFormed.lowerPeriodic_all`, `Obj.WellFormed.lowerPeriodic_any`, `History.stepOut_lowerPeriodic_wf`
(no hypothesis), `C10.mult_insert_ge` (a periodic insertion never lowers the multiplicity of a value
strictly inside the domain), `C10.hMult_of_exact_cons` (`hMult` for `x0 :: rest`, `start < x0`),
`C10.opened_wf_all`, `Obj.WellFormed.split_periodic_all` / `split_periodic_exact`,
`History.stepOut_split_periodic_wf_all_partial`, `History.stepOut_split_periodic_single_wf_all_partial`,
`History.SplitOKAll`, `History.stepOut_split_all_wf_partial`.

Still restricted for the periodic `split`: exact tolerance comparisons at the first value (`hexR`, `hexL`);
later values in `[x0, x0 + T)`; with later values `x0 ≠ start` (at `x0 = start` the multiplicity of `x0` in
the ARRAY may be split between the two ends, and the end knot of the opened basis may exceed `p`).
-/

set_option linter.unusedSectionVars false
set_option linter.unusedVariables false

namespace Splipy

variable {K : Type} [Field K] [LinearOrder K] [IsStrictOrderedRing K] [FloorRing K]

open C04 C10

/-! ## `lower_periodic` -/

namespace Obj

/-- `np.roll(cps, -mu, dir)` with the basis of the direction replaced by a valid basis with the same
    number of functions keeps the object well formed. -/
theorem WellFormed.rollNeg {o : Obj K} (h : o.WellFormed) (dir mu : ℕ) (hd : dir < o.bases.size)
    (b' : Basis K) (hv : b'.Valid) (hm : b'.numFunctions = (o.basis dir).numFunctions) :
    ({ o with bases := o.bases.set! dir b', cps := o.cps.rollAxisNeg dir mu } : Obj K).WellFormed := by
  have hn : o.cps.shape.getD dir 1 = (o.basis dir).numFunctions := h.shape_getD dir 1 hd
  have hpos : 0 < (o.basis dir).numFunctions := C04.numFunctions_pos (h.valid dir hd)
  exact h.reindex dir (o.cps.shape.getD dir 1) (fun r => (r + mu) % o.cps.shape.getD dir 1) b' hd hv
    (by rw [hm, hn]) (by
      intro r _
      rw [hn]
      exact Nat.mod_lt _ hpos)

/-- **One round of `lower_periodic`** keeps the object well formed. -/
theorem WellFormed.lowerStep {o o2 : Obj K} (h : o.WellFormed) (dir : ℕ) (hd : dir < o.bases.size)
    (k : ℕ) (hk : (o.basis dir).periodic = (k : Int))
    (hguard : (o.basis dir).order + k ≤ (o.basis dir).numFunctions)
    (hseam : (o.basis dir).start < (o.basis dir).kn (o.basis dir).order)
    (hs : o.lowerStep dir = .ok o2) : o2.WellFormed ∧ LowerInv o o2 dir 1 := by
  have hv := h.valid dir hd
  have hax : dir < o.cps.shape.length := by rw [h.shape_length]; omega
  obtain ⟨o2', hs', hI⟩ := lowerStep_spec o dir hd hax hv k hk hguard (h.shape_getD dir 0 hd) hseam
  rw [hs] at hs'
  have e2 : o2 = o2' := Except.ok.inj hs'
  subst e2
  refine ⟨?_, hI⟩
  unfold Obj.lowerStep at hs
  obtain ⟨o1, hins, hrest⟩ := bind_ok hs
  obtain ⟨b1, hroll, hpure⟩ := bind_ok hrest
  have ho2 := Except.ok.inj hpure
  obtain ⟨hw1, hsz1, _, _, _, hnum1, _, _⟩ := h.insertKnots_periodic dir hd k hk hguard
    [(o.basis dir).start] (by
      intro x hx
      rw [List.mem_singleton] at hx
      rw [hx, wrapVal_of_mem _ _ (le_refl _) (le_of_lt hv.start_lt_stop)]
      exact ne_of_lt hv.start_lt_stop) hins
  have hd1 : dir < o1.bases.size := by rw [hsz1]; exact hd
  have hvalid := hI.valid
  have hnum := hI.num_eq
  rw [← ho2] at hvalid hnum ⊢
  rw [C04.basis_set o1 dir hd1] at hvalid hnum
  exact hw1.rollNeg dir 1 hd1 _ hvalid (by rw [hnum, hnum1]; rfl)

/-- The loop of `lower_periodic`, `r + 1` units of fuel, `j` rounds after `o0`, `r` rounds away from the
    target: the result is well formed. -/
theorem lowerLoop_wf (o0 : Obj K) (dir : ℕ) (hdir : dir < o0.bases.size) (k : ℕ)
    (hk : (o0.basis dir).periodic = (k : Int))
    (hguard : (o0.basis dir).order + k ≤ (o0.basis dir).numFunctions) (target : Int) :
    ∀ (r : ℕ) (o' : Obj K) (j : ℕ), LowerInv o0 o' dir j → o'.WellFormed → (k : Int) - j - r = target →
      -1 ≤ target → ∀ o'', Obj.lowerPeriodic.loop target dir (r + 1) o' = .ok o'' →
      LowerInv o0 o'' dir (j + r) ∧ o''.WellFormed := by
  intro r
  induction r with
  | zero =>
    intro o' j hI hw ht _ o'' hs
    rw [Obj.lowerLoop_succ_eq o' target dir 0 (by rw [hI.periodic_eq, hk]; omega)] at hs
    have : o' = o'' := Except.ok.inj hs
    rw [← this]
    exact ⟨hI, hw⟩
  | succ r ih =>
    intro o' j hI hw ht hm o'' hs
    have hper' : (o'.basis dir).periodic = ((k - j : ℕ) : Int) := by
      rw [hI.periodic_eq, hk]; omega
    rw [Obj.lowerLoop_succ_lt o' target dir (r + 1) (by rw [hper']; omega)] at hs
    obtain ⟨o2, hstep, hloop⟩ := bind_ok hs
    obtain ⟨hw2, hI2⟩ := hw.lowerStep dir (by rw [hI.bases_size]; exact hdir) (k - j) hper'
      (by rw [hI.order_eq, hI.num_eq]; omega)
      (by have := hI.seam; rw [← hI.order_eq] at this; exact this) hstep
    obtain ⟨hI3, hw3⟩ := ih o2 (j + 1) (hI.step hI2) hw2 (by push_cast; omega) hm o'' hloop
    exact ⟨by rw [show j + (r + 1) = j + 1 + r by omega]; exact hI3, hw3⟩

/-- **`lower_periodic(k', dir)` keeps the object well formed** (guard `n ≥ p + k`, seam knot with its
    declared multiplicity, `-1 ≤ k' ≤ k`). -/
theorem WellFormed.lowerPeriodic {o o' : Obj K} (h : o.WellFormed) (dir : ℕ) (hd : dir < o.bases.size)
    (k : ℕ) (hk : (o.basis dir).periodic = (k : Int))
    (hguard : (o.basis dir).order + k ≤ (o.basis dir).numFunctions)
    (hseam : (o.basis dir).start < (o.basis dir).kn (o.basis dir).order)
    (k' : Int) (h1 : -1 ≤ k') (h2 : k' ≤ k) (hs : o.lowerPeriodic k' dir = .ok o') :
    o'.WellFormed ∧ o'.bases.size = o.bases.size ∧ (∀ d, d ≠ dir → o'.basis d = o.basis d) ∧
      (o'.basis dir).periodic = k' ∧ (o'.basis dir).order = (o.basis dir).order ∧
      (o'.basis dir).numFunctions = (o.basis dir).numFunctions + ((k : Int) - k').toNat ∧
      (o'.basis dir).start = (o.basis dir).start ∧ (o'.basis dir).stop = (o.basis dir).stop := by
  have hv := h.valid dir hd
  have hax : dir < o.cps.shape.length := by rw [h.shape_length]; omega
  unfold Obj.lowerPeriodic at hs
  rw [hk] at hs
  obtain ⟨hI, hw⟩ := lowerLoop_wf o dir hd k hk hguard k' ((k : Int) - k').toNat o 0
    (LowerInv.refl o dir hax hv (h.shape_getD dir 0 hd) hseam) h (by omega) h1 o' hs
  rw [Nat.zero_add] at hI
  refine ⟨hw, hI.bases_size, hI.other, ?_, hI.order_eq, hI.num_eq, hI.start_eq, hI.stop_eq⟩
  rw [hI.periodic_eq, hk]; omega

/-- `lower_periodic(t)` with `t` the current periodicity returns the object unchanged. -/
theorem lowerPeriodic_same (o : Obj K) (dir : ℕ) (t : Int) (h : (o.basis dir).periodic = t) :
    o.lowerPeriodic t dir = .ok o := by
  unfold Obj.lowerPeriodic
  rw [h, show (t - t).toNat = 0 by omega]
  exact Obj.lowerLoop_succ_eq o t dir 0 h.symm

end Obj

/-! ## `split` along a periodic direction: the insertion loop -/

namespace C10

/-- Invariant of the insertion loop of `split` along a periodic direction `dir`: well formed, `nb`
    bases, direction `dir` periodic with continuity `k`, start `s`, end `e`, order `p`, and at least `n0`
    functions. -/
def PerInv (dir nb k : ℕ) (s e : K) (p n0 : ℕ) (so : Obj K) : Prop :=
  so.WellFormed ∧ so.bases.size = nb ∧ (so.basis dir).periodic = (k : Int) ∧
    (so.basis dir).start = s ∧ (so.basis dir).stop = e ∧ (so.basis dir).order = p ∧
    n0 ≤ (so.basis dir).numFunctions

theorem PerInv.insertKnots {dir nb k : ℕ} {s e : K} {p n0 : ℕ} {so so' : Obj K}
    (h : PerInv dir nb k s e p n0 so) (hd : dir < nb) (hg : p + k ≤ n0) (b0 : Basis K)
    (hs0 : b0.start = s) (he0 : b0.stop = e) (xs : List K) (hxs : ∀ x ∈ xs, wrapVal b0 x ≠ e)
    (hs : so.insertKnots xs dir = .ok so') : PerInv dir nb k s e p n0 so' := by
  obtain ⟨hw, hn, hper, hst, hen, hp, hnum⟩ := h
  have hd' : dir < so.bases.size := by rw [hn]; exact hd
  obtain ⟨hw', hn', _, hper', hord', hnum', hst', hen'⟩ := hw.insertKnots_periodic dir hd' k hper
    (by rw [hp]; omega) xs (by
      intro x hx
      rw [wrapVal_congr b0 (so.basis dir) (hst.trans hs0.symm) (hen.trans he0.symm), hen]
      exact hxs x hx) hs
  exact ⟨hw', hn'.trans hn, hper', hst'.trans hst, hen'.trans hen, hord'.trans hp, by omega⟩

/-- The insertion loop of `split` on a periodic direction, started from any object satisfying the
    invariant. -/
theorem PerInv.splitInsertFold {dir nb k : ℕ} {s e : K} {p n0 : ℕ} (hd : dir < nb) (hg : p + k ≤ n0)
    (o : Obj K) (tol : K) (b0 : Basis K) (hs0 : b0.start = s) (he0 : b0.stop = e) (knots : List K)
    (hk : ∀ x ∈ knots, wrapVal b0 x ≠ e) :
    ∀ {so so' : Obj K}, PerInv dir nb k s e p n0 so →
      knots.foldlM (fun (so : Obj K) k => do
        let c ← (o.basis dir).continuity tol k
        let cont : Int := match c with
          | none => ((o.basis dir).order : Int) - 1
          | some c => c
        so.insertKnots (List.replicate (cont + 1).toNat k) dir) so = .ok so' →
      PerInv dir nb k s e p n0 so' := by
  induction knots with
  | nil =>
    intro so so' h hs
    have : so = so' := Except.ok.inj hs
    rw [← this]; exact h
  | cons x xs ih =>
    intro so so' h hs
    rw [List.foldlM_cons] at hs
    obtain ⟨so1, hstep, hrest⟩ := bind_ok hs
    obtain ⟨c, hc, hins⟩ := bind_ok hstep
    have hxx := hk x List.mem_cons_self
    have h1 := h.insertKnots hd hg b0 hs0 he0 _ (by
      intro y hy
      rw [List.eq_of_mem_replicate hy]; exact hxx) hins
    exact ih (fun y hy => hk y (List.mem_cons_of_mem _ hy)) h1 hrest

/-- **The first loop of `split` on a periodic direction keeps the object well formed** (guard
    `n ≥ p + k`, no split value wraps onto the end of the domain). -/
theorem splitInsert_periodic_inv {o so : Obj K} (h : o.WellFormed) (tol : K) (knots : List K) (dir : ℕ)
    (hd : dir < o.bases.size) (k : ℕ) (hk : (o.basis dir).periodic = (k : Int))
    (hguard : (o.basis dir).order + k ≤ (o.basis dir).numFunctions)
    (hxs : ∀ x ∈ knots, wrapVal (o.basis dir) x ≠ (o.basis dir).stop)
    (hs : o.splitInsert tol knots dir = .ok so) :
    PerInv dir o.bases.size k (o.basis dir).start (o.basis dir).stop (o.basis dir).order
      (o.basis dir).numFunctions so :=
  PerInv.splitInsertFold hd hguard o tol (o.basis dir) rfl rfl knots hxs
    ⟨h, rfl, hk, rfl, rfl, rfl, le_refl _⟩ hs

end C10

/-! ## `split` along a periodic direction: the opened object -/

namespace C10

/-- **The object opened at `x0`** (`roll` the knots to `μ = bisect_left(knots, x0)`, roll the control
    points, drop the ghost knots): well formed, non-periodic along `dir` with start `x0` and end
    `x0 + T`, provided `x0` has multiplicity at least `p` at `μ`.  If `μ ≥ 1` its end knot has multiplicity
    at most `p`. -/
theorem opened_wf {so : Obj K} (hw : so.WellFormed) (dir : ℕ) (hd : dir < so.bases.size) (k : ℕ)
    (hk : (so.basis dir).periodic = (k : Int))
    (hguard : (so.basis dir).order + k ≤ (so.basis dir).numFunctions)
    (x0 : K) (hx : x0 < (so.basis dir).stop)
    (hM1 : (so.basis dir).kn ((so.basis dir).bisectL x0) = x0)
    (hM2 : (so.basis dir).kn ((so.basis dir).bisectL x0 + (so.basis dir).order - 1) = x0) :
    (so.basis dir).bisectL x0 + (so.basis dir).order - 1 < (so.basis dir).nAll ∧
    (so.basis dir).bisectL x0 ≤ (so.basis dir).numFunctions ∧
    ∀ b1, (so.basis dir).roll ((so.basis dir).bisectL x0) = .ok b1 →
      (so.openedAt dir ((so.basis dir).bisectL x0) b1).WellFormed ∧
      (so.openedAt dir ((so.basis dir).bisectL x0) b1).bases.size = so.bases.size ∧
      ((so.openedAt dir ((so.basis dir).bisectL x0) b1).basis dir).periodic = -1 ∧
      ((so.openedAt dir ((so.basis dir).bisectL x0) b1).basis dir).order = (so.basis dir).order ∧
      ((so.openedAt dir ((so.basis dir).bisectL x0) b1).basis dir).start = x0 ∧
      ((so.openedAt dir ((so.basis dir).bisectL x0) b1).basis dir).stop
        = x0 + ((so.basis dir).stop - (so.basis dir).start) ∧
      (1 ≤ (so.basis dir).bisectL x0 →
        ((so.openedAt dir ((so.basis dir).bisectL x0) b1).basis dir).kn
          (((so.openedAt dir ((so.basis dir).bisectL x0) b1).basis dir).knots.size
            - ((so.openedAt dir ((so.basis dir).bisectL x0) b1).basis dir).order - 1)
          < ((so.openedAt dir ((so.basis dir).bisectL x0) b1).basis dir).stop) := by
  set b' := so.basis dir with hb'
  set mu := b'.bisectL x0 with hmudef
  have hv' : b'.Valid := hw.valid dir hd
  have hper' : 0 ≤ b'.periodic := by rw [hk]; omega
  have hktn : b'.periodic.toNat = k := by rw [hk]; omega
  have hp := hv'.order_pos
  have hpk : k + 2 ≤ b'.order := by
    rcases hv'.periodic_le with h | h
    · rw [hk] at h; omega
    · rw [hk] at h; omega
  have hsize' := Basis.per_size hv' hper'
  have hnAll' := Basis.per_nAll hv' hper'
  rw [hktn] at hsize' hnAll'
  have hTpos : 0 < b'.stop - b'.start := sub_pos.2 hv'.start_lt_stop
  have hmu_lt : mu + b'.order - 1 < b'.nAll := by
    by_contra hc
    have h1 : b'.kn b'.nAll ≤ b'.kn (mu + b'.order - 1) := hv'.kn_mono (by omega)
    have h2 : b'.kn b'.nAll = b'.stop := rfl
    rw [h2, hM2] at h1
    exact absurd hx (not_lt.2 h1)
  have hmu_le : mu ≤ b'.numFunctions := by omega
  refine ⟨hmu_lt, hmu_le, fun b1 hroll => ?_⟩
  obtain ⟨e1, e2, e3, e4⟩ := Basis.opened_spec hv' hper' mu hmu_le b1 hroll
  set b2 : Basis K := { b1 with knots := b1.knots.extract 0 (b1.knots.size - b'.periodic.toNat - 1),
                                periodic := -1 } with hb2
  have hopb : (so.openedAt dir mu b1).basis dir = b2 := by
    unfold Obj.openedAt
    rw [basis_set so dir hd]
  have hb2sz : b2.knots.size = b'.numFunctions + b'.order := e3
  have hb2kn : ∀ j, j < b'.numFunctions + b'.order → b2.kn j = b'.ext (mu + j) := e4
  have hb2ord : b2.order = b'.order := e1
  have hext : ∀ i, i < b'.knots.size → b'.ext i = b'.kn i := Basis.ext_eq hv' hper'
  have hstart2 : b2.start = x0 := by
    show b2.kn (b2.order - 1) = x0
    rw [hb2ord, hb2kn _ (by omega), hext _ (by omega),
      show mu + (b'.order - 1) = mu + b'.order - 1 by omega, hM2]
  have hstop2 : b2.stop = x0 + (b'.stop - b'.start) := by
    show b2.kn (b2.knots.size - b2.order) = _
    rw [hb2sz, hb2ord, Nat.add_sub_cancel, hb2kn _ (by omega),
      Basis.ext_add hv' hper', hext _ (by omega), hM1]
  have hvalid2 : b2.Valid := by
    refine ⟨(by rw [hb2ord]; exact hp), ?_, ?_, (by rw [e2]), Or.inr e2, ?_, ?_⟩
    · rw [hb2sz, hb2ord]; omega
    · intro j hj
      rw [hb2sz] at hj
      rw [hb2kn j (by omega), hb2kn (j+1) (by omega)]
      exact Basis.ext_mono hv' hper' (by omega)
    · rw [hstart2, hstop2]; linarith
    · intro h; rw [e2] at h; exact absurd h (by decide)
  have hnum2 : b2.numFunctions = b'.numFunctions := by
    show b2.knots.size - b2.order - (b2.periodic + 1).toNat = b'.numFunctions
    rw [hb2sz, hb2ord, e2, show ((-1 : Int) + 1).toNat = 0 from rfl]
    omega
  refine ⟨?_, ?_, ?_, ?_, ?_, ?_, ?_⟩
  · exact hw.rollNeg dir mu hd b2 hvalid2 hnum2
  · show (so.bases.set! dir b2).size = so.bases.size
    exact size_set! _ _ _
  · rw [hopb]
  · rw [hopb]; exact hb2ord
  · rw [hopb]; exact hstart2
  · rw [hopb]; exact hstop2
  · intro hmu1
    rw [hopb, hstop2, hb2sz, hb2ord, Nat.add_sub_cancel, hb2kn _ (by omega),
      show mu + (b'.numFunctions - 1) = (mu - 1) + b'.numFunctions by omega,
      Basis.ext_add hv' hper', hext _ (by omega)]
    obtain ⟨_, hm2, _⟩ := bisectLeft_spec b'.kn hv'.kn_mono x0 b'.knots.size
    have : b'.kn (mu - 1) < x0 := hm2 (mu - 1) (by
      show mu - 1 < b'.bisectL x0
      omega)
    linarith

end C10

/-! ## `split` along a periodic direction: the whole call -/

namespace C10

theorem split_cons_unfold (o so : Obj K) (tol x0 : K) (rest : List K) (dir : ℕ) (b1 : Basis K)
    (hso : o.splitInsert tol (x0 :: rest) dir = .ok so) (hper : (so.basis dir).periodic > -1)
    (hmu : ¬ (so.basis dir).bisectL x0 >
      (so.basis dir).knots.size - (so.basis dir).order - (so.basis dir).periodic.toNat - 1)
    (hroll : (so.basis dir).roll ((so.basis dir).bisectL x0) = .ok b1) :
    o.split tol (x0 :: rest) dir =
      if rest.length ≥ 1 then (do
        let so3 ← (so.openedAt dir ((so.basis dir).bisectL x0) b1).splitInsert tol rest dir
        let ps ← Obj.splitPieces (so.openedAt dir ((so.basis dir).bisectL x0) b1) so3 tol rest dir
        pure (.many ps))
      else pure (.single (so.openedAt dir ((so.basis dir).bisectL x0) b1)) := by
  unfold Obj.split
  rw [hso]
  simp only [Except.bind, bind, hper, if_true, hmu, if_false, hroll]
  rfl

end C10

/-- Every object returned by `split` is well formed. -/
def SplitRes.AllWF (r : SplitRes K) : Prop :=
  match r with
  | .single p => p.WellFormed
  | .many ps => ∀ pc ∈ ps, pc.WellFormed

namespace Obj

/-- **`split(x0 :: rest, dir)` along a periodic direction returns well-formed objects.**
    Hypotheses: guard `n ≥ p + k`; `x0` in the base period `[start, end)`; after the insertion loop `x0`
    has multiplicity at least `p` at `bisect_left` (`hMult`, the hypothesis of `split_periodic_single`; for
    `rest = []` it follows from exact tolerance comparisons, `hMult_of_exact`); the later values lie in
    `[x0, x0 + T)` and are not the end of the domain (their periodic insertion is not covered there);
    if there are later values, `x0` is not the start of the domain (so that the end knot of the opened
    basis has multiplicity at most `p`). -/
theorem WellFormed.split_periodic {o : Obj K} (h : o.WellFormed) (tol x0 : K) (rest : List K) (dir : ℕ)
    (hd : dir < o.bases.size) (k : ℕ) (hk : (o.basis dir).periodic = (k : Int))
    (hguard : (o.basis dir).order + k ≤ (o.basis dir).numFunctions)
    (hx : (o.basis dir).start ≤ x0 ∧ x0 < (o.basis dir).stop)
    (hMult : ∀ so, o.splitInsert tol (x0 :: rest) dir = .ok so →
      (so.basis dir).kn ((so.basis dir).bisectL x0) = x0 ∧
      (so.basis dir).kn ((so.basis dir).bisectL x0 + (o.basis dir).order - 1) = x0)
    (hrest : ∀ y ∈ rest, x0 ≤ y ∧ y < x0 + ((o.basis dir).stop - (o.basis dir).start) ∧
      y ≠ (o.basis dir).stop)
    (hpos : rest ≠ [] → (o.basis dir).start < x0)
    {r : SplitRes K} (hs : o.split tol (x0 :: rest) dir = .ok r) :
    r.AllWF ∧ (rest = [] → ∃ op, r = .single op) ∧ (rest ≠ [] → ∃ ps, r = .many ps) := by
  have hv := h.valid dir hd
  cases hso : o.splitInsert tol (x0 :: rest) dir with
  | error e =>
    unfold Obj.split at hs
    rw [hso] at hs
    cases hs
  | ok so =>
    have hxs : ∀ x ∈ x0 :: rest, wrapVal (o.basis dir) x ≠ (o.basis dir).stop := by
      intro x hxm
      rcases List.mem_cons.1 hxm with e | e
      · rw [e, wrapVal_of_mem _ x0 hx.1 (le_of_lt hx.2)]
        exact ne_of_lt hx.2
      · exact ne_of_lt ((wrapVal_mem (o.basis dir) hv.start_lt_stop x).2.2 (hrest x e).2.2)
    obtain ⟨hw, hsz, hper, hst, hen, hord, hnum⟩ :=
      splitInsert_periodic_inv h tol (x0 :: rest) dir hd k hk hguard hxs hso
    have hd' : dir < so.bases.size := by rw [hsz]; exact hd
    have hv' := hw.valid dir hd'
    have hper' : 0 ≤ (so.basis dir).periodic := by rw [hper]; omega
    obtain ⟨hM1, hM2⟩ := hMult so hso
    rw [← hord] at hM2
    obtain ⟨hmu_lt, hmu_le, hop⟩ := opened_wf hw dir hd' k hper (by rw [hord]; omega) x0
      (by rw [hen]; exact hx.2) hM1 hM2
    obtain ⟨b1, hroll, _⟩ := Basis.roll_spec hv' hper' _ hmu_le
    have hsize' := Basis.per_size hv' hper'
    rw [split_cons_unfold o so tol x0 rest dir b1 hso (by rw [hper]; omega) (by omega) hroll] at hs
    obtain ⟨hwop, hszop, hperop, hordop, hstartop, hstopop, hendop⟩ := hop b1 hroll
    cases rest with
    | nil =>
      rw [if_neg (by simp)] at hs
      have hr : SplitRes.single _ = r := Except.ok.inj hs
      rw [← hr]
      exact ⟨hwop, fun _ => ⟨_, rfl⟩, fun hne => absurd rfl hne⟩
    | cons y ys =>
      rw [if_pos (by simp)] at hs
      obtain ⟨so3, hins3, hrest3⟩ := bind_ok hs
      obtain ⟨ps, hps, hpure⟩ := bind_ok hrest3
      have hr : SplitRes.many ps = r := Except.ok.inj hpure
      have hdop : dir < (so.openedAt dir ((so.basis dir).bisectL x0) b1).bases.size := by
        rw [hszop]; exact hd'
      have hinv3 := splitInsert_inv hwop tol (y :: ys) dir hdop hperop (by
        intro z hz
        rw [hstartop, hstopop, hen, hst]
        exact ⟨(hrest z hz).1, (hrest z hz).2.1⟩) hins3
      obtain ⟨init, last, hpl, hinit, hlast, hdom⟩ := splitPieces_wf hinv3 hdop tol (y :: ys) hps
      have hmu1 : 1 ≤ (so.basis dir).bisectL x0 := by
        have hlt := hpos (List.cons_ne_nil y ys)
        obtain ⟨_, _, hm3⟩ := bisectLeft_spec (so.basis dir).kn hv'.kn_mono x0 (so.basis dir).knots.size
        by_contra hc
        have h0 : (so.basis dir).bisectL x0 = 0 := by omega
        have := hm3 ((so.basis dir).order - 1) (by
          show (so.basis dir).bisectL x0 ≤ _
          omega) (by have := hv'.size_ge; have := hv'.order_pos; omega)
        have hs' : (so.basis dir).kn ((so.basis dir).order - 1) = (o.basis dir).start := hst
        rw [hs'] at this
        exact absurd hlt (not_lt.2 this)
      have hc := countGe_le_of_end (hwop.valid dir hdop) _ (hendop hmu1)
      rw [← hr]
      refine ⟨?_, fun hne => absurd hne (List.cons_ne_nil y ys), fun _ => ⟨_, rfl⟩⟩
      intro pc hpc
      rw [hpl] at hpc
      rcases List.mem_append.1 hpc with h1 | h1
      · exact hinit pc h1
      · rw [List.mem_singleton] at h1
        rw [h1]
        exact hlast (hdom hc)

end Obj

namespace History

/-- `_partial`: either the no-op case `t = periodic` (this includes `t = -1` on a non-periodic
    direction), or a periodic direction with `-1 ≤ t ≤ k`, the guard `n ≥ p + k` and a seam knot with its
    declared multiplicity (`start < knots[p]`) — the hypotheses of `C08_lower_periodic_partial`.
    (`t > periodic` raises.) -/
theorem stepOut_lowerPeriodic_wf_partial {o : Obj K} (h : o.WellFormed) (tol : K) (t : Int) (dir : ℕ)
    (hcase : (o.basis dir).periodic = t ∨ ∃ k : ℕ, (o.basis dir).periodic = (k : Int) ∧ -1 ≤ t ∧
      t ≤ k ∧ (o.basis dir).order + k ≤ (o.basis dir).numFunctions ∧
      (o.basis dir).start < (o.basis dir).kn (o.basis dir).order)
    {out : Out K} (hs : stepOut tol o (.lowerPeriodic t dir) = .ok out) :
    out.recv.WellFormed ∧ out.news = [] := by
  change (if dir < o.pardim then inPlace (o.lowerPeriodic t dir) else .error .value) = .ok out at hs
  by_cases hpd : dir < o.pardim
  · rw [if_pos hpd] at hs
    unfold inPlace at hs
    have hd : dir < o.bases.size := by rw [← h.pardim_eq]; exact hpd
    cases hres : o.lowerPeriodic t dir with
    | error e => rw [hres] at hs; cases hs
    | ok o1 =>
      rw [hres] at hs
      have : ({ recv := o1, news := [] } : Out K) = out := Except.ok.inj hs
      rw [← this]
      refine ⟨?_, rfl⟩
      rcases hcase with hc | ⟨k, hk, h1, h2, hg, hseam⟩
      · rw [Obj.lowerPeriodic_same o dir t hc] at hres
        have : o = o1 := Except.ok.inj hres
        rw [← this]; exact h
      · exact (h.lowerPeriodic dir hd k hk hg hseam t h1 h2 hres).1
  · rw [if_neg hpd] at hs
    cases hs

end History

/-! ## history steps: `split` -/

namespace History

/-- The outcome of a successful `split` step in terms of the result of `Obj.split`. -/
theorem stepOut_split_eq {o : Obj K} (tol : K) (knots : List K) (dir : ℕ) {out : Out K}
    (hs : stepOut tol o (.split knots dir) = .ok out) :
    dir < o.pardim ∧ out.recv = o ∧ ∃ r, o.split tol knots dir = .ok r ∧
      (∀ p, r = .single p → out.news = [p]) ∧ (∀ ps, r = .many ps → out.news = ps) := by
  change (if dir < o.pardim then (o.split tol knots dir).map (fun r => match r with
          | .single p => ({ recv := o, news := [p] } : Out K)
          | .many ps => { recv := o, news := ps })
      else .error .value) = .ok out at hs
  by_cases hpd : dir < o.pardim
  · rw [if_pos hpd] at hs
    cases hres : o.split tol knots dir with
    | error e => rw [hres] at hs; cases hs
    | ok r =>
      rw [hres] at hs
      cases r with
      | single p =>
        have : ({ recv := o, news := [p] } : Out K) = out := Except.ok.inj hs
        rw [← this]
        exact ⟨hpd, rfl, _, rfl, fun q hq => (by cases hq; rfl), fun ps hq => (by cases hq)⟩
      | many ps =>
        have : ({ recv := o, news := ps } : Out K) = out := Except.ok.inj hs
        rw [← this]
        exact ⟨hpd, rfl, _, rfl, fun q hq => (by cases hq), fun qs hq => (by cases hq; rfl)⟩
  · rw [if_neg hpd] at hs
    cases hs

/-- `_partial`: `split(x0 :: rest, dir)` along a periodic direction.  Restrictions: guard `n ≥ p + k`;
    `x0 ∈ [start, end)`; `hMult`: after the insertion loop `x0` has multiplicity at least `p` at
    `bisect_left` (hypothesis on the intermediate state, as in `split_periodic_single`; discharged from
    exact tolerance comparisons for `rest = []` in `stepOut_split_periodic_single_wf_partial`); the later
    values lie in `[x0, x0 + T)` and differ from the end of the domain; with later values `x0` is not the
    start of the domain. -/
theorem stepOut_split_periodic_wf_partial {o : Obj K} (h : o.WellFormed) (tol x0 : K) (rest : List K)
    (dir : ℕ) (k : ℕ) (hk : (o.basis dir).periodic = (k : Int))
    (hguard : (o.basis dir).order + k ≤ (o.basis dir).numFunctions)
    (hx : (o.basis dir).start ≤ x0 ∧ x0 < (o.basis dir).stop)
    (hMult : ∀ so, o.splitInsert tol (x0 :: rest) dir = .ok so →
      (so.basis dir).kn ((so.basis dir).bisectL x0) = x0 ∧
      (so.basis dir).kn ((so.basis dir).bisectL x0 + (o.basis dir).order - 1) = x0)
    (hrest : ∀ y ∈ rest, x0 ≤ y ∧ y < x0 + ((o.basis dir).stop - (o.basis dir).start) ∧
      y ≠ (o.basis dir).stop)
    (hpos : rest ≠ [] → (o.basis dir).start < x0)
    {out : Out K} (hs : stepOut tol o (.split (x0 :: rest) dir) = .ok out) :
    out.recv.WellFormed ∧ ∀ n ∈ out.news, n.WellFormed := by
  obtain ⟨hpd, hrecv, r, hres, hsingle, hmany⟩ := stepOut_split_eq tol (x0 :: rest) dir hs
  have hd : dir < o.bases.size := by rw [← h.pardim_eq]; exact hpd
  obtain ⟨hall, _, _⟩ := h.split_periodic tol x0 rest dir hd k hk hguard hx hMult hrest hpos hres
  refine ⟨by rw [hrecv]; exact h, fun n hn => ?_⟩
  cases r with
  | single p =>
    rw [hsingle p rfl, List.mem_singleton] at hn
    rw [hn]; exact hall
  | many ps =>
    rw [hmany ps rfl] at hn
    exact hall n hn

/-- `_partial`: `split([x0], dir)` along a periodic direction (the call returns the opened object).
    Restrictions (those of `C07_split_periodic_partial`): guard `n ≥ p + k`, `x0 ∈ [start, end)`, and no
    knot other than `x0` within the tolerance of `x0` (`hexR`, `hexL`). -/
theorem stepOut_split_periodic_single_wf_partial {o : Obj K} (h : o.WellFormed) (tol : K)
    (htol : 0 < tol) (x0 : K) (dir : ℕ) (k : ℕ) (hk : (o.basis dir).periodic = (k : Int))
    (hguard : (o.basis dir).order + k ≤ (o.basis dir).numFunctions)
    (hx : (o.basis dir).start ≤ x0 ∧ x0 < (o.basis dir).stop)
    (hexR : ∀ i, i < (o.basis dir).knots.size →
      (o.basis dir).kn i ≤ x0 ∨ x0 + tol ≤ (o.basis dir).kn i)
    (hexL : ∀ i, i < (o.basis dir).knots.size →
      (o.basis dir).kn i < x0 - tol ∨ x0 ≤ (o.basis dir).kn i)
    {out : Out K} (hs : stepOut tol o (.split [x0] dir) = .ok out) :
    out.recv.WellFormed ∧ ∀ n ∈ out.news, n.WellFormed := by
  have hpd := (stepOut_split_eq tol [x0] dir hs).1
  have hd : dir < o.bases.size := by rw [← h.pardim_eq]; exact hpd
  exact stepOut_split_periodic_wf_partial h tol x0 [] dir k hk hguard hx
    (hMult_of_exact o dir hd (h.valid dir hd) k hk hguard (h.shape_getD dir 0 hd) htol hx hexR hexL)
    (fun y hy => absurd hy List.not_mem_nil) (fun hne => absurd rfl hne) hs

/-- The cases of `split` covered by the C10 lemmas: a non-periodic direction (values in `[start, end)`,
    end knot of multiplicity at most `p`), or a periodic direction with the hypotheses of
    `stepOut_split_periodic_wf_partial`. -/
def SplitOK (o : Obj K) (tol : K) (knots : List K) (dir : ℕ) : Prop :=
  ((o.basis dir).periodic = -1 ∧
    (∀ k ∈ knots, (o.basis dir).start ≤ k ∧ k < (o.basis dir).stop) ∧
    (o.basis dir).kn ((o.basis dir).knots.size - (o.basis dir).order - 1) < (o.basis dir).stop) ∨
  (∃ (k : ℕ) (x0 : K) (rest : List K), knots = x0 :: rest ∧ (o.basis dir).periodic = (k : Int) ∧
    (o.basis dir).order + k ≤ (o.basis dir).numFunctions ∧
    ((o.basis dir).start ≤ x0 ∧ x0 < (o.basis dir).stop) ∧
    (∀ so, o.splitInsert tol (x0 :: rest) dir = .ok so →
      (so.basis dir).kn ((so.basis dir).bisectL x0) = x0 ∧
      (so.basis dir).kn ((so.basis dir).bisectL x0 + (o.basis dir).order - 1) = x0) ∧
    (∀ y ∈ rest, x0 ≤ y ∧ y < x0 + ((o.basis dir).stop - (o.basis dir).start) ∧
      y ≠ (o.basis dir).stop) ∧
    (rest ≠ [] → (o.basis dir).start < x0))

/-- `_partial`: `split` along any covered direction (`SplitOK`). -/
theorem stepOut_split_any_wf_partial {o : Obj K} (h : o.WellFormed) (tol : K) (knots : List K)
    (dir : ℕ) (hok : SplitOK o tol knots dir)
    {out : Out K} (hs : stepOut tol o (.split knots dir) = .ok out) :
    out.recv.WellFormed ∧ ∀ n ∈ out.news, n.WellFormed := by
  rcases hok with ⟨hper, hk, hend⟩ | ⟨k, x0, rest, hkn, hk, hg, hx, hM, hrest, hpos⟩
  · exact stepOut_split_wf_end_partial h tol knots dir hper hk hend hs
  · subst hkn
    exact stepOut_split_periodic_wf_partial h tol x0 rest dir k hk hg hx hM hrest hpos hs

/-- A single split value of a periodic direction with exact tolerance comparisons is covered. -/
theorem SplitOK.of_exact {o : Obj K} (h : o.WellFormed) (tol : K) (htol : 0 < tol) (x0 : K) (dir : ℕ)
    (hd : dir < o.bases.size) (k : ℕ) (hk : (o.basis dir).periodic = (k : Int))
    (hguard : (o.basis dir).order + k ≤ (o.basis dir).numFunctions)
    (hx : (o.basis dir).start ≤ x0 ∧ x0 < (o.basis dir).stop)
    (hexR : ∀ i, i < (o.basis dir).knots.size →
      (o.basis dir).kn i ≤ x0 ∨ x0 + tol ≤ (o.basis dir).kn i)
    (hexL : ∀ i, i < (o.basis dir).knots.size →
      (o.basis dir).kn i < x0 - tol ∨ x0 ≤ (o.basis dir).kn i) : SplitOK o tol [x0] dir :=
  Or.inr ⟨k, x0, [], rfl, hk, hguard, hx,
    hMult_of_exact o dir hd (h.valid dir hd) k hk hguard (h.shape_getD dir 0 hd) htol hx hexR hexL,
    fun y hy => absurd hy List.not_mem_nil, fun hne => absurd rfl hne⟩

end History


/-! # Guard-free versions (periodic `insert_knot` repaired: every valid periodic direction) -/

/-! ## `lower_periodic`, every direction -/

namespace Obj

/-- **One round of `lower_periodic`** keeps the object well formed — every valid periodic direction. -/
theorem WellFormed.lowerStep_all {o o2 : Obj K} (h : o.WellFormed) (dir : ℕ) (hd : dir < o.bases.size)
    (k : ℕ) (hk : (o.basis dir).periodic = (k : Int))
    (hs : o.lowerStep dir = .ok o2) : o2.WellFormed ∧ LowerCore o o2 dir 1 := by
  have hv := h.valid dir hd
  have hax : dir < o.cps.shape.length := by rw [h.shape_length]; omega
  obtain ⟨o2', hs', hI, _⟩ := lowerStep_core o dir hd hax hv k hk (h.shape_getD dir 0 hd)
  rw [hs] at hs'
  have e2 : o2 = o2' := Except.ok.inj hs'
  subst e2
  refine ⟨?_, hI⟩
  unfold Obj.lowerStep at hs
  obtain ⟨o1, hins, hrest⟩ := bind_ok hs
  obtain ⟨b1, hroll, hpure⟩ := bind_ok hrest
  have ho2 := Except.ok.inj hpure
  obtain ⟨hw1, hsz1, _, _, _, hnum1, _, _⟩ := h.insertKnots_periodic_all dir hd k hk
    [(o.basis dir).start] hins
  have hd1 : dir < o1.bases.size := by rw [hsz1]; exact hd
  have hvalid := hI.valid
  have hnum := hI.num_eq
  rw [← ho2] at hvalid hnum ⊢
  rw [C04.basis_set o1 dir hd1] at hvalid hnum
  exact hw1.rollNeg dir 1 hd1 _ hvalid (by rw [hnum, hnum1]; rfl)

/-- The loop of `lower_periodic`, every valid periodic direction: the result is well formed. -/
theorem lowerLoop_wf_all (o0 : Obj K) (dir : ℕ) (hdir : dir < o0.bases.size) (k : ℕ)
    (hk : (o0.basis dir).periodic = (k : Int)) (target : Int) :
    ∀ (r : ℕ) (o' : Obj K) (j : ℕ), LowerCore o0 o' dir j → o'.WellFormed → (k : Int) - j - r = target →
      -1 ≤ target → ∀ o'', Obj.lowerPeriodic.loop target dir (r + 1) o' = .ok o'' →
      LowerCore o0 o'' dir (j + r) ∧ o''.WellFormed := by
  intro r
  induction r with
  | zero =>
    intro o' j hI hw ht _ o'' hs
    rw [Obj.lowerLoop_succ_eq o' target dir 0 (by rw [hI.periodic_eq, hk]; omega)] at hs
    have : o' = o'' := Except.ok.inj hs
    rw [← this]
    exact ⟨hI, hw⟩
  | succ r ih =>
    intro o' j hI hw ht hm o'' hs
    have hper' : (o'.basis dir).periodic = ((k - j : ℕ) : Int) := by
      rw [hI.periodic_eq, hk]; omega
    rw [Obj.lowerLoop_succ_lt o' target dir (r + 1) (by rw [hper']; omega)] at hs
    obtain ⟨o2, hstep, hloop⟩ := bind_ok hs
    obtain ⟨hw2, hI2⟩ := hw.lowerStep_all dir (by rw [hI.bases_size]; exact hdir) (k - j) hper' hstep
    obtain ⟨hI3, hw3⟩ := ih o2 (j + 1) (hI.step hI2) hw2 (by push_cast; omega) hm o'' hloop
    exact ⟨by rw [show j + (r + 1) = j + 1 + r by omega]; exact hI3, hw3⟩

/-- **`lower_periodic(k', dir)` keeps the object well formed** — every periodic direction,
    `-1 ≤ k' ≤ k`. -/
theorem WellFormed.lowerPeriodic_all {o o' : Obj K} (h : o.WellFormed) (dir : ℕ)
    (hd : dir < o.bases.size) (k : ℕ) (hk : (o.basis dir).periodic = (k : Int))
    (k' : Int) (h1 : -1 ≤ k') (h2 : k' ≤ k) (hs : o.lowerPeriodic k' dir = .ok o') :
    o'.WellFormed ∧ o'.bases.size = o.bases.size ∧ (∀ d, d ≠ dir → o'.basis d = o.basis d) ∧
      (o'.basis dir).periodic = k' ∧ (o'.basis dir).order = (o.basis dir).order ∧
      (o'.basis dir).numFunctions = (o.basis dir).numFunctions + ((k : Int) - k').toNat ∧
      (o'.basis dir).start = (o.basis dir).start ∧ (o'.basis dir).stop = (o.basis dir).stop := by
  have hv := h.valid dir hd
  have hax : dir < o.cps.shape.length := by rw [h.shape_length]; omega
  unfold Obj.lowerPeriodic at hs
  rw [hk] at hs
  obtain ⟨hI, hw⟩ := lowerLoop_wf_all o dir hd k hk k' ((k : Int) - k').toNat o 0
    (LowerCore.refl o dir hax hv (h.shape_getD dir 0 hd)) h (by omega) h1 o' hs
  rw [Nat.zero_add] at hI
  refine ⟨hw, hI.bases_size, hI.other, ?_, hI.order_eq, hI.num_eq, hI.start_eq, hI.stop_eq⟩
  rw [hI.periodic_eq, hk]; omega

/-- A round of `lower_periodic` on a NON-periodic direction raises (`roll`: `RuntimeError`, or an
    earlier exception of `insert_knot`). -/
theorem WellFormed.lowerStep_open_error {o : Obj K} (h : o.WellFormed) (dir : ℕ)
    (hd : dir < o.bases.size) (hper : (o.basis dir).periodic = -1) :
    ∃ e, o.lowerStep dir = .error e := by
  have hv := h.valid dir hd
  cases hstep : o.lowerStep dir with
  | error e => exact ⟨e, rfl⟩
  | ok o2 =>
    exfalso
    unfold Obj.lowerStep at hstep
    obtain ⟨o1, hins, hrest⟩ := bind_ok hstep
    obtain ⟨b1, hroll, _⟩ := bind_ok hrest
    have hp1 := (h.insertKnots dir hd hper [(o.basis dir).start] (by
      intro x hx
      rw [List.mem_singleton] at hx
      rw [hx]; exact ⟨le_refl _, hv.start_lt_stop⟩) hins).2.2.2.1
    unfold Basis.roll at hroll
    rw [if_pos (by rw [hp1]; decide)] at hroll
    cases hroll

/-- `lower_periodic(target)` with `target < -1` raises: the loop reaches a non-periodic direction and
    `roll` refuses it.  (`m` = periodicity `+ 1`, `f` = fuel.) -/
theorem lowerLoop_below (dir : ℕ) (target : Int) (ht : target < -1) :
    ∀ (m f : ℕ) (o' : Obj K), o'.WellFormed → dir < o'.bases.size →
      (o'.basis dir).periodic = (m : Int) - 1 → m + 1 ≤ f →
      ∃ e, Obj.lowerPeriodic.loop target dir f o' = .error e := by
  intro m
  induction m with
  | zero =>
    intro f o' hw hd hper hf
    obtain ⟨f', rfl⟩ : ∃ f', f = f' + 1 := ⟨f - 1, by omega⟩
    have hper' : (o'.basis dir).periodic = -1 := by rw [hper]; norm_num
    rw [Obj.lowerLoop_succ_lt o' target dir f' (by rw [hper']; exact ht)]
    obtain ⟨e, he⟩ := hw.lowerStep_open_error dir hd hper'
    rw [he]
    exact ⟨e, rfl⟩
  | succ m ih =>
    intro f o' hw hd hper hf
    obtain ⟨f', rfl⟩ : ∃ f', f = f' + 1 := ⟨f - 1, by omega⟩
    have hper' : (o'.basis dir).periodic = (m : Int) := by rw [hper]; push_cast; ring
    rw [Obj.lowerLoop_succ_lt o' target dir f' (by rw [hper']; omega)]
    cases hstep : o'.lowerStep dir with
    | error e => exact ⟨e, rfl⟩
    | ok o2 =>
      obtain ⟨hw2, hI2⟩ := hw.lowerStep_all dir hd m hper' hstep
      obtain ⟨e, he⟩ := ih f' o2 hw2 (by rw [hI2.bases_size]; exact hd)
        (by rw [hI2.periodic_eq, hper']; push_cast; ring) (by omega)
      exact ⟨e, he⟩

/-- **Every successful `lower_periodic` keeps the object well formed.** -/
theorem WellFormed.lowerPeriodic_any {o o' : Obj K} (h : o.WellFormed) (dir : ℕ)
    (hd : dir < o.bases.size) (t : Int) (hs : o.lowerPeriodic t dir = .ok o') : o'.WellFormed := by
  have hv := h.valid dir hd
  rcases lt_trichotomy (o.basis dir).periodic t with hlt | heq | hgt
  · rw [lowerPeriodic_raise o dir t hlt] at hs
    cases hs
  · rw [lowerPeriodic_same o dir t heq] at hs
    have : o = o' := Except.ok.inj hs
    rw [← this]; exact h
  · by_cases ht : -1 ≤ t
    · obtain ⟨k, hk⟩ : ∃ k : ℕ, (o.basis dir).periodic = (k : Int) :=
        ⟨(o.basis dir).periodic.toNat, by omega⟩
      exact (h.lowerPeriodic_all dir hd k hk t ht (by omega) hs).1
    · exfalso
      have hge := hv.periodic_ge
      unfold Obj.lowerPeriodic at hs
      obtain ⟨e, he⟩ := lowerLoop_below dir t (by omega) ((o.basis dir).periodic + 1).toNat
        (((o.basis dir).periodic - t).toNat + 1) o h hd (by omega) (by omega)
      rw [he] at hs
      cases hs

end Obj

namespace History

/-- **`lower_periodic`: every call that completes leaves a well-formed receiver** (no hypothesis on the
    direction or on the target; `t > periodic` and `t < -1` raise, `t = periodic` is the identity). -/
theorem stepOut_lowerPeriodic_wf {o : Obj K} (h : o.WellFormed) (tol : K) (t : Int) (dir : ℕ)
    {out : Out K} (hs : stepOut tol o (.lowerPeriodic t dir) = .ok out) :
    out.recv.WellFormed ∧ out.news = [] := by
  change (if dir < o.pardim then inPlace (o.lowerPeriodic t dir) else .error .value) = .ok out at hs
  by_cases hpd : dir < o.pardim
  · rw [if_pos hpd] at hs
    unfold inPlace at hs
    have hd : dir < o.bases.size := by rw [← h.pardim_eq]; exact hpd
    cases hres : o.lowerPeriodic t dir with
    | error e => rw [hres] at hs; cases hs
    | ok o1 =>
      rw [hres] at hs
      have : ({ recv := o1, news := [] } : Out K) = out := Except.ok.inj hs
      rw [← this]
      exact ⟨h.lowerPeriodic_any dir hd t hres, rfl⟩
  · rw [if_neg hpd] at hs
    cases hs

end History


/-! ## multiplicity of the other knots under a periodic insertion -/

namespace C10

/-- **A periodic insertion (of any real `y`) never lowers the multiplicity of a value `z` strictly inside
    the domain** — every valid periodic basis.  (From the array description around the insertion index,
    `insertKnot_periodic_window`; the run of `z > start` lies within one period of that index.) -/
theorem mult_insert_ge (b : Basis K) (hv : b.Valid) (k : ℕ) (hk : b.periodic = (k : Int)) (y z : K)
    (hz : b.start < z ∧ z < b.stop) (b' : Basis K) (C : Mat K) (hins : b.insertKnot y = .ok (b', C)) :
    b.mult z ≤ b'.mult z := by
  have hper : 0 ≤ b.periodic := by rw [hk]; omega
  obtain ⟨hx1, hx2, _⟩ := wrapVal_mem b hv.start_lt_stop y
  rw [insertKnot_wrap b hper hv.start_lt_stop y] at hins
  set x := wrapVal b y with hxdef
  obtain ⟨bk, Ck, h1, hR, hkn⟩ := insertKnot_periodic_window b hv k hk x ⟨hx1, hx2⟩
  rw [hins] at h1
  have e : b' = bk := (Prod.mk.inj (Except.ok.inj h1)).1
  subst e
  have hvk : b'.Valid := hR.valid
  have hsz : b'.knots.size = b.knots.size + 1 := hR.size_eq
  have hmono : Monotone b.kn := hv.kn_mono
  have hp := hv.order_pos
  have hsize := hv.size_ge
  have hn := numFunctions_periodic b k hk
  have hpk : k + 2 ≤ b.order := by
    rcases hv.periodic_le with h | h
    · rw [hk] at h; omega
    · rw [hk] at h; omega
  obtain ⟨m1, m2, m3, m4, m5, m6⟩ := insertMu_spec b hv k hk x ⟨hx1, hx2⟩
  set ms := b.insertMu x with hms
  obtain ⟨r1, r2, r3⟩ := bisectRight_spec b.kn hmono z b.knots.size
  have r1' : b.bisectR z ≤ b.knots.size := r1
  have r2' : ∀ i, i < b.bisectR z → b.kn i ≤ z := r2
  have hll : b.bisectL z ≤ b.bisectR z := Basis.bisectL_le_bisectR hv z
  have hR2 : b.bisectR z ≤ b.knots.size - b.order := by
    by_contra hlt
    have h2' : b.kn (b.knots.size - b.order) ≤ z := r2' _ (by omega)
    exact absurd hz.2 (not_lt.2 h2')
  have hrun : ∀ j, b.bisectL z ≤ j → j < b.bisectR z → b.kn j = z :=
    fun j h1 h2 => Basis.kn_of_mem_run hv z j h1 h2
  by_cases hempty : b.bisectL z = b.bisectR z
  · unfold Basis.mult; omega
  have hstartkn : b.kn (b.order - 1) = b.start := rfl
  by_cases hzx : z ≤ x
  · -- the run lies before the insertion index and stays where it is
    have hbelow : ∀ j, b.bisectL z ≤ j → j < b.bisectR z → j < ms ∧ ms ≤ j + b.numFunctions := by
      intro j hj1 hj2
      have hkj := hrun j hj1 hj2
      constructor
      · by_contra hc
        have hx' : x < b.stop := by
          by_contra hc2
          have : b.kn ms ≤ b.kn j := hmono (by omega)
          have hms2 : ms = b.numFunctions + k + 1 := m6 (le_antisymm hx2 (not_lt.1 hc2))
          have : b.kn (b.knots.size - b.order) ≤ b.kn j := hmono (by omega)
          rw [hkj] at this
          exact absurd hz.2 (not_lt.2 this)
        have h7 : x < b.kn ms := m5 hx'
        have : b.kn ms ≤ b.kn j := hmono (by omega)
        rw [hkj] at this
        exact absurd (lt_of_lt_of_le h7 this) (not_lt.2 hzx)
      · by_contra hc
        have : b.kn j ≤ b.kn (b.order - 1) := hmono (by omega)
        rw [hkj, hstartkn] at this
        exact absurd hz.1 (not_lt.2 this)
    have hnew : ∀ j, b.bisectL z ≤ j → j ≤ b.bisectR z - 1 → b'.kn j = z := by
      intro j hj1 hj2
      obtain ⟨g1, g2⟩ := hbelow j hj1 (by omega)
      rw [hkn j g2 (by omega) (by omega), bo_ins_lt g1]
      exact hrun j hj1 (by omega)
    obtain ⟨g1, g2⟩ := Basis.run_le_mult hvk z (b.bisectL z) (b.bisectR z - 1) (by omega)
      (by rw [hsz]; omega) hnew
    unfold Basis.mult
    omega
  · -- the run lies after the insertion index and moves up by one
    have hxz : x < z := not_le.1 hzx
    have habove : ∀ j, b.bisectL z ≤ j → j < b.bisectR z → ms ≤ j ∧ j + 1 ≤ ms + b.numFunctions := by
      intro j hj1 hj2
      have hkj := hrun j hj1 hj2
      constructor
      · by_contra hc
        have : b.kn j ≤ b.kn (ms - 1) := hmono (by omega)
        rw [hkj] at this
        exact absurd (lt_of_le_of_lt (le_trans this m3) hxz) (lt_irrefl _)
      · by_contra hc
        have hg := hv.ghosts hper (b.order - 1) (by omega)
        have : b.kn (b.order - 1 + b.numFunctions) ≤ b.kn j := hmono (by omega)
        rw [hg, hkj, hstartkn] at this
        have hz2 := hz.2
        linarith
    have hnew : ∀ j, b.bisectL z + 1 ≤ j → j ≤ b.bisectR z → b'.kn j = z := by
      intro j hj1 hj2
      obtain ⟨g1, g2⟩ := habove (j - 1) (by omega) (by omega)
      rw [hkn j (by omega) (by omega) (by omega), bo_ins_gt (k := j - 1) g1 (by omega)]
      exact hrun (j - 1) (by omega) (by omega)
    obtain ⟨g1, g2⟩ := Basis.run_le_mult hvk z (b.bisectL z + 1) (b.bisectR z) (by omega)
      (by rw [hsz]; omega) hnew
    unfold Basis.mult
    omega

end C10


namespace C10

/-- A sequence of periodic insertions never lowers the multiplicity of a value strictly inside the
    domain. -/
theorem mult_insertMany_ge (b0 : Basis K) (hv0 : b0.Valid) (k : ℕ) (hk : b0.periodic = (k : Int))
    (z : K) (hz : b0.start < z ∧ z < b0.stop) (xs : List K) :
    ∀ (b : Basis K) (Cacc : Mat K) (m : ℕ), PerRefines b0 b Cacc m →
      ∀ b' C, insertMany b Cacc xs = .ok (b', C) →
        b.mult z ≤ b'.mult z ∧ ∃ m', PerRefines b0 b' C m' := by
  induction xs with
  | nil =>
    intro b Cacc m hR b' C h
    have e : (b, Cacc) = (b', C) := Except.ok.inj h
    have e1 : b = b' := (Prod.mk.inj e).1
    have e2 : Cacc = C := (Prod.mk.inj e).2
    subst e1 e2
    exact ⟨le_refl _, m, hR⟩
  | cons x xs ih =>
    intro b Cacc m hR b' C h
    obtain ⟨b1, C1, hins, hr1, _⟩ := insertKnot_per_step_all b hR.valid k (hR.periodic_eq.trans hk) x
    have hstep : stepIns (b, Cacc) x = .ok (b1, Mat.mul C1 Cacc) := by
      unfold stepIns
      simp only [hins]
      rfl
    unfold insertMany at h
    rw [List.foldlM_cons, hstep] at h
    have h' : insertMany b1 (Mat.mul C1 Cacc) xs = .ok (b', C) := h
    obtain ⟨g1, g2⟩ := ih b1 (Mat.mul C1 Cacc) (m + 1) (perRefines_trans hv0 hR hr1) b' C h'
    have hm := mult_insert_ge b hR.valid k (hR.periodic_eq.trans hk) x z
      ⟨by rw [hR.start_eq]; exact hz.1, by rw [hR.stop_eq]; exact hz.2⟩ b1 C1 hins
    exact ⟨le_trans hm g1, g2⟩

/-- Object level: `insert_knot(xs, dir)` along a periodic direction never lowers the multiplicity of a
    value strictly inside the domain. -/
theorem insertKnots_mult_ge {o o' : Obj K} (h : o.WellFormed) (dir : ℕ) (hd : dir < o.bases.size)
    (k : ℕ) (hk : (o.basis dir).periodic = (k : Int)) (z : K)
    (hz : (o.basis dir).start < z ∧ z < (o.basis dir).stop) (xs : List K)
    (hs : o.insertKnots xs dir = .ok o') : (o.basis dir).mult z ≤ (o'.basis dir).mult z := by
  have hv := h.valid dir hd
  rw [insertKnots_eq] at hs
  obtain ⟨bc, hm, hpure⟩ := bind_ok hs
  obtain ⟨b', C⟩ := bc
  have ho' : ({ o with bases := o.bases.set! dir b', cps := Tensor.applyAxis C o.cps dir } : Obj K)
      = o' := Except.ok.inj hpure
  have hsb : o'.basis dir = b' := by rw [← ho']; exact basis_set o dir hd _ _
  rw [h.shape_getD dir 0 hd] at hm
  rw [hsb]
  exact (mult_insertMany_ge (o.basis dir) hv k hk z hz xs (o.basis dir) _ 0
    (perRefines_refl _ hv) b' C hm).1

/-- Invariant of the insertion loop of `split` along a periodic direction `dir`, without guard: well
    formed, `nb` bases, direction `dir` periodic with continuity `k`, start `s`, end `e`, order `p`. -/
def PerInvAll (dir nb k : ℕ) (s e : K) (p : ℕ) (so : Obj K) : Prop :=
  so.WellFormed ∧ so.bases.size = nb ∧ (so.basis dir).periodic = (k : Int) ∧
    (so.basis dir).start = s ∧ (so.basis dir).stop = e ∧ (so.basis dir).order = p

theorem PerInvAll.insertKnots {dir nb k : ℕ} {s e : K} {p : ℕ} {so so' : Obj K}
    (h : PerInvAll dir nb k s e p so) (hd : dir < nb) (z : K) (xs : List K)
    (hs : so.insertKnots xs dir = .ok so') :
    PerInvAll dir nb k s e p so' ∧
      (s < z ∧ z < e → (so.basis dir).mult z ≤ (so'.basis dir).mult z) := by
  obtain ⟨hw, hn, hper, hst, hen, hp⟩ := h
  have hd' : dir < so.bases.size := by rw [hn]; exact hd
  obtain ⟨hw', hn', _, hper', hord', _, hst', hen'⟩ := hw.insertKnots_periodic_all dir hd' k hper xs hs
  refine ⟨⟨hw', hn'.trans hn, hper', hst'.trans hst, hen'.trans hen, hord'.trans hp⟩, fun hz => ?_⟩
  exact insertKnots_mult_ge hw dir hd' k hper z (by rw [hst, hen]; exact hz) xs hs

/-- The insertion loop of `split` on a periodic direction (any values), started from any object satisfying
    the invariant: the invariant is kept and the multiplicity of a value strictly inside the domain is
    not lowered. -/
theorem PerInvAll.splitInsertFold {dir nb k : ℕ} {s e : K} {p : ℕ} (hd : dir < nb)
    (o : Obj K) (tol : K) (z : K) (knots : List K) :
    ∀ {so so' : Obj K}, PerInvAll dir nb k s e p so →
      knots.foldlM (fun (so : Obj K) k => do
        let c ← (o.basis dir).continuity tol k
        let cont : Int := match c with
          | none => ((o.basis dir).order : Int) - 1
          | some c => c
        so.insertKnots (List.replicate (cont + 1).toNat k) dir) so = .ok so' →
      PerInvAll dir nb k s e p so' ∧
        (s < z ∧ z < e → (so.basis dir).mult z ≤ (so'.basis dir).mult z) := by
  induction knots with
  | nil =>
    intro so so' h hs
    have : so = so' := Except.ok.inj hs
    rw [← this]; exact ⟨h, fun _ => le_refl _⟩
  | cons x xs ih =>
    intro so so' h hs
    rw [List.foldlM_cons] at hs
    obtain ⟨so1, hstep, hrest⟩ := bind_ok hs
    obtain ⟨c, hc, hins⟩ := bind_ok hstep
    obtain ⟨h1, hm1⟩ := h.insertKnots hd z _ hins
    obtain ⟨h2, hm2⟩ := ih h1 hrest
    exact ⟨h2, fun hz => le_trans (hm1 hz) (hm2 hz)⟩

/-- **The first loop of `split` on a periodic direction keeps the object well formed** — every periodic
    direction, any split values. -/
theorem splitInsert_periodic_inv_all {o so : Obj K} (h : o.WellFormed) (tol : K) (knots : List K)
    (dir : ℕ) (hd : dir < o.bases.size) (k : ℕ) (hk : (o.basis dir).periodic = (k : Int))
    (hs : o.splitInsert tol knots dir = .ok so) :
    PerInvAll dir o.bases.size k (o.basis dir).start (o.basis dir).stop (o.basis dir).order so :=
  (PerInvAll.splitInsertFold hd o tol 0 knots ⟨h, rfl, hk, rfl, rfl, rfl⟩ hs).1

/-- **`hMult` for several split values**: after the insertion loop of `split(x0 :: rest)` on a periodic
    direction, the first value `x0` (strictly inside the base period, no other knot within the tolerance
    of `x0`) has multiplicity at least `p` at `bisect_left` — the later insertions never lower it. -/
theorem hMult_of_exact_cons {o : Obj K} (h : o.WellFormed) (dir : ℕ) (hd : dir < o.bases.size)
    (k : ℕ) (hk : (o.basis dir).periodic = (k : Int)) {tol x0 : K} (htol : 0 < tol) (rest : List K)
    (hx : (o.basis dir).start < x0 ∧ x0 < (o.basis dir).stop)
    (hexR : ∀ i, i < (o.basis dir).knots.size →
      (o.basis dir).kn i ≤ x0 ∨ x0 + tol ≤ (o.basis dir).kn i)
    (hexL : ∀ i, i < (o.basis dir).knots.size →
      (o.basis dir).kn i < x0 - tol ∨ x0 ≤ (o.basis dir).kn i) :
    ∀ so, o.splitInsert tol (x0 :: rest) dir = .ok so →
      (so.basis dir).kn ((so.basis dir).bisectL x0) = x0 ∧
      (so.basis dir).kn ((so.basis dir).bisectL x0 + (o.basis dir).order - 1) = x0 := by
  intro so hso
  have hv := h.valid dir hd
  have hp := hv.order_pos
  unfold Obj.splitInsert at hso
  rw [List.foldlM_cons] at hso
  obtain ⟨so1, hstep, hrest⟩ := bind_ok hso
  have hso1 : o.splitInsert tol [x0] dir = .ok so1 := by
    unfold Obj.splitInsert
    rw [List.foldlM_cons, hstep]
    rfl
  obtain ⟨hM1, hM2⟩ := hMult_of_exact_all o dir hd hv k hk (h.shape_getD dir 0 hd) htol
    ⟨le_of_lt hx.1, hx.2⟩ hexR hexL so1 hso1
  have hinv1 := splitInsert_periodic_inv_all h tol [x0] dir hd k hk hso1
  have hd1 : dir < so1.bases.size := by rw [hinv1.2.1]; exact hd
  have hv1 := hinv1.1.valid dir hd1
  -- multiplicity `≥ p` after the copies of `x0`
  have hsz1 : (so1.basis dir).bisectL x0 + (o.basis dir).order - 1 < (so1.basis dir).knots.size := by
    by_contra hc
    have hlast : (so1.basis dir).kn ((so1.basis dir).bisectL x0 + (o.basis dir).order - 1)
        = (so1.basis dir).kn ((so1.basis dir).knots.size - 1) := C04.kn_of_ge _ (by omega)
    have hp1 := hv1.order_pos
    have hstop : (so1.basis dir).stop ≤ (so1.basis dir).kn ((so1.basis dir).knots.size - 1) := by
      show (so1.basis dir).kn ((so1.basis dir).knots.size - (so1.basis dir).order) ≤ _
      exact hv1.kn_mono (by omega)
    rw [← hlast, hM2, hinv1.2.2.2.2.1] at hstop
    exact absurd hx.2 (not_lt.2 hstop)
  have hrun1 : ∀ j, (so1.basis dir).bisectL x0 ≤ j →
      j ≤ (so1.basis dir).bisectL x0 + (o.basis dir).order - 1 → (so1.basis dir).kn j = x0 := by
    intro j hj1 hj2
    apply le_antisymm
    · rw [← hM2]; exact hv1.kn_mono hj2
    · rw [← hM1]; exact hv1.kn_mono hj1
  obtain ⟨_, g2⟩ := Basis.run_le_mult hv1 x0 _ _ (by omega) hsz1 hrun1
  have hll1 := Basis.bisectL_le_bisectR hv1 x0
  have hmult1 : (o.basis dir).order ≤ (so1.basis dir).mult x0 := by
    unfold Basis.mult; omega
  -- the later insertions
  obtain ⟨hinv, hmult⟩ := PerInvAll.splitInsertFold hd o tol x0 rest hinv1 hrest
  have hmult2 : (o.basis dir).order ≤ (so.basis dir).mult x0 := le_trans hmult1 (hmult hx)
  have hd2 : dir < so.bases.size := by rw [hinv.2.1]; exact hd
  have hv2 := hinv.1.valid dir hd2
  have hll2 := Basis.bisectL_le_bisectR hv2 x0
  unfold Basis.mult at hmult2
  exact ⟨Basis.kn_of_mem_run hv2 x0 _ (le_refl _) (by omega),
    Basis.kn_of_mem_run hv2 x0 _ (by omega) (by omega)⟩

end C10


namespace C10

/-- **The object opened at `x0`** (`roll` the knots to `μ = bisect_left(knots, x0)`, roll the control
    points, drop the ghost knots): well formed, non-periodic along `dir` with start `x0` and end
    `x0 + T`, provided `x0` has multiplicity at least `p` at `μ` (every valid periodic direction: the
    multiplicity forces `n ≥ p`).  If `μ ≥ 1` its end knot has multiplicity
    at most `p`. -/
theorem opened_wf_all {so : Obj K} (hw : so.WellFormed) (dir : ℕ) (hd : dir < so.bases.size) (k : ℕ)
    (hk : (so.basis dir).periodic = (k : Int))
    (x0 : K) (hx : x0 < (so.basis dir).stop)
    (hM1 : (so.basis dir).kn ((so.basis dir).bisectL x0) = x0)
    (hM2 : (so.basis dir).kn ((so.basis dir).bisectL x0 + (so.basis dir).order - 1) = x0) :
    (so.basis dir).bisectL x0 + (so.basis dir).order - 1 < (so.basis dir).nAll ∧
    (so.basis dir).bisectL x0 ≤ (so.basis dir).numFunctions ∧
    ∀ b1, (so.basis dir).roll ((so.basis dir).bisectL x0) = .ok b1 →
      (so.openedAt dir ((so.basis dir).bisectL x0) b1).WellFormed ∧
      (so.openedAt dir ((so.basis dir).bisectL x0) b1).bases.size = so.bases.size ∧
      ((so.openedAt dir ((so.basis dir).bisectL x0) b1).basis dir).periodic = -1 ∧
      ((so.openedAt dir ((so.basis dir).bisectL x0) b1).basis dir).order = (so.basis dir).order ∧
      ((so.openedAt dir ((so.basis dir).bisectL x0) b1).basis dir).start = x0 ∧
      ((so.openedAt dir ((so.basis dir).bisectL x0) b1).basis dir).stop
        = x0 + ((so.basis dir).stop - (so.basis dir).start) ∧
      (1 ≤ (so.basis dir).bisectL x0 →
        ((so.openedAt dir ((so.basis dir).bisectL x0) b1).basis dir).kn
          (((so.openedAt dir ((so.basis dir).bisectL x0) b1).basis dir).knots.size
            - ((so.openedAt dir ((so.basis dir).bisectL x0) b1).basis dir).order - 1)
          < ((so.openedAt dir ((so.basis dir).bisectL x0) b1).basis dir).stop) := by
  set b' := so.basis dir with hb'
  set mu := b'.bisectL x0 with hmudef
  have hv' : b'.Valid := hw.valid dir hd
  have hper' : 0 ≤ b'.periodic := by rw [hk]; omega
  have hktn : b'.periodic.toNat = k := by rw [hk]; omega
  have hp := hv'.order_pos
  have hpk : k + 2 ≤ b'.order := by
    rcases hv'.periodic_le with h | h
    · rw [hk] at h; omega
    · rw [hk] at h; omega
  have hsize' := Basis.per_size hv' hper'
  have hnAll' := Basis.per_nAll hv' hper'
  rw [hktn] at hsize' hnAll'
  have hTpos : 0 < b'.stop - b'.start := sub_pos.2 hv'.start_lt_stop
  have hmu_lt : mu + b'.order - 1 < b'.nAll := by
    by_contra hc
    have h1 : b'.kn b'.nAll ≤ b'.kn (mu + b'.order - 1) := hv'.kn_mono (by omega)
    have h2 : b'.kn b'.nAll = b'.stop := rfl
    rw [h2, hM2] at h1
    exact absurd hx (not_lt.2 h1)
  have hmu_le : mu ≤ b'.numFunctions := by omega
  have hpn : b'.order ≤ b'.numFunctions := by
    by_contra hc
    have := kn_run_le_period hv' k hk mu (mu + b'.order - 1) (by omega)
      (by unfold Basis.nAll at hmu_lt; omega)
    rw [hM1, hM2] at this
    exact absurd this (lt_irrefl _)
  refine ⟨hmu_lt, hmu_le, fun b1 hroll => ?_⟩
  obtain ⟨e1, e2, e3, e4⟩ := Basis.opened_spec hv' hper' mu hmu_le b1 hroll
  set b2 : Basis K := { b1 with knots := b1.knots.extract 0 (b1.knots.size - b'.periodic.toNat - 1),
                                periodic := -1 } with hb2
  have hopb : (so.openedAt dir mu b1).basis dir = b2 := by
    unfold Obj.openedAt
    rw [basis_set so dir hd]
  have hb2sz : b2.knots.size = b'.numFunctions + b'.order := e3
  have hb2kn : ∀ j, j < b'.numFunctions + b'.order → b2.kn j = b'.ext (mu + j) := e4
  have hb2ord : b2.order = b'.order := e1
  have hext : ∀ i, i < b'.knots.size → b'.ext i = b'.kn i := Basis.ext_eq hv' hper'
  have hstart2 : b2.start = x0 := by
    show b2.kn (b2.order - 1) = x0
    rw [hb2ord, hb2kn _ (by omega), hext _ (by omega),
      show mu + (b'.order - 1) = mu + b'.order - 1 by omega, hM2]
  have hstop2 : b2.stop = x0 + (b'.stop - b'.start) := by
    show b2.kn (b2.knots.size - b2.order) = _
    rw [hb2sz, hb2ord, Nat.add_sub_cancel, hb2kn _ (by omega),
      Basis.ext_add hv' hper', hext _ (by omega), hM1]
  have hvalid2 : b2.Valid := by
    refine ⟨(by rw [hb2ord]; exact hp), ?_, ?_, (by rw [e2]), Or.inr e2, ?_, ?_⟩
    · rw [hb2sz, hb2ord]; omega
    · intro j hj
      rw [hb2sz] at hj
      rw [hb2kn j (by omega), hb2kn (j+1) (by omega)]
      exact Basis.ext_mono hv' hper' (by omega)
    · rw [hstart2, hstop2]; linarith
    · intro h; rw [e2] at h; exact absurd h (by decide)
  have hnum2 : b2.numFunctions = b'.numFunctions := by
    show b2.knots.size - b2.order - (b2.periodic + 1).toNat = b'.numFunctions
    rw [hb2sz, hb2ord, e2, show ((-1 : Int) + 1).toNat = 0 from rfl]
    omega
  refine ⟨?_, ?_, ?_, ?_, ?_, ?_, ?_⟩
  · exact hw.rollNeg dir mu hd b2 hvalid2 hnum2
  · show (so.bases.set! dir b2).size = so.bases.size
    exact size_set! _ _ _
  · rw [hopb]
  · rw [hopb]; exact hb2ord
  · rw [hopb]; exact hstart2
  · rw [hopb]; exact hstop2
  · intro hmu1
    rw [hopb, hstop2, hb2sz, hb2ord, Nat.add_sub_cancel, hb2kn _ (by omega),
      show mu + (b'.numFunctions - 1) = (mu - 1) + b'.numFunctions by omega,
      Basis.ext_add hv' hper', hext _ (by omega)]
    obtain ⟨_, hm2, _⟩ := bisectLeft_spec b'.kn hv'.kn_mono x0 b'.knots.size
    have : b'.kn (mu - 1) < x0 := hm2 (mu - 1) (by
      show mu - 1 < b'.bisectL x0
      omega)
    linarith

end C10


/-! ## `split` along a periodic direction, every direction -/

namespace Obj

/-- **`split(x0 :: rest, dir)` along a periodic direction returns well-formed objects** — every valid
    periodic direction (no guard `n ≥ p + k`, later values may wrap onto the end of the domain).
    Hypotheses: `x0` in the base period `[start, end)`; after the insertion loop `x0` has multiplicity at
    least `p` at `bisect_left` (`hMult`; derived from exact tolerance comparisons in
    `WellFormed.split_periodic_exact`); the later values lie in `[x0, x0 + T)`; if there are later
    values, `x0` is not the start of the domain. -/
theorem WellFormed.split_periodic_all {o : Obj K} (h : o.WellFormed) (tol x0 : K) (rest : List K)
    (dir : ℕ) (hd : dir < o.bases.size) (k : ℕ) (hk : (o.basis dir).periodic = (k : Int))
    (hx : (o.basis dir).start ≤ x0 ∧ x0 < (o.basis dir).stop)
    (hMult : ∀ so, o.splitInsert tol (x0 :: rest) dir = .ok so →
      (so.basis dir).kn ((so.basis dir).bisectL x0) = x0 ∧
      (so.basis dir).kn ((so.basis dir).bisectL x0 + (o.basis dir).order - 1) = x0)
    (hrest : ∀ y ∈ rest, x0 ≤ y ∧ y < x0 + ((o.basis dir).stop - (o.basis dir).start))
    (hpos : rest ≠ [] → (o.basis dir).start < x0)
    {r : SplitRes K} (hs : o.split tol (x0 :: rest) dir = .ok r) :
    r.AllWF ∧ (rest = [] → ∃ op, r = .single op) ∧ (rest ≠ [] → ∃ ps, r = .many ps) := by
  have hv := h.valid dir hd
  cases hso : o.splitInsert tol (x0 :: rest) dir with
  | error e =>
    unfold Obj.split at hs
    rw [hso] at hs
    cases hs
  | ok so =>
    obtain ⟨hw, hsz, hper, hst, hen, hord⟩ :=
      splitInsert_periodic_inv_all h tol (x0 :: rest) dir hd k hk hso
    have hd' : dir < so.bases.size := by rw [hsz]; exact hd
    have hv' := hw.valid dir hd'
    have hper' : 0 ≤ (so.basis dir).periodic := by rw [hper]; omega
    obtain ⟨hM1, hM2⟩ := hMult so hso
    rw [← hord] at hM2
    obtain ⟨hmu_lt, hmu_le, hop⟩ := opened_wf_all hw dir hd' k hper x0
      (by rw [hen]; exact hx.2) hM1 hM2
    obtain ⟨b1, hroll, _⟩ := Basis.roll_spec hv' hper' _ hmu_le
    have hsize' := Basis.per_size hv' hper'
    rw [split_cons_unfold o so tol x0 rest dir b1 hso (by rw [hper]; omega) (by omega) hroll] at hs
    obtain ⟨hwop, hszop, hperop, hordop, hstartop, hstopop, hendop⟩ := hop b1 hroll
    cases rest with
    | nil =>
      rw [if_neg (by simp)] at hs
      have hr : SplitRes.single _ = r := Except.ok.inj hs
      rw [← hr]
      exact ⟨hwop, fun _ => ⟨_, rfl⟩, fun hne => absurd rfl hne⟩
    | cons y ys =>
      rw [if_pos (by simp)] at hs
      obtain ⟨so3, hins3, hrest3⟩ := bind_ok hs
      obtain ⟨ps, hps, hpure⟩ := bind_ok hrest3
      have hr : SplitRes.many ps = r := Except.ok.inj hpure
      have hdop : dir < (so.openedAt dir ((so.basis dir).bisectL x0) b1).bases.size := by
        rw [hszop]; exact hd'
      have hinv3 := splitInsert_inv hwop tol (y :: ys) dir hdop hperop (by
        intro z hz
        rw [hstartop, hstopop, hen, hst]
        exact hrest z hz) hins3
      obtain ⟨init, last, hpl, hinit, hlast, hdom⟩ := splitPieces_wf hinv3 hdop tol (y :: ys) hps
      have hmu1 : 1 ≤ (so.basis dir).bisectL x0 := by
        have hlt := hpos (List.cons_ne_nil y ys)
        obtain ⟨_, _, hm3⟩ := bisectLeft_spec (so.basis dir).kn hv'.kn_mono x0 (so.basis dir).knots.size
        by_contra hc
        have h0 : (so.basis dir).bisectL x0 = 0 := by omega
        have := hm3 ((so.basis dir).order - 1) (by
          show (so.basis dir).bisectL x0 ≤ _
          omega) (by have := hv'.size_ge; have := hv'.order_pos; omega)
        have hs' : (so.basis dir).kn ((so.basis dir).order - 1) = (o.basis dir).start := hst
        rw [hs'] at this
        exact absurd hlt (not_lt.2 this)
      have hc := countGe_le_of_end (hwop.valid dir hdop) _ (hendop hmu1)
      rw [← hr]
      refine ⟨?_, fun hne => absurd hne (List.cons_ne_nil y ys), fun _ => ⟨_, rfl⟩⟩
      intro pc hpc
      rw [hpl] at hpc
      rcases List.mem_append.1 hpc with h1 | h1
      · exact hinit pc h1
      · rw [List.mem_singleton] at h1
        rw [h1]
        exact hlast (hdom hc)

/-- **`split(x0 :: rest, dir)` along a periodic direction, `hMult` derived**: every valid periodic
    direction, `x0 ∈ [start, end)` with no other knot within the tolerance of `x0`, later values in
    `[x0, x0 + T)`, and with later values `x0 ≠ start`. -/
theorem WellFormed.split_periodic_exact {o : Obj K} (h : o.WellFormed) (tol : K) (htol : 0 < tol)
    (x0 : K) (rest : List K) (dir : ℕ) (hd : dir < o.bases.size) (k : ℕ)
    (hk : (o.basis dir).periodic = (k : Int))
    (hx : (o.basis dir).start ≤ x0 ∧ x0 < (o.basis dir).stop)
    (hexR : ∀ i, i < (o.basis dir).knots.size →
      (o.basis dir).kn i ≤ x0 ∨ x0 + tol ≤ (o.basis dir).kn i)
    (hexL : ∀ i, i < (o.basis dir).knots.size →
      (o.basis dir).kn i < x0 - tol ∨ x0 ≤ (o.basis dir).kn i)
    (hrest : ∀ y ∈ rest, x0 ≤ y ∧ y < x0 + ((o.basis dir).stop - (o.basis dir).start))
    (hpos : rest ≠ [] → (o.basis dir).start < x0)
    {r : SplitRes K} (hs : o.split tol (x0 :: rest) dir = .ok r) :
    r.AllWF ∧ (rest = [] → ∃ op, r = .single op) ∧ (rest ≠ [] → ∃ ps, r = .many ps) := by
  refine h.split_periodic_all tol x0 rest dir hd k hk hx ?_ hrest hpos hs
  by_cases hne : rest = []
  · subst hne
    exact hMult_of_exact_all o dir hd (h.valid dir hd) k hk (h.shape_getD dir 0 hd) htol hx hexR hexL
  · exact hMult_of_exact_cons h dir hd k hk htol rest ⟨hpos hne, hx.2⟩ hexR hexL

end Obj

namespace History

/-- `_partial`: `split(x0 :: rest, dir)` along a periodic direction — EVERY valid periodic direction (no
    guard), no `hMult`.  Restrictions: `x0 ∈ [start, end)`; no knot other than `x0` within the tolerance of
    `x0` (`hexR`, `hexL`: the tolerance comparisons of `continuity` are exact); the later values lie in
    `[x0, x0 + T)`; with later values `x0` is not the start of the domain. -/
theorem stepOut_split_periodic_wf_all_partial {o : Obj K} (h : o.WellFormed) (tol : K)
    (htol : 0 < tol) (x0 : K) (rest : List K) (dir : ℕ) (k : ℕ)
    (hk : (o.basis dir).periodic = (k : Int))
    (hx : (o.basis dir).start ≤ x0 ∧ x0 < (o.basis dir).stop)
    (hexR : ∀ i, i < (o.basis dir).knots.size →
      (o.basis dir).kn i ≤ x0 ∨ x0 + tol ≤ (o.basis dir).kn i)
    (hexL : ∀ i, i < (o.basis dir).knots.size →
      (o.basis dir).kn i < x0 - tol ∨ x0 ≤ (o.basis dir).kn i)
    (hrest : ∀ y ∈ rest, x0 ≤ y ∧ y < x0 + ((o.basis dir).stop - (o.basis dir).start))
    (hpos : rest ≠ [] → (o.basis dir).start < x0)
    {out : Out K} (hs : stepOut tol o (.split (x0 :: rest) dir) = .ok out) :
    out.recv.WellFormed ∧ ∀ n ∈ out.news, n.WellFormed := by
  obtain ⟨hpd, hrecv, r, hres, hsingle, hmany⟩ := stepOut_split_eq tol (x0 :: rest) dir hs
  have hd : dir < o.bases.size := by rw [← h.pardim_eq]; exact hpd
  obtain ⟨hall, _, _⟩ := h.split_periodic_exact tol htol x0 rest dir hd k hk hx hexR hexL hrest hpos hres
  refine ⟨by rw [hrecv]; exact h, fun n hn => ?_⟩
  cases r with
  | single p =>
    rw [hsingle p rfl, List.mem_singleton] at hn
    rw [hn]; exact hall
  | many ps =>
    rw [hmany ps rfl] at hn
    exact hall n hn

/-- `_partial`: `split([x0], dir)` along a periodic direction (the call returns the opened object) — every
    valid periodic direction.  Restrictions: `x0 ∈ [start, end)` and no knot other than `x0` within the
    tolerance of `x0` (`hexR`, `hexL`). -/
theorem stepOut_split_periodic_single_wf_all_partial {o : Obj K} (h : o.WellFormed) (tol : K)
    (htol : 0 < tol) (x0 : K) (dir : ℕ) (k : ℕ) (hk : (o.basis dir).periodic = (k : Int))
    (hx : (o.basis dir).start ≤ x0 ∧ x0 < (o.basis dir).stop)
    (hexR : ∀ i, i < (o.basis dir).knots.size →
      (o.basis dir).kn i ≤ x0 ∨ x0 + tol ≤ (o.basis dir).kn i)
    (hexL : ∀ i, i < (o.basis dir).knots.size →
      (o.basis dir).kn i < x0 - tol ∨ x0 ≤ (o.basis dir).kn i)
    {out : Out K} (hs : stepOut tol o (.split [x0] dir) = .ok out) :
    out.recv.WellFormed ∧ ∀ n ∈ out.news, n.WellFormed :=
  stepOut_split_periodic_wf_all_partial h tol htol x0 [] dir k hk hx hexR hexL
    (fun y hy => absurd hy List.not_mem_nil) (fun hne => absurd rfl hne) hs

/-- The cases of `split` covered by the C10 lemmas, without guard: a non-periodic direction (values in
    `[start, end)`, end knot of multiplicity at most `p`), or ANY periodic direction with `x0` in the base
    period, `hMult` (see `SplitOKAll.of_exact`, `SplitOKAll.of_exact_cons`), later values in
    `[x0, x0 + T)`, and `x0 ≠ start` if there are later values. -/
def SplitOKAll (o : Obj K) (tol : K) (knots : List K) (dir : ℕ) : Prop :=
  ((o.basis dir).periodic = -1 ∧
    (∀ k ∈ knots, (o.basis dir).start ≤ k ∧ k < (o.basis dir).stop) ∧
    (o.basis dir).kn ((o.basis dir).knots.size - (o.basis dir).order - 1) < (o.basis dir).stop) ∨
  (∃ (k : ℕ) (x0 : K) (rest : List K), knots = x0 :: rest ∧ (o.basis dir).periodic = (k : Int) ∧
    ((o.basis dir).start ≤ x0 ∧ x0 < (o.basis dir).stop) ∧
    (∀ so, o.splitInsert tol (x0 :: rest) dir = .ok so →
      (so.basis dir).kn ((so.basis dir).bisectL x0) = x0 ∧
      (so.basis dir).kn ((so.basis dir).bisectL x0 + (o.basis dir).order - 1) = x0) ∧
    (∀ y ∈ rest, x0 ≤ y ∧ y < x0 + ((o.basis dir).stop - (o.basis dir).start)) ∧
    (rest ≠ [] → (o.basis dir).start < x0))

/-- `_partial`: `split` along any covered direction (`SplitOKAll`). -/
theorem stepOut_split_all_wf_partial {o : Obj K} (h : o.WellFormed) (tol : K) (knots : List K)
    (dir : ℕ) (hok : SplitOKAll o tol knots dir)
    {out : Out K} (hs : stepOut tol o (.split knots dir) = .ok out) :
    out.recv.WellFormed ∧ ∀ n ∈ out.news, n.WellFormed := by
  rcases hok with ⟨hper, hk, hend⟩ | ⟨k, x0, rest, hkn, hk, hx, hM, hrest, hpos⟩
  · exact stepOut_split_wf_end_partial h tol knots dir hper hk hend hs
  · subst hkn
    obtain ⟨hpd, hrecv, r, hres, hsingle, hmany⟩ := stepOut_split_eq tol (x0 :: rest) dir hs
    have hd : dir < o.bases.size := by rw [← h.pardim_eq]; exact hpd
    obtain ⟨hall, _, _⟩ := h.split_periodic_all tol x0 rest dir hd k hk hx hM hrest hpos hres
    refine ⟨by rw [hrecv]; exact h, fun n hn => ?_⟩
    cases r with
    | single p =>
      rw [hsingle p rfl, List.mem_singleton] at hn
      rw [hn]; exact hall
    | many ps =>
      rw [hmany ps rfl] at hn
      exact hall n hn

/-- The old guarded condition implies the new one. -/
theorem SplitOK.toAll {o : Obj K} {tol : K} {knots : List K} {dir : ℕ}
    (hok : SplitOK o tol knots dir) : SplitOKAll o tol knots dir := by
  rcases hok with h | ⟨k, x0, rest, hkn, hk, _, hx, hM, hrest, hpos⟩
  · exact Or.inl h
  · exact Or.inr ⟨k, x0, rest, hkn, hk, hx, hM,
      fun y hy => ⟨(hrest y hy).1, (hrest y hy).2.1⟩, hpos⟩

/-- A single split value of ANY periodic direction with exact tolerance comparisons is covered. -/
theorem SplitOKAll.of_exact {o : Obj K} (h : o.WellFormed) (tol : K) (htol : 0 < tol) (x0 : K)
    (dir : ℕ) (hd : dir < o.bases.size) (k : ℕ) (hk : (o.basis dir).periodic = (k : Int))
    (hx : (o.basis dir).start ≤ x0 ∧ x0 < (o.basis dir).stop)
    (hexR : ∀ i, i < (o.basis dir).knots.size →
      (o.basis dir).kn i ≤ x0 ∨ x0 + tol ≤ (o.basis dir).kn i)
    (hexL : ∀ i, i < (o.basis dir).knots.size →
      (o.basis dir).kn i < x0 - tol ∨ x0 ≤ (o.basis dir).kn i) : SplitOKAll o tol [x0] dir :=
  Or.inr ⟨k, x0, [], rfl, hk, hx,
    hMult_of_exact_all o dir hd (h.valid dir hd) k hk (h.shape_getD dir 0 hd) htol hx hexR hexL,
    fun y hy => absurd hy List.not_mem_nil, fun hne => absurd rfl hne⟩

/-- Several split values of ANY periodic direction: first value strictly inside the base period with
    exact tolerance comparisons, later values in `[x0, x0 + T)`. -/
theorem SplitOKAll.of_exact_cons {o : Obj K} (h : o.WellFormed) (tol : K) (htol : 0 < tol) (x0 : K)
    (rest : List K) (dir : ℕ) (hd : dir < o.bases.size) (k : ℕ)
    (hk : (o.basis dir).periodic = (k : Int))
    (hx : (o.basis dir).start < x0 ∧ x0 < (o.basis dir).stop)
    (hexR : ∀ i, i < (o.basis dir).knots.size →
      (o.basis dir).kn i ≤ x0 ∨ x0 + tol ≤ (o.basis dir).kn i)
    (hexL : ∀ i, i < (o.basis dir).knots.size →
      (o.basis dir).kn i < x0 - tol ∨ x0 ≤ (o.basis dir).kn i)
    (hrest : ∀ y ∈ rest, x0 ≤ y ∧ y < x0 + ((o.basis dir).stop - (o.basis dir).start)) :
    SplitOKAll o tol (x0 :: rest) dir :=
  Or.inr ⟨k, x0, rest, rfl, hk, ⟨le_of_lt hx.1, hx.2⟩,
    hMult_of_exact_cons h dir hd k hk htol rest hx hexR hexL, hrest, fun _ => hx.1⟩

end History

end Splipy
