import Splipy.Lemmas.C15Evaluate
import Splipy.Lemmas.C15CpcEval

/-!
# The ends of the family's bases as evaluation parameters; `const_par_curve` at the four edges
-/

set_option linter.unusedSectionVars false

namespace Splipy
namespace C15

open C06 C12 Obj Basis Finset

variable {K : Type} [Field K] [LinearOrder K] [IsStrictOrderedRing K] [FloorRing K]

/-- Every knot of a basis of the family is `0`, `1`, or more than `tol` away from both. -/
theorem UnitKnots.knot_cases {tol : K} (htol : 0 < tol) {p : ℕ} {U : List K} {M : List ℕ}
    (h : UnitKnots tol p U M) :
    (0 : K) + tol < 1 ∧ ∀ i, i < (unitBasis p U M).knots.size →
      (unitBasis p U M).kn i = 0 ∨ (unitBasis p U M).kn i = 1
        ∨ (0 + tol < (unitBasis p U M).kn i ∧ (unitBasis p U M).kn i + tol < 1) := by
  have hsep := h.sep htol
  obtain ⟨h01, hU⟩ := separated_ends tol 0 1 U hsep
  refine ⟨h01, fun i hi => ?_⟩
  set l : List K := (List.replicate p 0 ++ expand U M) ++ List.replicate p 1 with hl
  have hk : (unitBasis p U M).knots = l.toArray := by
    show (expand _ _).toArray = _
    rw [expand_clamped p 0 1 U M h.hlen.symm]
  have hi' : i < l.length := by rw [hk] at hi; simpa using hi
  rw [kn_of_lt_list _ l hk hi']
  have hmem : l[i] ∈ l := List.getElem_mem _
  simp only [hl, List.mem_append] at hmem
  rcases hmem with (hm | hm) | hm
  · left; exact List.eq_of_mem_replicate hm
  · right; right; exact hU _ (mem_expand U M _ hm)
  · right; left; exact List.eq_of_mem_replicate hm

/-- `0` and `1` are admissible evaluation parameters of a basis of the family; the effective sides
    are "from the right" at `0` and "from the left" at `1`; both are tolerance-separated from the
    other knots. -/
theorem UnitKnots.ends_admissible {tol : K} (htol : 0 < tol) {p : ℕ} {U : List K} {M : List ℕ}
    (h : UnitKnots tol p U M) :
    (unitBasis p U M).Admissible tol 0 ∧ (unitBasis p U M).Admissible tol 1
      ∧ effSide (unitBasis p U M) 0 true = .right ∧ effSide (unitBasis p U M) 1 true = .left
      ∧ C15.Separated (unitBasis p U M) tol 0 ∧ C15.Separated (unitBasis p U M) tol 1 := by
  obtain ⟨h01, hc⟩ := h.knot_cases htol
  obtain ⟨hs0, hs1⟩ := unitBasis_start_stop p h.hp U M h.hlen
  have hper : (unitBasis p U M).periodic = -1 := rfl
  refine ⟨⟨?_, fun _ => ?_, fun hh => ?_⟩, ⟨?_, fun _ => ?_, fun hh => ?_⟩, ?_, ?_, ?_, ?_⟩
  · intro i hi
    rcases hc i hi with e | e | ⟨e1, e2⟩
    · left; exact e
    · right; rw [e, sub_zero, abs_one]; linarith
    · right; rw [sub_zero, abs_of_pos (by linarith)]; linarith
  · rw [hs0, hs1]; exact ⟨le_refl _, zero_le_one⟩
  · rw [hper] at hh; omega
  · intro i hi
    rcases hc i hi with e | e | ⟨e1, e2⟩
    · right; rw [e, zero_sub, abs_neg, abs_one]; linarith
    · left; exact e
    · right; rw [abs_sub_comm, abs_of_pos (by linarith)]; linarith
  · rw [hs0, hs1]; exact ⟨zero_le_one, le_refl _⟩
  · rw [hper] at hh; omega
  · unfold effSide; rw [hs1, if_neg (by norm_num)]; rfl
  · unfold effSide; rw [hs1, if_pos rfl]
  · intro i hi
    rcases hc i hi with e | e | ⟨e1, e2⟩
    · left; exact e
    · right; right; rw [e]; linarith
    · right; right; linarith
  · intro i hi
    rcases hc i hi with e | e | ⟨e1, e2⟩
    · right; left; rw [e]; linarith
    · left; exact e
    · right; left; linarith

/-- `const_par_curve` of the model along `v = x` at an end `x` of the second direction, in `toTP` form. -/
theorem cpc_edge_v {s : Obj K} (hw : C06.WF s 2) (h0 : (s.basis 0).periodic = -1)
    (h1 : (s.basis 1).periodic = -1) (hcl : EndsClamped (s.basis 1)) {tol : K} (htol : 0 < tol) (x : K) (sd1 : Side)
    (hsep : C15.Separated (s.basis 1) tol x)
    (hx : (sd1 = .right ∧ x = (s.basis 1).start) ∨ (sd1 = .left ∧ x = (s.basis 1).stop)) :
    ∃ e : Obj K, s.constParCurve tol x (.inl 1) = .ok e ∧ e.basis 0 = s.basis 0 ∧ e.rational = s.rational
      ∧ C06.WF e 1 ∧ e.ncomp = s.ncomp
      ∧ ∀ comp, comp < s.ncomp → ∀ (sd : Side) (t : K),
          (toTP e 1 comp).eval (fun _ => sd) (fun _ => t) = (toTP s 2 comp).eval ![sd, sd1] ![t, x] := by
  have hss := surface_shape hw
  have hset : CpcSetup s (.inl 1) 1 tol x :=
    ⟨rfl, by rw [hw.size]; norm_num, by rw [hss]; simp, hw.valid 1, h1, by rw [hss]; rfl, htol, hsep⟩
  have hord : (s.basis 1).order - 1 + 1 = (s.basis 1).order := by have := hcl.pos; omega
  have hres : CpcResult s (.inl 1) 1 tol x sd1 := by
    rcases hx with ⟨rfl, hx⟩ | ⟨rfl, hx⟩
    · exact cpc_start s _ 1 tol x hset hx hcl.lo (by have := hcl.lo_lt; rw [hord] at this; exact this)
    · exact cpc_stop s _ 1 tol x hset hx hcl.hi hcl.hi_lt
  obtain ⟨e, c1, c2, c3, c4, _, c6⟩ := cpc_eval_dir1 s (.inl 1) tol x sd1 _ _ _ hss rfl hres
  have hb : e.basis 0 = s.basis 0 := by unfold Obj.basis; rw [c2]; rfl
  have hn : e.ncomp = s.ncomp := by unfold Obj.ncomp; rw [c4]; rfl
  have hwe : C06.WF e 1 := by
    refine ⟨by rw [c2]; rfl, fun d => ?_, ?_⟩
    · have hd : (d : ℕ) = 0 := by omega
      rw [hd, hb]; exact hw.valid 0
    · rw [c4, hn]
      simp [midx, List.ofFn_succ]
      rw [hb]
  refine ⟨e, c1, hb, c3, hwe, hn, fun comp hc sd t => ?_⟩
  rw [toTP_eval_curve hwe (by rw [hb]; exact h0), hb, hn, c6 comp hc, toTP_eval_surface hw h0 h1]
  unfold splineVal
  apply Finset.sum_congr rfl
  intro i _
  rw [Finset.sum_mul]
  apply Finset.sum_congr rfl
  intro k _
  simp only [Matrix.cons_val_zero, Matrix.cons_val_one]
  ring

/-- `const_par_curve` of the model along `u = x` at an end `x` of the first direction. -/
theorem cpc_edge_u {s : Obj K} (hw : C06.WF s 2) (h0 : (s.basis 0).periodic = -1)
    (h1 : (s.basis 1).periodic = -1) (hcl : EndsClamped (s.basis 0)) {tol : K} (htol : 0 < tol) (x : K) (sd0 : Side)
    (hsep : C15.Separated (s.basis 0) tol x)
    (hx : (sd0 = .right ∧ x = (s.basis 0).start) ∨ (sd0 = .left ∧ x = (s.basis 0).stop)) :
    ∃ e : Obj K, s.constParCurve tol x (.inl 0) = .ok e ∧ e.basis 0 = s.basis 1 ∧ e.rational = s.rational
      ∧ C06.WF e 1 ∧ e.ncomp = s.ncomp
      ∧ ∀ comp, comp < s.ncomp → ∀ (sd : Side) (t : K),
          (toTP e 1 comp).eval (fun _ => sd) (fun _ => t) = (toTP s 2 comp).eval ![sd0, sd] ![x, t] := by
  have hss := surface_shape hw
  have hset : CpcSetup s (.inl 0) 0 tol x :=
    ⟨rfl, by rw [hw.size]; norm_num, by rw [hss]; simp, hw.valid 0, h0, by rw [hss]; rfl, htol, hsep⟩
  have hord : (s.basis 0).order - 1 + 1 = (s.basis 0).order := by have := hcl.pos; omega
  have hres : CpcResult s (.inl 0) 0 tol x sd0 := by
    rcases hx with ⟨rfl, hx⟩ | ⟨rfl, hx⟩
    · exact cpc_start s _ 0 tol x hset hx hcl.lo (by have := hcl.lo_lt; rw [hord] at this; exact this)
    · exact cpc_stop s _ 0 tol x hset hx hcl.hi hcl.hi_lt
  obtain ⟨e, c1, c2, c3, c4, _, c6⟩ := cpc_eval_dir0 s (.inl 0) tol x sd0 _ _ _ hss rfl hres
  have hb : e.basis 0 = s.basis 1 := by unfold Obj.basis; rw [c2]; rfl
  have hn : e.ncomp = s.ncomp := by unfold Obj.ncomp; rw [c4]; rfl
  have hwe : C06.WF e 1 := by
    refine ⟨by rw [c2]; rfl, fun d => ?_, ?_⟩
    · have hd : (d : ℕ) = 0 := by omega
      rw [hd, hb]; exact hw.valid 1
    · rw [c4, hn]
      simp [midx, List.ofFn_succ]
      rw [hb]
  refine ⟨e, c1, hb, c3, hwe, hn, fun comp hc sd t => ?_⟩
  rw [toTP_eval_curve hwe (by rw [hb]; exact h1), hb, hn, c6 comp hc, toTP_eval_surface hw h0 h1]
  unfold splineVal
  apply Finset.sum_congr rfl
  intro i _
  rw [Finset.sum_mul]
  apply Finset.sum_congr rfl
  intro k _
  simp only [Matrix.cons_val_zero, Matrix.cons_val_one]
  ring

end C15
end Splipy
