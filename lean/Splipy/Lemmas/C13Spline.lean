import Splipy.Lemmas.C13Bezier
import Mathlib.Data.List.GetD
import Splipy.Lemmas.C13Arc

/-!
# C13: the circle/arc nets as B-spline curves (spans in Bézier form)
-/

namespace Splipy.Fac

open Finset

variable {K : Type} [Field K] [LinearOrder K] [IsStrictOrderedRing K]

/-- component `comp` of control point `i` (indices wrap modulo the number of control points, as
    the periodic evaluation does; for `i` below the length this is plain indexing). -/
def netComp (net : List (Pt K)) (comp : ℕ) (i : ℕ) : K :=
  (net.getD (i % net.length) []).getD comp 0

omit [IsStrictOrderedRing K] in
theorem splineVal_congr_knots (s : Side) (τ σ : ℕ → K) (q n : ℕ) (c : ℕ → K) (t : K)
    (h : ∀ k, k < n + q + 1 → τ k = σ k) : splineVal s τ q n c t = splineVal s σ q n c t := by
  unfold splineVal
  apply sum_congr rfl
  intro i hi
  have := mem_range.mp hi
  rw [B_congr_knots s τ σ q i i t (fun j hj => h (i+j) (by omega))]

omit [IsStrictOrderedRing K] in
/-- sum of the three contributions of a quadratic Bézier span. -/
theorem splineVal_bezier2 (s : Side) (τ : ℕ → K) (hτ : Monotone τ) (i n : ℕ) (c : ℕ → K) (a b t : K)
    (hab : a < b) (h1 : τ (i+1) = a) (h2 : τ (i+2) = a) (h3 : τ (i+3) = b) (h4 : τ (i+4) = b)
    (h : s.mem a b t) (hn : i + 2 < n) :
    splineVal s τ 2 n c t = bern2 (c i) (c (i+1)) (c (i+2)) ((t - a) / (b - a)) := by
  have hmem : s.mem (τ (i+2)) (τ (i+2+1)) t := by rw [h2, h3]; exact h
  obtain ⟨e0, e1, e2⟩ := B2_bezier s τ hτ i a b t hab h1 h2 h3 h4 h
  rw [splineVal_span s τ hτ 2 i n c t hmem hn]
  simp only [sum_range_succ, sum_range_zero, zero_add, Nat.add_zero, e0, e1, e2, bern2]
  ring

/-- sum of the five contributions of a quartic span with triple knots. -/
theorem splineVal_triple4 (s : Side) (τ : ℕ → K) (hτ : Monotone τ) (i n : ℕ) (c : ℕ → K) (a h t : K)
    (hh : 0 < h)
    (k1 : τ (i+1) = a - h) (k2 : τ (i+2) = a) (k3 : τ (i+3) = a) (k4 : τ (i+4) = a)
    (k5 : τ (i+5) = a + h) (k6 : τ (i+6) = a + h) (k7 : τ (i+7) = a + h) (k8 : τ (i+8) = a + 2 * h)
    (hm : s.mem a (a + h) t) (hn : i + 4 < n) :
    splineVal s τ 4 n c t =
      bern4 ((c i + c (i+1)) / 2) (c (i+1)) (c (i+2)) (c (i+3)) ((c (i+3) + c (i+4)) / 2) ((t - a) / h) := by
  have hmem : s.mem (τ (i+4)) (τ (i+4+1)) t := by rw [k4, k5]; exact hm
  obtain ⟨e0, e1, e2, e3, e4⟩ := B4_triple s τ hτ i a h t hh k1 k2 k3 k4 k5 k6 k7 k8 hm
  rw [splineVal_span s τ hτ 4 i n c t hmem hn]
  simp only [sum_range_succ, sum_range_zero, zero_add, Nat.add_zero, e0, e1, e2, e3, e4, bern4]
  ring

/-! ## knot sequences of the factories as functions -/

/-- `[-1,-1,0,0,0,1,1,1,…]·h`. -/
def p4Knot (h : K) (i : ℕ) : K := h * ((((i + 1) / 3 : ℕ) : K) - 1)

/-- `[-1,0,0,1,1,2,2,…]·h`. -/
def p2Knot (h : K) (i : ℕ) : K := h * ((((i + 1) / 2 : ℕ) : K) - 1)

theorem p4Knot_mono (h : K) (hh : 0 < h) : Monotone (p4Knot h) := by
  intro i j hij
  unfold p4Knot
  have : (i + 1) / 3 ≤ (j + 1) / 3 := Nat.div_le_div_right (by omega)
  have hc : (((i + 1) / 3 : ℕ) : K) ≤ (((j + 1) / 3 : ℕ) : K) := by exact_mod_cast this
  nlinarith

theorem p2Knot_mono (h : K) (hh : 0 < h) : Monotone (p2Knot h) := by
  intro i j hij
  unfold p2Knot
  have : (i + 1) / 2 ≤ (j + 1) / 2 := Nat.div_le_div_right (by omega)
  have hc : (((i + 1) / 2 : ℕ) : K) ≤ (((j + 1) / 2 : ℕ) : K) := by exact_mod_cast this
  nlinarith

theorem kn_circleP4 (pi : K) (i : ℕ) (hi : i < 19) :
    ({ order := 5, knots := (circleKnotsP4 pi).toArray, periodic := 1 } : Basis K).kn i
      = p4Knot (pi / 2) i := by
  interval_cases i <;> simp [Basis.kn, circleKnotsP4, p4Knot] <;> ring

theorem kn_circleP2 (pi : K) (i : ℕ) (hi : i < 12) :
    ({ order := 3, knots := (circleKnotsP2 pi).toArray, periodic := 0 } : Basis K).kn i
      = p2Knot (pi / 2) i := by
  interval_cases i <;> simp [Basis.kn, circleKnotsP2, p2Knot] <;> ring

theorem pairs_flatten (n : ℕ) :
    ((List.range (n+1)).map (fun i => [i, i])).flatten = (List.range (2*n+2)).map (· / 2) := by
  induction n with
  | zero => rfl
  | succ n ih =>
    rw [List.range_succ (n := n+1), List.map_append, List.flatten_append, ih]
    have e : 2 * (n + 1) + 2 = (2 * n + 2) + 1 + 1 := by ring
    rw [e, List.range_succ (n := 2*n+2+1), List.range_succ (n := 2*n+2), List.map_append, List.map_append]
    simp
    omega

theorem arcInts_eq (n : ℕ) :
    arcInts n = (List.range (2*n+4)).map (fun i => min n ((i - 1) / 2)) := by
  unfold arcInts
  rw [pairs_flatten]
  apply List.ext_getElem?
  intro i
  cases i with
  | zero => simp
  | succ k =>
    have hl : ([0] ++ List.map (fun x => x / 2) (List.range (2 * n + 2)) ++ [n])[k+1]?
        = (List.map (fun x => x / 2) (List.range (2 * n + 2)) ++ [n])[k]? := by
      simp
    rw [hl]
    rcases lt_trichotomy k (2*n+2) with h | h | h
    · rw [List.getElem?_append_left (by simpa using h)]
      have h' : k + 1 < 2 * n + 4 := by omega
      simp [h, h']
      omega
    · subst h
      rw [List.getElem?_append_right (by simp)]
      simp
    · rw [List.getElem?_append_right (by simp; omega)]
      have h' : ¬ (k + 1 < 2 * n + 4) := by omega
      have h'' : k - (2 * n + 2) ≠ 0 := by omega
      simp [h', h'']

/-- knot `i` of `circle_segment`: `min(n, (i−1)/2) / n · θ`. -/
def arcKnotFn (theta : K) (n i : ℕ) : K := ((min n ((i - 1) / 2) : ℕ) : K) / (n : K) * theta

theorem arcKnotFn_mono (theta : K) (n : ℕ) (hn : 0 < n) (hθ : 0 < theta) : Monotone (arcKnotFn theta n) := by
  intro i j hij
  unfold arcKnotFn
  have h1 : min n ((i - 1) / 2) ≤ min n ((j - 1) / 2) :=
    min_le_min_left n (Nat.div_le_div_right (by omega))
  have hc : ((min n ((i - 1) / 2) : ℕ) : K) ≤ ((min n ((j - 1) / 2) : ℕ) : K) := by exact_mod_cast h1
  have hn' : (0 : K) < n := by exact_mod_cast hn
  apply mul_le_mul_of_nonneg_right _ (le_of_lt hθ)
  exact div_le_div_of_nonneg_right hc (le_of_lt hn')

theorem kn_arc (theta : K) (n i : ℕ) (hi : i < 2 * n + 4) :
    ({ order := 3, knots := (arcKnots theta n).toArray, periodic := -1 } : Basis K).kn i
      = arcKnotFn theta n i := by
  simp only [Basis.kn, arcKnots, arcInts_eq, arcKnotFn]
  simp [hi]

omit [LinearOrder K] [IsStrictOrderedRing K] in
theorem netComp_arc (r cd sd : K) (n i : ℕ) (hi : i < 2 * n + 1) :
    netComp (arcNet r cd sd n) 0 i = arcX r cd sd i ∧
    netComp (arcNet r cd sd n) 1 i = arcY r cd sd i ∧
    netComp (arcNet r cd sd n) 2 i = arcW cd i := by
  have h := arcNet_getElem? r cd sd n i hi
  simp only [netComp, arcNet_length, Nat.mod_eq_of_lt hi, List.getD_eq_getElem?_getD, h]
  simp

omit [LinearOrder K] [IsStrictOrderedRing K] in
theorem bern4_negA (a b u : K) : (bern4 0 (-a) (-b) (-1) (-1) u) ^ 2 = (bern4 0 a b 1 1 u) ^ 2 := by
  unfold bern4; ring

omit [LinearOrder K] [IsStrictOrderedRing K] in
theorem bern4_negB (a b u : K) : (bern4 (-1) (-1) (-b) (-a) 0 u) ^ 2 = (bern4 1 1 b a 0 u) ^ 2 := by
  unfold bern4; ring


/-- knot `i` of `circle_segment` for `θ < 0` (`np.flip(knot)`): `arcKnotFn` read backwards. -/
def arcKnotRev (theta : K) (n i : ℕ) : K := arcKnotFn theta n (2 * n + 3 - i)

theorem arcKnotRev_mono (theta : K) (n : ℕ) (hn : 0 < n) (hθ : theta < 0) : Monotone (arcKnotRev theta n) := by
  intro i j hij
  unfold arcKnotRev arcKnotFn
  have h1 : min n ((2 * n + 3 - j - 1) / 2) ≤ min n ((2 * n + 3 - i - 1) / 2) :=
    min_le_min_left n (Nat.div_le_div_right (by omega))
  have hc : ((min n ((2 * n + 3 - j - 1) / 2) : ℕ) : K) ≤ ((min n ((2 * n + 3 - i - 1) / 2) : ℕ) : K) := by
    exact_mod_cast h1
  have hn' : (0 : K) < n := by exact_mod_cast hn
  have := div_le_div_of_nonneg_right hc (le_of_lt hn')
  nlinarith

theorem kn_arc_rev (theta : K) (n i : ℕ) (hi : i < 2 * n + 4) :
    ({ order := 3, knots := (arcKnots theta n).reverse.toArray, periodic := -1 } : Basis K).kn i
      = arcKnotRev theta n i := by
  have hlen : (arcKnots theta n).length = 2 * n + 4 := by simp [arcKnots, arcInts_eq]
  have hg : ∀ j, j < 2 * n + 4 → (arcKnots theta n).getD j 0 = arcKnotFn theta n j := by
    intro j hj
    simp [arcKnots, arcInts_eq, arcKnotFn, hj]
  unfold Basis.kn arcKnotRev
  simp only [List.size_toArray, List.length_reverse, hlen]
  rw [← hg (2 * n + 3 - i) (by omega)]
  have hi' : i < (arcKnots theta n).reverse.length := by rw [List.length_reverse, hlen]; exact hi
  have hj' : 2 * n + 3 - i < (arcKnots theta n).length := by rw [hlen]; omega
  rw [Array.getD_eq_getD_getElem?, List.getElem?_toArray, List.getElem?_eq_getElem hi', Option.getD_some,
    List.getElem_reverse, List.getD_eq_getElem _ _ hj']
  congr 1
  rw [hlen]; omega

omit [LinearOrder K] [IsStrictOrderedRing K] in
theorem netComp_arc_rev (r cd sd : K) (n i : ℕ) (hi : i < 2 * n + 1) :
    netComp (arcNet r cd sd n).reverse 0 i = arcX r cd sd (2 * n - i) ∧
    netComp (arcNet r cd sd n).reverse 1 i = arcY r cd sd (2 * n - i) ∧
    netComp (arcNet r cd sd n).reverse 2 i = arcW cd (2 * n - i) := by
  have h := arcNet_getElem? r cd sd n (2 * n - i) (by omega)
  have hl := arcNet_length r cd sd n
  have hg : (arcNet r cd sd n).reverse.getD i [] = [arcX r cd sd (2 * n - i), arcY r cd sd (2 * n - i), arcW cd (2 * n - i)] := by
    rw [List.getD_eq_getElem?_getD, List.getElem?_reverse (by rw [hl]; exact hi), hl]
    have : 2 * n + 1 - 1 - i = 2 * n - i := by omega
    rw [this, h]; rfl
  simp only [netComp, List.length_reverse, hl, Nat.mod_eq_of_lt hi, hg]
  simp

omit [LinearOrder K] [IsStrictOrderedRing K] in
theorem bern2_rev (p0 p1 p2 u : K) : bern2 p2 p1 p0 u = bern2 p0 p1 p2 (1 - u) := by
  unfold bern2; ring


end Splipy.Fac
