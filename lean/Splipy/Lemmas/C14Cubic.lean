import Splipy.Lemmas.C10Cummax
import Splipy.Lemmas.C14Interp
set_option linter.unusedSimpArgs false
set_option linter.unusedSectionVars false

/-!
# C14 helper lemmas: the system assembled by `cubic_curve`
-/

namespace Splipy
open Finset

variable {K : Type} [Field K] [LinearOrder K] [FloorRing K]

omit [FloorRing K] in
/-- A successful constructor call returns the given data (periodicity clipped at −1, the knots as their running
    maximum — the knots themselves when they are sorted, `Basis.cummax_of_pairwise`). -/
theorem Basis.mk?_ok_c14 (order : ℕ) (knots : Array K) (periodic : Int) (tol : K) (b : Basis K)
    (h : Basis.mk? order knots periodic tol = .ok b) :
    b.order = order ∧ b.knots = Basis.cummax knots ∧ b.periodic = max periodic (-1) ∧ 2 * order ≤ knots.size := by
  unfold Basis.mk? at h
  simp only at h
  split at h
  · exact absurd h (by simp)
  · split at h
    · exact absurd h (by simp)
    · rename_i hn
      split at h
      · exact absurd h (by simp)
      · split at h
        · exact absurd h (by simp)
        · split at h
          · exact absurd h (by simp)
          · cases h; exact ⟨rfl, rfl, rfl, by omega⟩

namespace Mat
omit [LinearOrder K] [FloorRing K] in
theorem get_append_left_c14 (A B : Mat K) (i l : ℕ) (hi : i < A.size) : (A ++ B).get i l = A.get i l := by
  unfold Mat.get
  congr 1
  simp [Array.getD, hi, Nat.lt_add_right, Array.getElem_append_left]

omit [LinearOrder K] [FloorRing K] in
theorem get_append_right_c14 (A B : Mat K) (i l : ℕ) : (A ++ B).get (A.size + i) l = B.get i l := by
  unfold Mat.get
  congr 1
  by_cases hi : i < B.size
  · simp [Array.getD, hi, Array.getElem_append_right]
  · simp [Array.getD, hi]
end Mat

namespace Interp

/-- Structure of a successful `cubicSystem`. -/
theorem cubicSystem_ok (bd : ℕ) (tol rt atl : K) (x : Mat K) (t : List K) (tg : Option (Mat K))
    (basis : Basis K) (N rhs : Mat K) (h : cubicSystem bd tol rt atl x t tg = .ok (basis, N, rhs)) :
    t.length = (cubicClose bd rt atl x).size ∧
    ∃ knot eN eR, cubicKnots bd t = .ok knot ∧
      Basis.mk? 4 knot.toArray (if bd = bPERIODIC then 2 else -1) tol = .ok basis ∧
      cubicExtra bd basis tol (if bd = bPERIODIC then t.dropLast else t)
        (((if bd = bPERIODIC then (cubicClose bd rt atl x).pop else cubicClose bd rt atl x).getD 0 #[]).size) tg
          = .ok (eN, eR) ∧
      N = colloc basis tol (if bd = bPERIODIC then t.dropLast else t) 0 ++ eN ∧
      rhs = (if bd = bPERIODIC then (cubicClose bd rt atl x).pop else cubicClose bd rt atl x) ++ eR := by
  unfold cubicSystem at h
  simp only [bind, Except.bind, pure, Except.pure] at h
  split at h
  · exact absurd h (by simp [throw, throwThe, MonadExceptOf.throw])
  · rename_i hlen
    split at h
    · exact absurd h (by simp)
    · rename_i knot hknot
      split at h
      · exact absurd h (by simp)
      · rename_i b hb
        split at h
        · exact absurd h (by simp)
        · rename_i e he
          obtain ⟨eN, eR⟩ := e
          simp only [Except.ok.injEq, Prod.mk.injEq] at h
          obtain ⟨h1, h2, h3⟩ := h
          subst h1
          exact ⟨by simpa using hlen, knot, eN, eR, hknot, hb, he, h2.symm, h3.symm⟩


/-! ### Knot count -/

omit [Field K] [FloorRing K] in
theorem length_insertK (a : K) (l : List K) : (insertK a l).length = l.length + 1 := by
  induction l with
  | nil => rfl
  | cons b l ih =>
    unfold insertK
    split
    · simp
    · simp [ih]

omit [Field K] [FloorRing K] in
theorem length_sortK (l : List K) : (sortK l).length = l.length := by
  induction l with
  | nil => rfl
  | cons a l ih => unfold sortK at *; simp only [List.foldr_cons, length_insertK, ih, List.length_cons]


omit [Field K] [LinearOrder K] [FloorRing K] in
theorem pyIdx_lt {len : ℕ} {i : Int} {j : ℕ} (h : pyIdx len i = .ok j) : j < len := by
  unfold pyIdx at h
  split at h
  · cases h; omega
  · split at h
    · cases h; omega
    · exact absurd h (by simp)

omit [LinearOrder K] [FloorRing K] in
theorem pySet_length {l l' : List K} {i : Int} {v : K} (h : pySet l i v = .ok l') : l'.length = l.length := by
  unfold pySet at h
  simp only [bind, Except.bind, pure, Except.pure] at h
  split at h
  · exact absurd h (by simp)
  · cases h; simp

omit [LinearOrder K] [FloorRing K] in
theorem pyDel_length {l l' : List K} {i : Int} (h : pyDel l i = .ok l') : l'.length + 1 = l.length := by
  unfold pyDel at h
  simp only [bind, Except.bind, pure, Except.pure] at h
  split at h
  · exact absurd h (by simp)
  · rename_i j hj
    cases h
    have := pyIdx_lt hj
    rw [List.length_eraseIdx_of_lt this]
    omega

omit [LinearOrder K] [FloorRing K] in
theorem pySetMany_length (as : List (Int × K)) {l l' : List K} (h : pySetMany l as = .ok l') :
    l'.length = l.length := by
  induction as generalizing l with
  | nil => unfold pySetMany at h; simp [List.foldlM, pure, Except.pure] at h; rw [h]
  | cons a as ih =>
    unfold pySetMany at h
    simp only [List.foldlM, bind, Except.bind] at h
    split at h
    · exact absurd h (by simp)
    · rename_i l1 h1
      have := ih (l := l1) h
      rw [this, pySet_length h1]

omit [LinearOrder K] [FloorRing K] in
theorem pyGet_ok {l : List K} {i : Int} {v : K} (h : pyGet l i = .ok v) : ∃ j, pyIdx l.length i = .ok j := by
  unfold pyGet at h
  simp only [bind, Except.bind, pure, Except.pure] at h
  split at h
  · exact absurd h (by simp)
  · rename_i j hj; exact ⟨j, hj⟩

/-! ### Python list indexing on concrete positions -/

theorem pyIdx_nat (len n : ℕ) (h : n < len) : pyIdx len (n : Int) = .ok n := by
  unfold pyIdx
  have : (0 : Int) ≤ n ∧ (n : Int) < len := by constructor <;> omega
  simp [this]

theorem pyIdx_neg (len k : ℕ) (hk : 0 < k) (h : k ≤ len) : pyIdx len (-(k : Int)) = .ok (len - k) := by
  unfold pyIdx
  have h1 : ¬ ((0 : Int) ≤ -(k : Int) ∧ -(k : Int) < len) := by omega
  have h2 : -(k : Int) < 0 ∧ -(len : Int) ≤ -(k : Int) := by constructor <;> omega
  simp only [h1, h2, and_self, if_true, if_false]
  congr 1
  omega

theorem pyGet_nat (l : List K) (n : ℕ) (h : n < l.length) : pyGet l (n : Int) = .ok (l.getD n 0) := by
  unfold pyGet
  simp [pyIdx_nat _ _ h, bind, Except.bind, pure, Except.pure]

theorem pyGet_neg (l : List K) (k : ℕ) (hk : 0 < k) (h : k ≤ l.length) :
    pyGet l (-(k : Int)) = .ok (l.getD (l.length - k) 0) := by
  unfold pyGet
  simp [pyIdx_neg _ _ hk h, bind, Except.bind, pure, Except.pure]

theorem pyDel_nat (l : List K) (n : ℕ) (h : n < l.length) : pyDel l (n : Int) = .ok (l.eraseIdx n) := by
  unfold pyDel
  simp [pyIdx_nat _ _ h, bind, Except.bind, pure, Except.pure]

theorem pyDel_neg (l : List K) (k : ℕ) (hk : 0 < k) (h : k ≤ l.length) :
    pyDel l (-(k : Int)) = .ok (l.eraseIdx (l.length - k)) := by
  unfold pyDel
  simp [pyIdx_neg _ _ hk h, bind, Except.bind, pure, Except.pure]

/-- Number of knots `cubic_curve` produces, as a function of the number of parameters `n = len(t)`:
    `n + 6`, minus 2 for `FREE`, plus the `n − 2` doubled interior knots for `HERMITE`. -/
theorem cubicKnots_length (bd : ℕ) (t knot : List K) (h : cubicKnots bd t = .ok knot) :
    knot.length + (if bd = bFREE then 2 else 0) = t.length + 6 + (if bd = bHERMITE then t.length - 2 else 0) := by
  unfold cubicKnots at h
  simp only [bind, Except.bind, pure, Except.pure] at h
  split at h
  · exact absurd h (by simp)
  · split at h
    · exact absurd h (by simp)
    · rename_i t0 _ _ tn _
      have hk : (List.replicate 3 t0 ++ t ++ List.replicate 3 tn).length = t.length + 6 := by
        simp only [List.length_append, List.length_replicate]; omega
      by_cases hF : bd = bFREE
      · simp only [hF, if_true] at h
        split at h
        · exact absurd h (by simp)
        · rename_i k1 hk1
          have e1 := pyDel_length hk1
          have e2 := pyDel_length h
          have : bFREE ≠ bHERMITE := by decide
          simp only [hF, this, if_true, if_false]
          omega
      · simp only [hF, if_false] at h
        by_cases hH : bd = bHERMITE
        · simp only [hH, if_true] at h
          cases h
          have hne : bHERMITE ≠ bFREE := by decide
          simp only [hH, hne, if_true, if_false, length_sortK, List.length_append, List.length_dropLast,
            List.length_drop, List.length_replicate]
          omega
        · simp only [hH, if_false] at h
          by_cases hP : bd = bPERIODIC
          · simp only [hP, if_true] at h
            split at h; · exact absurd h (by simp)
            split at h; · exact absurd h (by simp)
            split at h; · exact absurd h (by simp)
            split at h; · exact absurd h (by simp)
            split at h; · exact absurd h (by simp)
            split at h; · exact absurd h (by simp)
            have := pySetMany_length _ h
            simp only [hF, hH, if_false]
            omega
          · simp only [hP, if_false] at h
            cases h
            simp only [hF, hH, if_false]
            omega

/-! ### The extra (end-condition) rows per boundary type -/

theorem cubicExtra_FREE (basis : Basis K) (tol : K) (t : List K) (dim : ℕ) (tg : Option (Mat K)) (eN eR : Mat K)
    (h : cubicExtra bFREE basis tol t dim tg = .ok (eN, eR)) : eN = #[] ∧ eR = #[] := by
  unfold cubicExtra at h
  simp only [bFREE, bPERIODIC, bTANGENT, bHERMITE, bTANGENTNATURAL, bNATURAL, bind, Except.bind, pure, Except.pure,
    throw, throwThe, MonadExceptOf.throw] at h
  simp only [Nat.reduceEqDiff, or_false, or_true, true_or, if_true, if_false] at h
  simp only [Except.ok.injEq, Prod.mk.injEq] at h
  exact ⟨h.1.symm, h.2.symm⟩

theorem cubicExtra_PERIODIC (basis : Basis K) (tol : K) (t : List K) (dim : ℕ) (tg : Option (Mat K)) (eN eR : Mat K)
    (h : cubicExtra bPERIODIC basis tol t dim tg = .ok (eN, eR)) : eN = #[] ∧ eR = #[] := by
  unfold cubicExtra at h
  simp only [bFREE, bPERIODIC, bTANGENT, bHERMITE, bTANGENTNATURAL, bNATURAL, bind, Except.bind, pure, Except.pure,
    throw, throwThe, MonadExceptOf.throw] at h
  simp only [Nat.reduceEqDiff, or_false, or_true, true_or, if_true, if_false] at h
  simp only [Except.ok.injEq, Prod.mk.injEq] at h
  exact ⟨h.1.symm, h.2.symm⟩

theorem cubicExtra_NATURAL (basis : Basis K) (tol : K) (t : List K) (dim : ℕ) (tg : Option (Mat K)) (eN eR : Mat K)
    (h : cubicExtra bNATURAL basis tol t dim tg = .ok (eN, eR)) :
    eN = #[] ++ colloc basis tol [t.headD 0, t.getLastD 0] 2 ∧
    eR = #[] ++ Array.replicate 2 (Array.replicate dim 0) := by
  unfold cubicExtra at h
  simp only [bFREE, bPERIODIC, bTANGENT, bHERMITE, bTANGENTNATURAL, bNATURAL, bind, Except.bind, pure, Except.pure,
    throw, throwThe, MonadExceptOf.throw] at h
  simp only [Nat.reduceEqDiff, or_false, or_true, true_or, if_true, if_false] at h
  simp only [Except.ok.injEq, Prod.mk.injEq] at h
  exact ⟨h.1.symm, h.2.symm⟩

theorem cubicExtra_TANGENT (basis : Basis K) (tol : K) (t : List K) (dim : ℕ) (tg : Option (Mat K)) (eN eR : Mat K)
    (h : cubicExtra bTANGENT basis tol t dim tg = .ok (eN, eR)) :
    ∃ g, tg = some g ∧ eN = colloc basis tol [t.headD 0, t.getLastD 0] 1 ∧ eR = g := by
  unfold cubicExtra at h
  simp only [bFREE, bPERIODIC, bTANGENT, bHERMITE, bTANGENTNATURAL, bNATURAL, bind, Except.bind, pure, Except.pure,
    throw, throwThe, MonadExceptOf.throw] at h
  simp only [Nat.reduceEqDiff, or_false, or_true, true_or, if_true, if_false] at h
  split at h
  · exact absurd h (by simp)
  · rename_i g
    split at h
    · exact absurd h (by simp)
    · simp only [Except.ok.injEq, Prod.mk.injEq] at h
      obtain ⟨h1, h2⟩ := h
      exact ⟨g, rfl, h1.symm, h2.symm⟩

theorem cubicExtra_HERMITE (basis : Basis K) (tol : K) (t : List K) (dim : ℕ) (tg : Option (Mat K)) (eN eR : Mat K)
    (h : cubicExtra bHERMITE basis tol t dim tg = .ok (eN, eR)) :
    ∃ g, tg = some g ∧ eN = colloc basis tol t 1 ∧ eR = g := by
  unfold cubicExtra at h
  simp only [bFREE, bPERIODIC, bTANGENT, bHERMITE, bTANGENTNATURAL, bNATURAL, bind, Except.bind, pure, Except.pure,
    throw, throwThe, MonadExceptOf.throw] at h
  simp only [Nat.reduceEqDiff, or_false, or_true, true_or, if_true, if_false] at h
  split at h
  · exact absurd h (by simp)
  · rename_i g
    split at h
    · exact absurd h (by simp)
    · simp only [Except.ok.injEq, Prod.mk.injEq] at h
      obtain ⟨h1, h2⟩ := h
      exact ⟨g, rfl, h1.symm, h2.symm⟩

theorem cubicExtra_TANGENTNATURAL (basis : Basis K) (tol : K) (t : List K) (dim : ℕ) (tg : Option (Mat K))
    (eN eR : Mat K) (h : cubicExtra bTANGENTNATURAL basis tol t dim tg = .ok (eN, eR)) :
    ∃ g, tg = some g ∧ eN = colloc basis tol [t.headD 0] 1 ++ colloc basis tol [t.getLastD 0] 2 ∧
      eR = g ++ Array.replicate 1 (Array.replicate dim 0) := by
  unfold cubicExtra at h
  simp only [bFREE, bPERIODIC, bTANGENT, bHERMITE, bTANGENTNATURAL, bNATURAL, bind, Except.bind, pure, Except.pure,
    throw, throwThe, MonadExceptOf.throw] at h
  simp only [Nat.reduceEqDiff, or_false, or_true, true_or, if_true, if_false] at h
  split at h
  · exact absurd h (by simp)
  · rename_i g
    split at h
    · exact absurd h (by simp)
    · simp only [Except.ok.injEq, Prod.mk.injEq] at h
      obtain ⟨h1, h2⟩ := h
      exact ⟨g, rfl, h1.symm, h2.symm⟩

end Interp
end Splipy
