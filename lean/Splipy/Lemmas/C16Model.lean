import Splipy.Model.Measure
import Splipy.Lemmas.C16Integral

/-!
# C16: the model's `integrate` entry is `intF(t1) − intF(t0)`

`Basis.integrateEntry` is the expression `(knot[i+p]-knot[i])*1.0/p * np.sum(N1[i:]-N0[i:])` of
`BSplineBasis.integrate` as the executable model runs it (array reads, a left fold).  Whenever the
two evaluated rows hold the values of the order-`p+1` B-splines on the extended knots — which is
what `Properties/C01.lean` (`C01_value_deriv_open`, applied to the extended basis) proves about
`Basis.evaluate` — the entry is the difference of the spec-level function `intF`.
-/

namespace Splipy

variable {K : Type} [Field K]

/-- A left fold adding `f j` over `List.range' i n` is the `Finset.Ico` sum. -/
theorem foldl_range'_add (f : ℕ → K) (i n : ℕ) (a : K) :
    (List.range' i n).foldl (fun acc j => acc + f j) a = a + ∑ j ∈ Finset.Ico i (i+n), f j := by
  induction n generalizing i a with
  | zero => simp
  | succ n ih =>
    rw [List.range'_succ, List.foldl_cons, ih]
    have e : i + 1 + n = i + (n + 1) := by omega
    rw [e, Finset.sum_eq_sum_Ico_succ_bot (by omega : i < i + (n+1))]
    ring

variable [LinearOrder K]

/-- **Model ↔ spec for one entry of `integrate`.**  `τ` reads the extended knot array, the rows
`N0`, `N1` (`m = N0.size` entries used) hold `B_{j,q+1}(t0)` resp. `B_{j,q+1}(t1)` (sides `s0`, `s1`): then the
model's entry number `i` is `intF s1 τ q m i t1 − intF s0 τ q m i t0`. -/
theorem integrateEntry_eq_intF (knot : Array K) (τ : ℕ → K) (q : ℕ) (N0 N1 : Array K) (i : ℕ)
    (hi : i ≤ N0.size)
    (hk0 : knot.getD i 0 = τ i) (hk1 : knot.getD (i + (q+1)) 0 = τ (i+q+1))
    (s0 s1 : Side) (t0 t1 : K)
    (h0 : ∀ j, j < N0.size → N0.getD j 0 = B s0 τ (q+1) j t0)
    (h1 : ∀ j, j < N0.size → N1.getD j 0 = B s1 τ (q+1) j t1) :
    Basis.integrateEntry knot (q+1) N0 N1 i
      = intF s1 τ q N0.size i t1 - intF s0 τ q N0.size i t0 := by
  unfold Basis.integrateEntry intF
  rw [foldl_range'_add, zero_add, hk0, hk1]
  have e : i + (N0.size - i) = N0.size := by omega
  rw [e]
  have hs : ∑ j ∈ Finset.Ico i N0.size, (N1.getD j 0 - N0.getD j 0)
      = ∑ j ∈ Finset.Ico i N0.size, B s1 τ (q+1) j t1 - ∑ j ∈ Finset.Ico i N0.size, B s0 τ (q+1) j t0 := by
    rw [← Finset.sum_sub_distrib]
    apply Finset.sum_congr rfl
    intro j hj
    rw [Finset.mem_Ico] at hj
    rw [h0 j hj.2, h1 j hj.2]
  rw [hs]
  push_cast
  ring

end Splipy
