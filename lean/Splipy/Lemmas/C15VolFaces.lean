import Splipy.Lemmas.C15SixF

/-!
# The six face sections of a volume of the model, as surfaces
-/

set_option linter.unusedSectionVars false

namespace Splipy
namespace C15

open C06 C12 Obj Basis Finset Tensor Sections

variable {K : Type} [Field K] [LinearOrder K] [IsStrictOrderedRing K] [FloorRing K]

theorem getIdx_quad (t : Tensor K) (n0 n1 n2 nc i j k c : ℕ) (hs : t.shape = [n0, n1, n2, nc]) :
    t.getIdx [i, j, k, c] = t.get (((i * n1 + j) * n2 + k) * nc + c) := by
  unfold Tensor.getIdx
  rw [hs]
  simp [Tensor.ravel, Tensor.prod]
  ring_nf

/-! ## A volume with one direction at a parameter where one B-spline equals one -/

theorem volume_eval_fix2 {X : Obj K} (hw : C06.WF X 3) (hper : ∀ d : Fin 3, (X.basis d).periodic = -1)
    (comp : ℕ) (sd : Fin 3 → Side) (u : Fin 3 → K) (k2 : ℕ) (hk2 : k2 < (X.basis 2).numFunctions)
    (hδ : ∀ i, i < (X.basis 2).numFunctions →
      B (sd 2) (X.basis 2).kn ((X.basis 2).order - 1) i (u 2) = if i = k2 then 1 else 0) :
    (toTP X 3 comp).eval sd u
      = ∑ i ∈ range (X.basis 0).numFunctions, ∑ j ∈ range (X.basis 1).numFunctions,
          X.cps.get (((i * (X.basis 1).numFunctions + j) * (X.basis 2).numFunctions + k2) * X.ncomp + comp)
            * (B (sd 0) (X.basis 0).kn ((X.basis 0).order - 1) i (u 0)
              * B (sd 1) (X.basis 1).kn ((X.basis 1).order - 1) j (u 1)) := by
  rw [toTP_eval_volume hw hper]
  apply Finset.sum_congr rfl
  intro i _
  apply Finset.sum_congr rfl
  intro j _
  rw [Finset.sum_eq_single k2]
  · rw [hδ k2 hk2, if_pos rfl]; ring
  · intro k hk hkk
    rw [hδ k (mem_range.mp hk), if_neg hkk]; ring
  · intro h; exact absurd (mem_range.mpr hk2) h

theorem volume_eval_fix1 {X : Obj K} (hw : C06.WF X 3) (hper : ∀ d : Fin 3, (X.basis d).periodic = -1)
    (comp : ℕ) (sd : Fin 3 → Side) (u : Fin 3 → K) (k1 : ℕ) (hk1 : k1 < (X.basis 1).numFunctions)
    (hδ : ∀ i, i < (X.basis 1).numFunctions →
      B (sd 1) (X.basis 1).kn ((X.basis 1).order - 1) i (u 1) = if i = k1 then 1 else 0) :
    (toTP X 3 comp).eval sd u
      = ∑ i ∈ range (X.basis 0).numFunctions, ∑ k ∈ range (X.basis 2).numFunctions,
          X.cps.get (((i * (X.basis 1).numFunctions + k1) * (X.basis 2).numFunctions + k) * X.ncomp + comp)
            * (B (sd 0) (X.basis 0).kn ((X.basis 0).order - 1) i (u 0)
              * B (sd 2) (X.basis 2).kn ((X.basis 2).order - 1) k (u 2)) := by
  rw [toTP_eval_volume hw hper]
  apply Finset.sum_congr rfl
  intro i _
  rw [Finset.sum_eq_single k1]
  · apply Finset.sum_congr rfl
    intro k _
    rw [hδ k1 hk1, if_pos rfl]; ring
  · intro j hj hjk
    apply Finset.sum_eq_zero
    intro k _
    rw [hδ j (mem_range.mp hj), if_neg hjk]; ring
  · intro h; exact absurd (mem_range.mpr hk1) h

theorem volume_eval_fix0 {X : Obj K} (hw : C06.WF X 3) (hper : ∀ d : Fin 3, (X.basis d).periodic = -1)
    (comp : ℕ) (sd : Fin 3 → Side) (u : Fin 3 → K) (k0 : ℕ) (hk0 : k0 < (X.basis 0).numFunctions)
    (hδ : ∀ i, i < (X.basis 0).numFunctions →
      B (sd 0) (X.basis 0).kn ((X.basis 0).order - 1) i (u 0) = if i = k0 then 1 else 0) :
    (toTP X 3 comp).eval sd u
      = ∑ j ∈ range (X.basis 1).numFunctions, ∑ k ∈ range (X.basis 2).numFunctions,
          X.cps.get (((k0 * (X.basis 1).numFunctions + j) * (X.basis 2).numFunctions + k) * X.ncomp + comp)
            * (B (sd 1) (X.basis 1).kn ((X.basis 1).order - 1) j (u 1)
              * B (sd 2) (X.basis 2).kn ((X.basis 2).order - 1) k (u 2)) := by
  rw [toTP_eval_volume hw hper, Finset.sum_eq_single k0]
  · apply Finset.sum_congr rfl
    intro j _
    apply Finset.sum_congr rfl
    intro k _
    rw [hδ k0 hk0, if_pos rfl]; ring
  · intro i hi hik
    apply Finset.sum_eq_zero
    intro j _
    apply Finset.sum_eq_zero
    intro k _
    rw [hδ i (mem_range.mp hi), if_neg hik]; ring
  · intro h; exact absurd (mem_range.mpr hk0) h

/-- Packaging of a face section: a surface object `A` on the two free bases, well formed, of the
    volume's rationality and number of components, whose component maps are `F`. -/
def IsFaceOf (A : Obj K) (b0 b1 : Basis K) (rat : Bool) (nc : ℕ) (F : ℕ → Side → Side → K → K → K) : Prop :=
  A.bases = #[b0, b1] ∧ A.rational = rat ∧ C06.WF A 2 ∧ A.ncomp = nc
    ∧ ∀ comp, comp < nc → ∀ (s1 s2 : Side) (x y : K), (toTP A 2 comp).eval ![s1, s2] ![x, y] = F comp s1 s2 x y

/-- **The six face sections of a volume of the family** (`section(0 or -1, None, None)`, `section(None, 0 or -1, None)`,
    `section(None, None, 0 or -1)`): each returns a `Surface` on the two free bases whose map is the volume's map on
    that face. -/
theorem UnitVol.face_sections {tol : K} (htol : 0 < tol) {X : Obj K} {p : Fin 3 → ℕ} {U : Fin 3 → List K}
    {M : Fin 3 → List ℕ} {rat : Bool} {nc : ℕ} (h : UnitVol X p U M rat nc)
    (k : ∀ d, UnitKnots tol (p d) (U d) (M d)) (e : Bool) (unwrap : Bool) :
    (∃ A, X.sectionSel [endSel e, none, none] unwrap = .ok (.obj "Surface" A)
        ∧ IsFaceOf A (X.basis 1) (X.basis 2) rat nc
            (fun comp s1 s2 x y => (toTP X 3 comp).eval ![sideOf e, s1, s2] ![endOf e, x, y]))
    ∧ (∃ A, X.sectionSel [none, endSel e, none] unwrap = .ok (.obj "Surface" A)
        ∧ IsFaceOf A (X.basis 0) (X.basis 2) rat nc
            (fun comp s1 s2 x y => (toTP X 3 comp).eval ![s1, sideOf e, s2] ![x, endOf e, y]))
    ∧ (∃ A, X.sectionSel [none, none, endSel e] unwrap = .ok (.obj "Surface" A)
        ∧ IsFaceOf A (X.basis 0) (X.basis 1) rat nc
            (fun comp s1 s2 x y => (toTP X 3 comp).eval ![s1, s2, sideOf e] ![x, y, endOf e])) := by
  set n0 := (X.basis 0).numFunctions with hn0
  set n1 := (X.basis 1).numFunctions with hn1
  set n2 := (X.basis 2).numFunctions with hn2
  have hss : X.cps.shape = [n0, n1, n2, X.ncomp] := volume_shape h.wf
  have hper : ∀ d : Fin 3, (X.basis d).periodic = -1 := h.nonper
  have q0 : (X.basis 0).periodic = -1 := hper 0
  have q1 : (X.basis 1).periodic = -1 := hper 1
  have q2 : (X.basis 2).periodic = -1 := hper 2
  have p0 : 1 ≤ n0 := valid_numFunctions_pos (h.wf.valid 0)
  have p1 : 1 ≤ n1 := valid_numFunctions_pos (h.wf.valid 1)
  have p2 : 1 ≤ n2 := valid_numFunctions_pos (h.wf.valid 2)
  have b0 : X.basis 0 = unitBasis (p 0) (U 0) (M 0) := h.basis 0
  have b1 : X.basis 1 = unitBasis (p 1) (U 1) (M 1) := h.basis 1
  have b2 : X.basis 2 = unitBasis (p 2) (U 2) (M 2) := h.basis 2
  let D0 : Dir K := ⟨(X.basis 0).kn, (X.basis 0).order - 1, n0⟩
  let D1 : Dir K := ⟨(X.basis 1).kn, (X.basis 1).order - 1, n1⟩
  let D2 : Dir K := ⟨(X.basis 2).kn, (X.basis 2).order - 1, n2⟩
  let bs : BSel := if e then .hi else .lo
  have hbl : X.bases.toList = [X.basis 0, X.basis 1, X.basis 2] := bases_of_size_three h.wf.size
  have hnc := h.ncomp
  refine ⟨?_, ?_, ?_⟩
  · -- u-face
    let ds : List (Dir K × BSel) := [(D0, bs), (D1, .free), (D2, .free)]
    have hsel : selOf ds = [endSel e, none, none] := by cases e <;> rfl
    have hdims : dimsOf ds = [n0, n1, n2] := by cases e <;> rfl
    have hfix : FixedPos ds := by cases e <;> exact ⟨p0, trivial⟩
    obtain ⟨cps', g1, g2, g3⟩ := sectionSel_boundary X ds X.ncomp (by rw [hss, hdims]; rfl) hfix unwrap
    have hfree : freeDims (idxOf ds) (dimsOf ds) = [n1, n2] := by cases e <;> rfl
    have hfb : Obj.freeBases X.bases.toList (selOf ds) = [X.basis 1, X.basis 2] := by
      rw [hbl, hsel]; cases e <;> rfl
    have hcs : cps'.shape = [n1, n2, X.ncomp] := by rw [g1, hfree]; rfl
    obtain ⟨awf, anc⟩ := surface_wf_of (X.basis 1) (X.basis 2) (h.wf.valid 1) (h.wf.valid 2) cps' X.ncomp X.rational hcs
    refine ⟨{ bases := #[X.basis 1, X.basis 2], cps := cps', rational := X.rational }, ?_, rfl, h.rational, awf,
      anc.trans hnc, ?_⟩
    · rw [← hsel, g3, hfb]
      simp [Obj.className]
    · intro comp hc s1 s2 x y
      rw [← hnc] at hc
      rw [toTP_eval_surface awf q1 q2, anc]
      have hδ := volume_eval_fix0 h.wf hper comp ![sideOf e, s1, s2] ![endOf e, x, y] (endIdx n0 e) (endIdx_lt p0 e)
        (by intro i _; simp only [Matrix.cons_val_zero]; have hh := unit_delta htol (k 0) e i; rw [← b0] at hh; exact hh)
      simp only [Matrix.cons_val_zero, Matrix.cons_val_one, Matrix.cons_val_two, Matrix.tail_cons,
        Matrix.head_cons] at hδ ⊢
      rw [hδ]
      apply Finset.sum_congr rfl
      intro j hj
      apply Finset.sum_congr rfl
      intro kk hkk
      congr 1
      have hj' : j < n1 := mem_range.mp hj
      have hkk' : kk < n2 := mem_range.mp hkk
      have hr2 : Tensor.InRange [j, kk] [n1, n2] := List.Forall₂.cons hj' (List.Forall₂.cons hkk' List.Forall₂.nil)
      have ee := g2 [j, kk] comp (by rw [hfree]; exact hr2) hc
      show cps'.get ((j * n2 + kk) * X.ncomp + comp) = _
      rw [← getIdx_triple cps' n1 n2 X.ncomp j kk comp hcs]
      show cps'.getIdx ([j, kk] ++ [comp]) = _
      rw [ee]
      have e2 : secNet ds (fun full => X.cps.getIdx (full ++ [comp])) [j, kk]
          = X.cps.getIdx [endIdx n0 e, j, kk, comp] := by cases e <;> rfl
      rw [e2, getIdx_quad X.cps n0 n1 n2 X.ncomp _ j kk comp hss]
  · -- v-face
    let ds : List (Dir K × BSel) := [(D0, .free), (D1, bs), (D2, .free)]
    have hsel : selOf ds = [none, endSel e, none] := by cases e <;> rfl
    have hdims : dimsOf ds = [n0, n1, n2] := by cases e <;> rfl
    have hfix : FixedPos ds := by cases e <;> exact ⟨p1, trivial⟩
    obtain ⟨cps', g1, g2, g3⟩ := sectionSel_boundary X ds X.ncomp (by rw [hss, hdims]; rfl) hfix unwrap
    have hfree : freeDims (idxOf ds) (dimsOf ds) = [n0, n2] := by cases e <;> rfl
    have hfb : Obj.freeBases X.bases.toList (selOf ds) = [X.basis 0, X.basis 2] := by
      rw [hbl, hsel]; cases e <;> rfl
    have hcs : cps'.shape = [n0, n2, X.ncomp] := by rw [g1, hfree]; rfl
    obtain ⟨awf, anc⟩ := surface_wf_of (X.basis 0) (X.basis 2) (h.wf.valid 0) (h.wf.valid 2) cps' X.ncomp X.rational hcs
    refine ⟨{ bases := #[X.basis 0, X.basis 2], cps := cps', rational := X.rational }, ?_, rfl, h.rational, awf,
      anc.trans hnc, ?_⟩
    · rw [← hsel, g3, hfb]
      simp [Obj.className]
    · intro comp hc s1 s2 x y
      rw [← hnc] at hc
      rw [toTP_eval_surface awf q0 q2, anc]
      have hδ := volume_eval_fix1 h.wf hper comp ![s1, sideOf e, s2] ![x, endOf e, y] (endIdx n1 e) (endIdx_lt p1 e)
        (by intro i _; simp only [Matrix.cons_val_one]; have hh := unit_delta htol (k 1) e i; rw [← b1] at hh; exact hh)
      simp only [Matrix.cons_val_zero, Matrix.cons_val_one, Matrix.cons_val_two, Matrix.tail_cons,
        Matrix.head_cons] at hδ ⊢
      rw [hδ]
      apply Finset.sum_congr rfl
      intro i hi
      apply Finset.sum_congr rfl
      intro kk hkk
      congr 1
      have hi' : i < n0 := mem_range.mp hi
      have hkk' : kk < n2 := mem_range.mp hkk
      have hr2 : Tensor.InRange [i, kk] [n0, n2] := List.Forall₂.cons hi' (List.Forall₂.cons hkk' List.Forall₂.nil)
      have ee := g2 [i, kk] comp (by rw [hfree]; exact hr2) hc
      show cps'.get ((i * n2 + kk) * X.ncomp + comp) = _
      rw [← getIdx_triple cps' n0 n2 X.ncomp i kk comp hcs]
      show cps'.getIdx ([i, kk] ++ [comp]) = _
      rw [ee]
      have e2 : secNet ds (fun full => X.cps.getIdx (full ++ [comp])) [i, kk]
          = X.cps.getIdx [i, endIdx n1 e, kk, comp] := by cases e <;> rfl
      rw [e2, getIdx_quad X.cps n0 n1 n2 X.ncomp i _ kk comp hss]
  · -- w-face
    let ds : List (Dir K × BSel) := [(D0, .free), (D1, .free), (D2, bs)]
    have hsel : selOf ds = [none, none, endSel e] := by cases e <;> rfl
    have hdims : dimsOf ds = [n0, n1, n2] := by cases e <;> rfl
    have hfix : FixedPos ds := by cases e <;> exact ⟨p2, trivial⟩
    obtain ⟨cps', g1, g2, g3⟩ := sectionSel_boundary X ds X.ncomp (by rw [hss, hdims]; rfl) hfix unwrap
    have hfree : freeDims (idxOf ds) (dimsOf ds) = [n0, n1] := by cases e <;> rfl
    have hfb : Obj.freeBases X.bases.toList (selOf ds) = [X.basis 0, X.basis 1] := by
      rw [hbl, hsel]; cases e <;> rfl
    have hcs : cps'.shape = [n0, n1, X.ncomp] := by rw [g1, hfree]; rfl
    obtain ⟨awf, anc⟩ := surface_wf_of (X.basis 0) (X.basis 1) (h.wf.valid 0) (h.wf.valid 1) cps' X.ncomp X.rational hcs
    refine ⟨{ bases := #[X.basis 0, X.basis 1], cps := cps', rational := X.rational }, ?_, rfl, h.rational, awf,
      anc.trans hnc, ?_⟩
    · rw [← hsel, g3, hfb]
      simp [Obj.className]
    · intro comp hc s1 s2 x y
      rw [← hnc] at hc
      rw [toTP_eval_surface awf q0 q1, anc]
      have hδ := volume_eval_fix2 h.wf hper comp ![s1, s2, sideOf e] ![x, y, endOf e] (endIdx n2 e) (endIdx_lt p2 e)
        (by intro i _
            show B (sideOf e) (X.basis 2).kn ((X.basis 2).order - 1) i (endOf e) = _
            have hh := unit_delta htol (k 2) e i; rw [← b2] at hh; exact hh)
      simp only [Matrix.cons_val_zero, Matrix.cons_val_one, Matrix.cons_val_two, Matrix.tail_cons,
        Matrix.head_cons] at hδ ⊢
      rw [hδ]
      apply Finset.sum_congr rfl
      intro i hi
      apply Finset.sum_congr rfl
      intro j hj
      congr 1
      have hi' : i < n0 := mem_range.mp hi
      have hj' : j < n1 := mem_range.mp hj
      have hr2 : Tensor.InRange [i, j] [n0, n1] := List.Forall₂.cons hi' (List.Forall₂.cons hj' List.Forall₂.nil)
      have ee := g2 [i, j] comp (by rw [hfree]; exact hr2) hc
      show cps'.get ((i * n1 + j) * X.ncomp + comp) = _
      rw [← getIdx_triple cps' n0 n1 X.ncomp i j comp hcs]
      show cps'.getIdx ([i, j] ++ [comp]) = _
      rw [ee]
      have e2 : secNet ds (fun full => X.cps.getIdx (full ++ [comp])) [i, j]
          = X.cps.getIdx [i, j, endIdx n2 e, comp] := by cases e <;> rfl
      rw [e2, getIdx_quad X.cps n0 n1 n2 X.ncomp i j _ comp hss]

end C15
end Splipy
