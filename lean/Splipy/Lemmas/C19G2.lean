import Splipy.Lemmas.C19Index

/-! Reading back what `g2Write` wrote: line splitting, bases, control point rows, whole records,
whole files. -/

namespace Splipy.FileIO

variable {K : Type}

theorem takeWhile_notNl_append (l rest : List (Token K)) (hl : ∀ t ∈ l, t.isNl = false) :
    (l ++ Token.nl :: rest).takeWhile (fun t => !t.isNl) = l := by
  induction l with
  | nil => simp [Token.isNl]
  | cons t l ih =>
    have ht : t.isNl = false := hl t (by simp)
    simp [ht, ih (fun t' h' => hl t' (by simp [h']))]

theorem dropWhile_notNl_append (l rest : List (Token K)) (hl : ∀ t ∈ l, t.isNl = false) :
    (l ++ Token.nl :: rest).dropWhile (fun t => !t.isNl) = Token.nl :: rest := by
  induction l with
  | nil => simp [Token.isNl]
  | cons t l ih =>
    have ht : t.isNl = false := hl t (by simp)
    simp [ht, ih (fun t' h' => hl t' (by simp [h']))]

/-- A line without line ends followed by a line end is what `next(fstream)` returns. -/
theorem nextLine_append (l rest : List (Token K)) (hl : ∀ t ∈ l, t.isNl = false) :
    nextLine (l ++ Token.nl :: rest) = some (l, rest) := by
  have h1 := takeWhile_notNl_append l rest hl
  have h2 := dropWhile_notNl_append l rest hl
  cases l with
  | nil => simp [nextLine, Token.isNl]
  | cons t l =>
    simp only [List.cons_append] at h1 h2 ⊢
    simp only [nextLine, h1, h2, List.drop_one, List.tail_cons]

theorem nextNonBlank_append (t : Token K) (l rest : List (Token K)) (ht : t.isNl = false)
    (hl : ∀ t ∈ l, t.isNl = false) :
    nextNonBlank (t :: l ++ Token.nl :: rest) = some (t :: l, rest) := by
  have := nextLine_append (t :: l) rest (by
    intro t' h'
    rcases List.mem_cons.mp h' with rfl | h'
    · exact ht
    · exact hl t' h')
  cases t with
  | nl => simp [Token.isNl] at ht
  | int n => simpa [nextNonBlank] using this
  | intNC n => simpa [nextNonBlank] using this
  | num x => simpa [nextNonBlank] using this
  | word s => simpa [nextNonBlank] using this

theorem isNl_num (row : List K) : ∀ t ∈ row.map (Token.num (K := K)), t.isNl = false := by
  intro t ht
  obtain ⟨x, _, rfl⟩ := List.mem_map.mp ht
  rfl

theorem mapM_toFloat_num [IntCast K] (row : List K) :
    (row.map (Token.num (K := K))).mapM Token.toFloat? = some row := by
  induction row with
  | nil => rfl
  | cons x row ih => simp [List.mapM_cons, Token.toFloat?, ih]

section Read
variable [Field K] [LinearOrder K]

theorem readBasis_write (tol : K) (b : IOBasis K) (hb : b.WF tol) (rest : List (Token K)) :
    readBasis tol (basisToks b ++ rest) = .ok (b, rest) := by
  obtain ⟨h1, h2, h3, h4⟩ := hb
  have e1 : basisToks b ++ rest =
      [Token.int ((b.knots.length : Int) - b.order), Token.int b.order] ++
        Token.nl :: (b.knots.map Token.num ++ Token.nl :: rest) := by
    simp [basisToks]
  rw [e1]
  unfold readBasis
  rw [nextLine_append _ _ (by intro t ht; simp at ht; rcases ht with rfl | rfl <;> rfl)]
  simp only [List.mapM_cons, List.mapM_nil, Token.toInt?, Option.pure_def, Option.bind_eq_bind,
    Option.bind_some]
  rw [nextLine_append _ _ (isNl_num _)]
  simp only [mapM_toFloat_num]
  have c1 : ¬ ((b.order : Int) < 1) := by omega
  have c2 : ¬ ((b.knots.length : Int) < 2 * (b.order : Int)) := by omega
  simp only [mkBasis, c1, c2, h3, if_false, Bool.not_true, Bool.false_eq_true, Int.toNat_natCast]
  cases b
  simp_all

theorem readBases_write (tol : K) : ∀ (bs : List (IOBasis K)), (∀ b ∈ bs, b.WF tol) →
    ∀ rest : List (Token K),
      readBases tol bs.length (bs.flatMap basisToks ++ rest) = .ok (bs, rest)
  | [], _, rest => by simp [readBases]
  | b :: bs, h, rest => by
    have hb := h b (by simp)
    have ih := readBases_write tol bs (fun b' hb' => h b' (by simp [hb'])) rest
    simp only [List.flatMap_cons, List.append_assoc, List.length_cons, readBases,
      readBasis_write tol b hb, ih]

omit [LinearOrder K] in
theorem readRows_write : ∀ (rows : List (List K)) (rest : List (Token K)),
    readRows rows.length (rows.flatMap rowToks ++ rest) = .ok (rows, rest)
  | [], rest => by simp [readRows]
  | row :: rows, rest => by
    have ih := readRows_write rows rest
    have e : (row :: rows).flatMap rowToks ++ rest =
        row.map Token.num ++ Token.nl :: (rows.flatMap rowToks ++ rest) := by
      simp [rowToks]
    rw [e]
    simp only [List.length_cons, readRows, nextLine_append _ _ (isNl_num _), mapM_toFloat_num, ih]

theorem numFunctions_pos {tol : K} {b : IOBasis K} (hb : b.WF tol) : 1 ≤ b.numFunctions := by
  have := hb.order_pos; have := hb.enough
  unfold IOBasis.numFunctions; omega

theorem prod_numFunctions_pos {tol : K} : ∀ (bs : List (IOBasis K)), (∀ b ∈ bs, b.WF tol) →
    1 ≤ (bs.map IOBasis.numFunctions).prod
  | [], _ => by simp
  | b :: bs, h => by
    have h1 := numFunctions_pos (h b (by simp))
    have h2 := prod_numFunctions_pos bs (fun b' hb' => h b' (by simp [hb']))
    simp only [List.map_cons, List.prod_cons]
    exact Nat.mul_le_mul h1 h2

omit [Field K] [LinearOrder K] in
/-- All rows written for a well-formed object have `ncomp` entries. -/
theorem flattenF_rows_length {shape : List ℕ} {cps : List (List K)} {n : ℕ}
    (hc : cps.length = shape.prod) (hn : ∀ p ∈ cps, p.length = n) :
    ∀ r ∈ flattenF shape cps, r.length = n := by
  intro r hr
  obtain ⟨k, hk, rfl⟩ := List.mem_map.mp hr
  have hk' : k < shape.prod := by simpa using hk
  have hlt : fToC shape k < cps.length := by rw [hc]; exact fToC_lt hk'
  rw [List.getD_eq_getElem _ _ hlt]
  exact hn _ (List.getElem_mem hlt)

theorem g2Splines_write (tol : K) (o : Obj K) (ho : o.WF tol) (rest : List (Token K)) :
    g2Splines tol o.bases.length
      ([Token.int ((o.ncomp : Int) - boolInt o.rational), Token.int (boolInt o.rational), Token.nl]
        ++ o.bases.flatMap basisToks ++ (flattenF o.shape o.cps).flatMap rowToks ++ rest)
      = .ok (o, rest) := by
  obtain ⟨_, hb, hs, hc, hp, hn⟩ := ho
  have e : [Token.int ((o.ncomp : Int) - boolInt o.rational), Token.int (boolInt o.rational), Token.nl]
        ++ o.bases.flatMap basisToks ++ (flattenF o.shape o.cps).flatMap rowToks ++ rest =
      Token.int ((o.ncomp : Int) - boolInt o.rational) :: [Token.int (boolInt o.rational)] ++
        Token.nl :: (o.bases.flatMap basisToks ++
          ((flattenF o.shape o.cps).flatMap rowToks ++ rest)) := by
    simp
  rw [e]
  unfold g2Splines
  rw [nextNonBlank_append _ _ _ rfl (by intro t ht; simp at ht; subst ht; rfl)]
  simp only [Token.toInt?]
  rw [readBases_write tol o.bases hb]
  simp only []
  have hlen : (flattenF o.shape o.cps).length = (o.bases.map IOBasis.numFunctions).prod := by
    rw [length_flattenF, hs]
  rw [← hlen, readRows_write]
  have hpos : 1 ≤ (flattenF o.shape o.cps).length := by
    rw [hlen]; exact prod_numFunctions_pos o.bases hb
  have hrows := flattenF_rows_length hc hp
  cases hfl : flattenF o.shape o.cps with
  | nil => rw [hfl] at hpos; simp at hpos
  | cons row0 rows =>
    rw [hfl] at hrows
    have h0 : row0.length = o.ncomp := hrows row0 (by simp)
    have hall : (row0 :: rows).all (fun r => r.length == row0.length) = true := by
      rw [List.all_eq_true]
      intro r hr
      simp [hrows r hr, h0]
    simp only [hall, if_true]
    rw [← hfl, ← hs, reshapeF_eq_unflattenF, unflattenF_flattenF _ _ hc, h0]
    have hr : (boolInt o.rational != 0) = o.rational := by
      cases o.rational <;> simp [boolInt]
    rw [hr]

theorem g2ReadSpline_write (tol : K) (o : Obj K) (ho : o.WF tol) (rest : List (Token K)) :
    g2ReadSpline tol (g2Write o ++ rest) = .ok (o, rest) := by
  have hs := g2Splines_write tol o ho rest
  have e : g2Write o ++ rest =
      Token.int (g2TypeCode o.pardim) :: [Token.int 1, Token.int 0, Token.int 0] ++ Token.nl ::
        ([Token.int ((o.ncomp : Int) - boolInt o.rational), Token.int (boolInt o.rational), Token.nl]
        ++ o.bases.flatMap basisToks ++ (flattenF o.shape o.cps).flatMap rowToks ++ rest) := by
    simp [g2Write]
  rw [e]
  unfold g2ReadSpline
  rw [nextNonBlank_append _ _ _ rfl (by intro t ht; simp at ht; rcases ht with rfl | rfl | rfl <;> rfl)]
  simp only [List.mapM_cons, List.mapM_nil, Token.toInt?, Option.pure_def, Option.bind_eq_bind,
    Option.bind_some]
  rcases ho.pardim with h | h | h <;>
    · simp only [Obj.pardim, h, g2TypeCode] at hs ⊢
      simpa using hs

omit [Field K] [LinearOrder K] in
theorem g2Write_ne_nil (o : Obj K) : ∃ n l, g2Write o = Token.int n :: l := ⟨_, _, rfl⟩

theorem g2ReadAllFuel_write (tol : K) : ∀ (os : List (Obj K)), (∀ o ∈ os, o.WF tol) →
    ∀ fuel, os.length < fuel → g2ReadAllFuel tol fuel (os.flatMap g2Write) = .ok os
  | [], _, fuel, hf => by
    obtain ⟨f, rfl⟩ : ∃ f, fuel = f + 1 := ⟨fuel - 1, by omega⟩
    simp [g2ReadAllFuel]
  | o :: os, h, fuel, hf => by
    obtain ⟨f, rfl⟩ : ∃ f, fuel = f + 1 := ⟨fuel - 1, by omega⟩
    have ih := g2ReadAllFuel_write tol os (fun o' ho' => h o' (by simp [ho'])) f
      (by simp at hf; omega)
    have hr := g2ReadSpline_write tol o (h o (by simp)) (os.flatMap g2Write)
    obtain ⟨n, l, hnl⟩ := g2Write_ne_nil o
    have hne : ((o :: os).flatMap g2Write).dropWhile Token.isNl ≠ [] := by
      simp [List.flatMap_cons, hnl, Token.isNl]
    simp only [g2ReadAllFuel]
    rw [if_neg (by simpa using hne)]
    simp only [List.flatMap_cons, hr, ih]

end Read

end Splipy.FileIO
