import Splipy.Lemmas.C15SixA

/-!
# The pattern volumes of the six-face `edge_surfaces`
-/

set_option linter.unusedSectionVars false

namespace Splipy
namespace C15

open C06 C12 Obj Basis Finset

variable {K : Type} [Field K] [LinearOrder K] [IsStrictOrderedRing K] [FloorRing K]

theorem swap12_0 : Equiv.swap (1 : Fin 3) 2 0 = 0 := by decide
theorem swap12_1 : Equiv.swap (1 : Fin 3) 2 1 = 2 := by decide
theorem swap12_2 : Equiv.swap (1 : Fin 3) 2 2 = 1 := by decide
theorem swap02_0 : Equiv.swap (0 : Fin 3) 2 0 = 2 := by decide
theorem swap02_1 : Equiv.swap (0 : Fin 3) 2 1 = 1 := by decide
theorem swap02_2 : Equiv.swap (0 : Fin 3) 2 2 = 0 := by decide

/-- `vol1` after `swap(0,2); swap(1,2)`: linear × `B₁` × `B₂` from a ruled volume `B₁ × B₂ × linear`. -/
theorem vol1_std (p : Fin 3 → ℕ) (U : Fin 3 → List K) (M : Fin 3 → List ℕ) {rat : Bool} {nc : ℕ} (r1 r2 : Obj K)
    (h1 : UnitSurf r1 (p 1) (p 2) (U 1) (U 2) (M 1) (M 2) rat nc) (hsh : r2.cps.shape = r1.cps.shape) :
    StdVol (((ruledObj r1 r2).swap 0 2).swap 1 2) p U M ![false, true, true] rat nc := by
  obtain ⟨w0, n0⟩ := ruledObj_wf3 r1 r2 h1.wf hsh
  obtain ⟨e0, e1, e2⟩ := ruledObj_basis3 r1 r2 h1.wf.size
  obtain ⟨w1, n1⟩ := wf_swap w0 (0 : Fin 3) 2
  obtain ⟨w2, n2⟩ := wf_swap w1 (1 : Fin 3) 2
  have b1 := basis_swap (ruledObj r1 r2) w0.size (0 : Fin 3) 2
  have b2 := basis_swap ((ruledObj r1 r2).swap 0 2) w1.size (1 : Fin 3) 2
  refine stdVol_of p U M _ w2 ?_ h1.rational (n2.trans (n1.trans (n0.trans h1.ncomp)))
  have c0 := b2 0; rw [swap12_0] at c0
  have c1 := b2 1; rw [swap12_1] at c1
  have c2 := b2 2; rw [swap12_2] at c2
  have d0 := b1 0; rw [swap02_0] at d0
  have d1 := b1 1; rw [swap02_1] at d1
  have d2 := b1 2; rw [swap02_2] at d2
  apply fin3_cases
  · have : (((ruledObj r1 r2).swap 0 2).swap 1 2).basis 0 = linearBasis := c0.trans (d0.trans e2)
    simpa using this
  · have : (((ruledObj r1 r2).swap 0 2).swap 1 2).basis 1 = unitBasis (p 1) (U 1) (M 1) :=
      c1.trans (d2.trans (e0.trans h1.b0))
    simpa using this
  · have : (((ruledObj r1 r2).swap 0 2).swap 1 2).basis 2 = unitBasis (p 2) (U 2) (M 2) :=
      c2.trans (d1.trans (e1.trans h1.b1))
    simpa using this

/-- `vol2` after `swap(1,2)`: `B₀` × linear × `B₂`. -/
theorem vol2_std (p : Fin 3 → ℕ) (U : Fin 3 → List K) (M : Fin 3 → List ℕ) {rat : Bool} {nc : ℕ} (r1 r2 : Obj K)
    (h1 : UnitSurf r1 (p 0) (p 2) (U 0) (U 2) (M 0) (M 2) rat nc) (hsh : r2.cps.shape = r1.cps.shape) :
    StdVol ((ruledObj r1 r2).swap 1 2) p U M ![true, false, true] rat nc := by
  obtain ⟨w0, n0⟩ := ruledObj_wf3 r1 r2 h1.wf hsh
  obtain ⟨e0, e1, e2⟩ := ruledObj_basis3 r1 r2 h1.wf.size
  obtain ⟨w2, n2⟩ := wf_swap w0 (1 : Fin 3) 2
  have b2 := basis_swap (ruledObj r1 r2) w0.size (1 : Fin 3) 2
  refine stdVol_of p U M _ w2 ?_ h1.rational (n2.trans (n0.trans h1.ncomp))
  have c0 := b2 0; rw [swap12_0] at c0
  have c1 := b2 1; rw [swap12_1] at c1
  have c2 := b2 2; rw [swap12_2] at c2
  apply fin3_cases
  · have : ((ruledObj r1 r2).swap 1 2).basis 0 = unitBasis (p 0) (U 0) (M 0) := c0.trans (e0.trans h1.b0)
    simpa using this
  · have : ((ruledObj r1 r2).swap 1 2).basis 1 = linearBasis := c1.trans e2
    simpa using this
  · have : ((ruledObj r1 r2).swap 1 2).basis 2 = unitBasis (p 2) (U 2) (M 2) := c2.trans (e1.trans h1.b1)
    simpa using this

/-- `vol3`: `B₀` × `B₁` × linear. -/
theorem vol3_std (p : Fin 3 → ℕ) (U : Fin 3 → List K) (M : Fin 3 → List ℕ) {rat : Bool} {nc : ℕ} (r1 r2 : Obj K)
    (h1 : UnitSurf r1 (p 0) (p 1) (U 0) (U 1) (M 0) (M 1) rat nc) (hsh : r2.cps.shape = r1.cps.shape) :
    StdVol (ruledObj r1 r2) p U M ![true, true, false] rat nc := by
  obtain ⟨w0, n0⟩ := ruledObj_wf3 r1 r2 h1.wf hsh
  obtain ⟨e0, e1, e2⟩ := ruledObj_basis3 r1 r2 h1.wf.size
  refine stdVol_of p U M _ w0 ?_ h1.rational (n0.trans h1.ncomp)
  apply fin3_cases
  · simpa using e0.trans h1.b0
  · simpa using e1.trans h1.b1
  · simpa using e2

/-- A volume object on three linear bases with an `[2,2,2,nc]` control array. -/
theorem linVol_wf (s4 : Obj K) (nc : ℕ) (hb : s4.bases = #[linearBasis, linearBasis, linearBasis])
    (hs : s4.cps.shape = [2, 2, 2, nc]) :
    C06.WF s4 3 ∧ s4.ncomp = nc ∧ ∀ d : Fin 3, s4.basis d = linearBasis := by
  have hbd : ∀ d : Fin 3, s4.basis d = linearBasis := by
    apply fin3_cases <;> (unfold Obj.basis; rw [hb]; rfl)
  have hn : s4.ncomp = nc := by unfold Obj.ncomp; rw [hs]; rfl
  refine ⟨⟨by rw [hb]; rfl, fun d => by rw [hbd d]; exact linearBasis_valid, ?_⟩, hn, hbd⟩
  rw [hs, hn]
  have e : ∀ d : Fin 3, (s4.basis d).numFunctions = 2 := fun d => by rw [hbd d]; exact linearBasis_numFunctions
  simp [midx, List.ofFn_succ]
  exact ⟨(e 0).symm, (e 1).symm, (e 2).symm⟩

/-- `vol4` after `swap(1,2)`: linear in all three directions. -/
theorem vol4_std (p : Fin 3 → ℕ) (U : Fin 3 → List K) (M : Fin 3 → List ℕ) {rat : Bool} {nc : ℕ} (s4 : Obj K)
    (hb : s4.bases = #[linearBasis, linearBasis, linearBasis]) (hs : s4.cps.shape = [2, 2, 2, nc])
    (hr : s4.rational = rat) :
    StdVol (s4.swap 1 2) p U M ![false, false, false] rat nc := by
  obtain ⟨w0, n0, hbd⟩ := linVol_wf s4 nc hb hs
  obtain ⟨w2, n2⟩ := wf_swap w0 (1 : Fin 3) 2
  have b2 := basis_swap s4 w0.size (1 : Fin 3) 2
  refine stdVol_of p U M _ w2 ?_ hr (n2.trans n0)
  apply fin3_cases
  · have := (b2 0).trans (hbd _); simpa using this
  · have := (b2 1).trans (hbd _); simpa using this
  · have := (b2 2).trans (hbd _); simpa using this

/-! ## The three edge volumes -/

theorem edgeNet_shape (src : Tensor K) (n0 n1 n2 nc : ℕ) (hs : src.shape = [n0, n1, n2, nc]) :
    (Obj.edgeNet src 0).shape = [n0, 2, 2, nc] ∧ (Obj.edgeNet src 1).shape = [2, n1, 2, nc]
      ∧ (Obj.edgeNet src 2).shape = [2, 2, n2, nc] := by
  unfold Obj.edgeNet
  simp [hs, Tensor.tabulate, List.range_succ]

/-- A volume object assembled from three valid bases and a control array of the matching shape. -/
theorem volume_wf_of (b0 b1 b2 : Basis K) (hv0 : b0.Valid) (hv1 : b1.Valid) (hv2 : b2.Valid) (cps : Tensor K)
    (nc : ℕ) (rat : Bool) (hs : cps.shape = [b0.numFunctions, b1.numFunctions, b2.numFunctions, nc]) :
    C06.WF ({ bases := #[b0, b1, b2], cps := cps, rational := rat } : Obj K) 3
      ∧ ({ bases := #[b0, b1, b2], cps := cps, rational := rat } : Obj K).ncomp = nc := by
  have hb0 : ({ bases := #[b0, b1, b2], cps := cps, rational := rat } : Obj K).basis 0 = b0 := rfl
  have hb1 : ({ bases := #[b0, b1, b2], cps := cps, rational := rat } : Obj K).basis 1 = b1 := rfl
  have hb2 : ({ bases := #[b0, b1, b2], cps := cps, rational := rat } : Obj K).basis 2 = b2 := rfl
  have hn : ({ bases := #[b0, b1, b2], cps := cps, rational := rat } : Obj K).ncomp = nc := by
    unfold Obj.ncomp; rw [hs]; rfl
  refine ⟨⟨rfl, ?_, ?_⟩, hn⟩
  · apply fin3_cases
    · exact hv0
    · exact hv1
    · exact hv2
  · rw [hn]
    show cps.shape = _
    rw [hs]
    simp [midx, List.ofFn_succ]
    exact ⟨by rw [hb0], by rw [hb1], by rw [hb2]⟩

end C15
end Splipy
