import Splipy.Lemmas.C16Additivity

/-!
# C16 over `ℝ`: `Obj.volume` as ONE integral over the first parametric direction

`Obj.volume o = ∫_{start}^{end} H_o(u) du` with
`H_o(u) = Σ_{e2} Σ_{e3} ∫_{e2} ∫_{e3} |det J_o(u,v,w)| dw dv` — the element sum in the first direction
collapses by additivity of the integral.  `H_o` depends only on the MAP (`jacSpec`) and on the
elements of directions 2 and 3.
-/

namespace Splipy

open Polynomial MeasureTheory Measure

theorem intervalIntegrable_of_eq_Ioo {f g : ℝ → ℝ} {a b : ℝ} (hab : a ≤ b)
    (h : ∀ x, a < x → x < b → f x = g x) (hg : IntervalIntegrable g volume a b) :
    IntervalIntegrable f volume a b := by
  rw [intervalIntegrable_iff_integrableOn_Ioo_of_le hab] at hg ⊢
  exact hg.congr_fun (fun x hx => (h x hx.1 hx.2).symm) measurableSet_Ioo

/-- Two-directional tensor integral with constant coefficients. -/
theorem integral_tensor2 {ι : Type} (s : Finset ι) (k : ι → ℝ) (R T : ι → ℝ[X]) (a2 b2 a3 b3 : ℝ) :
    ∫ v in a2..b2, ∫ w in a3..b3, ∑ c ∈ s, k c * (R c).eval v * (T c).eval w
      = ∑ c ∈ s, k c * ((antideriv (R c)).eval b2 - (antideriv (R c)).eval a2)
          * ((antideriv (T c)).eval b3 - (antideriv (T c)).eval a3) := by
  have hw : ∀ v, ∫ w in a3..b3, ∑ c ∈ s, k c * (R c).eval v * (T c).eval w
      = ∑ c ∈ s, k c * (R c).eval v * ((antideriv (T c)).eval b3 - (antideriv (T c)).eval a3) := by
    intro v
    rw [intervalIntegral.integral_finsetSum
      (fun c _ => ((T c).continuous.intervalIntegrable a3 b3).const_mul _)]
    apply Finset.sum_congr rfl
    intro c _
    rw [intervalIntegral.integral_const_mul, integral_poly]
  simp_rw [hw]
  rw [intervalIntegral.integral_finsetSum
    (fun c _ => (((R c).continuous.intervalIntegrable a2 b2).const_mul _).mul_const _)]
  apply Finset.sum_congr rfl
  intro c _
  rw [intervalIntegral.integral_mul_const, intervalIntegral.integral_const_mul, integral_poly]

/-- Integral of a finite list sum. -/
theorem integral_list_sum {α : Type} (l : List α) (f : α → ℝ → ℝ) (a b : ℝ)
    (h : ∀ e ∈ l, IntervalIntegrable (f e) volume a b) :
    ∫ x in a..b, (l.map (fun e => f e x)).sum = (l.map (fun e => ∫ x in a..b, f e x)).sum ∧
      IntervalIntegrable (fun x => (l.map (fun e => f e x)).sum) volume a b := by
  induction l with
  | nil => simp
  | cons e l ih =>
    obtain ⟨ih1, ih2⟩ := ih (fun e' he' => h e' (List.mem_cons_of_mem _ he'))
    have he := h e (by simp)
    simp only [List.map_cons, List.sum_cons]
    exact ⟨by rw [intervalIntegral.integral_add he ih2, ih1], he.add ih2⟩

namespace Obj

/-- `∫_{e2} ∫_{e3} |det J(u,v,w)| dw dv` as a function of `u`. -/
noncomputable def sliceInt (o : Obj ℝ) (b1 b2 b3 : Basis ℝ) (e2 e3 : ℝ × ℝ) (u : ℝ) : ℝ :=
  ∫ v in e2.1..e2.2, ∫ w in e3.1..e3.2, |o.jacSpec b1 b2 b3 u v w|

/-- `H(u) = Σ_{e2} Σ_{e3} ∫_{e2} ∫_{e3} |det J(u,v,w)|`. -/
noncomputable def sliceSum (o : Obj ℝ) (b1 b2 b3 : Basis ℝ) (tol : ℝ) (u : ℝ) : ℝ :=
  ((elements (b2.knotSpans tol false).toList).map (fun e2 =>
    ((elements (b3.knotSpans tol false).toList).map (fun e3 =>
      o.sliceInt b1 b2 b3 e2 e3 u)).sum)).sum

/-- On an element of the first direction the slice integral is a polynomial in `u`. -/
theorem sliceInt_integrable (o : Obj ℝ) {b1 b2 b3 : Basis ℝ} (hv1 : b1.Valid) (hv2 : b2.Valid)
    (hv3 : b3.Valid) (hp1 : b1.periodic = -1) (hp2 : b2.periodic = -1) (hp3 : b3.periodic = -1)
    (μ1 μ2 μ3 : ℕ) (e1 e2 e3 : ℝ × ℝ)
    (h1 : e1.1 < e1.2 ∧ μ1 + 1 ≤ b1.nAll ∧ b1.kn μ1 ≤ e1.1 ∧ e1.2 ≤ b1.kn (μ1 + 1))
    (h2 : e2.1 < e2.2 ∧ μ2 + 1 ≤ b2.nAll ∧ b2.kn μ2 ≤ e2.1 ∧ e2.2 ≤ b2.kn (μ2 + 1))
    (h3 : e3.1 < e3.2 ∧ μ3 + 1 ≤ b3.nAll ∧ b3.kn μ3 ≤ e3.1 ∧ e3.2 ≤ b3.kn (μ3 + 1))
    (hsign : (∀ u v w, e1.1 < u → u < e1.2 → e2.1 < v → v < e2.2 → e3.1 < w → w < e3.2 →
        0 ≤ o.jacSpec b1 b2 b3 u v w) ∨
      (∀ u v w, e1.1 < u → u < e1.2 → e2.1 < v → v < e2.2 → e3.1 < w → w < e3.2 →
        o.jacSpec b1 b2 b3 u v w ≤ 0)) :
    IntervalIntegrable (o.sliceInt b1 b2 b3 e2 e3) MeasureTheory.volume e1.1 e1.2 := by
  -- the polynomial
  let S := (idx3 b1.numFunctions b2.numFunctions b3.numFunctions
          ×ˢ idx3 b1.numFunctions b2.numFunctions b3.numFunctions)
          ×ˢ idx3 b1.numFunctions b2.numFunctions b3.numFunctions
  let poly : ℝ[X] := ∑ c ∈ S, C (o.boxSign b1 b2 b3 e1 e2 e3
      * ((antideriv (jacR b2 μ2 c)).eval e2.2 - (antideriv (jacR b2 μ2 c)).eval e2.1)
      * ((antideriv (jacT b3 μ3 c)).eval e3.2 - (antideriv (jacT b3 μ3 c)).eval e3.1))
      * o.jacP b1 b2 b3 μ1 c
  apply intervalIntegrable_of_eq_Ioo h1.1.le (g := fun u => poly.eval u) _
    (poly.continuous.intervalIntegrable _ _)
  intro u hu1 hu2
  unfold sliceInt
  have hinner : ∫ v in e2.1..e2.2, ∫ w in e3.1..e3.2, |o.jacSpec b1 b2 b3 u v w|
      = ∫ v in e2.1..e2.2, ∫ w in e3.1..e3.2, ∑ c ∈ S,
          (o.boxSign b1 b2 b3 e1 e2 e3 * (o.jacP b1 b2 b3 μ1 c).eval u) * (jacR b2 μ2 c).eval v
            * (jacT b3 μ3 c).eval w := by
    apply integral_congr_Ioo h2.1.le
    intro v hw1 hw2
    apply integral_congr_Ioo h3.1.le
    intro w hz1 hz2
    have hten := jac3_eq_tensor o hv1 hv2 hv3 hp1 hp2 hp3 μ1 μ2 μ3 h1.2.1 h2.2.1 h3.2.1 u v w
      ⟨le_trans h1.2.2.1 hu1.le, lt_of_lt_of_le hu2 h1.2.2.2⟩
      ⟨le_trans h2.2.2.1 hw1.le, lt_of_lt_of_le hw2 h2.2.2.2⟩
      ⟨le_trans h3.2.2.1 hz1.le, lt_of_lt_of_le hz2 h3.2.2.2⟩
    have hJ : o.jacSpec b1 b2 b3 u v w = _ := hten
    have habs : |o.jacSpec b1 b2 b3 u v w|
        = o.boxSign b1 b2 b3 e1 e2 e3 * o.jacSpec b1 b2 b3 u v w := by
      unfold boxSign
      split_ifs with hpos
      · rw [abs_of_nonneg (hpos u v w hu1 hu2 hw1 hw2 hz1 hz2), one_mul]
      · rcases hsign with h | h
        · exact absurd h hpos
        · rw [abs_of_nonpos (h u v w hu1 hu2 hw1 hw2 hz1 hz2)]
          ring
    rw [habs, hJ, Finset.mul_sum]
    apply Finset.sum_congr rfl
    intro c _
    ring
  rw [hinner, integral_tensor2]
  simp only [poly, eval_finsetSum, eval_mul, eval_C]
  apply Finset.sum_congr rfl
  intro c _
  ring

/-- `sliceSum` is interval integrable on every element of the first direction, and its integral
there is the double element sum of the triple integrals. -/
theorem sliceSum_element (o : Obj ℝ) {b1 b2 b3 : Basis ℝ} (hv1 : b1.Valid) (hv2 : b2.Valid)
    (hv3 : b3.Valid) (hp1 : b1.periodic = -1) (hp2 : b2.periodic = -1) (hp3 : b3.periodic = -1)
    {tol : ℝ} (hc1 : b1.SpanCover tol) (hc2 : b2.SpanCover tol) (hc3 : b3.SpanCover tol)
    (e1 : ℝ × ℝ) (he1 : e1 ∈ elements (b1.knotSpans tol false).toList)
    (hsign : ∀ e2 ∈ elements (b2.knotSpans tol false).toList,
      ∀ e3 ∈ elements (b3.knotSpans tol false).toList,
      (∀ u v w, e1.1 < u → u < e1.2 → e2.1 < v → v < e2.2 → e3.1 < w → w < e3.2 →
        0 ≤ o.jacSpec b1 b2 b3 u v w) ∨
      (∀ u v w, e1.1 < u → u < e1.2 → e2.1 < v → v < e2.2 → e3.1 < w → w < e3.2 →
        o.jacSpec b1 b2 b3 u v w ≤ 0)) :
    IntervalIntegrable (o.sliceSum b1 b2 b3 tol) MeasureTheory.volume e1.1 e1.2 ∧
    ∫ u in e1.1..e1.2, o.sliceSum b1 b2 b3 tol u
      = ((elements (b2.knotSpans tol false).toList).map (fun e2 =>
          ((elements (b3.knotSpans tol false).toList).map (fun e3 =>
            ∫ u in e1.1..e1.2, ∫ v in e2.1..e2.2, ∫ w in e3.1..e3.2,
              |o.jacSpec b1 b2 b3 u v w|)).sum)).sum := by
  have hI : ∀ e2 ∈ elements (b2.knotSpans tol false).toList,
      ∀ e3 ∈ elements (b3.knotSpans tol false).toList,
      IntervalIntegrable (o.sliceInt b1 b2 b3 e2 e3) MeasureTheory.volume e1.1 e1.2 :=
    fun e2 he2 e3 he3 => sliceInt_integrable o hv1 hv2 hv3 hp1 hp2 hp3 _ _ _ e1 e2 e3
      (b1.spanOf_spec tol hc1 e1 he1) (b2.spanOf_spec tol hc2 e2 he2)
      (b3.spanOf_spec tol hc3 e3 he3) (hsign e2 he2 e3 he3)
  have hinner : ∀ e2 ∈ elements (b2.knotSpans tol false).toList,
      (∫ u in e1.1..e1.2, ((elements (b3.knotSpans tol false).toList).map (fun e3 =>
          o.sliceInt b1 b2 b3 e2 e3 u)).sum
        = ((elements (b3.knotSpans tol false).toList).map (fun e3 =>
            ∫ u in e1.1..e1.2, o.sliceInt b1 b2 b3 e2 e3 u)).sum) ∧
      IntervalIntegrable (fun u => ((elements (b3.knotSpans tol false).toList).map (fun e3 =>
          o.sliceInt b1 b2 b3 e2 e3 u)).sum) MeasureTheory.volume e1.1 e1.2 :=
    fun e2 he2 => integral_list_sum _ (fun e3 u => o.sliceInt b1 b2 b3 e2 e3 u) _ _
      (fun e3 he3 => hI e2 he2 e3 he3)
  obtain ⟨houter1, houter2⟩ := integral_list_sum (elements (b2.knotSpans tol false).toList)
    (fun e2 u => ((elements (b3.knotSpans tol false).toList).map (fun e3 =>
      o.sliceInt b1 b2 b3 e2 e3 u)).sum) e1.1 e1.2 (fun e2 he2 => (hinner e2 he2).2)
  refine ⟨houter2, ?_⟩
  unfold sliceSum
  rw [houter1]
  congr 1
  apply List.map_congr_left
  intro e2 he2
  rw [(hinner e2 he2).1]
  rfl

/-- **`Obj.volume = ∫_{start}^{end} sliceSum(u) du`** (`K = ℝ`; order of the first direction `≥ 2`). -/
theorem volume_eq_whole {o : Obj ℝ} {b1 b2 b3 : Basis ℝ} (hb : o.bases = #[b1, b2, b3])
    (hv1 : b1.Valid) (hv2 : b2.Valid) (hv3 : b3.Valid) (hp1 : b1.periodic = -1)
    (hp2 : b2.periodic = -1) (hp3 : b3.periodic = -1) (ho1 : 2 ≤ b1.order)
    (hs : o.cps.shape = [b1.numFunctions, b2.numFunctions, b3.numFunctions, 3])
    (hr : o.rational = false) {tol : ℝ} (htol : 0 < tol)
    (hsep1 : b1.SepStrict tol) (hsep2 : b2.SepStrict tol) (hsep3 : b3.SepStrict tol)
    {x1 wt1 x2 wt2 x3 wt3 : List ℝ} {D1 D2 D3 : ℕ} (hr1 : GaussRule x1 wt1 D1)
    (hr2 : GaussRule x2 wt2 D2) (hr3 : GaussRule x3 wt3 D3)
    (hD1 : (b1.order - 1 - 1) + (b1.order - 1) + (b1.order - 1) ≤ D1)
    (hD2 : (b2.order - 1) + (b2.order - 1 - 1) + (b2.order - 1) ≤ D2)
    (hD3 : (b3.order - 1) + (b3.order - 1) + (b3.order - 1 - 1) ≤ D3)
    (hx1 : ∀ i, i < wt1.length → -1 < x1.getD i 0 ∧ x1.getD i 0 < 1)
    (hx2 : ∀ i, i < wt2.length → -1 < x2.getD i 0 ∧ x2.getD i 0 < 1)
    (hx3 : ∀ i, i < wt3.length → -1 < x3.getD i 0 ∧ x3.getD i 0 < 1)
    (hadm1 : ∀ u ∈ (gaussMap (b1.knotSpans tol false).toList x1 wt1).1, b1.Admissible tol u)
    (hadm2 : ∀ u ∈ (gaussMap (b2.knotSpans tol false).toList x2 wt2).1, b2.Admissible tol u)
    (hadm3 : ∀ u ∈ (gaussMap (b3.knotSpans tol false).toList x3 wt3).1, b3.Admissible tol u)
    (hne1 : (gaussMap (b1.knotSpans tol false).toList x1 wt1).1 ≠ [])
    (hne2 : (gaussMap (b2.knotSpans tol false).toList x2 wt2).1 ≠ [])
    (hne3 : (gaussMap (b3.knotSpans tol false).toList x3 wt3).1 ≠ [])
    (hsign : ∀ e1 ∈ elements (b1.knotSpans tol false).toList,
      ∀ e2 ∈ elements (b2.knotSpans tol false).toList,
      ∀ e3 ∈ elements (b3.knotSpans tol false).toList,
      (∀ u v w, e1.1 < u → u < e1.2 → e2.1 < v → v < e2.2 → e3.1 < w → w < e3.2 →
        0 ≤ o.jacSpec b1 b2 b3 u v w) ∨
      (∀ u v w, e1.1 < u → u < e1.2 → e2.1 < v → v < e2.2 → e3.1 < w → w < e3.2 →
        o.jacSpec b1 b2 b3 u v w ≤ 0)) :
    o.volume tol x1 wt1 x2 wt2 x3 wt3
      = .ok (∫ u in b1.start..b1.stop, o.sliceSum b1 b2 b3 tol u) := by
  have hc1 := b1.spanCover_of_sepStrict hv1 tol htol.le hsep1
  have hc2 := b2.spanCover_of_sepStrict hv2 tol htol.le hsep2
  have hc3 := b3.spanCover_of_sepStrict hv3 tol htol.le hsep3
  rw [volume_eq_integral hb hv1 hv2 hv3 hp1 hp2 hp3 hs hr htol hsep1 hsep2 hsep3 hr1 hr2 hr3
    hD1 hD2 hD3 hx1 hx2 hx3 hadm1 hadm2 hadm3 hne1 hne2 hne3 hsign]
  congr 1
  have hel : ∀ e1 ∈ elements (b1.knotSpans tol false).toList,
      IntervalIntegrable (o.sliceSum b1 b2 b3 tol) MeasureTheory.volume e1.1 e1.2 ∧
      ∫ u in e1.1..e1.2, o.sliceSum b1 b2 b3 tol u
        = ((elements (b2.knotSpans tol false).toList).map (fun e2 =>
            ((elements (b3.knotSpans tol false).toList).map (fun e3 =>
              ∫ u in e1.1..e1.2, ∫ v in e2.1..e2.2, ∫ w in e3.1..e3.2,
                |o.jacSpec b1 b2 b3 u v w|)).sum)).sum :=
    fun e1 he1 => sliceSum_element o hv1 hv2 hv3 hp1 hp2 hp3 hc1 hc2 hc3 e1 he1
      (fun e2 he2 e3 he3 => hsign e1 he1 e2 he2 e3 he3)
  have hsum := (sum_elements_integral (o.sliceSum b1 b2 b3 tol) (b1.knotSpans tol false).toList 0
    (fun e he => (hel e he).1)).1
  rw [b1.knotSpans_head, b1.knotSpans_last hv1 tol htol.le hsep1 ho1] at hsum
  simp only [Option.getD_some] at hsum
  rw [← hsum]
  congr 1
  apply List.map_congr_left
  intro e1 he1
  exact ((hel e1 he1).2).symm

end Obj

end Splipy
