import Splipy.Lemmas.C04Cover
import Splipy.Lemmas.C04ZPer

/-!
# C04 helper lemmas, part 20: one periodic insertion on `ℤ`-indexed knots; the cover run

* `zext` — the periodic extension of the knot vector of a valid periodic basis to `ℤ`.
* `insertMu_spec`, `insertKnot_periodic_full`, `step_zext` — one periodic insertion (guard
  `n ≥ p+k`): the insertion index is a valid position, and the new extension is `insZ` of the old
  one on `[μ-n, μ+n]`.
-/

namespace Splipy
namespace C04

set_option linter.unusedSectionVars false

variable {K : Type} [Field K] [LinearOrder K] [IsStrictOrderedRing K] [FloorRing K]

/-- periodic extension of the knots of a periodic basis -/
def zext (c : Basis K) : ℤ → K := zper c.kn c.numFunctions (c.stop - c.start)

theorem zext_add (c : Basis K) (hv : c.Valid) (i : ℤ) :
    zext c (i + c.numFunctions) = zext c i + (c.stop - c.start) :=
  zper_add c.kn c.numFunctions _ (numFunctions_pos hv) i

theorem zext_kn (c : Basis K) (hv : c.Valid) (hper : 0 ≤ c.periodic) (i : ℕ) (hi : i < c.knots.size) :
    zext c (i : ℤ) = c.kn i :=
  zper_window c.kn c.numFunctions _ (numFunctions_pos hv) c.knots.size
    (fun j hj => hv.ghosts hper j hj) i hi

theorem zext_mono (c : Basis K) (hv : c.Valid) (k : ℕ) (hk : c.periodic = (k : Int)) :
    Monotone (zext c) := by
  have hn := numFunctions_periodic c k hk
  have hn1 := numFunctions_pos hv
  have hp := hv.order_pos
  have hsz := hv.size_ge
  apply zper_mono c.kn c.numFunctions _ hn1
  · intro i hi
    exact hv.sorted i (by omega)
  · have h0 := hv.ghosts (by rw [hk]; omega) 0 (by omega)
    rw [Nat.zero_add] at h0
    rw [← h0]
    exact kn_mono hv.sorted (by omega)

/-- The insertion index of a periodic insertion: a valid position, strictly below the next knot
    unless `x` is the end of the domain, where the index is clamped to `len(knots) - p`. -/
theorem insertMu_spec (c : Basis K) (hv : c.Valid) (k : ℕ) (hk : c.periodic = (k : Int)) (x : K)
    (hx : c.start ≤ x ∧ x ≤ c.stop) :
    c.order ≤ c.insertMu x ∧ c.insertMu x ≤ c.numFunctions + k + 1 ∧
    c.kn (c.insertMu x - 1) ≤ x ∧ x ≤ c.kn (c.insertMu x) ∧
    (x < c.stop → x < c.kn (c.insertMu x)) ∧
    (x = c.stop → c.insertMu x = c.numFunctions + k + 1) := by
  have hmono : Monotone c.kn := kn_mono hv.sorted
  have hp := hv.order_pos
  have hsz := hv.size_ge
  have hpk : k + 2 ≤ c.order := by
    rcases hv.periodic_le with h | h
    · rw [hk] at h; omega
    · rw [hk] at h; omega
  have hn := numFunctions_periodic c k hk
  obtain ⟨hm1, hm2, hm3⟩ := bisectRight_spec c.kn hmono x c.knots.size
  have hm1b : c.bisectR x ≤ c.knots.size := hm1
  have hm2b : ∀ i, i < c.bisectR x → c.kn i ≤ x := hm2
  have hm3b : ∀ i, c.bisectR x ≤ i → i < c.knots.size → x < c.kn i := hm3
  have hpm0 : c.order ≤ c.bisectR x := by
    by_contra hlt
    have := hm3b (c.order - 1) (by omega) (by omega)
    exact absurd hx.1 (not_le.2 this)
  have hmudef : c.insertMu x = min (c.bisectR x) (c.knots.size - c.order) := by
    unfold Basis.insertMu; rw [if_pos (by rw [hk]; omega)]
  have hstop : c.stop = c.kn (c.knots.size - c.order) := rfl
  by_cases hc : c.bisectR x ≤ c.knots.size - c.order
  · have e : c.insertMu x = c.bisectR x := by rw [hmudef]; exact Nat.min_eq_left hc
    rw [e]
    refine ⟨hpm0, by omega, hm2b _ (by omega), le_of_lt (hm3b _ le_rfl (by omega)),
      fun _ => hm3b _ le_rfl (by omega), fun hxe => ?_⟩
    exfalso
    have := hm3b (c.knots.size - c.order) hc (by omega)
    rw [← hstop, hxe] at this
    exact lt_irrefl _ this
  · have e : c.insertMu x = c.knots.size - c.order := by rw [hmudef]; exact Nat.min_eq_right (by omega)
    rw [e]
    refine ⟨by omega, by omega, hm2b _ (by omega), hx.2, fun h => h, fun _ => by omega⟩

/-- One periodic insertion with everything the cover argument needs. -/
theorem insertKnot_periodic_full (c : Basis K) (hv : c.Valid) (k : ℕ) (hk : c.periodic = (k : Int))
    (hguard : c.order + k ≤ c.numFunctions) (x : K) (hx : c.start ≤ x ∧ x ≤ c.stop) :
    ∃ c' C, c.insertKnot x = .ok (c', C) ∧ PerRefines c c' C 1 ∧
      ∃ lo, lo ≤ c.insertMu x ∧ c.insertMu x ≤ lo + c.numFunctions ∧
        lo + c.numFunctions ≤ c.knots.size ∧
        ∀ j, lo ≤ j → j ≤ lo + c.numFunctions → c'.kn j = insertSeq c.kn (c.insertMu x) x j := by
  obtain ⟨c', C, e1, e2, e3, e4, e5, e6, e7, e8, _, e10, e11⟩ :=
    insertKnot_periodic_geom_le c hv k hk hguard x hx
  obtain ⟨c'', C'', f1, _, _, _, _, _, _, _, _, _, fkn, _⟩ :=
    insertKnot_periodic_le c hv k hk hguard x hx
  have hcc : c'' = c' := by
    rw [e1] at f1
    injection f1 with f1
    exact (congrArg Prod.fst f1).symm
  subst hcc
  obtain ⟨hm1, hm2, _⟩ := insertMu_spec c hv k hk x hx
  have hp := hv.order_pos
  have hsz := hv.size_ge
  have hn := numFunctions_periodic c k hk
  refine ⟨c'', C, e1, ⟨e2, e3, e4, e5, e6, e7, e8, e10, e11⟩, ?_⟩
  by_cases hB2 : c.numFunctions + 1 ≤ c.insertMu x
  · refine ⟨c.order + k + 1, by omega, by omega, by omega, fun j h1 h2 => ?_⟩
    rw [fkn j (by omega)]
    unfold repSeq
    rw [if_neg (by omega), if_pos hB2, if_neg (by omega)]
  · refine ⟨0, by omega, by omega, by omega, fun j h1 h2 => ?_⟩
    rw [fkn j (by omega)]
    unfold repSeq
    by_cases hB1 : c.insertMu x ≤ c.order + k
    · rw [if_pos hB1, if_neg (by omega)]
    · rw [if_neg hB1, if_neg hB2]

/-- One periodic insertion on the `ℤ`-extension: `insZ` at the insertion index on `[μ-n, μ+n]`. -/
theorem step_zext (c c' : Basis K) (C : Mat K) (hv : c.Valid) (k : ℕ) (hk : c.periodic = (k : Int))
    (x : K) (hr : PerRefines c c' C 1) (lo : ℕ) (h1 : lo ≤ c.insertMu x)
    (h2 : c.insertMu x ≤ lo + c.numFunctions) (h3 : lo + c.numFunctions ≤ c.knots.size)
    (hkn : ∀ j, lo ≤ j → j ≤ lo + c.numFunctions → c'.kn j = insertSeq c.kn (c.insertMu x) x j) :
    ∀ i : ℤ, (c.insertMu x : ℤ) - c.numFunctions ≤ i → i ≤ (c.insertMu x : ℤ) + c.numFunctions →
      zext c' i = insZ (zext c) (c.insertMu x) x i := by
  have hper : 0 ≤ c.periodic := by rw [hk]; omega
  have hper' : 0 ≤ c'.periodic := by rw [hr.periodic_eq]; exact hper
  have h0 := zext_add c hv
  have h1' : ∀ i, zext c' (i + ((c.numFunctions : ℤ) + 1)) = zext c' i + (c.stop - c.start) := by
    intro i
    have := zext_add c' hr.valid i
    rw [hr.num_eq, hr.start_eq, hr.stop_eq] at this
    push_cast at this
    exact this
  apply insZ_extend (zext c) (zext c') c.numFunctions (c.stop - c.start) (c.insertMu x) lo x h0 h1'
    (by exact_mod_cast h1) (by exact_mod_cast h2)
  intro i hi1 hi2
  obtain ⟨j, rfl⟩ : ∃ j : ℕ, i = (j : ℤ) := ⟨i.toNat, by omega⟩
  have hj1 : lo ≤ j := by exact_mod_cast hi1
  have hj2 : j ≤ lo + c.numFunctions := by exact_mod_cast hi2
  rw [zext_kn c' hr.valid hper' j (by rw [hr.size_eq]; omega), hkn j hj1 hj2]
  unfold insertSeq insZ
  by_cases ha : j < c.insertMu x
  · have ha' : (j : ℤ) < (c.insertMu x : ℤ) := by exact_mod_cast ha
    rw [if_pos ha, if_pos ha', zext_kn c hv hper j (by omega)]
  · have ha' : ¬ (j : ℤ) < (c.insertMu x : ℤ) := by exact_mod_cast ha
    rw [if_neg ha, if_neg ha']
    by_cases hb : j = c.insertMu x
    · have hb' : (j : ℤ) = (c.insertMu x : ℤ) := by exact_mod_cast hb
      rw [if_pos hb, if_pos hb']
    · have hb' : ¬ (j : ℤ) = (c.insertMu x : ℤ) := by exact_mod_cast hb
      rw [if_neg hb, if_neg hb']
      have : ((j : ℤ) - 1) = ((j - 1 : ℕ) : ℤ) := by omega
      rw [this, zext_kn c hv hper (j - 1) (by omega)]

/-! ### the loop over the `R` images -/

/-- one pass of the cover loop: `C = cover.insert_knot(new_knot) @ C; new_knot += T` -/
def coverStep (T : K) (st : Basis K × Mat K × K) : PyM (Basis K × Mat K × K) :=
  match st.1.insertKnotPlain st.2.2 with
  | .error e => .error e
  | .ok (c', Ck) => .ok (c', Mat.mul Ck st.2.1, st.2.2 + T)

/-- the state after `j` passes -/
def coverRun (T : K) (s0 : Basis K × Mat K × K) : ℕ → PyM (Basis K × Mat K × K)
  | 0 => .ok s0
  | j + 1 => match coverRun T s0 j with
    | .error e => .error e
    | .ok st => coverStep T st

theorem foldlM_range_run (T : K) (s0 : Basis K × Mat K × K) (R : ℕ) :
    (List.range R).foldlM (fun st _ => coverStep T st) s0 = coverRun T s0 R := by
  induction R with
  | zero => rfl
  | succ R ih =>
    rw [List.range_succ, List.foldlM_append, ih]
    show (coverRun T s0 R >>= fun st => [R].foldlM (fun st _ => coverStep T st) st) = _
    rw [coverRun]
    cases coverRun T s0 R with
    | error e => rfl
    | ok st =>
      show [R].foldlM (fun st _ => coverStep T st) st = coverStep T st
      rw [List.foldlM_cons]
      show (coverStep T st >>= fun s => [].foldlM (fun st _ => coverStep T st) s) = _
      cases coverStep T st with
      | error e => rfl
      | ok s => rfl

/-- `insert_knot` in the cover branch: the loop, then the first `len(knots)+1` knots and the first
    `n+1` rows. -/
theorem insertKnot_cover_eq (b : Basis K) (x0 x : K) (hw : wrapX b x0 = .ok x) (hc : coverCond b)
    (hn : 1 ≤ b.numFunctions)
    (hnI : (b.knots.size : Int) - (b.order : Int) - (b.periodic + 1) = (b.numFunctions : Int)) :
    b.insertKnot x0 =
      match coverRun (b.stop - b.start)
          (coverBasis b ((b.order + b.periodic.toNat + b.numFunctions - 1) / b.numFunctions),
           Basis.tileIdentity b.numFunctions
             ((b.order + b.periodic.toNat + b.numFunctions - 1) / b.numFunctions), x)
          ((b.order + b.periodic.toNat + b.numFunctions - 1) / b.numFunctions) with
      | .error e => .error e
      | .ok (cover, C, _) =>
        .ok ({ b with knots := cover.knots.extract 0 (b.knots.size + 1) },
             C.extract 0 (b.numFunctions + 1)) := by
  unfold Basis.insertKnot
  rw [← wrapX_eq, hw]
  simp only []
  rw [if_pos (show b.periodic ≥ 0 ∧ (b.knots.size : Int) - (b.order : Int) - (b.periodic + 1)
    < (b.order : Int) + b.periodic from hc), hnI, if_neg (by omega), if_neg (by omega)]
  rw [← foldlM_range_run]
  rfl

theorem tile_shape (n R : ℕ) : Shape (R * n) n (Basis.tileIdentity n R : Mat K) :=
  shape_ofFn2 (R * n) n (fun r c => if r % n = c then 1 else 0)

theorem mulVec_tile (n R : ℕ) (hn : 0 < n) (c : ℕ → K) (r : ℕ) (hr : r < R * n) :
    mulVec (Basis.tileIdentity n R : Mat K) n c r = c (r % n) := by
  unfold mulVec
  have : ∀ j ∈ Finset.range n, entry (Basis.tileIdentity n R : Mat K) r j * c j
      = if r % n = j then c j else 0 := by
    intro j hj
    unfold Basis.tileIdentity
    rw [entry_ofFn2 (R * n) n (fun r c => if r % n = c then 1 else 0) r j hr (Finset.mem_range.1 hj)]
    split_ifs <;> simp
  rw [Finset.sum_congr rfl this, Finset.sum_ite_eq (Finset.range n) (r % n),
    if_pos (Finset.mem_range.2 (Nat.mod_lt _ hn))]

/-- basis / matrix component of the state after `j` passes (junk values if the run fails) -/
def runB (T : K) (s0 : Basis K × Mat K × K) (j : ℕ) : Basis K :=
  match coverRun T s0 j with
  | .ok st => st.1
  | .error _ => s0.1

def runM (T : K) (s0 : Basis K × Mat K × K) (j : ℕ) : Mat K :=
  match coverRun T s0 j with
  | .ok st => st.2.1
  | .error _ => s0.2.1

/-- What is known about the state after `j` passes over the `(r+1)`-fold cover of `b`. -/
structure RunState (b : Basis K) (k r j : ℕ) (c : Basis K) (M : Mat K) : Prop where
  valid : c.Valid
  per : c.periodic = (k : Int)
  order : c.order = b.order
  num : c.numFunctions = (r + 1) * b.numFunctions + j
  size : c.knots.size = b.knots.size + r * b.numFunctions + j
  start : c.start = b.start
  stop : c.stop = b.stop + (r : K) * (b.stop - b.start)
  shape : Shape ((r + 1) * b.numFunctions + j) b.numFunctions M
  same : ∀ (c0 : ℕ → K) (s : Side) (d : ℕ) (t : K),
    s.mem b.start (b.stop + (r : K) * (b.stop - b.start)) t →
    wsum s c.kn (b.order - 1) ((r + 1) * b.numFunctions + j + k + 1) ((r + 1) * b.numFunctions + j)
        (mulVec M b.numFunctions c0) d t
      = wsum s (coverBasis b (r + 1)).kn (b.order - 1) ((r + 1) * b.numFunctions + k + 1)
          ((r + 1) * b.numFunctions) (fun i => c0 (i % b.numFunctions)) d t

/-- the `ℤ`-level description of the pass from state `c` to state `c'` -/
def StepZ (c c' : Basis K) (xj : K) : Prop :=
  ∀ i : ℤ, (c.insertMu xj : ℤ) - c.numFunctions ≤ i → i ≤ (c.insertMu xj : ℤ) + c.numFunctions →
    zext c' i = insZ (zext c) (c.insertMu xj) xj i

section run

variable (b : Basis K) (hv : b.Valid) (k : ℕ) (hk : b.periodic = (k : Int)) (r : ℕ)
  (hR : b.order + k ≤ (r + 1) * b.numFunctions) (x : K) (hx : b.start ≤ x ∧ x ≤ b.stop)

include hv hk hR hx

theorem runState_zero :
    RunState b k r 0 (coverBasis b (r + 1)) (Basis.tileIdentity b.numFunctions (r + 1)) := by
  obtain ⟨h1, h2, h3, h4⟩ := coverBasis_valid b hv k hk r
  have hn1 := numFunctions_pos hv
  refine ⟨h1, hk, rfl, h2, ?_, h3, h4, tile_shape _ _, fun c0 s d t _ => ?_⟩
  · rw [coverBasis_size b hv (r + 1)]; rfl
  · exact wsum_congr s _ _ _ _ (by nlinarith) _ _ d t
      (fun i hi => mulVec_tile b.numFunctions (r + 1) hn1 c0 i hi)

/-- one pass -/
theorem runState_step (j : ℕ) (hj : j ≤ r) (c : Basis K) (M : Mat K)
    (hs : RunState b k r j c M) :
    ∃ c' C, coverStep (b.stop - b.start) (c, M, x + (j : K) * (b.stop - b.start))
        = .ok (c', Mat.mul C M, x + ((j + 1 : ℕ) : K) * (b.stop - b.start)) ∧
      RunState b k r (j + 1) c' (Mat.mul C M) ∧
      StepZ c c' (x + (j : K) * (b.stop - b.start)) := by
  have hT : 0 < b.stop - b.start := sub_pos.2 hv.start_lt_stop
  have hn1 := numFunctions_pos hv
  have hjK : (j : K) ≤ (r : K) := by exact_mod_cast hj
  have hxj : c.start ≤ x + (j : K) * (b.stop - b.start) ∧ x + (j : K) * (b.stop - b.start) ≤ c.stop := by
    rw [hs.start, hs.stop]
    have h1 : 0 ≤ (j : K) * (b.stop - b.start) := mul_nonneg (Nat.cast_nonneg j) (le_of_lt hT)
    have h2 : (j : K) * (b.stop - b.start) ≤ (r : K) * (b.stop - b.start) :=
      mul_le_mul_of_nonneg_right hjK (le_of_lt hT)
    exact ⟨by linarith [hx.1], by linarith [hx.2]⟩
  have hguard : c.order + k ≤ c.numFunctions := by rw [hs.order, hs.num]; omega
  obtain ⟨c', C, e1, hr, lo, l1, l2, l3, lkn⟩ :=
    insertKnot_periodic_full c hs.valid k hs.per hguard _ hxj
  have hplain : c.insertKnotPlain (x + (j : K) * (b.stop - b.start)) = .ok (c', C) := by
    rw [← insertKnot_eq_plain c _ (not_coverCond_of_guard c hs.valid.order_pos k hs.per hguard)]
    exact e1
  have hA : Shape ((r + 1) * b.numFunctions + j + 1) ((r + 1) * b.numFunctions + j) C := by
    have := hr.shape; rwa [hs.num] at this
  refine ⟨c', C, ?_, ⟨hr.valid, hr.periodic_eq.trans hs.per, hr.order_eq.trans hs.order, ?_, ?_,
    hr.start_eq.trans hs.start, hr.stop_eq.trans hs.stop, ?_, fun c0 s d t ht => ?_⟩, ?_⟩
  · unfold coverStep
    simp only [hplain]
    congr 3
    push_cast; ring
  · rw [hr.num_eq, hs.num]; omega
  · rw [hr.size_eq, hs.size]; omega
  · exact shape_mul hA hs.shape (by nlinarith)
  · have hmv : ∀ i, i < (r + 1) * b.numFunctions + (j + 1) →
        mulVec (Mat.mul C M) b.numFunctions c0 i
          = mulVec C ((r + 1) * b.numFunctions + j) (mulVec M b.numFunctions c0) i :=
      fun i hi => mulVec_mul hA hs.shape (by nlinarith) c0 i (by omega)
    rw [wsum_congr s _ _ _ _ (by omega) _ _ d t hmv]
    have e2 := hr.same (mulVec M b.numFunctions c0) s d t (by rw [hs.start, hs.stop]; exact ht)
    have hnAll : c.nAll = (r + 1) * b.numFunctions + j + k + 1 := by
      have h1 := numFunctions_periodic c k hs.per
      have h2 := hs.num
      have h3 : 1 ≤ (r + 1) * b.numFunctions := by nlinarith
      unfold Basis.nAll
      omega
    rw [hs.order, hs.num, hnAll] at e2
    rw [show (r + 1) * b.numFunctions + (j + 1) = (r + 1) * b.numFunctions + j + 1 by omega,
      show (r + 1) * b.numFunctions + j + 1 + k + 1 = (r + 1) * b.numFunctions + j + k + 1 + 1 by omega,
      e2]
    exact hs.same c0 s d t ht
  · exact step_zext c c' C hs.valid k hs.per _ hr lo l1 l2 l3 lkn

/-- All `r+1` passes succeed; state and step facts for every pass. -/
theorem run_all (j : ℕ) (hj : j ≤ r + 1) :
    let s0 := (coverBasis b (r + 1), (Basis.tileIdentity b.numFunctions (r + 1) : Mat K), x)
    coverRun (b.stop - b.start) s0 j
        = .ok (runB (b.stop - b.start) s0 j, runM (b.stop - b.start) s0 j,
            x + (j : K) * (b.stop - b.start)) ∧
      RunState b k r j (runB (b.stop - b.start) s0 j) (runM (b.stop - b.start) s0 j) ∧
      (∀ i, i < j → StepZ (runB (b.stop - b.start) s0 i) (runB (b.stop - b.start) s0 (i + 1))
        (x + (i : K) * (b.stop - b.start))) := by
  intro s0
  induction j with
  | zero =>
    refine ⟨?_, runState_zero b hv k hk r hR x hx, fun i hi => absurd hi (Nat.not_lt_zero _)⟩
    show Except.ok s0 = _
    simp [runB, runM, coverRun, s0]
  | succ j ih =>
    obtain ⟨e1, hs, hz⟩ := ih (by omega)
    obtain ⟨c', C, e2, hs', hz'⟩ := runState_step b hv k hk r hR x hx j (by omega) _ _ hs
    have e3 : coverRun (b.stop - b.start) s0 (j + 1)
        = .ok (c', Mat.mul C (runM (b.stop - b.start) s0 j),
            x + ((j + 1 : ℕ) : K) * (b.stop - b.start)) := by
      rw [coverRun, e1]
      exact e2
    have eB : runB (b.stop - b.start) s0 (j + 1) = c' := by
      unfold runB; rw [e3]
    have eM : runM (b.stop - b.start) s0 (j + 1) = Mat.mul C (runM (b.stop - b.start) s0 j) := by
      have : runM (b.stop - b.start) s0 (j + 1) = (match coverRun (b.stop - b.start) s0 (j + 1) with
        | .ok st => st.2.1
        | .error _ => s0.2.1) := rfl
      rw [this, e3]
    refine ⟨by rw [eB, eM]; exact e3, by rw [eB, eM]; exact hs', fun i hi => ?_⟩
    by_cases hc : i < j
    · exact hz i hc
    · have : i = j := by omega
      subst this
      rw [eB]; exact hz'

end run

end C04
end Splipy
