import Splipy.Lemmas.C10Cummax
import Splipy.Lemmas.EvalRow
import Splipy.Model.BasisOps
import Mathlib.Tactic.Linarith

/-!
# Lemmas for property C08: the knot half of the round trip

`Basis.openAtSeam b` is the open knot vector of a periodic basis cut at its seam (`p` copies of
`start`, the knots strictly between the seam copies, `p` copies of `end`): what `split(start)`
produces.  `BSplineBasis.make_periodic(k)` rebuilds from it exactly the periodic knot vector
(`makePeriodicKnots_openAtSeam`), provided there are at least `p - 1` functions.
-/

namespace Splipy

set_option linter.unusedSectionVars false
set_option linter.unusedVariables false

variable {K : Type} [Field K] [LinearOrder K] [IsStrictOrderedRing K]

/-- Reading a five-fold append segment by segment. -/
theorem getElem?_append5 {α : Type} (A B C D E : Array α) (f : ℕ → Option α)
    (hA : ∀ j, j < A.size → A[j]? = f j)
    (hB : ∀ j, j < B.size → B[j]? = f (A.size + j))
    (hC : ∀ j, j < C.size → C[j]? = f (A.size + B.size + j))
    (hD : ∀ j, j < D.size → D[j]? = f (A.size + B.size + C.size + j))
    (hE : ∀ j, j < E.size → E[j]? = f (A.size + B.size + C.size + D.size + j))
    (hf : ∀ i, A.size + B.size + C.size + D.size + E.size ≤ i → f i = none) (i : ℕ) :
    (A ++ B ++ C ++ D ++ E)[i]? = f i := by
  simp only [Array.getElem?_append, Array.size_append]
  by_cases h1 : i < A.size
  · have h2 : i < A.size + B.size := by omega
    have h3 : i < A.size + B.size + C.size := by omega
    have h4 : i < A.size + B.size + C.size + D.size := by omega
    simp only [h1, h2, h3, h4, if_true]
    exact hA i h1
  · by_cases h2 : i < A.size + B.size
    · have h3 : i < A.size + B.size + C.size := by omega
      have h4 : i < A.size + B.size + C.size + D.size := by omega
      simp only [h1, h2, h3, h4, if_true, if_false]
      rw [hB (i - A.size) (by omega)]; congr 1; omega
    · by_cases h3 : i < A.size + B.size + C.size
      · have h4 : i < A.size + B.size + C.size + D.size := by omega
        simp only [h1, h2, h3, h4, if_true, if_false]
        rw [hC (i - (A.size + B.size)) (by omega)]; congr 1; omega
      · by_cases h4 : i < A.size + B.size + C.size + D.size
        · simp only [h1, h2, h3, h4, if_true, if_false]
          rw [hD (i - (A.size + B.size + C.size)) (by omega)]; congr 1; omega
        · simp only [h1, h2, h3, h4, if_false]
          by_cases h5 : i - (A.size + B.size + C.size + D.size) < E.size
          · rw [hE _ h5]; congr 1; omega
          · rw [hf i (by omega)]
            simp; omega

namespace Basis

/-- The knot vector `BSplineBasis.make_periodic(continuity)` hands to the constructor. -/
def makePeriodicKnots (b : Basis K) (continuity : ℕ) : Array K :=
  let deg := b.order - 1
  let nk := if deg = 0 then #[] else b.knots.extract deg (b.knots.size - deg)
  let diff := b.stop - b.start
  let nReps := deg - continuity - 1
  let nCopy := continuity + 1
  let m := nk.size
  let head := (nk.extract (m - nCopy - 1) (m - 1)).map (fun x => x - diff)
  let tail := (nk.extract 1 (nCopy + 1)).map (fun x => x + diff)
  head ++ Array.replicate nReps b.start ++ nk ++ Array.replicate nReps b.stop ++ tail

theorem makePeriodic_eq (b : Basis K) (tol : K) (continuity : ℕ) :
    b.makePeriodic tol continuity = Basis.mk? b.order (b.makePeriodicKnots continuity) continuity tol :=
  rfl

/-- The periodic basis opened at its seam. -/
def openAtSeam (b : Basis K) : Basis K :=
  { order := b.order,
    knots := Array.replicate b.order b.start
              ++ b.knots.extract b.order (b.numFunctions + b.periodic.toNat + 1)
              ++ Array.replicate b.order b.stop,
    periodic := -1 }

section
variable {b : Basis K} (hv : b.Valid) (hper : 0 ≤ b.periodic)
include hv hper

theorem per_size : b.knots.size = b.numFunctions + b.order + b.periodic.toNat + 1 := by
  have h1 := hv.size_ge
  have h2 := hv.periodic_le
  have h3 := hv.order_pos
  unfold Basis.numFunctions
  omega

theorem per_nAll : b.nAll = b.numFunctions + b.periodic.toNat + 1 := by
  have := per_size hv hper
  unfold Basis.nAll; omega

theorem per_k_le : b.periodic.toNat + 2 ≤ b.order := by
  have h2 := hv.periodic_le
  omega

theorem per_getElem? (j : ℕ) (hj : j < b.knots.size) : b.knots[j]? = some (b.kn j) := by
  rw [Basis.kn_of_lt b hj]; simp [hj]

/-- The seam copies at the end equal `stop`. -/
theorem per_kn_stop (j : ℕ) (h1 : b.numFunctions + b.periodic.toNat + 1 ≤ j)
    (h2 : j + 1 ≤ b.numFunctions + b.order) : b.kn j = b.stop := by
  have hs := per_size hv hper
  have hk := per_k_le hv hper
  have hp := hv.order_pos
  have hn := hv.numFunctions_pos
  have hmono := hv.kn_mono
  have hg := hv.ghosts hper (b.order - 1) (by omega)
  have hstart : b.kn (b.order - 1) = b.start := rfl
  have hstop : b.kn (b.numFunctions + b.periodic.toNat + 1) = b.stop := by
    rw [← per_nAll hv hper]; rfl
  have hup : b.kn (b.order - 1 + b.numFunctions) = b.stop := by rw [hg, hstart]; ring
  apply le_antisymm
  · rw [← hup]; exact hmono (by omega)
  · rw [← hstop]; exact hmono h1

/-- The seam copies at the start equal `start`. -/
theorem per_kn_start (j : ℕ) (h1 : b.periodic.toNat + 1 ≤ j) (h2 : j + 1 ≤ b.order) :
    b.kn j = b.start := by
  have hs := per_size hv hper
  have hg := hv.ghosts hper j (by omega)
  have := per_kn_stop hv hper (j + b.numFunctions) (by omega) (by omega)
  rw [hg] at this
  linarith


/-- Entries of the opened knot vector (`p - 1 ≤ n`). -/
theorem openAtSeam_getElem? (hn : b.order ≤ b.numFunctions + 1) (i : ℕ) :
    (b.openAtSeam).knots[i]? =
      if i < b.order then some b.start
      else if i < b.numFunctions + b.periodic.toNat + 1 then some (b.kn i)
      else if i < b.numFunctions + b.periodic.toNat + 1 + b.order then some b.stop
      else none := by
  have hs := per_size hv hper
  have hk := per_k_le hv hper
  unfold openAtSeam
  simp only [Array.getElem?_append, Array.getElem?_replicate, Array.getElem?_extract,
    Array.size_append, Array.size_replicate, Array.size_extract]
  have hmin : min (b.numFunctions + b.periodic.toNat + 1) b.knots.size
      = b.numFunctions + b.periodic.toNat + 1 := by omega
  rw [hmin]
  by_cases h1 : i < b.order
  · simp [h1]
    intro h; omega
  · by_cases h2 : i < b.numFunctions + b.periodic.toNat + 1
    · have h3 : i < b.order + (b.numFunctions + b.periodic.toNat + 1 - b.order) := by omega
      have h4 : i - b.order < b.numFunctions + b.periodic.toNat + 1 - b.order := by omega
      simp only [h1, h2, h3, h4, if_true, if_false]
      rw [show b.order + (i - b.order) = i by omega, per_getElem? hv hper i (by omega)]
    · have h3 : ¬ i < b.order + (b.numFunctions + b.periodic.toNat + 1 - b.order) := by omega
      simp only [h1, h2, h3, if_false]
      by_cases h5 : i < b.numFunctions + b.periodic.toNat + 1 + b.order
      · have : i - (b.order + (b.numFunctions + b.periodic.toNat + 1 - b.order)) < b.order := by omega
        simp [h5, this]
      · have : ¬ i - (b.order + (b.numFunctions + b.periodic.toNat + 1 - b.order)) < b.order := by omega
        simp [h5, this]

theorem openAtSeam_size (hn : b.order ≤ b.numFunctions + 1) :
    (b.openAtSeam).knots.size = b.numFunctions + b.periodic.toNat + 1 + b.order := by
  have hs := per_size hv hper
  unfold openAtSeam
  simp only [Array.size_append, Array.size_replicate, Array.size_extract]
  omega

theorem openAtSeam_kn (hn : b.order ≤ b.numFunctions + 1) (i : ℕ)
    (hi : i < b.numFunctions + b.periodic.toNat + 1 + b.order) :
    (b.openAtSeam).kn i =
      if i < b.order then b.start
      else if i < b.numFunctions + b.periodic.toNat + 1 then b.kn i else b.stop := by
  have hsz := openAtSeam_size hv hper hn
  have h := openAtSeam_getElem? hv hper hn i
  rw [Basis.kn_of_lt _ (by rw [hsz]; exact hi)]
  have h' : (b.openAtSeam).knots[i]? = some ((b.openAtSeam).knots[i]'(by rw [hsz]; exact hi)) := by
    simp [hsz, hi]
  rw [h'] at h
  split_ifs at h ⊢ with h1 h2
  · exact Option.some.inj h
  · exact Option.some.inj h
  · exact Option.some.inj h


theorem openAtSeam_start (hn : b.order ≤ b.numFunctions + 1) : (b.openAtSeam).start = b.start := by
  have hp := hv.order_pos
  have := openAtSeam_kn hv hper hn (b.order - 1) (by omega)
  rw [if_pos (by omega)] at this
  exact this

theorem openAtSeam_stop (hn : b.order ≤ b.numFunctions + 1) : (b.openAtSeam).stop = b.stop := by
  have hp := hv.order_pos
  have hsz := openAtSeam_size hv hper hn
  unfold Basis.stop
  rw [hsz, show (b.openAtSeam).order = b.order from rfl,
    show b.numFunctions + b.periodic.toNat + 1 + b.order - b.order
      = b.numFunctions + b.periodic.toNat + 1 by omega,
    openAtSeam_kn hv hper hn _ (by omega), if_neg (by omega), if_neg (by omega)]
  rfl

/-- The inner knots `knots[deg:-deg]` of the opened vector are the knots `p-1 … n+k+1` of `b`. -/
theorem openAtSeam_inner (hn : b.order ≤ b.numFunctions + 1) (j : ℕ) :
    ((b.openAtSeam).knots.extract (b.order - 1) ((b.openAtSeam).knots.size - (b.order - 1)))[j]?
      = if j < b.numFunctions + b.periodic.toNat + 3 - b.order then some (b.kn (b.order - 1 + j))
        else none := by
  have hp := hv.order_pos
  have hk := per_k_le hv hper
  have hsz := openAtSeam_size hv hper hn
  rw [Array.getElem?_extract, hsz]
  have hmin : min (b.numFunctions + b.periodic.toNat + 1 + b.order - (b.order - 1))
      (b.numFunctions + b.periodic.toNat + 1 + b.order) - (b.order - 1)
      = b.numFunctions + b.periodic.toNat + 3 - b.order := by omega
  rw [hmin]
  by_cases hj : j < b.numFunctions + b.periodic.toNat + 3 - b.order
  · rw [if_pos hj, if_pos hj, openAtSeam_getElem? hv hper hn]
    by_cases h1 : b.order - 1 + j < b.order
    · have : j = 0 := by omega
      subst this
      rw [if_pos h1]; rfl
    · rw [if_neg h1]
      by_cases h2 : b.order - 1 + j < b.numFunctions + b.periodic.toNat + 1
      · rw [if_pos h2]
      · rw [if_neg h2, if_pos (by omega)]
        have : b.order - 1 + j = b.numFunctions + b.periodic.toNat + 1 := by omega
        rw [this, ← per_nAll hv hper]; rfl
  · rw [if_neg hj, if_neg hj]

/-- **Knot half of the round trip**: closing the opened knot vector with the original continuity
gives back the periodic knot vector (`p - 1 ≤ n`). -/
theorem makePeriodicKnots_openAtSeam (hn : b.order ≤ b.numFunctions + 1) :
    (b.openAtSeam).makePeriodicKnots b.periodic.toNat = b.knots := by
  have hp := hv.order_pos
  have hk := per_k_le hv hper
  have hs := per_size hv hper
  have hsz := openAtSeam_size hv hper hn
  have hinner := openAtSeam_inner hv hper hn
  set k := b.periodic.toNat with hkdef
  set n := b.numFunctions with hndef
  set p := b.order with hpdef
  unfold makePeriodicKnots
  simp only []
  rw [openAtSeam_start hv hper hn, openAtSeam_stop hv hper hn,
    show (b.openAtSeam).order = p from rfl]
  rw [if_neg (show ¬ p - 1 = 0 by have := hv.periodic_le; have := hv.order_pos; omega)]
  set nk := (b.openAtSeam).knots.extract (p - 1) ((b.openAtSeam).knots.size - (p - 1)) with hnk
  have hnksz : nk.size = n + k + 3 - p := by
    rw [hnk, Array.size_extract, hsz]; omega
  have hreps : p - 1 - k - 1 = p - 2 - k := by omega
  have hcopy : p - 1 - (p - 1 - k - 1) = k + 1 := by omega
  rw [hnksz, hreps]
  apply Array.ext_getElem?
  intro i
  have hT : ∀ j, j + n < b.knots.size → b.kn (j + n) = b.kn j + (b.stop - b.start) :=
    fun j hj => hv.ghosts hper j hj
  refine (getElem?_append5 _ _ _ _ _ (fun i => b.knots[i]?) ?_ ?_ ?_ ?_ ?_ ?_ i)
  · -- head
    intro j hj
    simp only [Array.size_map, Array.size_extract, hnksz] at hj
    rw [Array.getElem?_map, Array.getElem?_extract, hnksz, if_pos (by omega), hinner,
      if_pos (by omega)]
    show some (b.kn (p - 1 + (n + k + 3 - p - (k + 1) - 1 + j)) - (b.stop - b.start)) = b.knots[j]?
    rw [show p - 1 + (n + k + 3 - p - (k + 1) - 1 + j) = j + n by omega, hT j (by omega),
      per_getElem? hv hper j (by omega)]
    congr 1; ring
  · -- seam copies of start
    intro j hj
    simp only [Array.size_replicate] at hj
    simp only [Array.size_map, Array.size_extract, hnksz]
    rw [Array.getElem?_replicate, if_pos hj, per_getElem? hv hper _ (by omega),
      per_kn_start hv hper _ (by omega) (by omega)]
  · -- inner knots
    intro j hj
    rw [hnksz] at hj
    simp only [Array.size_map, Array.size_extract, hnksz, Array.size_replicate]
    rw [hinner, if_pos hj, per_getElem? hv hper _ (by omega)]
    congr 2; omega
  · -- seam copies of stop
    intro j hj
    simp only [Array.size_replicate] at hj
    simp only [Array.size_map, Array.size_extract, hnksz, Array.size_replicate]
    rw [Array.getElem?_replicate, if_pos hj, per_getElem? hv hper _ (by omega),
      per_kn_stop hv hper _ (by omega) (by omega)]
  · -- tail
    intro j hj
    simp only [Array.size_map, Array.size_extract, hnksz] at hj
    simp only [Array.size_map, Array.size_extract, hnksz, Array.size_replicate]
    rw [Array.getElem?_map, Array.getElem?_extract, hnksz, if_pos (by omega), hinner,
      if_pos (by omega)]
    show some (b.kn (p - 1 + (1 + j)) + (b.stop - b.start)) = _
    have e : p - 1 + (1 + j) = p + j := by omega
    rw [e, ← hT (p + j) (by omega), per_getElem? hv hper _ (by omega)]
    congr 2; omega
  · intro i hi
    simp only [Array.size_map, Array.size_extract, hnksz, Array.size_replicate] at hi
    simp only [Array.getElem?_eq_none_iff]
    omega


theorem getD_eq_kn (i : ℕ) (hi : i < b.knots.size) : b.knots.getD i 0 = b.kn i := by
  rw [Basis.kn_of_lt b hi]; simp [Array.getD, hi]

/-- The constructor accepts a valid periodic basis (any tolerance `≥ 0`) and returns it unchanged. -/
theorem mk?_of_valid_periodic (tol : K) (htol : 0 ≤ tol) :
    Basis.mk? b.order b.knots b.periodic tol = .ok b := by
  have hp := hv.order_pos
  have hk := per_k_le hv hper
  have hs := per_size hv hper
  have hmax : max b.periodic (-1) = b.periodic := by omega
  unfold Basis.mk?
  simp only [hmax]
  rw [if_neg (by omega), if_neg (by have := hv.size_ge; omega),
    if_neg (show ¬ (b.periodic ≥ 0 ∧ (b.knots.size : Int) < (b.order : Int) + b.periodic + 1) by omega)]
  have hbad : ¬ (b.periodic ≥ 0 ∧ (List.range ((b.order : Int) + b.periodic - 1).toNat).any (fun i =>
      let i : Int := i
      decide (|((fun (i : Int) => b.knots.getD (if i < 0 then (b.knots.size : Int) + i else i).toNat 0) (i+1)
          - (fun (i : Int) => b.knots.getD (if i < 0 then (b.knots.size : Int) + i else i).toNat 0) i)
        - ((fun (i : Int) => b.knots.getD (if i < 0 then (b.knots.size : Int) + i else i).toNat 0)
              (-(b.order:Int) - b.periodic + i)
          - (fun (i : Int) => b.knots.getD (if i < 0 then (b.knots.size : Int) + i else i).toNat 0)
              (-(b.order:Int) - b.periodic - 1 + i))| > tol)) = true) := by
    rintro ⟨_, h⟩
    rw [List.any_eq_true] at h
    obtain ⟨i, hi, h⟩ := h
    rw [List.mem_range] at hi
    simp only [decide_eq_true_eq] at h
    have hi' : i + 1 < b.order + b.periodic.toNat := by omega
    have e1 : (if ((i : Int) + 1) < 0 then (b.knots.size : Int) + ((i : Int) + 1) else ((i : Int) + 1)).toNat
        = i + 1 := by
      rw [if_neg (by omega)]; omega
    have e2 : (if (i : Int) < 0 then (b.knots.size : Int) + (i : Int) else (i : Int)).toNat = i := by
      rw [if_neg (by omega)]; omega
    have e3 : (if (-(b.order:Int) - b.periodic + i) < 0 then (b.knots.size : Int) + (-(b.order:Int) - b.periodic + i)
        else (-(b.order:Int) - b.periodic + i)).toNat = i + 1 + b.numFunctions := by
      rw [if_pos (by omega)]; omega
    have e4 : (if (-(b.order:Int) - b.periodic - 1 + i) < 0 then (b.knots.size : Int) + (-(b.order:Int) - b.periodic - 1 + i)
        else (-(b.order:Int) - b.periodic - 1 + i)).toNat = i + b.numFunctions := by
      rw [if_pos (by omega)]; omega
    rw [e1, e2, e3, e4, getD_eq_kn hv hper _ (by omega), getD_eq_kn hv hper _ (by omega),
      getD_eq_kn hv hper _ (by omega), getD_eq_kn hv hper _ (by omega),
      hv.ghosts hper (i + 1) (by omega), hv.ghosts hper i (by omega)] at h
    have : b.kn (i + 1) - b.kn i - (b.kn (i + 1) + (b.stop - b.start) - (b.kn i + (b.stop - b.start))) = 0 := by
      ring
    rw [this, abs_zero] at h
    exact absurd h (not_lt.mpr htol)
  have hsort : ∀ i, i + 1 < b.knots.size → b.knots.getD i 0 ≤ b.knots.getD (i + 1) 0 := by
    intro i hi
    rw [getD_eq_kn hv hper _ (by omega), getD_eq_kn hv hper _ (by omega)]
    exact hv.kn_mono (show i ≤ i + 1 by omega)
  rw [if_neg hbad, if_neg, Basis.cummax_of_sorted _ hsort]
  intro h
  rw [List.any_eq_true] at h
  obtain ⟨i, hi, h⟩ := h
  rw [List.mem_range] at hi
  simp only [decide_eq_true_eq] at h
  rw [getD_eq_kn hv hper _ (by omega), getD_eq_kn hv hper _ (by omega)] at h
  have := hv.kn_mono (show i ≤ i + 1 by omega)
  linarith

/-- **`make_periodic` of the opened basis is the periodic basis** (knots, order, continuity). -/
theorem makePeriodic_openAtSeam (hn : b.order ≤ b.numFunctions + 1) (tol : K) (htol : 0 ≤ tol) :
    (b.openAtSeam).makePeriodic tol b.periodic.toNat = .ok b := by
  rw [makePeriodic_eq, makePeriodicKnots_openAtSeam hv hper hn,
    show (b.openAtSeam).order = b.order from rfl,
    show ((b.periodic.toNat : ℕ) : Int) = b.periodic by omega]
  exact mk?_of_valid_periodic hv hper tol htol

end

end Basis

end Splipy
