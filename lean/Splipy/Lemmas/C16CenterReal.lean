import Splipy.Lemmas.C16CenterModel
import Splipy.Lemmas.C16IntegrateReal
import Splipy.Properties.C04
import Mathlib.Algebra.Order.Archimedean.Real.Basic

/-!
# C16: `center()` of a curve is the integral mean of the curve, and survives knot insertion (`ℝ`)
-/

namespace Splipy

open MeasureTheory

namespace Obj

/-- **`center()` of a non-rational curve is the integral mean of the evaluated map**: component
`k` is `(1/|Ω|) ∫_Ω Σ_j cps[j][k]·B_j(x) dx`. -/
theorem center_curve_integral_mean (o : Obj ℝ) (tol : ℝ) (n nc : ℕ) (hsh : o.cps.shape = [n, nc])
    (hb : o.bases.size = 1) (hrat : o.rational = false) (hv : (o.basis 0).Valid)
    (hper : (o.basis 0).periodic = -1) (hn : n = (o.basis 0).numFunctions) (htol : 0 < tol)
    (hexs : (o.basis 0).ExactAt tol (o.basis 0).start)
    (hexe : (o.basis 0).ExactAt tol (o.basis 0).stop) (s : Side) :
    ∃ r, o.center tol = .ok r ∧ r.size = nc ∧ ∀ k, k < nc →
      r.getD k 0 = (∫ x in (o.basis 0).start..(o.basis 0).stop,
          splineVal s (o.basis 0).kn ((o.basis 0).order - 1) n (fun j => o.cps.get (j * nc + k)) x)
        / ((o.basis 0).stop - (o.basis 0).start) := by
  obtain ⟨r, hr, hs, hk⟩ := center_curve_intEntry o tol n nc hsh hb hrat hv hper hn htol hexs hexe
  refine ⟨r, hr, hs, fun k hk' => ?_⟩
  rw [hk k hk', Basis.sum_intEntry_eq_integral_spline hv s n (fun j => o.cps.get (j * nc + k))
    le_rfl hv.start_lt_stop le_rfl]

/-- **… periodic basis**: the integral mean of the periodic spline `Σ_{i<nAll} cps[i mod n]·B_i`
(C01/C02: the periodic basis function `c` is the sum of its wrapped images). -/
theorem center_curve_integral_mean_periodic (o : Obj ℝ) (tol : ℝ) (n nc : ℕ)
    (hsh : o.cps.shape = [n, nc]) (hb : o.bases.size = 1) (hrat : o.rational = false)
    (hv : (o.basis 0).Valid) (hper : 0 ≤ (o.basis 0).periodic)
    (hn : n = (o.basis 0).numFunctions) (htol : 0 < tol)
    (hexs : (o.basis 0).ExactAt tol (o.basis 0).start)
    (hexe : (o.basis 0).ExactAt tol (o.basis 0).stop) (s : Side) :
    ∃ r, o.center tol = .ok r ∧ r.size = nc ∧ ∀ k, k < nc →
      r.getD k 0 = (∫ x in (o.basis 0).start..(o.basis 0).stop,
          splineVal s (o.basis 0).kn ((o.basis 0).order - 1) (o.basis 0).nAll
            (fun i => o.cps.get ((i % n) * nc + k)) x)
        / ((o.basis 0).stop - (o.basis 0).start) := by
  obtain ⟨r, hr, hs, hk⟩ :=
    center_curve_intEntry_periodic o tol n nc hsh hb hrat hv hper hn htol hexs hexe
  refine ⟨r, hr, hs, fun k hk' => ?_⟩
  rw [hk k hk', Basis.sum_intEntry_eq_integral_spline hv s (o.basis 0).nAll
    (fun i => o.cps.get ((i % n) * nc + k)) le_rfl hv.start_lt_stop le_rfl]

/-- **`center()` of a non-rational surface is the integral mean of the evaluated map** (iterated
integral of the tensor-product spline over the parametric rectangle). -/
theorem center_surface_integral_mean (o : Obj ℝ) (tol : ℝ) (n1 n2 nc : ℕ)
    (hsh : o.cps.shape = [n1, n2, nc]) (hb : o.bases.size = 2) (hrat : o.rational = false)
    (hv0 : (o.basis 0).Valid) (hv1 : (o.basis 1).Valid)
    (hper0 : (o.basis 0).periodic = -1) (hper1 : (o.basis 1).periodic = -1)
    (hn1 : n1 = (o.basis 0).numFunctions) (hn2 : n2 = (o.basis 1).numFunctions)
    (htol : 0 < tol)
    (hexs0 : (o.basis 0).ExactAt tol (o.basis 0).start)
    (hexe0 : (o.basis 0).ExactAt tol (o.basis 0).stop)
    (hexs1 : (o.basis 1).ExactAt tol (o.basis 1).start)
    (hexe1 : (o.basis 1).ExactAt tol (o.basis 1).stop) (s : Side) :
    ∃ r, o.center tol = .ok r ∧ r.size = nc ∧ ∀ k, k < nc →
      r.getD k 0 = (∫ u in (o.basis 0).start..(o.basis 0).stop,
          ∫ v in (o.basis 1).start..(o.basis 1).stop,
            ∑ a ∈ Finset.range n1, ∑ j ∈ Finset.range n2,
              o.cps.get ((a * n2 + j) * nc + k) * B s (o.basis 0).kn ((o.basis 0).order - 1) a u
                * B s (o.basis 1).kn ((o.basis 1).order - 1) j v)
        / (((o.basis 0).stop - (o.basis 0).start) * ((o.basis 1).stop - (o.basis 1).start)) := by
  obtain ⟨r, hr, hs, hk⟩ := center_surface_intEntry o tol n1 n2 nc hsh hb hrat hv0 hv1 hper0 hper1
    hn1 hn2 htol hexs0 hexe0 hexs1 hexe1
  refine ⟨r, hr, hs, fun k hk' => ?_⟩
  rw [hk k hk', Basis.sum_intEntry2_eq_integral hv0 hv1 s n1 n2
    (fun a j => o.cps.get ((a * n2 + j) * nc + k))]

theorem insertKnots_bases_size {K : Type} [Field K] [LinearOrder K] [FloorRing K] (o o' : Obj K)
    (xs : List K) (dir : ℕ) (h : o.insertKnots xs dir = .ok o') : o'.bases.size = o.bases.size := by
  unfold insertKnots at h
  simp only [bind, Except.bind, pure, Except.pure] at h
  split at h
  · cases h
  · cases h
    simp [Array.set!]

/-- **`center()` is unchanged by knot insertion** (non-rational curve, valid non-periodic basis,
knots inserted anywhere in `[start, end)`, any multiplicities): both centres are the integral mean of the same function (`C04_object`:
the spline is unchanged), over the same domain. -/
theorem center_insertKnots (o : Obj ℝ) (tol : ℝ) (n nc : ℕ) (hsh : o.cps.shape = [n, nc])
    (hb : o.bases.size = 1) (hrat : o.rational = false) (hv : (o.basis 0).Valid)
    (hper : (o.basis 0).periodic = -1) (hn : n = (o.basis 0).numFunctions) (htol : 0 < tol)
    (hexs : (o.basis 0).ExactAt tol (o.basis 0).start)
    (hexe : (o.basis 0).ExactAt tol (o.basis 0).stop)
    (xs : List ℝ) (hxs : ∀ x ∈ xs, (o.basis 0).start ≤ x ∧ x < (o.basis 0).stop)
    (o' : Obj ℝ) (ho' : o.insertKnots xs 0 = .ok o')
    (hexs' : (o'.basis 0).ExactAt tol (o'.basis 0).start)
    (hexe' : (o'.basis 0).ExactAt tol (o'.basis 0).stop) :
    o'.center tol = o.center tol := by
  have hdir : 0 < o.bases.size := by omega
  have hax : 0 < o.cps.shape.length := by rw [hsh]; simp
  have hshape : o.cps.shape.getD 0 0 = (o.basis 0).numFunctions := by rw [hsh, ← hn]; rfl
  obtain ⟨o'', C, h1, h2, _, _, h5, h6, _, _, _, _⟩ :=
    C04_object o 0 hdir hax hv hper hshape xs hxs
  rw [ho'] at h1
  cases h1
  obtain ⟨o3, h31, h32, _, _, h35⟩ := C04_curve o n nc hsh hdir hv hper hn xs hxs
  rw [ho'] at h31
  cases h31
  have hb' : o'.bases.size = 1 := by rw [insertKnots_bases_size o o' xs 0 ho', hb]
  have hn' : n + xs.length = (o'.basis 0).numFunctions := by rw [h2.num_eq, hn]
  obtain ⟨r, hr, hs, hk⟩ := center_curve_integral_mean o tol n nc hsh hb hrat hv hper hn htol
    hexs hexe .right
  obtain ⟨r', hr', hs', hk'⟩ := center_curve_integral_mean o' tol (n + xs.length) nc h32 hb'
    (by rw [h5, hrat]) h2.valid (by rw [h2.periodic_eq, hper]) hn' htol hexs' hexe' .right
  rw [hr, hr']
  congr 1
  apply Array.ext
  · rw [hs, hs']
  · intro k hk1 hk2
    have hkn : k < nc := by rw [← hs']; exact hk1
    have e1 := hk k hkn
    have e2 := hk' k hkn
    have hfun : ∀ x, splineVal .right (o'.basis 0).kn ((o'.basis 0).order - 1) (n + xs.length)
          (fun j => o'.cps.get (j * nc + k)) x
        = splineVal .right (o.basis 0).kn ((o.basis 0).order - 1) n
          (fun j => o.cps.get (j * nc + k)) x := by
      intro x
      rw [h2.order_eq]
      exact (h35 k hkn .right x).1
    simp_rw [hfun, h2.start_eq, h2.stop_eq] at e2
    have : r'.getD k 0 = r.getD k 0 := by rw [e1, e2]
    simpa [Array.getD, hk1, hk2] using this

end Obj

end Splipy
