import Splipy.Lemmas.TensorEvalObj

/-!
# `Obj.evaluate` for volumes (`pardim = 3`): helpers for C02
-/

namespace Splipy
set_option linter.unusedSectionVars false
open Tensor
variable {K : Type} [Field K] [LinearOrder K] [IsStrictOrderedRing K] [FloorRing K]

/-- Homogeneous (before the rational division) result of a volume evaluation. -/
def Obj.hom3 (o : Obj K) (b1 b2 b3 : Basis K) (tol : K) (us vs ws : List K) (tensor : Bool) :
    Tensor K :=
  let Ns := [Obj.basisMat b1 tol (us.map (snap b1 tol)) 0 true,
             Obj.basisMat b2 tol (vs.map (snap b2 tol)) 0 true,
             Obj.basisMat b3 tol (ws.map (snap b3 tol)) 0 true]
  if tensor then Obj.contractGrid Ns o.cps else Obj.contractPointwise Ns o.cps us.length

theorem Obj.outOfDomain3_iff {o : Obj K} {b1 b2 b3 : Basis K} (hb : o.bases = #[b1, b2, b3])
    (tol : K) (us vs ws : List K) :
    o.OutOfDomain tol [us, vs, ws] ↔
      (b1.periodic < 0 ∧
        (us = [] ∨ ∃ t ∈ us, snap b1 tol t < b1.start ∨ b1.stop < snap b1 tol t)) ∨
      (b2.periodic < 0 ∧
        (vs = [] ∨ ∃ t ∈ vs, snap b2 tol t < b2.start ∨ b2.stop < snap b2 tol t)) ∨
      (b3.periodic < 0 ∧
        (ws = [] ∨ ∃ t ∈ ws, snap b3 tol t < b3.start ∨ b3.stop < snap b3 tol t)) := by
  simp [Obj.OutOfDomain, hb]

theorem Obj.evalCore3 {o : Obj K} {b1 b2 b3 : Basis K} (hb : o.bases = #[b1, b2, b3]) (tol : K)
    (us vs ws : List K) (tensor : Bool) :
    o.evalCore tol (o.snapParams tol [us, vs, ws]) tensor
      = if o.rational then Obj.project (o.hom3 b1 b2 b3 tol us vs ws tensor) o.dimension
        else o.hom3 b1 b2 b3 tol us vs ws tensor := by
  simp [Obj.evalCore, Obj.snapParams, Obj.hom3, hb]

theorem Obj.hom3_grid_get {o : Obj K} (b1 b2 b3 : Basis K) {n1 n2 n3 nc : ℕ}
    (hs : o.cps.shape = [n1, n2, n3, nc]) (tol : K) (us vs ws : List K) {i1 i2 i3 c : ℕ}
    (h1 : i1 < us.length) (h2 : i2 < vs.length) (h3 : i3 < ws.length) (hc : c < nc) :
    (o.hom3 b1 b2 b3 tol us vs ws true).get (((i1 * vs.length + i2) * ws.length + i3) * nc + c)
      = ∑ j1 ∈ Finset.range n1, ∑ j2 ∈ Finset.range n2, ∑ j3 ∈ Finset.range n3,
          b1.rowVal tol (us.getD i1 0) j1 * b2.rowVal tol (vs.getD i2 0) j2
            * b3.rowVal tol (ws.getD i3 0) j3
            * o.cps.get (((j1 * n2 + j2) * n3 + j3) * nc + c) := by
  unfold Obj.hom3
  simp only [if_true]
  have e := contractGrid3_get (Obj.basisMat b1 tol (us.map (snap b1 tol)) 0 true)
    (Obj.basisMat b2 tol (vs.map (snap b2 tol)) 0 true)
    (Obj.basisMat b3 tol (ws.map (snap b3 tol)) 0 true) o.cps hs
    (i1 := i1) (i2 := i2) (i3 := i3) (c := c)
    (by rw [basisMat_rows, List.length_map]; exact h1)
    (by rw [basisMat_rows, List.length_map]; exact h2)
    (by rw [basisMat_rows, List.length_map]; exact h3) hc
  rw [basisMat_rows, List.length_map, basisMat_rows, List.length_map] at e
  rw [e]
  apply Finset.sum_congr rfl; intro j1 _
  apply Finset.sum_congr rfl; intro j2 _
  apply Finset.sum_congr rfl; intro j3 _
  rw [basisMat_snap_entry b1 tol us h1, basisMat_snap_entry b2 tol vs h2,
    basisMat_snap_entry b3 tol ws h3]

theorem Obj.hom3_grid_size {o : Obj K} (b1 b2 b3 : Basis K) {n1 n2 n3 nc : ℕ}
    (hs : o.cps.shape = [n1, n2, n3, nc]) (tol : K) (us vs ws : List K) :
    (o.hom3 b1 b2 b3 tol us vs ws true).shape = [us.length, vs.length, ws.length, nc] ∧
      (o.hom3 b1 b2 b3 tol us vs ws true).data.size
        = us.length * vs.length * ws.length * nc := by
  unfold Obj.hom3
  simp only [if_true]
  have e := contractGrid3_size (Obj.basisMat b1 tol (us.map (snap b1 tol)) 0 true)
    (Obj.basisMat b2 tol (vs.map (snap b2 tol)) 0 true)
    (Obj.basisMat b3 tol (ws.map (snap b3 tol)) 0 true) o.cps hs
  simpa [basisMat_rows] using e

theorem Obj.hom3_pw_get {o : Obj K} (b1 b2 b3 : Basis K) {n1 n2 n3 nc : ℕ}
    (hs : o.cps.shape = [n1, n2, n3, nc]) (tol : K) (us vs ws : List K)
    (hlen2 : vs.length = us.length) (hlen3 : ws.length = us.length)
    {i c : ℕ} (hi : i < us.length) (hc : c < nc) :
    (o.hom3 b1 b2 b3 tol us vs ws false).get (i * nc + c)
      = ∑ j1 ∈ Finset.range n1, ∑ j2 ∈ Finset.range n2, ∑ j3 ∈ Finset.range n3,
          b1.rowVal tol (us.getD i 0) j1 * b2.rowVal tol (vs.getD i 0) j2
            * b3.rowVal tol (ws.getD i 0) j3
            * o.cps.get (((j1 * n2 + j2) * n3 + j3) * nc + c) := by
  unfold Obj.hom3
  simp only [Bool.false_eq_true, if_false]
  rw [contractPointwise3_get _ _ _ _ _ hs hi hc]
  apply Finset.sum_congr rfl; intro j1 _
  apply Finset.sum_congr rfl; intro j2 _
  apply Finset.sum_congr rfl; intro j3 _
  rw [basisMat_snap_entry b1 tol us hi, basisMat_snap_entry b2 tol vs (by omega),
    basisMat_snap_entry b3 tol ws (by omega)]

theorem Obj.hom3_pw_size {o : Obj K} (b1 b2 b3 : Basis K) {n1 n2 n3 nc : ℕ}
    (hs : o.cps.shape = [n1, n2, n3, nc]) (tol : K) (us vs ws : List K) :
    (o.hom3 b1 b2 b3 tol us vs ws false).shape = [us.length, nc] ∧
      (o.hom3 b1 b2 b3 tol us vs ws false).data.size = us.length * nc := by
  unfold Obj.hom3
  simp only [Bool.false_eq_true, if_false]
  apply contractPointwise_size_of_shape
  · rw [hs]; rfl
  · intro k _
    have := (contractGrid3_size
      #[(Obj.basisMat b1 tol (us.map (snap b1 tol)) 0 true).getD k #[]]
      #[(Obj.basisMat b2 tol (vs.map (snap b2 tol)) 0 true).getD k #[]]
      #[(Obj.basisMat b3 tol (ws.map (snap b3 tol)) 0 true).getD k #[]] o.cps hs).2
    simpa using this

theorem Obj.evaluate3_ok {o : Obj K} {b1 b2 b3 : Basis K} (hb : o.bases = #[b1, b2, b3]) (tol : K)
    (us vs ws : List K) (tensor : Bool)
    (hlen : tensor = false → vs.length = us.length ∧ ws.length = us.length)
    (hdom : ¬ o.OutOfDomain tol [us, vs, ws]) :
    o.evaluate tol [us, vs, ws] tensor
      = .ok (if o.rational then Obj.project (o.hom3 b1 b2 b3 tol us vs ws tensor) o.dimension
             else o.hom3 b1 b2 b3 tol us vs ws tensor) := by
  rw [o.evaluate_ok tol _ tensor _ hdom, Obj.evalCore3 hb]
  rintro ⟨ht, hne⟩
  apply hne
  rw [eraseDups_length_eq_one_iff]
  refine ⟨by simp, ?_⟩
  have := hlen ht
  intro a ha b hb'
  simp only [List.map_cons, List.map_nil, List.mem_cons, List.not_mem_nil, or_false] at ha hb'
  rcases ha with rfl | rfl | rfl <;> rcases hb' with rfl | rfl | rfl <;> omega

theorem Obj.not_outOfDomain3 {o : Obj K} {b1 b2 b3 : Basis K} (hb : o.bases = #[b1, b2, b3])
    (hv1 : b1.Valid) (hv2 : b2.Valid) (hv3 : b3.Valid) {tol : K} (htol : 0 < tol)
    {us vs ws : List K}
    (hus : ∀ u ∈ us, b1.Admissible tol u) (hvs : ∀ v ∈ vs, b2.Admissible tol v)
    (hws : ∀ w ∈ ws, b3.Admissible tol w)
    (hne1 : b1.periodic < 0 → us ≠ [] := by (first | assumption | (simp; done) | skip))
    (hne2 : b2.periodic < 0 → vs ≠ [] := by (first | assumption | (simp; done) | skip))
    (hne3 : b3.periodic < 0 → ws ≠ [] := by (first | assumption | (simp; done) | skip)) :
    ¬ o.OutOfDomain tol [us, vs, ws] := by
  rw [Obj.outOfDomain3_iff hb]
  rintro (⟨h1, h0 | ⟨t, ht, h2⟩⟩ | ⟨h1, h0 | ⟨t, ht, h2⟩⟩ | ⟨h1, h0 | ⟨t, ht, h2⟩⟩)
  · exact hne1 h1 h0
  · exact Basis.Admissible.not_out hv1 htol (hus t ht) ⟨h1, h2⟩
  · exact hne2 h1 h0
  · exact Basis.Admissible.not_out hv2 htol (hvs t ht) ⟨h1, h2⟩
  · exact hne3 h1 h0
  · exact Basis.Admissible.not_out hv3 htol (hws t ht) ⟨h1, h2⟩

/-- Non-rational volume on a tensor grid: the result entries in terms of the code's rows. -/
theorem Obj.evaluate3_grid_nonrational {o : Obj K} {b1 b2 b3 : Basis K}
    (hb : o.bases = #[b1, b2, b3]) {n1 n2 n3 nc : ℕ} (hs : o.cps.shape = [n1, n2, n3, nc])
    (hr : o.rational = false) (tol : K) (us vs ws : List K)
    (hdom : ¬ o.OutOfDomain tol [us, vs, ws]) :
    ∃ res, o.evaluate tol [us, vs, ws] true = .ok res ∧
      res.shape = [us.length, vs.length, ws.length, nc] ∧
      res.data.size = us.length * vs.length * ws.length * nc ∧
      ∀ i1 i2 i3 c, i1 < us.length → i2 < vs.length → i3 < ws.length → c < nc →
        res.get (((i1 * vs.length + i2) * ws.length + i3) * nc + c)
          = ∑ j1 ∈ Finset.range n1, ∑ j2 ∈ Finset.range n2, ∑ j3 ∈ Finset.range n3,
              b1.rowVal tol (us.getD i1 0) j1 * b2.rowVal tol (vs.getD i2 0) j2
                * b3.rowVal tol (ws.getD i3 0) j3
                * o.cps.get (((j1 * n2 + j2) * n3 + j3) * nc + c) := by
  refine ⟨_, Obj.evaluate3_ok hb tol us vs ws true (by simp) hdom, ?_⟩
  simp only [hr, Bool.false_eq_true, if_false]
  exact ⟨(Obj.hom3_grid_size b1 b2 b3 hs tol us vs ws).1,
    (Obj.hom3_grid_size b1 b2 b3 hs tol us vs ws).2,
    fun i1 i2 i3 c h1 h2 h3 hc => Obj.hom3_grid_get b1 b2 b3 hs tol us vs ws h1 h2 h3 hc⟩

/-- Rational volume on a tensor grid: numerator / denominator with the same rows. -/
theorem Obj.evaluate3_grid_rational {o : Obj K} {b1 b2 b3 : Basis K}
    (hb : o.bases = #[b1, b2, b3]) {n1 n2 n3 dim : ℕ}
    (hs : o.cps.shape = [n1, n2, n3, dim + 1]) (hr : o.rational = true) (tol : K)
    (us vs ws : List K) (hdom : ¬ o.OutOfDomain tol [us, vs, ws]) :
    ∃ res, o.evaluate tol [us, vs, ws] true = .ok res ∧
      res.shape = [us.length, vs.length, ws.length, dim] ∧
      res.data.size = us.length * vs.length * ws.length * dim ∧
      ∀ i1 i2 i3 c, i1 < us.length → i2 < vs.length → i3 < ws.length → c < dim →
        res.get (((i1 * vs.length + i2) * ws.length + i3) * dim + c)
          = (∑ j1 ∈ Finset.range n1, ∑ j2 ∈ Finset.range n2, ∑ j3 ∈ Finset.range n3,
              b1.rowVal tol (us.getD i1 0) j1 * b2.rowVal tol (vs.getD i2 0) j2
                * b3.rowVal tol (ws.getD i3 0) j3
                * o.cps.get (((j1 * n2 + j2) * n3 + j3) * (dim + 1) + c))
            / (∑ j1 ∈ Finset.range n1, ∑ j2 ∈ Finset.range n2, ∑ j3 ∈ Finset.range n3,
              b1.rowVal tol (us.getD i1 0) j1 * b2.rowVal tol (vs.getD i2 0) j2
                * b3.rowVal tol (ws.getD i3 0) j3
                * o.cps.get (((j1 * n2 + j2) * n3 + j3) * (dim + 1) + dim)) := by
  refine ⟨_, Obj.evaluate3_ok hb tol us vs ws true (by simp) hdom, ?_⟩
  have hdim : o.dimension = dim := by
    have := (Obj.dimension_of_shape (o := o) (pre := [n1, n2, n3]) hs).2
    rw [this, hr]; simp
  have hsz := Obj.hom3_grid_size b1 b2 b3 hs tol us vs ws
  simp only [hr, if_true, hdim]
  refine ⟨(project_size4 _ hsz.1).1, (project_size4 _ hsz.1).2, ?_⟩
  intro i1 i2 i3 c h1 h2 h3 hc
  rw [project_get4 _ hsz.1 h1 h2 h3 hc,
    Obj.hom3_grid_get b1 b2 b3 hs tol us vs ws h1 h2 h3 (by omega),
    Obj.hom3_grid_get b1 b2 b3 hs tol us vs ws h1 h2 h3 (by omega)]

/-- `tensor=False` is the diagonal of the tensor grid (volumes, rational or not). -/
theorem Obj.evaluate3_pointwise_diag {o : Obj K} {b1 b2 b3 : Basis K}
    (hb : o.bases = #[b1, b2, b3]) {n1 n2 n3 nc : ℕ} (hs : o.cps.shape = [n1, n2, n3, nc])
    (hnc : o.rational = true → 1 ≤ nc) (tol : K) (us vs ws : List K)
    (hlen2 : vs.length = us.length) (hlen3 : ws.length = us.length)
    (hdom : ¬ o.OutOfDomain tol [us, vs, ws]) :
    ∃ rg rp, o.evaluate tol [us, vs, ws] true = .ok rg ∧
      o.evaluate tol [us, vs, ws] false = .ok rp ∧
      rp.shape = [us.length, o.dimension] ∧ rp.data.size = us.length * o.dimension ∧
      ∀ i c, i < us.length → c < o.dimension →
        rp.get (i * o.dimension + c)
          = rg.get (((i * vs.length + i) * ws.length + i) * o.dimension + c) := by
  refine ⟨_, _, Obj.evaluate3_ok hb tol us vs ws true (by simp) hdom,
    Obj.evaluate3_ok hb tol us vs ws false (fun _ => ⟨hlen2, hlen3⟩) hdom, ?_⟩
  have hg := Obj.hom3_grid_size b1 b2 b3 hs tol us vs ws
  have hp := Obj.hom3_pw_size b1 b2 b3 hs tol us vs ws
  have hdim := (Obj.dimension_of_shape (o := o) (pre := [n1, n2, n3]) hs).2
  cases hrat : o.rational with
  | false =>
    rw [hrat] at hdim
    simp only [Bool.false_eq_true, if_false, Nat.sub_zero] at hdim ⊢
    rw [hdim]
    refine ⟨hp.1, hp.2, ?_⟩
    intro i c hi hc
    rw [Obj.hom3_pw_get b1 b2 b3 hs tol us vs ws hlen2 hlen3 hi hc,
      Obj.hom3_grid_get b1 b2 b3 hs tol us vs ws hi (by omega) (by omega) hc]
  | true =>
    have h1 := hnc hrat
    obtain ⟨dim, rfl⟩ : ∃ dim, nc = dim + 1 := ⟨nc - 1, by omega⟩
    rw [hrat] at hdim
    simp only [if_true, Nat.add_sub_cancel] at hdim ⊢
    rw [hdim]
    refine ⟨(project_size2 _ hp.1).1, (project_size2 _ hp.1).2, ?_⟩
    intro i c hi hc
    rw [project_get2 _ hp.1 hi hc, project_get4 _ hg.1 hi (by omega) (by omega) hc,
      Obj.hom3_pw_get b1 b2 b3 hs tol us vs ws hlen2 hlen3 hi (by omega),
      Obj.hom3_pw_get b1 b2 b3 hs tol us vs ws hlen2 hlen3 hi (by omega),
      Obj.hom3_grid_get b1 b2 b3 hs tol us vs ws hi (by omega) (by omega) (by omega),
      Obj.hom3_grid_get b1 b2 b3 hs tol us vs ws hi (by omega) (by omega) (by omega)]

/-- Non-rational volume, valid bases, admissible parameters: the specification sum. -/
theorem Obj.evaluate3_spec_nonrational {o : Obj K} {b1 b2 b3 : Basis K}
    (hb : o.bases = #[b1, b2, b3]) (hv1 : b1.Valid) (hv2 : b2.Valid) (hv3 : b3.Valid) {nc : ℕ}
    (hs : o.cps.shape = [b1.numFunctions, b2.numFunctions, b3.numFunctions, nc])
    (hr : o.rational = false) {tol : K} (htol : 0 < tol) {us vs ws : List K}
    (hus : ∀ u ∈ us, b1.Admissible tol u) (hvs : ∀ v ∈ vs, b2.Admissible tol v)
    (hws : ∀ w ∈ ws, b3.Admissible tol w)
    (hne1 : b1.periodic < 0 → us ≠ [] := by (first | assumption | (simp; done) | skip))
    (hne2 : b2.periodic < 0 → vs ≠ [] := by (first | assumption | (simp; done) | skip))
    (hne3 : b3.periodic < 0 → ws ≠ [] := by (first | assumption | (simp; done) | skip)) :
    ∃ res, o.evaluate tol [us, vs, ws] true = .ok res ∧
      res.shape = [us.length, vs.length, ws.length, nc] ∧
      res.data.size = us.length * vs.length * ws.length * nc ∧
      ∀ i1 i2 i3 c, i1 < us.length → i2 < vs.length → i3 < ws.length → c < nc →
        res.get (((i1 * vs.length + i2) * ws.length + i3) * nc + c)
          = ∑ j1 ∈ Finset.range b1.numFunctions, ∑ j2 ∈ Finset.range b2.numFunctions,
            ∑ j3 ∈ Finset.range b3.numFunctions,
              b1.specRow (us.getD i1 0) j1 * b2.specRow (vs.getD i2 0) j2
                * b3.specRow (ws.getD i3 0) j3
                * o.cps.get (((j1 * b2.numFunctions + j2) * b3.numFunctions + j3) * nc + c) := by
  obtain ⟨res, h1, h2, h3, h4⟩ := Obj.evaluate3_grid_nonrational hb hs hr tol us vs ws
    (Obj.not_outOfDomain3 hb hv1 hv2 hv3 htol hus hvs hws)
  refine ⟨res, h1, h2, h3, ?_⟩
  intro i1 i2 i3 c hi1 hi2 hi3 hc
  rw [h4 i1 i2 i3 c hi1 hi2 hi3 hc]
  apply Finset.sum_congr rfl; intro j1 hj1
  apply Finset.sum_congr rfl; intro j2 hj2
  apply Finset.sum_congr rfl; intro j3 hj3
  rw [Basis.rowVal_eq_specRow hv1 htol (hus _ (getD_mem_of_lt us hi1 0)) (Finset.mem_range.mp hj1),
    Basis.rowVal_eq_specRow hv2 htol (hvs _ (getD_mem_of_lt vs hi2 0)) (Finset.mem_range.mp hj2),
    Basis.rowVal_eq_specRow hv3 htol (hws _ (getD_mem_of_lt ws hi3 0)) (Finset.mem_range.mp hj3)]

/-- Rational volume with positive weights: positive denominators, NURBS quotient. -/
theorem Obj.evaluate3_spec_rational {o : Obj K} {b1 b2 b3 : Basis K}
    (hb : o.bases = #[b1, b2, b3]) (hv1 : b1.Valid) (hv2 : b2.Valid) (hv3 : b3.Valid) {dim : ℕ}
    (hs : o.cps.shape = [b1.numFunctions, b2.numFunctions, b3.numFunctions, dim + 1])
    (hr : o.rational = true)
    (hw : ∀ j1 j2 j3, j1 < b1.numFunctions → j2 < b2.numFunctions → j3 < b3.numFunctions →
      0 < o.cps.get (((j1 * b2.numFunctions + j2) * b3.numFunctions + j3) * (dim + 1) + dim))
    {tol : K} (htol : 0 < tol) {us vs ws : List K}
    (hus : ∀ u ∈ us, b1.Admissible tol u) (hvs : ∀ v ∈ vs, b2.Admissible tol v)
    (hws : ∀ w ∈ ws, b3.Admissible tol w)
    (hne1 : b1.periodic < 0 → us ≠ [] := by (first | assumption | (simp; done) | skip))
    (hne2 : b2.periodic < 0 → vs ≠ [] := by (first | assumption | (simp; done) | skip))
    (hne3 : b3.periodic < 0 → ws ≠ [] := by (first | assumption | (simp; done) | skip)) :
    ∃ res, o.evaluate tol [us, vs, ws] true = .ok res ∧
      res.shape = [us.length, vs.length, ws.length, dim] ∧
      res.data.size = us.length * vs.length * ws.length * dim ∧
      ∀ i1 i2 i3, i1 < us.length → i2 < vs.length → i3 < ws.length →
        0 < (∑ j1 ∈ Finset.range b1.numFunctions, ∑ j2 ∈ Finset.range b2.numFunctions,
            ∑ j3 ∈ Finset.range b3.numFunctions,
              b1.specRow (us.getD i1 0) j1 * b2.specRow (vs.getD i2 0) j2
                * b3.specRow (ws.getD i3 0) j3
                * o.cps.get (((j1 * b2.numFunctions + j2) * b3.numFunctions + j3) * (dim + 1)
                    + dim)) ∧
        ∀ c, c < dim →
          res.get (((i1 * vs.length + i2) * ws.length + i3) * dim + c)
            = (∑ j1 ∈ Finset.range b1.numFunctions, ∑ j2 ∈ Finset.range b2.numFunctions,
                ∑ j3 ∈ Finset.range b3.numFunctions,
                  b1.specRow (us.getD i1 0) j1 * b2.specRow (vs.getD i2 0) j2
                    * b3.specRow (ws.getD i3 0) j3
                    * o.cps.get (((j1 * b2.numFunctions + j2) * b3.numFunctions + j3) * (dim + 1)
                        + c))
              / (∑ j1 ∈ Finset.range b1.numFunctions, ∑ j2 ∈ Finset.range b2.numFunctions,
                ∑ j3 ∈ Finset.range b3.numFunctions,
                  b1.specRow (us.getD i1 0) j1 * b2.specRow (vs.getD i2 0) j2
                    * b3.specRow (ws.getD i3 0) j3
                    * o.cps.get (((j1 * b2.numFunctions + j2) * b3.numFunctions + j3) * (dim + 1)
                        + dim)) := by
  obtain ⟨res, h1, h2, h3, h4⟩ := Obj.evaluate3_grid_rational hb hs hr tol us vs ws
    (Obj.not_outOfDomain3 hb hv1 hv2 hv3 htol hus hvs hws)
  refine ⟨res, h1, h2, h3, ?_⟩
  intro i1 i2 i3 hi1 hi2 hi3
  have hu := hus _ (getD_mem_of_lt us hi1 0)
  have hv := hvs _ (getD_mem_of_lt vs hi2 0)
  have hw' := hws _ (getD_mem_of_lt ws hi3 0)
  have hrw : ∀ c, (∑ j1 ∈ Finset.range b1.numFunctions, ∑ j2 ∈ Finset.range b2.numFunctions,
      ∑ j3 ∈ Finset.range b3.numFunctions,
        b1.rowVal tol (us.getD i1 0) j1 * b2.rowVal tol (vs.getD i2 0) j2
          * b3.rowVal tol (ws.getD i3 0) j3
          * o.cps.get (((j1 * b2.numFunctions + j2) * b3.numFunctions + j3) * (dim + 1) + c))
      = ∑ j1 ∈ Finset.range b1.numFunctions, ∑ j2 ∈ Finset.range b2.numFunctions,
        ∑ j3 ∈ Finset.range b3.numFunctions,
        b1.specRow (us.getD i1 0) j1 * b2.specRow (vs.getD i2 0) j2
          * b3.specRow (ws.getD i3 0) j3
          * o.cps.get (((j1 * b2.numFunctions + j2) * b3.numFunctions + j3) * (dim + 1) + c) := by
    intro c
    apply Finset.sum_congr rfl; intro j1 hj1
    apply Finset.sum_congr rfl; intro j2 hj2
    apply Finset.sum_congr rfl; intro j3 hj3
    rw [Basis.rowVal_eq_specRow hv1 htol hu (Finset.mem_range.mp hj1),
      Basis.rowVal_eq_specRow hv2 htol hv (Finset.mem_range.mp hj2),
      Basis.rowVal_eq_specRow hv3 htol hw' (Finset.mem_range.mp hj3)]
  constructor
  · rw [← hrw]
    exact convex3_sum_pos _ _ _ _ _ _ _
      (fun j _ => Basis.rowVal_nonneg hv1 htol hu j) (Basis.rowVal_sum hv1 htol hu)
      (fun j _ => Basis.rowVal_nonneg hv2 htol hv j) (Basis.rowVal_sum hv2 htol hv)
      (fun j _ => Basis.rowVal_nonneg hv3 htol hw' j) (Basis.rowVal_sum hv3 htol hw') hw
  · intro c hc
    rw [h4 i1 i2 i3 c hi1 hi2 hi3 hc, hrw, hrw]

/-- Non-rational volume: every coordinate of every evaluated point lies in the bounding box. -/
theorem Obj.evaluate3_in_bbox {o : Obj K} {b1 b2 b3 : Basis K}
    (hb : o.bases = #[b1, b2, b3]) (hv1 : b1.Valid) (hv2 : b2.Valid) (hv3 : b3.Valid) {nc : ℕ}
    (hs : o.cps.shape = [b1.numFunctions, b2.numFunctions, b3.numFunctions, nc])
    (hr : o.rational = false) {tol : K} (htol : 0 < tol) {us vs ws : List K}
    (hus : ∀ u ∈ us, b1.Admissible tol u) (hvs : ∀ v ∈ vs, b2.Admissible tol v)
    (hws : ∀ w ∈ ws, b3.Admissible tol w)
    (hne1 : b1.periodic < 0 → us ≠ [] := by (first | assumption | (simp; done) | skip))
    (hne2 : b2.periodic < 0 → vs ≠ [] := by (first | assumption | (simp; done) | skip))
    (hne3 : b3.periodic < 0 → ws ≠ [] := by (first | assumption | (simp; done) | skip)) :
    ∃ res, o.evaluate tol [us, vs, ws] true = .ok res ∧
      ∀ i1 i2 i3 c, i1 < us.length → i2 < vs.length → i3 < ws.length → c < nc →
        ((o.boundingBox).getD c (0, 0)).1
            ≤ res.get (((i1 * vs.length + i2) * ws.length + i3) * nc + c) ∧
        res.get (((i1 * vs.length + i2) * ws.length + i3) * nc + c)
            ≤ ((o.boundingBox).getD c (0, 0)).2 := by
  obtain ⟨res, h1, -, -, h4⟩ := Obj.evaluate3_grid_nonrational hb hs hr tol us vs ws
    (Obj.not_outOfDomain3 hb hv1 hv2 hv3 htol hus hvs hws)
  refine ⟨res, h1, ?_⟩
  intro i1 i2 i3 c hi1 hi2 hi3 hc
  have hu := hus _ (getD_mem_of_lt us hi1 0)
  have hv := hvs _ (getD_mem_of_lt vs hi2 0)
  have hw' := hws _ (getD_mem_of_lt ws hi3 0)
  obtain ⟨hnc, hdim⟩ := Obj.dimension_of_shape (o := o)
    (pre := [b1.numFunctions, b2.numFunctions, b3.numFunctions]) hs
  rw [hr] at hdim
  simp only [Bool.false_eq_true, if_false, Nat.sub_zero] at hdim
  have hsize : o.cps.size / o.ncomp = b1.numFunctions * b2.numFunctions * b3.numFunctions := by
    rw [hnc]
    have := (size_of_shape_append o.cps
      (pre := [b1.numFunctions, b2.numFunctions, b3.numFunctions]) hs (by omega)).1
    simpa [prod] using this
  have hbb : ∀ j1 j2 j3, j1 < b1.numFunctions → j2 < b2.numFunctions → j3 < b3.numFunctions →
      ((o.boundingBox).getD c (0, 0)).1
        ≤ o.cps.get (((j1 * b2.numFunctions + j2) * b3.numFunctions + j3) * nc + c) ∧
      o.cps.get (((j1 * b2.numFunctions + j2) * b3.numFunctions + j3) * nc + c)
        ≤ ((o.boundingBox).getD c (0, 0)).2 := by
    intro j1 j2 j3 hj1 hj2 hj3
    have := boundingBox_spec o (c := c)
      (pI := (j1 * b2.numFunctions + j2) * b3.numFunctions + j3) (by rw [hdim]; exact hc)
      (by rw [hsize]; exact pair_lt (pair_lt hj1 hj2) hj3)
    rw [hnc] at this
    exact this
  rw [h4 i1 i2 i3 c hi1 hi2 hi3 hc]
  constructor
  · exact le_convex3_sum _ _ _ _ _ _ _ _
      (fun j _ => Basis.rowVal_nonneg hv1 htol hu j) (Basis.rowVal_sum hv1 htol hu)
      (fun j _ => Basis.rowVal_nonneg hv2 htol hv j) (Basis.rowVal_sum hv2 htol hv)
      (fun j _ => Basis.rowVal_nonneg hv3 htol hw' j) (Basis.rowVal_sum hv3 htol hw')
      (fun j1 j2 j3 a b c' => (hbb j1 j2 j3 a b c').1)
  · exact convex3_sum_le _ _ _ _ _ _ _ _
      (fun j _ => Basis.rowVal_nonneg hv1 htol hu j) (Basis.rowVal_sum hv1 htol hu)
      (fun j _ => Basis.rowVal_nonneg hv2 htol hv j) (Basis.rowVal_sum hv2 htol hv)
      (fun j _ => Basis.rowVal_nonneg hv3 htol hw' j) (Basis.rowVal_sum hv3 htol hw')
      (fun j1 j2 j3 a b c' => (hbb j1 j2 j3 a b c').2)

end Splipy
