import Mathlib.Data.String.Basic
import Splipy.Model.Numbering

/-!
# C18 — the three stable sorts of `OpenFOAM.write` and the `boundary` entries

`sortedBy r` (= `sorted(…, key=…)`) is stable: sorting a list that is already ordered by `Q`
yields a list ordered by `r`, ties ordered by `Q`.  Three sorts in a row therefore give the
lexicographic order (name key, owner, neighbour).  `nameRuns`/`boundaryEntries` (the `groupby`
loop) cut the sorted list into consecutive blocks.
-/

namespace Splipy.MP.C18L

section Stable
variable {α : Type} (r : α → α → Prop) [DecidableRel r]

/-- the order produced by a stable sort by `r` of a `Q`-ordered list -/
def TieBreak (Q : α → α → Prop) (a b : α) : Prop := r a b ∧ (r b a → Q a b)

theorem orderedInsert_tieBreak {Q : α → α → Prop} (htot : ∀ a b, r a b ∨ r b a)
    (htr : ∀ a b c, r a b → r b c → r a c) (x : α) :
    ∀ (S : List α), S.Pairwise (TieBreak r Q) → (∀ c ∈ S, Q x c) →
      (S.orderedInsert r x).Pairwise (TieBreak r Q)
  | [], _, _ => by simp
  | b :: l, hS, hx => by
    rw [List.orderedInsert]
    split
    · rename_i hxb
      refine List.Pairwise.cons ?_ hS
      intro c hc
      rcases List.mem_cons.1 hc with rfl | hc'
      · exact ⟨hxb, fun _ => hx _ (List.mem_cons_self)⟩
      · exact ⟨htr _ _ _ hxb ((List.pairwise_cons.1 hS).1 c hc').1, fun _ => hx c hc⟩
    · rename_i hxb
      have hbx : r b x := (htot b x).resolve_right hxb
      have ih := orderedInsert_tieBreak htot htr x l (List.pairwise_cons.1 hS).2
        (fun c hc => hx c (List.mem_cons_of_mem _ hc))
      refine List.Pairwise.cons ?_ ih
      intro y hy
      rcases (List.mem_orderedInsert r).1 hy with rfl | hy'
      · exact ⟨hbx, fun h => absurd h hxb⟩
      · exact (List.pairwise_cons.1 hS).1 y hy'

/-- **stable sort**: `sorted(l, key)` of a `Q`-ordered list is ordered by the key, ties by `Q`. -/
theorem sortedBy_tieBreak {Q : α → α → Prop} (htot : ∀ a b, r a b ∨ r b a)
    (htr : ∀ a b c, r a b → r b c → r a c) :
    ∀ (l : List α), l.Pairwise Q → (sortedBy r l).Pairwise (TieBreak r Q)
  | [], _ => by simp [sortedBy]
  | x :: t, h => by
    have ih := sortedBy_tieBreak htot htr t (List.pairwise_cons.1 h).2
    simp only [sortedBy, List.insertionSort] at ih ⊢
    refine orderedInsert_tieBreak r htot htr x _ ih ?_
    intro c hc
    exact (List.pairwise_cons.1 h).1 c ((List.perm_insertionSort r t).mem_iff.1 hc)

theorem sortedBy_perm (l : List α) : (sortedBy r l).Perm l := List.perm_insertionSort r l

end Stable

/-! ## the order of the OpenFOAM files -/

theorem nameKeyLe_total (a b : Option String) : nameKeyLe a b ∨ nameKeyLe b a := by
  cases a <;> cases b <;> simp [nameKeyLe]
  exact le_total _ _

theorem nameKeyLe_trans (a b c : Option String) : nameKeyLe a b → nameKeyLe b c → nameKeyLe a c := by
  cases a <;> cases b <;> cases c <;> simp [nameKeyLe]
  exact fun h1 h2 => le_trans h1 h2

theorem nameKeyLe_antisymm (a b : Option String) : nameKeyLe a b → nameKeyLe b a → a = b := by
  cases a <;> cases b <;> simp [nameKeyLe]
  exact fun h1 h2 => le_antisymm h1 h2

/-- lexicographic order on (name key, owner, neighbour) as it comes out of the three sorts -/
def FoamLe (a b : Face) : Prop :=
  nameKeyLe a.name b.name ∧ (nameKeyLe b.name a.name →
    a.owner ≤ b.owner ∧ (b.owner ≤ a.owner → a.neighbor ≤ b.neighbor ∧ (b.neighbor ≤ a.neighbor → True)))

theorem ofoamOrder_perm (faces : List Face) : (ofoamOrder faces).Perm faces := by
  unfold ofoamOrder
  exact ((sortedBy_perm _ _).trans (sortedBy_perm _ _)).trans (sortedBy_perm _ _)

theorem ofoamOrder_sorted (faces : List Face) : (ofoamOrder faces).Pairwise FoamLe := by
  unfold ofoamOrder
  have h0 : faces.Pairwise (fun _ _ => True) := List.pairwise_of_forall (fun _ _ => trivial)
  have h1 := sortedBy_tieBreak (fun a b : Face => a.neighbor ≤ b.neighbor)
    (fun a b => le_total _ _) (fun a b c => le_trans) faces h0
  have h2 := sortedBy_tieBreak (fun a b : Face => a.owner ≤ b.owner)
    (fun a b => le_total _ _) (fun a b c => le_trans) _ h1
  have h3 := sortedBy_tieBreak (fun a b : Face => nameKeyLe a.name b.name)
    (fun a b => nameKeyLe_total _ _) (fun a b c => nameKeyLe_trans _ _ _) _ h2
  exact h3

/-! ## `groupby` runs and the `boundary` entries -/

/-- the name column described by a list of runs -/
def expandRuns : List (Option String × ℕ) → List (Option String)
  | [] => []
  | (n, c) :: rest => List.replicate c n ++ expandRuns rest

theorem expandRuns_nameRuns : ∀ (l : List Face), expandRuns (nameRuns l) = l.map (·.name)
  | [] => rfl
  | f :: fs => by
    have ih := expandRuns_nameRuns fs
    rw [nameRuns]
    split
    · rename_i n c rest heq
      rw [heq] at ih
      split
      · rename_i hn
        subst hn
        simp only [expandRuns, List.map_cons] at ih ⊢
        rw [← ih, List.replicate_succ, List.cons_append]
      · simp only [expandRuns, List.map_cons] at ih ⊢
        rw [← ih]; rfl
    · rename_i heq
      rw [heq] at ih
      simp only [expandRuns, List.map_cons] at ih ⊢
      rw [← ih]; rfl

/-- runs are non-empty and adjacent runs carry different names -/
theorem nameRuns_chain : ∀ (l : List Face),
    (nameRuns l).IsChain (fun a b => a.1 ≠ b.1) ∧ ∀ q ∈ nameRuns l, 0 < q.2
  | [] => by simp [nameRuns]
  | f :: fs => by
    obtain ⟨ih1, ih2⟩ := nameRuns_chain fs
    rw [nameRuns]
    split
    · rename_i n c rest heq
      rw [heq] at ih1 ih2
      split
      · rename_i hn
        refine ⟨?_, ?_⟩
        · cases rest with
          | nil => simp
          | cons q rest' =>
            rw [List.isChain_cons_cons] at ih1 ⊢
            exact ih1
        · intro q hq
          rcases List.mem_cons.1 hq with rfl | hq'
          · exact Nat.succ_pos _
          · exact ih2 q (List.mem_cons_of_mem _ hq')
      · rename_i hn
        refine ⟨?_, ?_⟩
        · rw [List.isChain_cons_cons]
          exact ⟨fun h => hn h.symm, ih1⟩
        · intro q hq
          rcases List.mem_cons.1 hq with rfl | hq'
          · exact Nat.one_pos
          · exact ih2 q hq'
    · rename_i heq
      simp

/-- total length described by runs -/
def runsLength (runs : List (Option String × ℕ)) : ℕ := (runs.map (·.2)).sum

theorem expandRuns_length (runs : List (Option String × ℕ)) : (expandRuns runs).length = runsLength runs := by
  induction runs with
  | nil => rfl
  | cons q rest ih =>
    obtain ⟨n, c⟩ := q
    simp [expandRuns, runsLength, ih] at *

/-- every entry of the `boundary` file describes one run: `startFace` is the number of faces
    before the run, `nFaces` its length. -/
theorem boundaryEntries_spec (runs : List (Option String × ℕ)) (s0 : ℕ) :
    ∀ e ∈ boundaryEntries runs s0, ∃ pre post, runs = pre ++ (some e.1, e.2.1) :: post ∧
      e.2.2 = s0 + runsLength pre := by
  induction runs generalizing s0 with
  | nil => simp [boundaryEntries]
  | cons q rest ih =>
    obtain ⟨n, c⟩ := q
    intro e he
    cases n with
    | none =>
      simp only [boundaryEntries] at he
      obtain ⟨pre, post, h1, h2⟩ := ih (s0 + c) e he
      refine ⟨(none, c) :: pre, post, by rw [h1]; rfl, ?_⟩
      rw [h2]; simp [runsLength]; omega
    | some nm =>
      simp only [boundaryEntries, List.mem_cons] at he
      rcases he with rfl | he
      · exact ⟨[], rest, rfl, by simp [runsLength]⟩
      · obtain ⟨pre, post, h1, h2⟩ := ih (s0 + c) e he
        refine ⟨(some nm, c) :: pre, post, by rw [h1]; rfl, ?_⟩
        rw [h2]; simp [runsLength]; omega

/-- conversely every named run has its entry (so the entries are exactly the named runs, in order) -/
theorem boundaryEntries_eq (runs : List (Option String × ℕ)) (s0 : ℕ) :
    (boundaryEntries runs s0).map (fun e => (some e.1, e.2.1)) = runs.filter (fun q => q.1.isSome) := by
  induction runs generalizing s0 with
  | nil => rfl
  | cons q rest ih =>
    obtain ⟨n, c⟩ := q
    cases n with
    | none => simp [boundaryEntries, ih]
    | some nm => simp [boundaryEntries, ih]

theorem take_drop_expand (pre post : List (Option String × ℕ)) (n : Option String) (c : ℕ) :
    ((expandRuns (pre ++ (n, c) :: post)).drop (runsLength pre)).take c = List.replicate c n := by
  induction pre with
  | nil => simp [expandRuns, runsLength]
  | cons q pre ih =>
    obtain ⟨m, d⟩ := q
    have : runsLength ((m, d) :: pre) = d + runsLength pre := by simp [runsLength]
    rw [this]
    simp only [List.cons_append, expandRuns]
    rw [List.drop_append]
    simp only [List.length_replicate]
    have h0 : List.drop (d + runsLength pre) (List.replicate d m) = [] := by
      apply List.drop_eq_nil_of_le; simp
    rw [h0, List.nil_append]
    have : d + runsLength pre - d = runsLength pre := by omega
    rw [this]
    exact ih

/-- the faces `startFace … startFace + nFaces - 1` of the file are exactly named by the entry -/
theorem ofoam_entry_block (l : List Face) (e : String × ℕ × ℕ) (he : e ∈ boundaryEntries (nameRuns l) 0) :
    (((l.map (·.name)).drop e.2.2).take e.2.1) = List.replicate e.2.1 (some e.1) ∧ 0 < e.2.1 ∧
    e.2.2 + e.2.1 ≤ l.length := by
  obtain ⟨pre, post, h1, h2⟩ := boundaryEntries_spec (nameRuns l) 0 e he
  have hx := expandRuns_nameRuns l
  rw [h1] at hx
  have hpos : 0 < e.2.1 := (nameRuns_chain l).2 (some e.1, e.2.1) (by rw [h1]; simp)
  refine ⟨?_, hpos, ?_⟩
  · rw [← hx, h2, Nat.zero_add]
    exact take_drop_expand pre post (some e.1) e.2.1
  · have hl : l.length = runsLength (nameRuns l) := by
      rw [← expandRuns_length, expandRuns_nameRuns, List.length_map]
    rw [hl, h1, h2]
    simp [runsLength]

/-- converse of `boundaryEntries_spec`: every named run has its entry. -/
theorem boundaryEntries_complete (pre post : List (Option String × ℕ)) (nm : String) (c s0 : ℕ) :
    (nm, c, s0 + runsLength pre) ∈ boundaryEntries (pre ++ (some nm, c) :: post) s0 := by
  induction pre generalizing s0 with
  | nil => simp [boundaryEntries, runsLength]
  | cons q pre ih =>
    obtain ⟨n, d⟩ := q
    have hl : s0 + runsLength ((n, d) :: pre) = (s0 + d) + runsLength pre := by
      simp [runsLength]; omega
    rw [hl]
    cases n with
    | none => simpa [boundaryEntries] using ih (s0 + d)
    | some m => simp only [List.cons_append, boundaryEntries, List.mem_cons]; exact Or.inr (ih (s0 + d))

/-- every position of the column lies in exactly the run that `expandRuns` puts there -/
theorem expandRuns_position (runs : List (Option String × ℕ)) (i : ℕ) (hi : i < runsLength runs) :
    ∃ pre n c post, runs = pre ++ (n, c) :: post ∧ runsLength pre ≤ i ∧ i < runsLength pre + c ∧
      (expandRuns runs)[i]? = some n := by
  induction runs generalizing i with
  | nil => simp [runsLength] at hi
  | cons q rest ih =>
    obtain ⟨n, c⟩ := q
    by_cases h : i < c
    · refine ⟨[], n, c, rest, rfl, by simp [runsLength], by simpa [runsLength] using h, ?_⟩
      simp only [expandRuns]
      rw [List.getElem?_append_left (by simpa using h)]
      simp [h]
    · have hi' : i - c < runsLength rest := by simp [runsLength] at hi ⊢; omega
      obtain ⟨pre, n', c', post, h1, h2, h3, h4⟩ := ih (i - c) hi'
      refine ⟨(n, c) :: pre, n', c', post, by rw [h1]; rfl, ?_, ?_, ?_⟩
      · simp [runsLength] at h2 ⊢; omega
      · simp [runsLength] at h3 ⊢; omega
      · simp only [expandRuns]
        rw [List.getElem?_append_right (by simp; omega)]
        simpa using h4

/-- every boundary face (a face with a name) lies in the block of the entry with its name. -/
theorem ofoam_entry_cover (l : List Face) (i : ℕ) (nm : String)
    (h : (l.map (·.name))[i]? = some (some nm)) :
    ∃ e ∈ boundaryEntries (nameRuns l) 0, e.1 = nm ∧ e.2.2 ≤ i ∧ i < e.2.2 + e.2.1 := by
  have hx := expandRuns_nameRuns l
  have hi : i < runsLength (nameRuns l) := by
    rw [← expandRuns_length, hx]
    exact (List.getElem?_eq_some_iff.1 h).1
  obtain ⟨pre, n, c, post, h1, h2, h3, h4⟩ := expandRuns_position _ i hi
  rw [hx, h] at h4
  have hn : n = some nm := by simpa using h4.symm
  subst hn
  refine ⟨(nm, c, 0 + runsLength pre), ?_, rfl, by simpa using h2, by simpa using h3⟩
  rw [h1]
  exact boundaryEntries_complete pre post nm c 0

theorem mem_expandRuns : ∀ (runs : List (Option String × ℕ)) (q : Option String × ℕ),
    q ∈ runs → 0 < q.2 → q.1 ∈ expandRuns runs
  | [], _, h, _ => by simp at h
  | (pn, pc) :: ps, q, hq, hq0 => by
    simp only [expandRuns, List.mem_append, List.mem_replicate]
    rcases List.mem_cons.1 hq with rfl | hq'
    · exact Or.inl ⟨by simp at hq0; omega, rfl⟩
    · exact Or.inr (mem_expandRuns ps q hq' hq0)

/-- for a column ordered by the name key: the run names are ordered and pairwise different -/
theorem runs_strict : ∀ (runs : List (Option String × ℕ)),
    runs.IsChain (fun a b => a.1 ≠ b.1) → (∀ q ∈ runs, 0 < q.2) →
    (expandRuns runs).Pairwise nameKeyLe →
    runs.Pairwise (fun a b => nameKeyLe a.1 b.1 ∧ a.1 ≠ b.1)
  | [], _, _, _ => List.Pairwise.nil
  | [q], _, _, _ => by simp
  | (n, c) :: (m, d) :: rest, hch, hpos, hs => by
    have hc0 : 0 < c := hpos (n, c) (by simp)
    have hd0 : 0 < d := hpos (m, d) (by simp)
    rw [List.isChain_cons_cons] at hch
    have hs' : (expandRuns ((m, d) :: rest)).Pairwise nameKeyLe := by
      simp only [expandRuns] at hs ⊢
      exact (List.pairwise_append.1 hs).2.1
    have ih := runs_strict ((m, d) :: rest) hch.2 (fun q hq => hpos q (List.mem_cons_of_mem _ hq)) hs'
    refine List.Pairwise.cons ?_ ih
    -- `n` is below every name of the column after the first run
    have hle : ∀ q ∈ (m, d) :: rest, nameKeyLe n q.1 := by
      intro q hq
      have hq0 : 0 < q.2 := hpos q (List.mem_cons_of_mem _ hq)
      have hmem : q.1 ∈ expandRuns ((m, d) :: rest) := mem_expandRuns _ q hq hq0
      simp only [expandRuns] at hs
      have := (List.pairwise_append.1 hs).2.2 n (by simp; omega) q.1 (by simpa [expandRuns] using hmem)
      exact this
    intro q hq
    refine ⟨hle q hq, ?_⟩
    intro hnq
    rcases List.mem_cons.1 hq with rfl | hq'
    · exact hch.1 hnq
    · -- n ≤ m ≤ q.1 = n, so m = n
      have h1 : nameKeyLe n m := hle (m, d) (by simp)
      have h2 : nameKeyLe m q.1 := ((List.pairwise_cons.1 ih).1 q hq').1
      rw [← hnq] at h2
      exact hch.1 (nameKeyLe_antisymm _ _ h1 h2)

/-- entries of the `boundary` file of a name-ordered face list carry pairwise different names -/
theorem ofoam_entries_distinct (l : List Face) (hs : (l.map (·.name)).Pairwise nameKeyLe) :
    ((boundaryEntries (nameRuns l) 0).map (·.1)).Nodup := by
  have h := runs_strict (nameRuns l) (nameRuns_chain l).1 (nameRuns_chain l).2
    (by rw [expandRuns_nameRuns]; exact hs)
  have h2 : ((nameRuns l).filter (fun q => q.1.isSome)).Pairwise (fun a b => a.1 ≠ b.1) :=
    (h.imp (fun hab => hab.2)).sublist List.filter_sublist
  rw [← boundaryEntries_eq (nameRuns l) 0, List.pairwise_map] at h2
  rw [List.Nodup, List.pairwise_map]
  exact h2.imp (fun hab heq => hab (by rw [heq]))

/-- in a name-ordered list every face without a name (internal) precedes every named face -/
theorem internal_first (l pre post : List Face) (f : Face) (hs : (l.map (·.name)).Pairwise nameKeyLe)
    (hl : l = pre ++ f :: post) (hf : f.name = none) : ∀ g ∈ pre, g.name = none := by
  intro g hg
  subst hl
  rw [List.map_append, List.map_cons] at hs
  have := (List.pairwise_append.1 hs).2.2 g.name (List.mem_map_of_mem hg) f.name (by simp)
  rw [hf] at this
  cases hgn : g.name with
  | none => rfl
  | some x => rw [hgn] at this; simp [nameKeyLe] at this

/-- the number of distinct names (other than `None`) of a name-ordered face list is the number of
    entries of the `boundary` file -/
theorem ofoam_declared (l : List Face) (hs : (l.map (·.name)).Pairwise nameKeyLe) :
    ((l.map (·.name)).dedup.filter (·.isSome)).length = (boundaryEntries (nameRuns l) 0).length := by
  have hA : ((l.map (·.name)).dedup.filter (·.isSome)).Nodup := (List.nodup_dedup _).filter _
  have hB : ((boundaryEntries (nameRuns l) 0).map (fun e => some e.1)).Nodup := by
    have := ofoam_entries_distinct l hs
    have h2 := this.map (f := (some : String → Option String)) (fun a b h => Option.some.inj h)
    rwa [List.map_map] at h2
  have hperm : ((l.map (·.name)).dedup.filter (·.isSome)).Perm ((boundaryEntries (nameRuns l) 0).map (fun e => some e.1)) := by
    rw [List.perm_ext_iff_of_nodup hA hB]
    intro x
    constructor
    · intro hx
      obtain ⟨hx1, hx2⟩ := List.mem_filter.1 hx
      rw [List.mem_dedup] at hx1
      cases x with
      | none => simp at hx2
      | some nm =>
        obtain ⟨i, hi, hget⟩ := List.getElem_of_mem hx1
        have : (l.map (·.name))[i]? = some (some nm) := by rw [List.getElem?_eq_getElem hi, hget]
        obtain ⟨e, he, hen, -, -⟩ := ofoam_entry_cover l i nm this
        exact List.mem_map.2 ⟨e, he, by rw [hen]⟩
    · intro hx
      obtain ⟨e, he, rfl⟩ := List.mem_map.1 hx
      obtain ⟨hblock, hpos, -⟩ := ofoam_entry_block l e he
      refine List.mem_filter.2 ⟨List.mem_dedup.2 ?_, rfl⟩
      have hmem : some e.1 ∈ ((l.map (·.name)).drop e.2.2).take e.2.1 := by
        rw [hblock]; exact List.mem_replicate.2 ⟨by omega, rfl⟩
      exact List.mem_of_mem_drop (List.mem_of_mem_take hmem)
  rw [hperm.length_eq, List.length_map]

end Splipy.MP.C18L
