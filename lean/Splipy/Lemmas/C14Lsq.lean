import Mathlib.LinearAlgebra.Matrix.ToLinearEquiv
import Mathlib.LinearAlgebra.Matrix.NonsingularInverse
import Mathlib.Algebra.Order.BigOperators.Ring.Finset
import Splipy.Lemmas.C14Spec
import Splipy.Lemmas.C14Proj
set_option linter.unusedSectionVars false

/-!
# C14: least squares needs no solvability hypothesis

Sample points containing a nested (Schoenberg–Whitney) subsequence ⇒ the collocation matrix `N` has
full column rank ⇒ `NᵀN` is injective over an ordered field (`xᵀNᵀNx = Σ (Nx)ᵢ²`) ⇒ it has a left
inverse ⇒ the (sound and complete) Gauss–Jordan model solves the normal equations.
-/

namespace Splipy
open Finset

section algebra
variable {K : Type} [Field K] [LinearOrder K] [IsStrictOrderedRing K]

theorem sum_sq_eq_zero_c14 (m : ℕ) (a : ℕ → K) (h : ∑ i ∈ range m, a i ^ 2 = 0) :
    ∀ i < m, a i = 0 := by
  intro i hi
  have := (sum_eq_zero_iff_of_nonneg (fun i _ => sq_nonneg (a i))).mp h i (mem_range.mpr hi)
  exact pow_eq_zero_iff (by decide) |>.mp this

/-- `xᵀ (NᵀN) x = Σ_l (N x)_l²`. -/
theorem gram_quadratic_c14 (m n : ℕ) (N : ℕ → ℕ → K) (x : ℕ → K) :
    ∑ i ∈ range n, x i * ∑ j ∈ range n, (∑ l ∈ range m, N l i * N l j) * x j
      = ∑ l ∈ range m, (∑ j ∈ range n, N l j * x j) ^ 2 := by
  have e : ∀ l ∈ range m, (∑ j ∈ range n, N l j * x j) ^ 2
      = ∑ i ∈ range n, ∑ j ∈ range n, x i * (N l i * N l j) * x j := by
    intro l _
    rw [sq, sum_mul_sum]
    exact sum_congr rfl (fun i _ => sum_congr rfl (fun j _ => by ring))
  rw [sum_congr rfl e, sum_comm]
  apply sum_congr rfl
  intro i _
  rw [mul_sum, sum_comm]
  apply sum_congr rfl
  intro j _
  rw [sum_mul, mul_sum]
  exact sum_congr rfl (fun l _ => by ring)

/-- Full column rank of `N` ⇒ the Gram matrix `NᵀN` is injective. -/
theorem gram_injective_c14 (m n : ℕ) (N : ℕ → ℕ → K)
    (hinj : ∀ x : ℕ → K, (∀ i < m, ∑ j ∈ range n, N i j * x j = 0) → ∀ j < n, x j = 0)
    (x : ℕ → K)
    (h : ∀ i < n, ∑ j ∈ range n, (∑ l ∈ range m, N l i * N l j) * x j = 0) : ∀ j < n, x j = 0 := by
  apply hinj
  apply sum_sq_eq_zero_c14
  rw [← gram_quadratic_c14]
  exact sum_eq_zero (fun i hi => by rw [h i (mem_range.mp hi), mul_zero])

end algebra

section det
variable {K : Type} [Field K]

/-- An injective square entry function has an entrywise left inverse. -/
theorem left_inverse_of_injective_c14 (n : ℕ) (A : ℕ → ℕ → K)
    (hinj : ∀ x : ℕ → K, (∀ i < n, ∑ j ∈ range n, A i j * x j = 0) → ∀ j < n, x j = 0) :
    ∃ L : ℕ → ℕ → K, ∀ i j, i < n → j < n → ∑ l ∈ range n, L i l * A l j = if i = j then 1 else 0 := by
  set Am : Matrix (Fin n) (Fin n) K := Matrix.of fun (i j : Fin n) => A i.val j.val with hAm
  have hdet : Am.det ≠ 0 := by
    intro h0
    obtain ⟨v, hv, hmv⟩ := Matrix.exists_mulVec_eq_zero_iff.2 h0
    apply hv
    have key := hinj (fun j => if h : j < n then v ⟨j, h⟩ else 0) (by
      intro i hi
      have := congrFun hmv ⟨i, hi⟩
      simp only [Matrix.mulVec, dotProduct, hAm, Matrix.of_apply, Pi.zero_apply] at this
      rw [← Fin.sum_univ_eq_sum_range (fun j => A i j * (if h : j < n then v ⟨j, h⟩ else 0)) n]
      refine Eq.trans (sum_congr rfl (fun j _ => ?_)) this
      rw [dif_pos j.isLt])
    funext j
    have := key j.val j.isLt
    simp only [j.isLt, dif_pos] at this
    exact this
  have hinv := Matrix.nonsing_inv_mul Am (isUnit_iff_ne_zero.2 hdet)
  refine ⟨fun i l => if h : i < n ∧ l < n then Am⁻¹ ⟨i, h.1⟩ ⟨l, h.2⟩ else 0, ?_⟩
  intro i j hi hj
  have := congrFun (congrFun hinv ⟨i, hi⟩) ⟨j, hj⟩
  rw [Matrix.mul_apply, Matrix.one_apply] at this
  simp only [Fin.ext_iff] at this
  rw [← this, Finset.sum_range]
  apply sum_congr rfl
  intro l _
  simp only []
  rw [dif_pos ⟨hi, l.isLt⟩]
  rfl

end det
end Splipy

namespace Splipy
open Finset
namespace Interp
variable {K : Type} [Field K] [LinearOrder K] [IsStrictOrderedRing K] [FloorRing K]

/-- **Full column rank**: if the sample points contain (at positions `idx 0, …, idx (n−1)`) exact nested
collocation points of a clamped continuous basis, then `N x = 0 ⇒ x = 0` for the collocation matrix
`N` of ALL sample points. -/
theorem colloc_full_rank {b : Basis K} (hv : b.Valid) (hper : b.periodic = -1)
    (hp : 2 ≤ b.order) (hc0 : b.kn 0 = b.kn (b.order - 1))
    (hc1 : b.kn b.numFunctions = b.kn (b.numFunctions + (b.order - 1)))
    (hmult : ∀ i, 1 ≤ i → i < b.numFunctions → b.kn i < b.kn (i + (b.order - 1)))
    {tol : K} (htol : 0 < tol) (ts : List K) (idx : ℕ → ℕ)
    (hidx : ∀ l, l < b.numFunctions → idx l < ts.length)
    (hx : NestedPts b.kn (b.order - 1) b.numFunctions (fun l => ts.getD (idx l) 0))
    (hex : ∀ l, l < b.numFunctions → b.ExactAt tol (ts.getD (idx l) 0))
    (x : ℕ → K)
    (h : ∀ i < ts.length, ∑ j ∈ range b.numFunctions, (colloc b tol ts 0).get i j * x j = 0) :
    ∀ j < b.numFunctions, x j = 0 := by
  set ps := (List.range b.numFunctions).map (fun l => ts.getD (idx l) 0) with hps
  have hlen : ps.length = b.numFunctions := by rw [hps]; simp
  have hget : ∀ l (hl : l < ps.length), ps[l] = ts.getD (idx l) 0 := by
    intro l hl; simp [hps]
  obtain ⟨Ni, hNi⟩ := colloc_invChecked_ok hv hper hp hc0 hc1 hmult htol ps hlen (fun l => ts.getD (idx l) 0) hx
    (fun l hl => by rw [hget l hl]) hex
  obtain ⟨_, hL⟩ := Mat.invChecked_spec _ _ hNi
  have hnr : (Obj.basisMat b tol ps 0 true).nrows = b.numFunctions := by
    unfold Mat.nrows; rw [(basisMat_shape b tol ps hlen).1, hlen]
  rw [hnr] at hL
  intro j hj
  have key := leftInv_apply b.numFunctions (fun i l => Ni.get i l)
    (fun l k => (Obj.basisMat b tol ps 0 true).get l k) hL x j hj
  rw [← key]
  apply sum_eq_zero
  intro l hl
  have hl' := mem_range.mp hl
  have : ∑ k ∈ range b.numFunctions, (Obj.basisMat b tol ps 0 true).get l k * x k = 0 := by
    rw [← h (idx l) (hidx l hl')]
    apply sum_congr rfl
    intro k _
    rw [basisMat_get b tol ps l k (by omega), hget l (by omega), get_colloc b tol ts 0 (idx l) k (hidx l hl')]
  simp only [this, mul_zero]

/-- The normal matrix of such sample points has a left inverse; hence the model inverts it. -/
theorem normal_invC_ok {b : Basis K} (hv : b.Valid) (hper : b.periodic = -1)
    (hp : 2 ≤ b.order) (hc0 : b.kn 0 = b.kn (b.order - 1))
    (hc1 : b.kn b.numFunctions = b.kn (b.numFunctions + (b.order - 1)))
    (hmult : ∀ i, 1 ≤ i → i < b.numFunctions → b.kn i < b.kn (i + (b.order - 1)))
    {tol : K} (htol : 0 < tol) (ts : List K) (idx : ℕ → ℕ)
    (hidx : ∀ l, l < b.numFunctions → idx l < ts.length)
    (hx : NestedPts b.kn (b.order - 1) b.numFunctions (fun l => ts.getD (idx l) 0))
    (hex : ∀ l, l < b.numFunctions → b.ExactAt tol (ts.getD (idx l) 0)) :
    let G := Mat.mul (Mat.transpose (colloc b tol ts 0)) (colloc b tol ts 0)
    (G.size = b.numFunctions ∧ ∀ i, i < b.numFunctions → (G.getD i #[]).size = b.numFunctions) ∧
    (∃ L : ℕ → ℕ → K, ∀ i j, i < b.numFunctions → j < b.numFunctions →
      ∑ l ∈ range b.numFunctions, L i l * G.get l j = if i = j then 1 else 0) ∧
    ∃ Gi, invC G = .ok Gi := by
  intro G
  set N := colloc b tol ts 0 with hN
  have hn : 0 < b.numFunctions := by
    have := hv.order_le_nAll
    have := Basis.numFunctions_of_nonperiodic hper
    omega
  have hpos : 0 < ts.length := Nat.lt_of_le_of_lt (Nat.zero_le _) (hidx 0 hn)
  have hNs : N.size = ts.length := size_colloc _ _ _ _
  have hcols : N.ncols = b.numFunctions := by
    unfold Mat.ncols
    rw [hN, row_colloc b tol ts 0 0 hpos, size_evaluate_c14]
  have hTs : (Mat.transpose N).nrows = b.numFunctions := by rw [Mat.nrows_transpose_c14, hcols]
  have hshape : G.size = b.numFunctions ∧ ∀ i, i < b.numFunctions → (G.getD i #[]).size = b.numFunctions := by
    refine ⟨by
      have := Mat.nrows_mul_c14 (Mat.transpose N) N
      unfold Mat.nrows at this hTs
      rw [this, hTs], fun i hi => ?_⟩
    rw [Mat.row_size_mul_c14 (Mat.transpose N) N i (by rw [hTs]; exact hi), hcols]
  have hGget : ∀ i l, i < b.numFunctions → l < b.numFunctions →
      G.get i l = ∑ r ∈ range ts.length, N.get r i * N.get r l := by
    intro i l hi hl
    have := get_normal N i l (by rw [hcols]; exact hi) (by rw [hcols]; exact hl)
    have hnr : N.nrows = ts.length := hNs
    rw [hnr] at this
    exact this
  have hinjG : ∀ x : ℕ → K, (∀ i < b.numFunctions, ∑ j ∈ range b.numFunctions, G.get i j * x j = 0) →
      ∀ j < b.numFunctions, x j = 0 := by
    intro x hx0
    apply gram_injective_c14 ts.length b.numFunctions (fun r j => N.get r j)
      (fun y hy => colloc_full_rank hv hper hp hc0 hc1 hmult htol ts idx hidx hx hex y hy) x
    intro i hi
    rw [← hx0 i hi]
    exact sum_congr rfl (fun j hj => by rw [hGget i j hi (mem_range.mp hj)])
  obtain ⟨L, hL⟩ := left_inverse_of_injective_c14 b.numFunctions (fun i j => G.get i j) hinjG
  exact ⟨hshape, ⟨L, hL⟩, invC_complete G b.numFunctions hshape L hL⟩

/-- **`least_square_fit` succeeds** — no solvability hypothesis. -/
theorem leastSquareCurve_ok {b : Basis K} (hv : b.Valid) (hper : b.periodic = -1)
    (hp : 2 ≤ b.order) (hc0 : b.kn 0 = b.kn (b.order - 1))
    (hc1 : b.kn b.numFunctions = b.kn (b.numFunctions + (b.order - 1)))
    (hmult : ∀ i, 1 ≤ i → i < b.numFunctions → b.kn i < b.kn (i + (b.order - 1)))
    {tol : K} (htol : 0 < tol) (ts : List K) (idx : ℕ → ℕ)
    (hidx : ∀ l, l < b.numFunctions → idx l < ts.length)
    (hx : NestedPts b.kn (b.order - 1) b.numFunctions (fun l => ts.getD (idx l) 0))
    (hex : ∀ l, l < b.numFunctions → b.ExactAt tol (ts.getD (idx l) 0))
    (x : Mat K) (m : ℕ) (hxs : x.size = ts.length ∧ ∀ i, i < ts.length → (x.getD i #[]).size = m) :
    ∃ c, leastSquareCurve b tol ts x = .ok c := by
  obtain ⟨hshape, ⟨L, hL⟩, _⟩ := normal_invC_ok hv hper hp hc0 hc1 hmult htol ts idx hidx hx hex
  set N := colloc b tol ts 0 with hN
  have hn : 0 < b.numFunctions := by
    have := hv.order_le_nAll
    have := Basis.numFunctions_of_nonperiodic hper
    omega
  have hpos : 0 < ts.length := Nat.lt_of_le_of_lt (Nat.zero_le _) (hidx 0 hn)
  have hcols : N.ncols = b.numFunctions := by
    unfold Mat.ncols
    rw [hN, row_colloc b tol ts 0 0 hpos, size_evaluate_c14]
  have hTs : (Mat.transpose N).nrows = b.numFunctions := by rw [Mat.nrows_transpose_c14, hcols]
  have hrhs : (Mat.mul (Mat.transpose N) x).size = b.numFunctions ∧
      ∀ i, i < b.numFunctions → ((Mat.mul (Mat.transpose N) x).getD i #[]).size = x.ncols := by
    refine ⟨by
      have := Mat.nrows_mul_c14 (Mat.transpose N) x
      unfold Mat.nrows at this hTs
      rw [this, hTs], fun i hi => ?_⟩
    rw [Mat.row_size_mul_c14 (Mat.transpose N) x i (by rw [hTs]; exact hi)]
  obtain ⟨c, hc⟩ := solveC_complete _ _ b.numFunctions x.ncols hshape hrhs L hL
  refine ⟨c, ?_⟩
  unfold leastSquareCurve
  simp only [bind, Except.bind]
  rw [if_neg (by rw [size_colloc]; omega)]
  exact hc

end Interp
end Splipy
