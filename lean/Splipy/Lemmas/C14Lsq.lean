import Splipy.Lemmas.C14Lsq0
import Splipy.Lemmas.C14Spec
import Splipy.Lemmas.C14Proj
set_option linter.unusedSectionVars false

/-!
# C14: least squares needs no solvability hypothesis (model level)

The algebra (`gram_injective_c14`, `left_inverse_of_injective_c14`) is in `C14Lsq0.lean`.
-/

namespace Splipy
open Finset
namespace Interp
variable {K : Type} [Field K] [LinearOrder K] [IsStrictOrderedRing K] [FloorRing K]

/-- **Full column rank**: if the sample points contain (at positions `idx 0, …, idx (n−1)`) exact nested
collocation points of a clamped continuous basis, then `N x = 0 ⇒ x = 0` for the collocation matrix
`N` of ALL sample points. -/
theorem colloc_full_rank {b : Basis K} (hv : b.Valid) (hper : b.periodic = -1)
    (hp : 2 ≤ b.order) (hc0 : b.kn 0 = b.kn (b.order - 1))
    (hc1 : b.kn b.numFunctions = b.kn (b.numFunctions + (b.order - 1)))
    (hmult : ∀ i, 1 ≤ i → i < b.numFunctions → b.kn i < b.kn (i + (b.order - 1)))
    {tol : K} (htol : 0 < tol) (ts : List K) (idx : ℕ → ℕ) (p0 p1 : Bool)
    (hidx : ∀ l, l < b.numFunctions → idx l < ts.length)
    (hx : GenNested b.kn (b.order - 1) b.numFunctions (fun l => ts.getD (idx l) 0) p0 p1)
    (hex : ∀ l, l < b.numFunctions → b.ExactAt tol (ts.getD (idx l) 0))
    (x : ℕ → K)
    (h : ∀ i < ts.length, ∑ j ∈ range b.numFunctions, (colloc b tol ts 0).get i j * x j = 0) :
    ∀ j < b.numFunctions, x j = 0 := by
  set ps := (List.range b.numFunctions).map (fun l => ts.getD (idx l) 0) with hps
  have hlen : ps.length = b.numFunctions := by rw [hps]; simp
  have hgetD : ∀ l, l < b.numFunctions → ps.getD l 0 = ts.getD (idx l) 0 := by
    intro l hl
    rw [hps]
    simp [List.getD_eq_getElem?_getD, hl]
  have hn1 : 1 ≤ b.numFunctions := by
    have := hv.order_le_nAll
    have := Basis.numFunctions_of_nonperiodic hper
    omega
  obtain ⟨L, hL⟩ := colloc_left_inverse_gen hv hper hp hc0 hc1 hmult htol ps hlen p0 p1
    (GenNested.congr_c14 hn1 hx hgetD) (fun l hl => by rw [hgetD l hl]; exact hex l hl)
  intro j hj
  have key := leftInv_apply b.numFunctions L (fun l k => (colloc b tol ps 0).get l k)
    (fun i hi j hj => hL i j hi hj) x j hj
  rw [← key]
  apply sum_eq_zero
  intro l hl
  have hl' := mem_range.mp hl
  have : ∑ k ∈ range b.numFunctions, (colloc b tol ps 0).get l k * x k = 0 := by
    refine (sum_congr rfl (fun k _ => ?_)).trans (h (idx l) (hidx l hl'))
    rw [get_colloc b tol ps 0 l k (by omega), hgetD l hl', get_colloc b tol ts 0 (idx l) k (hidx l hl')]
  simp only [this, mul_zero]

/-- The normal matrix of such sample points has a left inverse; hence the model inverts it. -/
theorem normal_invC_ok {b : Basis K} (hv : b.Valid) (hper : b.periodic = -1)
    (hp : 2 ≤ b.order) (hc0 : b.kn 0 = b.kn (b.order - 1))
    (hc1 : b.kn b.numFunctions = b.kn (b.numFunctions + (b.order - 1)))
    (hmult : ∀ i, 1 ≤ i → i < b.numFunctions → b.kn i < b.kn (i + (b.order - 1)))
    {tol : K} (htol : 0 < tol) (ts : List K) (idx : ℕ → ℕ) (p0 p1 : Bool)
    (hidx : ∀ l, l < b.numFunctions → idx l < ts.length)
    (hx : GenNested b.kn (b.order - 1) b.numFunctions (fun l => ts.getD (idx l) 0) p0 p1)
    (hex : ∀ l, l < b.numFunctions → b.ExactAt tol (ts.getD (idx l) 0)) :
    let G := Mat.mul (Mat.transpose (colloc b tol ts 0)) (colloc b tol ts 0)
    (G.size = b.numFunctions ∧ ∀ i, i < b.numFunctions → (G.getD i #[]).size = b.numFunctions) ∧
    (∃ L : ℕ → ℕ → K, ∀ i j, i < b.numFunctions → j < b.numFunctions →
      ∑ l ∈ range b.numFunctions, L i l * G.get l j = if i = j then 1 else 0) ∧
    ∃ Gi, invC G = .ok Gi := by
  intro G
  set N := colloc b tol ts 0 with hN
  have hn : 0 < b.numFunctions := by
    have := hv.order_le_nAll
    have := Basis.numFunctions_of_nonperiodic hper
    omega
  have hpos : 0 < ts.length := Nat.lt_of_le_of_lt (Nat.zero_le _) (hidx 0 hn)
  have hNs : N.size = ts.length := size_colloc _ _ _ _
  have hcols : N.ncols = b.numFunctions := by
    unfold Mat.ncols
    rw [hN, row_colloc b tol ts 0 0 hpos, size_evaluate_c14]
  have hTs : (Mat.transpose N).nrows = b.numFunctions := by rw [Mat.nrows_transpose_c14, hcols]
  have hshape : G.size = b.numFunctions ∧ ∀ i, i < b.numFunctions → (G.getD i #[]).size = b.numFunctions := by
    refine ⟨by
      have := Mat.nrows_mul_c14 (Mat.transpose N) N
      unfold Mat.nrows at this hTs
      rw [this, hTs], fun i hi => ?_⟩
    rw [Mat.row_size_mul_c14 (Mat.transpose N) N i (by rw [hTs]; exact hi), hcols]
  have hGget : ∀ i l, i < b.numFunctions → l < b.numFunctions →
      G.get i l = ∑ r ∈ range ts.length, N.get r i * N.get r l := by
    intro i l hi hl
    have := get_normal N i l (by rw [hcols]; exact hi) (by rw [hcols]; exact hl)
    have hnr : N.nrows = ts.length := hNs
    rw [hnr] at this
    exact this
  have hinjG : ∀ x : ℕ → K, (∀ i < b.numFunctions, ∑ j ∈ range b.numFunctions, G.get i j * x j = 0) →
      ∀ j < b.numFunctions, x j = 0 := by
    intro x hx0
    apply gram_injective_c14 ts.length b.numFunctions (fun r j => N.get r j)
      (fun y hy => colloc_full_rank hv hper hp hc0 hc1 hmult htol ts idx p0 p1 hidx hx hex y hy) x
    intro i hi
    rw [← hx0 i hi]
    exact sum_congr rfl (fun j hj => by rw [hGget i j hi (mem_range.mp hj)])
  obtain ⟨L, hL⟩ := left_inverse_of_injective_c14 b.numFunctions (fun i j => G.get i j) hinjG
  exact ⟨hshape, ⟨L, hL⟩, invC_complete G b.numFunctions hshape L hL⟩

/-- **`least_square_fit` succeeds** — no solvability hypothesis. -/
theorem leastSquareCurve_ok {b : Basis K} (hv : b.Valid) (hper : b.periodic = -1)
    (hp : 2 ≤ b.order) (hc0 : b.kn 0 = b.kn (b.order - 1))
    (hc1 : b.kn b.numFunctions = b.kn (b.numFunctions + (b.order - 1)))
    (hmult : ∀ i, 1 ≤ i → i < b.numFunctions → b.kn i < b.kn (i + (b.order - 1)))
    {tol : K} (htol : 0 < tol) (ts : List K) (idx : ℕ → ℕ) (p0 p1 : Bool)
    (hidx : ∀ l, l < b.numFunctions → idx l < ts.length)
    (hx : GenNested b.kn (b.order - 1) b.numFunctions (fun l => ts.getD (idx l) 0) p0 p1)
    (hex : ∀ l, l < b.numFunctions → b.ExactAt tol (ts.getD (idx l) 0))
    (x : Mat K) (m : ℕ) (hxs : x.size = ts.length ∧ ∀ i, i < ts.length → (x.getD i #[]).size = m) :
    ∃ c, leastSquareCurve b tol ts x = .ok c := by
  obtain ⟨hshape, ⟨L, hL⟩, _⟩ := normal_invC_ok hv hper hp hc0 hc1 hmult htol ts idx p0 p1 hidx hx hex
  set N := colloc b tol ts 0 with hN
  have hn : 0 < b.numFunctions := by
    have := hv.order_le_nAll
    have := Basis.numFunctions_of_nonperiodic hper
    omega
  have hpos : 0 < ts.length := Nat.lt_of_le_of_lt (Nat.zero_le _) (hidx 0 hn)
  have hcols : N.ncols = b.numFunctions := by
    unfold Mat.ncols
    rw [hN, row_colloc b tol ts 0 0 hpos, size_evaluate_c14]
  have hTs : (Mat.transpose N).nrows = b.numFunctions := by rw [Mat.nrows_transpose_c14, hcols]
  have hrhs : (Mat.mul (Mat.transpose N) x).size = b.numFunctions ∧
      ∀ i, i < b.numFunctions → ((Mat.mul (Mat.transpose N) x).getD i #[]).size = x.ncols := by
    refine ⟨by
      have := Mat.nrows_mul_c14 (Mat.transpose N) x
      unfold Mat.nrows at this hTs
      rw [this, hTs], fun i hi => ?_⟩
    rw [Mat.row_size_mul_c14 (Mat.transpose N) x i (by rw [hTs]; exact hi)]
  obtain ⟨c, hc⟩ := solveC_complete _ _ b.numFunctions x.ncols hshape hrhs L hL
  refine ⟨c, ?_⟩
  unfold leastSquareCurve
  simp only [bind, Except.bind]
  rw [if_neg (by rw [size_colloc]; omega)]
  exact hc

end Interp
end Splipy
