import Splipy.Lemmas.C15VolIdentical
import Splipy.Lemmas.C15Corners

/-!
# Volumes whose directions are either "full" (`unitBasis (p d) (U d) (M d)`) or linear

All the intermediate volumes of the six-face `edge_surfaces` are of this kind; `make_splines_identical`
of two of them gives the direction-wise "or" of the two patterns.
-/

set_option linter.unusedSectionVars false

namespace Splipy
namespace C15

open C06 C12 Obj Basis

variable {K : Type} [Field K] [LinearOrder K] [IsStrictOrderedRing K] [FloorRing K]

/-- Multiplicity list "all absent". -/
def zerosOf (U : List K) : List ℕ := U.map (fun _ => 0)

/-- Orders / multiplicities of a pattern: direction `d` full (`f d = true`) or linear. -/
def stdP (p : Fin 3 → ℕ) (f : Fin 3 → Bool) : Fin 3 → ℕ := fun d => if f d then p d else 2
def stdM (U : Fin 3 → List K) (M : Fin 3 → List ℕ) (f : Fin 3 → Bool) : Fin 3 → List ℕ :=
  fun d => if f d then M d else zerosOf (U d)

/-- A volume with pattern `f` over the data `p, U, M`. -/
abbrev StdVol (s : Obj K) (p : Fin 3 → ℕ) (U : Fin 3 → List K) (M : Fin 3 → List ℕ) (f : Fin 3 → Bool)
    (rat : Bool) (nc : ℕ) : Prop :=
  UnitVol s (stdP p f) U (stdM U M f) rat nc

theorem UnitVol.congr {s : Obj K} {p p' : Fin 3 → ℕ} {U : Fin 3 → List K} {M M' : Fin 3 → List ℕ} {rat : Bool}
    {nc : ℕ} (h : UnitVol s p U M rat nc) (hp : ∀ d, p d = p' d) (hM : ∀ d, M d = M' d) :
    UnitVol s p' U M' rat nc := by
  have e1 : p = p' := funext hp
  have e2 : M = M' := funext hM
  rw [← e1, ← e2]; exact h

theorem stdBasis_eq (p : Fin 3 → ℕ) (U : Fin 3 → List K) (M : Fin 3 → List ℕ) (f : Fin 3 → Bool) (d : Fin 3) :
    unitBasis (stdP p f d) (U d) (stdM U M f d) = if f d then unitBasis (p d) (U d) (M d) else linearBasis := by
  unfold stdP stdM zerosOf
  cases f d
  · simp only [Bool.false_eq_true, if_false]
    exact (linearBasis_form (U d)).symm
  · simp only [if_true]

/-- **`make_splines_identical` of two pattern volumes**: succeeds, both results have the pattern
    `fa ∨ fb`, both are the same maps as the inputs. -/
theorem identical_std (tol : K) (htol : 0 < tol) (p : Fin 3 → ℕ) (U : Fin 3 → List K) (M : Fin 3 → List ℕ)
    (k : ∀ d, UnitKnots tol (p d) (U d) (M d)) (fa fb : Fin 3 → Bool) (rat : Bool) (nc : ℕ) (s1 s2 : Obj K)
    (v1 : StdVol s1 p U M fa rat nc) (v2 : StdVol s2 p U M fb rat nc) :
    ∃ r, makeIdentical tol false false s1 s2 none = .ok r
      ∧ StdVol r.1 p U M (fun d => fa d || fb d) rat nc ∧ StdVol r.2 p U M (fun d => fa d || fb d) rat nc
      ∧ SameMap 3 s1 r.1 ∧ SameMap 3 s2 r.2 := by
  have h2tol : (0 : K) + 2 * ((1 : ℕ) : K) * tol < 1 := (k 0).two_tol htol
  have nlin : Nice3 tol (linearBasis : Basis K) := linear_nice3 htol h2tol
  have hp2 : ∀ (f : Fin 3 → Bool) d, 2 ≤ stdP p f d := by
    intro f d; unfold stdP; split_ifs
    · exact (k d).hp
    · exact le_refl 2
  have hle : ∀ (f : Fin 3 → Bool) d, stdP p f d ≤ p d := by
    intro f d; unfold stdP; split_ifs
    · exact le_refl _
    · exact (k d).hp
  have hl : ∀ (f : Fin 3 → Bool) d, (stdM U M f d).length = (U d).length := by
    intro f d; unfold stdM zerosOf; split_ifs
    · exact (k d).hlen
    · simp
  have hm : ∀ (f : Fin 3 → Bool) d, ∀ x ∈ stdM U M f d, x ≤ stdP p f d - 1 := by
    intro f d x hx
    unfold stdM stdP zerosOf at *
    split_ifs at hx ⊢ with h
    · exact ((k d).hm x hx).2
    · obtain ⟨_, _, rfl⟩ := List.mem_map.1 hx
      exact Nat.zero_le _
  have hnice : ∀ (f : Fin 3 → Bool) d, Nice3 tol (unitBasis (stdP p f d) (U d) (stdM U M f d)) := by
    intro f d
    rw [stdBasis_eq]
    split_ifs
    · exact (k d).nice3 htol
    · exact nlin
  have hmax : ∀ d, max (stdP p fa d) (stdP p fb d) = stdP p (fun d => fa d || fb d) d := by
    intro d
    have := (k d).hp
    unfold stdP
    cases hfa : fa d <;> cases hfb : fb d <;> simp [hfa, hfb] <;> omega
  have hun : ∀ d, unionMult (stdP p fa d) (stdP p fb d) (stdM U M fa d) (stdM U M fb d)
      = stdM U M (fun d => fa d || fb d) d := by
    intro d
    have hpd := (k d).hp
    unfold stdP stdM zerosOf
    cases hfa : fa d <;> cases hfb : fb d <;> simp only [hfa, hfb, Bool.false_eq_true, if_false, if_true,
      Bool.or_false, Bool.or_true, Bool.or_self]
    · exact unionMult_self 2 _
    · exact unionMult_zeros_left (p d) hpd (M d) (U d) (k d).hlen
    · exact unionMult_zeros_right (p d) hpd (M d) (U d) (k d).hlen
    · exact unionMult_self (p d) _
  obtain ⟨r, hr, R1, R2, m1, m2⟩ := makeIdentical_unit_volumes tol htol (stdP p fa) (stdP p fb) (hp2 fa) (hp2 fb) U
    (stdM U M fa) (stdM U M fb) (hl fa) (hl fb) (hm fa) (hm fb)
    (by
      intro d
      apply separated_mono _ (k d).hgap
      have h1 : ((max (stdP p fa d) (stdP p fb d) - 1 : ℕ) : K) ≤ ((p d - 1 : ℕ) : K) := by
        have : max (stdP p fa d) (stdP p fb d) - 1 ≤ p d - 1 := by
          have := hle fa d; have := hle fb d
          have := max_le (hle fa d) (hle fb d)
          omega
        exact_mod_cast this
      have h2 : (0 : K) ≤ ((max (stdP p fa d) (stdP p fb d) - 1 : ℕ) : K) := Nat.cast_nonneg _
      nlinarith)
    rat nc s1 s2 v1 v2 (hnice fa) (hnice fb)
    (by intro d; rw [hmax d, hun d]; exact hnice _ d)
  exact ⟨r, hr, R1.congr hmax hun, R2.congr hmax hun, m1, m2⟩

end C15
end Splipy
