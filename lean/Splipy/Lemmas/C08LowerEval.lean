import Splipy.Lemmas.C08Lower
import Splipy.Lemmas.C04PerEval

/-!
# `lower_periodic` on curves and the real evaluator `Obj.evaluate`
-/

namespace Splipy

set_option linter.unusedSectionVars false
set_option linter.unusedVariables false

open C04 Finset Bridge

variable {K : Type} [Field K] [LinearOrder K] [IsStrictOrderedRing K] [FloorRing K]

theorem bases_singleton (o : Obj K) (h : o.bases.size = 1) : o.bases = #[o.basis 0] := by
  apply Array.ext
  · simp [h]
  · intro i h1 h2
    have hi : i = 0 := by simp at h2; omega
    subst hi
    simp [Obj.basis, Array.getD, h1]

/-- `Σ_j specRow_j(u)·f_j` of a NON-periodic basis at a parameter of the domain is the (trivially
wrapped) sum `wsum` with `nAll = numFunctions`. -/
theorem specRow_sum_open (b : Basis K) (hper : b.periodic = -1) (u : K) (f : ℕ → K) :
    ∑ j ∈ range b.numFunctions, b.specRow u j * f j
      = wsum (effSide b u true) b.kn (b.order - 1) b.numFunctions b.numFunctions f 0 u := by
  unfold wsum
  apply Finset.sum_congr rfl
  intro j hj
  rw [Finset.mem_range] at hj
  rw [Basis.specRow_nonperiodic hper, Nat.mod_eq_of_lt hj, dB_zero, mul_comm]

/-- **`lower_periodic` on a curve, evaluator level.**  When the result is non-periodic
(`target = -1`) the parameter list must be non-empty: the real code raises `ValueError` for `[]` in a
non-periodic direction, while the periodic original accepts it. -/
theorem lowerPeriodic_evaluate_curve {o : Obj K} {b1 : Basis K} (hb : o.bases = #[b1])
    (hv1 : b1.Valid) (k : ℕ) (hk : b1.periodic = (k : Int))
    {nc : ℕ}
    (hs : o.cps.shape = [b1.numFunctions, nc]) (hnc : o.rational = true → 1 ≤ nc)
    (target : Int) (h1 : -1 ≤ target) (h2 : target ≤ k)
    {tol : K} (htol : 0 < tol) {us : List K} (hus : ∀ u ∈ us, b1.Admissible tol u)
    (hdom : target = -1 → ∀ u ∈ us, b1.start ≤ u ∧ u ≤ b1.stop)
    (hne : target = -1 → us ≠ []) :
    ∃ o', o.lowerPeriodic target 0 = .ok o' ∧ LowerCore o o' 0 ((k : Int) - target).toNat ∧
      ((∀ u ∈ us, (o'.basis 0).Admissible tol u) →
        o'.evaluate tol [us] true = o.evaluate tol [us] true) := by
  have hb0 : o.basis 0 = b1 := by simp [Obj.basis, hb]
  obtain ⟨o', hl, hI⟩ := lowerPeriodic_spec_all o 0 (by rw [hb]; simp) (by rw [hs]; simp)
    (by rw [hb0]; exact hv1) k (by rw [hb0]; exact hk)
    (by rw [hb0, hs]; rfl) target h1 h2
  refine ⟨o', hl, hI, fun hadm' => ?_⟩
  set j := ((k : Int) - target).toNat with hj
  have hst : (o'.basis 0).start = b1.start := by rw [← hb0]; exact hI.start_eq
  have hsp : (o'.basis 0).stop = b1.stop := by rw [← hb0]; exact hI.stop_eq
  have hna : (o'.basis 0).nAll = b1.nAll := by rw [← hb0]; exact hI.nAll_eq
  have hnu : (o'.basis 0).numFunctions = b1.numFunctions + j := by rw [← hb0]; exact hI.num_eq
  have hor : (o'.basis 0).order = b1.order := by rw [← hb0]; exact hI.order_eq
  have hpe : (o'.basis 0).periodic = b1.periodic - j := by rw [← hb0]; exact hI.periodic_eq
  have hb'' : o'.bases = #[o'.basis 0] :=
    bases_singleton o' (by rw [hI.bases_size, hb]; rfl)
  have hs' : o'.cps.shape = [(o'.basis 0).numFunctions, nc] := by
    rw [hI.shape_eq, hs, hI.num_eq, hb0]; rfl
  have hper : 0 ≤ b1.periodic := by rw [hk]; omega
  refine (transfer_curve hb hb'' hv1 hI.valid hs hs' hI.rational_eq hnc htol rfl hus hadm'
    (fun p hp => ?_) (fun h => by omega) (fun h => hne (by rw [hpe] at h; omega))).1
  intro a i ha hi
  set u := us.getD p 0 with hu
  have humem : u ∈ us := by
    rw [hu, List.getD_eq_getElem?_getD, List.getElem?_eq_getElem hp]
    simp
  have hsame := hI.same a i ha hi
  rw [hb0] at hsame
  rw [specRow_sum_periodic b1 hv1 hper u]
  have hmem := effSide_mem b1 hv1 _ (b1.wrap_mem hv1 u).1 (b1.wrap_mem hv1 u).2
  rw [← hsame _ 0 _ hmem]
  by_cases ht : 0 ≤ (o'.basis 0).periodic
  · rw [specRow_sum_periodic (o'.basis 0) hI.valid ht u,
      wrap_congr b1 (o'.basis 0) hst hsp, effSide_congr b1 (o'.basis 0) hsp,
      hna, hnu, hor]
  · have hperm : (o'.basis 0).periodic = -1 := by
      have := hpe
      rw [hk] at this
      have hge := hI.valid.periodic_ge
      omega
    have htm : target = -1 := by
      have := hpe
      rw [hk, hperm] at this
      omega
    obtain ⟨hu1, hu2⟩ := hdom htm u humem
    have hnn : (o'.basis 0).nAll = (o'.basis 0).numFunctions :=
      (Basis.numFunctions_of_nonperiodic hperm).symm
    have e : b1.nAll = b1.numFunctions + j := by rw [← hna, hnn, hnu]
    rw [specRow_sum_open (o'.basis 0) hperm u, b1.wrap_of_mem hu1 hu2,
      effSide_congr b1 (o'.basis 0) hsp, hor, hnu, e]

end Splipy
