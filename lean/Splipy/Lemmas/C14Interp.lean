import Splipy.Lemmas.C14Tensor

/-!
# C14 helper lemmas: collocation matrices, inverses, the one-axis cancellation sums
-/

namespace Splipy
open Finset

section sums
variable {K : Type} [Field K]

/-- One-axis cancellation: if `Σ_r M p r · Mi r i = δ_{p i}` then contracting with `Mi` and then with
    row `p` of `M` returns entry `p`. -/
theorem sum_cancel_c14 (n p : ℕ) (hp : p < n) (M Mi : ℕ → ℕ → K) (g : ℕ → K)
    (h : ∀ i < n, ∑ r ∈ range n, M p r * Mi r i = if p = i then 1 else 0) :
    ∑ r ∈ range n, M p r * (∑ i ∈ range n, Mi r i * g i) = g p := by
  have h1 : ∀ r ∈ range n, M p r * (∑ i ∈ range n, Mi r i * g i) = ∑ i ∈ range n, M p r * Mi r i * g i := by
    intro r _
    rw [mul_sum]
    exact sum_congr rfl (fun i _ => by ring)
  rw [sum_congr rfl h1, sum_comm]
  have h2 : ∀ i ∈ range n, ∑ r ∈ range n, M p r * Mi r i * g i = (if p = i then 1 else 0) * g i := by
    intro i hi
    rw [← sum_mul, h i (mem_range.mp hi)]
  rw [sum_congr rfl h2]
  simp [hp]

/-- Contractions along different axes commute. -/
theorem sum_swap_c14 (n m : ℕ) (a : ℕ → K) (b : ℕ → K) (c : ℕ → ℕ → K) :
    ∑ r ∈ range n, a r * (∑ i ∈ range m, b i * c r i) = ∑ i ∈ range m, b i * (∑ r ∈ range n, a r * c r i) := by
  simp_rw [mul_sum]
  rw [sum_comm]
  exact sum_congr rfl (fun i _ => sum_congr rfl (fun r _ => by ring))

end sums

variable {K : Type} [Field K] [LinearOrder K] [FloorRing K]

theorem size_evaluate_c14 (b : Basis K) (tol t : K) (d : ℕ) (fr : Bool) :
    (b.evaluate tol t d fr).size = b.numFunctions := by
  unfold Basis.evaluate
  simp only
  split
  · simp
  · simp [Row.toDense]

namespace Interp

theorem size_colloc (b : Basis K) (tol : K) (ts : List K) (d : ℕ) : (colloc b tol ts d).size = ts.length := by
  simp [colloc, Obj.basisMat]

theorem row_colloc (b : Basis K) (tol : K) (ts : List K) (d i : ℕ) (hi : i < ts.length) :
    (colloc b tol ts d).getD i #[] = b.evaluate tol (ts.getD i 0) d true := by
  simp [colloc, Obj.basisMat, Array.getD, hi, List.getD_eq_getElem?_getD]

theorem get_colloc (b : Basis K) (tol : K) (ts : List K) (d i j : ℕ) (hi : i < ts.length) :
    (colloc b tol ts d).get i j = (b.evaluate tol (ts.getD i 0) d true).getD j 0 := by
  unfold Mat.get; rw [row_colloc b tol ts d i hi]

omit [FloorRing K] in
theorem isShape_iff (M : Mat K) (r c : ℕ) :
    isShape M r c = true ↔ M.size = r ∧ ∀ i < M.size, (M.getD i #[]).size = c := by
  unfold isShape
  simp only [Bool.and_eq_true, beq_iff_eq, Array.all_eq_true]
  constructor
  · rintro ⟨h1, h2⟩
    refine ⟨h1, fun i hi => ?_⟩
    have := h2 i hi
    simpa [Array.getD, hi] using this
  · rintro ⟨h1, h2⟩
    refine ⟨h1, fun i hi => ?_⟩
    have := h2 i hi
    simpa [Array.getD, hi] using this

omit [FloorRing K] in
/-- A successful `invC N` certifies a right inverse of the square matrix `N`. -/
theorem invC_ok {N Ni : Mat K} (h : invC N = .ok Ni) :
    (∀ i < N.size, (N.getD i #[]).size = N.size) ∧ Ni.size = N.ncols ∧ Mat.mul N Ni = Mat.identity N.size := by
  unfold invC at h
  split at h
  · exact absurd h (by simp)
  · rename_i hs
    have hs' : isShape N N.size N.size = true := by simpa using hs
    obtain ⟨_, hrow⟩ := (isShape_iff N _ _).mp hs'
    obtain ⟨h1, h2⟩ := solveC_ok h
    exact ⟨hrow, h1, h2⟩

omit [FloorRing K] in
theorem invC_shape {N Ni : Mat K} (h : invC N = .ok Ni) (hn : 0 < N.size) :
    Ni.size = N.size ∧ Ni.ncols = N.size := by
  obtain ⟨hrow, h1, h2⟩ := invC_ok h
  have hc : N.ncols = N.size := hrow 0 hn
  refine ⟨by rw [h1, hc], ?_⟩
  have := Mat.row_size_mul_c14 N Ni 0 hn
  rw [h2] at this
  rw [← this]
  unfold Mat.identity
  rw [getD_ofFn_c14 _ _ _ _ hn]
  simp

omit [FloorRing K] in
/-- Entry form: `Σ_r N[p][r] · Ni[r][i] = δ_{p i}`. -/
theorem invC_entries {N Ni : Mat K} (h : invC N = .ok Ni) (p i : ℕ) (hp : p < N.size) (hi : i < N.size) :
    ∑ r ∈ range N.size, N.get p r * Ni.get r i = if p = i then 1 else 0 := by
  obtain ⟨_, _, h2⟩ := invC_ok h
  obtain ⟨hs, hc⟩ := invC_shape h (by omega)
  have := Mat.get_mul_c14 N Ni p i hp (by rw [hc]; exact hi)
  rw [h2, Mat.get_identity_c14 _ _ _ hp hi] at this
  rw [this]
  have : Ni.nrows = N.size := hs
  rw [this]

end Interp
end Splipy
