import Splipy.Lemmas.C16Integrate

/-!
# C16: the executable `Obj.center` of a non-rational curve
-/

namespace Splipy

variable {K : Type} [Field K] [LinearOrder K] [FloorRing K]

omit [LinearOrder K] [FloorRing K] in
theorem foldl_range_add (f : ℕ → K) (n : ℕ) :
    (List.range n).foldl (fun acc j => acc + f j) 0 = ∑ j ∈ Finset.range n, f j := by
  rw [List.range_eq_range', foldl_range'_add, zero_add, zero_add, Finset.range_eq_Ico]

omit [LinearOrder K] [FloorRing K] in
theorem getD_map_of_lt (a : Array K) (f : K → K) (k : ℕ) (hk : k < a.size) :
    (a.map f).getD k 0 = f (a.getD k 0) := by
  simp [Array.getD, hk]

namespace Obj

omit [LinearOrder K] [FloorRing K] in
/-- `np.tensordot(N, cps, axes=(0,0))` for a curve's control net `n × nc`. -/
theorem contractGrid_single (N : Array K) (t : Tensor K) (n nc : ℕ) (hsh : t.shape = [n, nc]) :
    (contractGrid [(#[N] : Mat K)] t).data.size = nc ∧
    ∀ k, k < nc → (contractGrid [(#[N] : Mat K)] t).data.getD k 0
      = ∑ j ∈ Finset.range n, N.getD j 0 * t.get (j * nc + k) := by
  have h1 : contractGrid [(#[N] : Mat K)] t = Tensor.applyAxis #[N] t 0 := by
    simp [contractGrid]
  rw [h1]
  unfold Tensor.applyAxis Tensor.build3 Tensor.split3
  simp only [hsh, Tensor.prod]
  constructor
  · simp [hsh]
  · intro k hk
    have hk1 : k < 1 * nc * 1 := by omega
    have e1 : k / nc = 0 := Nat.div_eq_of_lt hk
    have e2 : k % nc = k := Nat.mod_eq_of_lt hk
    simp [Array.getD, hk, e1, e2, Tensor.at3, Tensor.split3, Tensor.prod, hsh]
    exact foldl_range_add (fun j => if h : j < N.size then N[j] * t.get (j * nc + k) else 0) n

omit [LinearOrder K] [FloorRing K] in
/-- Reading an entry of `Tensor.build3`. -/
theorem build3_get (shape : List ℕ) (axis m : ℕ) (f : ℕ → ℕ → ℕ → K) (a r i : ℕ)
    (ha : a < (Tensor.split3 shape axis).1) (hr : r < m) (hi : i < (Tensor.split3 shape axis).2.2) :
    (Tensor.build3 shape axis m f).get ((a * m + r) * (Tensor.split3 shape axis).2.2 + i) = f a r i := by
  unfold Tensor.build3
  rcases hsp : Tensor.split3 shape axis with ⟨o, n', inn⟩
  rw [hsp] at ha hi
  simp only [] at ha hi ⊢
  have hinn : 0 < inn := by omega
  have hlt : (a * m + r) * inn + i < o * m * inn := by
    calc (a * m + r) * inn + i < (a * m + r) * inn + inn := by omega
      _ = (a * m + r + 1) * inn := by ring
      _ ≤ (o * m) * inn := by
        apply Nat.mul_le_mul_right
        calc a * m + r + 1 ≤ a * m + m := by omega
          _ = (a + 1) * m := by ring
          _ ≤ o * m := Nat.mul_le_mul_right _ (by omega)
  have e1 : ((a * m + r) * inn + i) % inn = i := by
    rw [Nat.add_comm, Nat.add_mul_mod_self_right, Nat.mod_eq_of_lt hi]
  have e2 : ((a * m + r) * inn + i) / inn = a * m + r := by
    rw [Nat.add_comm, Nat.add_mul_div_right _ _ hinn, Nat.div_eq_of_lt hi, zero_add]
  have e3 : (a * m + r) % m = r := by
    rw [Nat.add_comm, Nat.add_mul_mod_self_right, Nat.mod_eq_of_lt hr]
  have e4 : ((a * m + r) * inn + i) / (inn * m) = a := by
    rw [← Nat.div_div_eq_div_mul, e2, Nat.add_comm, Nat.add_mul_div_right _ _ (by omega : 0 < m),
      Nat.div_eq_of_lt hr, zero_add]
  simp [Tensor.get, Array.getD, hlt, e1, e2, e3, e4]

omit [LinearOrder K] [FloorRing K] in
/-- `tensordot` of both parametric axes of a surface's control net `n1 × n2 × nc`. -/
theorem contractGrid_double (N1 N2 : Array K) (t : Tensor K) (n1 n2 nc : ℕ)
    (hsh : t.shape = [n1, n2, nc]) :
    (contractGrid [(#[N1] : Mat K), #[N2]] t).data.size = nc ∧
    ∀ k, k < nc → (contractGrid [(#[N1] : Mat K), #[N2]] t).data.getD k 0
      = ∑ a ∈ Finset.range n1, N1.getD a 0 *
          ∑ j ∈ Finset.range n2, N2.getD j 0 * t.get ((a * n2 + j) * nc + k) := by
  have h0 : contractGrid [(#[N1] : Mat K), #[N2]] t
      = Tensor.applyAxis #[N1] (Tensor.applyAxis #[N2] t 1) 0 := by
    simp [contractGrid, List.range_succ]
  have hT1sh : (Tensor.applyAxis (#[N2] : Mat K) t 1).shape = [n1, 1, nc] := by
    simp [Tensor.applyAxis, Tensor.build3, Tensor.split3, hsh]
  have hsp1 : Tensor.split3 t.shape 1 = (n1, n2, nc) := by
    simp [Tensor.split3, Tensor.prod, hsh]
  have hT1 : ∀ a i, a < n1 → i < nc → (Tensor.applyAxis (#[N2] : Mat K) t 1).get (a * nc + i)
      = ∑ j ∈ Finset.range n2, N2.getD j 0 * t.get ((a * n2 + j) * nc + i) := by
    intro a i ha hi
    have h := build3_get t.shape 1 (#[N2] : Mat K).size
      (fun a r i => (List.range (Tensor.split3 t.shape 1).2.1).foldl
        (fun acc j => acc + ((#[N2] : Mat K).getD r #[]).getD j 0 * t.at3 1 a j i) 0) a 0 i
      (by rw [hsp1]; exact ha) (by simp) (by rw [hsp1]; exact hi)
    have hsz : (#[N2] : Mat K).size = 1 := rfl
    rw [hsp1, hsz] at h
    simp only [Nat.mul_one, Nat.add_zero] at h
    have happ : Tensor.applyAxis (#[N2] : Mat K) t 1
        = Tensor.build3 t.shape 1 (#[N2] : Mat K).size
          (fun a r i => (List.range (Tensor.split3 t.shape 1).2.1).foldl
            (fun acc j => acc + ((#[N2] : Mat K).getD r #[]).getD j 0 * t.at3 1 a j i) 0) := by
      unfold Tensor.applyAxis
      rfl
    rw [hsp1, hsz] at happ
    rw [happ, h]
    simp only [Tensor.at3, hsp1]
    rw [foldl_range_add (fun j => ((#[N2] : Mat K).getD 0 #[]).getD j 0 * t.get ((a * n2 + j) * nc + i))]
    simp
  rw [h0]
  have hsp2 : Tensor.split3 (Tensor.applyAxis (#[N2] : Mat K) t 1).shape 0 = (1, n1, nc) := by
    rw [hT1sh]
    simp [Tensor.split3, Tensor.prod]
  have happ2 : Tensor.applyAxis (#[N1] : Mat K) (Tensor.applyAxis (#[N2] : Mat K) t 1) 0
      = Tensor.build3 (Tensor.applyAxis (#[N2] : Mat K) t 1).shape 0 (#[N1] : Mat K).size
        (fun a r i => (List.range (Tensor.split3 (Tensor.applyAxis (#[N2] : Mat K) t 1).shape 0).2.1).foldl
          (fun acc j => acc + ((#[N1] : Mat K).getD r #[]).getD j 0
            * (Tensor.applyAxis (#[N2] : Mat K) t 1).at3 0 a j i) 0) := by
    unfold Tensor.applyAxis
    rfl
  constructor
  · rw [happ2]
    unfold Tensor.build3
    rw [hsp2]
    simp
  · intro k hk
    have h := build3_get (Tensor.applyAxis (#[N2] : Mat K) t 1).shape 0 (#[N1] : Mat K).size
      (fun a r i => (List.range (Tensor.split3 (Tensor.applyAxis (#[N2] : Mat K) t 1).shape 0).2.1).foldl
        (fun acc j => acc + ((#[N1] : Mat K).getD r #[]).getD j 0
          * (Tensor.applyAxis (#[N2] : Mat K) t 1).at3 0 a j i) 0) 0 0 k
      (by rw [hsp2]; exact Nat.one_pos) (by simp) (by rw [hsp2]; exact hk)
    rw [hsp2] at h happ2
    simp only [Nat.zero_mul, Nat.zero_add] at h
    rw [← happ2] at h
    have hgd : (Tensor.applyAxis (#[N1] : Mat K) (Tensor.applyAxis (#[N2] : Mat K) t 1) 0).data.getD k 0
        = (Tensor.applyAxis (#[N1] : Mat K) (Tensor.applyAxis (#[N2] : Mat K) t 1) 0).get k := rfl
    rw [hgd, h, foldl_range_add]
    apply Finset.sum_congr rfl
    intro a ha
    rw [Finset.mem_range] at ha
    simp only [Tensor.at3, hsp2, Nat.zero_mul, Nat.zero_add]
    rw [hT1 a k ha hk]
    simp

/-- **`center()` of a non-rational curve**: with `N = basis.integrate(start, end)`, component `k` is
`(Σ_j N_j · cps[j][k]) / (end − start)`. -/
theorem center_curve (o : Obj K) (tol : K) (n nc : ℕ) (hsh : o.cps.shape = [n, nc])
    (hb : o.bases.size = 1) (hrat : o.rational = false) (N : Array K)
    (hN : (o.basis 0).integrate tol (o.basis 0).start (o.basis 0).stop = .ok N) :
    ∃ r, o.center tol = .ok r ∧ r.size = nc ∧ ∀ k, k < nc →
      r.getD k 0 = (∑ j ∈ Finset.range n, N.getD j 0 * o.cps.get (j * nc + k))
        / ((o.basis 0).stop - (o.basis 0).start) := by
  have hbl : o.bases.toList = [o.basis 0] := by
    have : o.bases.toList.length = 1 := by simpa using hb
    match h : o.bases.toList, this with
    | [x], _ =>
      have : o.basis 0 = x := by
        unfold basis
        rw [← Array.toArray_toList (xs := o.bases), h]
        rfl
      rw [this]
  unfold center
  rw [hbl]
  simp only [List.mapM_cons, List.mapM_nil, hN, bind, Except.bind, pure, Except.pure, hrat]
  obtain ⟨hs, hg⟩ := contractGrid_single N o.cps n nc hsh
  rw [if_neg (by simp)]
  refine ⟨_, rfl, by simpa using hs, ?_⟩
  intro k hk
  have hk' : k < (contractGrid [(#[N] : Mat K)] o.cps).data.size := by rw [hs]; exact hk
  have hps : List.foldl (fun x1 x2 => x1 * x2) (1 : K)
      (List.map (fun b : Basis K => b.stop - b.start) [o.basis 0])
      = (o.basis 0).stop - (o.basis 0).start := by
    simp
  simp only [List.map_cons, List.map_nil] at hps ⊢
  rw [hps, getD_map_of_lt _ _ k hk', hg k hk]

/-- **`center()` of a RATIONAL curve** (homogeneous control net `n × nc`, weight = last component,
`nc ≥ 1`): with `N = basis.integrate(start, end)` and `S_k = Σ_j N_j·cps[j][k]`, component
`k < nc−1` is `(S_k/|Ω|) / (S_{nc−1}/|Ω|)` — the projective centre. -/
theorem center_curve_rational (o : Obj K) (tol : K) (n nc : ℕ) (hsh : o.cps.shape = [n, nc])
    (hnc : 1 ≤ nc) (hb : o.bases.size = 1) (hrat : o.rational = true) (N : Array K)
    (hN : (o.basis 0).integrate tol (o.basis 0).start (o.basis 0).stop = .ok N) :
    ∃ r, o.center tol = .ok r ∧ r.size = nc - 1 ∧ ∀ k, k < nc - 1 →
      r.getD k 0 = ((∑ j ∈ Finset.range n, N.getD j 0 * o.cps.get (j * nc + k))
          / ((o.basis 0).stop - (o.basis 0).start))
        / ((∑ j ∈ Finset.range n, N.getD j 0 * o.cps.get (j * nc + (nc - 1)))
          / ((o.basis 0).stop - (o.basis 0).start)) := by
  have hbl : o.bases.toList = [o.basis 0] := by
    have : o.bases.toList.length = 1 := by simpa using hb
    match h : o.bases.toList, this with
    | [x], _ =>
      have : o.basis 0 = x := by
        unfold basis
        rw [← Array.toArray_toList (xs := o.bases), h]
        rfl
      rw [this]
  have hdim : o.dimension = nc - 1 := by
    unfold dimension ncomp
    rw [hsh, hrat]
    simp
  unfold center
  rw [hbl]
  simp only [List.mapM_cons, List.mapM_nil, hN, bind, Except.bind, pure, Except.pure, hrat]
  obtain ⟨hs, hg⟩ := contractGrid_single N o.cps n nc hsh
  rw [if_pos trivial]
  refine ⟨_, rfl, by simp [hdim], ?_⟩
  intro k hk
  have hk2 : k < o.dimension := by rw [hdim]; exact hk
  have hps : List.foldl (fun x1 x2 => x1 * x2) (1 : K)
      (List.map (fun b : Basis K => b.stop - b.start) [o.basis 0])
      = (o.basis 0).stop - (o.basis 0).start := by
    simp
  simp only [List.map_cons, List.map_nil] at hps ⊢
  have hget : ∀ (f : Fin o.dimension → K), (Array.ofFn f).getD k 0 = f ⟨k, hk2⟩ := by
    intro f
    simp [Array.getD, hk2]
  rw [hget]
  simp only []
  rw [hdim, hps, getD_map_of_lt _ _ k (by rw [hs]; omega),
    getD_map_of_lt _ _ (nc - 1) (by rw [hs]; omega), hg k (by omega), hg (nc - 1) (by omega)]

/-- **`center()` of a non-rational surface**: with `N_d = bases[d].integrate(start, end)`,
component `k` is `(Σ_a Σ_j N0_a·N1_j·cps[a][j][k]) / ((end0−start0)(end1−start1))`. -/
theorem center_surface (o : Obj K) (tol : K) (n1 n2 nc : ℕ) (hsh : o.cps.shape = [n1, n2, nc])
    (hb : o.bases.size = 2) (hrat : o.rational = false) (N0 N1 : Array K)
    (hN0 : (o.basis 0).integrate tol (o.basis 0).start (o.basis 0).stop = .ok N0)
    (hN1 : (o.basis 1).integrate tol (o.basis 1).start (o.basis 1).stop = .ok N1) :
    ∃ r, o.center tol = .ok r ∧ r.size = nc ∧ ∀ k, k < nc →
      r.getD k 0 = (∑ a ∈ Finset.range n1, N0.getD a 0 *
          ∑ j ∈ Finset.range n2, N1.getD j 0 * o.cps.get ((a * n2 + j) * nc + k))
        / (((o.basis 0).stop - (o.basis 0).start) * ((o.basis 1).stop - (o.basis 1).start)) := by
  have hbl : o.bases.toList = [o.basis 0, o.basis 1] := by
    have : o.bases.toList.length = 2 := by simpa using hb
    match h : o.bases.toList, this with
    | [x, y], _ =>
      have h0 : o.basis 0 = x := by
        unfold basis
        rw [← Array.toArray_toList (xs := o.bases), h]
        rfl
      have h1 : o.basis 1 = y := by
        unfold basis
        rw [← Array.toArray_toList (xs := o.bases), h]
        rfl
      rw [h0, h1]
  unfold center
  rw [hbl]
  simp only [List.mapM_cons, List.mapM_nil, hN0, hN1, bind, Except.bind, pure, Except.pure, hrat]
  obtain ⟨hs, hg⟩ := contractGrid_double N0 N1 o.cps n1 n2 nc hsh
  rw [if_neg (by simp)]
  refine ⟨_, rfl, by simpa using hs, ?_⟩
  intro k hk
  have hk' : k < (contractGrid [(#[N0] : Mat K), #[N1]] o.cps).data.size := by rw [hs]; exact hk
  have hps : List.foldl (fun x1 x2 => x1 * x2) (1 : K)
      (List.map (fun b : Basis K => b.stop - b.start) [o.basis 0, o.basis 1])
      = ((o.basis 0).stop - (o.basis 0).start) * ((o.basis 1).stop - (o.basis 1).start) := by
    simp
  simp only [List.map_cons, List.map_nil] at hps ⊢
  rw [hps, getD_map_of_lt _ _ k hk', hg k hk]

variable [IsStrictOrderedRing K]

/-- **`center()` of a non-rational surface on valid non-periodic bases**, in terms of the
spec-level basis integrals. -/
theorem center_surface_intEntry (o : Obj K) (tol : K) (n1 n2 nc : ℕ)
    (hsh : o.cps.shape = [n1, n2, nc]) (hb : o.bases.size = 2) (hrat : o.rational = false)
    (hv0 : (o.basis 0).Valid) (hv1 : (o.basis 1).Valid)
    (hper0 : (o.basis 0).periodic = -1) (hper1 : (o.basis 1).periodic = -1)
    (hn1 : n1 = (o.basis 0).numFunctions) (hn2 : n2 = (o.basis 1).numFunctions) (htol : 0 < tol)
    (hexs0 : (o.basis 0).ExactAt tol (o.basis 0).start)
    (hexe0 : (o.basis 0).ExactAt tol (o.basis 0).stop)
    (hexs1 : (o.basis 1).ExactAt tol (o.basis 1).start)
    (hexe1 : (o.basis 1).ExactAt tol (o.basis 1).stop) :
    ∃ r, o.center tol = .ok r ∧ r.size = nc ∧ ∀ k, k < nc →
      r.getD k 0 = (∑ a ∈ Finset.range n1,
          (o.basis 0).intEntry (o.basis 0).start (o.basis 0).stop a *
          ∑ j ∈ Finset.range n2, (o.basis 1).intEntry (o.basis 1).start (o.basis 1).stop j
            * o.cps.get ((a * n2 + j) * nc + k))
        / (((o.basis 0).stop - (o.basis 0).start) * ((o.basis 1).stop - (o.basis 1).start)) := by
  have hlt0 := hv0.start_lt_stop
  have hlt1 := hv1.start_lt_stop
  obtain ⟨N0, hN0, -, hg0⟩ :=
    Basis.integrate_nonperiodic hv0 hper0 htol hexs0 hexe0 le_rfl hlt0.le hlt0.le le_rfl
  obtain ⟨N1, hN1, -, hg1⟩ :=
    Basis.integrate_nonperiodic hv1 hper1 htol hexs1 hexe1 le_rfl hlt1.le hlt1.le le_rfl
  obtain ⟨r, hr, hs, hk⟩ := center_surface o tol n1 n2 nc hsh hb hrat N0 N1 hN0 hN1
  refine ⟨r, hr, hs, fun k hk' => ?_⟩
  rw [hk k hk']
  congr 1
  apply Finset.sum_congr rfl
  intro a ha
  rw [Finset.mem_range, hn1] at ha
  rw [hg0 a ha]
  congr 1
  apply Finset.sum_congr rfl
  intro j hj
  rw [Finset.mem_range, hn2] at hj
  rw [hg1 j hj]

/-- **`center()` of a non-rational curve on a valid non-periodic basis**, in terms of the
spec-level basis integrals `intEntry start end j` (= `∫ B_j` over the domain). -/
theorem center_curve_intEntry (o : Obj K) (tol : K) (n nc : ℕ) (hsh : o.cps.shape = [n, nc])
    (hb : o.bases.size = 1) (hrat : o.rational = false) (hv : (o.basis 0).Valid)
    (hper : (o.basis 0).periodic = -1) (hn : n = (o.basis 0).numFunctions) (htol : 0 < tol)
    (hexs : (o.basis 0).ExactAt tol (o.basis 0).start)
    (hexe : (o.basis 0).ExactAt tol (o.basis 0).stop) :
    ∃ r, o.center tol = .ok r ∧ r.size = nc ∧ ∀ k, k < nc →
      r.getD k 0 = (∑ j ∈ Finset.range n,
          (o.basis 0).intEntry (o.basis 0).start (o.basis 0).stop j * o.cps.get (j * nc + k))
        / ((o.basis 0).stop - (o.basis 0).start) := by
  have hlt := hv.start_lt_stop
  obtain ⟨N, hN, -, hg⟩ := Basis.integrate_nonperiodic hv hper htol hexs hexe le_rfl hlt.le hlt.le le_rfl
  obtain ⟨r, hr, hs, hk⟩ := center_curve o tol n nc hsh hb hrat N hN
  refine ⟨r, hr, hs, fun k hk' => ?_⟩
  rw [hk k hk']
  congr 1
  apply Finset.sum_congr rfl
  intro j hj
  rw [Finset.mem_range, hn] at hj
  rw [hg j hj]

/-- **`center()` of a non-rational curve on a valid PERIODIC basis**: the control point number
`i mod n` is the coefficient of every wrapped image `i < nAll`. -/
theorem center_curve_intEntry_periodic (o : Obj K) (tol : K) (n nc : ℕ)
    (hsh : o.cps.shape = [n, nc]) (hb : o.bases.size = 1) (hrat : o.rational = false)
    (hv : (o.basis 0).Valid) (hper : 0 ≤ (o.basis 0).periodic)
    (hn : n = (o.basis 0).numFunctions) (htol : 0 < tol)
    (hexs : (o.basis 0).ExactAt tol (o.basis 0).start)
    (hexe : (o.basis 0).ExactAt tol (o.basis 0).stop) :
    ∃ r, o.center tol = .ok r ∧ r.size = nc ∧ ∀ k, k < nc →
      r.getD k 0 = (∑ i ∈ Finset.range (o.basis 0).nAll,
          (o.basis 0).intEntry (o.basis 0).start (o.basis 0).stop i * o.cps.get ((i % n) * nc + k))
        / ((o.basis 0).stop - (o.basis 0).start) := by
  have hlt := hv.start_lt_stop
  have hnpos : 0 < n := by rw [hn]; exact hv.numFunctions_pos
  obtain ⟨N, hN, -, hg⟩ := Basis.integrate_periodic hv hper htol hexs hexe le_rfl hlt.le hlt.le le_rfl
  obtain ⟨r, hr, hs, hk⟩ := center_curve o tol n nc hsh hb hrat N hN
  refine ⟨r, hr, hs, fun k hk' => ?_⟩
  rw [hk k hk']
  congr 1
  have h1 : ∑ j ∈ Finset.range n, N.getD j 0 * o.cps.get (j * nc + k)
      = ∑ j ∈ Finset.range n, ∑ i ∈ (Finset.range (o.basis 0).nAll).filter (fun i => i % n = j),
          (o.basis 0).intEntry (o.basis 0).start (o.basis 0).stop i * o.cps.get ((i % n) * nc + k) := by
    apply Finset.sum_congr rfl
    intro j hj
    rw [Finset.mem_range, hn] at hj
    rw [hg j hj, Finset.sum_mul, ← hn]
    apply Finset.sum_congr rfl
    intro i hi
    rw [(Finset.mem_filter.mp hi).2]
  rw [h1]
  exact Finset.sum_fiberwise_of_maps_to
    (fun i _ => Finset.mem_range.mpr (Nat.mod_lt i hnpos)) _

end Obj

end Splipy
