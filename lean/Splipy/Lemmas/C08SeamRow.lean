import Splipy.Lemmas.C08Seam
import Splipy.Lemmas.C07Roll
import Splipy.Lemmas.EvalRow

/-!
# Seam continuity at the level of `BSplineBasis.evaluate`

For a valid periodic basis whose seam has multiplicity `< p` (continuity `≥ 0`), the value row at the
domain end `stop` (a left limit) equals the value row at `start` (a right limit); hence value rows
are invariant under shifts by whole periods at EVERY exact parameter, the domain end included.
-/

namespace Splipy

set_option linter.unusedSectionVars false
set_option linter.unusedVariables false

variable {K : Type} [Field K] [LinearOrder K] [IsStrictOrderedRing K] [FloorRing K]

theorem array_ext_getD (a b : Array K) (n : ℕ) (ha : a.size = n) (hb : b.size = n)
    (h : ∀ c, c < n → a.getD c 0 = b.getD c 0) : a = b := by
  apply Array.ext (by rw [ha, hb])
  intro i h1 h2
  have := h i (by omega)
  simp only [Array.getD, h1, h2, dif_pos] at this
  exact this

/-- Entry `c` of a value/derivative row of a periodic basis at a parameter of the domain
(`C01_value_deriv_periodic`). -/
theorem evaluate_getD_periodic {b : Basis K} (hv : b.Valid) (hper : 0 ≤ b.periodic)
    {tol t : K} (htol : 0 < tol) (hex : b.ExactAt tol t) (h1 : b.start ≤ t) (h2 : t ≤ b.stop)
    (fromRight : Bool) {d : ℕ} (hd : d < b.order) {c : ℕ} (hc : c < b.numFunctions) :
    (b.evaluate tol t d fromRight).getD c 0
      = ∑ i ∈ (Finset.range b.nAll).filter (fun i => i % b.numFunctions = c),
          dB (periodicEff b t fromRight).2 b.kn (b.order - 1) i d (periodicEff b t fromRight).1 := by
  obtain ⟨e1, e2, e3, e4, e5, e6⟩ := periodicEff_spec hv hex fromRight h1 h2
  rw [evaluate_of_exact b htol hex hd, wrapT_periodic_inside hv hper htol hex fromRight h1 h2,
    evalAt_toDense_inside hv htol hd fromRight e1 e2 e3 e4 e5 hc, e6]

/-- A filtered sum over a residue class as a `splineDeriv` with the indicator coefficients. -/
theorem sum_filter_eq_splineDeriv (s : Side) (τ : ℕ → K) (q N n c d : ℕ) (t : K) :
    ∑ i ∈ (Finset.range N).filter (fun i => i % n = c), dB s τ q i d t
      = splineDeriv s τ q N (fun i => if i % n = c then 1 else 0) d t := by
  unfold splineDeriv
  rw [Finset.sum_filter]
  apply Finset.sum_congr rfl
  intro i _
  split_ifs with h
  · simp only [h, if_true, one_mul]
  · simp only [h, if_false, zero_mul]

/-- **Value row at the domain end = value row at the start** (seam multiplicity `< p`). -/
theorem evaluate_stop_eq_start {b : Basis K} (hv : b.Valid) (hper : 0 ≤ b.periodic)
    (hmult : ∀ j, j + (b.order - 1) < b.knots.size → b.kn j = b.start →
      b.kn (j + (b.order - 1)) ≠ b.start)
    {tol : K} (htol : 0 < tol) (hex0 : b.ExactAt tol b.start) (hex1 : b.ExactAt tol b.stop) :
    b.evaluate tol b.stop 0 true = b.evaluate tol b.start 0 true := by
  have hp := hv.order_pos
  have hlt := hv.start_lt_stop
  have hs := Basis.per_size hv hper
  have hnAll := Basis.per_nAll hv hper
  have hk := Basis.per_k_le hv hper
  have hn := hv.numFunctions_pos
  apply array_ext_getD _ _ b.numFunctions (evaluate_size _ _ _ _ _) (evaluate_size _ _ _ _ _)
  intro c hc
  rw [evaluate_getD_periodic hv hper htol hex1 (le_of_lt hlt) (le_refl _) true (by omega) hc,
    evaluate_getD_periodic hv hper htol hex0 (le_refl _) (le_of_lt hlt) true (by omega) hc]
  have p1 : periodicEff b b.stop true = (b.stop, .left) := by
    unfold periodicEff effSide
    rw [if_neg (by simp), if_pos rfl]
  have p0 : periodicEff b b.start true = (b.start, .right) := by
    unfold periodicEff effSide
    rw [if_neg (by simp), if_neg (ne_of_lt hlt)]
    rfl
  rw [p1, p0]
  simp only []
  rw [sum_filter_eq_splineDeriv, sum_filter_eq_splineDeriv]
  -- move to the periodic continuation of the knots
  have hext : ∀ i, i < b.knots.size → b.ext i = b.kn i := Basis.ext_eq hv hper
  have hcongr : ∀ (s : Side) (t : K),
      splineDeriv s b.kn (b.order - 1) b.nAll (fun i => if i % b.numFunctions = c then (1:K) else 0) 0 t
        = splineDeriv s b.ext (b.order - 1) b.nAll (fun i => if i % b.numFunctions = c then (1:K) else 0) 0 t := by
    intro s t
    unfold splineDeriv
    apply Finset.sum_congr rfl
    intro i hi
    rw [Finset.mem_range] at hi
    congr 1
    apply dB_congr_knots
    intro j hj
    exact (hext (i + j) (by unfold Basis.nAll at hi; omega)).symm
  rw [hcongr, hcongr]
  have hq : b.ext (b.order - 1) = b.start := by rw [hext _ (by omega)]; rfl
  have hstopT : b.stop = b.ext (b.order - 1) + (b.stop - b.start) := by rw [hq]; ring
  have hstartq : b.start = b.ext (b.order - 1) := hq.symm
  rw [show splineDeriv Side.left b.ext (b.order - 1) b.nAll
        (fun i => if i % b.numFunctions = c then (1:K) else 0) 0 b.stop
      = splineDeriv Side.left b.ext (b.order - 1) b.nAll
        (fun i => if i % b.numFunctions = c then (1:K) else 0) 0
        (b.ext (b.order - 1) + (b.stop - b.start)) from by rw [← hstopT]]
  rw [show splineDeriv Side.right b.ext (b.order - 1) b.nAll
        (fun i => if i % b.numFunctions = c then (1:K) else 0) 0 b.start
      = splineDeriv Side.right b.ext (b.order - 1) b.nAll
        (fun i => if i % b.numFunctions = c then (1:K) else 0) 0 (b.ext (b.order - 1)) from by rw [hq]]
  apply periodic_seam_smooth b.ext (Basis.ext_mono hv hper) b.numFunctions (b.stop - b.start)
    (Basis.ext_add hv hper) (fun i => if i % b.numFunctions = c then (1:K) else 0)
    (fun i => by simp only [Nat.add_mod_right]) (b.order - 1) (b.order - 1) 0 b.nAll
    (sub_pos.2 hlt) (by omega)
  · -- multiplicity of the seam in the periodic continuation
    intro j hj
    rw [hq] at hj ⊢
    have hmono := Basis.ext_mono hv hper
    have hlast : b.stop ≤ b.ext (b.knots.size - 1) := by
      rw [hext _ (by omega)]
      exact hv.kn_mono (by omega)
    by_cases hjs : j + (b.order - 1) < b.knots.size
    · rw [hext _ hjs]
      exact hmult j hjs (by rw [← hext _ (by omega)]; exact hj)
    · intro hc'
      have : b.ext (b.knots.size - 1) ≤ b.ext (j + (b.order - 1)) := hmono (by omega)
      rw [hc'] at this
      exact absurd (lt_of_lt_of_le hlt (le_trans hlast this)) (lt_irrefl _)
  · rw [hq, hext _ (by unfold Basis.nAll; omega)]
    show b.start + (b.stop - b.start) ≤ b.stop
    linarith
  · unfold Basis.nAll; omega

/-- **Value rows are invariant under shifts by whole periods at every exact parameter**, the domain
end included (seam multiplicity `< p`). -/
theorem evaluate_value_shift {b : Basis K} (hv : b.Valid) (hper : 0 ≤ b.periodic)
    (hmult : ∀ j, j + (b.order - 1) < b.knots.size → b.kn j = b.start →
      b.kn (j + (b.order - 1)) ≠ b.start)
    {tol : K} (htol : 0 < tol) (hex0 : b.ExactAt tol b.start) (hex1 : b.ExactAt tol b.stop)
    (m : ℤ) {t : K} (hex : b.ExactAt tol t) (hex' : b.ExactAt tol (t + m * (b.stop - b.start))) :
    b.evaluate tol (t + m * (b.stop - b.start)) 0 true = b.evaluate tol t 0 true := by
  have hlt := hv.start_lt_stop
  have hT : b.stop - b.start ≠ 0 := ne_of_gt (sub_pos.2 hlt)
  have hseam := evaluate_stop_eq_start hv hper hmult htol hex0 hex1
  by_cases h1 : t = b.stop
  · subst h1
    by_cases hm : m = 0
    · subst hm; simp
    · have e : b.stop + (m : K) * (b.stop - b.start) = b.start + ((m + 1 : ℤ) : K) * (b.stop - b.start) := by
        push_cast; ring
      rw [e] at hex' ⊢
      rw [evaluate_add_int_mul hv hper htol (m + 1) hex0 hex' (ne_of_lt hlt)
        (by
          intro hc
          have : ((m + 1 : ℤ) : K) * (b.stop - b.start) = 1 * (b.stop - b.start) := by linarith
          have h2 := mul_right_cancel₀ hT this
          have : (m + 1 : ℤ) = 1 := by exact_mod_cast h2
          omega) 0 true, hseam]
  · by_cases h2 : t + m * (b.stop - b.start) = b.stop
    · have e : t = b.start + ((1 - m : ℤ) : K) * (b.stop - b.start) := by
        push_cast; linarith
      rw [h2, hseam]
      have hex2 : b.ExactAt tol (b.start + ((1 - m : ℤ) : K) * (b.stop - b.start)) := by
        rw [← e]; exact hex
      have := evaluate_add_int_mul hv hper htol (1 - m) hex0 hex2 (ne_of_lt hlt)
        (by rw [← e]; exact h1) 0 true
      rw [← e] at this
      exact this.symm
    · exact evaluate_add_int_mul hv hper htol m hex hex' h1 h2 0 true

end Splipy
