import Splipy.Lemmas.C12Fibre
import Splipy.Lemmas.C12Direction
import Splipy.Properties.C08

/-!
# C12 — a periodic direction against an open partner: `lower_periodic` without hypothesis

* `toTP_eval_fibre_w`: the defining sum `C06.TP.eval` split along ANY direction `d` (periodic or not):
  weighted sum of the wrapped fibre splines `C04.wsum` (for a non-periodic `d` this is
  `toTP_eval_fibre`);
* `SameMapOn m d o o'`: same evaluated map for all parameters whose `d`-th entry lies in the domain
  of direction `d`.  (Outside the domain the finite defining sum of a periodic basis is not the
  periodic map, and `lower_periodic` does change it there — so the all-parameter relation `SameMap`
  is the wrong notion for this one step.)
* `lowerPeriodic_sameMapOn`: property C08 (`C08_lower_periodic`, fibre-wise, no guard on the number of
  functions and no seam hypothesis) lifted to the tensor-product sum, any pardim.
-/

namespace Splipy

set_option linter.unusedSectionVars false

variable {K : Type} [Field K] [LinearOrder K] [IsStrictOrderedRing K] [FloorRing K]

namespace C12

open C06 Finset

variable {m : ℕ}

/-- Summand of the fibre form along an arbitrary direction. -/
def fibreTermW (o : Obj K) (d : Fin m) (comp : ℕ) (s : Fin m → Side) (u : Fin m → K) (J : Fin m → ℕ) : K :=
  (∏ k ∈ (Finset.univ : Finset (Fin m)).erase d,
      B (s k) (o.basis k).kn ((o.basis k).order - 1) (J k) (u k))
    * C04.wsum (s d) (o.basis d).kn ((o.basis d).order - 1) (o.basis d).nAll (o.basis d).numFunctions
        (C04.fibre o d (outerIdx o d (midx (fun k => J k % (o.basis k).numFunctions) comp))
          (innerIdx o d (midx (fun k => J k % (o.basis k).numFunctions) comp))) 0 (u d)

/-- **Fibre form of the defining sum along any direction `d`** (wrapped sum in `d`). -/
theorem toTP_eval_fibre_w {o : Obj K} (hw : C06.WF o m) (d : Fin m) (comp : ℕ) (hc : comp < o.ncomp)
    (s : Fin m → Side) (u : Fin m → K) :
    (toTP o m comp).eval s u
      = ∑ J ∈ Fintype.piFinset (Function.update (fun k : Fin m => range (o.basis k).nAll) d {0}),
          fibreTermW o d comp s u J := by
  rw [TP.eval_eq]
  have hpos : ∀ k : Fin m, 0 < (o.basis k).numFunctions := fun k => valid_numFunctions_pos (hw.valid k)
  show ∑ I ∈ Fintype.piFinset (fun k : Fin m => range (o.basis k).nAll),
      getIdx o.cps (midx (fun k => I k % (o.basis k).numFunctions) comp)
        * ∏ k, B (s k) (o.basis k).kn ((o.basis k).order - 1) (I k) (u k) = _
  rw [sum_piFinset_split (fun k : Fin m => range (o.basis k).nAll) d]
  apply Finset.sum_congr rfl
  intro J hJ
  unfold fibreTermW C04.wsum
  rw [Finset.mul_sum]
  apply Finset.sum_congr rfl
  intro j hj
  set I : Fin m → ℕ := fun k => Function.update J d j k % (o.basis k).numFunctions with hIdef
  have hIlt : ∀ k, I k < (o.basis k).numFunctions := fun k => Nat.mod_lt _ (hpos k)
  have hId : I d = j % (o.basis d).numFunctions := by
    rw [hIdef]; simp only [Function.update_self]
  have hIk : ∀ k, k ≠ d → I k = (fun k => J k % (o.basis k).numFunctions) k := by
    intro k hk; rw [hIdef]; simp only [Function.update_of_ne hk]
  obtain ⟨hget, _, _⟩ := getIdx_eq_fibre hw d I comp hIlt hc
  obtain ⟨ht, hdr⟩ := midx_take_congr I (fun k => J k % (o.basis k).numFunctions) comp d hIk
  rw [hget, hId]
  unfold outerIdx innerIdx
  rw [ht, hdr]
  rw [← Finset.mul_prod_erase Finset.univ _ (Finset.mem_univ d)]
  rw [Function.update_self]
  have hprod : ∏ k ∈ (Finset.univ : Finset (Fin m)).erase d,
        B (s k) (o.basis k).kn ((o.basis k).order - 1) (Function.update J d j k) (u k)
      = ∏ k ∈ (Finset.univ : Finset (Fin m)).erase d,
        B (s k) (o.basis k).kn ((o.basis k).order - 1) (J k) (u k) := by
    apply Finset.prod_congr rfl
    intro k hk
    rw [Function.update_of_ne (Finset.ne_of_mem_erase hk)]
  rw [hprod, dB_zero]
  ring

/-- Same evaluated map on the domain of direction `d`, which is itself unchanged. -/
structure SameMapOn (m : ℕ) (d : Fin m) (o o' : Obj K) : Prop where
  ncomp : o'.ncomp = o.ncomp
  start : (o'.basis d).start = (o.basis d).start
  stop : (o'.basis d).stop = (o.basis d).stop
  eval : ∀ comp, comp < o.ncomp → ∀ (s : Fin m → Side) (u : Fin m → K),
    (s d).mem (o.basis d).start (o.basis d).stop (u d) →
    (toTP o' m comp).eval s u = (toTP o m comp).eval s u

theorem SameMapOn.refl (d : Fin m) (o : Obj K) : SameMapOn m d o o := ⟨rfl, rfl, rfl, fun _ _ _ _ _ => rfl⟩

theorem SameMapOn.of_eq {d : Fin m} {o o' : Obj K} (h : o' = o) : SameMapOn m d o o' := by
  subst h; exact SameMapOn.refl d _

theorem SameMap.on {o o' : Obj K} (h : SameMap m o o') (d : Fin m)
    (hs : (o'.basis d).start = (o.basis d).start) (he : (o'.basis d).stop = (o.basis d).stop) :
    SameMapOn m d o o' :=
  ⟨h.ncomp, hs, he, fun comp hc s u _ => h.eval comp hc s u⟩

theorem SameMapOn.trans {d : Fin m} {o o' o'' : Obj K} (h1 : SameMapOn m d o o') (h2 : SameMapOn m d o' o'') :
    SameMapOn m d o o'' :=
  ⟨h2.ncomp.trans h1.ncomp, h2.start.trans h1.start, h2.stop.trans h1.stop, fun comp hc s u hu =>
    (h2.eval comp (by rw [h1.ncomp]; exact hc) s u (by rw [h1.start, h1.stop]; exact hu)).trans
      (h1.eval comp hc s u hu)⟩

/-- Same wrapped fibre splines on the domain of direction `d` ⇒ same evaluated map there. -/
theorem sameMapOn_of_fibres {o o' : Obj K} (hw : C06.WF o m) (hw' : C06.WF o' m) (d : Fin m)
    (hbases : ∀ k : Fin m, k ≠ d → o'.basis k = o.basis k) (hnc : o'.ncomp = o.ncomp)
    (hst : (o'.basis d).start = (o.basis d).start) (hen : (o'.basis d).stop = (o.basis d).stop)
    (hfib : ∀ a i, a < C04.outerN o d → i < C04.innerN o d → ∀ (sd : Side) (t : K),
      sd.mem (o.basis d).start (o.basis d).stop t →
      C04.wsum sd (o'.basis d).kn ((o'.basis d).order - 1) (o'.basis d).nAll (o'.basis d).numFunctions
          (C04.fibre o' d a i) 0 t
        = C04.wsum sd (o.basis d).kn ((o.basis d).order - 1) (o.basis d).nAll (o.basis d).numFunctions
          (C04.fibre o d a i) 0 t) :
    SameMapOn m d o o' := by
  refine ⟨hnc, hst, hen, fun comp hc s u hu => ?_⟩
  rw [toTP_eval_fibre_w hw' d comp (by rw [hnc]; exact hc) s u, toTP_eval_fibre_w hw d comp hc s u]
  have hsets : Function.update (fun k : Fin m => range (o'.basis k).nAll) d {0}
      = Function.update (fun k : Fin m => range (o.basis k).nAll) d {0} := by
    funext k
    by_cases hk : k = d
    · subst hk; simp
    · rw [Function.update_of_ne hk, Function.update_of_ne hk, hbases k hk]
  rw [hsets]
  apply Finset.sum_congr rfl
  intro J hJ
  rw [Fintype.mem_piFinset] at hJ
  have hJd : J d = 0 := by
    have := hJ d
    rw [Function.update_self] at this
    simpa using this
  have hpos : ∀ k : Fin m, 0 < (o.basis k).numFunctions := fun k => valid_numFunctions_pos (hw.valid k)
  unfold fibreTermW
  have hprod : ∏ k ∈ (Finset.univ : Finset (Fin m)).erase d,
        B (s k) (o'.basis k).kn ((o'.basis k).order - 1) (J k) (u k)
      = ∏ k ∈ (Finset.univ : Finset (Fin m)).erase d,
        B (s k) (o.basis k).kn ((o.basis k).order - 1) (J k) (u k) := by
    apply Finset.prod_congr rfl
    intro k hk
    rw [hbases k (Finset.ne_of_mem_erase hk)]
  rw [hprod]
  congr 1
  have hmod : (fun k : Fin m => J k % (o'.basis k).numFunctions) = (fun k : Fin m => J k % (o.basis k).numFunctions) := by
    funext k
    by_cases hk : k = d
    · subst hk; rw [hJd, Nat.zero_mod, Nat.zero_mod]
    · rw [hbases k hk]
  have hI0 : ∀ k : Fin m, (fun k : Fin m => J k % (o.basis k).numFunctions) k < (o.basis k).numFunctions :=
    fun k => Nat.mod_lt _ (hpos k)
  obtain ⟨_, hout, hinn⟩ := getIdx_eq_fibre hw d (fun k => J k % (o.basis k).numFunctions) comp hI0 hc
  have hshape_take : o'.cps.shape.take d = o.cps.shape.take d := by
    rw [hw'.shape, hw.shape, hnc]
    exact (midx_take_congr _ _ _ d (fun k hk => by rw [hbases k hk])).1
  have hshape_drop : o'.cps.shape.drop (d + 1) = o.cps.shape.drop (d + 1) := by
    rw [hw'.shape, hw.shape, hnc]
    exact (midx_take_congr _ _ _ d (fun k hk => by rw [hbases k hk])).2
  have hoi : outerIdx o' d (midx (fun k => J k % (o'.basis k).numFunctions) comp)
      = outerIdx o d (midx (fun k => J k % (o.basis k).numFunctions) comp) := by
    unfold outerIdx; rw [hmod, hshape_take]
  have hii : innerIdx o' d (midx (fun k => J k % (o'.basis k).numFunctions) comp)
      = innerIdx o d (midx (fun k => J k % (o.basis k).numFunctions) comp) := by
    unfold innerIdx; rw [hmod, hshape_drop]
  rw [hoi, hii]
  exact hfib _ _ hout hinn (s d) (u d) hu

/-- **`lower_periodic(k', direction=d)` keeps the evaluated map on the domain — curves, surfaces,
    volumes** (property C08): ANY valid periodic direction (no lower bound on the number of functions, no
    assumption on the seam multiplicity), `-1 ≤ k' ≤ k`.  The call succeeds, the result is well formed, direction `d` has
    continuity `k'`, the same order and domain, the other bases are untouched. -/
theorem lowerPeriodic_sameMapOn_num {o : Obj K} (hw : C06.WF o m) (d : Fin m) (k : ℕ)
    (hk : (o.basis d).periodic = (k : Int))
    (k' : Int) (h1 : -1 ≤ k') (h2 : k' ≤ k) :
    ∃ o', o.lowerPeriodic k' d = .ok o' ∧ C06.WF o' m ∧ SameMapOn m d o o'
      ∧ (o'.basis d).periodic = k' ∧ (o'.basis d).order = (o.basis d).order
      ∧ (o'.basis d).start = (o.basis d).start ∧ (o'.basis d).stop = (o.basis d).stop
      ∧ (∀ j : Fin m, j ≠ d → o'.basis j = o.basis j)
      ∧ (o'.basis d).numFunctions = (o.basis d).numFunctions + ((k : Int) - k').toNat := by
  have hsize : (d : ℕ) < o.bases.size := by rw [hw.size]; exact d.isLt
  have hax : (d : ℕ) < o.cps.shape.length := by rw [hw.shape, midx_length]; omega
  have hsh0 : o.cps.shape.getD d 0 = (o.basis d).numFunctions := by rw [hw.shape, midx_getD_lt]
  obtain ⟨o', hl, hv', hp', ho', hn', hs', he', hoth, _, hshape, hfib⟩ :=
    C08_lower_periodic o d hsize hax (hw.valid d) k hk hsh0 k' h1 h2
  have hbk : ∀ j : Fin m, j ≠ d → o'.basis j = o.basis j :=
    fun j hj => hoth j (fun e => hj (Fin.ext e))
  have hshape' : o'.cps.shape
      = midx (Function.update (fun j : Fin m => (o.basis j).numFunctions) d
          ((o.basis d).numFunctions + ((k : Int) - k').toNat)) o.ncomp := by
    rw [hshape, hw.shape, midx_set]
  have hnc : o'.ncomp = o.ncomp := ncomp_of_shape o' _ _ hshape'
  have hod := lowerPeriodic_onlyDir hl
  have hwf' : C06.WF o' m := by
    refine ⟨by rw [hod.size, hw.size], ?_, ?_⟩
    · intro j
      by_cases hj : j = d
      · subst hj; exact hv'
      · rw [hbk j hj]; exact hw.valid j
    · rw [hshape', hnc]
      congr 1
      funext j
      by_cases hj : j = d
      · subst hj; rw [Function.update_self, hn']
      · rw [Function.update_of_ne hj, hbk j hj]
  refine ⟨o', hl, hwf', sameMapOn_of_fibres hw hwf' d hbk hnc hs' he' ?_, hp', ho', hs', he', hbk, hn'⟩
  intro a i ha hi sd t ht
  rw [ho']
  exact hfib a i ha hi sd 0 t ht

/-- `lowerPeriodic_sameMapOn_num` without the count of functions. -/
theorem lowerPeriodic_sameMapOn {o : Obj K} (hw : C06.WF o m) (d : Fin m) (k : ℕ)
    (hk : (o.basis d).periodic = (k : Int))
    (k' : Int) (h1 : -1 ≤ k') (h2 : k' ≤ k) :
    ∃ o', o.lowerPeriodic k' d = .ok o' ∧ C06.WF o' m ∧ SameMapOn m d o o'
      ∧ (o'.basis d).periodic = k' ∧ (o'.basis d).order = (o.basis d).order
      ∧ (o'.basis d).start = (o.basis d).start ∧ (o'.basis d).stop = (o.basis d).stop
      ∧ (∀ j : Fin m, j ≠ d → o'.basis j = o.basis j) := by
  obtain ⟨o', a1, a2, a3, a4, a5, a6, a7, a8, _⟩ := lowerPeriodic_sameMapOn_num hw d k hk k' h1 h2
  exact ⟨o', a1, a2, a3, a4, a5, a6, a7, a8⟩

/-- `o'` at the parameters re-scaled in direction `d` is `o`, for parameters in the domain of `d`. -/
structure RescaledOn (m : ℕ) (d : Fin m) (a b : K) (o o' : Obj K) : Prop where
  ncomp : o'.ncomp = o.ncomp
  eval : ∀ comp, comp < o.ncomp → ∀ (s : Fin m → Side) (u : Fin m → K), (s d).mem a b (u d) →
    (toTP o' m comp).eval s (Function.update u d ((u d - a) / (b - a))) = (toTP o m comp).eval s u

theorem Rescaled.on {d : Fin m} {a b : K} {o o' : Obj K} (h : Rescaled m d a b o o') :
    RescaledOn m d a b o o' := ⟨h.ncomp, fun comp hc s u _ => h.eval comp hc s u⟩

theorem side_mem_rescale (sd : Side) {a b t : K} (hab : a < b) (h : sd.mem a b t) :
    sd.mem 0 1 ((t - a) / (b - a)) := by
  have hpos : 0 < b - a := sub_pos.mpr hab
  cases sd with
  | right =>
    obtain ⟨h1, h2⟩ := h
    exact ⟨div_nonneg (by linarith) (le_of_lt hpos), by rw [div_lt_one hpos]; linarith⟩
  | left =>
    obtain ⟨h1, h2⟩ := h
    exact ⟨div_pos (by linarith) hpos, by rw [div_le_one hpos]; linarith⟩

/-- `reparam` to `[0,1]` (all parameters) followed by a step that keeps the map on `[0,1]`. -/
theorem Rescaled.trans_on {d : Fin m} {a b : K} {o o' o'' : Obj K} (hab : a < b)
    (h1 : Rescaled m d a b o o') (h01 : (o'.basis d).start = 0 ∧ (o'.basis d).stop = 1)
    (h2 : SameMapOn m d o' o'') : RescaledOn m d a b o o'' := by
  refine ⟨h2.ncomp.trans h1.ncomp, fun comp hc s u hu => ?_⟩
  rw [h2.eval comp (by rw [h1.ncomp]; exact hc) s _ (by
    rw [Function.update_self, h01.1, h01.2]; exact side_mem_rescale (s d) hab hu)]
  exact h1.eval comp hc s u

/-- **Direction `i` periodic in object 2, open in object 1** (pair `a` after `reparam`): `lower_periodic`
    opens object 2 at the seam (C08), then the stages of `open_direction_any_order` run on the pair
    `b = (a.1, lowered a.2)`, whose bases of direction `i` are assumed in common-entry form. -/
theorem periodic_vs_open_direction (tol : K) (htol : 0 < tol) (c1 c2 : Bool) (p1 p2 : ℕ) (hp1 : 2 ≤ p1)
    (hp2 : 2 ≤ p2) (x0 xl : K) (L : List (K × ℕ × ℕ))
    (hsep : Separated tol (clampedU x0 xl (L.map (·.1))))
    (i : Fin m) (hi : (i : ℕ) ≤ 2)
    (a : Obj K × Obj K) (hw1 : C06.WF a.1 m) (hw2 : C06.WF a.2 m)
    (hb1 : a.1.basis i = openBasis p1 (clampedU x0 xl (L.map (·.1))) (clampedM p1 (L.map (·.2.1))))
    (k : ℕ) (hk : (a.2.basis i).periodic = (k : Int))
    (hb2 : ∀ o2, a.2.lowerPeriodic (-1) i = .ok o2 →
      o2.basis i = openBasis p2 (clampedU x0 xl (L.map (·.1))) (clampedM p2 (L.map (·.2.2))))
    (H_raise₁ : p1 < max p1 p2 → RaisesTo tol c1 m i p1 (max p1 p2) x0 xl L (·.1) (·.2.1) a.1)
    (H_raise₂ : p2 < max p1 p2 → ∀ o2, a.2.lowerPeriodic (-1) i = .ok o2 →
      RaisesTo tol c2 m i p2 (max p1 p2) x0 xl L (·.1) (·.2.2) o2) :
    ∃ b c r, Obj.stagePeriodic a i = .ok b ∧ b.1 = a.1 ∧ a.2.lowerPeriodic (-1) i = .ok b.2
      ∧ Obj.stageOrder tol c1 c2 b i = .ok c
      ∧ Obj.stageMerge tol (max (b.1.basis i).order (b.2.basis i).order) c i = .ok r
      ∧ r.1.basis i = openBasis (max p1 p2) (clampedU x0 xl (L.map (·.1)))
          (clampedM (max p1 p2) (L.map (fun e =>
            max (raisedMult (max p1 p2 - p1) e.2.1) (raisedMult (max p1 p2 - p2) e.2.2))))
      ∧ r.2.basis i = r.1.basis i
      ∧ SameMap m a.1 r.1 ∧ SameMapOn m i a.2 r.2
      ∧ (∀ j : Fin m, j ≠ i → r.1.basis j = a.1.basis j ∧ r.2.basis j = a.2.basis j)
      ∧ C06.WF r.1 m ∧ C06.WF r.2 m := by
  obtain ⟨o2, hl, hwo2, hson, _, _, _, _, hoth⟩ :=
    lowerPeriodic_sameMapOn hw2 i k hk (-1) (le_refl _) (by omega)
  have hper1 : (a.1.basis i).periodic = -1 := by rw [hb1]; rfl
  have hSP : Obj.stagePeriodic a i = .ok (a.1, o2) := by
    unfold Obj.stagePeriodic
    have hlt : (a.1.basis i).periodic < (a.2.basis i).periodic := by rw [hper1, hk]; omega
    simp only [hlt, if_true]
    rw [hper1, hl]
  obtain ⟨c, r, _, hSO, hSM, hr1, hr2, hs1, hs2, hkr, hwr1, hwr2⟩ :=
    open_direction_any_order tol htol c1 c2 p1 p2 hp1 hp2 x0 xl L hsep i hi (a.1, o2) hw1 hwo2 hb1 (hb2 o2 hl)
      H_raise₁ (fun h => H_raise₂ h o2 hl)
  have hp1' : 1 ≤ max p1 p2 := le_trans (by omega : 1 ≤ p1) (le_max_left _ _)
  have hdom2 : (r.2.basis i).start = (o2.basis i).start ∧ (r.2.basis i).stop = (o2.basis i).stop := by
    rw [hr2, hr1, hb2 o2 hl, clamped_start _ hp1', clamped_start p2 (by omega),
      clamped_stop _ hp1' x0 xl _ _ (by simp), clamped_stop p2 (by omega) x0 xl _ _ (by simp)]
    exact ⟨rfl, rfl⟩
  exact ⟨(a.1, o2), c, r, hSP, rfl, hl, hSO, hSM, hr1, hr2, hs1, hson.trans (hs2.on i hdom2.1 hdom2.2),
    fun j hj => ⟨(hkr j hj).1, ((hkr j hj).2).trans (hoth j hj)⟩, hwr1, hwr2⟩

end C12

end Splipy
